"""C19 - no data races outside the documented buffer exemption.

Proof part (Props/C19.lean): (1) C19_disciplined - every (field, function, kind) access in the table REGENERATED from
/repo's current source (tools/extract/access.go -> lean/Netpoll/Gen/Access.lean) complies with the hand-written
lockset-style policy Netpoll.Race.policyTab, checked by the kernel; (2) C19_ordered / C19_no_race / C19_race_free -
in any execution that satisfies the named ordering hypotheses (exclusive holders of the locker keys, slot token,
runNum, status CAS, spin locks, init-before-publish, API contract) policy-compliant conflicting accesses are ordered
by happens-before.
Tie / failing-input search (T-race): the real code under the race detector in the concurrency shapes of the
contract; a race report is a concrete failing schedule and is the replay."""
import os, re, json, shutil, subprocess, collections, time
from concurrent.futures import ThreadPoolExecutor
import common

LEVEL = 'proof'
PROP = 'C19'
MODULES = ['Netpoll.Props.C19']
MANIFEST = dict(
    text='Lean 4: a lockset-style discipline per shared field (atomic only / synchronisation object / written only before publication or while the slot is exclusively owned / '
         'owned by one role: single reader, single writer+flushing, FDOperator slot token, processing, connecting, poll loop, dial phase, runNum worker / guarded by one spin lock or mutex / '
         'reconfiguration only / two-token / counter hand-off), written by hand field by field for connection, netFD, onEvent, locker, FDOperator, operatorCache, defaultPoll, manager, balancers, server, '
         'eventLoop, listener, pollDesc, mux.ShardQueue and the package variables. Theorem C19_disciplined: every (field, function, kind) access in the table regenerated from the current source on every run '
         '(go/types; atomic = inside sync/atomic or forwarded to it; closures are separate functions; struct copies expand to fields; race-build files included) complies - kernel-checked by decide. '
         'Theorem C19_no_race: in every execution satisfying the named ordering hypotheses, two policy-compliant conflicting accesses are ordered by happens-before (no data race by the Go memory model). '
         'Independent search: nine workload kinds (close vs blocked read / flush, Detach vs peer close, callbacks + AddCloseCallback/SetOnRequest, server under traffic with Shutdown, concurrent dials incl. refused and timed-out, '
         'stream transfers, pool reconfiguration between phases, ShardQueue under load) run under the Go race detector, sharded over seeds; every race report (two stacks) is a violation with the workload/seed as replay.',
    note='partial (the weakest claim of the design): the ordering facts are HYPOTHESES of C19_no_race (they are the invariants of the C05/C06/C09/C10/C17/C18 models and the documented API contract, cited, not re-proved here); '
         'the role/lock annotation of each function is a trusted input at function granularity (the extractor does not check that an access sits lexically inside the critical section); only the listed structs and package variables are covered, '
         'LinkBuffer internals are the documented exemption; deadline setters are taken as part of the reader/writer role. The race-detector runs sample schedules. '
         'Not claimed here: atomicity of a check-then-act on an atomic-only field. Rewriting e.g. the close-once guard of netFD.Close (atomic.AddUint32(&closed,1) != 1) as an atomic load '
         'followed by an atomic store keeps every access atomic - no Go data race, the discipline still holds, the race detector stays silent - although two overlapping Close calls then both '
         'reach close(2). That is a violation of C15 (closed exactly once), not of this property; the guard is tied to the source there (Netpoll.Tie.Fd.netFD_close_decided_by_one_rmw) '
         'and concurrent Close calls on one netFD are executed by the C15 audit (scenario netfd-close-race).',
    technique='Lean 4 kernel-checked access discipline over a regenerated access table + generic race-freedom theorem over abstract executions + race-detector workloads', design='§6 C19')

WORKLOADS = ['close-vs-read', 'close-vs-flush', 'detach-vs-hup', 'callbacks', 'server-shutdown', 'dial', 'stream', 'reconfigure', 'shardqueue']
# function (or field) name -> workloads that reach it (heuristic; used to focus the escalated search and for the static coverage note)
REACH = [
    (r'^mux\.', ['shardqueue']),
    (r'^(manager\.|randomLB\.|roundRobinLB\.|newRoundRobinLB|newRandomLB|newManager|SetNumLoops|SetLoadBalance|openDefaultPoll|newOperatorCache|defaultPoll\.(Close|Wait)$)', ['reconfigure']),
    (r'^(server\.|eventLoop\.|listener\.|NewEventLoop|ConvertListener|newServer)', ['server-shutdown']),
    (r'^(pollDesc\.|netFD\.(dial|connect)|newPollDesc|newNetFD|selfConnect|Dial|dialer\.)', ['dial', 'server-shutdown']),
    (r'^(connection\.Detach|netFD\.Close)', ['detach-vs-hup', 'close-vs-read', 'callbacks']),
    (r'^connection\.(waitFlush|flush|Flush|Write|outputs|outputAck|rw2r|triggerWrite|SetWrite)', ['close-vs-flush', 'callbacks', 'stream']),
    (r'^connection\.(on[A-Z]|SetOn|AddClose|closeCallback|initFinalizer|closeBuffer)', ['callbacks', 'server-shutdown', 'detach-vs-hup', 'close-vs-read']),
    (r'^connection\.(Set(Read)?Deadline|SetReadTimeout|waitRead)', ['close-vs-read', 'callbacks', 'server-shutdown']),
    (r'^(connection\.|FDOperator\.|operatorCache\.|defaultPoll\.|pollArgs\.|locker\.|readall|netFD\.)', ['close-vs-read', 'close-vs-flush', 'callbacks', 'detach-vs-hup', 'stream']),
    (r'^(Configure|SetLoggerOutput|NewFDConnection|mux\.init|exception\.|mapErr|DialTCP|unixSocket|UnsafeLinkBuffer\.|newLinkBufferNode|linkBufferNode\.)', []),
]

def reach(fn):
    for pat, ws in REACH:
        if re.search(pat, fn): return ws
    return list(WORKLOADS)

# ---------------------------------------------------------------- race reports

HDR = re.compile(r'^(Previous )?(atomic )?(read|write) at 0x[0-9a-f]+ by (main goroutine|goroutine \d+):', re.I)

def parse_reports(stderr):
    """[(signature, text)] ; signature = sorted pair of (op, function, file:line) of the two conflicting accesses"""
    out = []
    blocks = stderr.split('==================')
    for b in blocks:
        if 'WARNING: DATA RACE' not in b: continue
        lines = b.strip('\n').split('\n')
        accs = []
        i = 0
        while i < len(lines):
            m = HDR.match(lines[i].strip())
            if m:
                op = ('atomic ' if m.group(2) else '') + m.group(3).lower()
                frames = []
                j = i + 1
                while j + 1 < len(lines) and lines[j].startswith('  ') and lines[j].strip():
                    fn = lines[j].strip(); loc = lines[j + 1].strip().split(' ')[0]
                    frames.append((fn, loc)); j += 2
                real = [f for f in frames if not f[1].startswith('<')]
                pick = next((f for f in real if 'cloudwego/netpoll' in f[0] and 'zz_verif' not in f[1]), (real or frames or [('?', '?')])[0])
                fn = re.sub(r'\(\)$', '', pick[0]); fn = fn.replace('github.com/cloudwego/netpoll/', '').replace('github.com/cloudwego/netpoll.', '')
                fn = fn.replace('(*', '').replace(')', '')
                loc = os.path.basename(pick[1].rsplit(':', 1)[0]) + ':' + pick[1].rsplit(':', 1)[-1] if ':' in pick[1] else pick[1]
                accs.append((op, fn, loc))
                i = j
            else:
                i += 1
        sig = ' | '.join('%s %s %s' % a for a in sorted(accs[:2]))
        out.append((sig or 'unparsed', b.strip('\n')))
    return out

def run_shard(binary, seed, n, which):
    env = dict(os.environ, GORACE='halt_on_error=0 history_size=2')
    cmd = [binary, '-seed', str(seed), '-n', str(n)] + (['-which', which] if which else [])
    try:
        p = subprocess.run(cmd, stdout=subprocess.PIPE, stderr=subprocess.PIPE, text=True, timeout=2400, env=env)
        out, err, rc = p.stdout, p.stderr, p.returncode
    except subprocess.TimeoutExpired as e:
        out, err, rc = (e.stdout or b'').decode() if isinstance(e.stdout, bytes) else (e.stdout or ''), (e.stderr or b'').decode() if isinstance(e.stderr, bytes) else (e.stderr or ''), -9
    counts = {}
    m = re.search(r'workloads map\[(.*?)\]', out)
    if m:
        for kv in m.group(1).split():
            k, v = kv.rsplit(':', 1); counts[k] = int(v)
    crashed = None
    if rc not in (0, 66) and not m:
        crashed = 'exit %s: %s' % (rc, (err.strip().split('\n') or ['?'])[-1][:300]) if rc != -9 else 'timeout'
        pm = re.search(r'^(panic: .*|fatal error: .*)$', err, re.M)
        if pm: crashed = pm.group(1)[:300]
    return dict(seed=seed, n=n, which=which, counts=counts, reports=parse_reports(err), crashed=crashed, cmd='go/bin/raceh-race -seed %d -n %d%s' % (seed, n, (' -which ' + which) if which else ''))

def run_many(binary, jobs, workers=16):
    with ThreadPoolExecutor(max_workers=workers) as ex:
        return list(ex.map(lambda j: run_shard(binary, *j), jobs))

# ---------------------------------------------------------------- policy diagnostics (compiled Lean, npdriver race)

def policy_rows():
    if not os.path.exists(common.DRIVER): return None
    p = subprocess.run([common.DRIVER, 'race'], stdout=subprocess.PIPE, stderr=subprocess.STDOUT, text=True, timeout=300)
    if p.returncode != 0: return None
    rows = []
    for l in p.stdout.split('\n'):
        t = l.split('\t')
        if len(t) == 5: rows.append(dict(field=t[0], fn=t[1], kind=t[2], disc=t[3], ok=t[4] == 'ok'))
    return rows

def table_stats(rep, rows):
    live = [r for r in rows if r['disc'] != 'stale']
    per_disc_rows = collections.Counter(r['disc'] for r in live)
    per_disc_fields = collections.Counter(d for f, d in set((r['field'], r['disc']) for r in live))
    kinds = collections.Counter(r['kind'] for r in live)
    # static note: fields none of whose accessor functions is reached by a workload (heuristic map REACH)
    by_field = collections.defaultdict(set)
    for r in live: by_field[r['field']].add(r['fn'])
    unreached = sorted(f for f, fns in by_field.items() if not any(reach(fn) for fn in fns))
    single = sorted(f for f, fns in by_field.items() if len(fns) == 1 and f not in unreached)
    rep.cov.update(access_table_rows=len(live), access_rows_disciplined=sum(1 for r in live if r['ok']), shared_fields=len(by_field),
                   fields_per_discipline=dict(per_disc_fields), rows_per_discipline=dict(per_disc_rows), rows_per_kind=dict(kinds),
                   stale_policy_entries=[r['field'] for r in rows if r['disc'] == 'stale'],
                   fields_not_reached_by_any_workload_static=unreached, fields_with_a_single_accessor_function=single)

# ---------------------------------------------------------------- main

def report_races(rep, results, label='', suffix=''):
    sigs = collections.OrderedDict()
    for r in results:
        for sig, text in r['reports']:
            sigs.setdefault(sig, []).append((r, text))
    for sig, hits in sigs.items():
        r, text = hits[0]
        runs = collections.OrderedDict((h[0]['cmd'], h[0]) for h in hits)
        rep.violation('%sGo data race (%d report(s) in %d run(s)): %s%s' % (label, len(hits), len(runs), sig, suffix),
                      ['run seed=%d n=%d which=%s' % (x['seed'], x['n'], x['which'] or '-') for x in list(runs.values())[:5]] +
                      ['sig ' + sig, '# re-run by hand: cd /verif && GORACE=halt_on_error=0 ' + r['cmd'], '# race detector report:'] + ['| ' + l for l in text.split('\n')], tag='race-')
    return sigs

def corpus_jobs():
    """regression replays of past findings (corpus/C19/*.txt, `run seed= n= which=` lines): always run first"""
    d = os.path.join(common.VERIF, 'corpus', PROP); jobs = []
    if os.path.isdir(d):
        for f in sorted(os.listdir(d)):
            for l in open(os.path.join(d, f)):
                m = re.match(r'run seed=(\d+) n=(\d+) which=(\S+)', l)
                if m: jobs.append((int(m.group(1)), int(m.group(2)), '' if m.group(3) == '-' else m.group(3)))
    return jobs

def run(rep):
    wd = os.path.join(common.WORK, PROP); shutil.rmtree(wd, ignore_errors=True); os.makedirs(wd)
    thorough = rep.tier == 'thorough'
    shards, n = (16, 100) if thorough else (6, 16)
    with ThreadPoolExecutor(max_workers=2) as ex:
        fproof = ex.submit(common.proof_stage, rep, MODULES, ['npdriver'])
        fbuild = ex.submit(common.build_harness, 'raceh', True)
        ok, detail = fproof.result()
        binary, out = fbuild.result()
    proof_broken = None if ok else detail
    if binary is None:
        rep.violation('race harness does not build against /repo:\n' + out[-2000:], ['# go build -race failed'], no_input=True); return
    t0 = time.time()
    jobs = corpus_jobs() + [(rep.seed * 1000 + i, n, '') for i in range(shards)]
    results = run_many(binary, jobs)
    # diagnostics of the discipline table from the compiled policy (names the non-complying access when the theorem broke)
    if not os.path.exists(common.DRIVER) or proof_broken: common.lake_build(['npdriver'])
    rows = policy_rows()
    bad = [r for r in rows if not r['ok']] if rows else []
    if proof_broken and rows is not None and not any(rs['reports'] for rs in results):
        # a new undisciplined access and no race seen: escalate x5 on the workloads that reach the named functions
        focus = sorted(set(w for r in bad for w in reach(r['fn']))) or list(WORKLOADS)
        ejobs = [(rep.seed * 1000 + 500 + i, n * 5, focus[i % len(focus)]) for i in range(max(shards, len(focus)) * (1 if thorough else 2))]
        rep.notes.append('proof stage broken -> escalated race search: %d runs x n=%d on %s' % (len(ejobs), n * 5, ','.join(focus)))
        results += run_many(binary, ejobs)
    counts = collections.Counter()
    for r in results: counts.update(r['counts'])
    suffix = ''
    if proof_broken and bad:
        suffix = ' [the proof stage broke as well: %d access(es) of the regenerated table do not comply with the policy, first (%s, %s, %s), discipline of the field: %s]' % (
            len(bad), bad[0]['field'], bad[0]['fn'], bad[0]['kind'], bad[0]['disc'])
        rep.cov['undisciplined_accesses'] = ['(%s, %s, %s) discipline=%s' % (b['field'], b['fn'], b['kind'], b['disc']) for b in bad[:40]]
    elif proof_broken:
        suffix = ' [the proof stage broke as well: %s]' % proof_broken.split('\n')[0][:200]
    sigs = report_races(rep, results, suffix=suffix)
    crashed = [r for r in results if r['crashed']]
    rep.cov['corpus_replays'] = len(corpus_jobs())
    rep.cov.update(evaluations=sum(counts.values()), distinct_nontrivial=len(set((w, r['seed']) for r in results for w, c in r['counts'].items() if c)),
                   rule='one evaluation = one execution of a workload scenario (parameters derived from the shard seed) on the real code built with -race; '
                        'distinct_nontrivial = distinct (workload kind, shard seed) pairs executed; every scenario runs >= 2 goroutines against one connection / server / queue / the poller pool',
                   samples=[r['cmd'] + ' => ' + json.dumps(r['counts'], sort_keys=True) for r in results[:3]],
                   workloads_run_per_kind=dict(counts), race_reports=sum(len(r['reports']) for r in results), distinct_race_signatures=list(sigs.keys()),
                   race_run_wall_s=round(time.time() - t0, 1), traces_validated_against_impl=sum(counts.values()))
    if rows: table_stats(rep, rows)
    rep.assumptions += ['ordering hypotheses of C19_no_race (exclusive holders of processing / connecting / flushing / slot token / runNum / status CAS / spin locks; init-before-publish; reset-after-retire; trigger counter hand-off) are taken from the C05/C06/C09/C10/C17/C18 models and the API contract',
                        'role / lock annotations in Netpoll.Race.policyTab are trusted at function granularity',
                        'deadline and timeout setters are called by the goroutine that reads / writes (part of the single-reader / single-writer contract)',
                        'SetNumLoops / SetLoadBalance / Configure / SetLoggerOutput are not concurrent with connection creation (documented)',
                        'A-go-mm: sync/atomic operations are sequentially consistent synchronisation operations',
                        'race detector runs sample schedules; a shared field may be touched by only one goroutine in a given run (no per-field two-goroutine instrumentation; the evidence lists, statically, the fields no workload reaches and the fields with a single accessor function)']
    if crashed and not sigs:
        rep.notes.append('workload processes that ended abnormally: ' + '; '.join('%s: %s' % (c['cmd'], c['crashed']) for c in crashed[:5]))
    if proof_broken and not sigs:
        if bad:
            rep.violation('access discipline broken and no race report in %d workload executions (incl. escalated search): %d access(es) of the regenerated table no longer comply with Netpoll.Race.policyTab, first: '
                          '(%s, %s, %s) [discipline of the field: %s]' % (sum(counts.values()), len(bad), bad[0]['field'], bad[0]['fn'], bad[0]['kind'], bad[0]['disc']),
                          ['theorem Netpoll.Props.C19.C19_disciplined'] + ['access field=%s fn=%s kind=%s discipline=%s' % (b['field'], b['fn'], b['kind'], b['disc']) for b in bad[:40]] +
                          ['# ' + l for l in proof_broken.split('\n')[:20]], no_input=True, tag='discipline-')
        else:
            rep.violation('proof obligation broken, no race report found: %s' % proof_broken, ['theorem Netpoll.Props.C19'] + ['# ' + l for l in proof_broken.split('\n')], no_input=True)

def replay(rep, path):
    lines = [l for l in open(path).read().split('\n') if l.strip() and not l.startswith('#') and not l.startswith('|')]
    runs = [l for l in lines if l.startswith('run ')]
    if runs:
        binary, out = common.build_harness('raceh', race=True)
        if binary is None:
            rep.violation('race harness does not build:\n' + out[-1500:], lines, no_input=True); return rep.finish(LEVEL)
        want = [l[4:] for l in lines if l.startswith('sig ')]
        found = collections.Counter(); execs = 0
        for l in runs:
            m = re.match(r'run seed=(\d+) n=(\d+) which=(\S+)', l)
            seed, n, which = int(m.group(1)), int(m.group(2)), m.group(3)
            for attempt in range(6):
                res = run_many(binary, [(seed, n, '' if which == '-' else which)] * 4, workers=4)
                execs += sum(sum(r['counts'].values()) for r in res)
                for r in res:
                    for sig, text in r['reports']: found[sig] += 1
                print('REPLAY: %s attempt %d: %s' % (l, attempt + 1, dict(found) or 'no race report'))
                if found: break
            if found: break
        rep.cov['evaluations'] = execs
        if found:
            same = [s for s in found if s in want]
            rep.violation('replay reproduces a data race under the race detector: %s%s' % ((same or list(found))[0], '' if same or not want else ' (different signature than recorded)'), lines)
        return rep.finish(LEVEL)
    ok, detail = common.proof_stage(rep, MODULES, ['npdriver'])
    if not ok: common.lake_build(['npdriver'])
    rows = policy_rows() or []
    bad = [r for r in rows if not r['ok']]
    for b in bad: print('REPLAY: access (%s, %s, %s) does not comply with discipline %s' % (b['field'], b['fn'], b['kind'], b['disc']))
    rep.cov['evaluations'] = len(rows)
    if not ok or bad:
        rep.violation('replay: the access discipline still does not check: %s' % (('(%s, %s, %s)' % (bad[0]['field'], bad[0]['fn'], bad[0]['kind'])) if bad else detail), lines, no_input=True)
    return rep.finish(LEVEL)
