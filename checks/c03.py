"""C03 - pool blocks are returned at most once; caller-owned memory never."""
import ownrun
LEVEL = 'proof'
PROP = 'C03'
MODULES = ['Netpoll.Props.C03']
MANIFEST = dict(
    text='Lean 4 theorems over the ownership ledger model of LinkBuffer: every pool block is freed at most once, only pool blocks are freed, a block is freed only when no chained node or live view refers to it, caller memory and private copies are never freed or written - for all operation sequences over any number of buffers, Slice readers and appended buffers. '
         'Tied to the code by the instrumented allocator\'s event log (allocation sequence numbers, so pool reuse cannot hide anything) compared with the ledger model, and by checksums of caller memory.',
    note='Known finding D4 (WriteDirect split shares one block between an unmanaged head and a managed tail) is listed in known_findings.jsonl and excluded by an explicit hypothesis. Correspondence is sampling. sync.Pool of node structs is modelled as "recycled once" only.',
    technique='Lean 4 invariant proof over an ownership ledger model + instrumented-allocator event correspondence', design='§6 C03')
def run(rep): ownrun.check(rep, PROP, ownrun.C03_KINDS, MODULES)
def replay(rep, path): return ownrun.replay(rep, PROP, ownrun.C03_KINDS, path)
