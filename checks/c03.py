"""C03 - pool blocks are returned at most once; caller-owned memory never."""
import ownrun
LEVEL = 'proof'
PROP = 'C03'
MODULES = ['Netpoll.Props.C03']
MANIFEST = dict(
    text='Lean 4 theorems over the ownership ledger model of LinkBuffer (Netpoll.Buf.Owner), for all operation sequences over any number of buffers, Slice readers and appended buffers, including Close with Slice readers outstanding: '
         'every block is freed at most once (C03_free_once, unconditional, by counting ownership tokens); only pool blocks <= mallocMax are ever freed, never caller memory or private copies (C03_free_only_pool, C03_private_copy_never_freed, unconditional); '
         'caller memory is never written (C03_caller_untouched_partial, hypothesis: book only on an input buffer); a block is freed only when no chained node of any reader refers to it and every node struct is recycled at most once '
         '(C03_free_after_release_partial, C03_node_recycled_once_partial, under Cov: no WriteDirect split, see D4). '
         'Tied to the code by the instrumented allocator: event log (allocation sequence numbers, so pool reuse cannot hide anything), per-node reference counts / blocks / origins compared op by op with the ledger model, checksums of caller memory. '
         'Implementation-side oracle on every Free: once, a pool block, no live view, no chained node on it afterwards, and - checked at the very moment of the Free - no node between the read cursor and the write node of any live buffer '
         'with readable or pending bytes on it (Close of that buffer excepted). Ownership runs use one P so that linkedPool hands a recycled node struct to the next allocation; the generator includes a directed class '
         '(multi-node input consumed node by node by exposing / non-exposing reads with connection-style Reads in between, new nodes taken, Release last).',
    note='Known finding D4 (WriteDirect split shares one block between an unmanaged head and a managed tail) is listed in known_findings.jsonl, excluded by an explicit per-call hypothesis and proved as a witness (C03_D4_witness). '
         'Correspondence is sampling. sync.Pool of node structs is modelled as a counter (recycled at most once); a struct is never reused by the model.',
    technique='Lean 4 invariant proofs (typing, token counting, reference counts) over an ownership ledger model + instrumented-allocator event and node-ledger correspondence', design='§6 C03')
def run(rep): ownrun.check(rep, PROP, ownrun.C03_KINDS, MODULES)
def replay(rep, path): return ownrun.replay(rep, PROP, ownrun.C03_KINDS, path)
