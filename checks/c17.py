"""C17 - ShardQueue executes every added writer once and flushes it.
Theorems: lean/Netpoll/Props/C17.lean (model lean/Netpoll/Shard.lean, invariant lean/Netpoll/ShardInv/*.lean).
Tie: T-gen step tables (lean/Netpoll/Tie/Shard.lean) + T-sched: the REAL mux.ShardQueue, instrumented at build time
with one schedule point per atomic step, run under a controlled scheduler over systematically enumerated and random
schedules; `npdriver shard` replays every trace through the Lean `step` (site + full shared state after every step)
and evaluates the spec on the implementation's own observations."""
import glob, json, os, shutil
import common, shardrun

LEVEL = 'proof'
PROP = 'C17'
MANIFEST = dict(
   text='Lean 4 theorems over an interleaving model of mux.ShardQueue with one model step per atomic step of shard_queue.go '
        '(any number of concurrent Add and Close calls, any number of shards, every schedule): each getter invoked at most once, '
        'single worker, locks exclusive, ring never overwrites an unconsumed entry, and at quiescence '
        'trigger = 0, all shards empty and every getter not ignored was invoked exactly once and flushed; Adds after Close ignored; '
        'Close waits: when Close returns nil every getter of every Add that had returned by the time of its CAS has been invoked '
        '(C17_close_waits, a statement about the whole run, no side condition on Adds in flight). '
        'Add() without getters and the int32 wrap of idx are in contract (the four defects the earlier version recorded as findings are '
        'repaired in /repo; the model mirrors the repaired code; the failing histories are corpus replays). '
        'The model is tied to /repo on every run by regenerated per-function step tables and the two local computations of Add '
        '(kernel-checked equality with the model\'s program counters / expected text) '
        'and by trace conformance of the real, build-time instrumented ShardQueue under a controlled scheduler '
        '(site and all shared words compared after every atomic step), with the spec evaluated on the implementation\'s observations.',
   note='Trusted: Lean kernel; axioms propext/Classical.choice/Quot.sound; tools/extract (site analysis + instrumenter: a sync/atomic call is replaced by a '
        'wrapper that parks and then performs the same call, plain-access runs / mutex ops / RunTask get a parking statement in front); the scheduler harness '
        '(go/inpkg_mux/shard.go: stub connection, runner.RunTask replaced by go f()); the npdriver trace parser. Correspondence is sampling of schedules '
        '(systematic up to a preemption bound for small scenarios + seeded random walks; a Close call whose wait loop has failed once is not scheduled for '
        'another pass while a shard is non-empty or trigger != 0). Assumed: sequentially consistent sync/atomic; a maximal run of plain '
        'accesses between two sync operations is one step (justified by the proved lock / single-worker / ring-slot exclusions); RunTask runs its task once, '
        'asynchronously; fair scheduling for termination (a variant and no-deadlock are proved, termination under fairness is not). '
        'Close waits is about getters being invoked, not flushed: the worker\'s Flush may follow the return of Close. '
        'Out of contract: NewShardQueue(0).',
   technique='Lean 4 invariant proof over an interleaving model (list of adder-local states, counter abstraction for tail workers and Close calls before their CAS, '
             'one slot for the Close call that won it) + T-gen step tables + controlled-scheduler trace conformance on the real code', design='§6 C17')
MODULES = ['Netpoll.Props.C17', 'Netpoll.Tie.Shard']
MIRRORED = ('mux.ShardQueue.', 'mux.NewShardQueue')

def fingerprint_changes():
    exp_path = os.path.join(common.VERIF, 'lib/expected_fp.json')
    exp = json.load(open(exp_path)) if os.path.exists(exp_path) else {}
    cur = common.facts()['funcs']
    changed = [n for n, f in cur.items() if n.startswith(MIRRORED) and exp.get(n) != f['hash']]
    changed += [n + ' (removed)' for n in exp if n.startswith(MIRRORED) and n not in cur]
    return changed

def jobs_for(tier, seed, escalate):
    """(name, flags) list. dfs = all schedules up to the preemption bound (capped by -max), rand = seeded walks."""
    big = tier == 'thorough'
    m = (10000 if big else 1500) * (4 if escalate else 1)
    pbx = 1 if (big or escalate) else 0
    J = []
    def dfs(name, scen, pb, parts=1, mx=None):
        for i in range(parts):
            f = scen.split() + ['-mode', 'dfs', '-pb', str(pb + pbx), '-max', str(mx or m)]
            if parts > 1: f += ['-part', '%d/%d' % (i, parts)]
            J.append(('%s-p%d' % (name, i), f))
    def rnd(name, scen, n, k=1):
        for i in range(k):
            J.append(('%s-r%d' % (name, i), scen.split() + ['-mode', 'rand', '-n', str(n * (4 if escalate else 1)), '-seed', str(seed * 1000 + i), '-dedup']))
    P = 4 if big else 1
    dfs('s1a2c1', '-size 1 -adders 1,1 -closers 1', 3, P)
    dfs('s2a3', '-size 2 -adders 1,1,1', 2, P)
    dfs('s2a2c1nil', '-size 2 -adders 1,2 -closers 1 -nilids 2', 2, P)
    dfs('s2a5burst', '-size 2 -adders 1,1,1,1,1', 1, P)
    dfs('s1a3c2', '-size 1 -adders 1,1,1 -closers 2', 2, P)
    dfs('s2a2c1die', '-size 2 -adders 2,1 -closers 1 -die', 2, P)
    dfs('s2a2apperr', '-size 2 -adders 2,1 -apperr 1', 2)
    dfs('s2a2flusherr', '-size 2 -adders 1,1 -closers 1 -flusherr 1', 2)
    dfs('s3a4', '-size 3 -adders 1,1,1,1', 1, P)
    # Add() without getters, the int32 wrap of idx (2 shards: 2^31-2; 3 shards: the uint32 wrap, where the round robin skips), Close during both
    dfs('s2a4empty', '-size 2 -adders 1,0,1,0', 1)
    dfs('s2a3emptyc1', '-size 2 -adders 0,1,0 -closers 1', 2)
    dfs('s2a3wrap', '-size 2 -adders 1,1,1 -idx0 2147483646', 1)
    dfs('s3a3wrapu', '-size 3 -adders 1,1,1 -idx0 -2 -closers 1', 1)
    dfs('s2a2c2', '-size 2 -adders 1,1 -closers 2', 2, P)
    rnd('r-s2a4c1', '-size 2 -adders 1,1,2,1 -closers 1', 8000 if big else 700, 8 if big else 2)
    rnd('r-s3a6', '-size 3 -adders 1,2,1,1,1,1', 6000 if big else 500, 8 if big else 2)
    rnd('r-s2a8wrap', '-size 2 -adders 1,1,1,1,1,1,1,1 -closers 1', 4000 if big else 300, 4 if big else 1)
    rnd('r-s4a5c2die', '-size 4 -adders 1,1,3,1,1 -closers 2 -die', 4000 if big else 300, 4 if big else 1)
    return J

def stress_jobs(tier, seed):
    n = 200000 if tier == 'thorough' else 20000
    return [('st-%d' % i, sc.split() + ['-mode', 'stress', '-n', str(n), '-seed', str(seed * 100 + i)])
            for i, sc in enumerate(['-size 1 -adders 1,1,1 -closers 1', '-size 2 -adders 1,2,1 -closers 1', '-size 2 -adders 1,1,1,1,1,1',
                                    '-size 3 -adders 2,1,1,1', '-size 2 -adders 1,1,1 -closers 2 -die', '-size 4 -adders 1,1,1,1,1,1,1,1'])]

def corpus_files():
    return sorted(glob.glob(os.path.join(common.VERIF, 'corpus', PROP, '*.sched')))

def run_corpus(binary, wd):
    """the schedules that failed before a fix (corpus/C17/*.sched, same format as a replay file), replayed first"""
    out = []
    for f in corpus_files():
        flags, sched = shardrun.parse_replay(f)
        if flags is None:
            continue
        r = shardrun.run_one(binary, wd, 'corpus-' + os.path.splitext(os.path.basename(f))[0], flags + ['-mode', 'replay', '-sched', sched or ''])
        r['corpus'] = os.path.basename(f)
        out.append(r)
    return out

def run(rep, prop=PROP):
    wd = os.path.join(common.WORK, prop); shutil.rmtree(wd, ignore_errors=True); os.makedirs(wd)
    ok, detail = common.proof_stage(rep, MODULES, ['npdriver'])
    proof_broken = None if ok else detail
    if not ok:
        common.lake_build(['npdriver'])   # the driver does not depend on the Tie lemmas
    changed = fingerprint_changes() if os.path.exists(os.path.join(common.WORK, 'facts.json')) else []
    if changed:
        rep.notes.append('mirrored functions whose source changed since the model was written (search budget escalated): ' + ', '.join(changed))
    binary, mode, bmsg = shardrun.build()
    if binary is None:
        rep.violation('harness does not build against /repo (does the tree compile?):\n' + bmsg[-2000:], ['# go build failed'], no_input=True)
        return
    if not os.path.exists(common.DRIVER):
        rep.violation('npdriver does not build: ' + (proof_broken or ''), ['# lake build npdriver failed'], no_input=True)
        return
    rep.cov['mode'] = mode
    if mode == 'stress':
        rep.notes.append('instrumenter refused the source (%s): hook-free stress + outcome oracle only' % bmsg.strip()[:600])
    escalate = bool(changed) or proof_broken is not None or mode == 'stress' or os.environ.get('VERIF_C17_ESCALATE') == '1'
    rep.assumptions += ['A-go-mm: sync/atomic operations are sequentially consistent; a maximal run of plain accesses between two synchronisation operations acts as one step',
                        'A-runtask: runner.RunTask runs the task exactly once, asynchronously (harness: go f())',
                        'A-sched-fair: every enabled goroutine is eventually scheduled (termination is not proved, only quiescence is characterised)',
                        'contract: size > 0 (NewShardQueue(0) divides by zero in Add)',
                        'stub connection: IsActive/Append/Flush of the harness stub; Append error and Flush error close the connection']
    if mode == 'hooks':
        corpus = run_corpus(binary, wd)
        results = shardrun.run_many(binary, wd, jobs_for(rep.tier, rep.seed, escalate))
    else:
        corpus = []
        results = shardrun.run_many(binary, wd, stress_jobs(rep.tier, rep.seed), nomodel=True)
    # a corpus schedule that does not apply to this tree any more (rc 2: the code takes different steps) is only noted
    stale = [r['corpus'] for r in corpus if r['rc'] == 2 and not r['spec_fail']]
    if stale:
        rep.notes.append('corpus schedules that do not apply to this tree (the code takes different steps): ' + ', '.join(stale))
    results = [r for r in corpus if r['corpus'] not in stale] + results
    broken = [r for r in results if r['rc'] != 0 or not r['dsum']]
    runs = sum(int(r['dsum'].get('runs', 0) or 0) for r in results)
    sites = {}
    for r in results:
        for s, n in r['sites'].items(): sites[s] = sites.get(s, 0) + n
    conf_fail = [(r, k, m) for r in results for k, m in r['conf_fail']]
    spec_fail = [(r, k, m) for r in results for k, m in r['spec_fail']]
    maxpre = max([int(r['hsum'].get('maxpreempt', 0) or 0) for r in results] + [0])
    rep.cov['evaluations'] = runs
    rep.cov['distinct_nontrivial'] = sum(int(r['hsum'].get('printed', 0) or 0) for r in results)
    rep.cov['rule'] = ('schedules of the real ShardQueue executed under the controlled scheduler (one goroutine runs between two schedule points); dfs jobs enumerate every '
                       'schedule of the scenario up to the preemption bound (each is a distinct actor/site sequence), rand jobs are seeded walks printed only when their '
                       'actor/site sequence is new; distinct_nontrivial = distinct actor/site sequences; every one of them is replayed step by step through Netpoll.Shard.step '
                       'with the site and all shared words compared, and judged by the spec oracle')
    rep.cov['max_preemptions'] = maxpre
    rep.cov['steps_compared'] = sum(int(r['dsum'].get('lines', 0) or 0) for r in results)
    rep.cov['sites_hit'] = sites
    allsites = ['Add#0', 'Add#1', 'Add#2', 'lock#0', 'unlock#0', 'triggering#0', 'triggering#1', 'triggering#2', 'triggering#3'] + \
               ['foreach#%d' % i for i in range(9)] + ['Close#0', 'Close#1', 'drained#0', 'drained#1'] + ['conn.IsActive', 'getter', 'conn.Flush', 'die']
    rep.cov['sites_never_hit'] = [s for s in allsites if s not in sites] if mode == 'hooks' else ['(stress mode: no sites)']
    rep.cov['traces_validated_against_impl'] = runs - len(conf_fail) if mode == 'hooks' else 0
    rep.cov['quiescent_runs'] = sum(int(r['dsum'].get('quiescent', 0) or 0) for r in results)
    rep.cov['runs_in_which_close_returned_nil'] = sum(int(r['dsum'].get('close_nil', 0) or 0) for r in results)
    rep.cov['corpus'] = [dict(file=r['corpus'], runs=r['dsum'].get('runs'), conf_fail=len(r['conf_fail']), spec_fail=len(r['spec_fail'])) for r in corpus]
    rep.cov['jobs'] = [dict(name=r['name'], flags=' '.join(r['flags']), runs=r['dsum'].get('runs'), t_harness=r.get('t_harness'), t_driver=r.get('t_driver')) for r in results]
    rep.cov['samples'] = []
    for r in [r for r in results if r.get('sample')][:2]:
        rep.cov['samples'].append(dict(job=r['name'], flags=' '.join(r['flags']), run0=r['sample']))
    # ---- verdict
    if spec_fail:
        r, k, m = spec_fail[0]
        rep.violation('the real ShardQueue violates the C17 spec in %d of %d schedules; first: job %s run %d: %s' % (len(spec_fail), runs, r['name'], k, m),
                      shardrun.replay_lines(r, k, m))
    elif broken:
        r = broken[0]
        rep.violation('correspondence run did not complete (job %s, rc=%s, driver rc=%s): %s' % (r['name'], r['rc'], r.get('drc'), r['harness_out'][-600:]),
                      ['flags: ' + ' '.join(shardrun.scenario_flags(r['flags'])), 'sched: ', '# harness or driver failed'], no_input=True)
    elif conf_fail:
        r, k, m = conf_fail[0]
        rep.violation('trace conformance Netpoll.Shard <-> mux/shard_queue.go no longer checks (%d of %d schedules; first: job %s run %d: %s) and no spec-violating '
                      'schedule was found in the escalated search' % (len(conf_fail), runs, r['name'], k, m), shardrun.replay_lines(r, k, m), no_input=True)
    elif proof_broken:
        rep.violation('proof obligation broken and no failing schedule found in %d schedules: %s' % (runs, proof_broken),
                      ['# ' + l for l in proof_broken.split('\n')], no_input=True)
    for kf in common.known_findings(prop):
        if kf.get('status') == 'finding':
            print('KNOWN-FINDING: property=%s %s' % (prop, kf['what']))

def replay(rep, path):
    flags, sched = shardrun.parse_replay(path)
    common.lake_build(['npdriver'])
    binary, mode, bmsg = shardrun.build()
    if binary is None or flags is None:
        print('REPLAY: cannot build harness or unreadable replay file: ' + bmsg[-500:])
        rep.violation('replay could not be run', ['# ' + path], no_input=True)
        return rep.finish(LEVEL)
    wd = os.path.join(common.WORK, 'replay'); os.makedirs(wd, exist_ok=True)
    mf = ['-mode', 'replay', '-sched', sched] if (mode == 'hooks' and sched) else ['-mode', 'stress', '-n', '50000']
    r = shardrun.run_one(binary, wd, 'replay', flags + mf, nomodel=(mode != 'hooks'))
    rep.cov['evaluations'] = int(r['dsum'].get('runs', 0) or 0)
    rep.cov['mode'] = mode
    for k, m in r['spec_fail'][:3]: print('REPLAY: impl-violates-spec: run %d: %s' % (k, m))
    for k, m in r['conf_fail'][:3]: print('REPLAY: model-impl-differ: run %d: %s' % (k, m))
    if r['rc'] == 2 and not r['spec_fail']:
        # badsched: the recorded schedule names an actor that cannot move at that point in this tree
        print('REPLAY: the recorded schedule does not apply to this tree (the code takes different steps): not reproduced')
        return rep.finish(LEVEL)
    if r['rc'] != 0: print('REPLAY: harness rc=%s %s' % (r['rc'], r['harness_out'][-300:]))
    if r['spec_fail']:
        rep.violation('replay reproduces: ' + r['spec_fail'][0][1], shardrun.replay_lines(r, r['spec_fail'][0][0], r['spec_fail'][0][1]))
    elif r['conf_fail'] or r['rc'] != 0:
        rep.violation('replay reproduces a model/implementation disagreement: ' + (r['conf_fail'][0][1] if r['conf_fail'] else 'harness failed'),
                      ['flags: ' + ' '.join(flags), 'sched: ' + (sched or '')], no_input=True)
    return rep.finish(LEVEL)
