"""C14 - a dial ends in a usable connection or a clean error within its timeout.
Theorems: lean/Netpoll/Props/C14.lean over lean/Netpoll/Dial.lean.  Tie: T-gen dial facts (Netpoll.Tie.Dial) +
scripted differential run of the real dial path against `npdriver dial` + real-socket runs judged by the Lean
spec oracle (`npdriver dialspec`) and by `npdriver dialadmit` (the model admits the observed outcome)."""
import glob, json, os, shutil, time
from concurrent.futures import ThreadPoolExecutor
import common, dialrun

LEVEL = 'proof'
PROP = 'C14'
MANIFEST = dict(
    text='Lean 4 theorems over a function-by-function model of the dial path (Netpoll.Dial: dialer.dialTCP address loop, DialTCP retry loop, socket(), '
         'netFD.dial/connect, pollDesc WaitWrite/onwrite/onhup/detach, the deferred Free, netFD.Close, mapErr, Timeout()) hold for every script of '
         'connect(2) errnos, wake-ups (writable / hang-up / ctx-done in any order and multiplicity, any select choice), SO_ERROR / getpeername / '
         'epoll_ctl results and late poller events: exactly one of connection / error, an error leaves no descriptor, operator slot or registration, '
         'a connection is one open registered descriptor, a deadline return reports Timeout(), the loops consume the script. Tied to /repo on every '
         'run by regenerated switch/select/guard tables (T-gen), a scripted differential run of the real code (system calls of the connect path '
         'answered from the script, the harness playing poller and context) against the compiled model, and real loopback/unix dials - also '
         'through DialTCP/DialUnix with a local address that is free, taken, not on the host or of the wrong family - judged by the '
         'Lean spec oracle with a descriptor / operator-slot / registration census around every dial.',
    note='Partial: the wall-clock bound "timeout plus slack" is measured by the real-socket runs, not proved; `blocked` (script ends while parked in '
         'the select) is outside the theorems\' conclusions. Trusted: Lean kernel; axioms propext/Classical.choice/Quot.sound; extractor; harness, '
         'the mechanical call-site renaming that routes connect-path syscalls to the script, line protocol. Assumes socket(2) returns numbers > 2 '
         '(netFD.Close skips 0-2; witness C14_fd_le_2_leaks), poller events for the temporary operator only after EPOLL_CTL_ADD returned. '
         'bind/address errors before connect (local port taken, local address not on the host, network/address family mismatch, '
         'existing unix path) are executed by the real-socket runs through DialTCP/DialUnix with a local address, not by the scripted run. '
         'See DESIGN.md §6 C14 and §8.',
    technique='Lean 4 invariant proofs over syscall/wake-up scripts + scripted differential correspondence + real-socket spec oracle', design='§6 C14')
MODULES = ['Netpoll.Props.C14', 'Netpoll.Tie.Dial']
# functions the hand-written model mirrors (a changed fingerprint escalates the search budget, never alarms by itself)
MIRRORED = ['netFD.connect', 'netFD.dial', 'netFD.Close', 'mapErr', 'newPollDesc', 'pollDesc.WaitWrite', 'pollDesc.onwrite', 'pollDesc.onhup',
            'pollDesc.detach', 'socket', 'internetSocket', 'DialTCP', 'sysDialer.dialTCP', 'selfConnect', 'spuriousENOTAVAIL', 'newTCPConnection',
            'DialUnix', 'sysDialer.dialUnix', 'unixSocket', 'newUnixConnection', 'dialer.DialConnection', 'dialer.dialTCP',
            'FDOperator.Control', 'FDOperator.Free', 'FDOperator.inuse', 'FDOperator.unused', 'FDOperator.isUnused', 'FDOperator.reset',
            'FDOperator.do', 'FDOperator.done', 'operatorCache.alloc', 'operatorCache.freeable', 'connection.init', 'connection.register',
            'connection.initFDOperator', 'exception.Timeout', 'defaultPoll.Control', 'defaultPoll.Alloc', 'defaultPoll.Free']
FP_FILE = os.path.join(common.VERIF, 'lib', 'expected_fp_c14.json')

def fingerprint_changes():
    exp = json.load(open(FP_FILE)) if os.path.exists(FP_FILE) else {}
    cur = common.facts()['funcs']
    changed = [n for n in MIRRORED if n in cur and exp.get(n) != cur[n]['hash']]
    changed += [n + ' (removed)' for n in MIRRORED if n in exp and n not in cur]
    return changed

MIRRORED_FILES = ['net_dialer.go', 'net_netfd.go', 'net_netfd_conn.go', 'net_polldesc.go', 'net_sock.go', 'net_tcpsock.go', 'net_unixsock.go',
                  'fd_operator.go', 'fd_operator_cache.go', 'connection_errors.go', 'poll_default.go', 'poll_default_linux.go']
SRC_FILE = os.path.join(common.VERIF, 'lib', 'expected_src_c14.json')

def source_hashes():
    import hashlib
    out = {}
    for f in MIRRORED_FILES:
        p = os.path.join(common.REPO, f)
        out[f] = hashlib.sha256(open(p, 'rb').read()).hexdigest()[:16] if os.path.exists(p) else 'missing'
    return out

def source_changed():
    """a file the model mirrors differs from the tree the model was written against -> escalated search (never an alarm by itself)"""
    exp = json.load(open(SRC_FILE)) if os.path.exists(SRC_FILE) else {}
    return exp != source_hashes()

def budgets(tier, escalate):
    if tier == 'thorough':
        b = dict(shards=16, n=6000, real_runs=[(1, 'thorough'), (2, 'thorough'), (4, 'quick'), (1, 'quick')], slack_us=3000000)
    else:
        b = dict(shards=8, n=450, real_runs=[(1, 'quick'), (2, 'quick')], slack_us=3000000)
    if escalate:
        b['n'] *= 4; b['shards'] = 16
    return b

def corpus_files():
    return sorted(glob.glob(os.path.join(common.VERIF, 'corpus', PROP, '*.ops')))

def split_replay(lines):
    return [l for l in lines if l.startswith('dial ')], [l for l in lines if l.startswith('realreq ')]

def exec_lines(real_bin, shim_bin, lines, wd):
    """execute script lines / real requests on the harness; judged later by judge_lines"""
    os.makedirs(wd, exist_ok=True)
    scripted, real = split_replay(lines)
    res = {}
    if scripted and shim_bin:
        f = os.path.join(wd, 'scripted.ops'); open(f, 'w').write('\n'.join(scripted) + '\n')
        res['scripted'] = dialrun.exec_scripted(shim_bin, os.path.join(wd, 'scripted'), 1, 0, replay=f)
    if real and real_bin:
        f = os.path.join(wd, 'real.ops'); open(f, 'w').write('\n'.join(real) + '\n')
        res['real'] = dialrun.exec_real(real_bin, os.path.join(wd, 'real'), 1, 'quick', replay=f)
    return res

def judge_lines(res, admit, slack_us, strict_bound=False):
    problems, n = [], 0
    if 'scripted' in res:
        r = dialrun.judge_scripted(res['scripted'])
        problems += r['problems']; n += r['hist'].get('dial', 0)
    if 'real' in res:
        r = dialrun.judge_real(res['real'], admit, slack_us)
        problems += r['problems']; n += r['dials']
        if strict_bound:
            problems += [('impl-violates-spec', 'dial returned %d us after its timeout (allowed %d us): %s' % (o, a, l), [q]) for o, a, l, q in r['bound_candidates']]
    return problems, n

def harness_stage(wd, seed, b):
    """everything that needs only Go: build both harness binaries, run corpus, scripted shards and real dials.
    Runs concurrently with the proof stage; the Lean side judges the outputs afterwards."""
    st = {'problems': [], 'real_bin': None, 'shim_bin': None, 'corpus': [], 'scripted': [], 'real': [], 't': {}}
    t0 = time.time()
    st['real_bin'], out = common.build_harness('dialh')
    if st['real_bin'] is None:
        st['build_error'] = out
        return st
    st['shim_bin'], out, missing = dialrun.build_shim_harness(os.path.join(wd, 'shim'))
    if st['shim_bin'] is None or missing:
        st['problems'].append(('shim-points-missing', 'the connect-path call sites the scripted run answers from its script are not all present in /repo '
                               '(%s) %s' % (', '.join(missing), (out or '')[-800:]), ['# ' + m for m in missing] or ['# scripted harness does not build']))
        st['shim_bin'] = None
    st['t']['go_build'] = round(time.time() - t0, 1); t0 = time.time()
    for f in corpus_files():
        lines = [l for l in open(f).read().split('\n') if l and not l.startswith('#')]
        st['corpus'].append((os.path.basename(f), exec_lines(st['real_bin'], st['shim_bin'], lines, os.path.join(wd, 'corpus', os.path.basename(f)))))
    st['t']['corpus_exec'] = round(time.time() - t0, 1); t0 = time.time()
    with ThreadPoolExecutor(max_workers=4) as ex:
        fs = ex.submit(dialrun.exec_scripted_shards, st['shim_bin'], os.path.join(wd, 'scripted'), seed, b['shards'], b['n']) if st['shim_bin'] else None
        fr = [ex.submit(dialrun.exec_real, st['real_bin'], os.path.join(wd, 'real%d' % i), seed * 100 + i, tier, None, loops)
              for i, (loops, tier) in enumerate(b['real_runs'])]
        try:
            st['scripted'] = fs.result() if fs else []
        except Exception as e:   # a harness that dies is a broken correspondence, not a reason to skip the rest
            st['problems'].append(('harness-crash', str(e)[-1500:], ['# scripted harness crashed']))
        for f in fr:
            try:
                st['real'].append(f.result())
            except Exception as e:
                st['problems'].append(('harness-crash', str(e)[-1500:], ['# real-socket harness crashed']))
    st['t']['harness_exec'] = round(time.time() - t0, 1)
    return st

def run(rep, prop=PROP):
    wd = os.path.join(common.WORK, prop); shutil.rmtree(wd, ignore_errors=True); os.makedirs(wd)
    # the search budget is escalated when a mirrored function changed; that is known from the last facts.json only
    # after regen, so decide from the source hash of the mirrored files instead: cheap and independent of the proof stage
    escalate = source_changed()
    b = budgets(rep.tier, escalate)
    t0 = time.time()
    with ThreadPoolExecutor(max_workers=1) as ex:
        fh = ex.submit(harness_stage, wd, rep.seed, b)
        ok, detail = common.proof_stage(rep, MODULES, ['npdriver'])
        t_proof = round(time.time() - t0, 1)
        st = fh.result()
    t_par = round(time.time() - t0, 1); t0 = time.time()
    proof_broken = None if ok else detail
    if ok and rep.tier == 'thorough':
        # re-check the compiled property module with the independent kernel replay
        with common.Lock('lake'):
            rc, o = common.sh(['lake', 'env', 'leanchecker', 'Netpoll.Props.C14'], cwd=common.LEAN, timeout=1200)
        rep.cov['leanchecker'] = 'ok' if rc == 0 else 'FAILED'
        if rc != 0:
            proof_broken = 'leanchecker rejects Netpoll.Props.C14:\n' + o[-1500:]
    if st.get('build_error'):
        rep.violation('harness does not build against /repo (does the tree compile?):\n' + st['build_error'][-2000:], ['# go build failed'], no_input=True)
        return
    real_bin, shim_bin = st['real_bin'], st['shim_bin']
    problems = list(st['problems'])
    changed = fingerprint_changes() if os.path.exists(os.path.join(common.WORK, 'facts.json')) else []
    if changed:
        rep.notes.append('mirrored functions whose source changed since the model was written (search budget escalated): ' + ', '.join(changed[:12]))
    if not os.path.exists(common.DRIVER):
        rep.violation('npdriver was not built: ' + (proof_broken or ''), ['# lake build npdriver failed'], no_input=True)
        return
    admit = dialrun.admitted_sets()

    ncorpus = 0
    for name, res in st['corpus']:
        ps, n = judge_lines(res, admit, b['slack_us'])
        ncorpus += n
        problems += [(k, 'corpus %s: %s' % (name, d), rl) for k, d, rl in ps]
    with ThreadPoolExecutor(max_workers=8) as ex:
        sres = list(ex.map(dialrun.judge_scripted, st['scripted']))
        rres = list(ex.map(lambda o: dialrun.judge_real(o, admit, b['slack_us']), st['real']))

    rep.cov['stage_seconds'] = dict(st['t'], proof_stage=t_proof, parallel_part=t_par, judge=round(time.time() - t0, 1))
    # wall-clock bound: a dial that overshot its timeout by more than slack + measured scheduling noise is re-run
    # three times on its own; only an overshoot that shows every time is reported (a loaded machine is not a defect)
    cands = sorted((c for r in rres for c in r['bound_candidates']), reverse=True)
    inconclusive = []
    for over, allowed, line, req in cands[:2]:
        confirmed = 0
        for k in range(3):
            res = exec_lines(real_bin, None, [req], os.path.join(wd, 'confirm%d' % k))
            r2 = dialrun.judge_real(res['real'], admit, b['slack_us']) if 'real' in res else {'bound_candidates': [], 'problems': []}
            if r2['bound_candidates'] or any(p[0] == 'impl-violates-spec' for p in r2['problems']):
                confirmed += 1
            else:
                break
        if confirmed == 3:
            problems.append(('impl-violates-spec', 'dial returned %d us after its timeout (allowed: slack %d us + 4 x scheduling jitter = %d us), confirmed in 3 re-runs: %s'
                             % (over, b['slack_us'], allowed, line), [req]))
        else:
            inconclusive.append('overshoot %d us (allowed %d) not confirmed by re-running: %s' % (over, allowed, line[:200]))
    if inconclusive:
        rep.notes.append('elapsed bound: ' + ' ; '.join(inconclusive[:3]))
    rep.cov['real_max_scheduling_jitter_us'] = max([r['max_jitter_us'] for r in rres] or [0])
    hist, branches, outcomes, classes = {}, {}, {}, set()
    scen = 0; samples = []
    for r in sres:
        problems += r['problems']
        for k, v in r['hist'].items(): hist[k] = hist.get(k, 0) + v
        for k, v in r['branches'].items(): branches[k] = branches.get(k, 0) + v
        for k, v in r['outcomes'].items(): outcomes[k] = outcomes.get(k, 0) + v
        classes |= r['classes']; scen += r['hist'].get('dial', 0)
        samples += r['samples'][:1]
    dials = 0; by_class, routcomes = {}, {}; max_over = None; skipped = set(); conc = 0; batches = 0
    for r in rres:
        problems += r['problems']; dials += r['dials']; conc += r['concurrent_dials']; batches += r['batches']
        for k, v in r['by_class'].items(): by_class[k] = by_class.get(k, 0) + v
        for k, v in r['outcomes'].items(): routcomes[k] = routcomes.get(k, 0) + v
        if r['max_over_us'] is not None: max_over = r['max_over_us'] if max_over is None else max(max_over, r['max_over_us'])
        skipped |= set(r['skipped']); samples += r['samples'][:1]

    # a scripted scenario that "did not return" is re-run once on its own: only a hang that shows again is reported
    hung = [p for p in problems if p[0] == 'impl-violates-spec' and '| impl=hung' in p[1]]
    if hung and shim_bin:
        res = exec_lines(None, shim_bin, hung[0][2], os.path.join(wd, 'confirm-hang'))
        r2 = dialrun.judge_scripted(res['scripted']) if 'scripted' in res else {'problems': hung[:1]}
        if not any('| impl=hung' in p[1] for p in r2['problems']):
            problems = [p for p in problems if p not in hung]
            rep.notes.append('scripted scenario timed out once but returned when re-run on its own (machine load): ' + hung[0][2][0][:200])
    expected_branches = ['e0=115', 'e0=0', 'e0=106', 'e0=114', 'e0=4', 'e0=22', 'e0=99', 'e0=111', 'so=0', 'so=115', 'so=106', 'so=111', 'so=99',
                         'pick=w', 'pick=h', 'pick=c', 'regerr', 'ctlerr', 'gsoerr', 'peerfail', 'multi-event', 'late', 'selfconnect', 'nolocal', 'retry']
    rep.cov['evaluations'] = scen + dials + ncorpus
    rep.cov['distinct_nontrivial'] = len(classes) + len(by_class)
    rep.cov['rule'] = ('scripted: scenarios generated by go/inpkg/dialh.go (connect(2) errno, wake-up lists, SO_ERROR, getpeername, epoll_ctl failure, late poller events, '
                       'self-connect / EADDRNOTAVAIL retries) executed on the real DialTCP path and on the Lean model, outcome and descriptor/slot/registration '
                       'ledger compared line by line, every line judged by the Lean spec oracle; real: loopback/unix dials (accept / refuse / full backlog / reset, '
                       'v4 and v6, timeouts 20us..2s, up to 64 concurrent, ctx cancellation; DialTCP/DialUnix with a local address: free, port taken, not on the host, '
                       'wrong family, existing unix path) judged by the spec oracle, the elapsed bound and the set of outcomes '
                       'the model admits. distinct_nontrivial = distinct scripted script classes (first errno x event kinds x late x per attempt) + real '
                       '(class, net, seq/conc) cells')
    rep.cov['samples'] = samples[:6]
    rep.cov['scripted_scenarios'] = scen
    rep.cov['scripted_outcomes'] = outcomes
    rep.cov['scripted_branch_histogram'] = branches
    rep.cov['model_branches_never_hit'] = [x for x in expected_branches if not branches.get(x)] + \
        [x for x, cls in (('bind(2) error before connect', ('bind-inuse', 'bind-notlocal', 'unix-bind-exists')),
                          ('address-conversion error before connect', ('family-raddr', 'family-laddr')))
         if not any(k.split('/')[0] in cls for k in by_class)]
    rep.cov['stdlib_errno_facts_compared'] = hist.get('errnotimeout', 0) + hist.get('exctimeout', 0)
    rep.cov['real_dials'] = dials
    rep.cov['real_dials_in_concurrent_batches'] = conc
    rep.cov['real_batches_with_baseline_census'] = batches
    rep.cov['real_dials_per_scenario_class'] = by_class
    rep.cov['real_outcomes'] = routcomes
    rep.cov['real_max_elapsed_minus_timeout_us'] = max_over
    rep.cov['real_slack_us'] = b['slack_us']
    rep.cov['real_skipped'] = sorted(skipped)
    rep.cov['traces_validated_against_impl'] = scen + dials + ncorpus
    rep.assumptions += ['A-stdio: socket(2) returns descriptor numbers above 2 (netFD.Close does not close 0, 1, 2)',
                        'A-epoll-del: the poller fetches events for the temporary operator only while its registration exists; after EPOLL_CTL_DEL none',
                        'A-timer: a context with a deadline eventually becomes done (else the dial may stay blocked: model outcome `blocked`)',
                        'wall-clock bound (timeout + slack) is measured on loopback, not proved',
                        'error unwrapping of *net.OpError / *os.SyscallError and syscall.Errno.Timeout() are standard-library behaviour '
                        '(the errno table 0..133 is compared with the model on every run)']
    report(rep, real_bin, shim_bin, wd, problems, proof_broken, prop)

def report(rep, real_bin, shim_bin, wd, problems, proof_broken, prop):
    genuine = [p for p in problems if p[0] == 'impl-violates-spec']
    others = [p for p in problems if p[0] != 'impl-violates-spec']
    if genuine:
        kind, detail, replay = genuine[0]
        # prefer a real-socket replay if there is one (it needs no script shims)
        for g in genuine:
            if g[2] and g[2][0] and g[2][0].startswith('realreq'):
                kind, detail, replay = g; break
        rep.violation('implementation violates the C14 spec (%d observations; the replay is the first): %s%s'
                      % (len(genuine), detail[:1500], ('\nalso: ' + proof_broken[:600]) if proof_broken else ''), [l for l in replay if l])
    elif others:
        kind, detail, replay = others[0]
        rep.violation('correspondence Netpoll.Dial <-> dial path of /repo no longer checks (%s, %d cases) and no spec-violating input was found in %d dials: %s'
                      % (kind, len(others), rep.cov['evaluations'], detail[:1500]), [l for l in replay if l] or ['# ' + kind], no_input=True)
    elif proof_broken:
        rep.violation('proof obligation broken and no failing input found in %d dials: %s' % (rep.cov['evaluations'], proof_broken),
                      ['# ' + l for l in proof_broken.split('\n')], no_input=True)
    for k in common.known_findings(prop):
        if k.get('status') == 'finding':
            print('KNOWN-FINDING: property=%s %s' % (prop, k['what']))

def replay(rep, path):
    real_bin, out = common.build_harness('dialh')
    wd = os.path.join(common.WORK, 'replay-' + PROP); shutil.rmtree(wd, ignore_errors=True)
    shim_bin, out2, missing = dialrun.build_shim_harness(os.path.join(wd, 'shim'))
    common.lake_build(['npdriver'])
    lines = [l for l in open(path).read().split('\n') if l and not l.startswith('#')]
    ps, n = judge_lines(exec_lines(real_bin, shim_bin, lines, wd), dialrun.admitted_sets(), budgets('quick', False)['slack_us'], strict_bound=True)
    rep.cov['evaluations'] = n
    for p in ps:
        print('REPLAY: %s: %s' % (p[0], p[1][:600]))
    if ps:
        g = [p for p in ps if p[0] == 'impl-violates-spec']
        rep.violation('replay reproduces: ' + (g or ps)[0][1][:1200], lines, no_input=not g)
    return rep.finish(LEVEL)
