"""C02 - zero-copy read results stay intact until their reader is released."""
import ownrun
LEVEL = 'proof'
PROP = 'C02'
MODULES = ['Netpoll.Props.C02']
MANIFEST = dict(
    text='Lean 4 theorems over an ownership ledger model of LinkBuffer (blocks, nodes, reference counts, live views): no pool block is freed and no memory under a live view is written while the view\'s reader is unreleased, for all operation sequences; '
         'one genuine exception (WriteDirect split, known finding D4) is excluded by an explicit hypothesis and proved as a witness. Tied to the code by a run with an allocator that never reuses and poisons freed blocks: '
         'every live result is re-compared with its snapshot after every later operation and allocator events are compared with the ledger model.',
    note='partial: the cross-goroutine release of Slice readers is reduced to interleavings of whole operations (A-atomic-refer). Known finding D4 listed in known_findings.jsonl. Correspondence is sampling.',
    technique='Lean 4 invariant proof over an ownership ledger model + poisoning-allocator differential run', design='§6 C02')
def run(rep): ownrun.check(rep, PROP, ownrun.C02_KINDS, MODULES)
def replay(rep, path): return ownrun.replay(rep, PROP, ownrun.C02_KINDS, path)
