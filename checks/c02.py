"""C02 - zero-copy read results stay intact until their reader is released."""
import ownrun
LEVEL = 'proof'
PROP = 'C02'
MODULES = ['Netpoll.Props.C02']
MANIFEST = dict(
    text='Lean 4 theorems over an ownership ledger model of LinkBuffer (Netpoll.Buf.Owner: pool / GC / caller blocks, node structs with reference counts and origins, caches, live views; every LinkBuffer method mirrored): '
         'for all operation sequences over any number of buffers, Slice readers and appended buffers, the block under a live zero-copy result (Next/Peek/Until/GetBytes view) or under a node held by an open reader (Slice children) is never handed back to the pool '
         '(C02_no_free_while_live_partial, C02_no_free_while_reader_holds_partial, C02_oracle_accepts_partial; invariants: typing, ownership tokens, reference counts, held views). '
         'The WriteDirect split (known finding D4) is excluded by an explicit per-call hypothesis (CovV) and proved as witnesses on two concrete histories (C02_D4_witness, C02_D4_witness_view). '
         'Tied to the code by a run with an allocator that never reuses and poisons freed blocks: every live result is re-compared with its snapshot after every later operation, and the ledger model is compared op by op with the implementation '
         '(allocator events, per-node reference count / block / origin, and the problems reported at the known finding). '
         'The same held-result re-comparison runs on real connections (go/cmd/streamh) and on the NewReader adapter over scripted io.Readers (go/cmd/adapter, poisoning allocator, results held across refills of the adapter buffer).',
    note='partial: CovV excludes WriteDirect(remain>0) (D4), a MallocAck that would reset a reference count != 1, chain cuts behind the write node over exposed structs, id reuse (none of these occurs inside the documented contract except D4; the check measures how many sampled calls are inside CovV). '
         'NOT proved: "no netpoll write overlaps a live view" (C02_no_overwrite_while_live) - covered only by sampling: the implementation-side snapshot oracle and the model-side write-under-live-view check of npdriver own. '
         'Cross-goroutine release of Slice readers is reduced to interleavings of whole operations (A-atomic-refer). Correspondence is sampling.',
    technique='Lean 4 invariant proofs over an ownership ledger model + poisoning-allocator differential run with op-by-op ledger correspondence', design='§6 C02')
def run(rep): ownrun.check(rep, PROP, ownrun.C02_KINDS, MODULES)
def replay(rep, path): return ownrun.replay(rep, PROP, ownrun.C02_KINDS, path)
