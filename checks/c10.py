"""C10 - connections are isolated from each other across slot and descriptor reuse.
Theorems: Props/C10.lean over Netpoll.Poll.OpCache (one slot, any number of owners, poller batches).
Tie: the harness is the poller of a private defaultPoll with real connections; every step (open, fetch via
real EpollWait, dispatch of one event through the real handler, opcache.free, close, stale calls) is replayed
on the Lean model and the observed slot state (state word, free chain / freelist membership, callbacks) compared."""
import os, shutil, subprocess, collections
from concurrent.futures import ThreadPoolExecutor
import common, lbtool, epollhook

LEVEL = 'proof'
PROP = 'C10'
MODULES = ['Netpoll.Props.C10', 'Netpoll.Tie.Poll', 'Netpoll.Tie.Dial', 'Netpoll.Tie.Life']
MANIFEST = dict(
    text='Lean 4 invariant proof over an interleaving model of one poller slot through any number of owners: for every sequence of alloc / register / fetch / dispatch / end-of-batch / close steps, stale Release calls, Release calls of the live owner (token taken and given back: C10_token_returned) and '
         'hang-ups recorded in a batch and delivered later by the hang-up goroutine (at any point of any continuation: after the owner closed, after the slot was reused), '
         'a fetched event is only ever dispatched to the callbacks of the owner it was fetched for (or dropped), a recorded hang-up only ever reaches the onHup of the owner it was recorded for, '
         'no stale call takes a later owner\'s token, and a slot returns to the free chain only between batches with nothing installed. '
         'The owner of a slot is a connection or a DIAL in progress (pollDesc: newPollDesc, WaitWrite registering PollWritable, detach by onwrite / by the poller\'s hang-up path / by WaitWrite\'s own ctx.Done() branch, connect\'s deferred Free, then the close of the descriptor): '
         'nothing is registered in epoll under a slot its owner has given back (C10_freed_slot_not_registered). A Write / Flush IN FLIGHT across the close of its connection (past IsActive(), holding lock(flushing)) '
         'still works on its own open descriptor and its own operator: the finalizer does stop(flushing) before operator.Free() and netFD.Close() (C10_fd_open_while_writer_in_flight, witness C10_free_before_stop_witness). '
         'The model is tied to fd_operator.go / fd_operator_cache.go / poll_default.go / poll_default_linux.go (a) by executing the poller loop body step by step on real connections and comparing every step with the model '
         '(including several hang-ups dispatched in one handler call with the goroutine held at a blocked OnDisconnect while users close, the batch ends and new connections take the slots), '
         '(b) by sequences in which the REAL defaultPoll.Wait is the poller (schedule point after epoll_wait through an overlay copy of sys_epoll_linux.go, p.Handler wrapped): closes placed between the return of its epoll_wait and its next statement, '
         'opens placed between its fetch and its dispatch, (b2) by steps in which a real Write() is parked in front of its sendmsg (schedule point through an overlay copy of sys_sendmsg_linux.go) while the owner\'s Close() runs and probe descriptors are opened: '
         'the writer\'s bytes must not appear on a probe, (b3) by dial steps (real newPollDesc / WaitWrite / onwrite / onhup / detach / Free on a never-ready descriptor; the harness cancels the context, delivers peer events and places connect\'s deferred Free and socket()\'s close as separate steps) '
         'with the registrations read from the REAL epoll set (/proc/self/fdinfo): a live connection is the only descriptor registered under its slot\'s pointer, '
         'and (c) by T-gen tie lemmas on the code the harness replaces or cannot schedule: the order fetch / dispatch / opcache.free of Wait\'s loop body and appendHup copying operator.OnHup into a list of funcs (Netpoll.Tie.Poll); who detaches a dial operator in which branch of pollDesc.WaitWrite / onwrite / onhup, connect\'s deferred Free and socket()\'s close after it (Netpoll.Tie.Dial); '
         'the statement order of the close finalizer stop(flushing), operator.Free(), netFD.Close(), closeBuffer() (Netpoll.Tie.Life.sync_connection_initFinalizer).',
    note='partial: A-epoll-del (no event is fetched for a descriptor after EPOLL_CTL_DEL returned) and one-poller-per-cache are assumptions; the residual window of a Release racing the close of its own connection is outside the model (stale = the close has completed). '
         'The dial steps mirror two statements of netFD.connect / socket() (deferred Free, close on error; tied by connectDefer_eq / socket_closes_on_dial_error) on a socketpair end with a full send buffer instead of a TCP socket in SYN_SENT; '
         'without the sendmsg overlay (changed signature) the write-in-flight steps are skipped and only the finalizer-order tie remains. '
         'The defect fixed by 1c26766, a finalizer that frees before it waits for the flusher, and a hang-up queue that holds slots instead of the copied funcs are kept as Lean witnesses.',
    technique='Lean 4 inductive invariant over a slot-reuse interleaving model + step-by-step trace conformance with the real poller code (harness as poller, and the real Wait loop as poller) + T-gen ties', design='§6 C10')

def shard(binary, wd, seed, seqs, nops, hazard=False):
    os.makedirs(wd, exist_ok=True)
    ops, impl, model = (os.path.join(wd, n) for n in ('ops', 'impl', 'model'))
    p = subprocess.run([binary, '-seed', str(seed), '-seqs', str(seqs), '-ops', str(nops), '-ops-out', ops, '-impl-out', impl] + (['-hazard'] if hazard else []), timeout=1800)
    with open(ops) as i, open(model, 'w') as o:
        subprocess.run([common.DRIVER, 'opcache'], stdin=i, stdout=o, check=True, timeout=1800)
    return analyse(wd, p.returncode)

def analyse(wd, rc=0):
    rd = lambda n: open(os.path.join(wd, n)).read().split('\n')[:-1]
    ops, impl, model = rd('ops'), rd('impl'), rd('model')
    res = {'seqs': 0, 'problems': [], 'hist': collections.Counter(), 'finals': set(), 'samples': [], 'reuse': 0, 'skipped_events': 0, 'stale': 0}
    bounds = [i for i, o in enumerate(ops) if o.startswith('seq ')] + [len(ops)]
    for a, b in zip(bounds, bounds[1:]):
        so, si, sm = ops[a:b], impl[a:b], model[a:b]
        res['seqs'] += 1
        seen = set()
        for o, i in zip(so[1:], si[1:]):
            t = o.split(); res['hist'][t[0]] += 1
            if t[0] == 'open':
                if t[2] in seen: res['reuse'] += 1
                seen.add(t[2])
            if t[0] == 'dispatch' and 'ran=none' in i: res['skipped_events'] += 1
            if t[0] == 'stale': res['stale'] += 1
            if t[0] == 'wclose': res['wclose'] = res.get('wclose', 0) + 1
            if t[0] == 'dfree': res['dial_frees'] = res.get('dial_frees', 0) + 1
            if t[0] == 'dispatchall' and ':hupq' in o: res['delayed'] = res.get('delayed', 0) + 1
        if len(si) > 1: res['finals'].add(si[-1])
        bad = next((k for k, l in enumerate(si) if l.startswith('panic') or l.startswith('BYSTANDER-FAIL') or l == 'hang'), None)
        d = lbtool.first_diff(si, sm)
        if bad is not None:
            res['problems'].append((so[:bad + 1], bad, 'impl-violates-spec', 'op=%s | impl=%s' % (so[min(bad, len(so) - 1)], si[bad][:200])))
        elif d is not None:
            i_l, m_l = (si + [''])[d], (sm + [''])[d]
            cross = 'ran=' in i_l and 'ran=' in m_l and i_l.split()[1] != m_l.split()[1]
            res['problems'].append((so[:d + 1], d, 'impl-violates-spec' if cross or m_l.startswith('MODEL-BAD') else 'impl-model-differ',
                                    'op=%s | impl=%s | model=%s' % (so[min(d, len(so) - 1)], i_l[:250], m_l[:250])))
        if len(res['samples']) < 2: res['samples'].append(' ; '.join(so[:24]))
    if rc not in (0,) and not res['problems']:
        res['problems'].append((ops[-30:], 0, 'impl-violates-spec', 'harness exit code %d (hang watchdog = 3)' % rc))
    return res

def run(rep):
    wd = os.path.join(common.WORK, PROP); shutil.rmtree(wd, ignore_errors=True); os.makedirs(wd)
    ok, detail = common.proof_stage(rep, MODULES, ['npdriver'])
    proof_broken = None if ok else detail
    binary, out = epollhook.build('opcacheh')
    if binary is None:
        rep.violation('harness does not build against /repo:\n' + out[-2000:], ['# go build failed'], no_input=True); return
    shards, seqs, nops = (16, 1500, 120) if rep.tier == 'thorough' else (8, 120, 80)
    with ThreadPoolExecutor(max_workers=16) as ex:
        results = list(ex.map(lambda i: shard(binary, os.path.join(wd, 's%d' % i), rep.seed * 1000 + i, seqs, nops, hazard=(i % 4 == 3)), range(shards)))
    if (proof_broken or any(r['problems'] for r in results)) and not any(p[2] == 'impl-violates-spec' for r in results for p in r['problems']):
        # a theorem / tie lemma broke, or model and implementation differ, but no bystander was disturbed yet: directed search for a failing input
        with ThreadPoolExecutor(max_workers=16) as ex:
            results += list(ex.map(lambda i: shard(binary, os.path.join(wd, 'h%d' % i), rep.seed * 1000 + 500 + i, 400, 40, hazard=True), range(16)))
        rep.cov['directed_search'] = 'proof obligation / tie lemma broken or model/implementation disagreement: 16 x 400 sequences with the slot-reuse and hang-up-queue preludes'
    import glob
    for f in sorted(glob.glob(os.path.join(common.VERIF, 'corpus', PROP, '*.ops'))):
        cw = os.path.join(wd, 'corpus_' + os.path.basename(f)); os.makedirs(cw, exist_ok=True)
        p = subprocess.run([binary, '-replay', f, '-ops-out', os.path.join(cw, 'ops'), '-impl-out', os.path.join(cw, 'impl')], timeout=600)
        with open(os.path.join(cw, 'ops')) as i, open(os.path.join(cw, 'model'), 'w') as o:
            subprocess.run([common.DRIVER, 'opcache'], stdin=i, stdout=o, check=True)
        results.append(analyse(cw, p.returncode))
    problems = []; hist = collections.Counter(); finals = set(); n = reuse = skipped = stale = 0
    for r in results:
        problems += r['problems']; hist.update(r['hist']); finals |= r['finals']; n += r['seqs']
        reuse += r['reuse']; skipped += r['skipped_events']; stale += r['stale']
    rep.cov.update(evaluations=n, distinct_nontrivial=len(finals), step_histogram=dict(hist), slot_reuses=reuse, events_skipped_after_close=skipped, stale_calls=stale,
                   traces_validated_against_impl=n, samples=results[0]['samples'],
                   rule='random step sequences over up to 6 real connections sharing one private poller whose loop body the harness executes step by step (fetch = real EpollWait, dispatch = real handler on one event or on the rest of the batch, end of batch = opcache.free), '
                        'with closes placed between fetch and dispatch, slot reuse by new connections, hang-up goroutines held at a blocked OnDisconnect stale Release/Close/Next/Write/Flush on closed connections, Write() in flight across Close() with probe descriptors opened meanwhile (wclose), dials in progress as slot owners (dial / dev hup|out / dtimeout / dfree / dclosefd, at most 3 per sequence; one sequence in five starts with a directed prelude: write in flight across close, dial timeout - Free - end of batch - slot reuse - late event - close of the descriptor, dial hang-up queued behind a blocked hang-up entry and delivered after the slot was reused), Release on LIVE connections between steps (rel) and in a loop on another goroutine during a dispatch of arriving input (drel); every 4th sequence the real defaultPoll.Wait is the poller '
                        '(closes after its epoll_wait returned, opens in front of its handler); every step compared with the Lean model; bystanders must receive exactly what was sent, stay open and be the only descriptor registered under the pointer of their slot in the real epoll set. distinct_nontrivial = distinct final slot observations')
    rep.cov['real_wait_rounds'] = hist.get('waitround', 0)
    rep.cov['handler_calls_with_delayed_hangups'] = sum(r.get('delayed', 0) for r in results)
    rep.cov['writes_in_flight_across_close'] = sum(r.get('wclose', 0) for r in results)
    rep.cov['dial_operators_freed'] = sum(r.get('dial_frees', 0) for r in results)
    rep.assumptions += ['A-epoll-del: no event is fetched for a descriptor after EPOLL_CTL_DEL returned', 'single harness goroutine: steps are atomic at the granularity of the model']
    genuine = [p for p in problems if p[2] == 'impl-violates-spec']
    others = [p for p in problems if p[2] != 'impl-violates-spec']
    if genuine:
        genuine.sort(key=lambda p: len(p[0]))   # the shortest failing sequence is the replay
        seq, idx, kind, detail = genuine[0]
        rep.violation('slot isolation broken (%d sequences): %s' % (len(genuine), detail), seq)
    elif others:
        seq, idx, kind, detail = others[0]
        rep.violation('correspondence Netpoll.Poll.OpCache <-> fd_operator*.go no longer checks (%d sequences); no bystander was disturbed in %d sequences: %s' % (len(others), n, detail), seq, no_input=True)
    elif proof_broken:
        rep.violation('proof obligation broken, no failing input found in %d sequences: %s' % (n, proof_broken), ['# ' + l for l in proof_broken.split('\n')], no_input=True)

def replay(rep, path):
    binary, out = epollhook.build('opcacheh'); common.lake_build(['npdriver'])
    wd = os.path.join(common.WORK, 'replay10'); os.makedirs(wd, exist_ok=True)
    lines = [l for l in open(path).read().split('\n') if l and not l.startswith('#')]
    src = os.path.join(wd, 'in.ops'); open(src, 'w').write('\n'.join(lines) + '\n')
    p = subprocess.run([binary, '-replay', src, '-ops-out', os.path.join(wd, 'ops'), '-impl-out', os.path.join(wd, 'impl')], timeout=600)
    with open(os.path.join(wd, 'ops')) as i, open(os.path.join(wd, 'model'), 'w') as o:
        subprocess.run([common.DRIVER, 'opcache'], stdin=i, stdout=o, check=True)
    r = analyse(wd, p.returncode)
    rep.cov['evaluations'] = r['seqs']
    for pr in r['problems']: print('REPLAY: %s: %s' % (pr[2], pr[3]))
    if r['problems']: rep.violation('replay reproduces: ' + r['problems'][0][3], lines, no_input=r['problems'][0][2] != 'impl-violates-spec')
    return rep.finish(LEVEL)
