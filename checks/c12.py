"""C12 - a closed connection answers with errors, not panics or hangs.
The quantifier is a finite table: every cell is executed on the real code on every run (exhaustive
correspondence) and compared with the Lean model Netpoll.Conn.Closed; theorems in Props/C12.lean
cover every buffer state / size / argument."""
import os, shutil, subprocess, collections
from concurrent.futures import ThreadPoolExecutor
import common

LEVEL = 'proof'
PROP = 'C12'
MODULES = ['Netpoll.Props.C12']
MANIFEST = dict(
    text='Lean 4 theorems over the sequential post-close model of every Connection/Reader/Writer method (all buffer states, sizes and arguments): Writer calls and short reads return the close error '
         '(ErrConnClosed locally, an error matching ErrEOF and ErrConnClosed after a peer close), buffered bytes stay readable, nothing blocks or dereferences a recycled buffer, Close is idempotent. '
         'The model is compared with the real code on the COMPLETE table of the property (close mode x callbacks x input x output x slot reuse x method x argument x repetition) on every run - the close modes include those that go through an OnRequest HANDLER task: the handler calls Close and returns / calls Close and then panics, the peer closes while the handler runs and it returns / then panics, the handler panics on the active connection; Close and Detach are both among the calls made afterwards; '
         'the property oracle judges the implementation\'s own replies: after a peer close (then user close or not) the bytes buffered BEFORE the close must still be reported by Len() and readable - with or without OnConnect set (fix D19), '
         'in every other cell "still buffered" is what the connection\'s own Len() reports after the close.',
    note='Exhaustive correspondence for the table; the theorems generalise over buffer contents. Teardown exactly-once under concurrency is C05; slot isolation is C10. Methods with deadlines set are outside the table. '
         'In the handler modes the 10 input bytes start the handler and the cell says whether it leaves them unread (unread input offered to a handler is recycled by the teardown: there the reference for "still buffered" is the post-close Len()); a handler that returns after a peer close is called again until the input is consumed, so that cell does not exist. '
         'The harness wraps (does not replace) runner.RunTask so that a task recovers its own panic and reports its end.',
    technique='Lean 4 theorems over a post-close model + exhaustive cell-by-cell correspondence with the real connection', design='§6 C12')

READERS = ('next', 'peek', 'skip', 'rstr', 'rbin', 'rbyte', 'slice', 'read', 'until')
WRITERS = ('malloc', 'flush', 'ack', 'append', 'wstr', 'wbin', 'wdir', 'wbyte', 'write')
SHARDS = 8
IN_BYTES = 10          # go/inpkg/closedh.go vcInBytes: what the harness lets the connection buffer (it waits until the connection's own Len() says so) before the close
PEER_CLOSED = ('peer', 'peeruser')
HANDLER_MODES = ('huser', 'huserp', 'hpeer', 'hpeerp', 'hpanic')   # the close goes through an OnRequest handler task (closedh.go vcHModes)
EOF_MODES = ('peer', 'hpeer', 'hpeerp')                            # closed by the peer and not by the user afterwards

def run_shard(binary, wd, i):
    os.makedirs(wd, exist_ok=True)
    ops, impl, model = (os.path.join(wd, n) for n in ('ops', 'impl', 'model'))
    subprocess.run([binary, '-ops-out', ops, '-impl-out', impl, '-shard', str(i), '-shards', str(SHARDS)], check=True, timeout=900)
    with open(ops) as f, open(model, 'w') as o:
        subprocess.run([common.DRIVER, 'closed'], stdin=f, stdout=o, check=True, timeout=300)
    rd = lambda p: open(p).read().split('\n')[:-1]
    return rd(ops), rd(impl), rd(model)

def oracle(cells):
    """property stated directly on the implementation's outcomes. cells: {opline: reply}

    How many bytes are "still buffered" in a cell:
    * the peer closed (modes peer, peeruser): what was buffered when the peer closed - "after the peer closed, the remaining
      buffered bytes can still be read and only then reads fail".  Neither the hang-up, nor the teardown it starts by itself
      when a callback is set (the table's variant sets OnConnect only: the connection is read through its Reader), nor the
      user's own Close afterwards may drop them, and Len() says so.  (Before fix D19 closeBuffer recycled unread input
      whenever ANY callback was set; with an OnRequest handler the input has been offered to it before the teardown - C06 -
      and is recycled: no cell of the table sets one.)
    * every other cell: what the connection's own Len() reports after the close.  The text demands nothing about input
      surviving a purely local close.
    """
    avail = {}
    for o, r in cells.items():
        t = o.split()
        if t[7] == 'len' and r.startswith('ok n:') and (t[9] == '1' or tuple(t[1:7]) not in avail):
            avail[tuple(t[1:7])] = int(r.split()[1][2:])   # first call of the len cell (handler modes only have the called-twice cell)
    bad = []
    for o, r in cells.items():
        t = o.split(); mode, meth, arg = t[1], t[7], int(t[8])
        if r == 'stuck':
            bad.append((o, r, 'the cell never returned (a call or the clean-up of the bystander connection spins for ever)')); continue
        if r.startswith('panic outside the calls'):
            bad.append((o, r, 'a call of the harness around the cell (setting the state up, or closing the connections at the end) panicked')); continue
        if r.startswith('setup-failed'):
            bad.append((o, r, 'harness could not reach the state')); continue
        r0 = r.split(' B=')[0]
        outs = [x.strip() for x in r0.split('|')]
        if ' B=' in r and r.split(' B=')[1] not in ('ok', 'noslot'):
            bad.append((o, r, 'bystander connection on the reused slot is disturbed')); continue
        for k, out in enumerate(outs):
            if out in ('panic', 'hang'):
                bad.append((o, r, 'call %d %ss' % (k + 1, out))); break
            if meth in WRITERS and out != 'err closed':
                bad.append((o, r, 'Writer call on a closed connection must return ErrConnClosed')); break
            if meth in ('close', 'detach') and out != 'ok':
                bad.append((o, r, '%s on a closed connection must return nil (Close is idempotent)' % meth.capitalize())); break
            if meth == 'isactive' and out != 'ok n:0':
                bad.append((o, r, 'IsActive true after close')); break
            peer_kept = mode in PEER_CLOSED   # with or without OnConnect; the handler modes (OnRequest set: input was offered to it) are judged by Len()
            if peer_kept and meth == 'len' and k == 0 and out != 'ok n:%d' % (IN_BYTES if t[3] == '1' else 0):
                bad.append((o, r, 'Len() after the peer closed must still report the %d bytes that were buffered' % (IN_BYTES if t[3] == '1' else 0))); break
            if meth in READERS and k == 0:
                have = (IN_BYTES if t[3] == '1' else 0) if peer_kept else avail.get(tuple(t[1:7]))
                need = 1 if meth == 'rbyte' else (1 if meth == 'read' and arg > 0 else arg)
                if meth == 'until' or have is None: continue
                want_err = 'err eof' if mode in EOF_MODES else 'err closed'
                if need > have:
                    if out != want_err:
                        bad.append((o, r, 'short read must fail with %s (buffered %d)' % (want_err, have))); break
                elif not out.startswith('ok'):
                    bad.append((o, r, 'read of %d <= %d buffered bytes must succeed' % (need, have))); break
    return bad

def run(rep):
    wd = os.path.join(common.WORK, PROP); shutil.rmtree(wd, ignore_errors=True); os.makedirs(wd)
    ok, detail = common.proof_stage(rep, MODULES, ['npdriver'])
    proof_broken = None if ok else detail
    binary, out = common.build_harness('closedh')
    if binary is None:
        rep.violation('harness does not build against /repo:\n' + out[-2000:], ['# go build failed'], no_input=True); return
    with ThreadPoolExecutor(max_workers=SHARDS) as ex:
        res = list(ex.map(lambda i: run_shard(binary, os.path.join(wd, 's%d' % i), i), range(SHARDS)))
    cells = {}; model = {}; skipped = []
    for ops, impl, mdl in res:
        for o, i, m in zip(ops, impl, mdl):
            if i == 'skipped': skipped.append(o); continue   # the harness gave up on this shard after repeated hangs
            cells[o] = i; model[o] = m
    diffs = [(o, cells[o], model[o]) for o in cells if cells[o] != model[o]]
    # a setup failure, a hang or a stalled bystander can be a timing hiccup of the real poller on a loaded machine: such cells
    # (and every cell the oracle rejects) are re-run alone before judging - a genuine violation is deterministic and stays
    def rerun(sel, tag):
        sel = sel[:40]     # enough to tell a timing hiccup from a real failure; re-running thousands of hanging cells is pointless
        p = os.path.join(wd, tag + '.ops'); open(p, 'w').write('\n'.join(sel) + '\n')
        subprocess.run([binary, '-replay', p, '-impl-out', os.path.join(wd, tag + '.impl')], check=True, timeout=900)
        for o, i in zip(sel, open(os.path.join(wd, tag + '.impl')).read().split('\n')):
            cells[o] = i
    timing = lambda i: i.startswith('setup-failed') or 'hang' in i or 'noslot' in i or 'stalled' in i or i == 'stuck'
    retry = [o for o, i, m in diffs if timing(i)]
    if retry:
        rerun(retry, 'retry')
    first_bad = [b[0] for b in oracle(cells) if timing(b[1])]
    if first_bad:
        rerun(first_bad, 'retry2')
    diffs = [(o, cells[o], model[o]) for o in cells if cells[o] != model[o]]
    bad = oracle(cells)
    hist = collections.Counter(r.split(' B=')[0].split('|')[0].strip().split(':')[0] for r in cells.values())
    rep.cov.update(evaluations=len(cells), distinct_nontrivial=len(set((o.split()[1], o.split()[7], r) for o, r in cells.items())), exhaustive=not skipped,
                   rule='handler modes {handler closes, handler closes then panics, peer closes inside the handler, peer closes inside the handler which then panics, handler panics while active} x {input consumed, left unread} x {output empty, pending} x {slot not reused, reused} x 24 methods x {short, long argument} called twice; and every cell of {user, peer, peer-then-user, detach} x {no callback, OnConnect set} x {input empty, 10 bytes buffered} x {output empty, 5 bytes malloc\'ed} x {slot not reused, reused by a new connection} x {no read timeout, read timeout set and an earlier read timed out} '
                        'x 24 methods (Detach included) x arguments (<= buffered, > buffered, 0; delimiter present/absent) x {once, twice}, on real connections (socketpair, real poller); distinct_nontrivial = distinct (mode, method, outcome) triples',
                   samples=[o + ' => ' + cells[o] for o in list(cells)[:3] + list(cells)[-2:]], outcome_histogram=dict(hist), traces_validated_against_impl=len(cells))
    if skipped: rep.notes.append('%d cells not executed: the harness stops a shard after 6 cells that hang or get stuck' % len(skipped))
    rep.assumptions += ['cells are executed after the close has completed (quiescent); concurrency of the close itself is C05',
                        'deadlines / timeouts are not set in the table']
    if bad:
        o, r, why = bad[0]
        rep.violation('closed connection misbehaves in %d cell(s); first: %s => %s (%s)' % (len(bad), o, r, why), [o])
    elif diffs:
        o, i, m = diffs[0]
        rep.violation('correspondence Netpoll.Conn.Closed <-> connection_impl.go no longer checks in %d of %d cells and the property oracle accepts every outcome: %s => impl "%s" model "%s"'
                      % (len(diffs), len(cells), o, i, m), [d[0] for d in diffs[:50]], no_input=True)
    elif proof_broken:
        rep.violation('proof obligation broken; all %d cells still conform: %s' % (len(cells), proof_broken), ['# ' + l for l in proof_broken.split('\n')], no_input=True)

def replay(rep, path):
    binary, out = common.build_harness('closedh'); common.lake_build(['npdriver'])
    lines = [l for l in open(path).read().split('\n') if l and not l.startswith('#')]
    wd = os.path.join(common.WORK, 'replay12'); os.makedirs(wd, exist_ok=True)
    p = os.path.join(wd, 'r.ops'); open(p, 'w').write('\n'.join(lines) + '\n')
    subprocess.run([binary, '-replay', p, '-impl-out', os.path.join(wd, 'r.impl')], check=True, timeout=600)
    impl = open(os.path.join(wd, 'r.impl')).read().split('\n')
    mdl = subprocess.run([common.DRIVER, 'closed'], stdin=open(p), stdout=subprocess.PIPE, text=True).stdout.split('\n')
    cells = dict(zip(lines, impl))
    for o, i, m in zip(lines, impl, mdl): print('REPLAY: %s => impl "%s" model "%s"' % (o, i, m))
    rep.cov['evaluations'] = len(lines)
    bad = oracle(cells)
    if bad: rep.violation('replay reproduces: %s => %s (%s)' % bad[0], lines)
    return rep.finish(LEVEL)
