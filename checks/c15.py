"""C15 - every descriptor netpoll owns is closed exactly once, and no other.
Theorems: lean/Netpoll/Props/C15.lean (model lean/Netpoll/Fd.lean).  Tie: T-gen (close call sites, lean/Netpoll/Tie/Fd.lean)
+ hook-free audit: lifecycle scenarios run under strace, the descriptor event sequence is judged by the Lean spec monitors
and must be a run of the Lean model (`npdriver fd`)."""
import glob, json, os, shutil, time
from concurrent.futures import ThreadPoolExecutor
import common, fdrun

LEVEL = 'proof'
PROP = 'C15'
MANIFEST = dict(
    text='Lean 4 theorems over a ledger model of every place where netpoll obtains, hands over or closes a descriptor '
         '(connection incl. the netFD copy and Detach, the net.Conn that Listener.Accept returns, listener, dialer with retry loop, '
         'poller; every error branch; any number of '
         'lifecycles interleaved at event granularity with an adversary reusing freed numbers): every close hits a number owned at that '
         'moment, none twice, nothing left; and the poller pool (model of C18) sends every poller it drops - by a shrinking '
         'reconfiguration, Reset, a failed Run or Close - its close request exactly once. Tied to /repo on every run by the extracted '
         'set of close call sites (kernel-checked equality with the sites the model reaches), by the extracted close-once guard of '
         'netFD.Close (one atomic read-modify-write is the only access to the counter), and by an strace audit of real lifecycles '
         '(echo, shutdown, Detach, failed registration, listeners, dial failures before and after connect, kernel self-connect in a '
         'private network namespace, pool grow/shrink/reset, Initialize() racing the first Picks after a reconfiguration, several goroutines closing one netFD at the same instant, descriptor '
         'limits) whose event sequences are judged by the Lean monitors and replayed through the model.',
    note='Trusted: Lean kernel; axioms propext/Classical.choice/Quot.sound; extractor; strace, the harness markers and the log parser; '
         'npdriver. Assumed: other goroutines close only their own descriptors; numbers 0-2 are never handed to netpoll; nothing-left '
         'additionally assumes SetNonblock does not fail inside ConvertListener and epoll_wait fails only with EINTR (witness '
         'theorems show what is left otherwise). File() failing inside ConvertListener (descriptor limit) is covered without assumption '
         'since fix ea4a5ab (F1: CreateListener closes what net.Listen opened); the pollers a failing manager.Run had already opened are '
         'closed by its error path since fix a1c21fb (F2; modelled and proved in C18, executed here under RLIMIT_NOFILE): both scenarios '
         'must leave nothing open. The connection-level protocol (C05) is not assumed: close callbacks may run any number '
         'of times. Branches needing a failing setsockopt/epoll_ctl are covered by the model and the site tie, not by execution. '
         'Concurrent Close calls on one netFD are executed (spin barrier), but the window of a check-then-act guard is a few '
         'nanoseconds: there the tie lemma netFD_close_decided_by_one_rmw is what is certain, the execution is a sample. The '
         'self-connect scenario needs `unshare -n` (narrow port range in a private namespace); without it it runs but rarely self-connects.',
    technique='Lean 4 invariant proof over an effect-monad model (weakest preconditions per Go function, global composition) '
              '+ syscall-level audit replayed through the model', design='§6 C15')
MODULES = ['Netpoll.Props.C15', 'Netpoll.Tie.Fd']
MIRRORED = ('netFD.Close', 'listener.Close', 'listener.Accept', 'listener.parseFD', 'CreateListener', 'ConvertListener', 'sysSocket',
            'socket', 'netFD.dial', 'netFD.connect', 'sysDialer.dialTCP', 'sysDialer.dialUnix', 'unixSocket', 'openDefaultPoll',
            'defaultPoll.Wait', 'defaultPoll.handler', 'defaultPoll.Close', 'connection.init', 'connection.initNetFD',
            'connection.initFinalizer', 'connection.Detach', 'connection.register', 'connection.onPrepare', 'NewFDConnection',
            'server.Close', 'server.onAccept', 'newNetFD',
            # the pool that sends every poller its close request (model: Netpoll.Manager, theorem C15_pool_closes_every_poller)
            'manager.Run', 'manager.Close', 'manager.Reset', 'manager.Pick', 'Initialize')
EXPECTED_FP = os.path.join(common.VERIF, 'lib', 'expected_fp_c15.json')
PROBES = {}   # scenario -> (id of the known finding it exhibits, descriptors left); none at present (F1, F2 are fixed: a leak there is a violation)

def fingerprint_changes():
    exp = json.load(open(EXPECTED_FP)) if os.path.exists(EXPECTED_FP) else {}
    cur = common.facts()['funcs']
    changed = [n for n in MIRRORED if n in cur and exp.get(n) != cur[n]['hash']]
    changed += [n + ' (removed)' for n in MIRRORED if n not in cur and n in exp]
    return changed

FLAGS = {}   # scenario -> flags printed by `fdaudit list` after the name (netns: run in a private network namespace)

def scenario_names(binary):
    rc, out = common.sh([binary, 'list'])
    names = []
    for l in out.split('\n'):
        w = l.split()
        if w:
            names.append(w[0]); FLAGS[w[0]] = tuple(w[1:])
    return names

def run_batch(binary, jobs, wd):
    """jobs: [(scenario, seed)] -> [(scenario record, verdict dict)]"""
    run1 = lambda j: fdrun.run_scenario(binary, j[0], j[1], wd, flags=FLAGS.get(j[0], ()))
    # scenarios that need several threads to run at the same instant go first, three at a time (four spinning threads each)
    quiet = [j for j in jobs if 'quiet' in FLAGS.get(j[0], ())]
    done = {}
    with ThreadPoolExecutor(3) as ex:
        for j, sc in zip(quiet, ex.map(run1, quiet)): done[j] = sc
    rest = [j for j in jobs if j not in done]
    with ThreadPoolExecutor(16) as ex:
        for j, sc in zip(rest, ex.map(run1, rest)): done[j] = sc
    scs = [done[j] for j in jobs]
    blocks = [fdrun.op_lines(sc) for sc in scs]
    # judge in parallel chunks (the model search is single threaded)
    chunks = [list(range(i, len(scs), 8)) for i in range(8)]
    verdicts = [None] * len(scs)
    def jchunk(idxs):
        if not idxs: return
        for i, r in zip(idxs, fdrun.judge([blocks[i] for i in idxs])): verdicts[i] = r
    with ThreadPoolExecutor(8) as ex:
        list(ex.map(jchunk, chunks))
    return list(zip(scs, blocks, verdicts))

def classify(sc, v):
    """-> list of (kind, text).  kind: spec (genuine failing run) | leak | conform | harness | probe"""
    out = []
    name = sc['scenario']
    if not sc['ended'] or sc['name'] is None:
        out.append(('harness', 'scenario %s seed %d did not run to its end (rc=%s): %s' % (name, sc['seed'], sc['rc'], (sc['stdout'] or '')[-300:])))
        return out
    if v['owned'] != 'ok' or v['once'] != 'ok' or sc['ebadf'] or sc['foreign']:
        what = []
        if sc['foreign']: what.append('close of number(s) %s that another goroutine had just been given' % sorted(set(sc['foreign'])))
        if sc['ebadf']: what.append('close(%s) = EBADF' % ','.join(str(x) for x in sorted(set(sc['ebadf']))))
        out.append(('spec', 'netpoll closed a descriptor number it does not own (%s; Lean monitor: owned=%s once=%s) in scenario %s seed %d'
                    % ('; '.join(what) or 'ledger', v['owned'], v['once'], name, sc['seed'])))
    left_census = sorted(set(sc['final'] or []) - set(sc['base'] or []))
    if v['left'] != '-' or left_census:
        # the probe of a known finding is exactly: one descriptor left, everything else in order
        is_probe = (name in PROBES and len(left_census) == PROBES[name][1] and v['left'] == ','.join(str(x) for x in left_census)
                    and v['conform'] == 'ok' and v['owned'] == 'ok' and v['once'] == 'ok')
        kind = 'probe:' + PROBES[name][0] if is_probe else 'leak'
        out.append((kind, 'descriptor(s) left open after everything was closed: monitor left=%s, census extra=%s, scenario %s seed %d'
                    % (v['left'], left_census, name, sc['seed'])))
    if v['conform'] not in ('ok', 'skipped'):
        out.append(('conform', 'event sequence of scenario %s seed %d is not a run of the Lean model (conform=%s)' % (name, sc['seed'], v['conform'])))
    if sc['fails']:
        out.append(('harness', 'scenario %s seed %d: %s' % (name, sc['seed'], '; '.join(sc['fails'])[:400])))
    return out

def replay_lines(sc, block, v):
    lines = ['scenario %s seed %d' % (sc['scenario'], sc['seed']), '# verdict: ' + v['line'][:600]]
    for ev in sc['events']:
        if ev['who'] == 'n' and ev['t'] == 'c' and (ev.get('errno') == 'EBADF'):
            lines.append('# strace: ' + ev['raw'])
    lines.append('# observed descriptor events (S/K/A/B header, n = netpoll, e = others; replayed through `npdriver fd`):')
    return lines + block

def corpus_check(problems):
    """recorded event sequences with the verdict they must get (regression of the oracle itself)"""
    n = 0
    for f in sorted(glob.glob(os.path.join(common.VERIF, 'corpus', PROP, '*.ops'))):
        lines = open(f).read().split('\n')
        exp = [l[len('#expect '):].strip() for l in lines if l.startswith('#expect ')]
        ops = [l for l in lines if l and not l.startswith('#')]
        got = fdrun.judge([ops])[0]
        n += 1
        for e in exp:
            k, val = e.split('=', 1)
            ok = (got[k] != val[1:]) if val.startswith('!') else (got[k] == val)
            if not ok:
                problems.append(('corpus', 'corpus/%s/%s: expected %s, npdriver says %s' % (PROP, os.path.basename(f), e, got['line'][:300]), ops))
    return n

def run(rep, prop=PROP):
    wd = os.path.join(common.WORK, prop); shutil.rmtree(wd, ignore_errors=True); os.makedirs(wd)
    t0 = time.time()
    ok, detail = common.proof_stage(rep, MODULES, ['npdriver'])
    t_proof = time.time() - t0
    proof_broken = None if ok else detail
    if proof_broken and not os.path.exists(common.DRIVER):
        rep.violation('npdriver does not build: ' + proof_broken, ['# ' + l for l in proof_broken.split('\n')], no_input=True)
        return
    if proof_broken:
        common.lake_build(['npdriver'])
    binary, out = common.build_harness('fdaudit')
    if binary is None:
        rep.violation('harness does not build against /repo (does the tree compile?):\n' + out[-2000:], ['# go build failed'], no_input=True)
        return
    changed = fingerprint_changes() if os.path.exists(os.path.join(common.WORK, 'facts.json')) else []
    escalate = bool(changed) or proof_broken is not None
    if changed:
        rep.notes.append('mirrored functions whose source changed since the model was written (audit budget escalated): ' + ', '.join(changed))
    nseeds = 24 if rep.tier == 'thorough' else 3
    names = scenario_names(binary)
    problems = []     # (kind, text, replay lines)
    ncorpus = corpus_check(problems)
    jobs = [(n, rep.seed * 1000 + k) for k in range(nseeds) for n in names]
    results = run_batch(binary, jobs, wd)
    if escalate and not any(k in ('spec', 'leak') for sc, b, v in results for k, _ in classify(sc, v)):
        # model unvalidated for the changed code and nothing found yet: widen the search
        jobs = [(n, rep.seed * 1000 + k) for k in range(nseeds, 3 * nseeds) for n in names]
        results += run_batch(binary, jobs, wd)
    # a scenario that could not do its job once (timing) is run again before it counts
    retry = [(sc['scenario'], sc['seed'] + 500000) for sc, b, v in results if any(k == 'harness' for k, _ in classify(sc, v))]
    retried = run_batch(binary, retry, wd) if retry else []
    flaky = 0
    final = []
    for sc, b, v in results:
        cl = classify(sc, v)
        if any(k == 'harness' for k, _ in cl):
            # the scenario could not do its job (a timeout on a busy machine ...) and gave up half way, without closing
            # what it had opened: what it shows about the model correspondence and about left-over descriptors is void
            # if a second run is clean; a close of a number netpoll does not own counts in any case
            again = [(s2, b2, v2) for s2, b2, v2 in retried if s2['scenario'] == sc['scenario'] and s2['seed'] == sc['seed'] + 500000]
            if again and not classify(again[0][0], again[0][2]) or (again and all(k.startswith('probe') for k, _ in classify(again[0][0], again[0][2]))):
                flaky += 1
                cl = [c for c in cl if c[0] not in ('harness', 'conform', 'leak')]
                final.append(again[0])
        final.append((sc, b, v))
        for kind, text in cl:
            problems.append((kind, text, replay_lines(sc, b, v)))
    # ---- evidence
    sites_hit = set(); paths = set(); closes = opens = envev = 0; hist = {}
    for sc, b, v in final:
        if v['conform'] == 'ok':
            sites_hit |= set(v['sites'])
            for p in v['paths'].split('|'): paths.add(p)
        closes += sum(1 for e in sc['events'] if e['t'] == 'c' and e['who'] == 'n')
        opens += sum(1 for e in sc['events'] if e['t'] in ('o', 'a') and e['who'] == 'n')
        envev += sum(1 for e in sc['events'] if e['who'] == 'e')
        hist[sc['scenario']] = hist.get(sc['scenario'], 0) + 1
    extracted = [tuple(x[k] for k in ('file', 'func', 'kind', 'call')) for x in common.facts().get('closeSites', [])] \
        if os.path.exists(os.path.join(common.WORK, 'facts.json')) else []
    model_sites = site_table()
    never = [n for n in model_sites if n not in sites_hit and n != 'listener_Close_rawfd']
    rep.cov['evaluations'] = len(final) + ncorpus
    rep.cov['distinct_nontrivial'] = len(paths)
    rep.cov['rule'] = ('each evaluation = one lifecycle scenario (go/inpkg/fdaudit.go) run in its own process under strace with two churning '
                       'goroutines; its descriptor event sequence is judged by the Lean monitors (close-owned, once, nothing-left) and must be '
                       'a run of the Lean model. distinct_nontrivial = distinct (lifecycle kind, sequence of branch outcomes) of the model runs '
                       'that explain the observed sequences')
    rep.cov['samples'] = [' '.join(l for l in b if not l.startswith('e ') and not l.startswith('a '))[:700] for sc, b, v in final[:3]]
    rep.cov['scenario_histogram'] = hist
    rep.cov['netpoll_close_events_audited'] = closes
    rep.cov['netpoll_open_events'] = opens
    rep.cov['other_party_events'] = envev
    rep.cov['close_sites_extracted'] = len(extracted)
    rep.cov['close_sites_in_model'] = len([n for n in model_sites if n != 'listener_Close_rawfd'])
    rep.cov['close_sites_executed'] = sorted(sites_hit)
    rep.cov['close_sites_never_executed'] = never
    rep.cov['scenarios_rerun_after_timing_failure'] = flaky
    rep.cov['phase_seconds'] = {'proof_stage': round(t_proof, 1), 'audit': round(time.time() - t0 - t_proof, 1)}
    rep.cov['traces_validated_against_impl'] = sum(1 for sc, b, v in final if v['conform'] == 'ok')
    rep.assumptions += ['A-env: other goroutines close only descriptors they own (the adversary of the model)',
                        'A-stdio: descriptors 0-2 stay open and are never handed to netpoll (netFD.Close skips fd <= 2)',
                        'A-listener-dup: SetNonblock does not fail inside ConvertListener after the duplicate was made (else the duplicate is left to the GC finalizer; File() failing is covered, see fix of F1)',
                        'A-epoll-wait: epoll_wait on a valid epoll descriptor fails only with EINTR (else Wait returns with both descriptors open)',
                        'C05 not assumed: close callbacks may run any number of times, Detach may write its flag at any moment',
                        'attribution: every open/close not announced by the harness on the marker descriptor is netpoll\'s']
    report(rep, problems, proof_broken, final)

def site_diff():
    """extracted close sites vs the sites of the model (parsed from Site.descr), for the report when the tie lemma breaks"""
    import re
    src = open(os.path.join(common.LEAN, 'Netpoll', 'Fd.lean')).read()
    model = []
    for m in re.finditer(r'\|\s*\.(\w+)\s*=>\s*\("([^"]*)",\s*"([^"]*)",\s*"([^"]*)",\s*"([^"]*)"\)', src):
        if m.group(1) != 'listener_Close_rawfd':
            model.append(m.groups()[1:])
    try:
        ext = [tuple(x[k] for k in ('file', 'func', 'kind', 'call')) for x in common.facts().get('closeSites', [])]
    except Exception:
        return ''
    new = [e for e in ext if ext.count(e) > model.count(e)]
    gone = [e for e in model if model.count(e) > ext.count(e)]
    if not new and not gone:
        return ''
    return ' | close sites in /repo unknown to the model: %s; sites of the model missing in /repo: %s' % (sorted(set(new)), sorted(set(gone)))

def guard_diff():
    """the extracted close-once facts of netFD.Close when they differ from what Netpoll.Tie.Fd.netFD_close_decided_by_one_rmw states"""
    import re
    try:
        src = open(os.path.join(common.LEAN, 'Netpoll', 'Gen', 'Fd.lean')).read()
    except Exception:
        return ''
    acc = re.search(r'def netFDClosedAccesses[^\n]*:= \[(.*?)\]\n', src, re.S)
    first = re.search(r'def netFDCloseFirstStmt : String := (.*)', src)
    a = ' '.join(acc.group(1).split()) if acc else '?'
    f = first.group(1).strip() if first else '?'
    if a == '("netFD.Close", "atomic.AddUint32(&c.closed, 1)")' and f == '"if atomic.AddUint32(&c.closed, 1) != 1 { return nil }"':
        return ''
    return (' | netFD.Close no longer decides by one atomic read-modify-write: accesses to netFD.closed in /repo: [%s]; first statement of netFD.Close: %s '
            '(two overlapping Close calls can both reach syscall.Close; executed by scenario netfd-close-race)' % (a, f))

def site_table():
    """names of the model's sites, from the Lean source (the tie lemma is what checks them against /repo)"""
    import re
    src = open(os.path.join(common.LEAN, 'Netpoll', 'Fd.lean')).read()
    m = re.search(r'def Site\.all : List Site :=\s*\[(.*?)\]', src, re.S)
    return [x.strip().lstrip('.') for x in m.group(1).split(',')] if m else []

def report(rep, problems, proof_broken, final):
    kf = common.known_findings(PROP)
    findings = {k.get('id'): k for k in kf if k.get('status') == 'finding'}
    spec = [p for p in problems if p[0] in ('spec', 'leak')]
    probes = [p for p in problems if p[0].startswith('probe:')]
    conf = [p for p in problems if p[0] in ('conform', 'corpus')]
    harness = [p for p in problems if p[0] == 'harness']
    if spec:
        spec.sort(key=lambda p: len(p[2]))     # the shortest run is the replay
        kind, text, lines = spec[0]
        rep.violation('%s (%d such runs; first is the replay)' % (text, len(spec)), lines)
    elif conf:
        kind, text, lines = conf[0]
        rep.violation('correspondence Netpoll.Fd <-> /repo no longer checks and no run violating the specification was found in %d runs: %s (%d such)'
                      % (rep.cov['evaluations'], text, len(conf)), lines, no_input=True)
    elif proof_broken:
        extra = site_diff()
        rep.violation('proof obligation / tie lemma (Netpoll.Tie.Fd: closeSites_eq_covered - the close call sites; netFD_close_decided_by_one_rmw - '
                      'the close-once guard of netFD.Close) broken and no failing run found in %d scenario runs: %s%s'
                      % (rep.cov['evaluations'], proof_broken, extra + guard_diff()),
                      ['# ' + l for l in (proof_broken + extra).split('\n')], no_input=True)
    elif harness:
        kind, text, lines = harness[0]
        rep.violation('audit scenario cannot do its job on this tree (twice): %s (%d such)' % (text, len(harness)), lines, no_input=True, tag='harness-')
    seen = set()
    for kind, text, lines in probes:
        fid = kind.split(':')[1]
        if fid in seen: continue
        seen.add(fid)
        if fid in findings:
            print('KNOWN-FINDING: property=%s %s' % (PROP, findings[fid]['what']))
        else:
            rep.violation(text, lines)
    for fid in findings:
        if fid not in seen:
            rep.notes.append('known finding %s did not reproduce in this run (its probe scenario left nothing open)' % fid)

def replay(rep, path):
    ok, o = common.lake_build(['npdriver'])
    lines = [l for l in open(path).read().split('\n') if l]
    head = [l for l in lines if l.startswith('scenario ')]
    ops = [l for l in lines if not l.startswith('#') and not l.startswith('scenario ')]
    expect = [l[len('#expect '):].strip() for l in lines if l.startswith('#expect ')]
    bad = False
    if ops:
        got = fdrun.judge([ops])[0]
        print('REPLAY recorded events: ' + got['line'][:500])
        rep.cov['evaluations'] += 1
        if expect:
            # a corpus file: the recorded sequence (e.g. of a tree before a fix) must get the recorded verdict
            for e in expect:
                k, val = e.split('=', 1)
                if (got[k] == val[1:]) if val.startswith('!') else (got[k] != val):
                    bad = True
                    rep.violation('recorded event sequence no longer gets the verdict %s: %s' % (e, got['line'][:300]), lines, no_input=True)
                    break
        elif got['owned'] != 'ok' or got['once'] != 'ok' or got['left'] != '-':
            bad = True
            rep.violation('recorded event sequence violates the specification: ' + got['line'][:300], lines)
        elif got['conform'] != 'ok':
            bad = True
            rep.violation('recorded event sequence is not a run of the model: ' + got['line'][:300], lines, no_input=True)
    if head:
        w = head[0].split()
        binary, out = common.build_harness('fdaudit')
        if binary is None:
            rep.violation('harness does not build', ['# go build failed'], no_input=True)
            return rep.finish(LEVEL)
        for k in range(3):
            scenario_names(binary)
            sc = fdrun.run_scenario(binary, w[1], int(w[3]) + k * 7, os.path.join(common.WORK, 'replay'), flags=FLAGS.get(w[1], ()))
            b = fdrun.op_lines(sc)
            v = fdrun.judge([b])[0]
            rep.cov['evaluations'] += 1
            cl = classify(sc, v)
            print('REPLAY live run %d: %s' % (k, v['line'][:300]))
            for kind, text in cl:
                print('REPLAY: %s: %s' % (kind, text))
            if cl and not bad:
                bad = True
                rep.violation('replay reproduces: ' + cl[0][1], replay_lines(sc, b, v), no_input=not (cl[0][0] in ('spec', 'leak') or cl[0][0].startswith('probe')))
    return rep.finish(LEVEL)
