"""C13 - the server tracks every accepted connection and shuts down gracefully.
Theorems: lean/Netpoll/Props/C13.lean (model lean/Netpoll/Server.lean, invariants ServerInv/ServerLemmas).
Ties: T-gen statement lists of the server / event-loop methods (Tie/Server.lean); deterministic window sweeps of
the REAL onAccept / untrack callback / Close (paused between statements by build-time instrumentation) replayed on
the model (npdriver srv); the Lean spec oracle on every observation (npdriver srvspec); real event loops with seeded
clients; an EMFILE child process."""
import glob, json, os, shutil
from concurrent.futures import ThreadPoolExecutor
import common, srvrun

LEVEL = 'proof'
PROP = 'C13'
MANIFEST = dict(
    text='Lean 4 invariants over an interleaving model of server.OnRead/onAccept/Close and eventLoop.Serve/Shutdown (Netpoll.Server: any number of connections, peers closing at any step, '
         'handlers busy/idle, EMFILE back-off goroutines, one-shot quit channel) prove tracking, absence of stale entries, untrack-before-descriptor-reuse, what a nil / context-error return of '
         'Shutdown means, and that accepting resumes after EMFILE - the back-off goroutine\'s own loop (delay table, index, guard of the increment) is modelled statement by statement '
         '(Netpoll.Server.Retry) and proved, for EVERY script of accept results (connection / EAGAIN / out-of-descriptor error / any other error, in any order and number), never to index outside its table, to return only after accept answered (nil, nil) and the listener was registered again, and to take the next successful accept whatever errors preceded it; one episode of poller + goroutine (OnRead consults isOutOfFdErr, the goroutine treats every error alike) never stops accepting; the model is tied to /repo on every run by the regenerated statement lists of the nine functions, the regenerated guard / delay table / index expressions / list of ways out (return, break, goto, panic, loop condition) of the back-off loop, and by replaying every window '
         'of the real onAccept/Close (paused between statements by build-time instrumentation) on the model, while the Lean spec judges the implementation\'s observations - real event loops, an '
         'EMFILE child process and exhaustion stretches as scripts of accept results included (a Listener handed to Serve answers its first accepts from the script: k EMFILE in a row, k = 1..3 and around the length of the '
         'delay table read from the code, and fault sequences - EMFILE / ENFILE followed by or mixed with ECONNABORTED, EINTR, EPROTO, ENETDOWN, ENOBUFS ..., as the poller\'s first error, as the goroutine\'s first retry, deep in the table, with a successful accept in between, plus seeded random scripts; the queued client and a fresh one must be served afterwards; a child process that dies is a violation; the gaps between the accepts are compared with the model\'s delays).',
    note='partial: real-time waits, the kernel accept queue and sync.Map.Range (visits every key present throughout) are assumptions; the per-connection lifecycle is the C05 summary. '
         'Requires fixes/c13-track.patch in /repo (D12 and two Shutdown races; the theorems are about the fixed code, the old behaviour is kept as Lean witnesses + corpus). '
         'Known findings: a second Shutdown returns nil at once; data+FIN inside the accept window is never tracked. Repeated EMFILE episodes busy-loop (accepting still resumes).',
    technique='Lean 4 invariant proofs over an interleaving model + statement-level differential replay of the instrumented real code + Lean spec oracle on real event loops', design='§6 C13')
MODULES = ['Netpoll.Props.C13', 'Netpoll.Tie.Server']
MIRRORED = ('server.OnRead', 'server.onAccept', 'server.Close', 'server.Run', 'server.accept', 'eventLoop.Serve', 'eventLoop.Shutdown',
            'eventLoop.quit', 'eventLoop.waitQuit', 'connection.isIdle', 'connection.closeCallback', 'connection.AddCloseCallback',
            'connection.initFinalizer', 'connection.init', 'FDOperator.Control', 'listener.Accept', 'listener.Close')
FP_FILE = os.path.join(common.VERIF, 'lib', 'c13_fp.json')
R4_TAG = 'second-shutdown-nil-with-connections-tracked'

def fingerprint_changes():
    exp = json.load(open(FP_FILE)) if os.path.exists(FP_FILE) else {}
    cur = common.facts()['funcs']
    return [n for n in MIRRORED if (cur.get(n) or {}).get('hash') != exp.get(n)]

def budgets(tier, escalate):
    b = dict(sweeps=2, shards=8, per=8, emf=1) if tier != 'thorough' else dict(sweeps=10, shards=16, per=150, emf=5)
    if escalate:
        b['sweeps'] += 2; b['per'] *= 3; b['shards'] = 16
    return b

def run(rep, prop=PROP):
    wd = os.path.join(common.WORK, prop); shutil.rmtree(wd, ignore_errors=True); os.makedirs(wd)
    ok, detail = common.proof_stage(rep, MODULES, ['npdriver'])
    proof_broken = None if ok else detail
    if ok and rep.tier == 'thorough':   # independent re-check of the property module by the kernel replayer
        with common.Lock('lake'):
            rc, o = common.sh(['lake', 'env', 'leanchecker', 'Netpoll.Props.C13', 'Netpoll.Tie.Server'], cwd=common.LEAN, timeout=1200)
        rep.cov['leanchecker'] = 'ok' if rc == 0 else 'FAILED'
        if rc != 0: proof_broken = 'leanchecker rejects the property module:\n' + o[-1500:]
    binary, out = srvrun.build()
    if binary is None:
        rep.violation('harness does not build against /repo (does the tree compile?):\n' + out[-2000:], ['# go build failed'], no_input=True)
        return
    st = srvrun.steps()
    cfg = srvrun.detect_cfg(st)
    changed = fingerprint_changes()
    escalate = bool(changed) or proof_broken is not None
    rep.notes.append('code variant read off the statement lists (fixTrack,fixInflight,fixRecheck) = ' + cfg)
    if changed:
        rep.notes.append('mirrored functions whose source differs from the recorded fingerprints (search budget escalated): ' + ', '.join(changed))
    b = budgets(rep.tier, escalate)
    problems = []       # (source, scenario, kind, detail, replay_lines)
    findings_seen = set()
    # 1. corpus, then every window of the real onAccept / untrack callback / Close
    plans = []
    for f in sorted(glob.glob(os.path.join(common.VERIF, 'corpus', PROP, '*.plan'))):
        plans.append(('corpus:' + os.path.basename(f), srvrun.corpus_plan(st, f)))
    for r in range(b['sweeps']):
        plans.append(('sweep', srvrun.sweep_plan(st, rep.tier)))
    plans.append(('probe', srvrun.finding_probes(st)))
    hist = {}; finals = set(); lines = 0; scen = 0; injected = 0; samples = []
    # (stage 4, started here because it is real time: descriptor-exhaustion stretches of chosen lengths, see below)
    stretch_ex = ThreadPoolExecutor(max_workers=1)
    stretch_fut = stretch_ex.submit(srvrun.run_stretch, binary, os.path.join(wd, 'stretch'), srvrun.stretch_scripts(rep.tier, rep.seed))
    def one(ix):
        name, plan = plans[ix]
        return name, srvrun.run_sweep(binary, os.path.join(wd, 'sweep%d' % ix), plan, cfg)
    with ThreadPoolExecutor(max_workers=4) as ex:
        results = list(ex.map(one, range(len(plans))))
    for name, sw in results:
        for scn, kind, det, trace in sw['problems']:
            if name == 'probe' and kind == 'impl-violates-spec' and scn and scn[0] == 'acc-datafin':
                findings_seen.add('sweep:acc-datafin'); continue
            problems.append((name, scn, kind, det, (['sweep %s %s %d' % scn] if scn else []) + ['# ' + l for l in trace]))
        for hp in sw['harness_problems']: rep.notes.append('%s harness: %s' % (name, hp))
        for k, v in sw['hist'].items(): hist[k] = hist.get(k, 0) + v
        finals |= {f for f in sw['finals'] if f[1]}; lines += sw['lines']; scen += sw['scenarios']; injected += sw['injected']
        if name == 'sweep' and not samples: samples = sw['samples']
    # 2. real event loops (seeded), probes of the known findings first
    def real(i):
        return srvrun.run_real(binary, os.path.join(wd, 'real'), rep.seed * 1000 + i, b['per'], 'r2,r4' if i == 0 else '')
    nreal = 0; real_hist = {}; suspects = []
    def i_probes(seed): return 'r2,r4' if seed == rep.seed * 1000 else ''
    with ThreadPoolExecutor(max_workers=8) as ex:
        for res in ex.map(real, range(b['shards'])):
            for seed, line, verdict in res:
                if not line.startswith('obs'):
                    if verdict != 'OK': problems.append(('real', None, 'impl-violates-spec', line + ' => ' + verdict, ['real %d' % seed, '# ' + line]))
                    continue
                nreal += 1
                kv = srvrun.kvs(line)
                key = 'sh=%s net=%s%s' % (kv.get('sh'), kv.get('net'), ' probe=' + kv['probe'] if kv.get('probe', '-') != '-' else '')
                real_hist[key] = real_hist.get(key, 0) + 1
                if verdict == 'OK': continue
                tags = verdict.split(' ', 1)[1].split(',')
                if kv.get('probe') == 'r4' and R4_TAG in tags:
                    findings_seen.add('real:r4'); tags = [t for t in tags if t != R4_TAG]
                if tags:
                    suspects.append((seed, i_probes(seed), kv.get('id'), set(tags), line))
    # a real-time observation that fails is re-run (same seed = same plan, new timing) before it is reported:
    # the deterministic windows are the sweeps' job, this stage validates the environment assumptions
    systematic = len(suspects) >= 5        # that many failing scenarios are not a timing accident
    for n, (seed, probes, sid, tags, line) in enumerate(suspects):
        confirmed = 1 if systematic or n >= 2 and problems else 0
        for attempt in range(0 if confirmed else 3):
            for _, l2, v2 in srvrun.run_real(binary, os.path.join(wd, 'rerun'), seed, b['per'], probes):
                if l2.startswith('obs') and srvrun.kvs(l2).get('id') == sid and v2 != 'OK' and tags & set(v2.split(' ', 1)[1].split(',')):
                    confirmed += 1
            if confirmed: break
        if confirmed:
            problems.append(('real', None, 'impl-violates-spec', ','.join(sorted(tags)) + ' in: ' + line, ['real %d %d' % (seed, b['per']), '# ' + line]))
        else:
            rep.notes.append('sporadic real-time observation, not reproduced in 3 re-runs of the same seed (not reported): %s in: %s' % (','.join(sorted(tags)), line[:400]))
    if len(samples) < 4:
        pass
    # 3. descriptor exhaustion in a child process (RLIMIT_NOFILE lowered there), two episodes each
    emf_lines = []
    for i in range(b['emf']):
        for idx, line, verdict in srvrun.run_emfile(binary, os.path.join(wd, 'emf'), i):
            emf_lines.append(line)
            if verdict != 'OK':
                problems.append(('emfile', None, 'impl-violates-spec', verdict + ' in: ' + line, ['emfile', '# ' + line]))
    # 4. exhaustion stretches: a Listener handed to Serve answers its first accepts from a script - k EMFILE in a row, k from 1
    #    to beyond the length of the back-off goroutine's delay table, and fault sequences: EMFILE / ENFILE followed by / mixed
    #    with the other errors accept(2) may report; afterwards the queued client and a fresh one must be served
    stretch_lines = []
    for sc, line, verdict in stretch_fut.result():     # shortest script first
        stretch_lines.append(line)
        if verdict.startswith('IMPL-SPEC-FAIL'):
            problems.append(('stretch', None, 'impl-violates-spec', verdict + ' in: ' + line, stretch_replay(sc, line)))
        elif verdict != 'OK':
            problems.append(('stretch', None, 'impl-model-differ', verdict + ' in: ' + line, ['script %s' % sc, '# ' + line]))
    stretch_ex.shutdown()
    rep.cov['evaluations'] = scen + nreal + len(emf_lines) + len(stretch_lines)
    rep.cov['exhaustion_stretches'] = stretch_lines
    rep.cov['distinct_nontrivial'] = len(finals) + len(real_hist)
    rep.cov['rule'] = ('sweep scenario = one real accept (server.OnRead on a loopback listener, two+ pollers) with one event (peer close / data / data+FIN / a whole server.Close / a second accept) '
                       'injected before one statement of the real server.onAccept, its untrack callback or server.Close; every statement passed is replayed on Netpoll.Server.step and the '
                       '(active, tracked, descriptor closed) triples are compared after every line. real scenario = one event loop, 3-12 seeded clients (idle/send/send+close/close/connect+close) around '
                       'Shutdown, handler durations and OnPrepare delays either side of the deadline, tcp or unix; judged by Netpoll.Server.Spec. '
                       'distinct_nontrivial = distinct sweep (kind, point, outcome) triples with the event delivered + distinct (Shutdown result, network, probe) classes of real scenarios')
    rep.cov['samples'] = samples[:3] + emf_lines[:1]
    rep.cov['sweep_scenarios'] = scen
    rep.cov['sweep_lines_compared'] = lines
    rep.cov['sweep_histogram'] = hist
    rep.cov['sweep_events_delivered'] = injected
    rep.cov['real_scenarios'] = nreal
    rep.cov['real_histogram'] = real_hist
    rep.cov['emfile_runs'] = emf_lines
    rep.cov['traces_validated_against_impl'] = scen
    rep.cov['known_finding_probes_reproduced'] = sorted(findings_seen)
    rep.assumptions += ['A-kernel-fd: accept never returns a descriptor number that is open in the process',
                        'A-range: sync.Map.Range visits every key that is present during the whole call',
                        'C05 summary: a connection is closed once, torn down once while no handler runs, callbacks LIFO (finalizer registered first)',
                        'A-sched-fair / A-timer for the real-time parts (wait rounds, deadlines); A-epoll-del for the listener']
    report(rep, problems, proof_broken, findings_seen)

LETTERS = dict(E='EMFILE', N='ENFILE', a='ECONNABORTED', i='EINTR', p='EPROTO', d='ENETDOWN', b='ENOBUFS', m='ENOMEM', h='EHOSTUNREACH',
               t='ETIMEDOUT', K='(the real accept)')

def stretch_replay(sc, line):
    return ['script %s' % sc, '# ' + line,
            '# fault sequence: the Listener handed to Serve answers its first %d Accept calls, whoever makes them (the poller\'s OnRead, the back-off goroutine), with'
            % len(sc), '#   ' + ', '.join('syscall.' + LETTERS.get(c, c) if c != 'K' else LETTERS[c] for c in sc),
            '# and is the real accept from then on (descriptors are available again); one client connects at the start of the script (it waits in the',
            '# accept queue), a fresh one after it; both must be echoed and the process must be alive (Spec.stretchFails).',
            '# results= what each Accept call answered (C connection, A EAGAIN), accepts= how many calls were made, left= script entries nobody asked for,',
            '# idle_ms= time since the last Accept call when the waits were over']

def report(rep, problems, proof_broken, findings_seen):
    genuine = [p for p in problems if p[2] == 'impl-violates-spec']
    others = [p for p in problems if p[2] != 'impl-violates-spec']
    if genuine:
        src, scn, kind, detail, lines = genuine[0]
        extra = []
        if len(genuine) > 1:
            extra += ['# other failing scenarios of this run: ' + ' | '.join(' '.join(l for l in g[4][:1]) for g in genuine[1:12])]
        if proof_broken:      # the failing input is the report; the broken obligation is recorded next to it, not instead of it
            rep.notes.append('besides the failing input: proof obligation / tie lemma broken: ' + proof_broken[-600:])
            extra += ['# besides this failing input a proof obligation / tie lemma no longer builds:'] + ['#   ' + l for l in proof_broken.split('\n')[-12:]]
        rep.violation('implementation violates the C13 spec (%d scenarios, first is the replay; source %s): %s' % (len(genuine), src, detail), lines + extra)
    elif others:
        src, scn, kind, detail, lines = others[0]
        rep.violation('correspondence Netpoll.Server <-> netpoll_server.go no longer checks (%s, %d scenarios; %s) and no spec-violating input was found in %d scenarios: %s'
                      % (kind, len(others), src, rep.cov['evaluations'], detail), lines, no_input=True)
    elif proof_broken:
        rep.violation('proof obligation / tie lemma broken and no failing input found in %d scenarios: %s' % (rep.cov['evaluations'], proof_broken),
                      ['# ' + l for l in proof_broken.split('\n')], no_input=True)
    for k in common.known_findings(PROP):
        if k.get('status') == 'finding':
            seen = k.get('probe') in findings_seen
            print('KNOWN-FINDING: property=%s %s%s' % (PROP, k['what'], '' if seen else ' [probe did not reproduce it in this run]'))

def replay(rep, path):
    common.regen()
    binary, out = srvrun.build()
    common.lake_build(['npdriver'])
    st = srvrun.steps(); cfg = srvrun.detect_cfg(st)
    plan = []; reals = []; emf = False; stretches = []
    for l in open(path):
        f = l.split()
        if len(f) == 4 and f[0] == 'sweep': plan.append((f[1], f[2], int(f[3])))
        if len(f) >= 2 and f[0] == 'real': reals.append((int(f[1]), int(f[2]) if len(f) > 2 else 5))
        if f[:1] == ['emfile']: emf = True
        if len(f) == 2 and f[0] == 'stretch': stretches.append('E' * int(f[1]))
        if len(f) == 2 and f[0] == 'script': stretches.append(f[1])
    wd = os.path.join(common.WORK, 'replay13'); shutil.rmtree(wd, ignore_errors=True)
    found = []
    if plan:
        r = srvrun.run_sweep(binary, wd, plan, cfg)
        rep.cov['evaluations'] += r['scenarios']
        found += [(p[1], p[2]) for p in r['problems']]
    for seed, n in reals:
        for _, line, verdict in srvrun.run_real(binary, wd, seed, n, 'r2,r4' if seed % 1000 == 0 else ''):
            rep.cov['evaluations'] += 1
            if verdict != 'OK' and not (srvrun.kvs(line).get('probe') == 'r4' and verdict.endswith(R4_TAG) and ',' not in verdict):
                found.append(('impl-violates-spec', verdict + ' in: ' + line))
    if emf:
        for _, line, verdict in srvrun.run_emfile(binary, wd, 0):
            rep.cov['evaluations'] += 1
            if verdict != 'OK': found.append(('impl-violates-spec', verdict + ' in: ' + line))
    if stretches:
        for k, line, verdict in srvrun.run_stretch(binary, os.path.join(wd, 'stretch'), stretches):
            rep.cov['evaluations'] += 1
            if verdict != 'OK': found.append(('impl-violates-spec' if verdict.startswith('IMPL-SPEC-FAIL') else 'impl-model-differ', verdict + ' in: ' + line))
    for k, d in found:
        print('REPLAY: %s: %s' % (k, d))
    if found:
        rep.violation('replay reproduces: ' + found[0][1], [l.rstrip('\n') for l in open(path)], no_input=found[0][0] != 'impl-violates-spec')
    return rep.finish(LEVEL)
