"""C13 - the server tracks every accepted connection and shuts down gracefully.
Theorems: lean/Netpoll/Props/C13.lean (model lean/Netpoll/Server.lean). Ties: T-gen statement lists of the
server / event-loop methods (Tie/Server.lean), deterministic window sweeps of the REAL onAccept / Close through
build-time instrumentation compared with the model (npdriver srv), Lean spec oracle on all observations
(npdriver srvspec), real event loops with seeded clients, EMFILE child."""
import json, os, shutil, subprocess, sys
from concurrent.futures import ThreadPoolExecutor
import common, srvrun

LEVEL = 'proof'
PROP = 'C13'
MANIFEST = dict(
    text='Lean 4 invariants over an interleaving model of server.OnRead/onAccept/Close and eventLoop.Serve/Shutdown (Netpoll.Server: any number of connections, peers closing at any step, '
         'handlers busy/idle, EMFILE back-off goroutines, one-shot quit channel) prove tracking, no stale entries, untrack-before-descriptor-reuse, the meaning of a nil / context-error return of '
         'Shutdown and that accepting resumes after EMFILE; the model is tied to /repo on every run by the regenerated statement lists of the five functions and by replaying every window of the '
         'real onAccept/Close (paused between statements by build-time instrumentation) on the model, while the Lean spec judges the implementation\'s observations, real event loops and an EMFILE child included.',
    note='partial: real-time waits, the kernel accept queue and sync.Map.Range are assumed (Range visits every key present throughout); the per-connection lifecycle is the C05 summary. '
         'Needs fixes/c13-track.patch in /repo (D12 and two Shutdown races); known findings: second Shutdown returns nil at once; data+FIN inside the accept window is never tracked.',
    technique='Lean 4 invariant proofs over an interleaving model + statement-level differential replay of the instrumented real code + spec oracle on real event loops', design='§6 C13')
MODULES = ['Netpoll.Props.C13', 'Netpoll.Tie.Server']
MIRRORED = ('server.OnRead', 'server.onAccept', 'server.Close', 'server.Run', 'server.accept', 'eventLoop.Serve', 'eventLoop.Shutdown',
            'eventLoop.quit', 'eventLoop.waitQuit')

def run(rep, prop=PROP):
    wd = os.path.join(common.WORK, prop); shutil.rmtree(wd, ignore_errors=True); os.makedirs(wd)
    ok, detail = common.proof_stage(rep, MODULES, ['npdriver'])
    proof_broken = None if ok else detail
    binary, out = srvrun.build()
    if binary is None:
        rep.violation('harness does not build against /repo (does the tree compile?):\n' + out[-2000:], ['# go build failed'], no_input=True)
        return
    st = srvrun.steps()
    cfg = srvrun.detect_cfg(st)
    rep.notes.append('code variant detected from the statement lists: fixTrack,fixInflight,fixRecheck = ' + cfg)
    problems = []
    # 1. deterministic windows of the real onAccept / Close
    plan = srvrun.sweep_plan(st, rep.tier)
    sw = srvrun.run_sweep(binary, os.path.join(wd, 'sweep'), plan, cfg)
    for p in sw['problems']: problems.append(('sweep',) + p)
    for hp in sw['harness_problems']: rep.notes.append('sweep harness: ' + hp)
    rep.cov['evaluations'] = sw['scenarios']
    rep.cov['distinct_nontrivial'] = len([f for f in sw['finals'] if f[1]])
    rep.cov['rule'] = ('sweep scenario = one real accept (server.OnRead on a loopback listener) with one event (peer close / data / data+FIN / a whole server.Close / a second accept) '
                       'injected before one statement of the real server.onAccept, its untrack callback or server.Close; every statement passed is replayed on Netpoll.Server.step and the '
                       '(active, tracked, descriptor closed) triples are compared after every line; distinct_nontrivial = distinct (kind, point, outcome) with the event actually delivered')
    rep.cov['samples'] = sw['samples']
    rep.cov['sweep_lines'] = sw['lines']
    rep.cov['sweep_histogram'] = sw['hist']
    rep.cov['sweep_injected'] = sw['injected']
    rep.cov['traces_validated_against_impl'] = sw['scenarios']
    rep.assumptions += ['A-kernel-fd: accept never returns a descriptor number that is open in the process',
                        'A-range: sync.Map.Range visits every key that is present during the whole call',
                        'C05 summary: a connection is closed once, torn down once, callbacks LIFO (finalizer registered first)',
                        'A-sched-fair / A-timer for the real-time parts (wait rounds, deadlines)']
    report(rep, problems, proof_broken)

def report(rep, problems, proof_broken):
    kf = common.known_findings(PROP)
    genuine = [p for p in problems if p[2] == 'impl-violates-spec']
    others = [p for p in problems if p[2] != 'impl-violates-spec']
    if genuine:
        src, scn, kind, detail, trace = genuine[0]
        rep.violation('implementation violates the C13 spec (%d scenarios; first is the replay): %s' % (len(genuine), detail), replay_lines(src, scn, trace))
    elif others:
        src, scn, kind, detail, trace = others[0]
        rep.violation('correspondence Netpoll.Server <-> netpoll_server.go no longer checks (%s, %d scenarios) and no spec-violating input was found in %d scenarios: %s'
                      % (kind, len(others), rep.cov['evaluations'], detail), replay_lines(src, scn, trace), no_input=True)
    elif proof_broken:
        rep.violation('proof obligation / tie broken and no failing input found in %d scenarios: %s' % (rep.cov['evaluations'], proof_broken),
                      ['# ' + l for l in proof_broken.split('\n')], no_input=True)
    for k in kf:
        if k.get('status') == 'finding':
            print('KNOWN-FINDING: property=%s %s' % (PROP, k['what']))

def replay_lines(src, scn, trace):
    if scn is None:
        return ['# ' + src]
    return ['%s %s %s %d' % ((src,) + tuple(scn))] + ['# ' + l for l in trace]

def replay(rep, path):
    binary, out = srvrun.build()
    common.lake_build(['npdriver'])
    st = srvrun.steps(); cfg = srvrun.detect_cfg(st)
    plan = []
    for l in open(path):
        f = l.split()
        if len(f) == 4 and f[0] == 'sweep':
            plan.append((f[1], f[2], int(f[3])))
    r = srvrun.run_sweep(binary, os.path.join(common.WORK, 'replay13'), plan, cfg)
    rep.cov['evaluations'] = r['scenarios']
    for p in r['problems']:
        print('REPLAY: %s: %s' % (p[1], p[2]))
    if r['problems']:
        rep.violation('replay reproduces: ' + r['problems'][0][2], [l.rstrip('\n') for l in open(path)], no_input=r['problems'][0][1] != 'impl-violates-spec')
    return rep.finish(LEVEL)
