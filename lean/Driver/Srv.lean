import Netpoll.Server
import Netpoll.ServerSpec
import Netpoll.ServerRetry
import Netpoll.Gen.Server
/-! Line-protocol driver for the server model (C13).

`npdriver srv` reads the op lines written by go/inpkg/srvh.go (mode sweep) on stdin and replays them on
`Netpoll.Server.step`: every statement of the real `server.onAccept` / `server.Close` that was about to
execute (`pt …`, as labelled by tools/extract) is mapped to the model step(s) its program counters assign
to that statement; injected events (`inject`, `busy`, …) are model actions of the environment.  One reply
line per op line: the (active, tracked, descriptor closed) triple of every connection.

`npdriver srvspec <ops> <impl>` judges the IMPLEMENTATION's reply lines with `Netpoll.Server.Spec`. -/
open Netpoll.Server

namespace Driver.Srv

structure W where
  cfg : Cfg := Cfg.fixed
  s : S := {}
  stuck : Option String := none
  /-- connections whose onAccept currently holds its mutex (fixed code) -/
  muHeld : List Nat := []
  /-- teardown of connection 0 is driven statement by statement (`cbpt` lines) -/
  manual : Bool := false
  pendClose : List Nat := []
  pendBusy : List Nat := []
  announced : Nat := 0
  expectRound : Bool := false
  rangeSeen : Bool := false
  /-- statements whose hook has been passed but which have not executed yet (events injected in the
      hook come first): per onAccept activation, for Close, for the untrack callback -/
  pendA : List (Nat × String) := []
  pendC : Option String := none
  pendCb : Option (Nat × String) := none

abbrev M := StateM W

def toN (s : String) : Nat := s.toNat?.getD 0

def act (a : Act) : M Unit := modify fun w =>
  match step w.cfg w.s a with
  | some s' => { w with s := s' }
  | none => if w.stuck.isNone then { w with stuck := some (reprStr a) } else w

def tryAct (a : Act) : M Unit := modify fun w =>
  match step w.cfg w.s a with
  | some s' => { w with s := s' }
  | none => w

def connAt (w : W) (i : Nat) : Option Conn := w.s.conns[i]?

/-- everything that proceeds without the harness: pending events become effective once the connection
    is registered; a closed connection whose handler is not running is torn down (unless its untrack
    callback waits for the onAccept mutex); Shutdown's own Close returns when its teardown is done -/
def advance : M Unit := do
  let w ← get
  for i in List.range w.s.conns.length do
    let registered := match connAt (← get) i with | some c => c.reg | none => false
    if registered && (← get).pendBusy.contains i then
      tryAct (.cBusy i)
      modify fun w => { w with pendBusy := w.pendBusy.erase i }
    if registered && (← get).pendClose.contains i then
      tryAct (.cClose i)
      modify fun w => { w with pendClose := w.pendClose.erase i }
    if !(← get).manual || i != 0 then
      tryAct (.tStart i)
      let w ← get
      let blocked := w.muHeld.contains i && (match connAt w i with | some c => c.td == .loaded true | none => false)
      if !blocked then
        tryAct (.tUntrack i)
        tryAct (.tFdClose i)
  tryAct .shTornDown

def obs : M String := do
  let w ← get
  let n := max w.s.conns.length w.announced
  if n == 0 then return "-"
  let parts := (List.range n).map fun i =>
    match w.s.conns[i]? with
    | none => s!"c{i}:u"
    | some c =>
      if c.apc == .accepted then s!"c{i}:u"
      else
        let b (x : Bool) := if x then "1" else "0"
        s!"c{i}:a{b (!c.closing)}t{b (w.s.tracked i)}f{b (!c.fdOpen)}"
  return " ".intercalate parts

def reply : M String := do
  let o ← obs
  match (← get).stuck with
  | some a => return s!"MODEL-STUCK {a} | {o}"
  | none => return o

def onAcceptStmt (i : Nat) (label : String) : M Unit := do
  let w ← get
  match label with
  | "0 expr:AddCloseCallback" => act (.aAddCb i)
  | "0 if:IsActive" => act (.aCheck i)
  | "0 expr:mu.Lock" => set { w with muHeld := i :: w.muHeld }
  | "0 expr:s.connections.Store" => if !w.cfg.fixTrack then act (.aStore i)
  | "1 expr:s.connections.Store" => if w.cfg.fixTrack then act (.aStore i)
  | "0 expr:mu.Unlock" =>
    -- the guarded Store was skipped (untracked already set): the model's store step is the skip branch
    match connAt w i with
    | some c => if c.apc == .p2 then act (.aStore i)
    | none => pure ()
    modify fun w => { w with muHeld := w.muHeld.erase i }
  | "0 expr:onConnect" => act (.aOnConnect i)
  | "0 expr:init" | "0 if:" => pure ()
  | l => if neutral l then pure () else
    modify fun w => if w.stuck.isNone then { w with stuck := some s!"unknown onAccept statement {l}" } else w

def drain : Nat → M Unit
  | 0 => pure ()
  | n + 1 => do
    if (← get).s.todo != [] then
      act .shSkip
      drain n

def closeStmt (label : String) : M Unit := do
  let w ← get
  match label with
  | "0 expr:Control(PollDetach)" => do act .shCall; act .shQuit; act .shDetach
  | "0 expr:Close" => act .shLnClose
  | "0 for:" => set { w with expectRound := true }
  | "1 expr:s.connections.Range" => set { w with rangeSeen := true }
  | "2 if:isIdle" => act .shObserve
  | "3 expr:Close" => act .shClose
  | "3 if:s.connections.Load" => act .shRecheck
  | "2 return:" => match w.s.sh with
    | .after _ => act .shRecheck
    | _ => pure ()
  | "1 if:" =>
    if w.rangeSeen then do
      drain (w.s.todo.length + 1)
      act .shEnd
      modify fun w => { w with rangeSeen := false }
  | "2 return:Err" => do act .ctxExpire; act .shCtx
  | "2 continue:" => do act .shTick; modify fun w => { w with expectRound := true }
  | l =>
    if l.startsWith "1 assign:" && w.expectRound then do
      act .shRound
      modify fun w => { w with expectRound := false, rangeSeen := false }

def shName (s : S) : String :=
  match s.sh with
  | .retNil => "nil"
  | .retCtx => "ctx"
  | _ => "run"

def parseCfg (s : String) : Cfg :=
  let bits := (s.drop 4).toString.toList
  let b (i : Nat) := bits.getD i '1' == '1'
  ⟨b 0, b 1, b 2⟩

def flushA (i : Nat) : M Unit := do
  let w ← get
  match w.pendA.lookup i with
  | some l =>
    set { w with pendA := w.pendA.filter (·.1 != i) }
    onAcceptStmt i l
  | none => pure ()

def flushC : M Unit := do
  let w ← get
  match w.pendC with
  | some l => do set { w with pendC := none }; closeStmt l
  | none => pure ()

def flushCb : M Unit := do
  let w ← get
  match w.pendCb with
  | some (i, l) =>
    set { w with pendCb := none }
    if l == "1 expr:s.connections.Delete" then act (.tUntrack i)
  | none => pure ()

def handle (line : String) : M String := do
  let ws := line.splitOn " "
  match ws with
  | "scn" :: rest =>
    let cfg := match rest.getLast? with | some c => parseCfg c | none => Cfg.fixed
    set ({ cfg := cfg } : W)
    act (.serveRun true)
    return "scn"
  | ["accept", i, fd] =>
    let i := (toN i)
    -- the descriptor number becomes known to the harness in OnPrepare; nothing has used it before init
    modify fun w => match w.s.conns[i]? with
      | some c => if c.apc == .accepted then { w with s := w.s.setConn i { c with fd := toN fd } } else w
      | none => w
    if (← get).s.conns.length ≤ i then act (.pAccept (.conn (toN fd)))
    act (.aInit i false)
    modify fun w => { w with announced := max w.announced (i + 1) }
    reply
  | "pt" :: i :: fn :: _k :: rest =>
    let label := " ".intercalate rest
    if fn == "server.onAccept" then
      let i := (toN i)
      if (← get).s.conns.length ≤ i then act (.pAccept (.conn (100000 + i)))
      flushA i
      advance
      modify fun w => { w with announced := max w.announced (i + 1), pendA := (i, label) :: w.pendA }
      reply
    else
      flushC
      advance
      modify fun w => { w with pendC := some label }
      reply
  | ["ret", i] => do flushA (toN i); advance; reply
  | "cbpt" :: i :: _k :: rest =>
    let label := " ".intercalate rest
    flushCb
    modify fun w => { w with pendCb := some ((toN i), label) }
    reply
  | ["inject", i] =>
    let i := (toN i)
    if (← get).s.conns.length ≤ i || ((connAt (← get) i).map (·.apc == .accepted)).getD true then
      modify fun w => { w with pendClose := i :: w.pendClose, announced := max w.announced (i + 1) }
    else
      tryAct (.cClose i)   -- a peer close after the connection was closed locally changes nothing
    advance
    reply
  | ["nobusy", _] => do advance; reply
  | ["injectbusy", i] => do act (.cClose (toN i)); reply
  | ["injectcb", i] =>
    let r ← reply
    act (.cClose (toN i)); act (.tStart (toN i))
    modify fun w => { w with manual := true }
    return r
  | ["tdone", i] =>
    flushCb
    tryAct (.tUntrack (toN i))
    act (.tFdClose (toN i))
    modify fun w => { w with manual := false }
    advance
    reply
  | ["busy", i] =>
    let i := (toN i)
    if (← get).s.conns.length ≤ i || ((connAt (← get) i).map (·.apc == .accepted)).getD true then
      modify fun w => { w with pendBusy := i :: w.pendBusy, announced := max w.announced (i + 1) }
    else
      act (.cBusy i)
    reply
  | ["idle", i] =>
    let r ← reply
    act (.cIdle (toN i))
    return r
  | ["shret"] =>
    flushC
    advance
    let r ← reply
    return s!"sh={shName (← get).s} {r}"
  | ["settle"] => do advance; reply
  | ["final"] =>
    let w ← get
    for i in List.range w.s.conns.length do
      tryAct (.cClose i)
    advance
    reply
  | _ => return "-"

def main : IO Unit := do
  let stdin ← IO.getStdin
  let stdout ← IO.getStdout
  let mut w : W := {}
  repeat
    let line ← stdin.getLine
    if line.isEmpty then break
    let l := line.trimAscii.toString
    let (r, w') := (handle l).run w
    w := w'
    stdout.putStrLn r
  stdout.flush

/-! ### spec oracle over the implementation's replies -/
open Netpoll.Server.Spec

def parseConns (s : String) : List CObs :=
  (s.splitOn " ").filterMap fun p =>
    match p.splitOn ":" with
    | [_, "u"] => some {}
    | [_, v] =>
      let cs := v.toList
      if cs.length == 6 then some { known := true, a := cs.getD 1 '0' == '1', t := cs.getD 3 '0' == '1', f := cs.getD 5 '0' == '1' }
      else none
    | _ => none

def kv (line : String) : List (String × String) :=
  (line.splitOn " ").filterMap fun p => match p.splitOn "=" with
    | [k, v] => some (k, v)
    | _ => none

def look (m : List (String × String)) (k : String) : String := (m.lookup k).getD ""
def lookN (m : List (String × String)) (k : String) : Nat := (look m k).toNat?.getD 0

def parseReal (line : String) : RealObs :=
  let m := kv line
  { probe := look m "probe", sh := look m "sh", durMs := lookN m "dur_ms", deadlineMs := lookN m "deadline_ms",
    serve := look m "serve", lnOpen := lookN m "ln_open", trackedAtRet := lookN m "tracked_at_ret",
    staleAtRet := lookN m "stale_at_ret", openAfterGrace := lookN m "open_after_grace", again := look m "again",
    againTracked := lookN m "again_tracked", finalTracked := lookN m "final_tracked", finalAlive := lookN m "final_alive",
    finalOpen := lookN m "final_open", cbBad := lookN m "cb_bad", closeTwice := lookN m "close_twice",
    busyClosed := lookN m "busy_closed", noReply := lookN m "no_reply", idleLeft := lookN m "idle_left",
    socksLeft := lookN m "socks_left" }

def parseEmf (line : String) : EmfObs :=
  let m := kv line
  { served1 := look m "ep1_served", served2 := look m "ep2_served", fresh1 := lookN m "ep1_fresh",
    fresh2 := lookN m "ep2_fresh", sh := look m "sh" }

def parseStretch (line : String) : StretchObs :=
  let m := kv line
  let script := (look m "script").toList
  { k := lookN m "k", exhausted := script.isEmpty || script.any (fun c => c == 'E' || c == 'N'),
    crashed := lookN m "crashed", queued := lookN m "queued", served := lookN m "served", fresh := lookN m "fresh" }

/-- one letter of the harness's `results=` (what an `Accept` call answered) as the model's accept result:
    E N = out-of-descriptor errors (`isOutOfFdErr`), C = connection, A = EAGAIN, X and the lower-case letters
    (ECONNABORTED, EINTR, EPROTO, …) = any other error (none of their texts contains "closed") -/
def accResOf (c : Char) : Option AccRes :=
  if c == 'E' || c == 'N' then some .emfile
  else if c == 'C' then some (.conn 0)
  else if c == 'A' then some .eagain
  else if c == 'X' || c.isLower then some (.err false)
  else none

/-- the IMPLEMENTATION (the poller's `OnRead` and the back-off goroutine it starts) against `Netpoll.Server.Retry.episode`
    on the same script of accept results: the gap in front of its j-th accept is at least the model's delay (a sleep
    may take longer, never shorter), and it made at least the accepts the model makes up to the first connection
    accepted after the first call.  `gaps` = milliseconds between consecutive `Accept` calls, the first one excluded. -/
def stretchModelDiff (line : String) : Option String :=
  let m := kv line
  let gaps := ((look m "gaps").splitOn ",").filterMap fun x => x.toNat?
  let all := (look m "results").toList.filterMap accResOf
  -- up to and including the first connection that is not the answer to the very first call
  let rec cut (first : Bool) : List AccRes → List AccRes
    | [] => []
    | r :: rs => match r with
      | .conn _ => if first then r :: cut false rs else [r]
      | _ => r :: cut false rs
  let script := cut true all
  let want := (Retry.episodeDelays .succLt Netpoll.Gen.Server.server_OnRead_retryTable .polling script).drop 1
  if lookN m "crashed" != 0 then none
  else if (look m "results").isEmpty then none
  else if gaps.length < want.length then some s!"{gaps.length} accepts after the first up to the first connection, model {want.length}"
  else
    match ((gaps.zip want).zipIdx).find? (fun ((g, d), _) => g + 1 < d) with   -- 1 ms: the harness truncates
    | some ((g, d), j) => some s!"accept {j + 1}: implementation paused {g} ms, model at least {d} ms"
    | none => none

def verdict (fails : List String) : String :=
  if fails.isEmpty then "OK" else "IMPL-SPEC-FAIL " ++ ",".intercalate fails

/-- verdict for one (op line, implementation reply) pair; `nilSeen`: Shutdown returned nil earlier in the scenario -/
def judge (nilSeen : Bool) (op impl : String) : String × Bool :=
  let w := op.splitOn " "
  match w.head? with
  | some "scn" => ("OK", false)
  | some "obs" => (verdict (realFails (parseReal op)), false)
  | some "emf" => (verdict (emfFails (parseEmf op)), false)
  | some "stretch" =>
    let fails := stretchFails (parseStretch op)
    if !fails.isEmpty then (verdict fails, false)
    else match stretchModelDiff op with
      | some d => ("IMPL-MODEL-DIFF " ++ d, false)
      | none => ("OK", false)
  | some "census" =>
    let m := kv op
    (if lookN m "socks_after" ≤ lookN m "socks_before" then "OK" else "IMPL-SPEC-FAIL descriptors-leaked-over-the-run", false)
  | some "panic" => ("IMPL-SPEC-FAIL panic", nilSeen)
  | some "shret" =>
    let sh := (((impl.splitOn " ").headD "").drop 3).toString
    let cs := parseConns impl
    if sh == "nil" then
      (verdict ((if nilOK cs then [] else ["nil-but-connection-active-tracked-or-descriptor-open"]) ++
                (if staleFree cs then [] else ["closed-connection-tracked"])), true)
    else if sh == "ctx" then (verdict (if staleFree cs then [] else ["closed-connection-tracked"]), nilSeen)
    else ("IMPL-SPEC-FAIL shutdown-" ++ sh, nilSeen)
  | some "settle" =>
    let cs := parseConns impl
    (verdict ((if settleOK cs then [] else ["tracked-iff-alive-fails-at-quiescence"]) ++
              (if nilSeen && !allGone cs then ["connection-alive-after-shutdown-returned-nil"] else [])), nilSeen)
  | some "final" =>
    (verdict (if allGone (parseConns impl) then [] else ["connection-left-after-every-client-closed"]), nilSeen)
  | _ =>
    (verdict (if staleFree (parseConns impl) then [] else ["closed-connection-tracked"]), nilSeen)

def specMain (opsPath implPath : String) : IO Unit := do
  let ops := (← IO.FS.readFile opsPath).splitOn "\n"
  let impl := (← IO.FS.readFile implPath).splitOn "\n"
  let stdout ← IO.getStdout
  let mut nilSeen := false
  for (o, i) in ops.zip impl do
    if o.isEmpty then continue
    let (v, n) := judge nilSeen o i
    nilSeen := n
    stdout.putStrLn v
  stdout.flush

end Driver.Srv
