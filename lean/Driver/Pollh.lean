import Netpoll.Poll.Spec
/-! `npdriver pollh <ops> <impl>`: replays the harness' op lines (go/inpkg/pollh.go) on the handler
model and judges both the implementation's reply and the model's with the spec oracle.
One output line per op line:  `<model reply> |# <impl verdict> |# <model verdict> |# <coverage tags>` -/
open Netpoll.Poll

namespace Driver.Pollh

def toNat! (s : String) : Nat := s.toNat?.getD 0
def toInt! (s : String) : Int := s.toInt?.getD 0

def dash (s : String) : String := if s == "-" then "" else s

def commaList (s : String) : List String :=
  if s == "-" || s == "" then [] else s.splitOn ","

def parseRd (s : String) : Rd :=
  if s == "a" then .again else if s == "e" then .err else .ok (toNat! s)

def parseSd (s : String) : Sd :=
  if s == "a" then .again else if s == "e" then .err else .ok (toNat! s)

def parseVecs (s : String) : List Vec :=
  (dash s).toList.map fun c => if c == 'e' then Vec.empty else if c == 'z' then Vec.zero else Vec.room

/-- `errq=1101`: answer after k reads; the last answer stands for all later k; absent = EAGAIN -/
def parseErrq (s : String) : Nat → Bool :=
  let l := (dash s).toList.map (· == '1')
  fun k => match l[k]? with
    | some b => b
    | none => l.getLast?.getD true

structure PEv where
  ev : Ev
  st : OpSt

def field (kvs : List (String × String)) (k : String) : String :=
  match kvs.find? (·.1 == k) with
  | some (_, v) => v
  | none => "-"

def kvsOf (s : String) : List (String × String) :=
  ((s.splitOn " ").filter (· ≠ "")).filterMap fun kv =>
    match kv.splitOn "=" with
    | [k, v] => some (k, v)
    | _ => none

def parseEv (s : String) : PEv :=
  let kv := kvsOf s
  let kind := dash (field kv "kind")
  let has (c : Char) : Bool := kind.toList.contains c
  let op : Op := { wake := has 'K', onRead := has 'R', onWrite := has 'W', onHup := has 'H', inputs := has 'I', outputs := has 'O' }
  let sc : Script :=
    { rds := (commaList (field kv "rds")).map parseRd
      sds := (commaList (field kv "sds")).map parseSd
      ins := parseVecs (field kv "ins")
      outs := parseVecs (field kv "outs")
      errq := parseErrq (field kv "errq")
      wake := (field kv "wake").toNat? }
  { ev := { id := toNat! (field kv "id"), op, trig := Trig.ofEvt (toNat! (field kv "evt")), sc }
    st := { state := toNat! (field kv "st"), detached := toNat! (field kv "det") } }

def initOf (pes : List PEv) : Nat → OpSt := fun id =>
  match pes.find? (·.ev.id == id) with
  | some p => p.st
  | none => { state := 0, detached := 0 }

/-! printing (same canonical text as the harness) -/

def showObs : Obs → String
  | .inputs => "I"
  | .inputAck n => s!"A{n}"
  | .outputs => "O"
  | .outputAck n => s!"B{n}"
  | .onRead => "R"
  | .onWrite => "W"
  | .detach => "D"
  | .onHup => "H"
  | .other s => s

def joinOr (l : List String) : String := if l.isEmpty then "-" else ",".intercalate l

def b2 (b : Bool) : String := if b then "1" else "0"

def showOut (o : ObsOut) : String :=
  let tr := o.tr.map fun it => s!"{it.id}:{showObs it.ob}@{it.tok}"
  let st := o.st.map fun (x : Nat × OpSt) => s!"{x.1}:{x.2.state}/{x.2.detached}"
  let reg := match o.reg with
    | none => "-"
    | some l => joinOr (l.map fun (x : Nat × Bool) => s!"{x.1}:{b2 x.2}")
  let got := o.got.map fun (x : Nat × Nat) => s!"{x.1}:{x.2}"
  s!"tr={joinOr tr} exit={b2 o.exit} st={joinOr st} reg={reg} got={joinOr got} trig={o.trig} closed={b2 o.closedWop}{b2 o.closedEp} buf0={o.buf0}"

/-! parsing the implementation's reply -/

def parseObs (s : String) : Obs :=
  match s.toList with
  | ['I'] => .inputs
  | ['O'] => .outputs
  | ['R'] => .onRead
  | ['W'] => .onWrite
  | ['D'] => .detach
  | ['H'] => .onHup
  | 'A' :: r => match (String.ofList r).toInt? with
    | some n => .inputAck n
    | none => .other s
  | 'B' :: r => match (String.ofList r).toInt? with
    | some n => .outputAck n
    | none => .other s
  | _ => .other s

def parseItem (s : String) : ObsItem :=
  match s.splitOn "@" with
  | [a, tok] =>
    match a.splitOn ":" with
    | [id, ob] => { id := toNat! id, ob := parseObs ob, tok := toNat! tok }
    | _ => { id := 0, ob := .other s, tok := 0 }
  | _ => { id := 0, ob := .other s, tok := 0 }

def parsePair (s : String) : Nat × String :=
  match s.splitOn ":" with
  | [a, b] => (toNat! a, b)
  | _ => (0, s)

def parseOut (line : String) : Option ObsOut :=
  if !line.startsWith "tr=" then none else
  let kv := kvsOf line
  let st := (commaList (field kv "st")).map fun s =>
    let (id, v) := parsePair s
    match v.splitOn "/" with
    | [a, b] => (id, ({ state := toNat! a, detached := toNat! b } : OpSt))
    | _ => (id, ({ state := 99, detached := 99 } : OpSt))
  let reg := if field kv "reg" == "-" then none
    else some ((commaList (field kv "reg")).map fun s => let (id, v) := parsePair s; (id, v == "1"))
  let closed := (field kv "closed").toList
  some
    { tr := (commaList (field kv "tr")).map parseItem
      exit := field kv "exit" == "1"
      st
      reg
      got := (commaList (field kv "got")).map fun s => let (id, v) := parsePair s; (id, toNat! v)
      trig := toNat! (field kv "trig")
      closedWop := closed[0]? == some '1'
      closedEp := closed[1]? == some '1'
      buf0 := toNat! (field kv "buf0") }

/-- which branches of the model a batch exercised (for the evidence histogram) -/
def covTags (r : BatchOut) : List String :=
  let has (p : Cb → Bool) := r.tr.any fun x => p x.2
  (if has (· == .onRead) then ["onRead"] else []) ++
  (if has (· == .onWrite) then ["onWrite"] else []) ++
  (if has (fun c => match c with | .inputAck n => n > 0 | _ => false) then ["read-data"] else []) ++
  (if has (· == .inputAck 0) then ["read-zero"] else []) ++
  (if has (· == .inputAck (-1)) then ["read-errno"] else []) ++
  (if has (fun c => match c with | .outputAck n => n > 0 | _ => false) then ["send-data"] else []) ++
  (if has (· == .outputAck 0) then ["send-zero"] else []) ++
  (if has (· == .outputAck (-1)) then ["send-errno"] else []) ++
  (if has (· == .hupQueued true) then ["hup-queued"] else []) ++
  (if has (· == .hupQueued false) then ["hup-queued-nil"] else []) ++
  (if has (· == .detach true) then ["detach"] else []) ++
  (if has (· == .detach false) then ["detach-already"] else []) ++
  (if has (· == .wakeRead) then ["wake"] else []) ++
  (if r.exit then ["exit"] else []) ++
  (if r.exit && !r.ran.isEmpty then ["exit-runs-hups"] else []) ++
  (if !r.ran.isEmpty then ["hup-run"] else []) ++
  (if r.stuck then ["stuck"] else [])

def processLine (op impl : String) : String :=
  if op.startsWith "real " then
    -- end-to-end facts of a real-epoll scenario, judged by the harness: bytes delivered before the
    -- hang-up, hang-up once, Trigger wakes, Close releases, growth rule
    (if impl == "ok" then "ok |# ok" else s!"ok |# FAIL:real-scenario") ++ " |# ok |# real"
  else
  match op.splitOn " ; " with
  | [] => "bad-op"
  | hd :: evs =>
    let kv := kvsOf hd
    let buf0 := toNat! (field kv "buf0")
    let pes := evs.map parseEv
    let es := pes.map (·.ev)
    let init := initOf pes
    let r := handleBatch buf0 init es
    let trig0 := match (field kv "trig0").toNat? with
      | some t => t
      | none => 7
    let mo := project trig0 es r
    -- Wait's growth rule between consecutive batches of one loop (real-epoll runs only)
    let growthOk : Bool := match (field kv "prev").splitOn ":" with
      | [ps, pn] => toNat! (field kv "size") == nextSize (toNat! ps) (toNat! pn) && es.length ≤ toNat! (field kv "size")
      | _ => true
    let model := if r.stuck then "stuck " ++ showOut mo else showOut mo
    let verdict (o : ObsOut) : String :=
      if !nodupIds es then "skip-dup-ids" else
      match specCheck buf0 init es o ++ (if growthOk then [] else ["event-array-growth"]) with
      | [] => "ok"
      | l => "FAIL:" ++ ",".intercalate l
    let iv := match parseOut impl with
      | some o => verdict o
      | none => "noparse"
    s!"{model} |# {iv} |# {verdict mo} |# {" ".intercalate (covTags r)}"

partial def loop (ops impl : IO.FS.Stream) (out : IO.FS.Stream) : IO Unit := do
  let o ← ops.getLine
  if o.isEmpty then return ()
  let i ← impl.getLine
  let o := o.trimAscii.toString
  if o.isEmpty || o.startsWith "#" then loop ops impl out
  else
    out.putStrLn (processLine o i.trimAscii.toString)
    loop ops impl out

def main (opsPath implPath : String) : IO Unit := do
  let ops ← IO.FS.Handle.mk opsPath .read
  let impl ← IO.FS.Handle.mk implPath .read
  loop (IO.FS.Stream.ofHandle ops) (IO.FS.Stream.ofHandle impl) (← IO.getStdout)

end Driver.Pollh
