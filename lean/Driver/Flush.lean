/-
  npdriver flush <tracefile>

  Reads the traces written by the controlled scheduler for the C08 scenarios (go/inpkg/sched_flush.go) and, per run,
  (1) trace conformance: every executed step of the REAL code (`S` atomic operation, `P` channel point, `T` timer
      operation, `K` answer of the scripted kernel, `G` ghost events of the harness / the fake Poll's Control) is mapped
      to the action(s) of the interleaving model Netpoll.Conn.Flush it stands for and followed with `step`; observed
      values must equal the model's.  The first line no model state accepts is reported.
  (2) spec oracle: Netpoll.Conn.FlushSpec.check on the observable events of the IMPLEMENTATION's run; known finding D9
      is recognised by exactly its pattern and listed after `known:`.
  Output, one line per run:  `run <k> conf=<ok|FAIL> spec=<ok|FAIL> states=<n> [| conf: …] [| spec: …] [| known: …]`,
  then totals and `stat <key> <count>` lines.
-/
import Netpoll.Conn.Flush
import Netpoll.Conn.FlushSpec
import Netpoll.Gen.Consts
namespace Driver.Flush
open Netpoll.Conn.Flush
open Netpoll.Conn (FlushSpec.Ev FlushSpec.Summary)

def toNat (s : String) : Nat := s.toNat?.getD 0
def toInt (s : String) : Int := s.toInt?.getD 0

def getKV (ws : List String) (key : String) : String :=
  match ws.find? (fun w => w.startsWith (key ++ "=")) with
  | some w => (w.drop (key.length + 1)).toString
  | none => ""

def opOf (fn : String) : String :=
  if fn.startsWith "CompareAndSwap" then "cas"
  else if fn.startsWith "Load" then "load"
  else if fn.startsWith "Store" then "store"
  else if fn.startsWith "Add" then "add"
  else fn

structure Cand where
  acts : List Act
  pre : S → Bool := fun _ => true
  post : S → Bool := fun _ => true

def nop (pre : S → Bool := fun _ => true) : Cand := { acts := [], pre := pre }

def resOf (res : String) : Option Result :=
  if res == "ok" then some .ok else if res == "closed" then some .errClosed else if res == "wtimeout" then some .errTimeout
  else if res == "concurrent" then some .errConcurrent else none

def readyOf (comms : String) (ch : String) : Option Bool :=
  (comms.splitOn ",").findSome? (fun c => match c.splitOn ":" with
    | [_, name, r] => if name == ch then some (r == "1") else none
    | _ => none)

/-- what one `GetBytes` + `sendmsg` may offer of an output buffer holding `out` bytes: everything, or - when the vector is
full (`barriercap` slices, one per non-empty node) - a proper prefix.  `vecs` is the K line's `vecs=<n>` token. -/
def offerOk (out : Nat) (offered vecs : String) : Bool :=
  toNat offered == out || (toNat offered < out && toNat (getKV [vecs] "vecs") == Netpoll.Gen.c_barriercap)

/-- calls of the script that submit nothing to the kernel (no Flush inside): WriteBinary / a burst of Appends -/
def noFlushOp (op : String) : Bool := op == "M" || op == "V"

def isChkActive : FPc → Bool
  | .chkActive _ _ => true
  | _ => false
def isLock : FPc → Bool
  | .lock _ _ => true
  | _ => false
def isSubmit (d : Nat) : FPc → Bool
  | .submit a _ => a == d
  | _ => false
def isChkEmpty : FPc → Bool
  | .chkEmpty1 _ | .chkEmpty2 _ => true
  | _ => false
def isSend : FPc → Bool
  | .send _ => true
  | _ => false
def isR2rw : FPc → Bool
  | .r2rw _ => true
  | _ => false
def isWait : FPc → Bool
  | .wait _ => true
  | _ => false
def isStopTimer : FPc → Bool
  | .stopTimer _ => true
  | _ => false
def isUnlock : FPc → Bool
  | .unlock _ => true
  | _ => false

/-- candidates for a trace line, given the model state `s`; `curOp`/`curMode` describe the flusher's current call,
`skipLoad` says that this actor's next load of the output length is the check inside LinkBuffer.Skip -/
def cands (s : S) (curOp curMode : String) (skipLoad : Bool) (ws : List String) : List Cand :=
  match ws with
  -- ---------------- flusher
  | "G" :: "flusher" :: "call" :: _ => [nop (fun s => s.f == .idle)]
  | ["G", "flusher", "enter", add] =>
      let k := toNat (getKV [add] "add")
      if curMode == "x" then [{ acts := [.flushX k], pre := fun s => s.f == .idle }]
      else [{ acts := [.flush k (curMode == "t" || curMode == "d")], pre := fun s => s.f == .idle }]
  | "G" :: "flusher" :: "malloc" :: _ => [nop]
  | "G" :: "flusher" :: "ret" :: _ :: rest =>
      let res := getKV rest "res"
      let okRes : Bool := if noFlushOp curOp then true else
        match resOf res, s.results.head? with
        | some r, some x => x.1 == r
        | _, _ => false
      [nop (fun s => s.f == .idle && okRes && s.out == toNat (getKV rest "out") && s.tick == (getKV rest "tick" == "1")
                     && s.slot.isSome == (getKV rest "slot" == "1") && s.interestW == (getKV rest "rw" == "1"))]
  | ["S", "flusher", _, "closing", fn, _, _, r] =>
      if opOf fn == "load" then
        if isChkActive s.f then [{ acts := [.fstep], pre := fun s => (s.closing != 0) == (r != "0") }]
        else if s.f == .idle then [nop] else []
      else []
  | ["S", "flusher", _, "flushing", fn, a, b, r] =>
      match opOf fn with
      | "cas" =>
          if a == "0" && b == "1" then [{ acts := [.fstep], pre := fun s => isLock s.f && (s.flushing == 0) == (r == "1") }]
          -- `inh=1`: the flusher is the handler's task; after the handler returned its tail runs closeCallback, whose
          -- finalizer does stop(flushing) - the same steps a closer's closeCallback makes
          else if a == "0" && b == "2" then
            (if r == "1" then [{ acts := [.stopF], pre := fun s => s.f == .idle }] else [nop (fun s => s.f == .idle && s.flushing != 0)])
          else []
      | "store" => if a == "0" then [{ acts := [.fstep], pre := fun s => isUnlock s.f }] else []
      | "load" => [nop (fun s => s.f == .idle && s.flushing == toNat r)]
      | _ => []
  | ["S", "flusher", _, "outLen", fn, a, _, r] =>
      match opOf fn with
      | "add" =>
          let d := toInt a
          if d ≥ 0 then [{ acts := [.fstep], pre := fun s => isSubmit d.toNat s.f, post := fun s => s.out == toNat r }]
          else [{ acts := [.fsend (-d).toNat], pre := fun s => isSend s.f, post := fun s => s.out == toNat r }]   -- Skip of what the kernel accepted
      | "load" =>
          if skipLoad then [nop]
          else if isChkEmpty s.f then [{ acts := [.fstep], pre := fun s => s.out == toNat r }]
          else if s.f == .idle then [nop]     -- closeBuffer's Len() in the task's closeCallback (`inh=1`)
          else []
      | "store" => if a == "0" && s.f == .idle then [nop (fun s => s.out == 0)] else []
      | _ => []
  | ["K", "flusher", _, "sendmsg", offered, n, _, vecs] =>
      -- the model's `out` mirrors outputBuffer.Len(): an accepted count n > 0 takes effect at the Skip line that follows
      if toInt n > 0 then [nop (fun s => isSend s.f && offerOk s.out offered vecs && toNat n ≤ toNat offered)]
      else [{ acts := [.fsend 0], pre := fun s => isSend s.f && offerOk s.out offered vecs }]
  | ["G", "flusher", "epoll", "mod", "rw"] => [{ acts := [.fstep], pre := fun s => isR2rw s.f }]
  | ["G", "flusher", "epoll", "mod", "r"] => [{ acts := [.fstep], pre := fun s => s.f == .tmoRw2r }]
  | ["T", "flusher", _, op, "wtimer", res] =>
      if op == "new" || op == "reset" then [{ acts := [.fstep], pre := fun s => s.f == .arm }]
      else if op == "stop" then
        if res == "1" then [{ acts := [.fstep], pre := fun s => isStopTimer s.f && s.timerRunning }]
        else [nop (fun s => isStopTimer s.f && !s.timerRunning && s.tick)]
      else []
  | ["P", "flusher", _, "0", comms] =>
      let wr := readyOf comms "wr"
      let tm := readyOf comms "wtimer"
      if isWait s.f then
        match wr, tm with
        | some true, some false | some true, none => [{ acts := [.recvSlot], pre := fun s => s.slot.isSome }]
        | some false, some true => [{ acts := [.recvTick], pre := fun s => s.tick }]
        | _, _ => []
      else if isStopTimer s.f then
        match wr, tm with
        | none, some true => [{ acts := [.fstep], pre := fun s => !s.timerRunning && s.tick }]
        | _, _ => []
      else []
  | ["P", "flusher", _, "1", comm] =>
      match readyOf comm "wr" with
      | some rdy => [{ acts := [.fstep], pre := fun s => s.f == .tmoRecv && s.slot.isSome == rdy }]
      | none => []
  -- ---------------- the second flusher (its whole call is one step)
  | "G" :: "flusher2" :: _ => [nop]
  | ["S", "flusher2", _, "closing", _, _, _, _] => [nop]
  | ["S", "flusher2", _, "flushing", fn, a, b, r] =>
      if opOf fn == "cas" && a == "0" && b == "1" && r == "0" then [{ acts := [.flush2] }] else []
  -- ---------------- poller write event
  | ["G", "wpoller", "wevent"] => [{ acts := [.wevent] }]
  | "G" :: "wpoller" :: "epoll" :: "mod" :: "r" :: _ => [{ acts := [.pstep], pre := fun s => s.p == .rw2rCtl }]
  | "G" :: "wpoller" :: _ => [nop]
  | ["S", "wpoller", _, "outLen", fn, a, _, r] =>
      match opOf fn with
      | "load" =>
          if skipLoad then [nop]
          else if s.p == .outputs || s.p == .ackChk then [{ acts := [.pstep], pre := fun s => s.out == toNat r }] else []
      | "add" => if toInt a < 0 then [{ acts := [.psend (-(toInt a)).toNat], pre := fun s => s.p == .sendAck, post := fun s => s.out == toNat r }] else []
      | _ => []
  | ["K", "wpoller", _, "sendmsg", offered, n, _, vecs] =>
      if toInt n > 0 then [nop (fun s => s.p == .sendAck && offerOk s.out offered vecs && toNat n ≤ toNat offered)]
      else [{ acts := [.psend 0], pre := fun s => s.p == .sendAck && offerOk s.out offered vecs }]
  | ["P", "wpoller", _, "1", comm] =>
      match readyOf comm "wr" with
      | some room => [{ acts := [.pstep], pre := fun s => s.p == .rw2rTrig && s.slot.isNone == room }]
      | none => []
  -- ---------------- timer
  | ["G", "wtimer", "fire", ok] => if ok == "true" then [{ acts := [.fire] }] else []
  -- ---------------- closers, hang-up, the environment
  | ["S", actor, _, "closing", fn, a, _, r] =>
      if actor.startsWith "closer" || actor == "hup" then
        match opOf fn with
        | "cas" => if r == "1" then [{ acts := [.close] }] else [nop (fun s => s.closing != 0)]
        | "store" => if a == "1" then [nop (fun s => s.closing != 0)] else []
        | "load" => [nop]
        | _ => []
      else []
  | ["P", actor, _, "1", comm] =>
      if actor.startsWith "closer" || actor == "hup" then
        match readyOf comm "wr" with
        | some room => [{ acts := [.cstep], pre := fun s => s.c == .trig && s.slot.isNone == room }]
        | none => []
      else []
  | ["S", actor, _, "flushing", fn, a, b, r] =>
      if actor.startsWith "closer" || actor == "hup" then
        match opOf fn with
        | "cas" => if a == "0" && b == "2" then (if r == "1" then [{ acts := [.stopF] }] else [nop (fun s => s.flushing != 0)]) else []
        | "load" => [nop (fun s => s.flushing == toNat r)]
        | _ => []
      else []
  | ["S", actor, _, "outLen", fn, a, _, _] =>
      if actor.startsWith "closer" || actor == "hup" then
        match opOf fn with
        | "load" => [nop]
        | "store" => if a == "0" then [nop (fun s => s.out == 0)] else []
        | _ => []
      else []
  | "G" :: _ => [nop]
  | "C" :: _ => [nop]
  | "X" :: _ => [nop]
  | "Y" :: _ => [nop]
  | _ => []

def dedup (l : List S) : List S := l.foldl (fun acc x => if acc.contains x then acc else x :: acc) []

def advance (states : List S) (curOp curMode : String) (skipLoad : Bool) (ws : List String) : List S :=
  dedup (states.foldl (fun acc s => (cands s curOp curMode skipLoad ws).foldl (fun acc2 c =>
    if c.pre s then
      match run s c.acts with
      | some s' => if c.post s' then s' :: acc2 else acc2
      | none => acc2
    else acc2) acc) [])

def evsOf (ws : List String) : List FlushSpec.Ev :=
  match ws with
  | "G" :: "flusher" :: "call" :: i :: op :: rest => [.call (toNat i) op (toNat (getKV rest "n")) (getKV rest "mode")]
  | "G" :: "flusher" :: "ret" :: i :: rest =>
      [.ret (toNat i) (getKV rest "res") (toNat (getKV rest "out")) (toNat (getKV rest "tick")) (toNat (getKV rest "slot")) (toNat (getKV rest "rw"))]
  | "G" :: "flusher2" :: "f2" :: "ret" :: rest => [.f2ret (getKV rest "res") (getKV rest "same" == "1")]
  | ["S", _, _, "outLen", fn, a, _, _] =>
      if opOf fn == "add" then (if toInt a > 0 then [.submitted (toInt a).toNat] else if toInt a < 0 then [.skipped (-(toInt a)).toNat] else []) else []
  | ["K", _, _, "sendmsg", _, n, _, _] => if toInt n > 0 then [.accepted (toInt n).toNat] else []
  | ["G", "wtimer", "fire", "true"] => [.fired]
  | ["G", "flusher", "select-forced", c, also] => if c == "case=wtimer" then [.tickTaken (also == "also-ready=wr")] else []
  | ["S", _, _, "closing", fn, _, _, r] => if opOf fn == "cas" && r == "1" then [.closed] else []
  | "G" :: who :: "panic-out" :: _ => [.panic who]
  | _ => []

structure RunSt where
  id : String := ""
  states : List S := []
  confFail : Option String := none
  evs : Array FlushSpec.Ev := #[]
  lineNo : Nat := 0
  maxStates : Nat := 1
  active : Bool := false
  curOp : String := ""
  curMode : String := "u"
  skipF : Bool := false      -- the flusher's next output-length load belongs to Skip
  skipP : Bool := false      -- same for the poller

def bump (m : List (String × Nat)) (k : String) : List (String × Nat) :=
  if m.any (·.1 == k) then m.map (fun p => if p.1 == k then (p.1, p.2 + 1) else p) else m ++ [(k, 1)]

def main (path : String) : IO Unit := do
  let h ← IO.FS.Handle.mk path IO.FS.Mode.read
  let out ← IO.getStdout
  let mut rs : RunSt := {}
  let mut nRuns := 0
  let mut nConfFail := 0
  let mut nSpecFail := 0
  let mut nKnown := 0
  let mut nLines := 0
  let mut stats : List (String × Nat) := []
  repeat
    let line ← h.getLine
    if line.isEmpty then break
    let l := line.trimRight
    let ws := l.splitOn " "
    match ws with
    | "run" :: id :: "scn" :: _ =>
        rs := { id := id, states := [init], active := true }
    | "end" :: rest =>
        if rs.active then
          let status := getKV rest "status"
          let parked := (getKV rest "parked").splitOn ","
          let fp := parked.any (fun p => p.startsWith "flusher@connection.")
          let f2p := parked.any (fun p => p.startsWith "flusher2@connection.")
          let sm : FlushSpec.Summary := ⟨status, toNat (getKV rest "out"), toNat (getKV rest "accepted"), toNat (getKV rest "peer"),
                                         toNat (getKV rest "tick"), toNat (getKV rest "closing"), toNat (getKV rest "rw"), fp, f2p⟩
          let (bad, known0) := Netpoll.Conn.FlushSpec.check rs.evs.toList sm
          let cat := Netpoll.Conn.FlushSpec.callsAfterTimeout rs.evs.toList
          let mut known := known0
          nRuns := nRuns + 1
          stats := bump stats s!"status={status}"
          if fp then stats := bump stats "flusher-blocked-at-end"
          let mut cf := rs.confFail
          if cf.isNone then
            if !(rs.states.any (fun s => s.out == sm.out && s.accepted == sm.accepted && (s.closing != 0) == (sm.closing != 0)
                                         && s.interestW == (sm.rw == 1) && s.tick == (sm.tick == 1) && s.flushing == toNat (getKV rest "flushing")
                                         && s.slot.isSome == (getKV rest "slot" == "1"))) then
              cf := some s!"end line: no model state agrees with the final observation `{l}`"
          if cat > 0 then
            if let some f := cf then
              known := known ++ ["D9b-two-owners-after-write-timeout conformance: " ++ f]
              cf := none
          let confS := if cf.isSome then "FAIL" else "ok"
          if cf.isSome then nConfFail := nConfFail + 1
          if !bad.isEmpty then nSpecFail := nSpecFail + 1
          if !known.isEmpty then nKnown := nKnown + 1
          let specS := if bad.isEmpty then "ok" else "FAIL"
          let mut msg := s!"run {rs.id} conf={confS} spec={specS} states={rs.maxStates}"
          if let some f := cf then msg := msg ++ " | conf: " ++ f
          if !bad.isEmpty then msg := msg ++ " | spec: " ++ "; ".intercalate bad
          if !known.isEmpty then msg := msg ++ " | known: " ++ "; ".intercalate known
          out.putStrLn msg
          rs := { rs with active := false }
    | tag :: actor :: _ =>
        if rs.active && (tag == "S" || tag == "P" || tag == "C" || tag == "X" || tag == "Y" || tag == "G" || tag == "T" || tag == "K") then
          nLines := nLines + 1
          rs := { rs with lineNo := rs.lineNo + 1, evs := rs.evs ++ (evsOf ws).toArray }
          match ws with
          | "G" :: "flusher" :: "call" :: _ :: op :: rest =>
              rs := { rs with curOp := op, curMode := getKV rest "mode" }
              stats := bump stats s!"call op={op} mode={getKV rest "mode"}"
          | "G" :: "flusher" :: "ret" :: _ :: rest => stats := bump stats s!"result {getKV rest "res"}"
          | "G" :: "flusher2" :: "f2" :: "ret" :: rest => stats := bump stats s!"f2 result {getKV rest "res"}"
          | ["G", "wtimer", "fire", _] => stats := bump stats "timer-fired"
          | ["G", "wpoller", "wevent"] => stats := bump stats "write-events"
          | ["K", _, _, "sendmsg", offered, n, _, _] =>
              stats := bump stats (if toInt n ≤ 0 then "kernel EAGAIN" else if toNat n < toNat offered then "kernel partial" else "kernel all")
          | _ => pure ()
          let isOutLoad : Bool := match ws with
            | ["S", _, _, "outLen", fn, _, _, _] => opOf fn == "load"
            | _ => false
          let skipLoad := isOutLoad && ((actor == "flusher" && rs.skipF) || (actor == "wpoller" && rs.skipP))
          if rs.confFail.isNone then
            let next := advance rs.states rs.curOp rs.curMode skipLoad ws
            if next.isEmpty then
              rs := { rs with confFail := some s!"line {rs.lineNo}: `{l}`: no model state accepts this step / the observed value differs ({rs.states.length} candidate states)" }
            else
              rs := { rs with states := next, maxStates := max rs.maxStates next.length }
          -- LinkBuffer.Skip(n) checks the length (one load) before it subtracts: expected right after a send that accepted n > 0
          if skipLoad then
            if actor == "flusher" then rs := { rs with skipF := false } else rs := { rs with skipP := false }
          match ws with
          | ["K", who, _, "sendmsg", _, n, _, _] =>
              if toInt n > 0 then
                if who == "flusher" then rs := { rs with skipF := true } else if who == "wpoller" then rs := { rs with skipP := true }
          | _ => pure ()
    | _ => pure ()
  out.putStrLn s!"total runs={nRuns} lines={nLines} conf_fail={nConfFail} spec_fail={nSpecFail} known={nKnown}"
  for (k, v) in stats do
    out.putStrLn s!"stat {k} {v}"

end Driver.Flush
