import Driver.Lb
import Driver.LbSpec
import Driver.Pollh
import Driver.Adapter
import Driver.Closed
import Driver.Stream
import Driver.OpCache
import Driver.Shard
import Driver.Race
import Netpoll.Gen.Consts
def main (args : List String) : IO UInt32 := do
  match args with
  | ["lb"] => Driver.Lb.main; return 0
  | ["lbspec", ops, impl] => Driver.LbSpec.main ops impl; return 0
  | ["pollh", ops, impl] => Driver.Pollh.main ops impl; return 0
  | ["opcache"] => Driver.OpCache.main; return 0
  | ["stream"] => Driver.Stream.main; return 0
  | ["closed"] => Driver.Closed.main; return 0
  | ["race"] => Driver.Race.main; return 0
  | ["adapter"] => Driver.Adapter.main Netpoll.Gen.c_block4k; return 0
  | ["shard", trace] => Driver.Shard.main trace false
  | ["shard", trace, "nomodel"] => Driver.Shard.main trace true
  | _ => IO.eprintln "usage: npdriver lb | lbspec <ops> <impl> | pollh <ops> <impl> | shard <trace> [nomodel] | ..."; return 2
