import Driver.Lb
import Driver.LbSpec
import Driver.Srv
def main (args : List String) : IO UInt32 := do
  match args with
  | ["lb"] => Driver.Lb.main; return 0
  | ["lbspec", ops, impl] => Driver.LbSpec.main ops impl; return 0
  | ["srv"] => Driver.Srv.main; return 0
  | ["srvspec", ops, impl] => Driver.Srv.specMain ops impl; return 0
  | _ => IO.eprintln "usage: npdriver lb | lbspec <ops> <impl>"; return 2
