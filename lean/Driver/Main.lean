import Driver.Lb
import Driver.LbSpec
import Driver.Shard
def main (args : List String) : IO UInt32 := do
  match args with
  | ["lb"] => Driver.Lb.main; return 0
  | ["lbspec", ops, impl] => Driver.LbSpec.main ops impl; return 0
  | ["shard", trace] => Driver.Shard.main trace false
  | ["shard", trace, "nomodel"] => Driver.Shard.main trace true
  | _ => IO.eprintln "usage: npdriver lb | lbspec <ops> <impl> | shard <trace> [nomodel]"; return 2
