import Driver.Lb
import Driver.LbSpec
import Driver.Adapter
import Driver.Closed
import Driver.Stream
import Driver.OpCache
import Netpoll.Gen.Consts
import Driver.Fd
def main (args : List String) : IO UInt32 := do
  match args with
  | ["lb"] => Driver.Lb.main; return 0
  | ["lbspec", ops, impl] => Driver.LbSpec.main ops impl; return 0
  | ["opcache"] => Driver.OpCache.main; return 0
  | ["stream"] => Driver.Stream.main; return 0
  | ["closed"] => Driver.Closed.main; return 0
  | ["adapter"] => Driver.Adapter.main Netpoll.Gen.c_block4k; return 0
  | ["fd"] => Driver.Fd.main; return 0
  | _ => IO.eprintln "usage: npdriver lb | lbspec <ops> <impl> | adapter | fd"; return 2
