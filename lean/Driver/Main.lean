import Driver.Lb
import Driver.LbSpec
import Driver.Adapter
import Driver.Own
import Netpoll.Gen.Consts
def main (args : List String) : IO UInt32 := do
  match args with
  | ["lb"] => Driver.Lb.main; return 0
  | ["lbspec", ops, impl] => Driver.LbSpec.main ops impl; return 0
  | ["own"] => Driver.Own.main; return 0
  | ["adapter"] => Driver.Adapter.main Netpoll.Gen.c_block4k; return 0
  | _ => IO.eprintln "usage: npdriver lb | lbspec <ops> <impl> | adapter"; return 2
