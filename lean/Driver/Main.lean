import Driver.Lb
import Driver.LbSpec
import Driver.Pollh
import Driver.Adapter
import Driver.Own
import Driver.Closed
import Driver.Stream
import Driver.OpCache
import Driver.Shard
import Driver.Race
import Netpoll.Gen.Consts
import Driver.Dial
import Driver.Fd
import Driver.Mgr
import Driver.Life
import Driver.Srv
import Driver.Read
import Driver.Flush
def main (args : List String) : IO UInt32 := do
  match args with
  | ["lb"] => Driver.Lb.main; return 0
  | ["lbspec", ops, impl] => Driver.LbSpec.main ops impl; return 0
  | ["own"] => Driver.Own.main; return 0
  | ["pollh", ops, impl] => Driver.Pollh.main ops impl; return 0
  | ["opcache"] => Driver.OpCache.main; return 0
  | ["stream"] => Driver.Stream.main; return 0
  | ["closed"] => Driver.Closed.main; return 0
  | ["race"] => Driver.Race.main; return 0
  | ["adapter"] => Driver.Adapter.main Netpoll.Gen.c_block4k; return 0
  | ["shard", trace] => Driver.Shard.main trace false
  | ["shard", trace, "nomodel"] => Driver.Shard.main trace true
  | ["dial"] => Driver.Dial.main Netpoll.Dial.fixedCfg; return 0
  | ["dial-d13"] => Driver.Dial.main Netpoll.Dial.d13Cfg; return 0
  | ["dialspec", impl] => Driver.Dial.specMain impl; return 0
  | ["dialadmit"] => Driver.Dial.admitMain Netpoll.Dial.fixedCfg; return 0
  | ["fd"] => Driver.Fd.main; return 0
  | ["mgr"] => Driver.Mgr.main; return 0
  | ["mgrspec", ops, impl] => Driver.Mgr.specMain ops impl; return 0
  | ["life", trace] => Driver.Life.main trace; return 0
  | ["read", trace] => Driver.Read.main trace; return 0
  | ["flush", trace] => Driver.Flush.main trace; return 0
  | ["srv"] => Driver.Srv.main; return 0
  | ["srvspec", ops, impl] => Driver.Srv.specMain ops impl; return 0
  | _ => IO.eprintln "usage: npdriver <mode> ... (see lean/Driver/Main.lean)"; return 2
