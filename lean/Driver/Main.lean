import Driver.Lb
import Driver.LbSpec
import Driver.Mgr
def main (args : List String) : IO UInt32 := do
  match args with
  | ["lb"] => Driver.Lb.main; return 0
  | ["lbspec", ops, impl] => Driver.LbSpec.main ops impl; return 0
  | ["mgr"] => Driver.Mgr.main; return 0
  | ["mgrspec", ops, impl] => Driver.Mgr.specMain ops impl; return 0
  | _ => IO.eprintln "usage: npdriver lb | lbspec <ops> <impl>"; return 2
