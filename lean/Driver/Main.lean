import Driver.Lb
import Driver.LbSpec
import Driver.Pollh
def main (args : List String) : IO UInt32 := do
  match args with
  | ["lb"] => Driver.Lb.main; return 0
  | ["lbspec", ops, impl] => Driver.LbSpec.main ops impl; return 0
  | ["pollh", ops, impl] => Driver.Pollh.main ops impl; return 0
  | _ => IO.eprintln "usage: npdriver lb | lbspec <ops> <impl> | pollh <ops> <impl>"; return 2
