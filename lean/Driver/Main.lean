import Driver.Lb
import Driver.LbSpec
import Driver.Dial
def main (args : List String) : IO UInt32 := do
  match args with
  | ["lb"] => Driver.Lb.main; return 0
  | ["lbspec", ops, impl] => Driver.LbSpec.main ops impl; return 0
  | ["dial"] => Driver.Dial.main Netpoll.Dial.fixedCfg; return 0
  | ["dial-d13"] => Driver.Dial.main Netpoll.Dial.d13Cfg; return 0
  | ["dialspec", impl] => Driver.Dial.specMain impl; return 0
  | ["dialadmit"] => Driver.Dial.admitMain Netpoll.Dial.fixedCfg; return 0
  | _ => IO.eprintln "usage: npdriver lb | lbspec <ops> <impl>"; return 2
