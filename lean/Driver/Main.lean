import Driver.Lb
import Driver.LbSpec
import Driver.Life
def main (args : List String) : IO UInt32 := do
  match args with
  | ["lb"] => Driver.Lb.main; return 0
  | ["lbspec", ops, impl] => Driver.LbSpec.main ops impl; return 0
  | ["life", trace] => Driver.Life.main trace; return 0
  | _ => IO.eprintln "usage: npdriver lb | lbspec <ops> <impl> | life <trace>"; return 2
