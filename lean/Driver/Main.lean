import Driver.Lb
def main (args : List String) : IO UInt32 := do
  match args with
  | ["lb"] => Driver.Lb.main; return 0
  | _ => IO.eprintln "usage: npdriver lb"; return 2
