import Netpoll.ShardSites
import Std.Data.HashMap
/-!
`npdriver shard <trace file>` – trace conformance of the real `mux.ShardQueue` against the model
`Netpoll.Shard`, and the C17 specification evaluated on the implementation's own observations.

Input: the trace written by go/cmd/shardh (controlled scheduler over the instrumented
shard_queue.go): per run the actors, then one line per atomic step `s <actor> <site> … | <snapshot
of the shared words after the step>`, `ret` lines and an `end` line.

For every step the driver (1) checks that the model actor standing for `<actor>` is at a program
counter whose site label is `<site>`, (2) performs `Netpoll.Shard.step`, (3) compares the model's
shared state with the snapshot.  The first step the model does not allow, or after which a word
differs, is reported (`conf=FAIL@line:reason`).

Independently of the model, the **spec oracle** judges what the implementation did, from the
observations alone: no getter invoked twice; no call panics; getters of Adds that started after a Close
returned are never invoked; when a run ends quiescent (connection alive) every getter of an Add
that returned before any Close began was invoked once, and if not nil flushed once, nothing appended
left unflushed, no getter left in a shard; when a Close returns nil (connection alive) every getter of every Add
that had returned before any Close call began has been invoked – whatever other Add calls overlap the Close.
One output line per run, one `SUMMARY` line.
-/
open Netpoll.Shard

namespace Driver.Shard

structure Obs where
  st : Int := 0
  idx : Int := 0
  tr : Int := 0
  rn : Int := 0
  w : Int := 0
  r : Int := 0
  list : List Nat := []
  ll : Int := 0
  lk : List Nat := []
  g : List Nat := []
  sw : Int := 0
  al : Int := 1
  inv : List Nat := []
  wb : List Nat := []
  se : List Nat := []

def natList (s : String) : List Nat :=
  if s = "-" || s = "" then [] else (s.splitOn ",").map (·.toNat?.getD 0)

def parseObs (toks : List String) : Obs :=
  toks.foldl (fun o t =>
    match t.splitOn "=" with
    | [k, v] =>
      let i := v.toInt?.getD 0
      match k with
      | "st" => { o with st := i } | "idx" => { o with idx := i } | "tr" => { o with tr := i }
      | "rn" => { o with rn := i } | "w" => { o with w := i } | "r" => { o with r := i }
      | "list" => { o with list := natList v } | "ll" => { o with ll := i } | "lk" => { o with lk := natList v }
      | "g" => { o with g := natList v } | "sw" => { o with sw := i } | "al" => { o with al := i }
      | "inv" => { o with inv := natList v } | "wb" => { o with wb := natList v } | "se" => { o with se := natList v }
      | _ => o
    | _ => o) {}

/-- first shared word on which model and implementation differ -/
def cmpObs (s : S) (o : Obs) : Option String :=
  if (s.state : Int) ≠ o.st then some s!"state model={s.state} impl={o.st}"
  else if wrap32 s.idx ≠ o.idx then some s!"idx model={wrap32 s.idx} impl={o.idx}"
  else if s.trigger ≠ o.tr then some s!"trigger model={s.trigger} impl={o.tr}"
  else if (s.runNum : Int) ≠ o.rn then some s!"runNum model={s.runNum} impl={o.rn}"
  else if (s.w : Int) ≠ o.w then some s!"w model={s.w} impl={o.w}"
  else if (s.r : Int) ≠ o.r then some s!"r model={s.r} impl={o.r}"
  else if s.list ≠ o.list then some s!"list model={s.list} impl={o.list}"
  else if (s.listLock : Int) ≠ o.ll then some s!"listLock model={s.listLock} impl={o.ll}"
  else if s.locks ≠ o.lk then some s!"locks model={s.locks} impl={o.lk}"
  else if s.getters.map (·.length) ≠ o.g then some s!"len(getters) model={s.getters.map (·.length)} impl={o.g}"
  else if (s.swap.length : Int) ≠ o.sw then some s!"len(swap) model={s.swap.length} impl={o.sw}"
  else if (if s.alive then (1 : Int) else 0) ≠ o.al then some s!"alive model={s.alive} impl={o.al}"
  else if s.invoked ≠ o.inv then some s!"invoked model={s.invoked} impl={o.inv}"
  else if s.wbuf ≠ o.wb then some s!"appended-unflushed model={s.wbuf} impl={o.wb}"
  else if s.sent ≠ o.se then some s!"flushed model={s.sent} impl={o.se}"
  else none

inductive Phase
  | adder (i : Nat)
  | closer (pc : Option CPc)         -- some .cas = before its CAS, some _ = the call that won the CAS (pc in the model), none = returned
  | loop                             -- the loop worker
  | tail (pc : Option TPc)           -- none = returned
  | env
  deriving Inhabited

/-- oracle bookkeeping for one Add call -/
structure AddInfo where
  ids : List Nat
  started : Bool := false
  returned : Bool := false
  beforeClose : Bool := false -- started before any Close step
  must : Bool := false       -- returned before any Close step: "added to an active queue"
  mustNot : Bool := false    -- started after a Close returned nil
  deriving Inhabited

structure Run where
  k : Nat := 0
  active : Bool := false
  size : Nat := 0
  model : S := init 0
  conf : Option String := none       -- first nonconformance
  phases : Std.HashMap String Phase := {}
  nAdders : Nat := 0
  nextId : Nat := 0
  steps : Nat := 0
  -- oracle
  adds : Std.HashMap String AddInfo := {}
  addOrder : List String := []
  closeBegan : Bool := false
  closeReturned : Bool := false
  died : Bool := false               -- connection died or an Append/Flush error was scripted
  last : Obs := {}
  spec : Option String := none       -- first spec violation
  panicked : Bool := false

structure Tot where
  runs : Nat := 0
  confFail : Nat := 0
  specFail : Nat := 0
  quiescent : Nat := 0
  closeNil : Nat := 0
  lines : Nat := 0
  sites : Std.HashMap String Nat := {}
  firstConf : String := ""
  firstSpec : String := ""

def kv (toks : List String) (key : String) : Option String :=
  toks.findSome? fun t => match t.splitOn "=" with
    | [k, v] => if k = key then some v else none
    | _ => none

def setConf (r : Run) (ln : Nat) (msg : String) : Run :=
  match r.conf with
  | some _ => r
  | none => { r with conf := some s!"{ln}:{msg}" }

def setSpec (r : Run) (ln : Nat) (msg : String) : Run :=
  match r.spec with
  | some _ => r
  | none => { r with spec := some s!"{ln}:{msg}" }

/-- advance the model by one implementation step of `actor` at `site` -/
def modelStep (r : Run) (ln : Nat) (actor site : String) (extra : List String) (o : Obs) : Run :=
  if r.conf.isSome then r else
  let s := r.model
  let fin (r : Run) (s' : Option S) (what : String) : Run :=
    match s' with
    | none => setConf r ln s!"model does not allow {actor} {site} ({what})"
    | some s' =>
      match cmpObs s' o with
      | some d => setConf { r with model := s' } ln s!"after {actor} {site}: {d}"
      | none => { r with model := s' }
  match r.phases.get? actor with
  | none =>
    -- a worker shows up with its first step
    if actor.startsWith "W" then
      if site = WPc.load.site ∧ s.wpc = .load ∧ ¬ (r.phases.toList.any fun (_, p) => match p with | .loop => true | _ => false) then
        fin { r with phases := r.phases.insert actor .loop } (step s (.wk false false)) "worker start"
      else setConf r ln s!"unexpected new worker {actor} at {site} (model wpc={repr s.wpc})"
    else setConf r ln s!"unknown actor {actor}"
  | some (.adder i) =>
    match s.adders[i]? with
    | none => setConf r ln s!"no adder {i} in model"
    | some a =>
      if a.pc.site ≠ site then setConf r ln s!"{actor} is at {site}, model adder at {repr a.pc} ({a.pc.site})"
      else fin r (step s (.adder i)) s!"adder pc {repr a.pc}"
  | some (.closer none) => setConf r ln s!"{actor} steps after its Close returned in the model"
  | some (.closer (some .cas)) =>
    if CPc.cas.site ≠ site then setConf r ln s!"{actor} is at {site}, model closer before its CAS ({CPc.cas.site})"
    else
      -- the call whose CAS succeeds becomes the one winner (its pc lives in the model's slot `cwin`)
      let next : Option CPc := if s.state = active then some .lock else none
      fin { r with phases := r.phases.insert actor (.closer next) } (step s (.closer .cas)) "closer pc cas"
  | some (.closer (some _)) =>
    match s.cwin with
    | none => setConf r ln s!"{actor} steps at {site}, model has no Close call past its CAS"
    | some pc =>
      if pc.site ≠ site then setConf r ln s!"{actor} is at {site}, model closer at {repr pc} ({pc.site})"
      else
        let next : Option CPc := if pc = .store then none else some .lock
        fin { r with phases := r.phases.insert actor (.closer next) } (step s (.closer pc)) s!"closer pc {repr pc}"
  | some .loop =>
    if s.wpc.site ≠ site then setConf r ln s!"{actor} is at {site}, model worker at {repr s.wpc} ({s.wpc.site})"
    else
      let isNil := kv extra "nil" == some "1"
      let err := kv extra "err" == some "1"
      let idOk : Bool := match s.wpc, kv extra "id" with
        | .deal, some v => s.work.head? == v.toNat?
        | .deal, none => false
        | _, _ => true
      if ¬ idOk then setConf r ln s!"{actor} deals getter {kv extra "id"}, model expects {s.work.head?}"
      else
        let r := if s.wpc = .store then { r with phases := r.phases.insert actor (.tail (some .recheck)) } else r
        fin r (step s (.wk isNil err)) s!"worker pc {repr s.wpc}"
  | some (.tail none) => setConf r ln s!"{actor} steps after its closure returned in the model"
  | some (.tail (some pc)) =>
    if pc.site ≠ site then setConf r ln s!"{actor} is at {site}, model tail worker at {repr pc} ({pc.site})"
    else
      let next : Option TPc := match pc with
        | .recheck => if s.trigger > 0 then some .run else none
        | .run => if s.runNum + 1 > 1 then none else some .spawn
        | .spawn => none
      fin { r with phases := r.phases.insert actor (.tail next) } (step s (.tail pc)) s!"tail pc {repr pc}"
  | some .env =>
    if site = "die" then fin r (step s .die) "die" else setConf r ln s!"unknown environment step {site}"

def countOf (l : List Nat) (x : Nat) : Nat := l.count x

/-- the spec, judged on the implementation's observations after a step of `actor` -/
def oracleStep (r : Run) (ln : Nat) (actor _site : String) (extra : List String) (o : Obs) : Run := Id.run do
  let mut r := r
  -- safety: nothing invoked twice
  match o.inv.find? (fun x => countOf o.inv x > 1) with
  | some x => r := setSpec r ln s!"getter {x} invoked {countOf o.inv x} times"
  | none => pure ()
  if actor.startsWith "A" then
    match r.adds.get? actor with
    | some a =>
      if ¬ a.started then
        r := { r with adds := r.adds.insert actor { a with started := true, mustNot := r.closeReturned, beforeClose := ¬ r.closeBegan } }
    | none => pure ()
  if actor.startsWith "C" then r := { r with closeBegan := true }
  if actor = "D" then r := { r with died := true }
  if kv extra "err" == some "1" then r := { r with died := true }
  -- getters of Adds that began after Close returned must never run
  for (_, a) in r.adds.toList do
    if a.mustNot then
      match a.ids.find? (fun x => o.inv.contains x) with
      | some x => r := setSpec r ln s!"getter {x} of an Add that started after Close returned was invoked"
      | none => pure ()
  return { r with last := o }

def oracleRet (r : Run) (ln : Nat) (actor kind : String) : Run := Id.run do
  let mut r := r
  if kind = "panic" then
    r := setSpec { r with panicked := true } ln s!"{actor} panicked (an Add that panics loses its getters; see the '# panic' line of the trace)"
  if actor.startsWith "A" then
    match r.adds.get? actor with
    | some a => r := { r with adds := r.adds.insert actor { a with returned := true, must := ¬ r.closeBegan ∧ kind = "nil" } }
    | none => pure ()
  if actor.startsWith "C" ∧ kind = "nil" then
    r := { r with closeReturned := true }
    -- Close waits: every getter of an Add call that had returned before any Close call began has been handled,
    -- whatever other Add calls overlap the Close (theorem C17_close_waits)
    if r.last.al = 1 ∧ ¬ r.died then
      for name in r.addOrder do
        match r.adds.get? name with
        | none => pure ()
        | some a =>
          if a.returned ∧ a.must ∧ ¬ a.mustNot then
            match a.ids.find? (fun x => ¬ r.last.inv.contains x) with
            | some x => r := setSpec r ln s!"Close returned nil while getter {x} of {name} (an Add that had returned before any Close began) had not been invoked"
            | none => pure ()
  return r

def oracleEnd (r : Run) (ln : Nat) (result : String) (nilIds : List Nat) : Run := Id.run do
  let mut r := r
  if result = "deadlock" then r := setSpec r ln "deadlock: some goroutine is blocked for ever"
  if result = "hang" then r := setSpec r ln "hang: the run does not finish (a goroutine spins or blocks for ever)"
  if result = "cutoff" then r := setSpec r ln "step cutoff reached: livelock suspected"
  if result = "quiescent" ∧ ¬ r.panicked then
    let o := r.last
    if o.al = 1 ∧ ¬ r.died then
      if o.wb ≠ [] then r := setSpec r ln s!"quiescent with appended data never flushed: {o.wb}"
      for name in r.addOrder do
        match r.adds.get? name with
        | none => pure ()
        | some a =>
          for x in a.ids do
            let ni := countOf o.inv x
            if a.must ∧ ni ≠ 1 then
              r := setSpec r ln s!"getter {x} of {name} (Add returned before any Close) invoked {ni} times at quiescence"
            if ni = 1 ∧ ¬ nilIds.contains x ∧ countOf o.se x ≠ 1 then
              r := setSpec r ln s!"getter {x} invoked but its data flushed {countOf o.se x} times"
    if o.tr ≠ 0 then r := setSpec r ln s!"quiescent with trigger = {o.tr}"
    if o.al = 1 ∧ ¬ r.died ∧ o.g.any (· ≠ 0) then r := setSpec r ln s!"quiescent with getters left in shards: {o.g}"
  return r

/-- model-side end-of-run check -/
def modelEnd (r : Run) (ln : Nat) (result : String) : Run :=
  if r.conf.isSome then r else
  let s := r.model
  let settled := s.adders.all (fun a => a.pc = .done) ∧ s.wpc = .idle ∧
    s.tRecheck + s.tRun + s.tSpawn + s.cCas = 0 ∧ s.cwin = none
  if result = "quiescent" ∧ ¬ settled then setConf r ln "implementation is quiescent, model still has an actor in flight"
  else if s.clash ≠ 0 then setConf r ln "two loop workers at once"
  else r

def finishRun (t : Tot) (r : Run) (result : String) (stepsS preS : String) (out : IO.FS.Stream) : IO Tot := do
  let confS := match r.conf with | none => "ok" | some m => "FAIL@" ++ m
  let specS := match r.spec with | none => "ok" | some m => "FAIL@" ++ m
  out.putStrLn s!"R {r.k} conf={confS} ## end={result} close_nil={if r.closeReturned then 1 else 0} {stepsS} {preS} ## spec={specS}"
  return { t with
    runs := t.runs + 1,
    confFail := t.confFail + (if r.conf.isSome then 1 else 0),
    specFail := t.specFail + (if r.spec.isSome then 1 else 0),
    quiescent := t.quiescent + (if result = "quiescent" then 1 else 0),
    closeNil := t.closeNil + (if r.closeReturned then 1 else 0),
    firstConf := if t.firstConf = "" then (match r.conf with | some m => s!"run {r.k} line {m}" | none => "") else t.firstConf,
    firstSpec := if t.firstSpec = "" then (match r.spec with | some m => s!"run {r.k} line {m}" | none => "") else t.firstSpec }

partial def loop (noModel : Bool) (h : IO.FS.Stream) (out : IO.FS.Stream) (ln : Nat) (r : Run) (t : Tot) (nilIds : List Nat) : IO Tot := do
  let line ← h.getLine
  if line.isEmpty then return { t with lines := ln }
  let line := line.trimAscii.toString
  let ln := ln + 1
  if line.isEmpty || line.startsWith "#" || line.startsWith "summary" then loop noModel h out ln r t nilIds
  else
  let (pre, post) := match line.splitOn " | " with
    | [a, b] => (a, b)
    | _ => (line, "")
  let toks := (pre.splitOn " ").filter (· ≠ "")
  match toks with
  | "run" :: k :: rest =>
    let size := ((kv rest "size").bind (·.toNat?)).getD 1
    let idx0 := ((kv rest "idx0").bind (·.toInt?)).getD 0
    let idxN : Nat := if idx0 ≥ 0 then idx0.toNat else (idx0 + 4294967296).toNat
    -- ids whose getter returns nil are named in the scenario word as nilA.B
    let scen := (kv rest "scen").getD ""
    let nil' := match (scen.splitOn "-").find? (·.startsWith "nil") with
      | some w => ((w.drop 3).toString.splitOn ".").filterMap (·.toNat?)
      | none => []
    let r' : Run := { k := k.toNat?.getD 0, active := true, size := size,
                      model := { init size with idx := idxN },
                      conf := if noModel then some "0:model comparison switched off (hook-free stress mode)" else none }
    loop noModel h out ln r' t nil'
  | ["new", name, "add", n] =>
    let n := n.toNat?.getD 0
    let ids := List.range' r.nextId n
    let m := match step r.model (.add n) with | some s => s | none => r.model
    let r := { r with model := m, phases := r.phases.insert name (.adder r.nAdders), nAdders := r.nAdders + 1,
                      nextId := r.nextId + n, adds := r.adds.insert name { ids := ids }, addOrder := r.addOrder ++ [name] }
    loop noModel h out ln r t nilIds
  | ["new", name, "close"] =>
    let m := match step r.model .close with | some s => s | none => r.model
    loop noModel h out ln { r with model := m, phases := r.phases.insert name (.closer (some .cas)) } t nilIds
  | ["new", name, "die"] =>
    loop noModel h out ln { r with phases := r.phases.insert name .env } t nilIds
  | "s" :: actor :: site :: extra =>
    let o := parseObs ((post.splitOn " ").filter (· ≠ ""))
    let r := modelStep r ln actor site extra o
    let r := oracleStep r ln actor site extra o
    let t := { t with sites := t.sites.insert site (t.sites.getD site 0 + 1) }
    loop noModel h out ln { r with steps := r.steps + 1 } t nilIds
  | ["ret", actor, kind] =>
    -- the model must agree that the call has returned
    let r := if r.conf.isSome then r else
      match r.phases.get? actor with
      | some (.adder i) =>
        (match r.model.adders[i]? with
         | some a =>
           if kind = "nil" ∧ a.pc ≠ .done then setConf r ln s!"{actor} returned, model adder at {repr a.pc}"
           else if kind = "panic" then setConf r ln s!"{actor} panicked, the model has no panicking Add (adder at {repr a.pc})"
           else r
         | none => r)
      | some (.closer (some pc)) => setConf r ln s!"{actor} returned {kind}, model closer still at {repr pc}"
      | some (.closer none) =>
        let okNil := r.model.closeOk
        let okErr := r.model.closeErr
        if kind = "nil" ∧ okNil = 0 then setConf r ln s!"{actor} returned nil, model has no successful Close"
        else if kind = "err" ∧ okErr = 0 then setConf r ln s!"{actor} returned the error, model has no failed Close"
        else r
      | some (.tail (some pc)) => setConf r ln s!"{actor} returned, model tail worker still at {repr pc}"
      | some .loop => setConf r ln s!"{actor} returned, model loop worker at {repr r.model.wpc}"
      | _ => r
    loop noModel h out ln (oracleRet r ln actor kind) t nilIds
  | "end" :: _ :: result :: rest =>
    let r := modelEnd r ln result
    let r := oracleEnd r ln result nilIds
    let t ← finishRun t r result (rest.headD "") (rest.getD 1 "") out
    loop noModel h out ln {} t nilIds
  | _ => loop noModel h out ln r t nilIds

def main (path : String) (noModel : Bool) : IO UInt32 := do
  let h ← IO.FS.Handle.mk path .read
  let out ← IO.getStdout
  let t ← loop noModel (IO.FS.Stream.ofHandle h) out 0 {} {} []
  let sites := (t.sites.toList.map fun (k, v) => s!"{k}:{v}").toArray.qsort (· < ·) |>.toList
  out.putStrLn s!"SUMMARY runs={t.runs} conf_fail={t.confFail} spec_fail={t.specFail} quiescent={t.quiescent} close_nil={t.closeNil} lines={t.lines} sites={",".intercalate sites}"
  if t.firstConf ≠ "" then out.putStrLn s!"FIRSTCONF {t.firstConf}"
  if t.firstSpec ≠ "" then out.putStrLn s!"FIRSTSPEC {t.firstSpec}"
  return 0

end Driver.Shard
