import Netpoll.Buf.Model
import Std.Data.HashMap
/-! Line-protocol driver for the LinkBuffer model (T-diff). Reads op lines, prints one reply line per op. -/
open Netpoll.Buf

namespace Driver.Lb

def genByte (seed i : Nat) : UInt8 := UInt8.ofNat (((seed + 1) * 31 + i * 7 + i / 13) % 251)
def genBytes (seed n : Nat) : List UInt8 := (List.range n).map (genByte seed)

def fnv (bs : List UInt8) : UInt32 :=
  bs.foldl (fun h b => (h ^^^ b.toUInt32) * 16777619) 2166136261

def flagsOf (nd : Node UInt8) : Nat := (if nd.unmanaged then 1 else 0) + (if nd.exposed then 2 else 0)

def dumpNode (nd : Node UInt8) : String :=
  let pl := nd.malloc - nd.buf.length
  s!"{nd.off},{nd.buf.length},{nd.malloc},{nd.cap},{flagsOf nd},{fnv nd.readable},{fnv (nd.pend.take pl)}"

def dumpLB (id : Nat) (b : LB UInt8) : String :=
  let pk := match b.cachePeek with
    | none => "-"
    | some (c, cp) => s!"{c.length}/{cp}"
  s!"B{id} L={b.length} M={b.mallocSize} r={b.r} f={b.f} w={b.w} c={b.caches} p={pk} n={b.nodes.length} :: " ++
    ";".intercalate (b.nodes.map dumpNode)

def showRes : Res UInt8 → String
  | .unit => "ok"
  | .bytes bs => s!"ok b:{bs.length}:{fnv bs}"
  | .vecs vs => s!"ok v:{vs.length}:" ++ ",".intercalate (vs.map fun v => s!"{v.length}.{fnv v}")
  | .num n => s!"ok n:{n}"
  | .err => "err"

structure World where
  cfg : Cfg := {}
  bufs : Std.HashMap Nat (LB UInt8) := {}
  dead : Bool := false      -- a panic ended this sequence

abbrev M := StateM World

def reply (r : String) (ids : List Nat) : M String := do
  let w ← get
  let ds := ids.filterMap fun i => (w.bufs.get? i).map (dumpLB i)
  return r ++ " ## " ++ " | ".intercalate ds

def panicOut : M String := do
  modify fun w => { w with dead := true }
  return "panic"

/-- run a single-buffer op -/
def on1 (id : Nat) (f : Cfg → LB UInt8 → Option (LB UInt8 × Res UInt8)) : M String := do
  let w ← get
  match w.bufs.get? id with
  | none => return "nobuf"
  | some b =>
    match f w.cfg b with
    | none => panicOut
    | some (b', r) =>
      set { w with bufs := w.bufs.insert id b' }
      reply (showRes r) [id]

def toInt! (s : String) : Int := s.toInt?.getD 0
def toNat! (s : String) : Nat := s.toNat?.getD 0

def step (line : String) : M String := do
  let w ← get
  let toks := (line.splitOn " ").filter (· ≠ "")
  match toks with
  | ["seq", _, cap] =>
    set ({ cfg := { w.cfg with linkBufferCap := toNat! cap }, bufs := {}, dead := false } : World)
    return "seq"
  | _ =>
  if w.dead then return "dead" else
  match toks with
  | ["new", id, size] =>
    set { w with bufs := w.bufs.insert (toNat! id) (newLB w.cfg (toInt! size).toNat) }
    reply "ok" [toNat! id]
  | ["mal", id, n, seed] =>
    on1 (toNat! id) fun cfg b => b.malloc cfg (toInt! n) (genBytes (toNat! seed) (toInt! n).toNat)
  | ["wbin", id, n, seed, pcap] =>
    on1 (toNat! id) fun cfg b => b.writeBinary cfg (genBytes (toNat! seed) (toNat! n)) (toNat! pcap)
  | ["wstr", id, n, seed] =>
    -- WriteString: empty string returns (0, nil) without touching anything; else WriteBinary with cap = len
    on1 (toNat! id) fun cfg b => b.writeBinary cfg (genBytes (toNat! seed) (toNat! n)) (toNat! n)
  | ["wbyte", id, v] =>
    on1 (toNat! id) fun cfg b => b.malloc cfg 1 [UInt8.ofNat (toNat! v)]
  | ["wdir", id, n, seed, ecap, remain] =>
    on1 (toNat! id) fun cfg b => b.writeDirect cfg (genBytes (toNat! seed) (toNat! n)) (toNat! ecap) (toInt! remain)
  | ["ack", id, n] => on1 (toNat! id) fun _ b => b.mallocAck (toInt! n)
  | ["flush", id] => on1 (toNat! id) fun cfg b => b.flush cfg
  | ["next", id, n] => on1 (toNat! id) fun cfg b => b.next cfg (toInt! n)
  | ["peek", id, n] => on1 (toNat! id) fun cfg b => b.peek cfg (toInt! n)
  | ["skip", id, n] => on1 (toNat! id) fun _ b => b.skip (toInt! n)
  | ["rbin", id, n] => on1 (toNat! id) fun _ b => b.readBinary (toInt! n)
  | ["rstr", id, n] => on1 (toNat! id) fun _ b => b.readBinary (toInt! n)
  | ["rbyte", id] => on1 (toNat! id) fun _ b => b.readByte
  | ["until", id, c] => on1 (toNat! id) fun cfg b => b.until cfg (UInt8.ofNat (toNat! c))
  | ["read", id, n] => on1 (toNat! id) fun _ b => b.readCopy (toNat! n)
  | ["rel", id] => on1 (toNat! id) fun _ b => b.release
  | ["close", id] => on1 (toNat! id) fun _ b => b.close
  | ["len", id] => on1 (toNat! id) fun _ b => some (b, .num b.length)
  | ["mlen", id] => on1 (toNat! id) fun _ b => some (b, .num b.mallocSize)
  | ["bytes", id] => on1 (toNat! id) fun _ b => (b.bytes).map fun r => (b, r)
  | ["getbytes", id, k] => on1 (toNat! id) fun _ b => b.getBytes (toNat! k)
  | ["idx", id, c, skip] =>
    on1 (toNat! id) fun _ b => (b.indexByte (UInt8.ofNat (toNat! c)) (toNat! skip)).map fun i => (b, .num i)
  | ["cmax", id] => on1 (toNat! id) fun _ b => b.calcMaxSize.map fun n => (b, .num n)
  | ["rtail", id, ms] => on1 (toNat! id) fun cfg b => (b.resetTail cfg (toNat! ms)).map fun b => (b, .unit)
  | ["book", id, bs, ms, n, seed] =>
    -- book(bookSize, maxSize); the kernel fills min(n, booked) bytes; bookAck
    match w.bufs.get? (toNat! id) with
    | none => return "nobuf"
    | some b =>
      match b.book w.cfg (toNat! bs) (toNat! ms) with
      | none => panicOut
      | some (b, l) =>
        let n := min (toNat! n) l
        match b.bookAck (genBytes (toNat! seed) n) with
        | none => panicOut
        | some (b, _) =>
          set { w with bufs := w.bufs.insert (toNat! id) b }
          reply s!"ok k:{l}:{b.length}" [toNat! id]
  | ["slice", id, n, nid] =>
    match w.bufs.get? (toNat! id) with
    | none => return "nobuf"
    | some b =>
      match b.slice w.cfg (toInt! n) with
      | none => panicOut
      | some (b', r, child) =>
        let bufs := w.bufs.insert (toNat! id) b'
        let bufs := match child with
          | some c => bufs.insert (toNat! nid) c
          | none => bufs
        set { w with bufs := bufs }
        reply (showRes r) [toNat! id, toNat! nid]
  | ["app", id, did] =>
    match w.bufs.get? (toNat! id), w.bufs.get? (toNat! did) with
    | some b, some d =>
      match b.writeBuffer d with
      | none => panicOut
      | some (b', d', r) =>
        set { w with bufs := (w.bufs.insert (toNat! id) b').insert (toNat! did) d' }
        reply (showRes r) [toNat! id, toNat! did]
    | _, _ => return "nobuf"
  | _ => return "bad-op"

partial def loop (h : IO.FS.Stream) (out : IO.FS.Stream) (w : World) : IO Unit := do
  let line ← h.getLine
  if line.isEmpty then return ()
  let line := line.trimAscii.toString
  if line.isEmpty || line.startsWith "#" then loop h out w
  else
    let (r, w') := (step line).run w
    out.putStrLn r
    loop h out w'

def main : IO Unit := do
  loop (← IO.getStdin) (← IO.getStdout) {}

end Driver.Lb
