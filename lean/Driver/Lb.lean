import Netpoll.Buf.Step
import Std.Data.HashMap
/-! Line-protocol driver for the LinkBuffer model (T-diff). Reads op lines, prints one reply line per op. -/
open Netpoll.Buf

namespace Driver.Lb

def genByte (seed i : Nat) : UInt8 := UInt8.ofNat (((seed + 1) * 31 + i * 7 + i / 13) % 251)
def genBytes (seed n : Nat) : List UInt8 := (List.range n).map (genByte seed)

def fnv (bs : List UInt8) : UInt32 :=
  bs.foldl (fun h b => (h ^^^ b.toUInt32) * 16777619) 2166136261

def flagsOf (nd : Node UInt8) : Nat := (if nd.unmanaged then 1 else 0) + (if nd.exposed then 2 else 0)

def dumpNode (nd : Node UInt8) : String :=
  let pl := nd.malloc - nd.buf.length
  s!"{nd.off},{nd.buf.length},{nd.malloc},{nd.cap},{flagsOf nd},{fnv nd.readable},{fnv (nd.pend.take pl)}"

def dumpLB (id : Nat) (b : LB UInt8) : String :=
  let pk := match b.cachePeek with
    | none => "-"
    | some (c, cp) => s!"{c.length}/{cp}"
  s!"B{id} L={b.length} M={b.mallocSize} r={b.r} f={b.f} w={b.w} c={b.caches} p={pk} n={b.nodes.length} :: " ++
    ";".intercalate (b.nodes.map dumpNode)

def showRes : Res UInt8 → String
  | .unit => "ok"
  | .bytes bs => s!"ok b:{bs.length}:{fnv bs}"
  | .vecs vs => s!"ok v:{vs.length}:" ++ ",".intercalate (vs.map fun v => s!"{v.length}.{fnv v}")
  | .num n => s!"ok n:{n}"
  | .err => "err"

structure World where
  cfg : Cfg := {}
  bufs : Std.HashMap Nat (LB UInt8) := {}
  dead : Bool := false      -- a panic ended this sequence

abbrev M := StateM World

def reply (r : String) (ids : List Nat) : M String := do
  let w ← get
  let ds := ids.filterMap fun i => (w.bufs.get? i).map (dumpLB i)
  return r ++ " ## " ++ " | ".intercalate ds

def panicOut : M String := do
  modify fun w => { w with dead := true }
  return "panic"

/-- run a single-buffer op (`LB.step`) -/
def on1 (id : Nat) (op : Op UInt8) : M String := do
  let w ← get
  match w.bufs.get? id with
  | none => return "nobuf"
  | some b =>
    match b.step w.cfg op with
    | none => panicOut
    | some (b', r) =>
      set { w with bufs := w.bufs.insert id b' }
      reply (showRes r) [id]

def toInt! (s : String) : Int := s.toInt?.getD 0
def toNat! (s : String) : Nat := s.toNat?.getD 0

def step (line : String) : M String := do
  let w ← get
  let toks := (line.splitOn " ").filter (· ≠ "")
  match toks with
  | ["seq", _, cap] =>
    set ({ cfg := { w.cfg with linkBufferCap := toNat! cap }, bufs := {}, dead := false } : World)
    return "seq"
  | _ =>
  if w.dead then return "dead" else
  match toks with
  | ["new", id, size] =>
    set { w with bufs := w.bufs.insert (toNat! id) (newLB w.cfg (toInt! size).toNat) }
    reply "ok" [toNat! id]
  | ["mal", id, n, seed] =>
    on1 (toNat! id) (.malloc (toInt! n) (genBytes (toNat! seed) (toInt! n).toNat))
  | ["wbin", id, n, seed, pcap] =>
    on1 (toNat! id) (.writeBinary (genBytes (toNat! seed) (toNat! n)) (toNat! pcap))
  | ["wstr", id, n, seed] =>
    -- WriteString: empty string returns (0, nil) without touching anything; else WriteBinary with cap = len
    on1 (toNat! id) (.writeBinary (genBytes (toNat! seed) (toNat! n)) (toNat! n))
  | ["wbyte", id, v] => on1 (toNat! id) (.writeByte (UInt8.ofNat (toNat! v)))
  | ["wdir", id, n, seed, ecap, remain] =>
    on1 (toNat! id) (.writeDirect (genBytes (toNat! seed) (toNat! n)) (toNat! ecap) (toInt! remain))
  | ["ack", id, n] => on1 (toNat! id) (.mallocAck (toInt! n))
  | ["flush", id] => on1 (toNat! id) .flush
  | ["next", id, n] => on1 (toNat! id) (.next (toInt! n))
  | ["peek", id, n] => on1 (toNat! id) (.peek (toInt! n))
  | ["skip", id, n] => on1 (toNat! id) (.skip (toInt! n))
  | ["rbin", id, n] => on1 (toNat! id) (.readBinary (toInt! n))
  | ["rstr", id, n] => on1 (toNat! id) (.readBinary (toInt! n))
  | ["rbyte", id] => on1 (toNat! id) .readByte
  | ["until", id, c] => on1 (toNat! id) (.until (UInt8.ofNat (toNat! c)))
  | ["read", id, n] => on1 (toNat! id) (.readCopy (toNat! n))
  | ["rel", id] => on1 (toNat! id) .release
  | ["close", id] => on1 (toNat! id) .close
  | ["len", id] => on1 (toNat! id) .len
  | ["mlen", id] => on1 (toNat! id) .mallocLen
  | ["bytes", id] => on1 (toNat! id) .bytes
  | ["getbytes", id, k] => on1 (toNat! id) (.getBytes (toNat! k))
  | ["idx", id, c, skip] => on1 (toNat! id) (.indexByte (UInt8.ofNat (toNat! c)) (toNat! skip))
  | ["cmax", id] => on1 (toNat! id) .calcMaxSize
  | ["rtail", id, ms] => on1 (toNat! id) (.resetTail (toNat! ms))
  | ["book", id, bs, ms, n, seed] =>
    -- book(bookSize, maxSize); the kernel fills min(n, booked) bytes; bookAck
    match w.bufs.get? (toNat! id) with
    | none => return "nobuf"
    | some b =>
      match b.step w.cfg (.bookAck (toNat! bs) (toNat! ms) (genBytes (toNat! seed) (toNat! n))) with
      | some (b, .num l) =>
        set { w with bufs := w.bufs.insert (toNat! id) b }
        reply s!"ok k:{l}:{b.length}" [toNat! id]
      | _ => panicOut
  | ["slice", id, n, nid] =>
    match w.bufs.get? (toNat! id) with
    | none => return "nobuf"
    | some b =>
      match b.slice w.cfg (toInt! n) with
      | none => panicOut
      | some (b', r, child) =>
        let bufs := w.bufs.insert (toNat! id) b'
        let bufs := match child with
          | some c => bufs.insert (toNat! nid) c
          | none => bufs
        set { w with bufs := bufs }
        reply (showRes r) [toNat! id, toNat! nid]
  | ["app", id, did] =>
    match w.bufs.get? (toNat! id), w.bufs.get? (toNat! did) with
    | some b, some d =>
      match b.writeBuffer d with
      | none => panicOut
      | some (b', d', r) =>
        set { w with bufs := (w.bufs.insert (toNat! id) b').insert (toNat! did) d' }
        reply (showRes r) [toNat! id, toNat! did]
    | _, _ => return "nobuf"
  | _ => return "bad-op"

partial def loop (h : IO.FS.Stream) (out : IO.FS.Stream) (w : World) : IO Unit := do
  let line ← h.getLine
  if line.isEmpty then return ()
  let line := line.trimAscii.toString
  if line.isEmpty || line.startsWith "#" then loop h out w
  else
    let (r, w') := (step line).run w
    out.putStrLn r
    loop h out w'

def main : IO Unit := do
  loop (← IO.getStdin) (← IO.getStdout) {}

end Driver.Lb
