import Netpoll.Poll.OpCache
import Driver.Lb
/-! `npdriver opcache`: replays the C10 harness steps (go/inpkg/opcacheh.go) on the per-slot model. -/
open Netpoll.Poll.OpCache
namespace Driver.OpCache
open Driver.Lb

structure W where
  slots : List (Nat × S) := []              -- sorted by slot index
  conns : List (Nat × Nat × Nat) := []      -- conn id ↦ (slot, generation)
  fail : Option String := none
  inBatch : Bool := false                   -- the poller is inside a batch (a slot seen for the first time joins it)

def getSlot (w : W) (k : Nat) : S := ((w.slots.find? (·.1 == k)).map (·.2)).getD { init with inBatch := w.inBatch }

def setSlot (w : W) (k : Nat) (s : S) : W :=
  let rest := w.slots.filter (·.1 != k)
  let (lo, hi) := rest.partition (·.1 < k)
  { w with slots := lo ++ [(k, s)] ++ hi }

def showLoc : Loc → String
  | .first => "first" | .owned => "owned" | .freelist => "freelist"

def obs (w : W) : String :=
  " ".intercalate (w.slots.map fun (k, s) => s!"s{k}:st={s.st},loc={showLoc s.loc},cb={if s.cbGen.isSome then 1 else 0}")

/-- apply model actions to a slot; a disabled action is a conformance failure -/
def apply (w : W) (k : Nat) (acts : List Act) : W :=
  acts.foldl (fun w a =>
    match step (getSlot w k) a with
    | some s' => setSlot w k s'
    | none => { w with fail := some s!"model refuses {repr a} on slot {k}" }) w

def kv (tok key : String) : Option Nat :=
  if tok.startsWith (key ++ "=") then (tok.drop (key.length + 1)).toString.toNat? else none

def kvs (tok key : String) : Option String :=
  if tok.startsWith (key ++ "=") then some (tok.drop (key.length + 1)).toString else none

def step' (w : W) (line : String) : W × String :=
  let toks := (line.splitOn " ").filter (· ≠ "")
  let fin (w : W) (pre : String) : W × String :=
    match w.fail with
    | some f => ({ w with fail := none }, "CONFORM-FAIL " ++ f)
    | none =>
      if w.slots.any (fun (_, s) => s.bad) then (w, "MODEL-BAD " ++ obs w) else (w, pre ++ " " ++ obs w)
  -- dial steps also report how many descriptors the REAL epoll set holds under the slot's pointer
  let fin' (w : W) (k : Nat) : W × String := fin w s!"ok reg={if (getSlot w k).registered then 1 else 0}"
  match toks with
  | ["seq", _] => ({}, "seq")
  | ["dev", _, _] => fin w "ok"
  | ["dial", id, sl] =>
    (match kv sl "slot" with
     | none => (w, "bad-op")
     | some k =>
       -- newPollDesc + WaitWrite's Control(PollWritable)
       let w := apply w k [.allocDial, .register]
       fin' { w with conns := (1000 + toNat! id, k, (getSlot w k).gen) :: w.conns } k)
  | ["dtimeout", _, sl, "pre=detached"] =>
    -- the poller's appendHup had detached the operator already (hang-up recorded, not delivered yet): pd.detach() is a no-op
    (match kv sl "slot" with
     | some k => fin' w k
     | none => (w, "bad-op"))
  | ["hup", _] => fin w "ok"
  | [o, id, sl] =>
    if o != "open" && o != "openh" then
      (match o, kv sl "slot" with
       | "dclose", some k =>
         -- the owner's Close() overlaps the dispatch: detach while the poller holds the token, `unused()` only after `done()`,
         -- the descriptor closed last; the probe descriptor opened in between can therefore not have got the number
         let s := getSlot w k
         let owner := (w.conns.find? (fun (_, sl, g) => sl == k && some g == s.cbGen)).map (·.1)
         let w := apply w k [.doEv, .detach, .doneEv, .stopFlush, .unused, .reset, .freeable, .closeFd s.gen]
         let ran := match owner with | some id => toString id | none => "?"
         fin w s!"ok ran={ran} probe=intact"
       | "close", some k => fin (apply w k [.detach, .stopFlush, .unused, .reset, .freeable, .closeFd (getSlot w k).gen]) "ok"
       | "wclose", some k =>
         -- a Write of the owner is IN FLIGHT (parked in front of its sendmsg, holding lock(flushing)) while the owner's Close() runs on
         -- another goroutine: detach; the finalizer spins in stop(flushing); the writer sends on its own descriptor and leaves; only then
         -- Free and the close of the descriptor.  The probe descriptors opened in between cannot have got the number
         fin (apply w k [.wLock, .detach, .wUse, .wUnlock, .stopFlush, .unused, .reset, .freeable, .closeFd (getSlot w k).gen]) "ok probe=intact"
       | "dtimeout", some k =>
         -- pollDesc.WaitWrite returned through ctx.Done(): its own pd.detach() (`pre=live`)
         fin' (apply w k [.detach]) k
       | "dfree", some k => fin' (apply w k [.unused, .reset, .freeable]) k
       | "dclosefd", some k =>
         (match w.conns.find? (·.1 == 1000 + toNat! id) with
          | some (_, _, g) => fin' (apply w k [.closeFd g]) k
          | none => (w, "bad-op"))
       | "dispatch", _ =>
         -- `dispatch k hup=full|detached`: the event carried a hang-up; appendHup detaches inside the dispatch, then either the
         -- hang-up goroutine tears the connection down (handler set) or the operator waits for the user's Close
         let k := toNat! id
         let s := getSlot w k
         let willRun := s.st == 1 && s.pending.isSome
         let owner := (w.conns.find? (fun (_, sl, g) => sl == k && some g == s.cbGen)).map (·.1)
         if !willRun then ({ w with fail := none }, s!"CONFORM-FAIL hang-up processed for slot {k} although the model skips the event") else
         let acts := if sl == "dial=out" then [Act.doEv, .detach, .doneEv]    -- pollDesc.onwrite: detach inside the dispatch
                     -- `…d`: WaitWrite's ctx branch had detached the operator before this (earlier fetched) event was dispatched:
                     -- the callbacks run, their detach is a no-op
                     else if sl == "dial=outd" then [Act.doEv, .doneEv]
                     else if sl == "dial=hupd" then [Act.doEv, .queueHup, .doneEv, .runHup s.gen false]
                     else if sl == "hup=full" then [Act.doEv, .queueHup, .detach, .doneEv, .runHup s.gen false, .stopFlush, .unused, .reset, .freeable, .closeFd s.gen]
                     else [Act.doEv, .queueHup, .detach, .doneEv, .runHup s.gen false]
         let w := apply w k acts
         -- (a dial's operator has no Inputs: `ran` names connections only)
         let ran := if sl.startsWith "dial=" then "none" else match owner with | some id => toString id | none => "?"
         fin w s!"ok ran={ran}"
       | "drel", _ =>
         -- `drel k skip=0|1`: dispatch with the owner's Release() loop running concurrently (joined before the observation).
         -- skip=1: Release held the token when the poller tried `do()`: the event is skipped (and fetched again later)
         let k := toNat! id
         let s := getSlot w k
         let owner := (w.conns.find? (fun (_, sl, g) => sl == k && some g == s.cbGen)).map (·.1)
         if sl == "skip=1" then fin (apply w k [.liveRelease, .doEv, .liveDone]) "ok ran=none"
         else
           let w := apply w k [.liveRelease, .liveDone, .doEv, .doneEv, .liveRelease, .liveDone]
           let ran := match owner with | some id => toString id | none => "?"
           fin w s!"ok ran={ran}"
       | _, _ => (w, "bad-op"))
    else
    match kv sl "slot" with
    | none => (w, "bad-op")
    | some k =>
      let w := apply w k [.alloc, .register]
      fin { w with conns := (toNat! id, k, (getSlot w k).gen) :: w.conns } "ok"
  | ["gate", _] => fin w "ok"
  -- real-Wait mode: the loop's own fetch / dispatch / free arrive as the ordinary `fetch` / `dispatch` / `endbatch` lines
  | ["waitstart"] => fin w "ok"
  | ["waitstop"] => fin w "ok"
  | ["waitend"] => fin w "ok"
  | ["waitround", _, _, _, _] => fin w "ok"
  | ["dispatchall", l] =>
    -- ONE handler call for the rest of the batch: items `k` (the model decides run / skip), `k:hupf` / `k:hupd` (hang-up delivered at
    -- once: full teardown by the hang-up goroutine / operator left detached for the user's Close), `k:hupg` (delivered, its
    -- OnDisconnect is blocked at a gate; teardown – if any – at `release`), `k:hupq` (recorded, queued BEHIND a blocked entry)
    let items := if l == "-" then [] else l.splitOn ","
    let (w, ran) := items.foldl (fun (acc : W × List String) it =>
      let (w, ran) := acc
      let (ks, tag) := match it.splitOn ":" with
        | [a, b] => (a, b)
        | _ => (it, "")
      let k := toNat! ks
      let s := getSlot w k
      let willRun := s.st == 1 && s.pending.isSome
      let owner := (w.conns.find? (fun (_, sl, g) => sl == k && some g == s.cbGen)).map (·.1)
      let ranNow := if willRun && !tag.startsWith "d" then ran ++ [match owner with | some id => toString id | none => "?"] else ran
      if tag == "" then (apply w k (if willRun then [.doEv, .doneEv] else [.doEv]), ranNow)
      else if !willRun then ({ w with fail := some s!"hang-up processed for slot {k} although the model skips the event" }, ran)
      else
        let acts := match tag with
          | "hupf" => [Act.doEv, .queueHup, .detach, .doneEv, .runHup s.gen false, .stopFlush, .unused, .reset, .freeable, .closeFd s.gen]
          | "hupd" => [Act.doEv, .queueHup, .detach, .doneEv, .runHup s.gen false]
          | "hupg" => [Act.doEv, .queueHup, .detach, .doneEv, .runHup s.gen false]
          | "dhup" => [Act.doEv, .queueHup, .detach, .doneEv, .runHup s.gen false]
          | "dout" => [Act.doEv, .detach, .doneEv]
          | "doutd" => [Act.doEv, .doneEv]
          | "dhupd" => [Act.doEv, .queueHup, .doneEv, .runHup s.gen false]
          | "dhupqd" => [Act.doEv, .queueHup, .doneEv]
          | _ => [Act.doEv, .queueHup, .detach, .doneEv]
        (apply w k acts, ranNow)) (w, [])
    fin w s!"ok ran={if ran.isEmpty then "none" else "+".intercalate ran}"
  | ["release", fl] =>
    -- the gates open: every recorded hang-up is delivered now (whoever owns the slot by now); `full=` lists the slots whose
    -- connection the hang-up goroutine then tore down completely
    let w := w.slots.foldl (fun w (k, s) => apply w k (s.hupq.map fun g => Act.runHup g false)) w
    let ks := match kvs fl "full" with
      | some l => if l == "-" then [] else (l.splitOn ",").map toNat!
      | none => []
    fin (ks.foldl (fun w k => apply w k [.stopFlush, .unused, .reset, .freeable, .closeFd (getSlot w k).gen]) w) "ok"
  | ["send", _] => fin w "ok"
  -- Release() on a live connection between poller steps: do(); reset tail; done() – the slot is as before
  | ["rel", id] =>
    (match w.conns.find? (·.1 == toNat! id) with
     | some (_, k, _) => fin (apply w k [.liveRelease, .liveDone]) "ok"
     | none => (w, "bad-op"))
  | ["drain", l] =>
    -- the harness takes every operator of the free chain; a modelled slot among them is taken like a new owner would
    let ks := if l == "-" then [] else (l.splitOn ",").map toNat!
    fin (ks.foldl (fun w k => apply w k [.alloc]) w) "ok"
  | ["fetch", l] =>
    let ks := if l == "-" then [] else (l.splitOn ",").map toNat!
    -- a slot seen for the first time in a batch would be a slot we never opened: refuse
    let w := ks.foldl (fun w k => if w.slots.any (·.1 == k) then w else { w with fail := some s!"event for unknown slot {k}" }) w
    let w := w.slots.foldl (fun w (k, _) => apply w k [if ks.contains k then .fetch else .fetchOther]) w
    fin { w with inBatch := true } "ok"
  | ["dispatch", k] =>
    let k := toNat! k
    let s := getSlot w k
    let willRun := s.st == 1 && s.pending.isSome
    let owner := (w.conns.find? (fun (_, sl, g) => sl == k && some g == s.cbGen)).map (·.1)
    let w := apply w k (if willRun then [.doEv, .doneEv] else [.doEv])
    let ran := if willRun then (match owner with | some id => toString id | none => "?") else "none"
    fin w s!"ok ran={ran}"
  | ["endbatch"] =>
    fin { (w.slots.foldl (fun w (k, _) => apply w k [.endBatch]) w) with inBatch := false } "ok"
  | ["close", _, sl, pre] =>
    match kv sl "slot" with
    | none => (w, "bad-op")
    | some k =>
      if pre == "pre=detached" then fin (apply w k [.stopFlush, .unused, .reset, .freeable, .closeFd (getSlot w k).gen]) "ok" else (w, "bad-op")
  | ["stale", id, what, sl] =>
    match kv sl "slot", w.conns.find? (·.1 == toNat! id) with
    | some k, some (_, _, g) =>
      let w := if what == "release" then apply w k [.staleRelease g true] else w
      fin w "ok"
    | _, _ => (w, "bad-op")
  | ["check"] => fin w "ok"
  | _ => (w, "bad-op")

partial def loop (h out : IO.FS.Stream) (w : W) : IO Unit := do
  let line ← h.getLine
  if line.isEmpty then return ()
  let line := line.trimAscii.toString
  if line.isEmpty || line.startsWith "#" then loop h out w
  else
    let (w', r) := step' w line
    out.putStrLn r
    loop h out w'

def main : IO Unit := do loop (← IO.getStdin) (← IO.getStdout) {}
end Driver.OpCache
