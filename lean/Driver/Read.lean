/-
  npdriver read <tracefile>

  Reads the traces written by the controlled scheduler for the C07 scenarios (go/inpkg/sched_read.go) and, per run,
  (1) trace conformance: every executed step of the REAL code (`S` atomic operation with observed operands/result,
      `P` channel point with observed readiness, `T` timer operation with its result, `G` ghost events of the harness)
      is mapped to the action(s) of the interleaving model Netpoll.Conn.Read it stands for and followed with `step`;
      the observed value must equal the model's (pre/post checks).  The first line no model state accepts is reported.
      Candidates are followed in parallel (subset construction) where a line is ambiguous.
  (2) spec oracle: Netpoll.Conn.ReadSpec.check on the observable events of the IMPLEMENTATION's run.
  Output, one line per run:  `run <k> conf=<ok|FAIL> spec=<ok|FAIL> states=<n> [| conf: …] [| spec: …]`, then totals
  and `stat <key> <count>` lines (what was exercised).
-/
import Netpoll.Conn.Read
import Netpoll.Conn.ReadSpec
namespace Driver.Read
open Netpoll.Conn.Read
open Netpoll.Conn (ReadSpec.Ev ReadSpec.Summary)

def toNat (s : String) : Nat := s.toNat?.getD 0
def toInt (s : String) : Int := s.toInt?.getD 0

def getKV (ws : List String) (key : String) : String :=
  match ws.find? (fun w => w.startsWith (key ++ "=")) with
  | some w => (w.drop (key.length + 1)).toString
  | none => ""

def opOf (fn : String) : String :=
  if fn.startsWith "CompareAndSwap" then "cas"
  else if fn.startsWith "Load" then "load"
  else if fn.startsWith "Store" then "store"
  else if fn.startsWith "Add" then "add"
  else fn

/-- a candidate: the model actions a line stands for, a check on the state before and one on the state after -/
structure Cand where
  acts : List Act
  pre : S → Bool := fun _ => true
  post : S → Bool := fun _ => true

def nop (pre : S → Bool := fun _ => true) : Cand := { acts := [], pre := pre }

/-- bytes waitRead waits for in a reader call (0 = the call does not go through waitRead) -/
def needOf (op : String) (n : Nat) : Nat :=
  if op == "Z" then 0 else if op == "Y" then 1 else if op == "R" then (if n == 0 then 0 else 1) else n

def resOf (res : String) : Option Result :=
  if res == "ok" then some .ok else if res == "eof" then some .errEOF else if res == "closed" then some .errClosed
  else if res == "rtimeout" then some .timeout else none

/-- readiness of channel `ch` in a comm list `r:rtimer:0,r:rd:1` (none = not listed) -/
def readyOf (comms : String) (ch : String) : Option Bool :=
  (comms.splitOn ",").findSome? (fun c => match c.splitOn ":" with
    | [_, name, r] => if name == ch then some (r == "1") else none
    | _ => none)

def isWait : RPc → Bool
  | .wait _ _ => true
  | _ => false
def isRet : RPc → Bool
  | .ret _ _ _ => true
  | _ => false
def isLenPc : RPc → Bool
  | .fast _ _ | .fastX _ | .chkLen _ _ | .reChk _ _ _ | .dblChk _ => true
  | _ => false
def isStorePc (n : Nat) : RPc → Bool
  | .store m _ | .storeX m _ => m == n
  | _ => false
def isUnstore : RPc → Bool
  | .unstore _ _ _ => true
  | _ => false
def isArm : RPc → Bool
  | .arm _ => true
  | _ => false
def isChkClosing : RPc → Bool
  | .chkClosing _ _ => true
  | _ => false

/-- candidates for a trace line, given the model state `s` and the current call's (op, need) -/
def cands (s : S) (curNeed : Nat) (ws : List String) : List Cand :=
  match ws with
  -- ---------------- reader
  | ["G", "reader", "call", _, op, n, mode, len] =>
      let need := needOf op (toNat (getKV [n] "n"))
      let m := getKV [mode] "mode"
      let l := toNat (getKV [len] "len")
      let pre : S → Bool := fun s => s.r == .idle && s.inLen == l
      if need == 0 then [nop pre]
      else if m == "x" then [{ acts := [.callX need], pre := pre }]
      else [{ acts := [.call need (m == "t" || m == "d")], pre := pre }]
  | "G" :: "reader" :: "ret" :: _ :: rest =>
      let res := getKV rest "res"
      let okRes : Bool := if curNeed == 0 then true else
        match resOf res, s.results.head? with
        | some r, some x => x.2.1 == r && x.1 == curNeed
        | _, _ => false
      [nop (fun s => s.r == .idle && okRes && s.inLen == toNat (getKV rest "len") && s.waitSize == toNat (getKV rest "wrs")
                     && s.tick == (getKV rest "tick" == "1") && s.slot.isSome == (getKV rest "slot" == "1"))]
  | ["S", "reader", _, "inLen", fn, a, _, r] =>
      let v := toNat r
      match opOf fn with
      | "load" => if isLenPc s.r then [{ acts := [.rstep], pre := fun s => s.inLen == v }]
                  else if s.r == .idle then [nop (fun s => s.inLen == v)] else []
      | "add" => let d := toInt a
                 if d < 0 then [{ acts := [.consume (-d).toNat], post := fun s => s.inLen == v }] else []
      | _ => []
  | ["S", "reader", _, "waitReadSize", fn, a, _, _] =>
      if opOf fn == "store" then
        let n := toNat a
        if n == 0 then [{ acts := [.rstep], pre := fun s => isUnstore s.r }]
        else [{ acts := [.rstep], pre := fun s => isStorePc n s.r }]
      else []
  | ["S", "reader", _, "closing", fn, _, _, r] =>
      if opOf fn == "load" then
        let v := toNat r
        if isChkClosing s.r then [{ acts := [.rstep], pre := fun s => s.closing == v }]
        else if s.r == .idle then [nop (fun s => s.closing == v)] else []
      else []
  | ["T", "reader", _, op, "rtimer", res] =>
      if op == "new" || op == "reset" then [{ acts := [.rstep], pre := fun s => isArm s.r }]
      else if op == "stop" then
        if res == "1" then [{ acts := [.rstep], pre := fun s => isRet s.r && s.timerRunning }]
        else [nop (fun s => isRet s.r && !s.timerRunning && s.tick)]
      else []
  | ["P", "reader", _, "0", comms] =>
      let rd := readyOf comms "rd"
      let tm := readyOf comms "rtimer"
      if isWait s.r then
        match rd, tm with
        | some true, some false | some true, none => [{ acts := [.recvSlot], pre := fun s => s.slot.isSome }]
        | some false, some true => [{ acts := [.recvTick], pre := fun s => s.tick }]
        | _, _ => []
      else if isRet s.r then
        match rd, tm with
        | none, some true => [{ acts := [.rstep], pre := fun s => !s.timerRunning && s.tick }]
        | _, _ => []
      else []
  -- ---------------- poller (inputAck)
  | ["S", "poller", _, "inLen", fn, a, _, r] =>
      if opOf fn == "add" then
        let k := toInt a
        if k > 0 then [{ acts := [.deliver k.toNat, .pstep], post := fun s => s.inLen == toNat r }]
        else if k == 0 then [nop] else []
      else []
  | ["S", "poller", _, "waitReadSize", fn, _, _, r] =>
      if opOf fn == "load" then [{ acts := [.pstep], pre := fun s => s.p == .loadWait && s.waitSize == toNat r }] else []
  | ["P", "poller", _, "1", comm] =>
      match readyOf comm "rd" with
      | some room => [{ acts := [.pstep], pre := fun s => s.p == .send && s.slot.isNone == room }]
      | none => []
  | "G" :: "poller" :: _ => [nop]
  -- ---------------- hang-up goroutine
  | ["S", "hup", _, "closing", fn, _, b, r] =>
      if opOf fn == "cas" && b == "2" then
        (if r == "1" then [{ acts := [.closePeer] }] else [nop (fun s => s.closing != 0)])
      else if opOf fn == "load" then [nop] else []
  | ["P", "hup", _, "1", comm] =>
      match readyOf comm "rd" with
      | some room => [{ acts := [.cstep], pre := fun s => s.c == .sendEOF && s.slot.isNone == room }]
      | none => []
  | "G" :: "hup" :: _ => [nop]
  -- ---------------- timer
  | ["G", "rtimer", "fire", ok] => if ok == "true" then [{ acts := [.fire] }] else []
  -- ---------------- everything else: closers and the environment
  | ["S", actor, _, "closing", fn, a, b, r] =>
      if actor.startsWith "closer" then
        match opOf fn with
        | "cas" => if b == "1" then (if r == "1" then [{ acts := [.closeUser] }] else [nop (fun s => s.closing != 0)]) else []
        | "store" => if a == "1" then [{ acts := [.forceUser] }] else []
        | "load" => [nop]
        | _ => []
      else []
  | ["P", actor, _, "1", comm] =>
      if actor.startsWith "closer" then
        match readyOf comm "rd" with
        | some room => [{ acts := [.cstep], pre := fun s => s.c == .sendClosed && s.slot.isNone == room }]
        | none => []
      else []
  | ["S", actor, _, "inLen", fn, a, _, r] =>
      if actor.startsWith "closer" then
        match opOf fn with
        | "load" => [nop (fun s => s.inLen == toNat r)]
        | "store" => if a == "0" then [{ acts := [.closeBuf] }] else []
        | _ => []
      else []
  | "G" :: _ => [nop]
  | "C" :: _ => [nop]
  | "X" :: _ => [nop]
  | "Y" :: _ => [nop]
  | _ => []

def dedup (l : List S) : List S := l.foldl (fun acc x => if acc.contains x then acc else x :: acc) []

def advance (states : List S) (curNeed : Nat) (ws : List String) : List S :=
  dedup (states.foldl (fun acc s => (cands s curNeed ws).foldl (fun acc2 c =>
    if c.pre s then
      match run s c.acts with
      | some s' => if c.post s' then s' :: acc2 else acc2
      | none => acc2
    else acc2) acc) [])

/-- spec events of a line (observations of the implementation only) -/
def evsOf (curLen : Nat) (ws : List String) : List ReadSpec.Ev :=
  match ws with
  | ["P", "reader", _, "0", comms] =>
      if readyOf comms "rtimer" == some true && (readyOf comms "rd").isSome then [.tickTaken curLen]
      else if readyOf comms "rd" == some true then [.slotTaken] else []
  | ["P", "poller", _, "1", comm] => if readyOf comm "rd" == some true then [.dataTrigger curLen] else []
  | ["P", actor, _, "1", comm] => if actor != "reader" && readyOf comm "rd" == some true then [.errTrigger] else []
  | ["G", "reader", "call", i, op, n, mode, len] =>
      [.call (toNat i) op (needOf op (toNat (getKV [n] "n"))) (getKV [mode] "mode") (toNat (getKV [len] "len"))]
  | "G" :: "reader" :: "ret" :: i :: rest =>
      [.ret (toNat i) (getKV rest "res") (toNat (getKV rest "got")) (toNat (getKV rest "len")) (toNat (getKV rest "wrs"))
            (toNat (getKV rest "tick")) (toNat (getKV rest "slot"))]
  | ["S", "reader", _, "inLen", fn, a, _, r] =>
      if opOf fn == "load" then [.lenSeen (toNat r)]
      else if opOf fn == "add" && toInt a < 0 then [.consumed (-(toInt a)).toNat] else []
  | ["S", "reader", _, "waitReadSize", fn, a, _, _] => if opOf fn == "store" && a == "0" then [.decided] else []
  | ["G", "rtimer", "fire", "true"] => [.fired]
  | ["S", "hup", _, "closing", fn, _, b, r] => if opOf fn == "cas" && b == "2" && r == "1" then [.peerClose curLen] else []
  | ["S", actor, _, "closing", fn, a, b, r] =>
      if actor.startsWith "closer" then
        (if opOf fn == "cas" && b == "1" && r == "1" then [.userClose curLen] else if opOf fn == "store" && a == "1" then [.userClose curLen] else [])
      else []
  | "G" :: who :: "panic-out" :: _ => [.panic who]
  | _ => []

structure RunSt where
  id : String := ""
  states : List S := []
  confFail : Option String := none
  evs : Array ReadSpec.Ev := #[]
  lineNo : Nat := 0
  maxStates : Nat := 1
  active : Bool := false
  curNeed : Nat := 0
  curLen : Nat := 0          -- bytes buffered, as last written by anybody (observed results of the atomic operations on the length)

def bump (m : List (String × Nat)) (k : String) : List (String × Nat) :=
  if m.any (·.1 == k) then m.map (fun p => if p.1 == k then (p.1, p.2 + 1) else p) else m ++ [(k, 1)]

def main (path : String) : IO Unit := do
  let h ← IO.FS.Handle.mk path IO.FS.Mode.read
  let out ← IO.getStdout
  let mut rs : RunSt := {}
  let mut nRuns := 0
  let mut nConfFail := 0
  let mut nSpecFail := 0
  let mut nLines := 0
  let mut stats : List (String × Nat) := []
  repeat
    let line ← h.getLine
    if line.isEmpty then break
    let l := line.trimRight
    let ws := l.splitOn " "
    match ws with
    | "run" :: id :: "scn" :: _ =>
        rs := { id := id, states := [init], active := true }
    | "end" :: rest =>
        if rs.active then
          let status := getKV rest "status"
          let parked := getKV rest "parked"
          let rp := (parked.splitOn ",").any (fun p => p.startsWith "reader@connection.waitRead")
          let sm : ReadSpec.Summary := ⟨status, toNat (getKV rest "unread"), toNat (getKV rest "closing"), toNat (getKV rest "tick"),
                                        toNat (getKV rest "wrs"), rp⟩
          let bad := Netpoll.Conn.ReadSpec.check rs.evs.toList sm
          nRuns := nRuns + 1
          stats := bump stats s!"status={status}"
          if rp then stats := bump stats "reader-blocked-at-end"
          -- the model must agree with the final observation too
          let mut cf := rs.confFail
          if cf.isNone then
            if !(rs.states.any (fun s => s.inLen == sm.unread && s.closing == sm.closing && s.waitSize == sm.wrs && s.tick == (sm.tick == 1)
                                         && (isWait s.r || isRet s.r) == rp)) then
              cf := some s!"end line: no model state agrees with the final observation `{l}`"
          let confS := if cf.isSome then "FAIL" else "ok"
          if cf.isSome then nConfFail := nConfFail + 1
          if !bad.isEmpty then nSpecFail := nSpecFail + 1
          let specS := if bad.isEmpty then "ok" else "FAIL"
          let mut msg := s!"run {rs.id} conf={confS} spec={specS} states={rs.maxStates}"
          if let some f := cf then msg := msg ++ " | conf: " ++ f
          if !bad.isEmpty then msg := msg ++ " | spec: " ++ "; ".intercalate bad
          out.putStrLn msg
          rs := { rs with active := false }
    | tag :: _ :: _ =>
        if rs.active && (tag == "S" || tag == "P" || tag == "C" || tag == "X" || tag == "Y" || tag == "G" || tag == "T" || tag == "K") then
          nLines := nLines + 1
          rs := { rs with lineNo := rs.lineNo + 1, evs := rs.evs ++ (evsOf rs.curLen ws).toArray }
          match ws with
          | ["S", _, _, "inLen", fn, a, _, r] =>
              if opOf fn == "add" then rs := { rs with curLen := toNat r } else if opOf fn == "store" then rs := { rs with curLen := toNat a }
          | _ => pure ()
          match ws with
          | ["G", "reader", "call", _, op, n, mode, _] =>
              rs := { rs with curNeed := needOf op (toNat (getKV [n] "n")) }
              stats := bump stats s!"call op={op} mode={getKV [mode] "mode"}"
          | "G" :: "reader" :: "ret" :: _ :: rest => stats := bump stats s!"result {getKV rest "res"}"
          | ["G", "rtimer", "fire", _] => stats := bump stats "timer-fired"
          | _ => pure ()
          if rs.confFail.isNone then
            let next := advance rs.states rs.curNeed ws
            if next.isEmpty then
              rs := { rs with confFail := some s!"line {rs.lineNo}: `{l}`: no model state accepts this step / the observed value differs ({rs.states.length} candidate states)" }
            else
              rs := { rs with states := next, maxStates := max rs.maxStates next.length }
    | _ => pure ()
  out.putStrLn s!"total runs={nRuns} lines={nLines} conf_fail={nConfFail} spec_fail={nSpecFail}"
  for (k, v) in stats do
    out.putStrLn s!"stat {k} {v}"

end Driver.Read
