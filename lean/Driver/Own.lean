import Netpoll.Buf.Owner
import Netpoll.Buf.OwnerCov
import Driver.Lb
/-! `npdriver own`: replays the op lines of `npdriver lb` on the ownership ledger model and prints per op
the allocator events in the harness format (`@@ m<id>:<cap> f<id> …`), followed by ` !! <problems>` when the
spec oracle rejects the MODEL's state (same wording as go/inpkg/lbown.go where the model can see the problem).
The value model runs alongside: it supplies `Until`'s index (the ledger has no contents) and its shape is
compared with the ledger's after every op (`shape-differs`). -/
open Netpoll.Buf Netpoll.Buf.Own

namespace Driver.Own

structure W where
  val : Driver.Lb.World := {}
  led : Ledger := {}

def isPow2 (n : Nat) : Bool := n != 0 && pow2ge n == n

def tagOf (s : Ledger) (b : Nat) : String :=
  match s.mem.blocks[b]? with
  | some bl => if bl.split then "[D4-split-block]" else ""
  | none => ""

def pidOf (s : Ledger) (b : Nat) : String :=
  match s.mem.blocks[b]? with
  | some bl => if bl.kind = .pool then toString bl.pid else "-1"
  | none => "?"

def showEv (s : Ledger) : Ev → Option String
  | .malloc b => match s.mem.blocks[b]? with
    | some bl => some s!"m{bl.pid}:{bl.cap}"
    | none => some "m?"
  | .free b cap => match s.mem.blocks[b]? with
    | some bl => if bl.kind = .pool then some s!"f{bl.pid}" else if isPow2 cap then some "f-1" else none
    | none => some "f?"
  | .write _ _ _ => none

def enum {α : Type} (l : List α) : List (Nat × α) := (List.range l.length).zip l

/-- problems of the op that led from `s0` to `s` (`evs`: its events), in the harness's order and wording -/
def problems (s0 s : Ledger) (evs : List Ev) : List String := Id.run do
  let mut out : List String := []
  let mut seen : List Nat := []
  for e in evs do
    match e with
    | .free b cap =>
      match s.mem.blocks[b]? with
      | none => out := out ++ ["free-of-unknown-block"]
      | some bl =>
        if bl.kind ≠ .pool then
          if isPow2 cap then
            out := out ++ [(if bl.kind = .caller then "caller-memory-freed" else "foreign-free") ++ s!" cap={cap}"]
          else out := out ++ [s!"free-call-on-foreign-memory cap={cap}"]
        else
          let before := (match s0.mem.blocks[b]? with | some b0 => b0.frees | none => 0) + (seen.filter (· = b)).length
          if before > 0 then out := out ++ [s!"double-free block={bl.pid}{tagOf s b}"]
          for (i, v) in enum s.mem.views do
            if v.live ∧ v.block = b then
              out := out ++ [s!"free-while-view-live block={bl.pid} view={i} owner={v.owner}{tagOf s b}"]
      seen := seen ++ [b]
    | .write b lo hi =>
      for (i, v) in enum s0.mem.views do
        if v.live ∧ v.block = b ∧ lo < v.hi ∧ v.lo < hi then
          out := out ++ [s!"write-under-live-view block={pidOf s b} view={i} owner={v.owner}{tagOf s b}"]
      match s.mem.blocks[b]? with
      | some bl => if bl.kind = .caller then out := out ++ [s!"caller-memory-written block={b}"]
      | none => pure ()
    | _ => pure ()
  for (id, buf) in s.bufs do
    for i in buf.chain do
      match s.mem.nodes[i]? with
      | some nd =>
        if nd.cap > 0 then
          match nd.block with
          | some b =>
            match s.mem.blocks[b]? with
            | some bl =>
              if bl.kind = Kind.pool ∧ bl.frees > 0 then
                out := out ++ [s!"freed-block-in-chain block={bl.pid} buf={id}{tagOf s b}"]
            | none => pure ()
          | none => pure ()
      | none => out := out ++ [s!"unknown-node-in-chain buf={id}"]
  for (i, nd) in enum s.mem.nodes do
    if nd.recycled > 1 then out := out ++ [s!"node-recycled-twice node={i}"]
  return out

/-- per buffer: `B<id> <refer>/<pool block or -1>+<offset>/<origin or -> ...` for the nodes of the chain -/
def dumpOwn (s : Ledger) : String :=
  " ".intercalate <| s.bufs.filterMap fun (id, b) =>
    if b.chain.isEmpty then none else
    some (s!"B{id}:" ++ ",".intercalate (b.chain.map fun i =>
      match s.mem.nodes[i]? with
      | none => "?"
      | some nd =>
        let blk := match nd.block with
          | some bi => match s.mem.blocks[bi]? with
            | some bl => if bl.kind = Kind.pool ∧ nd.cap > 0 then s!"{bl.pid}+{nd.lo}" else "-1+0"
            | none => "?"
          | none => "-1+0"
        let org := match nd.origin with
          | some o => match s.mem.nodes[o]? with
            | some on => s!"{on.refer}"
            | none => "?"
          | none => "-"
        s!"{nd.refer}/{blk}/{org}"))

def toInt! (s : String) : Int := s.toInt?.getD 0
def toNat! (s : String) : Nat := s.toNat?.getD 0

/-- op line → ledger op (`val`: the value-model world before the op, for Until) -/
def parseOp (val : Driver.Lb.World) (toks : List String) : Own.Op :=
  match toks with
  | ["new", id, size] => .new (toNat! id) (toInt! size).toNat
  | ["mal", id, n, _] => .mal (toNat! id) (toInt! n)
  | ["wbin", id, n, _, pcap] => .wbin (toNat! id) (toNat! n) (toNat! pcap)
  | ["wstr", id, n, _] => .wbin (toNat! id) (toNat! n) (toNat! n)
  | ["wbyte", id, _] => .mal (toNat! id) 1
  | ["wdir", id, n, _, ecap, remain] => .wdir (toNat! id) (toNat! n) (toNat! ecap) (toInt! remain)
  | ["ack", id, n] => .ack (toNat! id) (toInt! n)
  | ["flush", id] => .flush (toNat! id)
  | ["next", id, n] => .next (toNat! id) (toInt! n)
  | ["peek", id, n] => .peek (toNat! id) (toInt! n)
  | ["skip", id, n] => .skip (toNat! id) (toInt! n)
  | ["rbin", id, n] => .rbin (toNat! id) (toInt! n)
  | ["rstr", id, n] => .rbin (toNat! id) (toInt! n)
  | ["rbyte", id] => .rbyte (toNat! id)
  | ["until", id, c] =>
    match val.bufs.get? (toNat! id) with
    | some b => .untl (toNat! id) ((b.indexByte (UInt8.ofNat (toNat! c)) 0).getD (-1))
    | none => .nop (toNat! id)
  | ["read", id, n] => .read (toNat! id) (toNat! n)
  | ["rel", id] => .rel (toNat! id)
  | ["close", id] => .close (toNat! id)
  | ["getbytes", id, k] => .getbytes (toNat! id) (toNat! k)
  | ["rtail", id, ms] => .rtail (toNat! id) (toNat! ms)
  | ["book", id, bs, ms, n, _] => .book (toNat! id) (toNat! bs) (toNat! ms) (toNat! n)
  | ["slice", id, n, nid] => .slice (toNat! id) (toInt! n) (toNat! nid)
  | ["app", id, did] => .app (toNat! id) (toNat! did)
  | _ => .nop 0

def stepLine (w : W) (line : String) : String × W :=
  let toks := (line.splitOn " ").filter (· ≠ "")
  match toks with
  | ["seq", _, _] =>
    let (_, val) := (Driver.Lb.step line).run w.val
    ("seq", { val := val, led := {} })
  | _ =>
  if w.val.dead then ("dead", w) else
  let op := parseOp w.val toks
  let (rep, val) := (Driver.Lb.step line).run w.val
  let s0 := w.led
  match step val.cfg s0 op with
  | none =>
    let extra := if rep = "panic" then "" else " !! model-panic-differs ledger=panic"
    ("@@" ++ extra, { val := { val with dead := true }, led := s0 })
  | some s =>
    let evs := s.mem.log.drop s0.mem.log.length
    let mut_probs := problems s0 s evs
    let shape := s.bufs.filterMap fun (id, b) =>
      match val.bufs.get? id with
      | some v => if sameShape s.mem b v then none else some s!"shape-differs buf={id}"
      | none => some s!"shape-differs buf={id} (no value buffer)"
    let pan := if rep = "panic" then ["model-panic-differs value=panic"] else []
    let probs := mut_probs ++ shape ++ pan
    let out := "@@ " ++ " ".intercalate (evs.filterMap (showEv s))
    let out := if probs.isEmpty then out else out ++ " !! " ++ " ; ".intercalate probs
    let out := out ++ " %% " ++ dumpOwn s
    -- is the call inside the part of the state space the C02 / C03 theorems speak about (`CovV`, `Cov`)?
    let out := out ++ (if covVB s0 op then "" else if covB s0 op then " ?? outside-CovV" else " ?? outside-Cov")
    (out, { val := val, led := s })

partial def loop (h : IO.FS.Stream) (out : IO.FS.Stream) (w : W) : IO Unit := do
  let line ← h.getLine
  if line.isEmpty then return ()
  let line := line.trimAscii.toString
  if line.isEmpty || line.startsWith "#" then loop h out w
  else
    let (r, w') := stepLine w line
    out.putStrLn r
    loop h out w'

def main : IO Unit := do
  loop (← IO.getStdin) (← IO.getStdout) {}

end Driver.Own
