import Netpoll.Conn.Stream
import Driver.Lb
/-! `npdriver stream`: replays the scripted-kernel op lines of go/inpkg/streamscript.go on
`Netpoll.Conn.Stream` (outRound / inRound over the spec queue). -/
open Netpoll.Buf Netpoll.Conn.Stream
namespace Driver.Stream
open Driver.Lb

structure SW where
  inQ : Q UInt8 := {}
  outQ : Q UInt8 := {}
  wire : List UInt8 := []

def splitBy (bs : List UInt8) : List Nat → List (List UInt8)
  | [] => []
  | l :: ls => bs.take l :: splitBy (bs.drop l) ls

def showE : Expect UInt8 → String
  | .exact r => showRes r
  | _ => "ok"

def step (w : SW) (line : String) : SW × String :=
  let toks := (line.splitOn " ").filter (· ≠ "")
  let fin (w : SW) (r : String) : SW × String :=
    (w, s!"{r} ## in={w.inQ.len} out={w.outQ.len}/{w.outQ.mallocLen} wire={w.wire.length}:{fnv w.wire}")
  match toks with
  | ["seq", _] => ({}, "seq")
  | ["wmal", n, seed] => fin { w with outQ := (specStep w.outQ (.malloc (toInt! n) (genBytes (toNat! seed) (toNat! n)))).1 } "ok"
  | ["wbin", n, seed] => fin { w with outQ := (specStep w.outQ (.writeBinary (genBytes (toNat! seed) (toNat! n)) (toNat! n))).1 } "ok"
  | ["wbyte", b] => fin { w with outQ := (specStep w.outQ (.writeByte (UInt8.ofNat (toNat! b)))).1 } "ok"
  | ["wsubmit"] => fin { w with outQ := (specStep w.outQ .flush).1 } "ok"
  | ["out", k, lens] =>
    let ls := if lens == "-" then [] else (lens.splitOn ",").map toNat!
    let vs := splitBy w.outQ.flushedBytes ls
    -- the implementation's vector lengths must denote a prefix of the buffered bytes
    if (ls.foldl (· + ·) 0) > w.outQ.len then (w, "SPEC-FAIL vectors exceed the buffered bytes")
    else match outRound w.outQ vs (toNat! k) with
      | none => (w, "SPEC-FAIL impossible round")
      | some (sent, q') => fin { w with outQ := q', wire := w.wire ++ sent } "ok"
  | ["in", k, seed] => fin { w with inQ := inRound w.inQ (genBytes (toNat! seed) (toNat! k)) } "ok"
  | ["rnext", n] => let (q, e) := specStep w.inQ (.next (toInt! n)); fin { w with inQ := q } (showE e)
  | ["rpeek", n] => let (q, e) := specStep w.inQ (.peek (toInt! n)); fin { w with inQ := q } (showE e)
  | ["rskip", n] => let (q, e) := specStep w.inQ (.skip (toInt! n)); fin { w with inQ := q } (showE e)
  | ["rbin", n] => let (q, e) := specStep w.inQ (.readBinary (toInt! n)); fin { w with inQ := q } (showE e)
  | ["rrel"] => fin w "ok"
  | _ => (w, "bad-op")

partial def loop (h out : IO.FS.Stream) (w : SW) : IO Unit := do
  let line ← h.getLine
  if line.isEmpty then return ()
  let line := line.trimAscii.toString
  if line.isEmpty || line.startsWith "#" then loop h out w
  else
    let (w', r) := step w line
    out.putStrLn r
    loop h out w'

def main : IO Unit := do loop (← IO.getStdin) (← IO.getStdout) {}
end Driver.Stream
