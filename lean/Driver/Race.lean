import Netpoll.Race
import Netpoll.Gen.Access
/-! `npdriver race`: evaluates the C19 policy over the regenerated access table with compiled code and prints one
line per row: `field <TAB> function <TAB> kind <TAB> discipline|- <TAB> ok|BAD`.  Used by checks/c19.py to name the
access that no longer complies when `C19_disciplined` stops building, and for the evidence histograms.
(The kernel-checked statement is the theorem; this printer is diagnostics only.) -/
namespace Driver.Race
open Netpoll.Race

def main : IO Unit := do
  for (f, fn, k) in Netpoll.Gen.accesses do
    let d0 := match policy f with | some d => d.name | none => "-"
    let lex := lexMissing Netpoll.Gen.lexHeld (f, fn, k)
    let d := match lex with
      | some l => d0 ++ s!"(not-lexically-inside-{l.goName.str})"
      | none => d0
    let good := ok (f, fn, k) && lex.isNone
    IO.println s!"{f.str}\t{fn.str}\t{k.toString}\t{d}\t{if good then "ok" else "BAD"}"
  -- policy entries whose field no longer occurs in the table (stale, harmless)
  for (n, _) in policyTab do
    unless Netpoll.Gen.accessGroups.any (fun g => g.1 == n) do
      IO.println s!"{n.str}\t-\t-\tstale\tok"

end Driver.Race
