import Netpoll.Dial
import Netpoll.DialSpec
/-!
Line-protocol driver for the dial model (property C14).

`npdriver dial`       stdin: script lines (as written by go/inpkg/dialh.go), stdout: one reply per line
`npdriver dialspec f` judges the observation lines of file `f` (implementation replies) with `specOk`
`npdriver dialadmit`  stdin: `class <name> deadline=<0|1>` lines, stdout: the outcomes the model admits

Script line:   dial id=3 auto=1 reg=0 :: att fd=7 sock=0 opt=0 addr=0 bind=0 ctx=- e0=115 local=1 self=0 late=WH wakes=W/w/0/0/111/1,D/c/0/0/0/1 :: att …
               unix id=4 reg=0 :: att …
               errnotimeout 110        exctimeout 257
events: W writable, H hang-up, C ctx cancelled, D ctx deadline; a lone dash = none.   wake = evs/pick/ctl/gso/so/peer
Reply line:    ret conn=0 err=sysConnect:111 timeout=0 last=0 openfds=0 slots=0 tmpreg=0 creg=0     |   blocked
-/
open Netpoll.Dial
namespace Driver.Dial

def toks (s : String) : List String := (s.splitOn " ").filter (· ≠ "")

def kv (ts : List String) (key : String) : String :=
  match ts.find? (fun t => t.startsWith (key ++ "=")) with
  | some t => String.ofList (t.toList.drop (key.length + 1))
  | none => ""

def nat (s : String) : Nat := s.toNat?.getD 0
def bool (s : String) : Bool := s == "1"

def ctxOf (c : Char) : Option CtxErr :=
  if c == 'C' || c == 'c' then some .canceled else if c == 'D' || c == 'd' then some .deadline else none

def evsOf (s : String) : List Ev :=
  s.toList.filterMap fun c =>
    if c == 'W' then some .writable else if c == 'H' then some .hup
    else if c == 'C' then some (.ctxDone .canceled) else if c == 'D' then some (.ctxDone .deadline) else none

def chanOf (s : String) : Chan := if s == "h" then .h else if s == "c" then .c else .w

def wakeOf (s : String) : Option Wake :=
  match s.splitOn "/" with
  | [evs, pick, ctl, gso, so, peer] =>
    some { evs := evsOf evs, pick := chanOf pick, ctlErr := nat ctl, gsoErr := nat gso, soerr := nat so, peerOk := bool peer }
  | _ => none

def attemptOf (ts : List String) : Attempt :=
  let w := kv ts "wakes"
  { fd := nat (kv ts "fd"), sockErr := nat (kv ts "sock"), optErr := nat (kv ts "opt"),
    addrErr := bool (kv ts "addr"), bindErr := nat (kv ts "bind"),
    ctxAt := ((kv ts "ctx").toList.head?).bind ctxOf,
    e0 := nat (kv ts "e0"), localOk := bool (kv ts "local"), selfConn := bool (kv ts "self"),
    late := evsOf (kv ts "late"),
    wakes := if w == "-" || w == "" then [] else (w.splitOn ",").filterMap wakeOf }

def showCtx : CtxErr → String
  | .canceled => "canceled"
  | .deadline => "deadline"

def showErr : Option DErr → String
  | none => "-"
  | some (.ctx k) => "ctx:" ++ showCtx k
  | some .closedByPeer => "closedByPeer"
  | some (.sysConnect e) => s!"sysConnect:{e}"
  | some (.sysGetsockopt e) => s!"sysGetsockopt:{e}"
  | some (.epollCtl e) => s!"epollCtl:{e}"
  | some (.sysSocket e) => s!"sysSocket:{e}"
  | some (.setsockopt e) => s!"setsockopt:{e}"
  | some (.bind e) => s!"bind:{e}"
  | some .addr => "addr"
  | some (.register e) => s!"register:{e}"

def b01 (b : Bool) : String := if b then "1" else "0"

def showOutcome (cfg : Cfg) (conn : Bool) (err : Option DErr) : String :=
  let t := match err with
    | some e => e.timeout cfg
    | none => false
  s!"conn={b01 conn} err={showErr err} timeout={b01 t}"

def showRet (cfg : Cfg) (s : St) (r : DRes) (last : Nat) : String :=
  match r with
  | .blocked => "blocked"
  | .ret conn err =>
    s!"ret {showOutcome cfg conn err} last={last} openfds={s.L.opened - s.L.closed} slots={s.L.allocs - s.L.frees} tmpreg={b01 s.pd.epoll} creg={b01 s.L.connReg}"

/-- split a script line at the `::` separators -/
def sections (line : String) : List (List String) := (line.splitOn "::").map toks

def step (cfg : Cfg) (line : String) : String :=
  match sections line with
  | ("dial" :: hd) :: atts =>
    let as := atts.map attemptOf
    let t : TcpScript := { auto := bool (kv hd "auto"), regErr := nat (kv hd "reg"),
                           att := fun i => as.getD i {} }
    let (s, r, last) := dialTCP {} t
    showRet cfg s r last
  | ("unix" :: hd) :: att :: _ =>
    let (s, r) := dialUnix {} (attemptOf att) (nat (kv hd "reg"))
    showRet cfg s r 0
  | [["errnotimeout", n]] => s!"{errnoTimeout (nat n)}"
  | [["exctimeout", n]] => s!"{exceptionTimeout (nat n)}"
  | _ => "bad-line"

partial def loop (cfg : Cfg) (h out : IO.FS.Stream) : IO Unit := do
  let line ← h.getLine
  if line.isEmpty then return ()
  let line := line.trimAscii.toString
  if line.isEmpty || line.startsWith "#" then loop cfg h out
  else
    out.putStrLn (step cfg line)
    loop cfg h out

def main (cfg : Cfg) : IO Unit := do
  loop cfg (← IO.getStdin) (← IO.getStdout)

/-! ### spec oracle over observation lines -/

def obsOfLine (ts : List String) : Obs :=
  let err := kv ts "err"
  { conn := bool (kv ts "conn"), errSome := err != "-" && err != "",
    errDeadline := err == "ctx:deadline" || bool (kv ts "expect_timeout"),
    timeout := bool (kv ts "timeout"), openFds := nat (kv ts "openfds"), slots := nat (kv ts "slots"),
    tmpReg := bool (kv ts "tmpreg"), connReg := bool (kv ts "creg") }

/-- verdict for one implementation line: `ret …` (scripted) or `real … ret …` (real dial) -/
def judge (line : String) : String :=
  let ts := toks line
  if ts.contains "blocked" || ts.contains "hung" then "IMPL-SPEC-FAIL the dial did not return"
  else if !(ts.contains "ret") then "skip"
  else
    let o := obsOfLine ts
    if specOk o then "OK" else "IMPL-SPEC-FAIL " ++ specWhy o

def specMain (path : String) : IO Unit := do
  let txt ← IO.FS.readFile path
  let out ← IO.getStdout
  for l in txt.splitOn "\n" do
    let l := l.trimAscii.toString
    if l.isEmpty || l.startsWith "#" then continue
    out.putStrLn (judge l)

/-! ### which outcomes does the model admit for a class of real dials -/

structure ClassCfg where
  e0s : List Errno
  evsets : List (List Ev)
  soerrs : List Errno
  peers : List Bool
  unix : Bool := false
  /-- dials with a local address (`DialTCP` / `DialUnix`): what `netFD.dial` finds wrong before connect(2) -/
  bindErr : Errno := 0         -- bind(2) fails with this errno
  addrErr : Bool := false      -- laddr/raddr.sockaddr(family) fails
  auto : Bool := true          -- laddr == nil || laddr.Port == 0 (the retry loop of dialTCP is armed)

def classCfg : String → Option ClassCfg
  | "accept" => some { e0s := [EINPROGRESS, 0], evsets := [[.writable], [.writable, .writable]], soerrs := [0, EINPROGRESS], peers := [true, false] }
  | "refuse" => some { e0s := [EINPROGRESS, ECONNREFUSED], evsets := [[.writable], [.hup], [.writable, .hup], [.hup, .writable]],
                       soerrs := [ECONNREFUSED], peers := [true] }
  | "backlog" => some { e0s := [EINPROGRESS], evsets := [[]], soerrs := [0], peers := [true] }
  | "reset" => some { e0s := [EINPROGRESS, 0], evsets := [[.writable], [.hup], [.writable, .hup], [.hup, .writable]],
                      soerrs := [0, 104], peers := [true, false] }
  -- a local address is given (the harness dials through DialTCP / DialUnix): free; port taken (EADDRINUSE, an
  -- explicit port disarms the retry loop); not on this host (EADDRNOTAVAIL with port 0: retried twice, same result);
  -- network says IPv4, an address is IPv6 (address conversion fails)
  | "laddr-ok" => some { e0s := [EINPROGRESS, 0], evsets := [[.writable], [.writable, .writable]], soerrs := [0, EINPROGRESS], peers := [true, false] }
  | "bind-inuse" => some { e0s := [EINPROGRESS], evsets := [[]], soerrs := [0], peers := [true], bindErr := 98, auto := false }
  | "bind-notlocal" => some { e0s := [EINPROGRESS], evsets := [[]], soerrs := [0], peers := [true], bindErr := EADDRNOTAVAIL }
  | "family-raddr" => some { e0s := [EINPROGRESS], evsets := [[]], soerrs := [0], peers := [true], addrErr := true }
  | "family-laddr" => some { e0s := [EINPROGRESS], evsets := [[]], soerrs := [0], peers := [true], addrErr := true }
  | "unix-laddr-ok" => some { e0s := [0], evsets := [[]], soerrs := [0], peers := [true], unix := true }
  | "unix-bind-exists" => some { e0s := [0], evsets := [[]], soerrs := [0], peers := [true], unix := true, bindErr := 98 }
  | "unix-ok" => some { e0s := [0], evsets := [[]], soerrs := [0], peers := [true], unix := true }
  | "unix-missing" => some { e0s := [2], evsets := [[]], soerrs := [0], peers := [true], unix := true }
  | "unix-refuse" => some { e0s := [ECONNREFUSED], evsets := [[]], soerrs := [0], peers := [true], unix := true }
  | "unix-backlog" => some { e0s := [EAGAIN], evsets := [[]], soerrs := [0], peers := [true], unix := true }
  | _ => none

def insertAll {α} (x : α) : List α → List (List α)
  | [] => [[x]]
  | y :: ys => (x :: y :: ys) :: (insertAll x ys).map (y :: ·)

/-- all wake items of a class; with a done context the ctx event may sit anywhere among the others -/
def wakesOf (c : ClassCfg) (ctx : Option CtxErr) : List Wake :=
  let evsets := match ctx with
    | none => c.evsets
    | some k => c.evsets ++ c.evsets.flatMap (insertAll (Ev.ctxDone k))
  evsets.flatMap fun evs => [Chan.w, Chan.h, Chan.c].flatMap fun pick =>
    c.soerrs.flatMap fun so => c.peers.map fun peer => { evs, pick, soerr := so, peerOk := peer }

def dedup (l : List String) : List String :=
  (l.toArray.qsort (· < ·)).toList.eraseDups

/-- outcomes over all scripts of the class with at most two wake items -/
def admitted (cfg : Cfg) (c : ClassCfg) (ctx : Option CtxErr) : List String :=
  let ws := wakesOf c ctx
  let ctxAts : List (Option CtxErr) := match ctx with
    | none => [none]
    | some k => [none, some k]
  let run (e0 : Errno) (ca : Option CtxErr) (wakes : List Wake) : DRes :=
    let a : Attempt := { fd := 5, e0, ctxAt := ca, wakes, bindErr := c.bindErr, addrErr := c.addrErr }
    if c.unix then (dialUnix {} a 0).2 else (dialTCP {} { auto := c.auto, att := fun _ => a }).2.1
  let outs := c.e0s.flatMap fun e0 => ctxAts.flatMap fun ca =>
    match run e0 ca [] with
    | .ret conn err => [showOutcome cfg conn err]      -- returns without waiting
    | .blocked =>
      ws.flatMap fun a =>
        match run e0 ca [a] with
        | .ret conn err => [showOutcome cfg conn err]
        | .blocked =>                                   -- the loop goes round again: one more wake-up
          ws.filterMap fun b =>
            match run e0 ca [a, b] with
            | .ret conn err => some (showOutcome cfg conn err)
            | .blocked => none
  dedup outs

partial def admitLoop (cfg : Cfg) (h out : IO.FS.Stream) : IO Unit := do
  let line ← h.getLine
  if line.isEmpty then return ()
  let ts := toks line.trimAscii.toString
  match ts with
  | "class" :: name :: rest =>
    let ctx := ((kv rest "ctx").toList.head?).bind ctxOf
    match classCfg name with
    | some c => out.putStrLn (s!"class {name} ctx={kv rest "ctx"} :: " ++ " | ".intercalate (admitted cfg c ctx))
    | none => out.putStrLn s!"class {name} :: unknown"
  | _ => pure ()
  admitLoop cfg h out

def admitMain (cfg : Cfg) : IO Unit := do
  admitLoop cfg (← IO.getStdin) (← IO.getStdout)

end Driver.Dial
