import Netpoll.Fd
/-!
`npdriver fd`: replays descriptor event sequences observed on the implementation (strace + harness markers,
prepared by checks/c15.py) through the Lean model of `Netpoll.Fd`.

Input, one scenario after the other:
```
S <name>
K <kind> [args]        -- a lifecycle instance the scenario runs (instance index = order of K lines)
B <fd> ...             -- numbers open elsewhere when the scenario starts
e o <fd> | e c <fd>    -- another party opened / closes the number
n o <fd> | n c <fd>    -- netpoll was given the number by the kernel / netpoll issued close(fd)
n a <fd> | n r <fd>    -- the harness handed the number to netpoll / took it back after Detach (ghost events)
a <choice> <+|->       -- like A, but only a preference (see below)
I <k> <site>           -- instance k never passes that call site (e.g. its Dial returned an error, so no connection
                       -- exists whose close callbacks could run)
A <choice> <+|->       -- what the harness knows about an outcome that leaves no trace in the events (e.g. that it
                       -- never calls Detach, or closes through server.Close); restricts the model's choices
E complete|open        -- end; `complete`: every lifecycle of the scenario is supposed to be finished
```
Output, one line per scenario:
```
R <name> owned=<ok|i:fd:was:twice> once=<ok|bad> left=<-|fd,..> conform=<ok|FAIL@i|BUDGET> sites=<..> paths=<..>
```
* `owned`, `once`, `left`: the specification monitors of `Netpoll.Fd` (`Mon.step`, `onceOK`, `leftOpen`) applied to the
  implementation's event sequence (spec oracle);
* `conform`: there is a run of the composed model (`gstep`, the declared instances, any outcome of every choice)
  whose observable trace is exactly the event sequence; `sites`/`paths`: the close sites and the choices of that run.
  `A` lines restrict the choices; `a` lines do so only at the first attempt (outcomes the harness cannot force but
  that do not normally happen, e.g. a TCP self-connect) – if no run exists with them the search is repeated without.
-/
namespace Driver.Fd
open Netpoll.Fd

instance : Inhabited Kind := ⟨.poller 0⟩

inductive Line
  | ev (o : Obs)
  | adopt (fd : Fd)
  deriving Repr

structure Scenario where
  name : String := ""
  kinds : List Kind := []
  base : List Fd := []
  lines : List Line := []
  complete : Bool := true
  fixed : List (Br × Bool) := []
  soft : List (Br × Bool) := []
  forbid : List (Nat × Site) := []

def parseKind (ws : List String) : Option Kind :=
  let num (s : String) := s.toNat?.getD 0
  match ws with
  | ["dialTCP", f] => some (.dialTCP (num f))
  | ["dialUnix", f] => some (.dialUnix (num f))
  | ["accepted", f] => some (.accepted (num f))
  | ["acceptConn", f] => some (.acceptConn (num f))
  | ["fdConn", fd, f] => some (.fdConn (num fd) (num f))
  | ["createListener", f] => some (.createListener (num f))
  | ["convertListener", fd, f] => some (.convertListener (num fd) (num f))
  | ["poller", f] => some (.poller (num f))
  | _ => none

def allBr : List Br :=
  [.socket_ok, .setNonblock_ok, .sockopts_ok, .dial_bind_ok, .dial_connect_ok, .dial_ctx_ok, .dial_wait_ok, .dial_soerror_ok,
   .selfConnect, .spuriousENOTAVAIL, .unix_precheck_ok, .prepare_closes, .register_ok, .conn_more, .conn_detach,
   .conn_viaServer, .accept_ok, .listen_udp, .listen_ok, .ln_isNetpollListener, .ln_typeSupported, .ln_file_ok,
   .ln_setNonblock_ok, .ln_more, .ln_viaServer, .epollCreate_ok, .eventfd_ok, .ctlAdd_ok, .epollWait_ok, .poll_more]

def brName (l : Br) : String := (reprStr l).replace "Netpoll.Fd.Br." ""

def Scenario.assume (s : Scenario) (withSoft : Bool) : Br → Option Bool := fun l =>
  ((s.fixed ++ (if withSoft then s.soft else [])).find? (·.1 == l)).map (·.2)

def kindName : Kind → String
  | .dialTCP _ => "dialTCP" | .dialUnix _ => "dialUnix" | .accepted _ => "accepted" | .acceptConn _ => "acceptConn" | .fdConn _ _ => "fdConn"
  | .createListener _ => "createListener" | .convertListener _ _ => "convertListener" | .poller _ => "poller"

/-- the observable events for the monitors (`n a` counts as netpoll being given the number) -/
def Scenario.obs (s : Scenario) : List Obs :=
  s.lines.map fun l => match l with
    | .ev o => o
    | .adopt fd => .npOpen fd

/-! ### spec oracle -/

def cellName : Cell → String
  | .free => "free" | .np => "np" | .env => "env"

def firstBad (vs : List Verdict) : String :=
  -- `monitor` returns verdicts newest first
  let rec go (i : Nat) : List Verdict → String
    | [] => "ok"
    | .ok :: r => go (i+1) r
    | .notOwned fd was twice :: _ => s!"{i}:{fd}:{cellName was}:{if twice then "twice" else "once"}"
    | .inconsistent fd :: _ => s!"{i}:{fd}:inconsistent"
  go 0 vs.reverse

/-! ### conformance search -/

def isSilentHead : M Unit → Bool
  | .at _ _ | .choose _ _ => true
  | _ => false

/-- all states reachable when only instance `i` performs silent steps (call-site visits, choices, ghost
adopt/release), stopping where its next step is an open, a close or the end.  `fuel` bounds the depth. -/
partial def silentClosure (A : Br → Option Bool) (forbid : List (Nat × Site)) (g : G) (i : Nat) (fuel : Nat) : List G :=
  match g.insts[i]? with
  | none => []
  | some m =>
    if !isSilentHead m then [g]
    else if fuel = 0 then []
    else
      match m with
      | .choose l _ =>
        let a := match gstep A g (.step i 0 true) with | some g' => silentClosure A forbid g' i (fuel-1) | none => []
        let b := match gstep A g (.step i 0 false) with | some g' => silentClosure A forbid g' i (fuel-1) | none => []
        -- shortest explanation first: "nothing more happens" before "another action happens"
        if l == .conn_more || l == .ln_more || l == .poll_more then b ++ a else a ++ b
      | .at st _ =>
        if forbid.contains (i, st) then []
        else match gstep A g (.step i 0 true) with | some g' => silentClosure A forbid g' i (fuel-1) | none => []
      | _ => match gstep A g (.step i 0 true) with | some g' => silentClosure A forbid g' i (fuel-1) | none => []

structure Search where
  budget : Nat
  deepest : Nat      -- index of the furthest event matched (for the failure report)

/-- which instances have performed at least one step (one pass over the trace) -/
def startedSet (g : G) (n : Nat) : Array Bool :=
  g.trace.foldl (fun a e =>
    let mark (j : Nat) : Array Bool := if h : j < a.size then a.set j true else a
    match e with
    | .npOpen _ j _ | .npAdopt _ j _ | .npClose _ j _ _ _ | .npAt j _ | .npChoice j _ _ | .npRel _ j _ _ => mark j
    | _ => a) (Array.replicate n false)

def finished (g : G) (i : Nat) : Bool :=
  match g.insts[i]? with
  | some m => isDone m
  | none => true

/-- instances worth trying for an event: the started ones that have not finished (a finished lifecycle performs no
further event), and of the not yet started ones only the first of each kind (they are interchangeable; `keys` = the
printed kinds, computed once per scenario) -/
def candidates (g : G) (keys : Array String) : List Nat := Id.run do
  let st := startedSet g keys.size
  let mut out : Array Nat := #[]
  let mut seenFresh : List String := []
  for i in List.range keys.size do
    if st.getD i false then
      if !finished g i then out := out.push i
    else
      let k := keys.getD i ""
      if !seenFresh.contains k then
        seenFresh := k :: seenFresh
        out := out.push i
  return out.toList

partial def finishAll (A : Br → Option Bool) (forbid : List (Nat × Site)) (g : G) (i n : Nat) : Option G :=
  if i ≥ n then some g
  else
    let alts := (silentClosure A forbid g i 40).filter fun g' => match g'.insts[i]? with | some m => isDone m | none => false
    alts.findSome? fun g' => finishAll A forbid g' (i+1) n

partial def search (A : Br → Option Bool) (forbid : List (Nat × Site)) (kinds : Array String) (complete : Bool) (g : G) (idx : Nat) (ls : List Line) : StateM Search (Option G) := do
  let st ← get
  if st.budget = 0 then return none
  set { st with budget := st.budget - 1, deepest := max st.deepest idx }
  match ls with
  | [] => return (if complete then finishAll A forbid g 0 kinds.size else some g)
  | .adopt n :: rest =>
    for i in candidates g kinds do
      for g1 in silentClosure A forbid g i 40 do
        match g1.insts[i]? with
        | some (.adopt fd _ _) =>
          if fd = n then
            match gstep A g1 (.step i 0 true) with
            | some g2 =>
              match ← search A forbid kinds complete g2 (idx+1) rest with
              | some r => return some r
              | none => pure ()
            | none => pure ()
        | _ => pure ()
    return none
  | .ev (.npRel n) :: rest =>
    for i in candidates g kinds do
      for g1 in silentClosure A forbid g i 40 do
        match g1.insts[i]? with
        | some (.rel fd _ _) =>
          if fd = n then
            match gstep A g1 (.step i 0 true) with
            | some g2 =>
              match ← search A forbid kinds complete g2 (idx+1) rest with
              | some r => return some r
              | none => pure ()
            | none => pure ()
        | _ => pure ()
    return none
  | .ev (.envOpen n) :: rest =>
    match gstep noAssumptions g (.envOpen n) with
    | some g' => search A forbid kinds complete g' (idx+1) rest
    | none => return none
  | .ev (.envClose n) :: rest =>
    match gstep noAssumptions g (.envClose n) with
    | some g' => search A forbid kinds complete g' (idx+1) rest
    | none => return none
  | .ev (.npOpen n) :: rest =>
    for i in candidates g kinds do
      for g1 in silentClosure A forbid g i 40 do
        match g1.insts[i]? with
        | some (.opn _ _) =>
          match gstep noAssumptions g1 (.step i n true) with
          | some g2 =>
            match ← search A forbid kinds complete g2 (idx+1) rest with
            | some r => return some r
            | none => pure ()
          | none => pure ()
        | _ => pure ()
    return none
  | .ev (.npClose n) :: rest =>
    for i in candidates g kinds do
      for g1 in silentClosure A forbid g i 40 do
        match g1.insts[i]? with
        | some (.cls fd _ _ _) =>
          if fd = n then
            match gstep noAssumptions g1 (.step i 0 true) with
            | some g2 =>
              match ← search A forbid kinds complete g2 (idx+1) rest with
              | some r => return some r
              | none => pure ()
            | none => pure ()
        | _ => pure ()
    return none

def describeRun (kinds : List Kind) (g : G) : String × String :=
  let evs := g.trace.reverse
  let sites := evs.filterMap fun e => match e with
    | .npClose _ _ _ s _ => some s
    | .npAt _ s => some s
    | _ => none
  let siteNames := (Site.all.filter fun s => sites.contains s).map Site.name
  let paths := (List.range kinds.length).map fun i =>
    let cs := evs.filterMap fun e => match e with
      | .npChoice j l b => if j = i then some (brName l ++ (if b then "+" else "-")) else none
      | _ => none
    kindName (kinds[i]!) ++ ":" ++ ",".intercalate cs
  (",".intercalate siteNames, "|".intercalate paths)

def judge (s : Scenario) : String :=
  let envOpen : Fd → Bool := fun n => s.base.contains n
  let obs := s.obs
  let mon := monitor (Mon.init envOpen) obs
  let owned := firstBad mon.2
  let once := if onceOK obs then "ok" else "bad"
  let left := leftOpen envOpen obs
  let leftS := if left.isEmpty then "-" else ",".intercalate (left.map toString)
  let g0 : G := { (G.init envOpen) with insts := s.kinds.map Kind.prog }
  let keys : Array String := (s.kinds.map fun k => reprStr k).toArray
  -- a sequence the specification rejects needs no explanation by the model (and the search for one is the expensive case)
  if owned != "ok" || once != "ok" then
    s!"R {s.name} owned={owned} once={once} left={leftS} conform=skipped sites=- paths=-"
  else
  -- descriptors left at the end of a complete scenario: the specification has already rejected the run; a model run
  -- could explain it only through the branches assumed away for `C15_none_left`, so the search is kept short
  let budget := if left.isEmpty || !s.complete then 200000 else 20000
  let (r1, st1) := (search (s.assume true) s.forbid keys s.complete g0 0 s.lines).run { budget := budget, deepest := 0 }
  let (r, st) := match r1 with
    | some _ => (r1, st1)
    | none => if s.soft.isEmpty then (r1, st1) else
        (search (s.assume false) s.forbid keys s.complete g0 0 s.lines).run { budget := budget, deepest := 0 }
  let (conf, sites, paths) := match r with
    | some g => let d := describeRun s.kinds g; ("ok", d.1, d.2)
    | none => (if st.budget = 0 then "BUDGET" else s!"FAIL@{st.deepest}", "-", "-")
  s!"R {s.name} owned={owned} once={once} left={leftS} conform={conf} sites={if sites.isEmpty then "-" else sites} paths={paths}"

def parseLine (cur : Scenario) (ws : List String) : Scenario :=
  let num (s : String) := s.toNat?.getD 0
  match ws with
  | "K" :: rest => match parseKind rest with
    | some k => { cur with kinds := cur.kinds ++ [k] }
    | none => cur
  | "B" :: rest => { cur with base := rest.map num }
  | ["A", l, v] => match allBr.find? (fun b => brName b == l) with
    | some b => { cur with fixed := cur.fixed ++ [(b, v == "+")] }
    | none => cur
  | ["I", k, st] => match Site.all.find? (fun x => x.name == st) with
    | some x => { cur with forbid := cur.forbid ++ [(num k, x)] }
    | none => cur
  | ["a", l, v] => match allBr.find? (fun b => brName b == l) with
    | some b => { cur with soft := cur.soft ++ [(b, v == "+")] }
    | none => cur
  | ["e", "o", n] => { cur with lines := cur.lines ++ [.ev (.envOpen (num n))] }
  | ["e", "c", n] => { cur with lines := cur.lines ++ [.ev (.envClose (num n))] }
  | ["n", "o", n] => { cur with lines := cur.lines ++ [.ev (.npOpen (num n))] }
  | ["n", "c", n] => { cur with lines := cur.lines ++ [.ev (.npClose (num n))] }
  | ["n", "r", n] => { cur with lines := cur.lines ++ [.ev (.npRel (num n))] }
  | ["n", "a", n] => { cur with lines := cur.lines ++ [.adopt (num n)] }
  | _ => cur

partial def loop (h : IO.FS.Stream) (out : IO.FS.Stream) (cur : Option Scenario) : IO Unit := do
  let line ← h.getLine
  if line.isEmpty then return ()
  let ws := ((line.replace "\n" "").splitOn " ").filter (· ≠ "")
  match ws, cur with
  | "S" :: name :: _, _ => loop h out (some { name := name })
  | "E" :: rest, some s =>
    let s := { s with complete := rest != ["open"] }
    out.putStrLn (judge s); out.flush
    loop h out none
  | _, some s => loop h out (some (parseLine s ws))
  | _, none => loop h out none

def main : IO Unit := do
  loop (← IO.getStdin) (← IO.getStdout) none

end Driver.Fd
