import Netpoll.ManagerSpec
/-!
Line-protocol driver for the poller-pool model (C18).

`npdriver mgr`            : reads the op lines written by go/inpkg/mgrh.go on stdin, replays them on
                            `Netpoll.Manager` and prints one reply line per op in the harness's format.
`npdriver mgrspec ops impl`: the spec oracle – judges the implementation's reply lines with the
                            predicates of `Netpoll.ManagerSpec` (OK / X = outside the contract /
                            IMPL-SPEC-FAIL reason).

A scheduled step `step <actor> <site>` is the source-level schedule point; some sites cover two model
steps (`rrebal` = rebal1;rebal2, `rradd` = balEnter;balSize) and a nil `m.balance` panics at the call,
before any site (so `load`/`cas2` are followed by `balEnter` when the balancer is nil).  The index
`fastrand.Intn` drew becomes known when the actor returns, so for the random balancer the model's
`balEnter r` is applied at the actor's `lbidx` step, which carries `r=`.
-/
open Netpoll.Manager

namespace Driver.Mgr

def toNat! (s : String) : Nat := s.toNat?.getD 0

def joinNats (l : List Nat) : String := ",".intercalate (l.map toString)

def insertSorted (x : Nat) : List Nat → List Nat
  | [] => [x]
  | y :: ys => if x ≤ y then x :: y :: ys else y :: insertSorted x ys
def sortNats (l : List Nat) : List Nat := l.foldr insertSorted []

def dumpBal : Option Bal → String
  | none => "nil"
  | some b => (match b.kind with | .rr => "rr" | .rand => "rand") ++ ":" ++ joinNats b.polls ++ ":" ++
      toString b.size ++ ":" ++ (match b.kind with | .rr => toString b.acc | .rand => "0")

def dump (s : S) : String :=
  s!"st={s.status} nl={s.numLoops} polls={joinNats s.polls} bal={dumpBal s.bal} live={s.opened - s.closed.length} closed={joinNats (sortNats s.closed)}"

structure W where
  s : Option S := none
  dead : Bool := false
  ixOwner : List Nat := []     -- actor ids, parallel to s.ix
  pendRnd : List Nat := []     -- actors parked at lbidx whose `balEnter r` is applied when r is known
  mark : Nat := 0              -- |rets| at the start of the phase
  markPanics : Nat := 0

abbrev M := StateM W

def siteOfPc : RPc → String
  | .load => "rload" | .close => "rclose" | .open => "ropen" | .go => "rgo" | .store => "rstore"
  | .rebal1 => "rrebal" | .rebal2 => "rrebal2" | .eclose => "mclose" | .eclear => "mclear"

def siteOrder : List String :=
  ["load", "cas", "cas2", "rload", "rclose", "ropen", "rgo", "rstore", "rrebal", "mclose", "mclear", "rradd", "rndsize", "lbidx"]

def pcs (w : W) (s : S) : String :=
  let balSite := match s.bal with
    | some b => (match b.kind with | .rr => "rradd" | .rand => "rndsize")
    | none => "nilbal"
  let base : List (String × Nat) :=
    [("load", s.cLoad), ("cas", s.cCas), ("cas2", s.cCas2), (balSite, s.cBal - w.pendRnd.length),
     ("lbidx", s.ix.length + w.pendRnd.length), ("tk", s.tk.length)] ++ s.runners.map fun r => (siteOfPc r.pc, 1)
  let cnt (name : String) : Nat := (base.filter fun p => p.1 == name).foldl (fun a p => a + p.2) 0
  let names := siteOrder ++ ["rrebal2", "nilbal", "tk"]
  ",".intercalate ((names.filter fun n => cnt n > 0).map fun n => s!"{n}={cnt n}")

def idxOf (l : List Nat) (x : Nat) : Int :=
  match l.findIdx? (· == x) with
  | some i => i
  | none => -1

/-- event of a model transition: a new return, a new panic, or nothing -/
def eventOf (s s' : S) : String :=
  if s'.panics > s.panics then "panic"
  else if s'.rets.length > s.rets.length then
    match s'.rets.getLast? with
    | some id => s!"ret {id}:{idxOf s'.polls id}"
    | none => "-"
  else "-"

def stepAll (s : S) : List Act → Option S
  | [] => some s
  | a :: as => match step s a with
    | none => none
    | some s' => stepAll s' as

/-- a picker that has just reached `m.balance.Pick()` with a nil balancer panics at the call -/
def autoNil (s : S) : S :=
  if s.cBal > 0 && s.bal.isNone then (step s (.balEnter 0)).getD s else s

def getField (toks : List String) (pfx : String) : Option String :=
  (toks.find? (·.startsWith pfx)).map fun t => (t.drop pfx.length).toString

def siteStep (w : W) (s : S) (actor : Nat) (site : String) (fail : Bool) (r : Option Nat) : Option (S × W) :=
  let runnerAt (want : String) : Bool := match s.runners[0]? with
    | some rr => siteOfPc rr.pc == want
    | none => false
  match site with
  | "load" => (step s .load).map fun s' => (autoNil s', w)
  | "cas" => (step s .cas).map fun s' => (s', w)
  | "cas2" => (step s .cas2).map fun s' => (autoNil s', w)
  | "rrebal" =>
    if !runnerAt site then none else
    match step s (.run 0 false) with
    | none => none
    | some s1 => if s1.runners.length = 0 then some (s1, w) else (step s1 (.run 0 false)).map fun s2 => (s2, w)
  | "rload" | "rclose" | "ropen" | "rgo" | "rstore" | "mclose" | "mclear" =>
    if !runnerAt site then none else (step s (.run 0 fail)).map fun s' => (s', w)
  | "rradd" =>
    match s.bal with
    | some b =>
      if b.kind != .rr then none else
      match step s (.balEnter 0) with
      | none => none
      | some s1 =>
        match step s1 (.balSize (s1.tk.length - 1)) with
        | none => none
        | some s2 => some (s2, if s2.ix.length > s.ix.length then { w with ixOwner := w.ixOwner ++ [actor] } else w)
    | none => none
  | "rndsize" =>
    match s.bal with
    | some b =>
      if b.kind != .rand || s.cBal ≤ w.pendRnd.length then none
      else if b.size = 0 then (step s (.balEnter 0)).map fun s' => (s', w)
      else some (s, { w with pendRnd := w.pendRnd ++ [actor] })
    | none => none
  | "lbidx" =>
    if w.pendRnd.contains actor then
      match step s (.balEnter (r.getD 0)) with
      | none => none
      | some s1 => (step s1 (.balIdx (s1.ix.length - 1))).map fun s2 => (s2, { w with pendRnd := w.pendRnd.erase actor })
    else
      match w.ixOwner.findIdx? (· == actor) with
      | none => none
      | some j => (step s (.balIdx j)).map fun s' => (s', { w with ixOwner := w.ixOwner.eraseIdx j })
  | _ => none

def retsLine (s : S) (rets : List Nat) : String :=
  let pairs := rets.map fun id => (id, idxOf s.polls id)
  let sorted := sortNats (pairs.map fun p => p.1)   -- ids are distinct slots, so sorting by id sorts the pairs
  ",".intercalate (sorted.map fun id => s!"{id}:{idxOf s.polls id}")

def endLine (s : S) (panics : Nat) (rets : List Nat) : String :=
  s!"end panics={panics} rets={retsLine s rets} alive={joinNats (sortNats s.alive)} ## {dump s}"

def refuse : M String := do
  modify fun w => { w with dead := true }
  return "model-refuses"

/-- `pend I,J,.. <op>`: `<op>` runs while the loops of the pollers in slots I,J,.. are busy in a callback and have an
unconsumed `Trigger()`.  The pool's behaviour must not depend on it: the model (and the spec oracle) read the line as `<op>`. -/
def stripPend : List String → List String
  | "pend" :: _ :: rest => rest
  | t => t

def stepLine (line : String) : M String := do
  let w ← get
  let toks := stripPend ((line.splitOn " ").filter (· ≠ ""))
  match toks with
  | "scn" :: _ => set ({} : W); return "scn"
  | _ =>
  if w.dead then return "dead" else
  match toks, w.s with
  | ["new", n], _ =>
    set { w with s := some (init (toNat! n)), ixOwner := [], pendRnd := [] }
    return "ok ## " ++ dump (init (toNat! n))
  | _, none => return "nomgr"
  | ["setn", n], some s =>
    match step s (.setNumLoops (toNat! n)) with
    | none => refuse
    | some s' =>
      set { w with s := some s' }
      return (if toNat! n < 1 then "err" else "ok") ++ " ## " ++ dump s'
  | ["setlb", k], some s =>
    match step s (.setLB (toNat! k)) with
    | none => refuse
    | some s' => set { w with s := some s' }; return "ok ## " ++ dump s'
  | ["setacc", c], some s =>
    match s.bal with
    | some b =>
      if b.kind == .rr then
        let s' := { s with bal := some { b with acc := toNat! c } }
        set { w with s := some s' }; return "ok ## " ++ dump s'
      else return "norr ## " ++ dump s
    | none => return "norr ## " ++ dump s
  | "pick" :: rest, some s =>
    let r := ((getField rest "r=").map toNat!).getD 0
    if s.status = 1 && s.runners.length = 0 && s.cCas2 = 0 then
      set { w with dead := true }; return "hang"    -- nobody will ever store status=2: Pick spins for ever
    else
    match soloPick s r with
    | none => refuse
    | some s' => set { w with s := some s' }; return eventOf s s' ++ " ## " ++ dump s'
  | "cphase" :: k :: _ :: rest, some s =>
    let rs := match getField rest "r=" with
      | some l => (l.splitOn ",").filter (· ≠ "") |>.map toNat!
      | none => []
    let rec go (i : Nat) (rs : List Nat) (s : S) : Option S :=
      match i with
      | 0 => some s
      | i + 1 =>
        if s.status = 1 && s.runners.length = 0 && s.cCas2 = 0 then none else
        match soloPick s (rs.headD 0) with
        | none => none
        | some s' => go i rs.tail s'
    match go (toNat! k) rs s with
    | none => set { w with dead := true }; return "hang"
    | some s' =>
      set { w with s := some s' }
      return endLine s' (s'.panics - s.panics) (s'.rets.drop s.rets.length)
  | "iphase" :: k :: _ :: _ :: rest, some s =>
    -- `iphase K NI SEED`: K callers, NI of them through netpoll.Initialize() = one Pick each whose result is dropped
    -- (Tie.Manager.entry_points); the model runs K picks.  Which of the K results were dropped is not observable, so the
    -- `rets=` field of this line is not compared (lib/mgrrun.py); the dump – slice, balancer, round-robin counter advanced
    -- by K, census, closed set – is.
    let rs := match getField rest "r=" with
      | some l => (l.splitOn ",").filter (· ≠ "") |>.map toNat!
      | none => []
    let rec goI (i : Nat) (rs : List Nat) (s : S) : Option S :=
      match i with
      | 0 => some s
      | i + 1 =>
        if s.status = 1 && s.runners.length = 0 && s.cCas2 = 0 then none else
        match soloPick s (rs.headD 0) with
        | none => none
        | some s' => goI i rs.tail s'
    match goI (toNat! k) rs s with
    | none => set { w with dead := true }; return "hang"
    | some s' =>
      set { w with s := some s' }
      return endLine s' (s'.panics - s.panics) (s'.rets.drop s.rets.length)
  | ["reset"], some s =>
    match resetSeq s with
    | none => set { w with dead := true }; return "panic"
    | some s' => set { w with s := some s' }; return "ok ## " ++ dump s'
  | ["close"], some s =>
    set { w with s := some (closeAll s) }; return "ok ## " ++ dump (closeAll s)
  | ["spawn", k], some s =>
    match stepAll s (List.replicate (toNat! k) .spawn) with
    | none => refuse
    | some s' =>
      let w' := { w with s := some s', mark := s'.rets.length, markPanics := s'.panics, ixOwner := [], pendRnd := [] }
      set w'
      return s!"spawned pcs={pcs w' s'} ## {dump s'}"
  | "step" :: actor :: site :: rest, some s =>
    let fail := rest.contains "f"
    let r := (getField rest "r=").map toNat!
    match siteStep w s (toNat! actor) site fail r with
    | none => refuse
    | some (s', w') =>
      let w'' := { w' with s := some s' }
      set w''
      return s!"{eventOf s s'} pcs={pcs w'' s'} ## {dump s'}"
  | ["endphase"], some s =>
    return endLine s (s.panics - w.markPanics) (s.rets.drop w.mark)
  | ["livelock"], some s =>
    if s.status = 1 && s.runners.length = 0 && s.cCas2 = 0 && s.inflight > 0 then
      set { w with dead := true }; return "livelock"
    else return "model-not-livelocked"
  | _, _ => return "badop"

partial def loop (h : IO.FS.Stream) (out : IO.FS.Stream) (w : W) : IO Unit := do
  let line ← h.getLine
  if line.isEmpty then return
  let l := (line.dropEndWhile (· == '\n')).toString
  if l.isEmpty || l.startsWith "#" then loop h out w else
  let (r, w') := (stepLine l).run w
  out.putStrLn r
  loop h out w'

def main : IO Unit := do
  loop (← IO.getStdin) (← IO.getStdout) {}

/-! ## spec oracle over the implementation's replies -/

def parseNats (s : String) : List Nat := ((s.splitOn ",").filter (· ≠ "")).map toNat!

def parseBal (s : String) : Option Bal :=
  match s.splitOn ":" with
  | [k, ps, sz, acc] =>
    some { kind := if k == "rand" then .rand else .rr, polls := parseNats ps, size := toNat! sz, acc := toNat! acc }
  | _ => none

/-- parse `st=.. nl=.. polls=.. bal=.. live=.. closed=..` -/
def parseObs (d : String) : Option Obs :=
  let toks := (d.splitOn " ").filter (· ≠ "")
  match getField toks "st=", getField toks "nl=", getField toks "polls=", getField toks "bal=",
        getField toks "live=", getField toks "closed=" with
  | some st, some nl, some ps, some b, some lv, some cl =>
    if ps.contains 'n' then none else   -- a nil entry in the slice
    some { status := toNat! st, numLoops := toNat! nl, polls := parseNats ps, bal := parseBal b,
           live := (lv.toInt?.getD (-1)).toNat, closed := parseNats cl }
  | _, _, _, _, _, _ => none

def parsePairs (s : String) : List (Nat × Int) :=
  ((s.splitOn ",").filter (· ≠ "")).map fun p =>
    match p.splitOn ":" with
    | [a, b] => (toNat! a, b.toInt?.getD (-1))
    | _ => (0, -1)

structure SW where
  inL : Bool := false          -- a manager exists: the clause "no poller is left behind" applies (it has no other precondition)
  parked : Bool := false       -- some goroutine is still inside Pick (parked at a schedule point) after the last step
  inC : Bool := false          -- the scenario so far is inside the contract
  hist : List Nat := []        -- slot indices of consecutive sequential round-robin picks since the last reconfiguration
  cfg : Option Nat := none     -- the loop count configured last while no Pick was in flight (newManager / a successful SetNumLoops)
  inPhase : Bool := false      -- goroutines are inside Pick (between `spawn` and `endphase`)

def specLine (op impl : String) : StateM SW String := do
  let w ← get
  let otoks := stripPend ((op.splitOn " ").filter (· ≠ ""))
  let (ev, d) := match impl.splitOn " ## " with
    | [e, d] => (e, d)
    | _ => (impl, "")
  let etoks := (ev.splitOn " ").filter (· ≠ "")
  -- contract tracking
  let inC := match otoks with
    | ["scn", _] => false
    | ["new", n] => decide (toNat! n ≥ 1)
    | ["setacc", c] => w.inC && decide (toNat! c < 4611686018427387904)
    | ["close"] => false
    | "step" :: _ :: _ :: rest => w.inC && !rest.contains "f"
    | _ => w.inC
  let hist := match otoks with
    | "pick" :: _ => w.hist
    | "step" :: _ => w.hist
    | _ => []
  let inPhase := match otoks with
    | "spawn" :: _ => true
    | "endphase" :: _ => false
    | ["scn", _] => false
    | _ => w.inPhase
  let cfg := match otoks with
    | ["scn", _] => none
    | ["new", n] => some (toNat! n)
    | ["setn", n] => if inPhase then none else if etoks == ["ok"] then some (toNat! n) else w.cfg
    | _ => w.cfg
  let inL := match otoks with
    | ["scn", _] => false
    | ["new", _] => true
    | _ => w.inL
  let parked := match otoks with
    | "step" :: _ | "spawn" :: _ => (getField etoks "pcs=").getD "" != ""
    | _ => w.parked
  let w := { w with cfg := cfg, inPhase := inPhase, inL := inL, parked := parked }
  set { w with inC := inC, hist := hist }
  -- "no poller is left behind" (Obs.noStray, theorem C18_none_left_behind): whenever nobody is inside Pick, inside
  -- the contract or not – in particular after an injected openPoll failure (the failing Run must have closed the
  -- pollers it had opened, fix of F2) and after manager.Close
  let calm := match otoks with
    | "step" :: _ | "spawn" :: _ | ["scn", _] => false
    | "endphase" :: _ => !parked
    | _ => true
  let stray := inL && calm && ev != "hang" && ev != "livelock" && ev != "toolong" && ev != "dead" &&
    (match parseObs d with
     | some o => !o.noStray
     | none => false)
  if stray then return "IMPL-SPEC-FAIL poller left behind (open pollers are not exactly the slice): " ++ d else
  if !inC then return "X" else
  if ev == "hang" || ev == "livelock" || ev == "toolong" then return "IMPL-SPEC-FAIL " ++ ev else
  match parseObs d with
  | none => return if d.isEmpty then "X" else "IMPL-SPEC-FAIL unreadable state (nil poller in the slice?)"
  | some o =>
    -- any moment with status = initialised and nobody in flight: the pool is sized
    let quiescent := match otoks with
      | "step" :: _ => false
      | "spawn" :: _ => false
      | _ => true
    if quiescent && o.status == 2 && !o.sized then return "IMPL-SPEC-FAIL pool not sized: " ++ d else
    -- "after the configured loop count is changed while no Pick is in flight, the next Picks bring the pool to exactly that many"
    if quiescent && !inPhase && o.status == 2 && cfg.isSome && cfg != some o.polls.length then
      return s!"IMPL-SPEC-FAIL pool runs {o.polls.length} loops, configured {cfg.getD 0}: " ++ d else
    match etoks with
    | ["panic"] => return "IMPL-SPEC-FAIL Pick panicked"
    | ["retnil"] => return "IMPL-SPEC-FAIL Pick returned nil"
    | "panic" :: _ => return "IMPL-SPEC-FAIL Pick panicked"
    | "ret" :: p :: _ =>
      match parsePairs p with
      | [(id, idx)] =>
        if !o.retOK id idx then return "IMPL-SPEC-FAIL returned poller not an open member of the slice: " ++ ev else
        match otoks, o.bal with
        | "pick" :: _, some b =>
          if b.kind == .rr then
            let h := hist ++ [idx.toNat]
            set { w with inC := inC, hist := h }
            if evenCounts o.polls.length h then return "OK" else return "IMPL-SPEC-FAIL round-robin uneven: " ++ joinNats h
          else return "OK"
        | _, _ => return "OK"
      | _ => return "IMPL-SPEC-FAIL unreadable return"
    | "end" :: rest =>
      let panics := ((getField rest "panics=").map toNat!).getD 1
      let rets := parsePairs ((getField rest "rets=").getD "")
      let alive := parseNats ((getField rest "alive=").getD "")
      match otoks with
      | "iphase" :: k :: ni :: _ =>
        if phaseInitOK o panics (toNat! k - toNat! ni) rets alive then return "OK"
        else return "IMPL-SPEC-FAIL phase with Initialize() callers: " ++ impl
      | _ =>
      if phaseOK o panics rets alive then return "OK" else return "IMPL-SPEC-FAIL phase: " ++ impl
    | _ => return "OK"

partial def specLoop (ops impl : IO.FS.Stream) (out : IO.FS.Stream) (w : SW) : IO Unit := do
  let o ← ops.getLine
  if o.isEmpty then return
  let i ← impl.getLine
  let strip (s : String) : String := (s.dropEndWhile (· == '\n')).toString
  let (r, w') := (specLine (strip o) (strip i)).run w
  out.putStrLn r
  specLoop ops impl out w'

def specMain (opsPath implPath : String) : IO Unit := do
  let ops ← IO.FS.Handle.mk opsPath .read
  let impl ← IO.FS.Handle.mk implPath .read
  specLoop (IO.FS.Stream.ofHandle ops) (IO.FS.Stream.ofHandle impl) (← IO.getStdout) {}

end Driver.Mgr
