import Netpoll.Buf.Step
import Driver.Lb
/-! Spec oracle for C01: replays the op lines on the abstract FIFO queue (`Netpoll.Buf.Spec`) and judges
(a) the implementation's reply lines and (b) the model (results and the abstraction relation
`abs model = spec`), op by op, for as long as the sequence stays inside `Contract`. -/
open Netpoll.Buf
namespace Driver.LbSpec
open Driver.Lb

structure SW where
  cfg : Cfg := {}
  model : Std.HashMap Nat (LB UInt8) := {}
  spec : Std.HashMap Nat (Q UInt8) := {}
  inC : Bool := true        -- all ops of this sequence so far were inside the contract
  dead : Bool := false      -- model panicked
  seqNo : String := ""

/-- first token group of an implementation reply (before " ## ") and its L= / M= fields -/
def splitReply (s : String) : String × List (Nat × Nat × Nat) :=
  match s.splitOn " ## " with
  | [r, d] =>
    let bufs := (d.splitOn " | ").filterMap fun b =>
      let toks := (b.splitOn " ").filter (· ≠ "")
      match toks with
      | id :: l :: m :: _ =>
        some ((id.drop 1).toString.toNat?.getD 0, (l.drop 2).toString.toNat?.getD 0, (m.drop 2).toString.toNat?.getD 0)
      | _ => none
    (r, bufs)
  | _ => (s, [])

def checkExpect (e : Expect UInt8) (got : String) : Bool :=
  match e with
  | .any => got.startsWith "ok"
  | .exact r => showRes r == got
  | .prefixVecs bs =>
    -- got = "ok v:<k>:<l1>.<h1>,<l2>.<h2>,..."
    match got.splitOn ":" with
    | ["ok v", _, vs] =>
      let parts := (vs.splitOn ",").filter (· ≠ "")
      let rec go (ps : List String) (rest : List UInt8) : Bool :=
        match ps with
        | [] => true
        | p :: ps =>
          match p.splitOn "." with
          | [l, h] =>
            let l := l.toNat?.getD 0
            l ≤ rest.length && toString (fnv (rest.take l)) == h && go ps (rest.drop l)
          | _ => false
      go parts bs
    | _ => false

abbrev M := StateM SW

def lenOK (q : Q UInt8) (id : Nat) (dump : List (Nat × Nat × Nat)) : Bool :=
  match dump.find? (·.1 == id) with
  | some (_, l, m) => l == q.len && m == q.mallocLen
  | none => true

/-- judge one single-buffer op.  Returns the verdict line. -/
def judge1 (id : Nat) (op : Op UInt8) (impl : String) : M String := do
  let w ← get
  match w.spec.get? id, w.model.get? id with
  | some q, some b =>
    let inC := w.inC && Contract q op
    let (q', e) := specStep q op
    -- model side
    let mres := if w.dead then none else b.step w.cfg op
    let (ir, idump) := splitReply impl
    let mut verdict := ""
    match mres with
    | none =>
      set { w with dead := true, inC := inC, spec := w.spec.insert id q' }
      if inC then
        verdict := (if w.dead then "" else "MODEL-PANIC-IN-CONTRACT ") ++
          (if checkExpect e ir && lenOK q' id idump then "IMPL-OK" else s!"IMPL-SPEC-FAIL want={repr e |>.pretty 200} got={ir}")
      else verdict := "X"
    | some (b', r) =>
      set { w with model := w.model.insert id b', spec := w.spec.insert id q', inC := inC }
      if inC then
        let mOK := checkExpect e (showRes r) && b'.abs == q'.items && b'.length == q'.len && b'.mallocSize == q'.mallocLen
        let iOK := checkExpect e ir && lenOK q' id idump
        verdict := (if mOK then "MODEL-OK" else "MODEL-SPEC-FAIL") ++ " " ++
          (if iOK then "IMPL-OK" else s!"IMPL-SPEC-FAIL got={ir}")
      else verdict := "X"
    return verdict
  | _, _ => return "nobuf"

def step (line impl : String) : M String := do
  let w ← get
  let toks := (line.splitOn " ").filter (· ≠ "")
  let n! := toNat!
  let i! := toInt!
  match toks with
  | ["seq", k, cap] =>
    set ({ cfg := { w.cfg with linkBufferCap := n! cap }, seqNo := k } : SW)
    return "seq"
  | ["new", id, size] =>
    set { w with model := w.model.insert (n! id) (newLB w.cfg (i! size).toNat), spec := w.spec.insert (n! id) {} }
    return "new"
  | ["mal", id, n, seed] =>
    let d := genBytes (n! seed) (i! n).toNat
    judge1 (n! id) (.malloc (i! n) d) impl
  | ["wbin", id, n, seed, pcap] =>
    let p := genBytes (n! seed) (n! n)
    judge1 (n! id) (.writeBinary p (n! pcap)) impl
  | ["wstr", id, n, seed] =>
    let p := genBytes (n! seed) (n! n)
    judge1 (n! id) (.writeBinary p (n! n)) impl
  | ["wbyte", id, v] =>
    judge1 (n! id) (.writeByte (UInt8.ofNat (n! v))) impl
  | ["wdir", id, n, seed, ecap, remain] =>
    let p := genBytes (n! seed) (n! n)
    judge1 (n! id) (.writeDirect p (n! ecap) (i! remain)) impl
  | ["ack", id, n] => judge1 (n! id) (.mallocAck (i! n)) impl
  | ["flush", id] => judge1 (n! id) .flush impl
  | ["next", id, n] => judge1 (n! id) (.next (i! n)) impl
  | ["peek", id, n] => judge1 (n! id) (.peek (i! n)) impl
  | ["skip", id, n] => judge1 (n! id) (.skip (i! n)) impl
  | ["rbin", id, n] => judge1 (n! id) (.readBinary (i! n)) impl
  | ["rstr", id, n] => judge1 (n! id) (.readBinary (i! n)) impl
  | ["rbyte", id] => judge1 (n! id) .readByte impl
  | ["until", id, c] =>
    judge1 (n! id) (.until (UInt8.ofNat (n! c))) impl
  | ["read", id, n] => judge1 (n! id) (.readCopy (n! n)) impl
  | ["rel", id] => judge1 (n! id) .release impl
  | ["close", id] => judge1 (n! id) .close impl
  | ["len", id] => judge1 (n! id) .len impl
  | ["mlen", id] => judge1 (n! id) .mallocLen impl
  | ["bytes", id] => judge1 (n! id) .bytes impl
  | ["getbytes", id, k] => judge1 (n! id) (.getBytes (n! k)) impl
  | ["idx", id, c, skip] =>
    judge1 (n! id) (.indexByte (UInt8.ofNat (n! c)) (n! skip)) impl
  | ["cmax", id] => judge1 (n! id) .calcMaxSize impl
  | ["rtail", id, ms] =>
    judge1 (n! id) (.resetTail (n! ms)) impl
  | ["book", id, bs, ms, n, seed] =>
    -- the implementation reports how much was booked: "ok k:<l>:<length>"
    match w.spec.get? (n! id), w.model.get? (n! id) with
    | some q, some b =>
      let inC := w.inC && Contract q (.bookAck (n! bs) (n! ms) [])
      let (ir, _) := splitReply impl
      let (il, ilen) : Nat × Nat := match ir.splitOn ":" with
        | ["ok k", l, len] => (l.toNat?.getD 0, len.toNat?.getD 0)
        | _ => (0, 0)
      let mres : Option (LB UInt8 × Nat) := if w.dead then none else
        match b.step w.cfg (.bookAck (n! bs) (n! ms) (genBytes (n! seed) (n! n))) with
        | some (b, .num l) => some (b, l.toNat)
        | _ => none
      -- spec effect with the implementation's booked length
      let qi := q.received (genBytes (n! seed) (min (n! n) il))
      match mres with
      | none =>
        set { w with dead := true, inC := inC, spec := w.spec.insert (n! id) qi }
        return if inC then "MODEL-PANIC-IN-CONTRACT" else "X"
      | some (b', l) =>
        set { w with model := w.model.insert (n! id) b', spec := w.spec.insert (n! id) qi, inC := inC }
        if inC then
          -- booked length: 1 ≤ l ≤ bookSize unless maxSize = 0; length reported = spec Len
          let iOK := ir.startsWith "ok k:" && il ≤ n! bs && (il ≥ 1 || n! ms == 0 || n! bs == 0) && ilen == qi.len
          let mOK := l == il && b'.abs == qi.items && b'.length == qi.len
          return (if mOK then "MODEL-OK" else "MODEL-SPEC-FAIL") ++ " " ++ (if iOK then "IMPL-OK" else s!"IMPL-SPEC-FAIL got={ir}")
        else return "X"
    | _, _ => return "nobuf"
  | ["slice", id, n, nid] =>
    match w.spec.get? (n! id), w.model.get? (n! id) with
    | some q, some b =>
      let inC := w.inC && sliceContract q
      let (q', qc, e) := specSlice q (i! n)
      let (ir, idump) := splitReply impl
      let spec := w.spec.insert (n! id) q'
      let spec := match qc with | some c => spec.insert (n! nid) c | none => spec
      let mres := if w.dead then none else b.slice w.cfg (i! n)
      match mres with
      | none =>
        set { w with dead := true, inC := inC, spec := spec }
        return if inC then "MODEL-PANIC-IN-CONTRACT" else "X"
      | some (b', r, child) =>
        let model := w.model.insert (n! id) b'
        let model := match child with | some c => model.insert (n! nid) c | none => model
        set { w with model := model, spec := spec, inC := inC }
        if inC then
          let cOK := match child, qc with
            | some c, some qc => c.abs == qc.items && c.length == qc.len
            | none, none => true
            | _, _ => false
          let mOK := checkExpect e (showRes r) && b'.abs == q'.items && b'.length == q'.len && cOK
          let iOK := checkExpect e ir && lenOK q' (n! id) idump &&
            (match qc with | some qc => lenOK qc (n! nid) idump | none => true)
          return (if mOK then "MODEL-OK" else "MODEL-SPEC-FAIL") ++ " " ++ (if iOK then "IMPL-OK" else s!"IMPL-SPEC-FAIL got={ir}")
        else return "X"
    | _, _ => return "nobuf"
  | ["app", id, did] =>
    match w.spec.get? (n! id), w.spec.get? (n! did), w.model.get? (n! id), w.model.get? (n! did) with
    | some q, some qd, some b, some d =>
      let inC := w.inC && appendContract q qd && n! id != n! did
      let (q', qd') := specAppend q qd
      let (ir, idump) := splitReply impl
      let spec := (w.spec.insert (n! id) q').insert (n! did) qd'
      let mres := if w.dead then none else b.writeBuffer d
      match mres with
      | none =>
        set { w with dead := true, inC := inC, spec := spec }
        return if inC then "MODEL-PANIC-IN-CONTRACT" else "X"
      | some (b', d', r) =>
        set { w with model := (w.model.insert (n! id) b').insert (n! did) d', spec := spec, inC := inC }
        if inC then
          let mOK := showRes r == "ok" && b'.abs == q'.items && b'.length == q'.len && b'.mallocSize == q'.mallocLen
          let iOK := ir == "ok" && lenOK q' (n! id) idump
          return (if mOK then "MODEL-OK" else "MODEL-SPEC-FAIL") ++ " " ++ (if iOK then "IMPL-OK" else s!"IMPL-SPEC-FAIL got={ir}")
        else return "X"
    | _, _, _, _ => return "nobuf"
  | _ => return "bad-op"

partial def loop (ops impl : IO.FS.Stream) (out : IO.FS.Stream) (w : SW) : IO Unit := do
  let line ← ops.getLine
  if line.isEmpty then return ()
  let line := line.trimAscii.toString
  if line.isEmpty || line.startsWith "#" then loop ops impl out w
  else
    let il := (← impl.getLine).trimAscii.toString
    let (r, w') := (step line il).run w
    out.putStrLn r
    loop ops impl out w'

def main (opsPath implPath : String) : IO Unit := do
  let ops ← IO.FS.Handle.mk opsPath .read
  let impl ← IO.FS.Handle.mk implPath .read
  loop (IO.FS.Stream.ofHandle ops) (IO.FS.Stream.ofHandle impl) (← IO.getStdout) {}

end Driver.LbSpec
