/-
  npdriver life <tracefile>

  Reads the traces written by the controlled scheduler (go/cmd/sched) and, per run,
  (1) trace conformance: maps every executed step `actor site word op operands result` to the action(s) of the
      interleaving model Netpoll.Conn.Life it can stand for and follows them with `step`; the first line no model
      state accepts (the model refuses the step, or the observed result differs from the model's) is reported;
      several candidate attributions are followed in parallel (subset construction) because closers and tasks are
      anonymous in the model;
  (2) spec oracle: Netpoll.Conn.LifeSpec.check on the observable events of the IMPLEMENTATION's run.
  Output, one line per run:  `run <k> conf=<ok|FAIL> spec=<ok|FAIL> [| conf: …] [| spec: …]`, then totals.
-/
import Netpoll.Conn.Life
import Netpoll.Conn.LifeSpec
namespace Driver.Life
open Netpoll.Conn.Life
open Netpoll.Conn (LifeSpec.Cfg LifeSpec.Ev LifeSpec.Summary)

def kindOf (actor : String) : String :=
  if actor.startsWith "closer" then "closer"
  else if actor.startsWith "task" then "task"
  else actor   -- detacher hup poller acc init setreq obs env

def opOf (fn : String) : String :=
  if fn.startsWith "CompareAndSwap" then "cas"
  else if fn.startsWith "Load" then "load"
  else if fn.startsWith "Store" then "store"
  else if fn.startsWith "Add" then "add"
  else fn

def toNat (s : String) : Nat := s.toNat?.getD 0
def toInt (s : String) : Int := s.toInt?.getD 0
def isTrue (s : String) : Bool := s == "1"

/-- candidate action sequences for an atomic-operation line -/
def candsS (k word op : String) (a b : Int) (r : Int) : List (List Act) :=
  let ok := r == 1
  let v := r.toNat
  match word, op with
  | "closing", "cas" =>
      if b == 2 then [[.hCas ok]]
      else if k == "detacher" then [[.dCas ok]]
      else if k == "task" then [[.cU1 ok], [.closeNew ok]]
      else [[.closeNew ok]]
  | "closing", "store" => if a == 1 then [[.cU5]] else []
  | "closing", "load" =>
      if k == "acc" then [[.aAct1 v], [.aAct2 v], [.obsLoad v]]
      else if k == "init" then [[.cAct v], [.obsLoad v]]
      else if k == "task" then [[.tC3 v], [.t4a v], [.t7a v], [.tP1 v], [.tP2b v], [.obsLoad v]]
      else [[.obsLoad v]]
  | "processing", "cas" =>
      if k == "hup" then [[.hProc ok], [.hLock ok]]
      else if k == "poller" then [[.pLock ok]]
      else if k == "acc" then [[.aProc ok], [.cU4 ok], [.cU6 ok]]
      else if k == "init" || k == "setreq" then [[.sLock ok], [.cU4 ok], [.cU6 ok]]
      else if k == "task" then [[.t7b ok], [.t8b ok], [.cU4 ok], [.cU6 ok]]
      else [[.cU4 ok], [.cU6 ok]]
  | "processing", "store" => if a == 0 then [[.t6], [.tP2a]] else []
  | "connecting", "cas" =>
      if k == "acc" then [[.aConn ok]] else if k == "hup" then [[.hConn ok]] else [[.tD2 ok]]
  | "connecting", "store" => if a != 0 then [] else if k == "hup" then [[.hUnl]] else [[.tC2], [.tD4]]
  | "state", "cas" =>
      if a == 0 && b == 1 then (if k == "acc" then [[.aSt ok]] else [[.tC0 ok]])
      else if a == 1 && b == 2 then (if k == "hup" then [[.hSt ok]] else [[.tD3 ok]])
      else []
  | "state", "load" =>
      if k == "poller" then [[.pGet v]] else if k == "hup" then [[.hGet v], [.hGet2 v]]
      else if k == "task" then [[.tD1 v]] else [[.sGet v]]
  | "state", "store" => if a == 2 then [[.hSetSt]] else []
  | "flushing", "cas" => if a == 0 && b == 2 then [[.cbF1 ok]] else []
  | "flushing", "load" => [[.cbF1b v]]
  | "op.state", "cas" =>
      if a == 0 && b == 1 then (if k == "acc" then [[.aReg ok]] else [[.cReg ok]])
      else if a == 1 && b == 2 then (if k == "poller" then [[.pDo ok]] else [[.relDo ok]])
      else if a == 1 && b == 0 then [[.cbF2 ok]]
      else []
  | "op.state", "store" => if a != 1 then [] else if k == "poller" then [[.pFinish, .pDone], [.pHDone]] else [[.relDone]]
  | "op.state", "load" => [[.cbF2b v]]
  | "op.detached", "add" => if k == "poller" then [[.pHup, .pDet v], [.cbDet v]] else [[.cbDet v]]
  | "fd.closed", "add" => [[.cbF3 v]]
  | "detaching", "load" => [[.cbF3b v]]
  | "detaching", "store" => if a == 1 then [[.dStore]] else []
  | "inLen", "add" =>
      if a < 0 then [[.uConsume (-a).toNat v]]
      else if k == "poller" then [[.pRead a.toNat, .pAck v]] else []
  | "inLen", "load" =>
      let cb : List (List Act) := [[.cbF4 v], [.uLen v]]
      if k == "hup" then [[.hLen v]] ++ cb
      else if k == "init" || k == "setreq" then [[.sLen v]] ++ cb
      else if k == "task" then [[.t3 v], [.t4b0 v], [.t4b2 v], [.t8a v]] ++ cb
      else cb
  | "inLen", "store" => if a == 0 then [[.cbF4b]] else []
  | _, _ => []

/-- candidates for a trigger line `P actor site dflt s:rd:1` -/
def candsP (k comm : String) : List (List Act) :=
  match comm.splitOn ":" with
  | [_, ch, room] =>
      let rm := room == "1"
      if ch == "rd" then
        (if k == "hup" then [[.hRd rm]] else if k == "poller" then [[.pTrig rm]] else [[.cU2 rm]])
      else if ch == "wr" then (if k == "hup" then [[.hWr rm]] else [[.cU3 rm]])
      else []
  | _ => []

/-- candidates for a callback entry/exit line -/
def candsC (k dir callee : String) : List (List Act) :=
  let enter := dir == "enter"
  match callee with
  | "opts.onPrepare" => if enter then [[.aPrepE]] else [[.aPrepX]]
  | "onConnect" => if enter then [[.tOCenter]] else [[.tOCexit]]
  | "onRequest" => if enter then [[.tHenter]] else [[.tHexit]]
  | "onDisconnect" =>
      if k == "hup" then (if enter then [[.hODe], [.hODe2]] else [[.hODx], [.hODx2]])
      else (if enter then [[.tODenter]] else [[.tODexit]])
  | "callback.fn" => if enter then [[.cbEnterU], [.cbEnterF]] else [[.cbExitU], [.cbFx]]
  | _ => []

/-- candidates for a ghost line (most ghost events are for the spec only: `[[]]` = no model step) -/
def candsG (ws : List String) : List (List Act) :=
  match ws with
  | ["H", "panic"] => [[.tHpanic]]
  | ["OC", "panic"] => [[.tOCpanic]]
  | ["detach-call"] => [[.dCall]]
  | ["setreq-call"] => [[.sCall]]
  | ["deliver", _] => [[.pFetch]]
  | ["deliver-hup", _] => [[.pFetch], [.pPeerClose, .pFetch]]
  | _ => [[]]

def dedup (l : List S) : List S := l.foldl (fun acc x => if acc.contains x then acc else x :: acc) []

/-- advance the set of model states by one trace line -/
def advance (states : List S) (cands : List (List Act)) : List S :=
  dedup (states.foldl (fun acc s => cands.foldl (fun acc2 as => match run s as with
    | some s' => s' :: acc2
    | none => acc2) acc) [])

structure RunSt where
  id : String := ""
  cfg : LifeSpec.Cfg := { server := true, hasOC := false, hasOD := false, hasOR := true, ncb := 2 }
  states : List S := []
  confFail : Option String := none
  evs : Array LifeSpec.Ev := #[]
  lineNo : Nat := 0
  maxStates : Nat := 1
  active : Bool := false

def parseCfg (spec : String) : LifeSpec.Cfg := Id.run do
  let mut cfg : LifeSpec.Cfg := { server := true, hasOC := false, hasOD := false, hasOR := true, ncb := 2 }
  for kv in spec.splitOn "," do
    match kv.splitOn "=" with
    | ["style", v] => cfg := { cfg with server := v == "server" }
    | ["oc", v] => cfg := { cfg with hasOC := v != "none" }
    | ["od", v] => cfg := { cfg with hasOD := v == "1" }
    | ["or", v] => cfg := { cfg with hasOR := v != "none" }
    | ["ncb", v] => cfg := { cfg with ncb := toNat v }
    | _ => pure ()
  return cfg

/-- spec events of a line -/
def evsOf (k : String) (ws : List String) : List LifeSpec.Ev :=
  match ws with
  | "S" :: _ :: _ :: word :: fn :: a :: b :: r :: _ =>
      let op := opOf fn
      if word == "closing" then
        (if op == "load" then [.closingSeen (toNat r)]
         else if op == "cas" then
           (if r == "1" then
              [.closingSeen 0] ++ (if b == "2" then [.hupWon] else [.userClose] ++ (if k == "detacher" then [.detachWon] else []))
            else [.closingSeen 9])
         else if op == "store" && a == "1" then [.userClose] else [])
      else []
  | "X" :: _ => [.fdClose]
  | "G" :: _ :: rest =>
      match rest with
      | ["closecb", i, u] => [.closecb (toNat i) (toNat ((u.splitOn "=").getLastD "0")) (k == "hup")]
      | ["H", "start", l] => [.hStart (toNat ((l.splitOn "=").getLastD "0"))]
      | ["H", "end"] => [.hEnd]
      | ["H", "panic"] => [.hPanic]
      | ["OC", "start"] => [.ocStart]
      | ["OC", "end"] => [.ocEnd]
      | ["OC", "panic"] => [.ocPanic]
      | ["OD", "run"] => [.odRun (k == "hup")]
      | ["PREP", "start"] => [.prepStart]
      | ["PREP", "end"] => [.prepEnd]
      | ["slot", "free"] => [.slotFree]
      | ["epoll", "add"] => [.epollAdd]
      | ["epoll", "del"] => [.epollDel]
      | ["detach-call"] => [.detachCall]
      | ["setreq-call"] => [.setReq]
      | ["deliver", _] => [.deliver]
      | ["deliver-hup", _] => [.deliver]
      | _ => []
  | _ => []

def getKV (ws : List String) (key : String) : String :=
  match ws.find? (fun w => w.startsWith (key ++ "=")) with
  | some w => (w.drop (key.length + 1)).toString
  | none => ""

def main (path : String) : IO Unit := do
  let h ← IO.FS.Handle.mk path IO.FS.Mode.read
  let out ← IO.getStdout
  let mut rs : RunSt := {}
  let mut nRuns := 0
  let mut nConfFail := 0
  let mut nSpecFail := 0
  let mut nLines := 0
  repeat
    let line ← h.getLine
    if line.isEmpty then break
    let l := line.trimRight
    let ws := l.splitOn " "
    match ws with
    | "run" :: id :: "scn" :: spec :: _ =>
        let cfg := parseCfg spec
        let orSet := cfg.hasOR && cfg.server
        rs := { id := id, cfg := cfg, states := [init cfg.server cfg.hasOC cfg.hasOD orSet], active := true }
    | "end" :: rest =>
        if rs.active then
          let status := getKV rest "status"
          let qs : Bool := status == "quiescent"
          let fo : Bool := getKV rest "fdopen" == "1"
          let sm : LifeSpec.Summary := ⟨qs, status, fo, toNat (getKV rest "unread"), toNat (getKV rest "closing")⟩
          let bad := Netpoll.Conn.LifeSpec.check rs.cfg rs.evs.toList sm
          nRuns := nRuns + 1
          let confS := match rs.confFail with
            | none => "ok"
            | some _ => "FAIL"
          if rs.confFail.isSome then nConfFail := nConfFail + 1
          if !bad.isEmpty then nSpecFail := nSpecFail + 1
          let specS := if bad.isEmpty then "ok" else "FAIL"
          let mut msg := s!"run {rs.id} conf={confS} spec={specS} states={rs.maxStates}"
          if let some f := rs.confFail then msg := msg ++ " | conf: " ++ f
          if !bad.isEmpty then msg := msg ++ " | spec: " ++ "; ".intercalate bad
          out.putStrLn msg
          rs := { rs with active := false }
    | tag :: actor :: _ =>
        if rs.active && (tag == "S" || tag == "P" || tag == "C" || tag == "X" || tag == "Y" || tag == "G") then
          nLines := nLines + 1
          let k := kindOf actor
          rs := { rs with lineNo := rs.lineNo + 1, evs := rs.evs ++ (evsOf k ws).toArray }
          if rs.confFail.isNone then
            let cands : List (List Act) := match ws with
              | ["S", _, _, word, fn, a, b, r] => candsS k word (opOf fn) (toInt a) (toInt b) (toInt r)
              | ["P", _, _, _, comm] => candsP k comm
              | ["C", _, _, dir, callee] => candsC k dir callee
              | "X" :: _ => [[.cbF3c]]
              | "Y" :: _ => [[]]
              | "G" :: _ :: rest => candsG rest
              | _ => []
            let next := advance rs.states cands
            if next.isEmpty then
              rs := { rs with confFail := some s!"line {rs.lineNo}: `{l}`: no model state accepts this step ({rs.states.length} candidate states, {cands.length} candidate actions)" }
            else
              rs := { rs with states := next, maxStates := max rs.maxStates next.length }
    | _ => pure ()
  out.putStrLn s!"total runs={nRuns} lines={nLines} conf_fail={nConfFail} spec_fail={nSpecFail}"

end Driver.Life
