/-
  npdriver life <tracefile>

  Reads the traces written by the controlled scheduler (go/cmd/sched) and, per run,
  (1) trace conformance: maps every executed step `actor site word op operands result` to the action(s) of the
      interleaving model Netpoll.Conn.Life it can stand for and follows them with `step`; the first line no model
      state accepts (the model refuses the step, or the observed result differs from the model's) is reported;
      several candidate attributions are followed in parallel (subset construction) because closers and tasks are
      anonymous in the model;
  (2) spec oracle: Netpoll.Conn.LifeSpec.check on the observable events of the IMPLEMENTATION's run.
  Output, one line per run:  `run <k> conf=<ok|FAIL> spec=<ok|FAIL> [| conf: …] [| spec: …]`, then totals.
-/
import Netpoll.Conn.Life
import Netpoll.Conn.LifeSpec
namespace Driver.Life
open Netpoll.Conn.Life
open Netpoll.Conn (LifeSpec.Cfg LifeSpec.Ev LifeSpec.Summary)

def kindOf (actor : String) : String :=
  if actor.startsWith "closer" then "closer"
  else if actor.startsWith "task" then "task"
  else actor   -- detacher hup poller acc init setreq obs env

def opOf (fn : String) : String :=
  if fn.startsWith "CompareAndSwap" then "cas"
  else if fn.startsWith "Load" then "load"
  else if fn.startsWith "Store" then "store"
  else if fn.startsWith "Add" then "add"
  else fn

def toNat (s : String) : Nat := s.toNat?.getD 0
def toInt (s : String) : Int := s.toInt?.getD 0
def isTrue (s : String) : Bool := s == "1"

/-- candidate action sequences for an atomic-operation line -/
def candsS (k word op : String) (a b : Int) (r : Int) : List (List Act) :=
  let ok := r == 1
  let v := r.toNat
  match word, op with
  | "closing", "cas" =>
      if b == 2 then [[.h (.hCas ok)]]
      else if k == "detacher" then [[.c (.dCas ok)]]
      else if k == "task" then [[.c (.cU1 ok)], [.c (.closeNew ok)]]
      else [[.c (.closeNew ok)]]
  | "closing", "store" => if a == 1 then [[.c (.cU5)]] else []
  | "closing", "load" =>
      if k == "acc" then [[.a (.aAct1 v)], [.a (.aAct2 v)], [.u (.obsLoad v)]]
      else if k == "init" then [[.a (.cAct v)], [.u (.obsLoad v)]]
      else if k == "task" then [[.t (.tC3 v)], [.t (.t4a v)], [.t (.t7a v)], [.t (.tP1 v)], [.t (.tP2b v)], [.u (.obsLoad v)]]
      else [[.u (.obsLoad v)]]
  | "processing", "cas" =>
      if k == "hup" then [[.h (.hProc ok)], [.h (.hLock ok)]]
      else if k == "poller" then [[.p (.pLock ok)]]
      else if k == "acc" then [[.a (.aProc ok)], [.c (.cU4 ok)], [.c (.cU6 ok)]]
      else if k == "init" || k == "setreq" then [[.u (.sLock ok)], [.c (.cU4 ok)], [.c (.cU6 ok)]]
      else if k == "task" then [[.t (.t7b ok)], [.t (.t8b ok)], [.c (.cU4 ok)], [.c (.cU6 ok)]]
      else [[.c (.cU4 ok)], [.c (.cU6 ok)]]
  | "processing", "store" => if a == 0 then [[.t (.t6)], [.t (.tP2a)]] else []
  | "connecting", "cas" =>
      if k == "acc" then [[.a (.aConn ok)]] else if k == "hup" then [[.h (.hConn ok)]] else [[.t (.tD2 ok)]]
  | "connecting", "store" => if a != 0 then [] else if k == "hup" then [[.h (.hUnl)]] else [[.t (.tC2)], [.t (.tD4)]]
  | "state", "cas" =>
      if a == 0 && b == 1 then (if k == "acc" then [[.a (.aSt ok)]] else [[.t (.tC0 ok)]])
      else if a == 1 && b == 2 then (if k == "hup" then [[.h (.hSt ok)]] else [[.t (.tD3 ok)]])
      else []
  | "state", "load" =>
      if k == "poller" then [[.p (.pGet v)]] else if k == "hup" then [[.h (.hGet v)], [.h (.hGet2 v)]]
      else if k == "task" then [[.t (.tD1 v)]] else [[.u (.sGet v)]]
  | "state", "store" => if a == 2 then [[.h (.hSetSt)]] else []
  | "flushing", "cas" => if a == 0 && b == 2 then [[.b (.cbF1 ok)]] else []
  | "flushing", "load" => [[.b (.cbF1b v)]]
  | "op.state", "cas" =>
      if a == 0 && b == 1 then (if k == "acc" then [[.a (.aReg ok)]] else [[.a (.cReg ok)]])
      else if a == 1 && b == 2 then (if k == "poller" then [[.p (.pDo ok)]] else [[.u (.relDo ok)]])
      else if a == 1 && b == 0 then [[.b (.cbF2 ok)]]
      else []
  | "op.state", "store" => if a != 1 then [] else if k == "poller" then [[.p (.pFinish), .p (.pDone)], [.p (.pHDone)]] else [[.u (.relDone)]]
  | "op.state", "load" => [[.b (.cbF2b v)]]
  | "op.detached", "add" => if k == "poller" then [[.p (.pHup), .p (.pDet v)], [.b (.cbDet v)]] else [[.b (.cbDet v)]]
  | "fd.closed", "add" => [[.b (.cbF3 v)]]
  | "detaching", "load" => [[.b (.cbF3b v)]]
  | "detaching", "store" => if a == 1 then [[.c (.dStore)]] else []
  | "inLen", "add" =>
      if a < 0 then [[.u (.uConsume (-a).toNat v)]]
      else if k == "poller" then [[.p (.pRead a.toNat), .p (.pAck v)]] else []
  | "inLen", "load" =>
      let cb : List (List Act) := [[.b (.cbF4 v)], [.b (.cbF4n v)], [.u (.uLen v)]]
      if k == "hup" then [[.h (.hLen v)]] ++ cb
      else if k == "init" || k == "setreq" then [[.u (.sLen v)]] ++ cb
      else if k == "task" then [[.t (.t3 v)], [.t (.t4b0 v)], [.t (.t4b2 v)], [.t (.t8a v)]] ++ cb
      else cb
  | "inLen", "store" => if a == 0 then [[.b (.cbF4b)]] else []
  -- the handler word `onRequestCallback`: SetOnRequest's Store is where the model's `sCall` publishes the handler (client
  -- connection); every Load is merged with the loader's previous step (not a schedule point in the harness)
  | "orCb", "Value.Store" => if k == "init" || k == "setreq" then [[.u (.sCall)]] else [[]]
  | "orCb", "Value.Load" => [[]]
  | _, _ => []

/-- candidates for a trigger line `P actor site dflt s:rd:1` -/
def candsP (k comm : String) : List (List Act) :=
  match comm.splitOn ":" with
  | [_, ch, room] =>
      let rm := room == "1"
      if ch == "rd" then
        (if k == "hup" then [[.h (.hRd rm)]] else if k == "poller" then [[.p (.pTrig rm)]] else [[.c (.cU2 rm)]])
      else if ch == "wr" then (if k == "hup" then [[.h (.hWr rm)]] else [[.c (.cU3 rm)]])
      else []
  | _ => []

/-- candidates for a callback entry/exit line -/
def candsC (k dir callee : String) : List (List Act) :=
  let enter := dir == "enter"
  match callee with
  | "opts.onPrepare" => if enter then [[.a (.aPrepE)]] else [[.a (.aPrepX)]]
  | "onConnect" => if enter then [[.t (.tOCenter)]] else [[.t (.tOCexit)]]
  | "onRequest" => if enter then [[.t (.tHenter)]] else [[.t (.tHexit)]]
  | "onDisconnect" =>
      if k == "hup" then (if enter then [[.h (.hODe)], [.h (.hODe2)]] else [[.h (.hODx)], [.h (.hODx2)]])
      else (if enter then [[.t (.tODenter)]] else [[.t (.tODexit)]])
  | "callback.fn" => if enter then [[.b (.cbEnterU)], [.b (.cbEnterF)]] else [[.b (.cbExitU)], [.b (.cbFx)]]
  | _ => []

/-- candidates for a ghost line (most ghost events are for the spec only: `[[]]` = no model step) -/
def candsG (ws : List String) : List (List Act) :=
  match ws with
  | ["H", "panic"] => [[.t (.tHpanic)]]
  | ["OC", "panic"] => [[.t (.tOCpanic)]]
  | ["detach-call"] => [[.c (.dCall)]]
  | ["setreq-call"] => [[]]
  | ["deliver", _] => [[.p (.pFetch)]]
  | ["deliver-hup", _] => [[.p (.pFetch)], [.p (.pPeerClose), .p (.pFetch)]]
  | _ => [[]]

def dedup (l : List S) : List S := l.foldl (fun acc x => if acc.contains x then acc else x :: acc) []

/-- advance the set of model states by one trace line -/
def advance (states : List S) (cands : List (List Act)) : List S :=
  dedup (states.foldl (fun acc s => cands.foldl (fun acc2 as => match run s as with
    | some s' => s' :: acc2
    | none => acc2) acc) [])

structure RunSt where
  id : String := ""
  cfg : LifeSpec.Cfg := { server := true, hasOC := false, hasOD := false, hasOR := true, ncb := 2 }
  states : List S := []
  confFail : Option String := none
  evs : Array LifeSpec.Ev := #[]
  lineNo : Nat := 0
  maxStates : Nat := 1
  active : Bool := false

def parseCfg (spec : String) : LifeSpec.Cfg := Id.run do
  let mut cfg : LifeSpec.Cfg := { server := true, hasOC := false, hasOD := false, hasOR := true, ncb := 2 }
  for kv in spec.splitOn "," do
    match kv.splitOn "=" with
    | ["style", v] => cfg := { cfg with server := v == "server" }
    | ["oc", v] => cfg := { cfg with hasOC := v != "none" }
    | ["od", v] => cfg := { cfg with hasOD := v == "1" }
    | ["or", v] => cfg := { cfg with hasOR := v != "none" }
    | ["ncb", v] => cfg := { cfg with ncb := toNat v }
    | _ => pure ()
  return cfg

/-- spec events of a line -/
def evsOf (k : String) (ws : List String) : List LifeSpec.Ev :=
  match ws with
  | "S" :: _ :: _ :: word :: fn :: a :: b :: r :: _ =>
      let op := opOf fn
      if word == "orCb" then (if op == "Value.Store" then [.setReq] else [])
      else if word == "closing" then
        (if op == "load" then [.closingSeen (toNat r)]
         else if op == "cas" then
           (if r == "1" then
              [.closingSeen 0] ++ (if b == "2" then [.hupWon] else [.userClose] ++ (if k == "detacher" then [.detachWon] else []))
            else [.closingSeen 9])
         else if op == "store" && a == "1" then [.userClose] else [])
      else []
  | "X" :: _ => [.fdClose (k == "detacher")]
  | "G" :: _ :: rest =>
      match rest with
      | ["closecb", i, u] => [.closecb (toNat i) (toNat ((u.splitOn "=").getLastD "0")) (k == "hup")]
      | ["H", "start", l] => [.hStart (toNat ((l.splitOn "=").getLastD "0"))]
      | ["H", "end"] => [.hEnd]
      | ["H", "panic"] => [.hPanic]
      | ["OC", "start"] => [.ocStart]
      | ["OC", "end"] => [.ocEnd]
      | ["OC", "panic"] => [.ocPanic]
      | ["OD", "run"] => [.odRun (k == "hup")]
      | ["PREP", "start"] => [.prepStart]
      | ["PREP", "end"] => [.prepEnd]
      | ["slot", "free"] => [.slotFree]
      | ["epoll", "add"] => [.epollAdd]
      | ["epoll", "del"] => [.epollDel]
      | ["detach-call"] => [.detachCall]
      | ["setreq-call"] => []
      | ["deliver", _] => [.deliver]
      | ["deliver-hup", _] => [.deliver]
      | _ => []
  | _ => []

def getKV (ws : List String) (key : String) : String :=
  match ws.find? (fun w => w.startsWith (key ++ "=")) with
  | some w => (w.drop (key.length + 1)).toString
  | none => ""

def main (path : String) : IO Unit := do
  let h ← IO.FS.Handle.mk path IO.FS.Mode.read
  let out ← IO.getStdout
  let mut rs : RunSt := {}
  let mut nRuns := 0
  let mut nConfFail := 0
  let mut nSpecFail := 0
  let mut nLines := 0
  repeat
    let line ← h.getLine
    if line.isEmpty then break
    let l := line.trimRight
    let ws := l.splitOn " "
    match ws with
    | "run" :: id :: "scn" :: spec :: _ =>
        let cfg := parseCfg spec
        let orSet := cfg.hasOR && cfg.server
        rs := { id := id, cfg := cfg, states := [init cfg.server cfg.hasOC cfg.hasOD orSet], active := true }
    | "end" :: rest =>
        if rs.active then
          let status := getKV rest "status"
          let qs : Bool := status == "quiescent"
          let fo : Bool := getKV rest "fdopen" == "1"
          let sm : LifeSpec.Summary := ⟨qs, status, fo, toNat (getKV rest "unread"), toNat (getKV rest "closing")⟩
          let bad := Netpoll.Conn.LifeSpec.check rs.cfg rs.evs.toList sm
          nRuns := nRuns + 1
          let confS := match rs.confFail with
            | none => "ok"
            | some _ => "FAIL"
          if rs.confFail.isSome then nConfFail := nConfFail + 1
          if !bad.isEmpty then nSpecFail := nSpecFail + 1
          let specS := if bad.isEmpty then "ok" else "FAIL"
          let mut msg := s!"run {rs.id} conf={confS} spec={specS} states={rs.maxStates}"
          if let some f := rs.confFail then msg := msg ++ " | conf: " ++ f
          if !bad.isEmpty then msg := msg ++ " | spec: " ++ "; ".intercalate bad
          out.putStrLn msg
          rs := { rs with active := false }
    | tag :: actor :: _ =>
        if rs.active && (tag == "S" || tag == "P" || tag == "C" || tag == "X" || tag == "Y" || tag == "G") then
          nLines := nLines + 1
          let k := kindOf actor
          rs := { rs with lineNo := rs.lineNo + 1, evs := rs.evs ++ (evsOf k ws).toArray }
          if rs.confFail.isNone then
            let cands : List (List Act) := match ws with
              | ["S", _, _, word, fn, a, b, r] => candsS k word (opOf fn) (toInt a) (toInt b) (toInt r)
              | ["P", _, _, _, comm] => candsP k comm
              | ["C", _, _, dir, callee] => candsC k dir callee
              | "X" :: _ => [[.b (.cbF3c)]]
              | "Y" :: _ => [[]]
              | "G" :: _ :: rest => candsG rest
              | _ => []
            let next := advance rs.states cands
            if next.isEmpty then
              rs := { rs with confFail := some s!"line {rs.lineNo}: `{l}`: no model state accepts this step ({rs.states.length} candidate states, {cands.length} candidate actions)" }
            else
              rs := { rs with states := next, maxStates := max rs.maxStates next.length }
    | _ => pure ()
  out.putStrLn s!"total runs={nRuns} lines={nLines} conf_fail={nConfFail} spec_fail={nSpecFail}"

end Driver.Life
