import Netpoll.Adapter
import Driver.Lb
/-! `npdriver adapter`: replays adapter op lines (go/inpkg/adapter.go) on the Lean adapter model. -/
open Netpoll.Buf Netpoll.Adapter
namespace Driver.Adapter
open Driver.Lb

structure AW where
  block4k : Nat := 4096
  zr : Std.HashMap Nat (ZCReader UInt8) := {}
  zw : Std.HashMap Nat (ZCWriter UInt8) := {}
  q : Std.HashMap Nat (Q UInt8) := {}

def parseScript (s : String) : List (Int × IOErr) :=
  if s == "-" then [] else
  (s.splitOn ",").filterMap fun p =>
    match p.splitOn ":" with
    | [k, e] => some (toInt! k, if e == "e" then .eof else if e == "x" then .other else .none)
    | _ => none

def showA : ARes UInt8 → String
  | .ok r => showRes r
  | .fail .eof => "fail eof"
  | .fail .src => "fail src"
  | .fail .negative => "fail negative"
  | .fail .buf => "fail buf"

abbrev M := StateM AW

def zrOp (id : Nat) (op : ROp UInt8) : M String := do
  let w ← get
  match w.zr.get? id with
  | none => return "nobuf"
  | some r =>
    let (r', res) := r.step w.block4k op
    set { w with zr := w.zr.insert id r' }
    return s!"{showA res} ## L={r'.q.len} M={r'.q.mallocLen} pos={r'.src.pos} left={r'.src.script.length}"

def zwOp (id : Nat) (op : WOp UInt8) : M String := do
  let w ← get
  match w.zw.get? id with
  | none => return "nobuf"
  | some z =>
    let (z', res) := z.step op
    set { w with zw := w.zw.insert id z' }
    return s!"{showA res} ## L={z'.q.len} M={z'.q.mallocLen} sunk={z'.sink.got.length}:{fnv z'.sink.got} left={z'.sink.script.length}"

/-- `iowz write`: `ioWriter.Write(p)` over a `zcWriter` - `Malloc(len p)`, copy, `Flush`: the two `WOp`s
`malloc` and `flush` of the writer model in a row (so `C16_writer_stream`, which holds for every `WOp`
sequence, covers it); `Write` returns `(len p, nil)` or `(0, the Flush error)`. -/
def iowzWrite (id : Nat) (p : List UInt8) : M String := do
  let w ← get
  match w.zw.get? id with
  | none => return "nobuf"
  | some z =>
    let (z1, _) := z.step (.malloc p.length p)
    let (z2, res) := z1.step .flush
    set { w with zw := w.zw.insert id z2 }
    let r := match res with | .ok _ => s!"ok n:{p.length}" | e => showA e
    return s!"{r} ## L={z2.q.len} M={z2.q.mallocLen} sunk={z2.sink.got.length}:{fnv z2.sink.got} left={z2.sink.script.length}"

def step (line : String) : M String := do
  let w ← get
  let toks := (line.splitOn " ").filter (· ≠ "")
  let n! := toNat!
  let i! := toInt!
  match toks with
  | ["seq", _, _] => set ({ block4k := w.block4k } : AW); return "seq"
  | ["zr", id, "new", sc] =>
    set { w with zr := w.zr.insert (n! id) { src := { stream := fun i => genByte 5 i, script := parseScript sc } } }
    return "ok"
  | ["zr", id, "next", n] => zrOp (n! id) (.next (i! n))
  | ["zr", id, "peek", n] => zrOp (n! id) (.peek (i! n))
  | ["zr", id, "skip", n] => zrOp (n! id) (.skip (i! n))
  | ["zr", id, "rbin", n] => zrOp (n! id) (.readBinary (i! n))
  | ["zr", id, "rstr", n] => zrOp (n! id) (.readBinary (i! n))
  | ["zr", id, "rbyte"] => zrOp (n! id) .readByte
  | ["zr", id, "until", c] => zrOp (n! id) (.until (UInt8.ofNat (n! c)))
  | ["zr", id, "rel"] => zrOp (n! id) .release
  | ["zr", id, "len"] => zrOp (n! id) .len
  | ["zw", id, "new", sc] =>
    set { w with zw := w.zw.insert (n! id) { sink := { script := (parseScript sc).map fun (p : Int × IOErr) => (p.1.toNat, p.2) } } }
    return "ok"
  | ["iowz", id, "new", sc] =>
    set { w with zw := w.zw.insert (n! id) { sink := { script := (parseScript sc).map fun (p : Int × IOErr) => (p.1.toNat, p.2) } } }
    return "ok"
  | ["iowz", id, "write", n, seed] => iowzWrite (n! id) (genBytes (n! seed) (n! n))
  | ["iowz", id, "flush"] => zwOp (n! id) .flush
  | ["zw", id, "mal", n, seed] => zwOp (n! id) (.malloc (i! n) (genBytes (n! seed) (i! n).toNat))
  | ["zw", id, "wbin", n, seed, c] => zwOp (n! id) (.writeBinary (genBytes (n! seed) (n! n)) (n! c))
  | ["zw", id, "wstr", n, seed] => zwOp (n! id) (.writeBinary (genBytes (n! seed) (n! n)) (n! n))
  | ["zw", id, "wbyte", b] => zwOp (n! id) (.writeByte (UInt8.ofNat (n! b)))
  | ["zw", id, "ack", n] => zwOp (n! id) (.mallocAck (i! n))
  | ["zw", id, "flush"] => zwOp (n! id) .flush
  | ["zw", id, "mlen"] => zwOp (n! id) .mallocLen
  | [k, id, "new"] =>
    if k == "ior" || k == "iow" then
      set { w with q := w.q.insert (n! id) {} }; return "ok"
    else return "bad-op"
  | ["ior", id, "feed", n, seed] =>
    let q := (w.q.get? (n! id)).getD {}
    let (q', _) := ioWrite q (genBytes (n! seed) (n! n))
    set { w with q := w.q.insert (n! id) q' }
    return s!"ok ## L={q'.len} M={q'.mallocLen}"
  | ["ior", id, "read", l] =>
    let q := (w.q.get? (n! id)).getD {}
    let (q', bs, eof, _) := ioRead q (n! l)
    set { w with q := w.q.insert (n! id) q' }
    return s!"{showRes (.bytes bs)}{if eof then " eof" else ""} ## L={q'.len} M={q'.mallocLen}"
  | ["iow", id, "write", n, seed] =>
    let q := (w.q.get? (n! id)).getD {}
    let (q', k, _) := ioWrite q (genBytes (n! seed) (n! n))
    set { w with q := w.q.insert (n! id) q' }
    return s!"ok n:{k} ## L={q'.len} M={q'.mallocLen}"
  | ["iow", id, "drain", n] =>
    let q := (w.q.get? (n! id)).getD {}
    let (q1, e) := specStep q (.next (i! n))
    set { w with q := w.q.insert (n! id) q1 }
    let r := match ofExpect e with | .err => "fail buf" | r => showRes r
    return s!"{r} ## L={q1.len} M={q1.mallocLen}"
  | _ => return "bad-op"

partial def loop (h out : IO.FS.Stream) (w : AW) : IO Unit := do
  let line ← h.getLine
  if line.isEmpty then return ()
  let line := line.trimAscii.toString
  if line.isEmpty || line.startsWith "#" then loop h out w
  else
    let (r, w') := (step line).run w
    out.putStrLn r
    loop h out w'

def main (block4k : Nat) : IO Unit := do
  loop (← IO.getStdin) (← IO.getStdout) { block4k := block4k }

end Driver.Adapter
