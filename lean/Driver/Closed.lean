import Netpoll.Conn.Closed
import Netpoll.Gen.Consts
import Driver.Lb
/-! `npdriver closed`: computes C12's cells (go/inpkg/closedh.go) on the Lean model. -/
open Netpoll.Buf Netpoll.Conn.Closed
namespace Driver.Closed
open Driver.Lb

def cfg : Cfg := { linkBufferCap := Netpoll.Gen.c_var_LinkBufferCap, block1k := Netpoll.Gen.c_block1k,
                   inplace := Netpoll.Gen.c_BinaryInplaceThreshold, pagesize := Netpoll.Gen.c_pagesize, mallocMax := Netpoll.Gen.c_mallocMax }

def inBytes : Nat := 10

/-- a live connection as `connection.init` + the poller leave it -/
def live (cb inb outp : Bool) (req : Bool := false) : Option (CC UInt8) := do
  let input : LB UInt8 := newLB cfg Netpoll.Gen.c_pagesize
  let input ← if inb then
      match input.book cfg Netpoll.Gen.c_pagesize Netpoll.Gen.c_pagesize with
      | none => none
      | some (b, _) => (b.bookAck (genBytes 3 inBytes)).map (·.1)
    else some input
  let output : LB UInt8 := newLB cfg 0
  let output ← if outp then (output.malloc cfg 5 (List.replicate 5 0)).map (·.1) else some output
  return { closing := 0, tornDown := false, cb := cb || req, input := input, output := output, req := req }

def showErr : Err → String
  | .connClosed => "closed" | .eof => "eof" | .other => "other"

def showOut (m : String) : Out UInt8 → String
  | .ok r => if m == "slice" then "ok" else showRes r
  | .err e => "err " ++ showErr e
  | .errWith bs e => if bs.isEmpty then "err " ++ showErr e else s!"errwith {bs.length}:{fnv bs} {showErr e}"
  | .panic => "panic"
  | .blocks => "hang"

def parseMeth (m : String) (arg : Int) : Option (Meth UInt8) :=
  match m with
  | "next" => some (.next arg) | "peek" => some (.peek arg) | "skip" => some (.skip arg)
  | "rstr" => some (.readString arg) | "rbin" => some (.readBinary arg) | "rbyte" => some .readByte
  | "slice" => some (.slice arg) | "rel" => some .release | "len" => some .len
  | "until" => some (.until (UInt8.ofNat arg.toNat)) | "read" => some (.read arg.toNat)
  | "malloc" => some (.malloc 5) | "mlen" => some .mallocLen | "flush" => some .flush | "ack" => some (.mallocAck 0)
  | "append" => some .appendW | "wstr" => some (.writeString [1, 2, 3]) | "wbin" => some (.writeBinary [1, 2, 3])
  | "wdir" => some (.writeDirect [1, 2, 3] 0) | "wbyte" => some (.writeByte 7) | "write" => some (.write [1, 2, 3])
  | "isactive" => some .isActive | "close" => some .close | "detach" => some .detach
  | _ => none

def cell (line : String) : String :=
  match (line.splitOn " ").filter (· ≠ "") with
  | ["cell", mode, cb, inb, outp, reuse, _tmo, m, arg, rep] =>
    -- `_tmo`: a read timeout is configured and an earlier read timed out. After the close every wait loop
    -- checks `closing` before it would wait, so the outcome is that of the untimed call (C07 covers the timer).
    let mode? : Option Mode := match mode with
      | "user" => some .user | "peer" => some .peer | "peeruser" => some .peerThenUser | "detach" => some .detach
      | "huser" => some .hUser | "huserp" => some .hUserPanic | "hpeer" => some .hPeer | "hpeerp" => some .hPeerPanic
      | "hpanic" => some .hPanic | _ => none
    -- handler modes: an OnRequest handler is set (`req`); `inb` = the handler left the 10 bytes unread
    let req := match mode? with | some md => md.viaHandler | none => false
    match mode?, live (cb == "1") (inb == "1") (outp == "1") req, parseMeth m (toInt! arg) with
    | some md, some c, some meth =>
      let c := c.closeBy md
      let (c1, o1) := c.call cfg meth
      let outs := if rep == "2" then [showOut m o1, showOut m (c1.call cfg meth).2] else [showOut m o1]
      " | ".intercalate outs ++ (if reuse == "1" then (if c.tornDown then " B=ok" else " B=noslot") else "")
    | _, _, _ => "bad-op"
  | _ => "bad-op"

partial def loop (h out : IO.FS.Stream) : IO Unit := do
  let line ← h.getLine
  if line.isEmpty then return ()
  let line := line.trimAscii.toString
  if line.isEmpty || line.startsWith "#" then loop h out
  else
    out.putStrLn (cell line)
    loop h out

def main : IO Unit := do loop (← IO.getStdin) (← IO.getStdout)
end Driver.Closed
