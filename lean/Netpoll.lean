import Netpoll.Buf.Model
import Netpoll.Props.C18
import Netpoll.Tie.Manager
