import Netpoll.Buf.Model
