import Netpoll.Buf.OwnerLemmas16
/-! Lemmas about the ownership ledger, part 17: the reference-count invariant on the whole ledger, through `step` and `run`
for the calls covered by `Cov`. -/
namespace Netpoll.Buf.Own
open Netpoll.Buf

/-- all structs chained in some buffer -/
def allChains (l : List (Nat × Buf)) : List Nat := l.flatMap fun p => p.2.chain

/-- the calls for which the reference-count invariant is proved:
* `WriteDirect` without split (`remain ≤ 0`) – the split is known finding D4;
* `MallocAck` on a buffer whose structs behind the flush node have reference count 1 (`AckSafe`; the code resets
  it to 1, which is harmless only then – inside the contract these structs hold pending data only);
* fresh buffer ids for `new` / `Slice`, and `Append` of a different buffer. -/
def Cov (s : Ledger) : Op → Prop
  | .wdir _ _ _ remain => ¬ remain > 0
  | .ack id _ => ∀ b, s.getBuf id = some b → AckSafe s.mem b
  | .new id _ => s.getBuf id = none
  | .slice id _ nid => s.getBuf nid = none ∧ nid ≠ id
  | .app id did => id ≠ did
  | _ => True

theorem allChains_put_some {id : Nat} {b b' : Buf} : ∀ {l : List (Nat × Buf)}, (l.find? (·.1 = id)).map (·.2) = some b →
    ∃ P S : List Nat, allChains l = P ++ (b.chain ++ S) ∧ allChains (putAssoc id b' l) = P ++ (b'.chain ++ S)
  | [], h => by simp at h
  | (i, x) :: rest, h => by
    unfold putAssoc
    by_cases hi : i = id
    · simp only [hi, if_true]
      simp [List.find?_cons, hi] at h
      subst h
      exact ⟨[], allChains rest, by simp [allChains], by simp [allChains]⟩
    · simp only [hi, if_false]
      simp [List.find?_cons, hi] at h
      obtain ⟨P, S, e1, e2⟩ := allChains_put_some (b' := b') (l := rest) (by simpa using h)
      refine ⟨x.chain ++ P, S, ?_, ?_⟩
      · simp only [allChains, List.flatMap_cons] at e1 ⊢; rw [e1]; simp
      · simp only [allChains, List.flatMap_cons] at e2 ⊢; rw [e2]; simp

theorem allChains_put_none {id : Nat} {b' : Buf} : ∀ {l : List (Nat × Buf)}, (l.find? (·.1 = id)).map (·.2) = none →
    allChains (putAssoc id b' l) = allChains l ++ b'.chain
  | [], _ => by simp [putAssoc, allChains]
  | (i, x) :: rest, h => by
    unfold putAssoc
    by_cases hi : i = id
    · simp [List.find?_cons, hi] at h
    · simp only [hi, if_false]
      simp [List.find?_cons, hi] at h
      have := allChains_put_none (b' := b') (l := rest) (by simpa using h)
      simp only [allChains, List.flatMap_cons] at this ⊢
      rw [this]; simp

theorem perm_swap3 {α : Type} (A B C : List α) : (A ++ (B ++ C)).Perm (B ++ (A ++ C)) := by
  rw [← List.append_assoc, ← List.append_assoc]
  exact List.Perm.append_right C List.perm_append_comm

theorem find_putAssoc_ne {id nid : Nat} {b' : Buf} (hne : nid ≠ id) : ∀ l : List (Nat × Buf),
    (putAssoc id b' l).find? (·.1 = nid) = l.find? (·.1 = nid)
  | [] => by
    have : ¬ id = nid := fun e => hne e.symm
    simp [putAssoc, List.find?_cons, this]
  | (i, x) :: rest => by
    unfold putAssoc
    by_cases hi : i = id
    · have : ¬ id = nid := fun e => hne e.symm
      have h2 : ¬ i = nid := fun e => this (hi ▸ e)
      simp [hi, List.find?_cons, this]
    · simp only [hi, if_false, List.find?_cons]
      rw [find_putAssoc_ne hne rest]

/-- two different stored buffers: their chains can be pulled to the front, before and after both are replaced -/
theorem allChains_put_two {id did : Nat} {b d b1 d1 : Buf} (hne : id ≠ did) : ∀ {l : List (Nat × Buf)},
    (l.find? (·.1 = id)).map (·.2) = some b → (l.find? (·.1 = did)).map (·.2) = some d →
    ∃ R : List Nat, (allChains l).Perm (b.chain ++ (d.chain ++ R)) ∧
      (allChains (putAssoc did d1 (putAssoc id b1 l))).Perm (b1.chain ++ (d1.chain ++ R))
  | [], h, _ => by simp at h
  | (i, x) :: rest, h1, h2 => by
    by_cases hi : i = id
    · -- head is the first buffer
      have hid : ¬ i = did := fun e => hne (hi ▸ e)
      simp [List.find?_cons, hi] at h1
      subst h1
      have h2' : (rest.find? (·.1 = did)).map (·.2) = some d := by
        simpa [List.find?_cons, hid] using h2
      obtain ⟨P, S, e1, e2⟩ := allChains_put_some (b' := d1) h2'
      refine ⟨P ++ S, ?_, ?_⟩
      · simp only [allChains, List.flatMap_cons] at e1 ⊢
        rw [e1]
        refine List.Perm.append_left _ ?_
        rw [← List.append_assoc, ← List.append_assoc]
        exact List.Perm.append_right S List.perm_append_comm
      · have hd : ¬ id = did := hne
        simp only [putAssoc, hi, if_true, hd, if_false]
        simp only [allChains, List.flatMap_cons] at e2 ⊢
        rw [e2]
        refine List.Perm.append_left _ ?_
        rw [← List.append_assoc, ← List.append_assoc]
        exact List.Perm.append_right S List.perm_append_comm
    · by_cases hd : i = did
      · -- head is the donor
        simp [List.find?_cons, hd] at h2
        subst h2
        have h1' : (rest.find? (·.1 = id)).map (·.2) = some b := by
          have : ¬ did = id := fun e => hne e.symm
          simpa [List.find?_cons, hd, this] using h1
        obtain ⟨P, S, e1, e2⟩ := allChains_put_some (b' := b1) h1'
        refine ⟨P ++ S, ?_, ?_⟩
        · simp only [allChains, List.flatMap_cons] at e1 ⊢
          rw [e1]
          -- x ++ (P ++ (b ++ S))  ~  b ++ (x ++ (P ++ S))
          exact (List.Perm.append_left _ (perm_swap3 P b.chain S)).trans (perm_swap3 _ _ _)
        · have hdi : ¬ did = id := fun e => hne e.symm
          simp only [putAssoc, hd, hdi, if_false, if_true]
          simp only [allChains, List.flatMap_cons] at e2 ⊢
          rw [e2]
          exact (List.Perm.append_left _ (perm_swap3 P b1.chain S)).trans (perm_swap3 _ _ _)
      · -- head is somebody else
        have h1' : (rest.find? (·.1 = id)).map (·.2) = some b := by simpa [List.find?_cons, hi] using h1
        have h2' : (rest.find? (·.1 = did)).map (·.2) = some d := by simpa [List.find?_cons, hd] using h2
        obtain ⟨R, p1, p2⟩ := allChains_put_two hne (b1 := b1) (d1 := d1) h1' h2'
        refine ⟨x.chain ++ R, ?_, ?_⟩
        · simp only [allChains, List.flatMap_cons] at p1 ⊢
          refine (List.Perm.append_left _ p1).trans ?_
          -- x ++ (b ++ (d ++ R)) ~ b ++ (d ++ (x ++ R))
          exact (perm_swap3 _ _ _).trans (List.Perm.append_left _ (perm_swap3 _ _ _))
        · simp only [putAssoc, hi, hd, if_false]
          simp only [allChains, List.flatMap_cons] at p2 ⊢
          refine (List.Perm.append_left _ p2).trans ?_
          exact (perm_swap3 _ _ _).trans (List.Perm.append_left _ (perm_swap3 _ _ _))

/-- the reference-count invariant of the ledger -/
def RcAll (s : Ledger) : Prop := Rc s.mem (allChains s.bufs)

/-- replacing the buffer stored under `id` by the result of one of its methods -/
theorem put_rc {s : Ledger} {m : Mem} {id : Nat} {b b' : Buf} (h : RcAll s) (hg : s.getBuf id = some b)
    (hf : ∀ R, Rc s.mem (b.chain ++ R) → Rc m (b'.chain ++ R)) : RcAll (s.put m id b') := by
  obtain ⟨P, S, e1, e2⟩ := allChains_put_some (b' := b') hg
  unfold RcAll Ledger.put
  simp only
  rw [e2]
  have h1 : Rc s.mem (b.chain ++ (P ++ S)) := by
    unfold RcAll at h; rw [e1] at h
    refine h.perm ?_
    rw [← List.append_assoc, ← List.append_assoc]
    exact List.Perm.append_right S List.perm_append_comm
  refine (hf _ h1).perm ?_
  rw [← List.append_assoc, ← List.append_assoc]
  exact List.Perm.append_right S List.perm_append_comm

theorem on1_rc {s s' : Ledger} {id : Nat} {f : Buf → Option (Mem × Buf)} (h : RcAll s)
    (hf : ∀ b m b1, s.getBuf id = some b → f b = some (m, b1) → ∀ R, Rc s.mem (b.chain ++ R) → Rc m (b1.chain ++ R))
    (hr : on1 s id f = some s') : RcAll s' := by
  unfold on1 at hr
  split at hr
  · cases hr; exact h
  · rename_i b hg
    split at hr
    · cases hr
    · rename_i m b1 hfb
      cases hr
      exact put_rc h hg (hf b m b1 hg hfb)

theorem markSplit_nodes : ∀ (l : List Nat) (m : Mem), (markSplit m l).nodes = m.nodes
  | [], _ => rfl
  | i :: rest, m => by
    unfold markSplit
    rw [markSplit_nodes rest]
    split
    · split
      · split
        · split
          · split <;> rfl
          · rfl
        · rfl
      · rfl
    · rfl

theorem markSplit_ext : ∀ (l : List Nat) (m : Mem), Ext m (markSplit m l)
  | [], m => Ext.refl m
  | i :: rest, m => by
    unfold markSplit
    refine Ext.trans ?_ (markSplit_ext rest _)
    have key : ∀ (blk : Nat) (bl : Block), m.blocks[blk]? = some bl →
        Ext m { m with blocks := m.blocks.set blk { bl with split := true } } := by
      intro blk bl hbl b' bl' hb'
      by_cases hbb : blk = b'
      · subst hbb
        rw [hbl] at hb'; cases hb'
        exact ⟨_, List.getElem?_set_self (lt_of_getElem? hbl), rfl, rfl⟩
      · exact ⟨bl', by simp [List.getElem?_set_ne hbb, hb'], rfl, rfl⟩
    split
    · split
      · split
        · split
          · split
            · rename_i _ blk _ _ bl hbl _
              exact key blk bl hbl
            · exact Ext.refl m
          · exact Ext.refl m
        · exact Ext.refl m
      · exact Ext.refl m
    · exact Ext.refl m

theorem step_rc {cfg : Cfg} {s s' : Ledger} {op : Op} (h : RcAll s) (hc : Cov s op) (hr : step cfg s op = some s') : RcAll s' := by
  cases op with
  | new id size =>
    simp only [step, Option.some.injEq] at hr; subst hr
    unfold RcAll Ledger.put
    simp only
    rw [allChains_put_none (show (s.bufs.find? (·.1 = id)).map (·.2) = none from hc)]
    exact (newNode_rc size h).perm (by simp only [newBuf]; exact List.perm_append_comm)
  | mal id n => exact on1_rc h (fun b m b1 _ hf R hR => malloc_rc hR hf) hr
  | wbin id n pcap => exact on1_rc h (fun b m b1 _ hf R hR => writeBinary_rc hR hf) hr
  | wdir id n ecap remain =>
    refine on1_rc h (fun b m b1 _ hf R hR => ?_) hr
    split at hf
    · cases hf
    · rename_i m0 b0 hw
      cases hf
      have := writeDirect_rc hR hc hw
      split
      · exact this.of_nodes_eq (markSplit_nodes _ _) (markSplit_ext _ _)
      · exact this
  | ack id n => exact on1_rc h (fun b m b1 hg hf R hR => mallocAck_rc hR (hc b hg) hf) hr
  | flush id => exact on1_rc h (fun b m b1 _ hf R hR => flush_rc hR hf) hr
  | next id n => exact on1_rc h (fun b m b1 _ hf R hR => next_rc hR hf) hr
  | peek id n => exact on1_rc h (fun b m b1 _ hf R hR => peek_rc hR hf) hr
  | skip id n => exact on1_rc h (fun b m b1 _ hf R hR => skip_rc hR hf) hr
  | rbin id n => exact on1_rc h (fun b m b1 _ hf R hR => readBinary_rc hR hf) hr
  | rbyte id => exact on1_rc h (fun b m b1 _ hf R hR => readByte_rc hR hf) hr
  | untl id idx => exact on1_rc h (fun b m b1 _ hf R hR => untilIdx_rc hR hf) hr
  | read id n => exact on1_rc h (fun b m b1 _ hf R hR => readCopy_rc hR hf) hr
  | rel id => exact on1_rc h (fun b m b1 _ hf R hR => release_rc hR hf) hr
  | close id => exact on1_rc h (fun b m b1 _ hf R hR => close_rc hR hf) hr
  | getbytes id k => exact on1_rc h (fun b m b1 _ hf R hR => getBytes_rc hR hf) hr
  | rtail id ms => exact on1_rc h (fun b m b1 _ hf R hR => resetTail_rc hR hf) hr
  | book id bs ms n => exact on1_rc h (fun b m b1 _ hf R hR => bookAck_rc hR hf) hr
  | slice id n nid =>
    simp only [step] at hr
    split at hr
    · cases hr; exact h
    · rename_i b hg
      split at hr
      · cases hr
      · rename_i m b1 hs
        cases hr
        exact put_rc h hg (fun R hR => by simpa [optChain] using slice_rc hR hs)
      · rename_i m b1 c hs
        cases hr
        -- first the parent (together with the child's chain as part of the rest), then the child under its fresh id
        obtain ⟨P, S, e1, e2⟩ := allChains_put_some (b' := b1) hg
        obtain ⟨hfresh, hne⟩ : s.getBuf nid = none ∧ nid ≠ id := hc
        have hnone : ((putAssoc id b1 s.bufs).find? (·.1 = nid)).map (·.2) = none := by
          rw [find_putAssoc_ne hne]; exact hfresh
        unfold RcAll Ledger.put
        simp only
        rw [allChains_put_none hnone, e2]
        have h1 : Rc s.mem (b.chain ++ (P ++ S)) := by
          unfold RcAll at h; rw [e1] at h
          refine h.perm ?_
          rw [← List.append_assoc, ← List.append_assoc]
          exact List.Perm.append_right S List.perm_append_comm
        have h2 := (slice_rc h1 hs).endViews id
        refine h2.perm ?_
        simp only [optChain]
        -- (P ++ (b1 ++ S)) ++ c  ~  b1 ++ (c ++ (P ++ S))
        have e : (P ++ (b1.chain ++ S)).Perm (b1.chain ++ (P ++ S)) := by
          rw [← List.append_assoc, ← List.append_assoc]
          exact List.Perm.append_right S List.perm_append_comm
        refine (List.Perm.append_right _ e).trans ?_
        rw [List.append_assoc]
        exact List.Perm.append_left _ List.perm_append_comm
  | app id did =>
    simp only [step] at hr
    split at hr
    · rename_i b d hg hgd
      split at hr
      · cases hr
      · rename_i m b1 d1 hw
        cases hr
        obtain ⟨R, p1, p2⟩ := allChains_put_two (show id ≠ did from hc) (b1 := b1) (d1 := d1) hg hgd
        unfold RcAll Ledger.put
        simp only
        have h1 : Rc s.mem (b.chain ++ (d.chain ++ R)) := Rc.perm h p1.symm
        exact ((writeBuffer_rc h1 hw).endViews did).perm p2
    · cases hr; exact h
  | nop id => simp only [step, Option.some.injEq] at hr; subst hr; exact h

theorem rc_init : RcAll {} := by
  refine ⟨List.nodup_nil, fun i hi => ?_, fun i nd h => ?_⟩
  · cases hi
  · have : ({} : Ledger).mem.nodes = [] := rfl
    rw [this] at h
    cases h

theorem run_rc {cfg : Cfg} : ∀ (ops : List Op) {s : Ledger}, RcAll s → AllSteps cfg Cov s ops → RcAll (run cfg s ops)
  | [], _, h, _ => h
  | op :: ops, s, h, hc => by
    unfold run
    cases hs : step cfg s op with
    | none => exact h
    | some s' =>
      have := hc.2
      rw [hs] at this
      exact run_rc ops (step_rc h hc.1 hs) this

end Netpoll.Buf.Own
