import Netpoll.Buf.OwnerLemmas24
/-! Lemmas about the ownership ledger, part 25: everything together (`run_all`), the executable oracle `noDangling`, and the
executable form of the coverage predicate `CovV`. -/
namespace Netpoll.Buf.Own
open Netpoll.Buf

theorem run_all {cfg : Cfg} (ops : List Op) (hc : AllSteps cfg CovV {} ops) :
    Good cfg (run cfg {} ops) ∧ ViewsOK (run cfg {} ops) :=
  ⟨run_good ops (AllSteps.mono (fun _ _ h => h.1) ops _ hc), run_views ops views_init hc⟩

/-- the executable oracle accepts every state in which the invariants hold -/
theorem noDangling_of_good {cfg : Cfg} {s : Ledger} (hg : Good cfg s) (hv : ViewsOK s) : s.noDangling = true := by
  unfold Ledger.noDangling
  rw [List.all_eq_true]
  intro k _
  cases hbl : s.mem.blocks[k]? with
  | none => rfl
  | some bl =>
    simp only [Bool.or_eq_true, decide_eq_true_eq, Bool.and_eq_true]
    by_cases hf : bl.frees = 0
    · exact Or.inl hf
    · right
      refine ⟨hg.chainedOn_nil hbl hf, ?_⟩
      unfold Ledger.liveViewsOn
      rw [List.filter_eq_nil_iff]
      intro v hvm
      simp only [Bool.and_eq_true, decide_eq_true_eq, not_and]
      intro hl hb
      subst hb
      exact absurd (view_block_unfreed hg hv hvm hl hbl) hf

theorem tailCleanB_sound {m : Mem} {b : Buf} (h : tailCleanB m b = true) : TailClean m b := by
  intro i hi nd hn
  unfold tailCleanB at h
  rw [List.all_eq_true] at h
  have := h i hi
  rw [hn] at this
  simpa using this

theorem tailOKB_sound {s : Ledger} {op : Op} (h : tailOKB s op = true) : TailOK s op := by
  cases op <;> simp only [tailOKB, TailOK] at h ⊢ <;> try trivial
  all_goals
    intro b hb
    rw [hb] at h
    exact tailCleanB_sound h

theorem covVB_sound {s : Ledger} {op : Op} (h : covVB s op = true) : CovV s op := by
  unfold covVB at h
  simp only [Bool.and_eq_true] at h
  exact ⟨covB_sound h.1, tailOKB_sound h.2⟩

end Netpoll.Buf.Own
