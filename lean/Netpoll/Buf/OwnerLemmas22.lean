import Netpoll.Buf.OwnerLemmas21
/-! Lemmas about the ownership ledger, part 22: `VS` for readCopy, GetBytes and the writer-side methods.  The methods that cut
the chain behind the write node need `TailClean`: no exposed struct behind the write node. -/
namespace Netpoll.Buf.Own
open Netpoll.Buf

theorem readCopy_vs {cfg : Cfg} {m m' : Mem} {id : Nat} {b b' : Buf} {l : Nat} (h : readCopy cfg m id b l = some (m', b')) :
    VS m b m' b' id := by
  unfold readCopy at h
  split at h
  · cases h; exact VS.refl _ _ _
  · dsimp only at h
    generalize (if b.length < l then b.length else l) = l1 at h
    obtain ⟨va, hg⟩ := allocGc_vs m b l1 id
    generalize m.allocBlock .gc l1 = p at h va hg
    obtain ⟨m1, blk⟩ := p
    simp only at h va hg
    have ve := emit_vs m1 b (.write blk 0 l1) id
    have vp : VS (m1.emit (.write blk 0 l1)) b ((m1.emit (.write blk 0 l1)).addView (some blk) 0 l1 id true) b id :=
      permView_vs (hg.ext ve.ext)
    have v012 := va.trans (ve.trans vp)
    generalize (m1.emit (.write blk 0 l1)).addView (some blk) 0 l1 id true = m2 at h v012
    have vc : VS m2 b m2 (b.consumeLen l1) id := VS.buf_only (consumeLen_keepC b _) (consumeLen_chain' b _)
    split at h
    · cases h
    · rename_i m3 b3 ho
      have v3 := onReadSuffix_vs (id := id) (fun l l' k => copyLoop_sz l _) ho
      have hb3 : b3.caches = (b.consumeLen l1).caches ∧ b3.cachePeek = (b.consumeLen l1).cachePeek ∧ b3.chain = (b.consumeLen l1).chain := by
        unfold onReadSuffix at ho
        split at ho
        · cases ho
        · split at ho
          · cases ho
          · simp only [Option.some.injEq, Prod.mk.injEq] at ho
            obtain ⟨_, rfl⟩ := ho
            exact ⟨rfl, rfl, rfl⟩
      split at h
      · cases h
      · split at h
        · cases h
        · rename_i r' _
          split at h
          · cases h
          · split at h
            · cases h
            · rename_i m4 kept hd
              obtain ⟨e4, f4, vw4, hk4⟩ := dropUnexposed_vs _ hd
              cases h
              refine v012.trans (vc.trans (v3.trans ?_))
              refine ⟨e4, f4, fun k hk => hk, fun i hi hx => ?_, [], by simp [vw4], fun v hv => by cases hv⟩
              show i ∈ kept ++ b3.chain.drop r'
              rw [← List.take_append_drop r' b3.chain] at hi
              rcases List.mem_append.1 hi with hi | hi
              · exact List.mem_append_left _ (hk4 i hi hx)
              · exact List.mem_append_right _ hi

theorem getBytesLoop_vs {id : Nat} {b : Buf} : ∀ (l : List Nat) {m m' : Mem} {cnt k c : Nat}, (∀ i ∈ l, i ∈ b.chain) →
    getBytesLoop m id l cnt k = some (m', c) → VS m b m' b id
  | [], m, m', cnt, k, c, _, h => by simp [getBytesLoop] at h; obtain ⟨rfl, _⟩ := h; exact VS.refl _ _ _
  | i :: rest, m, m', cnt, k, c, hsub, h => by
    unfold getBytesLoop at h
    split at h
    · cases h; exact VS.refl _ _ _
    · split at h
      · cases h
      · rename_i nd hn
        split at h
        · dsimp only at h
          split at h
          · cases h
          · rename_i m2 c2 hl
            cases h
            exact (expose_view_vs (nd' := { nd with exposed := true }) hn (hsub i List.mem_cons_self) rfl rfl rfl).trans
              (getBytesLoop_vs rest (fun j hj => hsub j (List.mem_cons_of_mem _ hj)) hl)
        · exact getBytesLoop_vs rest (fun j hj => hsub j (List.mem_cons_of_mem _ hj)) h

theorem getBytes_vs {m m' : Mem} {id : Nat} {b b' : Buf} {k : Nat} (h : getBytes m id b k = some (m', b')) : VS m b m' b' id := by
  unfold getBytes at h
  split at h
  · cases h
  · dsimp only at h
    generalize (if k = 0 then b.f - b.r else k) = k' at h
    split at h
    · cases h
    · rename_i m1 c hl
      have v1 := getBytesLoop_vs (b := b) (id := id) _ (fun i hi => List.mem_of_mem_drop hi) hl
      split at h
      · split at h
        · cases h
        · rename_i i hi
          split at h
          · cases h
          · rename_i fl hn
            cases h
            exact v1.trans (expose_view_vs (nd' := { fl with exposed := true }) hn (List.mem_of_getElem? hi) rfl rfl rfl)
      · cases h; exact v1

/-- no exposed struct behind the write node (they hold pending data only) -/
def TailClean (m : Mem) (b : Buf) : Prop :=
  ∀ i ∈ b.chain.drop (b.w + 1), ∀ nd : NodeS, m.nodes[i]? = some nd → nd.exposed = false

theorem keepX_tail {m : Mem} {b : Buf} {c : Nat} (ht : TailClean m b) :
    ∀ i ∈ b.chain, (∃ nd : NodeS, m.nodes[i]? = some nd ∧ nd.exposed = true) → i ∈ b.chain.take (b.w + 1) ++ [c] := by
  intro i hi hx
  rw [← List.take_append_drop (b.w + 1) b.chain] at hi
  rcases List.mem_append.1 hi with hi | hi
  · exact List.mem_append_left _ hi
  · obtain ⟨nd, g1, g2⟩ := hx
    rw [ht i hi nd g1] at g2; cases g2

theorem newNode_views (cfg : Cfg) (m : Mem) (size : Nat) : (m.newNode cfg size).1.views = m.views := by
  rcases (newNode_cases cfg m size).2 with ⟨_, h⟩ | ⟨_, c, h⟩
  · rw [h]
  · rw [h]; simp only; unfold Mem.mallocMem; split <;> simp [Mem.allocBlock]

theorem newNode_ext (cfg : Cfg) (m : Mem) (size : Nat) : Ext m (m.newNode cfg size).1 := by
  rcases (newNode_cases cfg m size).2 with ⟨_, h⟩ | ⟨_, c, h⟩
  · rw [h]; exact Ext.of_blocks_eq rfl
  · rw [h]; exact (mallocMem_ext cfg m c).trans (Ext.of_blocks_eq rfl)

/-- a fresh struct is made; the buffer's chain may only grow or lose unexposed tail structs -/
theorem newNode_vs {cfg : Cfg} {m : Mem} {b b' : Buf} {id : Nat} (size : Nat) (hc : b'.caches = b.caches) (hp : b'.cachePeek = b.cachePeek)
    (hx : ∀ i ∈ b.chain, (∃ nd : NodeS, m.nodes[i]? = some nd ∧ nd.exposed = true) → i ∈ b'.chain) : VS m b (m.newNode cfg size).1 b' id :=
  ⟨newNode_ext cfg m size, newNode_frame cfg m size, fun k hk => by unfold inCaches peekIs at *; rw [hc, hp]; exact hk, hx, [],
    by simp [newNode_views], fun v hv => by cases hv⟩

theorem growth_vs {cfg : Cfg} {m m' : Mem} {b b' : Buf} {n id : Nat} (h : growth cfg m b n = some (m', b')) : VS m b m' b' id := by
  unfold growth at h
  split at h
  · cases h; exact VS.refl _ _ _
  · split at h
    · cases h
    · rename_i m1 suf w' hg
      cases h
      rcases growthLoop_shape _ hg with ⟨rfl, rfl⟩ | ⟨rfl, rfl⟩
      · exact VS.plain (Ext.refl _) (Frame.refl _) rfl rfl rfl (fun i hi => by simp only [List.take_append_drop]; exact hi)
      · exact newNode_vs n rfl rfl (fun i hi _ => by
          simp only; rw [← List.append_assoc, List.take_append_drop]; exact List.mem_append_left _ hi)

theorem writeNodeMalloc_vs {m m' : Mem} {b : Buf} {n id : Nat} (h : writeNodeMalloc m b n = some m') : VS m b m' b id := by
  unfold writeNodeMalloc at h
  split at h
  · cases h
  · split at h
    · cases h
    · rename_i i _ _ nd hn
      have v := setSize_vs (b := b) (id := id) { nd with malloc := nd.malloc + n } hn rfl rfl rfl
      split at h
      · cases h; exact v.trans (emit_vs _ _ _ _)
      · cases h; exact v

theorem malloc_vs {cfg : Cfg} {m m' : Mem} {b b' : Buf} {n : Int} {id : Nat} (h : malloc cfg m b n = some (m', b')) : VS m b m' b' id := by
  unfold malloc at h
  split at h
  · cases h; exact VS.refl _ _ _
  · split at h
    · cases h
    · rename_i m1 b1 hg
      have v0 : VS m b m { b with mallocSize := b.mallocSize + n.toNat } id := VS.buf_only (fun _ hk => hk) rfl
      have v1 := growth_vs (id := id) hg
      split at h
      · cases h
      · rename_i m2 hw
        cases h
        exact v0.trans (v1.trans (writeNodeMalloc_vs hw))

theorem mallocAck_vs {m m' : Mem} {b b' : Buf} {n : Int} {id : Nat} (h : mallocAck m b n = some (m', b')) : VS m b m' b' id := by
  unfold mallocAck at h
  split at h
  · cases h; exact VS.refl _ _ _
  · dsimp only at h
    split at h
    · cases h
    · rename_i suf hr
      split at h
      · cases h
      · rename_i suf' k hk
        split at h
        · cases h
        · split at h
          · cases h
          · rename_i tail ht
            cases h
            have f1 := putAll_frame_sz hr (ackLoop_sz _ _ hk)
            have f2 := putAll_frame_map ht NodeS.discard (fun _ => ⟨rfl, rfl, rfl⟩)
            exact VS.plain ((putAll_ext _ _).trans (putAll_ext _ _)) (f1.trans f2)
              (by rw [(putAll_blocks _ _).2.2, (putAll_blocks _ _).2.2]) rfl rfl (fun _ hi => hi)

theorem flushCommit_vs {m m' : Mem} {b b' : Buf} {id : Nat} (h : flushCommit m b = some (m', b')) : VS m b m' b' id := by
  unfold flushCommit at h
  split at h
  · cases h
  · split at h
    · cases h
    · rename_i mid hm
      cases h
      refine VS.plain (putAll_ext _ _) (putAll_frame_map hm NodeS.commit (fun nd => ?_)) (putAll_blocks _ _).2.2 rfl rfl (fun _ hi => hi)
      unfold NodeS.commit; split <;> exact ⟨rfl, rfl, rfl⟩

theorem flush_vs {cfg : Cfg} {m m' : Mem} {b b' : Buf} {id : Nat} (ht : TailClean m b) (h : flush cfg m b = some (m', b')) :
    VS m b m' b' id := by
  unfold flush at h
  split at h
  · cases h
  · split at h
    · cases h
    · split at h
      · have v1 : VS m b (m.newNode cfg 0).1
            { b with mallocSize := 0, chain := b.chain.take (b.w + 1) ++ [(m.newNode cfg 0).2], w := b.w + 1 } id :=
          newNode_vs 0 rfl rfl (keepX_tail ht)
        exact v1.trans (flushCommit_vs h)
      · have v1 : VS m b m { b with mallocSize := 0 } id := VS.buf_only (fun _ hk => hk) rfl
        exact v1.trans (flushCommit_vs h)

/-- a fresh struct wrapped around caller memory and linked behind the write node -/
theorem wrap_vs {cfg : Cfg} {m : Mem} {b b' : Buf} {id : Nat} (x : NodeS) (hc : b'.caches = b.caches) (hp : b'.cachePeek = b.cachePeek)
    (hx : ∀ i ∈ b.chain, (∃ nd : NodeS, m.nodes[i]? = some nd ∧ nd.exposed = true) → i ∈ b'.chain) :
    VS m b ((m.newNode cfg 0).1.setNode (m.newNode cfg 0).2 x) b' id :=
  ⟨(newNode_ext cfg m 0).trans (setNode_ext _ _ _), (newNode_frame cfg m 0).setNode_new x (newNode_len cfg m 0),
    fun k hk => by unfold inCaches peekIs at *; rw [hc, hp]; exact hk, hx, [], by simp [Mem.setNode, newNode_views], fun v hv => by cases hv⟩

theorem allocCaller_vs (m : Mem) (b : Buf) (n id : Nat) : VS m b (m.allocBlock .caller n).1 b id :=
  VS.plain (allocBlock_ext m .caller n) (Frame.of_nodes_eq (allocBlock_nodes m .caller n)) (by simp [Mem.allocBlock]) rfl rfl (fun _ hi => hi)

theorem TailClean.of_nodes_eq {m m' : Mem} {b b' : Buf} (h : TailClean m b) (hn : m'.nodes = m.nodes) (hc : b'.chain = b.chain) (hw : b'.w = b.w) :
    TailClean m' b' := by
  intro i hi nd hnd
  rw [hc, hw] at hi; rw [hn] at hnd
  exact h i hi nd hnd

theorem writeBinary_vs {cfg : Cfg} {m m' : Mem} {b b' : Buf} {n pcap id : Nat} (ht : TailClean m b)
    (h : writeBinary cfg m b n pcap = some (m', b')) : VS m b m' b' id := by
  unfold writeBinary at h
  split at h
  · cases h; exact VS.refl _ _ _
  · have v0 := allocCaller_vs m b (max pcap n) id
    have hnodes := allocBlock_nodes m .caller (max pcap n)
    generalize m.allocBlock .caller (max pcap n) = p at h v0 hnodes
    obtain ⟨m1, cb⟩ := p
    dsimp only at h v0 hnodes
    split at h
    · split at h
      · cases h
      · have ht1 : TailClean m1 b := ht.of_nodes_eq hnodes rfl rfl
        have v1 : VS m1 b ((m1.newNode cfg 0).1.setNode (m1.newNode cfg 0).2 { unmanaged := true, block := some cb, malloc := n, cap := pcap })
            { b with mallocSize := b.mallocSize + n, chain := b.chain.take (b.w + 1) ++ [(m1.newNode cfg 0).2], w := b.w + 1 } id :=
          wrap_vs _ rfl rfl (keepX_tail ht1)
        generalize m1.newNode cfg 0 = q at h v1
        obtain ⟨m2, c⟩ := q
        cases h
        exact v0.trans v1
    · split at h
      · cases h
      · rename_i m2 b2 hg
        have v1 : VS m1 b m1 { b with mallocSize := b.mallocSize + n } id := VS.buf_only (fun _ hk => hk) rfl
        have v2 := growth_vs (id := id) hg
        split at h
        · cases h
        · rename_i m3 hw
          cases h
          exact v0.trans (v1.trans (v2.trans (writeNodeMalloc_vs hw)))

theorem resetTail_vs {cfg : Cfg} {m m' : Mem} {b b' : Buf} {ms id : Nat} (ht : TailClean m b) (h : resetTail cfg m b ms = some (m', b')) :
    VS m b m' b' id := by
  unfold resetTail at h
  split at h
  · cases h; exact VS.refl _ _ _
  · split at h
    · cases h
    · have v1 : VS m b (m.newNode cfg 0).1 { b with chain := b.chain.take (b.w + 1) ++ [(m.newNode cfg 0).2], w := b.w + 1, f := b.w + 1 } id :=
        newNode_vs 0 rfl rfl (keepX_tail ht)
      generalize m.newNode cfg 0 = p at h v1
      obtain ⟨m1, c⟩ := p
      cases h
      exact v1

theorem bookFill_vs {m m' : Mem} {b b' : Buf} {l n id : Nat} (h : bookFill m b l n = some (m', b')) : VS m b m' b' id := by
  unfold bookFill at h
  split at h
  · cases h
  · split at h
    · cases h
    · rename_i wi _ _ wn hwn
      split at h
      · cases h
      · split at h
        · cases h
        · cases h
          have v1 : VS m b (match wn.block with
              | some blk => if min n l > 0 then m.emit (.write blk (wn.lo + wn.malloc) (wn.lo + wn.malloc + min n l)) else m
              | none => m) b id := by
            split
            · split
              · exact emit_vs _ _ _ _
              · exact VS.refl _ _ _
            · exact VS.refl _ _ _
          have hnd : (match wn.block with
              | some blk => if min n l > 0 then m.emit (.write blk (wn.lo + wn.malloc) (wn.lo + wn.malloc + min n l)) else m
              | none => m).nodes[wi]? = some wn := by
            split
            · split
              · exact hwn
              · exact hwn
            · exact hwn
          have v2 := setSize_vs (b := b) (id := id) { wn with malloc := min n l + wn.blen, blen := min n l + wn.blen } hnd rfl rfl rfl
          exact v1.trans (v2.trans (VS.buf_only (fun _ hk => hk) rfl))

theorem bookAck_vs {cfg : Cfg} {m m' : Mem} {b b' : Buf} {bs ms n id : Nat} (ht : TailClean m b)
    (h : bookAck cfg m b bs ms n = some (m', b')) : VS m b m' b' id := by
  unfold bookAck at h
  split at h
  · cases h
  · split at h
    · cases h
    · split at h
      · have v1 : VS m b (m.newNode cfg ms).1 { b with chain := b.chain.take (b.w + 1) ++ [(m.newNode cfg ms).2], w := b.w + 1 } id :=
          newNode_vs ms rfl rfl (keepX_tail ht)
        exact v1.trans (bookFill_vs h)
      · exact bookFill_vs h

theorem mem_insert_after {l : List Nat} {oi o : Nat} (ins : List Nat) (ho : l[oi]? = some o) :
    ∀ i ∈ l, i ∈ l.take oi ++ (o :: ins) ++ l.drop (oi + 1) := by
  intro i hi
  have hlt := lt_of_getElem? ho
  have e : l = l.take oi ++ o :: l.drop (oi + 1) := by
    have := List.take_append_drop oi l
    rw [List.drop_eq_getElem_cons hlt] at this
    have h' : l[oi] = o := by rw [List.getElem?_eq_getElem hlt] at ho; exact Option.some.inj ho
    rw [h'] at this
    exact this.symm
  rw [e] at hi
  simp only [List.mem_append, List.mem_cons] at hi ⊢
  rcases hi with hi | hi | hi
  · exact Or.inl (Or.inl hi)
  · exact Or.inl (Or.inr (Or.inl hi))
  · exact Or.inr hi

theorem writeDirectAt_vs {cfg : Cfg} {m m' : Mem} {b b' : Buf} {n ecap cb oi o mm id : Nat} {remain : Int} {origin : NodeS}
    (ho : m.nodes[o]? = some origin) (hoi : b.chain[oi]? = some o)
    (h : writeDirectAt cfg m b n ecap remain cb oi o origin mm = some (m', b')) : VS m b m' b' id := by
  unfold writeDirectAt at h
  dsimp only at h
  split at h
  · cases h
  · split at h
    · cases h
    · split at h
      · -- the split: the origin keeps its memory, the new tail is a fresh struct
        cases h
        have hn1 : (dataNode cfg m cb n ecap).1.nodes[o]? = some origin := dataNode_get cfg m cb n ecap o origin ho
        have f0 : Frame m (dataNode cfg m cb n ecap).1 := (newNode_frame cfg m 0).setNode_new _ (newNode_len cfg m 0)
        have f1 : Frame (dataNode cfg m cb n ecap).1 (splitNodes cfg (dataNode cfg m cb n ecap).1 o origin mm).1 := by
          unfold splitNodes
          have g0 := (newNode_frame cfg (dataNode cfg m cb n ecap).1 0).setNode_new (origin.splitTail mm) (newNode_len cfg _ 0)
          have hic : ((dataNode cfg m cb n ecap).1.newNode cfg 0).2 ≠ o := by
            rw [(newNode_cases cfg _ 0).1]; exact (Nat.ne_of_lt (lt_of_getElem? hn1)).symm
          have hn2 : (((dataNode cfg m cb n ecap).1.newNode cfg 0).1.setNode ((dataNode cfg m cb n ecap).1.newNode cfg 0).2 (origin.splitTail mm)).nodes[o]? = some origin := by
            simp only [Mem.setNode]; rw [List.getElem?_set_ne hic]; exact newNode_nodes_get cfg _ 0 o origin hn1
          exact g0.trans (Frame.setNode (nd' := { origin with malloc := mm, unmanaged := true }) hn2 (fun e => e) (Nat.le_refl _) (fun _ => rfl))
        refine ⟨?_, f0.trans f1, fun k hk => hk, fun i hi _ => mem_insert_after _ hoi i hi, [], ?_, fun v hv => by cases hv⟩
        · exact ((newNode_ext cfg m 0).trans (setNode_ext _ _ _)).trans
            ((newNode_ext cfg _ 0).trans ((setNode_ext _ _ _).trans (setNode_ext _ _ _)))
        · simp [splitNodes, dataNode, Mem.setNode, newNode_views]
      · cases h
        exact ⟨(newNode_ext cfg m 0).trans (setNode_ext _ _ _), (newNode_frame cfg m 0).setNode_new _ (newNode_len cfg m 0),
          fun k hk => hk, fun i hi _ => mem_insert_after _ hoi i hi, [], by simp [dataNode, Mem.setNode, newNode_views], fun v hv => by cases hv⟩

theorem writeDirect_vs {cfg : Cfg} {m m' : Mem} {b b' : Buf} {n ecap id : Nat} {remain : Int}
    (h : writeDirect cfg m b n ecap remain = some (m', b')) : VS m b m' b' id := by
  unfold writeDirect at h
  split at h
  · cases h; exact VS.refl _ _ _
  · dsimp only at h
    have v0 := allocCaller_vs m b (max ecap n) id
    split at h
    · cases h
    · split at h
      · cases h
      · split at h
        · cases h
        · rename_i o hoi
          split at h
          · cases h
          · rename_i origin ho
            split at h
            · cases h
            · exact v0.trans (writeDirectAt_vs ho hoi h)

end Netpoll.Buf.Own
