import Netpoll.Buf.Refine
/-
The one-step refinement theorem over all single-buffer operations (`refine_step`), and the
lockstep run of model and spec over an operation list (`Conforms`).
-/
namespace Netpoll.Buf

variable {α : Type}

/-- Every in-contract single-buffer operation: the model does not panic, its result is what the
FIFO spec allows, and the new model state represents the spec's new state. -/
theorem refine_step [DecidableEq α] (cfg : Cfg) {b : LB α} {q : Q α} (hR : R b q) (op : Op α)
    (hC : Contract q op = true) :
    ∃ b' r, b.step cfg op = some (b', r) ∧ R b' (specNext q op r) ∧ Matches r (specStep q op).2 := by
  cases op with
  | malloc n d => exact malloc_refines cfg hR n d hC
  | writeBinary p pcap => exact writeBinary_refines cfg hR p pcap hC
  | writeByte a => exact writeByte_refines cfg hR a hC
  | writeDirect p pcap remain => exact writeDirect_refines cfg hR p pcap remain hC
  | mallocAck n => exact mallocAck_refines hR n hC
  | flush => exact flush_refines cfg hR hC
  | next n => exact next_refines cfg hR n hC
  | peek n => exact peek_refines cfg hR n hC
  | skip n => exact skip_refines hR n hC
  | readBinary n => exact readBinary_refines hR n hC
  | readByte => exact readByte_refines hR hC
  | «until» c => exact until_refines cfg hR c hC
  | readCopy l => exact readCopy_refines hR l hC
  | release => exact release_refines hR hC
  | close => exact close_refines cfg hR hC
  | len => exact len_refines cfg hR
  | mallocLen => exact mallocLen_refines cfg hR
  | bytes => exact bytes_refines cfg hR hC
  | getBytes k => exact getBytes_refines cfg hR k hC
  | indexByte c skip => exact indexByte_refines cfg hR c skip hC
  | bookAck bookSize maxSize d =>
    obtain ⟨b', l, e, _, _, hR'⟩ := bookAck_refines cfg hR bookSize maxSize d hC
    refine ⟨b', .num l, e, ?_, ?_⟩
    · show R b' (q.received (d.take (l : Int).toNat))
      simpa using hR'
    · show Res.num (l : Int) ≠ Res.err
      intro h; cases h
  | resetTail maxSize => exact resetTail_refines cfg hR maxSize hC
  | calcMaxSize => exact calcMaxSize_refines cfg hR hC

/-- Model (from `b`) and spec (from `q`) run in lockstep over `ops`: for as long as every call is
inside the documented contract, the model does not panic, every result is one the spec allows,
and after every call the model's content, `Len()` and `MallocLen()` are the queue's.
Nothing is claimed from the first out-of-contract call on. -/
def Conforms [DecidableEq α] (cfg : Cfg) : LB α → Q α → List (Op α) → Prop
  | _, _, [] => True
  | b, q, op :: ops =>
    Contract q op = true →
      ∃ b' r, b.step cfg op = some (b', r) ∧ Matches r (specStep q op).2 ∧
        b'.abs = (specNext q op r).items ∧
        (b'.length : Nat) = (specNext q op r).len ∧
        b'.mallocSize = (specNext q op r).mallocLen ∧
        Conforms cfg b' (specNext q op r) ops

theorem conforms_of_R [DecidableEq α] (cfg : Cfg) (ops : List (Op α)) :
    ∀ {b : LB α} {q : Q α}, R b q → Conforms cfg b q ops := by
  induction ops with
  | nil => intro _ _ _; trivial
  | cons op ops ih =>
    intro b q hR hC
    obtain ⟨b', r, e, hR', hm⟩ := refine_step cfg hR op hC
    exact ⟨b', r, e, hm, hR'.abs, hR'.len, hR'.mlen, ih hR'⟩

/-- computable lockstep run (for examples): results of the model, `none` if the model panics, a call
is outside the contract, or a result is not the one the spec prescribes exactly -/
def runChecked [DecidableEq α] (cfg : Cfg) : LB α → Q α → List (Op α) → Option (List (Res α) × LB α × Q α)
  | b, q, [] => some ([], b, q)
  | b, q, op :: ops =>
    if Contract q op then
      match b.step cfg op with
      | none => none
      | some (b', r) =>
        match runChecked cfg b' (specNext q op r) ops with
        | none => none
        | some (rs, b'', q'') => some (r :: rs, b'', q'')
    else none

/-- states reachable by in-contract calls are related by `R` (used to exhibit non-trivial states) -/
theorem R_of_runChecked [DecidableEq α] (cfg : Cfg) (ops : List (Op α)) :
    ∀ {b : LB α} {q : Q α} {rs b' q'}, R b q → runChecked cfg b q ops = some (rs, b', q') → R b' q' := by
  induction ops with
  | nil => intro b q rs b' q' hR h; simp [runChecked] at h; obtain ⟨_, rfl, rfl⟩ := h; exact hR
  | cons op ops ih =>
    intro b q rs b' q' hR h
    simp only [runChecked] at h
    split at h
    · rename_i hC
      obtain ⟨b1, r, e, hR1, _⟩ := refine_step cfg hR op hC
      rw [e] at h
      simp only at h
      split at h
      · cases h
      · rename_i rs1 b2 q2 e2
        cases h
        exact ih hR1 e2
    · cases h

/-- exhibits a (non-trivial) model state representing the queue `q'` reached by a checked run -/
theorem exists_R_of_run [DecidableEq α] (cfg : Cfg) (size : Nat) (ops : List (Op α)) (q' : Q α)
    (h : (runChecked cfg (newLB cfg size : LB α) {} ops).map (·.2.2) = some q') : ∃ b : LB α, R b q' := by
  cases e : runChecked cfg (newLB cfg size : LB α) {} ops with
  | none => rw [e] at h; cases h
  | some x =>
    obtain ⟨rs, b, q⟩ := x
    rw [e] at h
    simp at h; subst h
    exact ⟨b, R_of_runChecked cfg ops (R_newLB cfg size) e⟩

end Netpoll.Buf
