import Netpoll.Buf.OwnerLemmas
/-! Lemmas about the ownership ledger, part 2: the cursor loops only change size fields; typing invariant
through every LinkBuffer method. -/
namespace Netpoll.Buf.Own
open Netpoll.Buf

/-- `a` differs from `b` at most in the size / cursor fields (`blen`, `off`, `malloc`) -/
def SizeOnly (a b : NodeS) : Prop :=
  a.block = b.block ∧ a.lo = b.lo ∧ a.cap = b.cap ∧ a.unmanaged = b.unmanaged ∧ a.refer = b.refer ∧
  a.origin = b.origin ∧ a.recycled = b.recycled ∧ a.exposed = b.exposed

theorem SizeOnly.refl (a : NodeS) : SizeOnly a a := ⟨rfl, rfl, rfl, rfl, rfl, rfl, rfl, rfl⟩

/-- same ids, nodes changed in size fields only -/
inductive SzL : List (Nat × NodeS) → List (Nat × NodeS) → Prop where
  | nil : SzL [] []
  | cons {p p' : Nat × NodeS} {l l' : List (Nat × NodeS)} : (p'.1 = p.1 ∧ SizeOnly p'.2 p.2) → SzL l l' → SzL (p :: l) (p' :: l')

theorem SzL.refl : ∀ l : List (Nat × NodeS), SzL l l
  | [] => SzL.nil
  | _ :: l => SzL.cons ⟨rfl, SizeOnly.refl _⟩ (SzL.refl l)

theorem SzL.mem {l l' : List (Nat × NodeS)} (h : SzL l l') : ∀ p' ∈ l', ∃ p ∈ l, p'.1 = p.1 ∧ SizeOnly p'.2 p.2 := by
  induction h with
  | nil => intro p' hp; cases hp
  | cons hab _ ih =>
    intro p' hp
    rcases List.mem_cons.1 hp with rfl | hp
    · exact ⟨_, List.mem_cons_self, hab⟩
    · obtain ⟨p, hm, hr⟩ := ih p' hp
      exact ⟨p, List.mem_cons_of_mem _ hm, hr⟩

theorem nextLoop_sz : ∀ (l : List (Nat × NodeS)) (ack : Nat) {l' : List (Nat × NodeS)} {k : Nat},
    nextLoop l ack = some (l', k) → SzL l l'
  | [], _, _, _, h => by simp [nextLoop] at h
  | (i, nd) :: rest, ack, l', k, h => by
    unfold nextLoop at h
    split at h
    · cases h; exact SzL.cons ⟨rfl, ⟨rfl, rfl, rfl, rfl, rfl, rfl, rfl, rfl⟩⟩ (SzL.refl _)
    · cases h1 : nextLoop rest (ack - nd.rlen) with
      | none => simp [h1] at h
      | some r =>
        obtain ⟨rest', k'⟩ := r
        simp only [h1, Option.some.injEq, Prod.mk.injEq] at h
        obtain ⟨h, _⟩ := h
        subst h
        refine SzL.cons ⟨rfl, ?_⟩ (nextLoop_sz rest _ h1)
        split
        · exact ⟨rfl, rfl, rfl, rfl, rfl, rfl, rfl, rfl⟩
        · exact SizeOnly.refl _

theorem skipLoop_sz : ∀ (l : List (Nat × NodeS)) (ack : Nat) {l' : List (Nat × NodeS)} {k : Nat},
    skipLoop l ack = some (l', k) → SzL l l'
  | [], _, _, _, h => by simp [skipLoop] at h
  | (i, nd) :: rest, ack, l', k, h => by
    unfold skipLoop at h
    split at h
    · cases h; exact SzL.cons ⟨rfl, ⟨rfl, rfl, rfl, rfl, rfl, rfl, rfl, rfl⟩⟩ (SzL.refl _)
    · cases h1 : skipLoop rest (ack - nd.rlen) with
      | none => simp [h1] at h
      | some r =>
        obtain ⟨rest', k'⟩ := r
        simp only [h1, Option.some.injEq, Prod.mk.injEq] at h
        obtain ⟨h, _⟩ := h
        subst h
        exact SzL.cons ⟨rfl, SizeOnly.refl _⟩ (skipLoop_sz rest _ h1)

theorem readByteLoop_sz : ∀ (l : List (Nat × NodeS)) {l' : List (Nat × NodeS)} {k : Nat},
    readByteLoop l = some (l', k) → SzL l l'
  | [], _, _, h => by simp [readByteLoop] at h
  | (i, nd) :: rest, l', k, h => by
    unfold readByteLoop at h
    split at h
    · cases h; exact SzL.cons ⟨rfl, ⟨rfl, rfl, rfl, rfl, rfl, rfl, rfl, rfl⟩⟩ (SzL.refl _)
    · cases h1 : readByteLoop rest with
      | none => simp [h1] at h
      | some r =>
        obtain ⟨rest', k'⟩ := r
        simp only [h1, Option.some.injEq, Prod.mk.injEq] at h
        obtain ⟨h, _⟩ := h
        subst h
        exact SzL.cons ⟨rfl, SizeOnly.refl _⟩ (readByteLoop_sz rest h1)

theorem copyLoop_sz : ∀ (l : List (Nat × NodeS)) (ack : Nat) {l' : List (Nat × NodeS)} {k : Nat},
    copyLoop l ack = some (l', k) → SzL l l'
  | [], _, _, _, h => by simp [copyLoop] at h
  | (i, nd) :: rest, ack, l', k, h => by
    unfold copyLoop at h
    split at h
    · cases h1 : copyLoop rest ack with
      | none => simp [h1] at h
      | some r =>
        obtain ⟨rest', k'⟩ := r
        simp only [h1, Option.some.injEq, Prod.mk.injEq] at h
        obtain ⟨h, _⟩ := h
        subst h
        exact SzL.cons ⟨rfl, SizeOnly.refl _⟩ (copyLoop_sz rest _ h1)
    · split at h
      · cases h; exact SzL.cons ⟨rfl, ⟨rfl, rfl, rfl, rfl, rfl, rfl, rfl, rfl⟩⟩ (SzL.refl _)
      · cases h1 : copyLoop rest (ack - nd.rlen) with
        | none => simp [h1] at h
        | some r =>
          obtain ⟨rest', k'⟩ := r
          simp only [h1, Option.some.injEq, Prod.mk.injEq] at h
          obtain ⟨h, _⟩ := h
          subst h
          exact SzL.cons ⟨rfl, SizeOnly.refl _⟩ (copyLoop_sz rest _ h1)

theorem ackLoop_sz : ∀ (l : List (Nat × NodeS)) (ack : Int) {l' : List (Nat × NodeS)} {k : Nat},
    ackLoop l ack = some (l', k) → SzL l l'
  | [], _, _, _, h => by simp [ackLoop] at h
  | (i, nd) :: rest, ack, l', k, h => by
    unfold ackLoop at h
    split at h
    · cases h; exact SzL.cons ⟨rfl, ⟨rfl, rfl, rfl, rfl, rfl, rfl, rfl, rfl⟩⟩ (SzL.refl _)
    · cases h1 : ackLoop rest (ack - nd.pendLen) with
      | none => simp [h1] at h
      | some r =>
        obtain ⟨rest', k'⟩ := r
        simp only [h1, Option.some.injEq, Prod.mk.injEq] at h
        obtain ⟨h, _⟩ := h
        subst h
        exact SzL.cons ⟨rfl, SizeOnly.refl _⟩ (ackLoop_sz rest _ h1)

theorem resolve_mem : ∀ (l : List Nat) {s : Mem} {suf : List (Nat × NodeS)}, s.resolve l = some suf →
    ∀ p ∈ suf, s.nodes[p.1]? = some p.2
  | [], s, suf, h => by simp [Mem.resolve] at h; subst h; intro p hp; cases hp
  | i :: rest, s, suf, h => by
    unfold Mem.resolve at h
    cases h1 : s.nodes[i]? with
    | none => simp [h1] at h
    | some nd =>
      cases h2 : s.resolve rest with
      | none => simp [h1, h2] at h
      | some l =>
        simp only [h1, h2, Option.some.injEq] at h
        subst h
        intro p hp
        rcases List.mem_cons.1 hp with rfl | hp
        · exact h1
        · exact resolve_mem rest h2 p hp

theorem putAll_blocks : ∀ (l : List (Nat × NodeS)) (s : Mem), (s.putAll l).blocks = s.blocks ∧ (s.putAll l).log = s.log ∧
    (s.putAll l).views = s.views
  | [], s => ⟨rfl, rfl, rfl⟩
  | (i, nd) :: rest, s => by
    unfold Mem.putAll
    obtain ⟨h1, h2, h3⟩ := putAll_blocks rest (s.setNode i nd)
    exact ⟨h1, h2, h3⟩

theorem putAll_core {cfg : Cfg} {st : Bool} : ∀ (l : List (Nat × NodeS)) {s : Mem}, Core cfg st s → (∀ p ∈ l, NodeOK cfg s p.2) →
    Core cfg st (s.putAll l)
  | [], s, hc, _ => hc
  | (i, nd) :: rest, s, hc, h => by
    unfold Mem.putAll
    exact putAll_core rest (setNode_core hc (h (i, nd) List.mem_cons_self))
      (fun p hp => (h p (List.mem_cons_of_mem _ hp)).ext (setNode_ext _ _ _))

theorem putAll_ext (l : List (Nat × NodeS)) (s : Mem) : Ext s (s.putAll l) := Ext.of_blocks_eq (putAll_blocks l s).1

/-- writing back a resolved chain whose nodes changed in size fields only -/
theorem putAll_sz_core {cfg : Cfg} {st : Bool} {s : Mem} {l : List Nat} {suf suf' : List (Nat × NodeS)} (hc : Core cfg st s)
    (hr : s.resolve l = some suf) (hs : SzL suf suf') : Core cfg st (s.putAll suf') := by
  refine putAll_core suf' hc (fun p' hp' => ?_)
  obtain ⟨p, hm, _, h1, _, h3, h4, _⟩ := hs.mem p' hp'
  exact (hc.node p.1 p.2 (resolve_mem l hr p hm)).of_same h4 h1 h3

end Netpoll.Buf.Own
