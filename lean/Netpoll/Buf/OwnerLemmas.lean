import Netpoll.Buf.Owner
/-!
Lemmas about the ownership ledger, part 1: the *typing* invariant `Typed` (which memory a node, a cache
entry or an event may refer to), preserved by every operation without any hypothesis.
It gives `C03_free_only_pool` and (with the growth lemma) `C03_caller_untouched`.
-/
namespace Netpoll.Buf.Own
open Netpoll.Buf

theorem getElem?_append_one {α : Type} {l : List α} {a x : α} {i : Nat} (h : (l ++ [a])[i]? = some x) :
    l[i]? = some x ∨ (i = l.length ∧ x = a) := by
  rcases Nat.lt_trichotomy i l.length with hlt | heq | hgt
  · left; rwa [List.getElem?_append_left hlt] at h
  · right; subst heq; simp at h; exact ⟨rfl, h.symm⟩
  · rw [List.getElem?_eq_none (by simp; omega)] at h; cases h

theorem getElem?_set_cases {α : Type} {l : List α} {a x : α} {i j : Nat} (h : (l.set i a)[j]? = some x) :
    (j = i ∧ x = a) ∨ (j ≠ i ∧ l[j]? = some x) := by
  by_cases hij : i = j
  · subst hij
    left
    rw [List.getElem?_set_self'] at h
    cases hl : l[i]? <;> simp [hl] at h
    exact ⟨rfl, h.symm⟩
  · right; rw [List.getElem?_set_ne hij] at h; exact ⟨fun h' => hij h'.symm, h⟩

theorem lt_of_getElem? {α : Type} {l : List α} {x : α} {i : Nat} (h : l[i]? = some x) : i < l.length := by
  rcases Nat.lt_or_ge i l.length with h' | h'
  · exact h'
  · rw [List.getElem?_eq_none h'] at h; cases h

/-- kinds and capacities of existing blocks never change (the table only grows, `frees`/`split` change) -/
def Ext (s s' : Mem) : Prop :=
  ∀ (b : Nat) (bl : Block), s.blocks[b]? = some bl → ∃ bl' : Block, s'.blocks[b]? = some bl' ∧ bl'.kind = bl.kind ∧ bl'.cap = bl.cap

theorem Ext.refl (s : Mem) : Ext s s := fun _ bl h => ⟨bl, h, rfl, rfl⟩

theorem Ext.trans {s s' s'' : Mem} (h : Ext s s') (h' : Ext s' s'') : Ext s s'' := by
  intro b bl hb
  obtain ⟨bl', h1, h2, h3⟩ := h b bl hb
  obtain ⟨bl'', h4, h5, h6⟩ := h' b bl' h1
  exact ⟨bl'', h4, by simp [*], by simp [*]⟩

theorem Ext.of_blocks_eq {s s' : Mem} (h : s'.blocks = s.blocks) : Ext s s' := by
  intro b bl hb; exact ⟨bl, by simpa [h] using hb, rfl, rfl⟩

/-- memory that may be handed to `free` as a slice of capacity `cap`: a pool block, or GC memory that
`free` will not pass on because it is larger than `mallocMax` -/
def BlkOK (cfg : Cfg) (s : Mem) (b cap : Nat) : Prop :=
  ∃ bl, s.blocks[b]? = some bl ∧ (bl.kind = .pool ∨ (bl.kind = .gc ∧ cap > cfg.mallocMax))

theorem BlkOK.ext {cfg : Cfg} {s s' : Mem} {b cap : Nat} (h : Ext s s') : BlkOK cfg s b cap → BlkOK cfg s' b cap := by
  rintro ⟨bl, hb, hk⟩
  obtain ⟨bl', h1, h2, _⟩ := h b bl hb
  exact ⟨bl', h1, by rw [h2]; exact hk⟩

/-- a reusable node sits on memory that may go to `free` -/
def NodeOK (cfg : Cfg) (s : Mem) (nd : NodeS) : Prop :=
  nd.unmanaged = false → ∀ b, nd.block = some b → BlkOK cfg s b nd.cap

theorem NodeOK.ext {cfg : Cfg} {s s' : Mem} {nd : NodeS} (h : Ext s s') : NodeOK cfg s nd → NodeOK cfg s' nd :=
  fun hn hu b hb => (hn hu b hb).ext h

/-- what an event may refer to: `free` reaches the pool only with pool blocks (and never above `mallocMax`);
netpoll never writes caller memory -/
def EvOK (cfg : Cfg) (st : Bool) (s : Mem) : Ev → Prop
  | .free b cap => cap ≤ cfg.mallocMax ∧ ∃ bl, s.blocks[b]? = some bl ∧ bl.kind = .pool
  | .write b _ _ => st = true → ∃ bl, s.blocks[b]? = some bl ∧ bl.kind ≠ .caller
  | .malloc _ => True

theorem EvOK.ext {cfg : Cfg} {st : Bool} {s s' : Mem} {e : Ev} (h : Ext s s') : EvOK cfg st s e → EvOK cfg st s' e := by
  cases e with
  | free b cap =>
    rintro ⟨h1, bl, hb, hk⟩
    obtain ⟨bl', h2, h3, _⟩ := h b bl hb
    exact ⟨h1, bl', h2, by rw [h3]; exact hk⟩
  | write b lo hi =>
    intro hw hst
    obtain ⟨bl, hb, hk⟩ := hw hst
    obtain ⟨bl', h2, h3, _⟩ := h b bl hb
    exact ⟨bl', h2, by rw [h3]; exact hk⟩
  | malloc b => exact id

structure Core (cfg : Cfg) (st : Bool) (s : Mem) : Prop where
  node : ∀ (i : Nat) (nd : NodeS), s.nodes[i]? = some nd → NodeOK cfg s nd
  log : ∀ e ∈ s.log, EvOK cfg st s e
  /-- only pool blocks have ever been handed to `free` -/
  frees : ∀ (k : Nat) (bl : Block), s.blocks[k]? = some bl → bl.frees > 0 → bl.kind = .pool

/-- a cache block of capacity `cp`: memory that may go to `free` as a whole -/
def CacheOK (cfg : Cfg) (s : Mem) (blk cp : Nat) : Prop :=
  ∃ bl : Block, s.blocks[blk]? = some bl ∧ bl.cap = cp ∧ (bl.kind = .pool ∨ (bl.kind = .gc ∧ cp > cfg.mallocMax))

theorem CacheOK.ext {cfg : Cfg} {s s' : Mem} {blk cp : Nat} (h : Ext s s') : CacheOK cfg s blk cp → CacheOK cfg s' blk cp := by
  rintro ⟨bl, h1, h2, h3⟩
  obtain ⟨bl', h4, h5, h6⟩ := h blk bl h1
  exact ⟨bl', h4, by rw [h6, h2], by rw [h5]; exact h3⟩

theorem CacheOK.blkOK {cfg : Cfg} {s : Mem} {blk cp : Nat} : CacheOK cfg s blk cp → BlkOK cfg s blk cp := by
  rintro ⟨bl, h1, _, h3⟩; exact ⟨bl, h1, h3⟩

/-- the caches of a buffer hold memory that may go to `free` -/
structure BufOK (cfg : Cfg) (s : Mem) (b : Buf) : Prop where
  caches : ∀ blk ∈ b.caches, ∃ cp : Nat, CacheOK cfg s blk cp
  peek : ∀ (blk l cp : Nat), b.cachePeek = some (blk, l, cp) → CacheOK cfg s blk cp

theorem BufOK.ext {cfg : Cfg} {s s' : Mem} {b : Buf} (h : Ext s s') (hb : BufOK cfg s b) : BufOK cfg s' b := by
  refine ⟨fun blk hm => ?_, fun blk l cp hp => (hb.peek blk l cp hp).ext h⟩
  obtain ⟨cp, h1⟩ := hb.caches blk hm
  exact ⟨cp, h1.ext h⟩

/-- `BufOK` only looks at the caches -/
theorem BufOK.of_caches_eq {cfg : Cfg} {s : Mem} {b b' : Buf} (hb : BufOK cfg s b)
    (h1 : b'.caches = b.caches) (h2 : b'.cachePeek = b.cachePeek) : BufOK cfg s b' :=
  ⟨by rw [h1]; exact hb.caches, by rw [h2]; exact hb.peek⟩

theorem BufOK.empty {cfg : Cfg} {s : Mem} {b : Buf} (h1 : b.caches = []) (h2 : b.cachePeek = none) : BufOK cfg s b :=
  ⟨fun blk h => (by rw [h1] at h; cases h), fun blk l cp h => (by rw [h2] at h; cases h)⟩

theorem Core.of_eq {cfg : Cfg} {st : Bool} {s s' : Mem} (hc : Core cfg st s) (hn : s'.nodes = s.nodes) (hb : s'.blocks = s.blocks)
    (hl : s'.log = s.log) : Core cfg st s' := by
  have he : Ext s s' := Ext.of_blocks_eq hb
  exact ⟨fun i nd h => (hc.node i nd (by simpa [hn] using h)).ext he, fun e h => (hc.log e (by simpa [hl] using h)).ext he,
    fun k bl h => hc.frees k bl (by rw [← hb]; exact h)⟩

/-! ### primitives -/

theorem setNode_core {cfg : Cfg} {st : Bool} {s : Mem} {i : Nat} {nd : NodeS} (hc : Core cfg st s) (hn : NodeOK cfg s nd) :
    Core cfg st (s.setNode i nd) := by
  refine ⟨fun j nd' h => ?_, hc.log, hc.frees⟩
  simp only [Mem.setNode, List.getElem?_set] at h
  split at h
  · split at h
    · cases h; exact hn
    · cases h
  · exact hc.node j nd' h

/-- a node that refers to no memory of its own, or is not reusable, is fine -/
theorem NodeOK.of_unmanaged {cfg : Cfg} {s : Mem} {nd : NodeS} (h : nd.unmanaged = true) : NodeOK cfg s nd :=
  fun hu => by simp [h] at hu

/-- same ownership fields: same verdict -/
theorem NodeOK.of_same {cfg : Cfg} {s : Mem} {nd nd' : NodeS} (h : NodeOK cfg s nd)
    (h1 : nd'.unmanaged = nd.unmanaged) (h2 : nd'.block = nd.block) (h3 : nd'.cap = nd.cap) : NodeOK cfg s nd' := by
  intro hu b hb; rw [h3]; exact h (h1 ▸ hu) b (h2 ▸ hb)

theorem emit_core {cfg : Cfg} {st : Bool} {s : Mem} {e : Ev} (hc : Core cfg st s) (he : EvOK cfg st s e) : Core cfg st (s.emit e) := by
  refine ⟨hc.node, fun e' h => ?_, hc.frees⟩
  simp only [Mem.emit, List.mem_append, List.mem_singleton] at h
  rcases h with h | h
  · exact hc.log e' h
  · exact h ▸ he

theorem addView_core {cfg : Cfg} {st : Bool} {s : Mem} {blk : Option Nat} {lo hi o : Nat} {p : Bool} (hc : Core cfg st s) :
    Core cfg st (s.addView blk lo hi o p) := by
  unfold Mem.addView; split
  · exact hc
  · split
    · exact hc
    · exact hc.of_eq rfl rfl rfl

theorem addView_blocks (s : Mem) (blk : Option Nat) (lo hi o : Nat) (p : Bool) :
    (s.addView blk lo hi o p).blocks = s.blocks := by
  unfold Mem.addView; split
  · rfl
  · split <;> rfl

theorem endViews_core {cfg : Cfg} {st : Bool} {s : Mem} {o : Nat} (hc : Core cfg st s) : Core cfg st (s.endViews o) :=
  hc.of_eq rfl rfl rfl

theorem allocBlock_ext (s : Mem) (k : Kind) (c : Nat) : Ext s (s.allocBlock k c).1 := by
  intro b bl hb
  have hlt : b < s.blocks.length := by
    rcases Nat.lt_or_ge b s.blocks.length with h | h
    · exact h
    · simp [List.getElem?_eq_none h] at hb
  refine ⟨bl, ?_, rfl, rfl⟩
  cases k <;> simp [Mem.allocBlock, List.getElem?_append_left hlt, hb]

theorem allocBlock_get (s : Mem) (k : Kind) (c : Nat) :
    ∃ bl, (s.allocBlock k c).1.blocks[(s.allocBlock k c).2]? = some bl ∧ bl.kind = k ∧ bl.cap = c := by
  cases k <;> simp [Mem.allocBlock]

theorem allocBlock_core {cfg : Cfg} {st : Bool} {s : Mem} (k : Kind) (c : Nat) (hc : Core cfg st s) : Core cfg st (s.allocBlock k c).1 := by
  have he := allocBlock_ext s k c
  refine ⟨fun i nd h => ?_, fun e h => ?_, fun j bl h hf => ?_⟩
  rotate_left 2
  · have hb : (s.allocBlock k c).1.blocks = s.blocks ++ [{ kind := k, cap := c, pid := if k = .pool then s.npool else 0 }] := by
      cases k <;> simp [Mem.allocBlock]
    rw [hb] at h
    rcases getElem?_append_one h with h | ⟨_, h⟩
    · exact hc.frees j bl h hf
    · subst h; simp at hf
  · have : s.nodes[i]? = some nd := by cases k <;> simpa [Mem.allocBlock] using h
    exact (hc.node i nd this).ext he
  · cases k
    · simp only [Mem.allocBlock, List.mem_append, List.mem_singleton] at h
      rcases h with h | h
      · exact (hc.log e h).ext he
      · subst h; trivial
    · exact (hc.log e (by simpa [Mem.allocBlock] using h)).ext he
    · exact (hc.log e (by simpa [Mem.allocBlock] using h)).ext he

/-- the general way to re-establish `Core`: blocks extended, every node / event is an old one or fine now -/
theorem Core.step {cfg : Cfg} {st : Bool} {s s' : Mem} (hc : Core cfg st s) (he : Ext s s')
    (hn : ∀ (i : Nat) (nd : NodeS), s'.nodes[i]? = some nd → s.nodes[i]? = some nd ∨ NodeOK cfg s' nd)
    (hl : ∀ e ∈ s'.log, e ∈ s.log ∨ EvOK cfg st s' e)
    (hf : ∀ (k : Nat) (bl : Block), s'.blocks[k]? = some bl → bl.frees > 0 → bl.kind = .pool) : Core cfg st s' := by
  refine ⟨fun i nd h => ?_, fun e h => ?_, hf⟩
  · rcases hn i nd h with h1 | h1
    · exact (hc.node i nd h1).ext he
    · exact h1
  · rcases hl e h with h1 | h1
    · exact (hc.log e h1).ext he
    · exact h1

theorem mallocMem_spec {cfg : Cfg} {st : Bool} {s : Mem} (c : Nat) (hc : Core cfg st s) :
    Ext s (s.mallocMem cfg c).1 ∧ Core cfg st (s.mallocMem cfg c).1 ∧
    (s.mallocMem cfg c).1.nodes = s.nodes ∧
    ∃ bl : Block, (s.mallocMem cfg c).1.blocks[(s.mallocMem cfg c).2.1]? = some bl ∧ bl.cap = (s.mallocMem cfg c).2.2 ∧
      (bl.kind = .pool ∨ (bl.kind = .gc ∧ (s.mallocMem cfg c).2.2 > cfg.mallocMax)) := by
  unfold Mem.mallocMem
  split
  · refine ⟨allocBlock_ext _ _ _, allocBlock_core _ _ hc, by simp [Mem.allocBlock], ?_⟩
    obtain ⟨bl, h1, h2, h3⟩ := allocBlock_get s .gc c
    exact ⟨bl, h1, h3, Or.inr ⟨h2, by assumption⟩⟩
  · refine ⟨allocBlock_ext _ _ _, allocBlock_core _ _ hc, by simp [Mem.allocBlock], ?_⟩
    obtain ⟨bl, h1, h2, h3⟩ := allocBlock_get s .pool (pow2ge c)
    exact ⟨bl, h1, h3, Or.inl h2⟩

theorem freeMem_cases (cfg : Cfg) (s : Mem) (blk : Option Nat) (cap : Nat) :
    s.freeMem cfg blk cap = s ∨
    ∃ (b : Nat) (bl : Block), blk = some b ∧ ¬ cap > cfg.mallocMax ∧ s.blocks[b]? = some bl ∧
      s.freeMem cfg blk cap = { s with blocks := s.blocks.set b { bl with frees := bl.frees + 1 }, log := s.log ++ [.free b cap] } := by
  unfold Mem.freeMem
  by_cases hcap : cap > cfg.mallocMax
  · simp [hcap]
  · cases blk with
    | none => simp [hcap]
    | some b =>
      cases hb : s.blocks[b]? with
      | none => simp [hcap, hb]
      | some bl => right; exact ⟨b, bl, rfl, hcap, hb, by simp [hcap, hb]⟩

theorem freeMem_ext (cfg : Cfg) (s : Mem) (blk : Option Nat) (cap : Nat) : Ext s (s.freeMem cfg blk cap) := by
  rcases freeMem_cases cfg s blk cap with h | ⟨b, bl, _, _, hb, h⟩
  · rw [h]; exact Ext.refl s
  · rw [h]
    intro b' bl' hb'
    by_cases hbb : b = b'
    · subst hbb
      rw [hb] at hb'; cases hb'
      exact ⟨_, List.getElem?_set_self (lt_of_getElem? hb), rfl, rfl⟩
    · exact ⟨bl', by simp [List.getElem?_set_ne hbb, hb'], rfl, rfl⟩

theorem freeMem_nodes (cfg : Cfg) (s : Mem) (blk : Option Nat) (cap : Nat) : (s.freeMem cfg blk cap).nodes = s.nodes := by
  rcases freeMem_cases cfg s blk cap with h | ⟨b, bl, _, _, _, h⟩ <;> rw [h]

theorem freeMem_core {cfg : Cfg} {st : Bool} {s : Mem} {blk : Option Nat} {cap : Nat} (hc : Core cfg st s)
    (hb : ∀ b, blk = some b → BlkOK cfg s b cap) : Core cfg st (s.freeMem cfg blk cap) := by
  have he := freeMem_ext cfg s blk cap
  refine hc.step he (fun i nd h => Or.inl (by simpa [freeMem_nodes] using h)) (fun e h => ?_) (fun k bl1 hk1 hf1 => ?_)
  rotate_left
  · rcases freeMem_cases cfg s blk cap with h' | ⟨b, bl, hblk, hcap, hbl, h'⟩
    · rw [h'] at hk1; exact hc.frees k bl1 hk1 hf1
    · rw [h'] at hk1
      simp only at hk1
      by_cases hkb : b = k
      · subst hkb
        rw [List.getElem?_set_self (lt_of_getElem? hbl)] at hk1
        cases hk1
        obtain ⟨bl0, h1, h2⟩ := hb b hblk
        rw [hbl] at h1; cases h1
        rcases h2 with h2 | ⟨_, h2⟩
        · exact h2
        · exact absurd h2 hcap
      · rw [List.getElem?_set_ne hkb] at hk1
        exact hc.frees k bl1 hk1 hf1
  rcases freeMem_cases cfg s blk cap with h' | ⟨b, bl, hblk, hcap, hbl, h'⟩
  · rw [h'] at h; exact Or.inl h
  · rw [h'] at h
    simp only [List.mem_append, List.mem_singleton] at h
    rcases h with h | h
    · exact Or.inl h
    · right; subst h
      obtain ⟨bl0, h1, h2⟩ := hb b hblk
      rw [hbl] at h1; cases h1
      have hk : bl.kind = .pool := by
        rcases h2 with h2 | ⟨_, h2⟩
        · exact h2
        · exact absurd h2 hcap
      obtain ⟨bl', h3, h4, _⟩ := he b bl hbl
      exact ⟨Nat.le_of_not_gt hcap, bl', h3, by rw [h4]; exact hk⟩

/-- `newLinkBufferNode`: one struct appended; it is unmanaged without memory, or sits on fresh `malloc` memory -/
theorem newNode_cases (cfg : Cfg) (s : Mem) (size : Nat) :
    (s.newNode cfg size).2 = s.nodes.length ∧
    ((size = 0 ∧ (s.newNode cfg size).1 = { s with nodes := s.nodes ++ [{ unmanaged := true }] }) ∨
     (size ≠ 0 ∧ ∃ c : Nat, (s.newNode cfg size).1 =
        { (s.mallocMem cfg c).1 with nodes := (s.mallocMem cfg c).1.nodes ++ [{ block := some (s.mallocMem cfg c).2.1, cap := (s.mallocMem cfg c).2.2 }] })) := by
  unfold Mem.newNode
  by_cases h : size = 0
  · simp [h]
  · simp only [h, if_false]
    exact ⟨trivial, Or.inr ⟨fun h' => h h', _, rfl⟩⟩

theorem newNode_spec {cfg : Cfg} {st : Bool} {s : Mem} (size : Nat) (hc : Core cfg st s) :
    Ext s (s.newNode cfg size).1 ∧ Core cfg st (s.newNode cfg size).1 := by
  rcases (newNode_cases cfg s size).2 with ⟨_, h⟩ | ⟨_, c, h⟩
  · rw [h]
    refine ⟨Ext.of_blocks_eq rfl, hc.step (Ext.of_blocks_eq rfl) (fun i nd h => ?_) (fun e h => Or.inl h) hc.frees⟩
    rcases getElem?_append_one h with h | ⟨_, h⟩
    · exact Or.inl h
    · right; subst h; exact NodeOK.of_unmanaged rfl
  · rw [h]
    obtain ⟨he, hc', hn, bl, h1, h2, h3⟩ := mallocMem_spec (cfg := cfg) (s := s) c hc
    refine ⟨he.trans (Ext.of_blocks_eq rfl), hc'.step (Ext.of_blocks_eq rfl) (fun i nd h => ?_) (fun e h => Or.inl h) hc'.frees⟩
    rcases getElem?_append_one h with h | ⟨_, h⟩
    · exact Or.inl h
    · right; subst h
      intro _ b hb
      cases hb
      exact ⟨bl, h1, h2 ▸ h3⟩

theorem NodeOK.of_noblock {cfg : Cfg} {s : Mem} {nd : NodeS} (h : nd.block = none) : NodeOK cfg s nd :=
  fun _ b hb => by rw [h] at hb; cases hb

theorem setNode_ext (s : Mem) (i : Nat) (nd : NodeS) : Ext s (s.setNode i nd) := Ext.of_blocks_eq rfl

theorem releaseSelf_spec {cfg : Cfg} {st : Bool} {s s' : Mem} {i : Nat} (hc : Core cfg st s) (h : s.releaseSelf cfg i = some s') :
    Ext s s' ∧ Core cfg st s' := by
  unfold Mem.releaseSelf at h
  cases hn : s.nodes[i]? with
  | none => simp [hn] at h
  | some nd =>
    simp only [hn] at h
    have hok := hc.node i nd hn
    by_cases hr : nd.refer - 1 = 0
    · simp only [hr, if_true, Option.some.injEq] at h
      subst h
      by_cases hu : nd.unmanaged = true
      · simp only [hu, if_true]
        exact ⟨setNode_ext _ _ _, setNode_core hc (NodeOK.of_noblock rfl)⟩
      · simp only [hu]
        have hc' : Core cfg st (s.freeMem cfg nd.block nd.cap) :=
          freeMem_core hc (fun b hb => hok (by simpa using hu) b hb)
        exact ⟨(freeMem_ext _ _ _ _).trans (setNode_ext _ _ _), setNode_core hc' (NodeOK.of_noblock rfl)⟩
    · simp only [hr, if_false, Option.some.injEq] at h
      subst h
      exact ⟨setNode_ext _ _ _, setNode_core hc (hok.of_same rfl rfl rfl)⟩

theorem nodeRelease_spec {cfg : Cfg} {st : Bool} (fuel : Nat) : ∀ {s s' : Mem} {i : Nat}, Core cfg st s →
    Mem.nodeRelease cfg fuel s i = some s' → Ext s s' ∧ Core cfg st s' := by
  induction fuel with
  | zero => intro s s' i _ h; simp [Mem.nodeRelease] at h
  | succ fuel ih =>
    intro s s' i hc h
    unfold Mem.nodeRelease at h
    cases hn : s.nodes[i]? with
    | none => simp [hn] at h
    | some nd =>
      simp only [hn] at h
      cases ho : nd.origin with
      | none => simp only [ho] at h; exact releaseSelf_spec hc h
      | some o =>
        simp only [ho] at h
        cases h1 : Mem.nodeRelease cfg fuel s o with
        | none => simp [h1] at h
        | some s1 =>
          simp only [h1] at h
          obtain ⟨e1, c1⟩ := ih hc h1
          obtain ⟨e2, c2⟩ := releaseSelf_spec c1 h
          exact ⟨e1.trans e2, c2⟩

theorem release1_spec {cfg : Cfg} {st : Bool} {s s' : Mem} {i : Nat} (hc : Core cfg st s) (h : s.release1 cfg i = some s') :
    Ext s s' ∧ Core cfg st s' := nodeRelease_spec _ hc h

theorem releaseAll_spec {cfg : Cfg} {st : Bool} : ∀ (l : List Nat) {s s' : Mem}, Core cfg st s → s.releaseAll cfg l = some s' →
    Ext s s' ∧ Core cfg st s'
  | [], s, s', hc, h => by simp [Mem.releaseAll] at h; subst h; exact ⟨Ext.refl _, hc⟩
  | i :: rest, s, s', hc, h => by
    unfold Mem.releaseAll at h
    cases h1 : s.release1 cfg i with
    | none => simp [h1] at h
    | some s1 =>
      simp only [h1] at h
      obtain ⟨e1, c1⟩ := release1_spec hc h1
      obtain ⟨e2, c2⟩ := releaseAll_spec rest c1 h
      exact ⟨e1.trans e2, c2⟩

/-- `Refer`: the child is unmanaged; parent and origin keep their ownership fields -/
theorem refer_spec {cfg : Cfg} {st : Bool} {s s' : Mem} {i n c : Nat} (hc : Core cfg st s) (h : s.refer cfg i n = some (s', c)) :
    Ext s s' ∧ Core cfg st s' := by
  unfold Mem.refer at h
  cases hn : s.nodes[i]? with
  | none => simp [hn] at h
  | some nd =>
    simp only [hn] at h
    obtain ⟨e0, c0⟩ := newNode_spec (cfg := cfg) (s := s) 0 hc
    have hnd0 : NodeOK cfg (s.newNode cfg 0).1 nd := (hc.node i nd hn).ext e0
    have c1 := setNode_core (i := (s.newNode cfg 0).2) (nd := nd.childOf i n) c0 (NodeOK.of_unmanaged rfl)
    have c2 := setNode_core (i := i) (nd := { nd with off := nd.off + n }) c1 (NodeOK.of_same (hnd0.ext (setNode_ext _ _ _)) rfl rfl rfl)
    have e2 := e0.trans ((setNode_ext (s.newNode cfg 0).1 (s.newNode cfg 0).2 (nd.childOf i n)).trans (setNode_ext _ i { nd with off := nd.off + n }))
    split at h
    · cases h
    · rename_i on hon
      simp only [Option.some.injEq, Prod.mk.injEq] at h
      obtain ⟨h, _⟩ := h
      subst h
      exact ⟨e2.trans (setNode_ext _ _ _), setNode_core c2 ((c2.node _ on hon).of_same rfl rfl rfl)⟩

end Netpoll.Buf.Own
