import Netpoll.Buf.OwnerLemmas8
/-! Lemmas about the ownership ledger, part 9: the token relation through Slice, readCopy, Close and the writer side. -/
namespace Netpoll.Buf.Own
open Netpoll.Buf

theorem newNode0_memB (cfg : Cfg) (m : Mem) : MemB m (m.newNode cfg 0).1 :=
  memB_of_own_eq (newNode0_own cfg m 0).2 (fun k => (newNode0_own cfg m k).1)

theorem newNode_nodes_get (cfg : Cfg) (m : Mem) (size i : Nat) (nd : NodeS) (h : m.nodes[i]? = some nd) :
    (m.newNode cfg size).1.nodes[i]? = some nd := by
  rcases (newNode_cases cfg m size).2 with ⟨_, h'⟩ | ⟨_, c, h'⟩
  · rw [h']; simp only; rw [List.getElem?_append_left (lt_of_getElem? h)]; exact h
  · rw [h']
    have hnodes : (m.mallocMem cfg c).1.nodes = m.nodes := by
      unfold Mem.mallocMem; split <;> simp [Mem.allocBlock]
    simp only [hnodes]; rw [List.getElem?_append_left (lt_of_getElem? h)]; exact h

theorem refer_memB {cfg : Cfg} {m m' : Mem} {i n c : Nat} (h : m.refer cfg i n = some (m', c)) : MemB m m' := by
  unfold Mem.refer at h
  cases hn : m.nodes[i]? with
  | none => simp [hn] at h
  | some nd =>
    simp only [hn] at h
    have g0 := newNode0_memB cfg m
    have hid := (newNode_cases cfg m 0).1
    have hn0 := newNode_nodes_get cfg m 0 i nd hn
    have g1 : MemB (m.newNode cfg 0).1 ((m.newNode cfg 0).1.setNode (m.newNode cfg 0).2 (nd.childOf i n)) :=
      setNode_memB_none (owns_unmanaged rfl)
    have hi : i ≠ (m.newNode cfg 0).2 := by rw [hid]; exact Nat.ne_of_lt (lt_of_getElem? hn)
    have hn1 : ((m.newNode cfg 0).1.setNode (m.newNode cfg 0).2 (nd.childOf i n)).nodes[i]? = some nd := by
      simp only [Mem.setNode]; rw [List.getElem?_set_ne (fun h' => hi h'.symm)]; exact hn0
    have g2 := setNode_memB_same (nd' := { nd with off := nd.off + n }) hn1 rfl rfl
    split at h
    · cases h
    · rename_i on hon
      simp only [Option.some.injEq, Prod.mk.injEq] at h
      obtain ⟨h, _⟩ := h
      subst h
      exact g0.trans (g1.trans (g2.trans (setNode_memB_same (nd' := { on with refer := on.refer + 1 }) hon rfl rfl)))

theorem expose_refer_memB {cfg : Cfg} {m m' : Mem} {i n c : Nat} {nd : NodeS} (hn : m.nodes[i]? = some nd)
    (h : (m.setNode i { nd with exposed := true }).refer cfg i n = some (m', c)) : MemB m m' :=
  (setNode_memB_same (nd' := { nd with exposed := true }) hn rfl rfl).trans (refer_memB h)

theorem sliceLoop_memB {cfg : Cfg} : ∀ (l : List Nat) {m m' : Mem} {ack k : Nat} {cs : List Nat},
    sliceLoop cfg m l ack = some (m', cs, k) → MemB m m'
  | [], m, m', ack, k, cs, h => by simp [sliceLoop] at h
  | i :: rest, m, m', ack, k, cs, h => by
    unfold sliceLoop at h
    split at h
    · cases h
    · rename_i nd hn
      split at h
      · split at h
        · cases h
        · rename_i m1 c hr
          cases h
          exact expose_refer_memB hn hr
      · split at h
        · split at h
          · cases h
          · rename_i m1 c hr
            split at h
            · cases h
            · rename_i m2 cs2 k2 hl
              cases h
              exact (expose_refer_memB hn hr).trans (sliceLoop_memB rest hl)
        · split at h
          · cases h
          · rename_i m2 cs2 k2 hl
            cases h
            exact sliceLoop_memB rest hl

theorem newBuf_tok (cfg : Cfg) (m : Mem) (size : Nat) : MemB m (newBuf cfg m size).1 ∧ ∀ k, (newBuf cfg m size).2.own k = 0 :=
  ⟨newNode_memB cfg m size, fun k => by simp [newBuf, Buf.own]⟩

theorem sliceBuf_own (cs : List Nat) (n k : Nat) : (sliceBuf cs n).own k = 0 := by simp [sliceBuf, Buf.own]

/-- `Slice`: the parent as `TokB`; the new reader owns nothing -/
theorem slice_tok {cfg : Cfg} {m m' : Mem} {b b' : Buf} {n : Int} {c : Option Buf} (h : slice cfg m b n = some (m', b', c)) :
    TokB m b m' b' ∧ ∀ cb, c = some cb → ∀ k, cb.own k = 0 := by
  unfold slice at h
  split at h
  · cases h
    exact ⟨(newBuf_tok cfg m 0).1.tok (fun _ => rfl), fun cb hcb => by cases hcb; exact (newBuf_tok cfg m 0).2⟩
  · dsimp only at h
    split at h
    · cases h; exact ⟨TokB.refl _ _, fun cb hcb => by cases hcb⟩
    · have hb1 := consumeLen_own b n.toNat
      generalize b.consumeLen n.toNat = b1 at h hb1
      split at h
      · cases h
      · rename_i b2 i nd hs
        obtain ⟨hn, _⟩ := isSingleNode_spec hs
        split at h
        · cases h
        · rename_i m1 c1 hr
          cases h
          exact ⟨(expose_refer_memB hn hr).tok (fun k => by rw [isSingleNode_own hs, hb1]),
            fun cb hcb => by cases hcb; exact sliceBuf_own _ _⟩
      · rename_i b2 i nd hs
        obtain ⟨hn, _⟩ := isSingleNode_spec hs
        split at h
        · cases h
        · rename_i m1 c1 hr
          split at h
          · cases h
          · rename_i m2 cs k hl
            split at h
            · cases h
            · rename_i m3 b3 hrel
              cases h
              have g12 := (expose_refer_memB hn hr).trans (sliceLoop_memB _ hl)
              have t3 := releaseCore_tok hrel
              have t12 : TokB m b m2 { b2 with r := b2.r + 1 + k } :=
                g12.tok (fun k' => by rw [← hb1 k', ← isSingleNode_own hs k']; rfl)
              exact ⟨t12.trans t3, fun cb hcb => by cases hcb; exact sliceBuf_own _ _⟩

theorem dropUnexposed_memB {cfg : Cfg} : ∀ (l : List Nat) {m m' : Mem} {kept : List Nat},
    dropUnexposed cfg m l = some (m', kept) → MemB m m'
  | [], m, m', kept, h => by simp [dropUnexposed] at h; obtain ⟨rfl, _⟩ := h; exact MemB.refl _
  | i :: rest, m, m', kept, h => by
    unfold dropUnexposed at h
    split at h
    · cases h
    · split at h
      · split at h
        · cases h
        · rename_i m1 k1 hd
          cases h
          exact dropUnexposed_memB rest hd
      · split at h
        · cases h
        · rename_i m1 hr
          exact (nodeRelease_memB _ hr).trans (dropUnexposed_memB rest h)

theorem readCopy_tok {cfg : Cfg} {m m' : Mem} {id : Nat} {b b' : Buf} {l : Nat} (h : readCopy cfg m id b l = some (m', b')) :
    TokB m b m' b' := by
  unfold readCopy at h
  split at h
  · cases h; exact TokB.refl _ _
  · dsimp only at h
    generalize (if b.length < l then b.length else l) = l1 at h
    have g0 := allocBlock_memB m .gc l1
    generalize m.allocBlock .gc l1 = p at h g0
    obtain ⟨m1, blk⟩ := p
    simp only at h g0
    have g1 : MemB m1 ((m1.emit (.write blk 0 l1)).addView (some blk) 0 l1 id true) :=
      (emit_memB _ _).trans (addView_memB _ _ _ _ _ _)
    generalize (m1.emit (.write blk 0 l1)).addView (some blk) 0 l1 id true = m2 at h g1
    split at h
    · cases h
    · rename_i m3 b3 ho
      obtain ⟨g2, _, g3⟩ := onReadSuffix_tok (fun l l' k => copyLoop_sz l _) ho
      split at h
      · cases h
      · split at h
        · cases h
        · split at h
          · cases h
          · split at h
            · cases h
            · rename_i m4 kept hd
              have g4 := dropUnexposed_memB _ hd
              cases h
              exact (g0.trans (g1.trans (g2.trans g4))).tok (fun k => by
                rw [← consumeLen_own b l1 k, ← g3 k]; rfl)

theorem close_tok {cfg : Cfg} {m m' : Mem} {id : Nat} {b b' : Buf} (h : close cfg m id b = some (m', b')) : TokB m b m' b' := by
  unfold close at h
  split at h
  · cases h
  · rename_i m1 b1 hr
    have t1 := releaseCore_tok hr
    split at h
    · cases h
    · rename_i m2 hra
      cases h
      have g2 := (releaseAll_memB _ hra).trans (endViews_memB m2 id)
      refine (TokB.trans (b' := b1) ?_ (g2.tok (b := b1) (b' := b1) (fun _ => rfl))).trans ⟨Nat.le_refl _, fun k => ?_⟩
      · exact ⟨t1.len, fun k => by have := t1.own k; simpa [Buf.own] using this⟩
      · simp [Buf.own]; omega

end Netpoll.Buf.Own
