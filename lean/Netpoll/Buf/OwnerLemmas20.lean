import Netpoll.Buf.OwnerLemmas19
/-! Lemmas about the ownership ledger, part 20: the bookkeeping relation `VS` of one method call (frame, caches kept,
exposed structs stay chained, new views are held) for the reader-side methods that hand out results. -/
namespace Netpoll.Buf.Own
open Netpoll.Buf

def peekIs (b : Buf) (k : Nat) : Prop := ∃ l cp : Nat, b.cachePeek = some (k, l, cp)
def inCaches (b : Buf) (k : Nat) : Prop := k ∈ b.caches ∨ peekIs b k
/-- struct `i` has been exposed and, as long as it is live, lies on block `k` -/
def exposedAt (m : Mem) (i k : Nat) : Prop :=
  ∃ nd : NodeS, m.nodes[i]? = some nd ∧ nd.exposed = true ∧ (nd.recycled = 0 → nd.block = some k)
def isGc (m : Mem) (k : Nat) : Prop := ∃ bl : Block, m.blocks[k]? = some bl ∧ bl.kind = .gc

/-- block `k` is held for the reader whose buffer is `b` -/
def HeldBy (m : Mem) (b : Buf) (k : Nat) : Prop := isGc m k ∨ inCaches b k ∨ ∃ i ∈ b.chain, exposedAt m i k

theorem isGc.ext {m m' : Mem} {k : Nat} (he : Ext m m') : isGc m k → isGc m' k := by
  rintro ⟨bl, h1, h2⟩
  obtain ⟨bl', g1, g2, _⟩ := he k bl h1
  exact ⟨bl', g1, by rw [g2]; exact h2⟩

theorem exposedAt.frame {m m' : Mem} {i k : Nat} (hf : Frame m m') : exposedAt m i k → exposedAt m' i k := by
  rintro ⟨nd, h1, h2, h3⟩
  obtain ⟨nd', g1, g2, g3, g4⟩ := hf i nd h1
  exact ⟨nd', g1, g2 h2, fun e => by rw [g4 e]; exact h3 (by omega)⟩

/-- one method call of buffer `id`: `(m, b) ↦ (m', b')`, views of `id` not ended -/
structure VS (m : Mem) (b : Buf) (m' : Mem) (b' : Buf) (id : Nat) : Prop where
  ext : Ext m m'
  frame : Frame m m'
  keepC : ∀ k, inCaches b k → inCaches b' k
  keepX : ∀ i ∈ b.chain, (∃ nd : NodeS, m.nodes[i]? = some nd ∧ nd.exposed = true) → i ∈ b'.chain
  views : ∃ vs : List View, m'.views = m.views ++ vs ∧ ∀ v ∈ vs, v.live = true ∧ v.owner = id ∧
    (v.perm = true → isGc m' v.block) ∧ (v.perm = false → HeldBy m' b' v.block)

theorem HeldBy.step {m m' : Mem} {b b' : Buf} {id k : Nat} (h : VS m b m' b' id) : HeldBy m b k → HeldBy m' b' k := by
  rintro (h1 | h1 | ⟨i, hi, hx⟩)
  · exact Or.inl (h1.ext h.ext)
  · exact Or.inr (Or.inl (h.keepC k h1))
  · have hx' := exposedAt.frame h.frame hx
    obtain ⟨nd, g1, g2, _⟩ := hx
    exact Or.inr (Or.inr ⟨i, h.keepX i hi ⟨nd, g1, g2⟩, hx'⟩)

theorem VS.refl (m : Mem) (b : Buf) (id : Nat) : VS m b m b id :=
  ⟨Ext.refl m, Frame.refl m, fun _ h => h, fun _ h _ => h, [], by simp, fun v hv => by cases hv⟩

theorem VS.trans {m m1 m' : Mem} {b b1 b' : Buf} {id : Nat} (h1 : VS m b m1 b1 id) (h2 : VS m1 b1 m' b' id) : VS m b m' b' id := by
  refine ⟨h1.ext.trans h2.ext, h1.frame.trans h2.frame, fun k hk => h2.keepC k (h1.keepC k hk), fun i hi hx => ?_, ?_⟩
  · obtain ⟨nd, g1, g2⟩ := hx
    obtain ⟨nd', k1, k2, _⟩ := h1.frame i nd g1
    exact h2.keepX i (h1.keepX i hi ⟨nd, g1, g2⟩) ⟨nd', k1, k2 g2⟩
  · obtain ⟨vs1, e1, p1⟩ := h1.views
    obtain ⟨vs2, e2, p2⟩ := h2.views
    refine ⟨vs1 ++ vs2, by rw [e2, e1, List.append_assoc], fun v hv => ?_⟩
    rcases List.mem_append.1 hv with hv | hv
    · obtain ⟨a, b0, c, d⟩ := p1 v hv
      exact ⟨a, b0, fun e => (c e).ext h2.ext, fun e => (d e).step h2⟩
    · exact p2 v hv

/-- a step that touches neither views nor the buffer's chain / caches -/
theorem VS.plain {m m' : Mem} {b b' : Buf} {id : Nat} (he : Ext m m') (hf : Frame m m') (hv : m'.views = m.views)
    (hc : b'.caches = b.caches) (hp : b'.cachePeek = b.cachePeek) (hx : ∀ i ∈ b.chain, i ∈ b'.chain) : VS m b m' b' id :=
  ⟨he, hf, fun k hk => by unfold inCaches peekIs at *; rw [hc, hp]; exact hk, fun i hi _ => hx i hi, [], by simp [hv], fun v hv => by cases hv⟩

theorem addView_views (m : Mem) (blk : Option Nat) (lo hi o : Nat) (p : Bool) :
    (m.addView blk lo hi o p).views = m.views ∨
    ∃ k, blk = some k ∧ (m.addView blk lo hi o p).views = m.views ++ [{ block := k, lo := lo, hi := hi, owner := o, perm := p }] := by
  unfold Mem.addView
  cases blk with
  | none => exact Or.inl rfl
  | some k =>
    by_cases h : hi ≤ lo
    · simp [h]
    · simp only [h, if_false]; exact Or.inr ⟨k, rfl, rfl⟩

/-- handing out a result: the new view must be held (or be a private copy on GC memory) -/
theorem VS.addView {m : Mem} {b : Buf} {id : Nat} (blk : Option Nat) (lo hi : Nat) (p : Bool)
    (h : ∀ k, blk = some k → (p = true → isGc m k) ∧ (p = false → HeldBy m b k)) : VS m b (m.addView blk lo hi id p) b id := by
  have he : Ext m (m.addView blk lo hi id p) := Ext.of_blocks_eq (addView_blocks _ _ _ _ _ _)
  have hf : Frame m (m.addView blk lo hi id p) := Frame.of_nodes_eq (addView_nodes _ _ _ _ _ _)
  refine ⟨he, hf, fun _ hk => hk, fun _ hi' _ => hi', ?_⟩
  rcases addView_views m blk lo hi id p with hv | ⟨k, hk, hv⟩
  · exact ⟨[], by simp [hv], fun v hv' => by cases hv'⟩
  · refine ⟨_, hv, fun v hv' => ?_⟩
    simp only [List.mem_singleton] at hv'
    subst hv'
    obtain ⟨h1, h2⟩ := h k hk
    refine ⟨rfl, rfl, fun e => (h1 e).ext he, fun e => ?_⟩
    rcases h2 e with g | g | ⟨i, hi', gx⟩
    · exact Or.inl (g.ext he)
    · exact Or.inr (Or.inl g)
    · exact Or.inr (Or.inr ⟨i, hi', gx.frame hf⟩)

end Netpoll.Buf.Own
