import Netpoll.Buf.Step
/-
Representation invariant of the LinkBuffer model (`Shape`), the refinement relation `R` between
a model buffer and the abstract queue, and the result relation `Matches`.
-/
namespace Netpoll.Buf

variable {α : Type}

/-- The chain invariant.  `ro`: a Slice reader (flush = write = nil, i.e. index `nodes.length`);
`app`: an Append happened since the last Flush (then nodes behind `flush` may hold readable bytes). -/
structure Shape (nodes : List (Node α)) (r f w : Nat) (ro app : Bool) : Prop where
  r_le_f : r ≤ f
  f_le : f ≤ nodes.length
  node : ∀ i nd, nodes[i]? = some nd →
    nd.off ≤ nd.buf.length ∧
    -- nothing pending before the flush node
    (i < f → nd.pend = []) ∧
    -- nothing readable behind the flush node
    (app = false → f < i → nd.off = nd.buf.length) ∧
    (ro = false →
      -- `pend` is exactly `buf[len:malloc]`, inside the capacity
      nd.buf.length + nd.pend.length = nd.malloc ∧ nd.malloc ≤ nd.cap ∧
      -- nodes behind the write node are empty
      (w < i → nd.off = nd.buf.length ∧ nd.pend = [])) ∧
    (ro = true → nd.pend = [])
  wr : ro = false → f ≤ w ∧ w < nodes.length
  rd : ro = true → f = nodes.length ∧ w = nodes.length

/-- the bytes of the leading flushed entries: what a reader may see now (equal to `flushedBytes`
when the queue is `readOK`; after an Append there may be flushed entries behind pending ones) -/
def Q.leadBytes (q : Q α) : List α := (q.items.takeWhile (·.2)).map (·.1)

/-- refinement relation: the model buffer `b` represents the abstract queue `q` -/
structure R (b : LB α) (q : Q α) : Prop where
  abs : b.abs = q.items
  len : b.length = q.len
  mlen : b.mallocSize = q.mallocLen
  shape : q.dead = false → Shape b.nodes b.r b.f b.w q.readOnly q.appSinceFlush
  /-- the peek cache holds a prefix of the readable bytes -/
  cache : q.dead = false → ∀ c cp, b.cachePeek = some (c, cp) → c <+: q.leadBytes
  flags : q.appSinceFlush = true → q.binSinceFlush = true

/-- does the model's result satisfy what the spec allows? -/
def Matches : Res α → Expect α → Prop
  | r, .exact r' => r = r'
  | .vecs vs, .prefixVecs bs => vs.flatten <+: bs
  | _, .prefixVecs _ => False
  | r, .any => r ≠ .err

/-! ### pointwise "read advance" of nodes: what the read loops do to the chain -/

/-- `b` is `a` after some bytes were consumed (only `off` and the exposed flag may differ) -/
def Adv (a b : Node α) : Prop :=
  b.buf = a.buf ∧ b.malloc = a.malloc ∧ b.pend = a.pend ∧ b.cap = a.cap ∧ b.unmanaged = a.unmanaged ∧
  a.off ≤ b.off ∧ b.off ≤ b.buf.length

def AdvL (ns ns' : List (Node α)) : Prop :=
  ns'.length = ns.length ∧ ∀ (i : Nat) (a b : Node α), ns[i]? = some a → ns'[i]? = some b → Adv a b

theorem Adv.rfl' {a : Node α} (h : a.off ≤ a.buf.length) : Adv a a := by
  simp [Adv, h]

theorem AdvL.cons {a b : Node α} {as bs : List (Node α)} (h : Adv a b) (ht : AdvL as bs) :
    AdvL (a :: as) (b :: bs) := by
  refine ⟨by simp [ht.1], ?_⟩
  intro i x y hx hy
  cases i with
  | zero => simp at hx hy; subst hx hy; exact h
  | succ i => simp at hx hy; exact ht.2 i x y hx hy

theorem AdvL.refl {ns : List (Node α)} (h : ∀ nd ∈ ns, nd.off ≤ nd.buf.length) : AdvL ns ns := by
  refine ⟨rfl, ?_⟩
  intro i a b ha hb
  rw [ha] at hb; cases hb
  exact Adv.rfl' (h a (List.mem_of_getElem? ha))

theorem Shape.off_le {nodes : List (Node α)} {r f w ro app} (h : Shape nodes r f w ro app) :
    ∀ nd ∈ nodes, nd.off ≤ nd.buf.length := by
  intro nd hnd
  obtain ⟨i, hi⟩ := List.getElem?_of_mem hnd
  exact (h.node i nd hi).1

/-- consuming reads keep the chain invariant -/
theorem Shape.adv {nodes suf : List (Node α)} {r r' f w ro app}
    (h : Shape nodes r f w ro app) (hs : AdvL (nodes.drop r) suf) (h2 : r' ≤ f) :
    Shape (nodes.take r ++ suf) r' f w ro app := by
  have hrl : r ≤ nodes.length := Nat.le_trans h.r_le_f h.f_le
  have hlen : (nodes.take r ++ suf).length = nodes.length := by
    simp [hs.1]; omega
  refine ⟨h2, by rw [hlen]; exact h.f_le, ?_, ?_, ?_⟩
  · intro i nd hi
    by_cases hir : i < r
    · have : nodes[i]? = some nd := by
        rw [List.getElem?_append_left (by simp; omega)] at hi
        rw [List.getElem?_take] at hi; simpa [hir] using hi
      exact h.node i nd this
    · rw [List.getElem?_append_right (by simp; omega)] at hi
      simp only [List.length_take, Nat.min_eq_left hrl] at hi
      have hlt : i - r < suf.length := by
        rcases List.getElem?_eq_some_iff.1 hi with ⟨hh, _⟩; exact hh
      have hlt' : i < nodes.length := by rw [hs.1, List.length_drop] at hlt; omega
      obtain ⟨a, ha⟩ : ∃ a, nodes[i]? = some a := ⟨_, List.getElem?_eq_getElem hlt'⟩
      have ho : (nodes.drop r)[i - r]? = some a := by
        rw [List.getElem?_drop]; rw [show r + (i - r) = i by omega]; exact ha
      have hadv := hs.2 (i - r) _ nd ho hi
      have hn := h.node i a ha
      obtain ⟨e1, e2, e3, e4, e5, e6, e7⟩ := hadv
      rw [e1, e2, e3, e4]
      refine ⟨by rw [← e1]; exact e7, hn.2.1, ?_, ?_, hn.2.2.2.2⟩
      · intro ha hfi
        have := hn.2.2.1 ha hfi
        rw [e1] at e7; omega
      · intro hro
        obtain ⟨a1, a2, a3⟩ := hn.2.2.2.1 hro
        refine ⟨a1, a2, ?_⟩
        intro hwi
        obtain ⟨b1, b2⟩ := a3 hwi
        rw [e1] at e7
        exact ⟨by omega, b2⟩
  · intro hro; rw [hlen]; exact h.wr hro
  · intro hro; rw [hlen]; exact h.rd hro

end Netpoll.Buf
