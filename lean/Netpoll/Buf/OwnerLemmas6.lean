import Netpoll.Buf.OwnerLemmas5
/-! Lemmas about the ownership ledger, part 6: WriteDirect, book/bookAck; the typing invariant `Typed` through
`step` and `run`. -/
namespace Netpoll.Buf.Own
open Netpoll.Buf

theorem dataNode_typed {cfg : Cfg} {st : Bool} {s : Mem} (cb n ecap : Nat) (hc : Core cfg st s) :
    Ext s (dataNode cfg s cb n ecap).1 ∧ Core cfg st (dataNode cfg s cb n ecap).1 := by
  obtain ⟨e1, c1⟩ := newNode_spec (cfg := cfg) (st := st) (s := s) 0 hc
  exact ⟨e1.trans (setNode_ext _ _ _), setNode_core c1 (NodeOK.of_unmanaged rfl)⟩

theorem splitNodes_typed {cfg : Cfg} {st : Bool} {s : Mem} (o : Nat) (origin : NodeS) (m : Nat) (hc : Core cfg st s)
    (ho : NodeOK cfg s origin) : Ext s (splitNodes cfg s o origin m).1 ∧ Core cfg st (splitNodes cfg s o origin m).1 := by
  obtain ⟨e1, c1⟩ := newNode_spec (cfg := cfg) (st := st) (s := s) 0 hc
  have c2 := setNode_core (i := (s.newNode cfg 0).2) (nd := origin.splitTail m) c1 ((ho.ext e1).of_same rfl rfl rfl)
  exact ⟨e1.trans ((setNode_ext _ _ _).trans (setNode_ext _ _ _)), setNode_core c2 (NodeOK.of_unmanaged rfl)⟩

theorem writeDirectAt_typed {cfg : Cfg} {st : Bool} {s s' : Mem} {b b' : Buf} {n ecap cb oi o m : Nat} {remain : Int}
    {origin : NodeS} (hc : Core cfg st s) (hb : BufOK cfg s b) (ho : NodeOK cfg s origin)
    (h : writeDirectAt cfg s b n ecap remain cb oi o origin m = some (s', b')) : Tri cfg st s s' b' := by
  unfold writeDirectAt at h
  dsimp only at h
  obtain ⟨e1, c1⟩ := dataNode_typed (cfg := cfg) (st := st) (s := s) cb n ecap hc
  split at h
  · cases h
  · split at h
    · cases h
    · split at h
      · obtain ⟨e2, c2⟩ := splitNodes_typed (cfg := cfg) (st := st) o origin m c1 (ho.ext e1)
        cases h
        exact ⟨e1.trans e2, c2, (hb.ext (e1.trans e2)).of_caches_eq rfl rfl⟩
      · cases h
        exact ⟨e1, c1, (hb.ext e1).of_caches_eq rfl rfl⟩

theorem writeDirect_typed {cfg : Cfg} {st : Bool} {s s' : Mem} {b b' : Buf} {n ecap : Nat} {remain : Int}
    (hc : Core cfg st s) (hb : BufOK cfg s b) (h : writeDirect cfg s b n ecap remain = some (s', b')) : Tri cfg st s s' b' := by
  unfold writeDirect at h
  split at h
  · cases h; exact Tri.same hc hb
  · dsimp only at h
    have e1 := allocBlock_ext s .caller (max ecap n)
    have c1 := allocBlock_core (cfg := cfg) (st := st) .caller (max ecap n) hc
    split at h
    · cases h
    · split at h
      · cases h
      · split at h
        · cases h
        · split at h
          · cases h
          · rename_i o _ _ origin ho
            split at h
            · cases h
            · obtain ⟨e2, c2, hb2⟩ := writeDirectAt_typed c1 (hb.ext e1) (c1.node o origin ho) h
              exact ⟨e1.trans e2, c2, hb2⟩

/-- the block `book` would write is not caller memory (contract clause 9: `book` only on an input buffer) -/
def BookSafe (s : Mem) (b : Buf) : Prop :=
  ∀ (wi : Nat) (wn : NodeS) (blk : Nat), b.chain[b.w]? = some wi → s.nodes[wi]? = some wn → wn.block = some blk →
    ∃ bl : Block, s.blocks[blk]? = some bl ∧ bl.kind ≠ .caller

theorem bookFill_typed {cfg : Cfg} {st : Bool} {s s' : Mem} {b b' : Buf} {l n : Nat} (hc : Core cfg st s) (hb : BufOK cfg s b)
    (hs : st = true → BookSafe s b) (h : bookFill s b l n = some (s', b')) : Tri cfg st s s' b' := by
  unfold bookFill at h
  split at h
  · cases h
  · rename_i wi hwi
    split at h
    · cases h
    · rename_i wn hwn
      split at h
      · cases h
      · split at h
        · cases h
        · cases h
          have c1 : Core cfg st (match wn.block with
              | some blk => if min n l > 0 then s.emit (.write blk (wn.lo + wn.malloc) (wn.lo + wn.malloc + min n l)) else s
              | none => s) := by
            split
            · rename_i blk hblk
              split
              · exact emit_core hc (fun hst => hs hst wi wn blk hwi hwn hblk)
              · exact hc
            · exact hc
          have hbl : (match wn.block with
              | some blk => if min n l > 0 then s.emit (.write blk (wn.lo + wn.malloc) (wn.lo + wn.malloc + min n l)) else s
              | none => s).blocks = s.blocks := by
            split
            · split <;> rfl
            · rfl
          have hnd : (match wn.block with
              | some blk => if min n l > 0 then s.emit (.write blk (wn.lo + wn.malloc) (wn.lo + wn.malloc + min n l)) else s
              | none => s).nodes = s.nodes := by
            split
            · split <;> rfl
            · rfl
          have e : Ext s ((match wn.block with
              | some blk => if min n l > 0 then s.emit (.write blk (wn.lo + wn.malloc) (wn.lo + wn.malloc + min n l)) else s
              | none => s).setNode wi { wn with malloc := min n l + wn.blen, blen := min n l + wn.blen }) :=
            Ext.of_blocks_eq hbl
          exact ⟨e, setNode_core c1 ((c1.node wi wn (by rw [hnd]; exact hwn)).of_same rfl rfl rfl), (hb.ext e).of_caches_eq rfl rfl⟩

/-- the memory of a fresh struct is not caller memory -/
theorem newNode_block (cfg : Cfg) (s : Mem) (size : Nat) :
    ∃ nd : NodeS, (s.newNode cfg size).1.nodes[(s.newNode cfg size).2]? = some nd ∧
      ∀ blk, nd.block = some blk → ∃ bl : Block, (s.newNode cfg size).1.blocks[blk]? = some bl ∧ bl.kind ≠ .caller := by
  obtain ⟨h1, h2⟩ := newNode_cases cfg s size
  rcases h2 with ⟨_, h2⟩ | ⟨_, c, h2⟩
  · rw [h2, h1]
    exact ⟨{ unmanaged := true }, by simp, fun blk hb => by cases hb⟩
  · rw [h2, h1]
    have hnodes : (s.mallocMem cfg c).1.nodes = s.nodes := by
      unfold Mem.mallocMem; split <;> simp [Mem.allocBlock]
    refine ⟨{ block := some (s.mallocMem cfg c).2.1, cap := (s.mallocMem cfg c).2.2 }, by simp only [hnodes]; simp, fun blk hb => ?_⟩
    cases hb
    unfold Mem.mallocMem
    split
    · obtain ⟨bl, g1, g2, _⟩ := allocBlock_get s .gc c
      exact ⟨bl, g1, by rw [g2]; decide⟩
    · obtain ⟨bl, g1, g2, _⟩ := allocBlock_get s .pool (pow2ge c)
      exact ⟨bl, g1, by rw [g2]; decide⟩

theorem bookAck_typed {cfg : Cfg} {st : Bool} {s s' : Mem} {b b' : Buf} {bs ms n : Nat} (hc : Core cfg st s)
    (hb : BufOK cfg s b) (hs : st = true → BookSafe s b) (h : bookAck cfg s b bs ms n = some (s', b')) : Tri cfg st s s' b' := by
  unfold bookAck at h
  split at h
  · cases h
  · rename_i wi hwi
    split at h
    · cases h
    · split at h
      · obtain ⟨e1, c1⟩ := newNode_spec (cfg := cfg) (st := st) (s := s) ms hc
        have hw : b.w < b.chain.length := lt_of_getElem? hwi
        have h2 : Tri cfg st (s.newNode cfg ms).1 s' b' := by
          refine bookFill_typed c1 ?_ ?_ h
          · exact (hb.ext e1).of_caches_eq rfl rfl
          · intro _ wi' wn' blk g1 g2 g3
            obtain ⟨nd, k1, k2⟩ := newNode_block cfg s ms
            have : wi' = (s.newNode cfg ms).2 := by
              have hlen : (b.chain.take (b.w + 1)).length = b.w + 1 := by simp; omega
              have : (b.chain.take (b.w + 1) ++ [(s.newNode cfg ms).2])[b.w + 1]? = some (s.newNode cfg ms).2 := by
                rw [List.getElem?_append_right (by omega), hlen]; simp
              simp only at g1
              rw [this] at g1
              exact (Option.some.inj g1).symm
            subst this
            rw [k1] at g2; cases g2
            exact k2 blk g3
        obtain ⟨e2, c2, hb2⟩ := h2
        exact ⟨e1.trans e2, c2, hb2⟩
      · exact bookFill_typed hc hb hs h

/-! ### the whole ledger -/

/-- the typing invariant: `Core` of the memory and the caches of every buffer -/
structure Typed (cfg : Cfg) (st : Bool) (s : Ledger) : Prop where
  core : Core cfg st s.mem
  bufs : ∀ p ∈ s.bufs, BufOK cfg s.mem p.2

theorem getBuf_mem {s : Ledger} {id : Nat} {b : Buf} (h : s.getBuf id = some b) : (id, b) ∈ s.bufs := by
  unfold Ledger.getBuf at h
  cases hf : s.bufs.find? (·.1 = id) with
  | none => simp [hf] at h
  | some p =>
    simp only [hf, Option.map_some, Option.some.injEq] at h
    have h1 := List.mem_of_find?_eq_some hf
    have h2 := List.find?_some hf
    simp only [decide_eq_true_eq] at h2
    obtain ⟨i, b0⟩ := p
    simp only at h h2
    subst h h2
    exact h1

theorem putAssoc_mem {id : Nat} {b : Buf} : ∀ {l : List (Nat × Buf)} {p : Nat × Buf}, p ∈ putAssoc id b l → p = (id, b) ∨ p ∈ l
  | [], p, h => by simp [putAssoc] at h; exact Or.inl h
  | (i, x) :: rest, p, h => by
    unfold putAssoc at h
    split at h
    · rcases List.mem_cons.1 h with h | h
      · exact Or.inl h
      · exact Or.inr (List.mem_cons_of_mem _ h)
    · rcases List.mem_cons.1 h with h | h
      · exact Or.inr (h ▸ List.mem_cons_self)
      · rcases putAssoc_mem h with h | h
        · exact Or.inl h
        · exact Or.inr (List.mem_cons_of_mem _ h)

theorem put_typed {cfg : Cfg} {st : Bool} {s : Ledger} {m : Mem} {id : Nat} {b1 : Buf} (ht : Typed cfg st s)
    (h : Tri cfg st s.mem m b1) : Typed cfg st (s.put m id b1) := by
  obtain ⟨e, c, hb⟩ := h
  refine ⟨c, fun p hp => ?_⟩
  rcases putAssoc_mem hp with rfl | hp
  · exact hb
  · exact (ht.bufs p hp).ext e

theorem markSplit_spec {cfg : Cfg} {st : Bool} : ∀ (l : List Nat) {s : Mem}, Core cfg st s →
    Ext s (markSplit s l) ∧ Core cfg st (markSplit s l)
  | [], s, hc => ⟨Ext.refl s, hc⟩
  | i :: rest, s, hc => by
    unfold markSplit
    have key : ∀ (blk : Nat) (bl : Block), s.blocks[blk]? = some bl →
        Ext s { s with blocks := s.blocks.set blk { bl with split := true } } ∧
        Core cfg st { s with blocks := s.blocks.set blk { bl with split := true } } := by
      intro blk bl hbl
      have e : Ext s { s with blocks := s.blocks.set blk { bl with split := true } } := by
        intro b' bl' hb'
        by_cases hbb : blk = b'
        · subst hbb
          rw [hbl] at hb'; cases hb'
          exact ⟨_, List.getElem?_set_self (lt_of_getElem? hbl), rfl, rfl⟩
        · exact ⟨bl', by simp [List.getElem?_set_ne hbb, hb'], rfl, rfl⟩
      refine ⟨e, hc.step e (fun _ _ h => Or.inl h) (fun _ h => Or.inl h) (fun k bl1 hk1 hf1 => ?_)⟩
      simp only at hk1
      by_cases hkb : blk = k
      · subst hkb
        rw [List.getElem?_set_self (lt_of_getElem? hbl)] at hk1
        cases hk1
        exact hc.frees blk bl hbl hf1
      · rw [List.getElem?_set_ne hkb] at hk1
        exact hc.frees k bl1 hk1 hf1
    have h1 : Ext s (match s.nodes[i]? with
        | some nd =>
          if nd.unmanaged ∧ nd.origin = none ∧ nd.cap > 0 then
            match nd.block with
            | some blk =>
              match s.blocks[blk]? with
              | some bl => if bl.kind = .pool then { s with blocks := s.blocks.set blk { bl with split := true } } else s
              | none => s
            | none => s
          else s
        | none => s) ∧ Core cfg st (match s.nodes[i]? with
        | some nd =>
          if nd.unmanaged ∧ nd.origin = none ∧ nd.cap > 0 then
            match nd.block with
            | some blk =>
              match s.blocks[blk]? with
              | some bl => if bl.kind = .pool then { s with blocks := s.blocks.set blk { bl with split := true } } else s
              | none => s
            | none => s
          else s
        | none => s) := by
      split
      · split
        · split
          · split
            · split
              · rename_i _ blk _ _ bl hbl _
                exact key blk bl hbl
              · exact ⟨Ext.refl s, hc⟩
            · exact ⟨Ext.refl s, hc⟩
          · exact ⟨Ext.refl s, hc⟩
        · exact ⟨Ext.refl s, hc⟩
      · exact ⟨Ext.refl s, hc⟩
    obtain ⟨e1, c1⟩ := h1
    obtain ⟨e2, c2⟩ := markSplit_spec rest c1
    exact ⟨e1.trans e2, c2⟩

/-- contract clause 9 as a condition on a single call: `book` must not be about to write caller memory -/
def BookOK (s : Ledger) : Op → Prop
  | .book id _ _ _ => ∀ b, s.getBuf id = some b → BookSafe s.mem b
  | _ => True

theorem on1_typed {cfg : Cfg} {st : Bool} {s s' : Ledger} {id : Nat} {f : Buf → Option (Mem × Buf)} (ht : Typed cfg st s)
    (hf : ∀ b m b1, s.getBuf id = some b → BufOK cfg s.mem b → f b = some (m, b1) → Tri cfg st s.mem m b1)
    (h : on1 s id f = some s') : Typed cfg st s' := by
  unfold on1 at h
  split at h
  · cases h; exact ht
  · rename_i b hg
    split at h
    · cases h
    · rename_i m b1 hfb
      cases h
      exact put_typed ht (hf b m b1 hg (ht.bufs _ (getBuf_mem hg)) hfb)

theorem step_typed {cfg : Cfg} {st : Bool} {s s' : Ledger} {op : Op} (ht : Typed cfg st s) (hbk : st = true → BookOK s op)
    (h : step cfg s op = some s') : Typed cfg st s' := by
  cases op with
  | new id size => simp only [step, Option.some.injEq] at h; subst h; exact put_typed ht (newBuf_typed size ht.core)
  | mal id n => exact on1_typed ht (fun b m b1 _ hb hf => malloc_typed ht.core hb hf) h
  | wbin id n pcap => exact on1_typed ht (fun b m b1 _ hb hf => writeBinary_typed ht.core hb hf) h
  | wdir id n ecap remain =>
    refine on1_typed ht (fun b m b1 _ hb hf => ?_) h
    split at hf
    · cases hf
    · rename_i m0 b0 hw
      cases hf
      obtain ⟨e1, c1, hb1⟩ := writeDirect_typed ht.core hb hw
      split
      · obtain ⟨e2, c2⟩ := markSplit_spec (cfg := cfg) (st := st) b1.chain c1
        exact ⟨e1.trans e2, c2, hb1.ext e2⟩
      · exact ⟨e1, c1, hb1⟩
  | ack id n => exact on1_typed ht (fun b m b1 _ hb hf => mallocAck_typed ht.core hb hf) h
  | flush id => exact on1_typed ht (fun b m b1 _ hb hf => flush_typed ht.core hb hf) h
  | next id n => exact on1_typed ht (fun b m b1 _ hb hf => next_typed ht.core hb hf) h
  | peek id n => exact on1_typed ht (fun b m b1 _ hb hf => peek_typed ht.core hb hf) h
  | skip id n => exact on1_typed ht (fun b m b1 _ hb hf => skip_typed ht.core hb hf) h
  | rbin id n => exact on1_typed ht (fun b m b1 _ hb hf => readBinary_typed ht.core hb hf) h
  | rbyte id => exact on1_typed ht (fun b m b1 _ hb hf => readByte_typed ht.core hb hf) h
  | untl id idx => exact on1_typed ht (fun b m b1 _ hb hf => untilIdx_typed ht.core hb hf) h
  | read id n => exact on1_typed ht (fun b m b1 _ hb hf => readCopy_typed ht.core hb hf) h
  | rel id => exact on1_typed ht (fun b m b1 _ hb hf => release_typed ht.core hb hf) h
  | close id => exact on1_typed ht (fun b m b1 _ hb hf => close_typed ht.core hb hf) h
  | getbytes id k => exact on1_typed ht (fun b m b1 _ hb hf => getBytes_typed ht.core hb hf) h
  | rtail id ms => exact on1_typed ht (fun b m b1 _ hb hf => resetTail_typed ht.core hb hf) h
  | book id bs ms n =>
    exact on1_typed ht (fun b m b1 hg hb hf => bookAck_typed ht.core hb (fun hst => hbk hst b hg) hf) h
  | slice id n nid =>
    simp only [step] at h
    split at h
    · cases h; exact ht
    · rename_i b hg
      have hb := ht.bufs _ (getBuf_mem hg)
      split at h
      · cases h
      · rename_i m b1 hs
        cases h
        exact put_typed ht (slice_typed ht.core hb hs).1
      · rename_i m b1 c hs
        cases h
        obtain ⟨⟨e1, c1, hb1⟩, hc⟩ := slice_typed ht.core hb hs
        have e2 := e1.trans (endViews_ext m id)
        have t1 : Typed cfg st (s.put (m.endViews id) id b1) :=
          put_typed ht ⟨e2, endViews_core c1, hb1.ext (endViews_ext m id)⟩
        exact put_typed t1 ⟨Ext.refl _, endViews_core c1, (hc c rfl).ext (endViews_ext m id)⟩
  | app id did =>
    simp only [step] at h
    split at h
    · rename_i b d hg hgd
      split at h
      · cases h
      · rename_i m b1 d1 hw
        cases h
        obtain ⟨⟨e1, c1, hb1⟩, hd1⟩ := writeBuffer_typed ht.core (ht.bufs _ (getBuf_mem hg)) (ht.bufs _ (getBuf_mem hgd)) hw
        have e2 := e1.trans (endViews_ext m did)
        have t1 : Typed cfg st (s.put (m.endViews did) id b1) :=
          put_typed ht ⟨e2, endViews_core c1, hb1.ext (endViews_ext m did)⟩
        exact put_typed t1 ⟨Ext.refl _, endViews_core c1, hd1.ext (endViews_ext m did)⟩
    · cases h; exact ht
  | nop id => simp only [step, Option.some.injEq] at h; subst h; exact ht

/-- every call of the history satisfies `P` in the state it is made in -/
def AllSteps (cfg : Cfg) (P : Ledger → Op → Prop) : Ledger → List Op → Prop
  | _, [] => True
  | s, op :: ops => P s op ∧ match step cfg s op with
    | none => True
    | some s' => AllSteps cfg P s' ops

theorem AllSteps.of_forall {cfg : Cfg} {P : Ledger → Op → Prop} : ∀ (ops : List Op) (s : Ledger),
    (∀ s op, op ∈ ops → P s op) → AllSteps cfg P s ops
  | [], _, _ => trivial
  | op :: ops, s, h => by
    refine ⟨h s op List.mem_cons_self, ?_⟩
    split
    · trivial
    · exact AllSteps.of_forall ops _ (fun s o ho => h s o (List.mem_cons_of_mem _ ho))

theorem typed_init (cfg : Cfg) (st : Bool) : Typed cfg st {} :=
  ⟨⟨fun i nd h => (by simp at h), fun e h => (by cases h), fun k bl h => (by
      have : ({} : Ledger).mem.blocks = [] := rfl
      rw [this] at h; cases h)⟩, fun p h => (by cases h)⟩

theorem run_typed {cfg : Cfg} {st : Bool} : ∀ (ops : List Op) {s : Ledger}, Typed cfg st s →
    (st = true → AllSteps cfg BookOK s ops) → Typed cfg st (run cfg s ops)
  | [], s, ht, _ => ht
  | op :: ops, s, ht, hb => by
    unfold run
    cases hs : step cfg s op with
    | none => exact ht
    | some s' =>
      refine run_typed ops (step_typed ht (fun hst => (hb hst).1) hs) (fun hst => ?_)
      have := (hb hst).2
      rw [hs] at this
      exact this

end Netpoll.Buf.Own
