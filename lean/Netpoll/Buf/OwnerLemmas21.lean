import Netpoll.Buf.OwnerLemmas20
/-! Lemmas about the ownership ledger, part 21: `VS` for the reader-side methods. -/
namespace Netpoll.Buf.Own
open Netpoll.Buf

theorem consumeLen_keepC (b : Buf) (n k : Nat) (h : inCaches b k) : inCaches (b.consumeLen n) k := by
  unfold Buf.consumeLen
  split
  · rename_i blk l cp hp
    split
    · rcases h with h | ⟨l', cp', h⟩
      · exact Or.inl (List.mem_append_left _ h)
      · rw [hp] at h; cases h
        exact Or.inl (List.mem_append_right _ (List.mem_singleton.2 rfl))
    · rcases h with h | ⟨l', cp', h⟩
      · exact Or.inl h
      · exact Or.inr ⟨l', cp', h⟩
  · rcases h with h | ⟨l', cp', h⟩
    · exact Or.inl h
    · exact Or.inr ⟨l', cp', h⟩

theorem retirePeek_keepC (b : Buf) (n k : Nat) (h : inCaches b k) : inCaches (b.retirePeek n) k := by
  unfold Buf.retirePeek
  split
  · rename_i blk l cp hp
    split
    · rcases h with h | ⟨l', cp', h⟩
      · exact Or.inl (List.mem_append_left _ h)
      · rw [hp] at h; cases h
        exact Or.inl (List.mem_append_right _ (List.mem_singleton.2 rfl))
    · exact h
  · exact h

/-- only the buffer changes, and it keeps its caches (possibly moving the peek cache into `caches`) and its chain -/
theorem VS.buf_only {m : Mem} {b b' : Buf} {id : Nat} (hc : ∀ k, inCaches b k → inCaches b' k) (hx : b'.chain = b.chain) : VS m b m b' id :=
  ⟨Ext.refl m, Frame.refl m, hc, fun i hi _ => by rw [hx]; exact hi, [], by simp, fun v hv => by cases hv⟩

theorem onReadSuffix_vs {m m' : Mem} {b b' : Buf} {id : Nat} {loop : List (Nat × NodeS) → Option (List (Nat × NodeS) × Nat)}
    (hl : ∀ l l' k, loop l = some (l', k) → SzL l l') (h : onReadSuffix m b loop = some (m', b')) : VS m b m' b' id := by
  unfold onReadSuffix at h
  split at h
  · cases h
  · rename_i suf hr
    split at h
    · cases h
    · rename_i suf' k hk
      simp only [Option.some.injEq, Prod.mk.injEq] at h
      obtain ⟨rfl, rfl⟩ := h
      exact VS.plain (putAll_ext _ _) (putAll_frame_sz hr (hl _ _ _ hk)) (putAll_blocks _ _).2.2 rfl rfl (fun _ hi => hi)

theorem isSingleNode_vs {m : Mem} {b b' : Buf} {n i id : Nat} {nd : NodeS} {f : Bool} (h : isSingleNode m b n = some (b', i, nd, f)) :
    VS m b m b' id := by
  obtain ⟨_, h1, h2, h3⟩ := isSingleNode_spec h
  exact VS.plain (Ext.refl m) (Frame.refl m) rfl h1 h2 (fun _ hi => by rw [h3]; exact hi)

/-- exposing struct `i` of the chain and handing out a piece of it -/
theorem expose_view_vs {m : Mem} {b : Buf} {i id lo hi : Nat} {nd nd' : NodeS} (hn : m.nodes[i]? = some nd) (hi' : i ∈ b.chain)
    (h1 : nd'.exposed = true) (h2 : nd'.recycled = nd.recycled) (h3 : nd'.block = nd.block) :
    VS m b ((m.setNode i nd').addView nd.block lo hi id) b id := by
  have f1 : Frame m (m.setNode i nd') := Frame.setNode hn (fun _ => h1) (by rw [h2]; exact Nat.le_refl _) (fun _ => h3)
  have v1 : VS m b (m.setNode i nd') b id := VS.plain (setNode_ext _ _ _) f1 rfl rfl rfl (fun _ hx => hx)
  refine v1.trans (VS.addView nd.block lo hi false (fun k hk => ⟨fun e => (by cases e), fun _ => ?_⟩))
  refine Or.inr (Or.inr ⟨i, hi', nd', ?_, h1, fun _ => (by rw [h3]; exact hk)⟩)
  simp only [Mem.setNode]; exact List.getElem?_set_self (lt_of_getElem? hn)

theorem next_vs {cfg : Cfg} {m m' : Mem} {id : Nat} {b b' : Buf} {n : Int} (h : next cfg m id b n = some (m', b')) : VS m b m' b' id := by
  unfold next at h
  split at h
  · cases h; exact VS.refl _ _ _
  · dsimp only at h
    split at h
    · cases h; exact VS.refl _ _ _
    · have v0 : VS m b m (b.consumeLen n.toNat) id := VS.buf_only (consumeLen_keepC b _) (consumeLen_chain' b _)
      generalize b.consumeLen n.toNat = b1 at h v0
      split at h
      · cases h
      · rename_i b2 i nd hs
        obtain ⟨hn, _⟩ := isSingleNode_spec hs
        have hi : i ∈ b2.chain := by rw [(isSingleNode_spec hs).2.2.2]; exact isSingleNode_mem hs
        cases h
        exact v0.trans ((isSingleNode_vs hs).trans (expose_view_vs (nd' := { nd with exposed := true, off := nd.off + n.toNat }) hn hi rfl rfl rfl))
      · rename_i b2 i nd hs
        have v1 := v0.trans (isSingleNode_vs (id := id) hs)
        by_cases hcache : cfg.block1k < n.toNat ∧ n.toNat ≤ cfg.mallocMax
        · simp only [hcache, and_self, if_true] at h
          have e1 := mallocMem_ext cfg m n.toNat
          have hnodes := mallocMem_nodes cfg m n.toNat
          have hviews : (m.mallocMem cfg n.toNat).1.views = m.views := by
            unfold Mem.mallocMem; split <;> simp [Mem.allocBlock]
          generalize m.mallocMem cfg n.toNat = p at h e1 hnodes hviews
          obtain ⟨m1, blk, cp⟩ := p
          simp only at h e1 hnodes hviews
          have v2 : VS m b2 m1 { b2 with caches := b2.caches ++ [blk] } id :=
            ⟨e1, Frame.of_nodes_eq hnodes, fun k hk => by
              rcases hk with hk | ⟨l, c, hk⟩
              · exact Or.inl (List.mem_append_left _ hk)
              · exact Or.inr ⟨l, c, hk⟩, fun _ hi _ => hi, [], by simp [hviews], fun v hv => by cases hv⟩
          split at h
          · cases h
          · rename_i m2 b3 hor
            cases h
            have v3 := onReadSuffix_vs (id := id) (fun l l' k => nextLoop_sz l _) hor
            have hb3 : blk ∈ b'.caches := by
              obtain ⟨_, _, hc⟩ := onReadSuffix_tok (fun l l' k => nextLoop_sz l _) hor
              unfold onReadSuffix at hor
              split at hor
              · cases hor
              · split at hor
                · cases hor
                · simp only [Option.some.injEq, Prod.mk.injEq] at hor
                  obtain ⟨_, rfl⟩ := hor
                  exact List.mem_append_right _ (List.mem_singleton.2 rfl)
            have v4 : VS m2 b' (m2.emit (.write blk 0 n.toNat)) b' id :=
              VS.plain (Ext.of_blocks_eq rfl) (Frame.of_nodes_eq rfl) rfl rfl rfl (fun _ hi => hi)
            exact v1.trans (v2.trans (v3.trans (v4.trans (VS.addView (some blk) 0 n.toNat false
              (fun k hk => ⟨fun e => (by cases e), fun _ => (by cases hk; exact Or.inr (Or.inl (Or.inl hb3)))⟩)))))
        · simp only [hcache, if_false] at h
          have e1 := allocBlock_ext m .gc n.toNat
          have hnodes := allocBlock_nodes m .gc n.toNat
          have hviews : (m.allocBlock .gc n.toNat).1.views = m.views := by simp [Mem.allocBlock]
          obtain ⟨bl, g1, g2, _⟩ := allocBlock_get m .gc n.toNat
          generalize m.allocBlock .gc n.toNat = p at h e1 hnodes hviews g1
          obtain ⟨m1, blk⟩ := p
          simp only at h e1 hnodes hviews g1
          have v2 : VS m b2 m1 b2 id := VS.plain e1 (Frame.of_nodes_eq hnodes) hviews rfl rfl (fun _ hi => hi)
          split at h
          · cases h
          · rename_i m2 b3 hor
            cases h
            have v3 := onReadSuffix_vs (id := id) (fun l l' k => nextLoop_sz l _) hor
            have v4 : VS m2 b' (m2.emit (.write blk 0 n.toNat)) b' id :=
              VS.plain (Ext.of_blocks_eq rfl) (Frame.of_nodes_eq rfl) rfl rfl rfl (fun _ hi => hi)
            have hgc : isGc (m2.emit (.write blk 0 n.toNat)) blk :=
              (isGc.ext (v3.ext.trans v4.ext) ⟨bl, g1, g2⟩)
            exact v1.trans (v2.trans (v3.trans (v4.trans (VS.addView (some blk) 0 n.toNat false
              (fun k hk => ⟨fun e => (by cases e), fun _ => (by cases hk; exact Or.inl hgc)⟩)))))

theorem emit_vs (m : Mem) (b : Buf) (e : Ev) (id : Nat) : VS m b (m.emit e) b id :=
  VS.plain (Ext.of_blocks_eq rfl) (Frame.of_nodes_eq rfl) rfl rfl rfl (fun _ hi => hi)

/-- `peekFill` with the cache block `blk` (held as the buffer's peek cache afterwards) -/
theorem peekFill_vs {m m' : Mem} {id : Nat} {b b' : Buf} {n blk l cp : Nat} (hnone : ∀ k, peekIs b k → k = blk)
    (h : peekFill m id b n blk l cp = some (m', b')) : VS m b m' b' id := by
  have hb : ∀ l', ∀ k, inCaches b k → inCaches ({ b with cachePeek := some (blk, l', cp) } : Buf) k := by
    intro l' k hk
    rcases hk with hk | hk
    · exact Or.inl hk
    · rw [hnone k hk]; exact Or.inr ⟨l', cp, rfl⟩
  have hheld : ∀ (m1 : Mem) (l' : Nat), HeldBy m1 ({ b with cachePeek := some (blk, l', cp) } : Buf) blk :=
    fun _ l' => Or.inr (Or.inl (Or.inr ⟨l', cp, rfl⟩))
  unfold peekFill at h
  split at h
  · cases h
    exact (VS.buf_only (b' := { b with cachePeek := some (blk, l, cp) }) (hb l) rfl).trans
      (VS.addView (some blk) 0 n false (fun k hk => ⟨fun e => (by cases e), fun _ => (by cases hk; exact hheld _ _)⟩))
  · split at h
    · cases h
    · split at h
      · cases h
      · rename_i l' _
        cases h
        exact (VS.buf_only (b' := { b with cachePeek := some (blk, l', cp) }) (hb l') rfl).trans ((emit_vs _ _ _ _).trans
          (VS.addView (some blk) 0 n false (fun k hk => ⟨fun e => (by cases e), fun _ => (by cases hk; exact hheld _ _)⟩)))

theorem peek_vs {cfg : Cfg} {m m' : Mem} {id : Nat} {b b' : Buf} {n : Int} (h : peek cfg m id b n = some (m', b')) : VS m b m' b' id := by
  unfold peek at h
  split at h
  · cases h; exact VS.refl _ _ _
  · dsimp only at h
    split at h
    · cases h; exact VS.refl _ _ _
    · split at h
      · cases h
      · rename_i b2 i nd hs
        obtain ⟨hn, _⟩ := isSingleNode_spec hs
        have hi : i ∈ b2.chain := by rw [(isSingleNode_spec hs).2.2.2]; exact isSingleNode_mem hs
        cases h
        exact (isSingleNode_vs hs).trans (expose_view_vs (nd' := { nd with exposed := true }) hn hi rfl rfl rfl)
      · rename_i b2 i nd hs
        have v1 := isSingleNode_vs (id := id) hs
        have v2 : VS m b2 m (b2.retirePeek n.toNat) id := VS.buf_only (retirePeek_keepC b2 _) (retirePeek_chain b2 _)
        split at h
        · rename_i blk l cp hp
          refine v1.trans (v2.trans (peekFill_vs (fun k hk => ?_) h))
          obtain ⟨l', cp', hk⟩ := hk
          rw [hp] at hk; cases hk; rfl
        · rename_i hp
          have e1 := mallocMem_ext cfg m n.toNat
          have hnodes := mallocMem_nodes cfg m n.toNat
          have hviews : (m.mallocMem cfg n.toNat).1.views = m.views := by
            unfold Mem.mallocMem; split <;> simp [Mem.allocBlock]
          have v3 : VS m (b2.retirePeek n.toNat) (m.mallocMem cfg n.toNat).1 (b2.retirePeek n.toNat) id :=
            VS.plain e1 (Frame.of_nodes_eq hnodes) hviews rfl rfl (fun _ hi => hi)
          refine v1.trans (v2.trans (v3.trans (peekFill_vs (fun k hk => ?_) h)))
          obtain ⟨l', cp', hk⟩ := hk
          rw [hp] at hk; cases hk

theorem skip_vs {m m' : Mem} {id : Nat} {b b' : Buf} {n : Int} (h : skip m b n = some (m', b')) : VS m b m' b' id := by
  unfold skip at h
  split at h
  · cases h; exact VS.refl _ _ _
  · dsimp only at h
    split at h
    · cases h; exact VS.refl _ _ _
    · exact (VS.buf_only (consumeLen_keepC b _) (consumeLen_chain' b _)).trans (onReadSuffix_vs (fun l l' k => skipLoop_sz l _) h)

theorem readByte_vs {m m' : Mem} {id : Nat} {b b' : Buf} (h : readByte m b = some (m', b')) : VS m b m' b' id := by
  unfold readByte at h
  split at h
  · cases h; exact VS.refl _ _ _
  · exact (VS.buf_only (consumeLen_keepC b _) (consumeLen_chain' b _)).trans (onReadSuffix_vs (fun l l' k => readByteLoop_sz l) h)

theorem untilIdx_vs {cfg : Cfg} {m m' : Mem} {id : Nat} {b b' : Buf} {idx : Int} (h : untilIdx cfg m id b idx = some (m', b')) :
    VS m b m' b' id := by
  unfold untilIdx at h
  split at h
  · cases h; exact VS.refl _ _ _
  · exact next_vs h

/-- a fresh GC block and the private copy handed out on it -/
theorem gc_copy_vs {m : Mem} {b : Buf} {id n : Nat} :
    VS m b (((m.allocBlock .gc n).1.emit (.write (m.allocBlock .gc n).2 0 n)).addView (some (m.allocBlock .gc n).2) 0 n id true) b id := by
  have e1 := allocBlock_ext m .gc n
  obtain ⟨bl, g1, g2, _⟩ := allocBlock_get m .gc n
  have v1 : VS m b (m.allocBlock .gc n).1 b id :=
    VS.plain e1 (Frame.of_nodes_eq (allocBlock_nodes m .gc n)) (by simp [Mem.allocBlock]) rfl rfl (fun _ hi => hi)
  refine v1.trans ((emit_vs _ _ _ _).trans (VS.addView _ 0 n true (fun k hk => ⟨fun _ => ?_, fun e => (by cases e)⟩)))
  cases hk
  exact ⟨bl, g1, g2⟩

theorem allocGc_vs (m : Mem) (b : Buf) (n id : Nat) : VS m b (m.allocBlock .gc n).1 b id ∧ isGc (m.allocBlock .gc n).1 (m.allocBlock .gc n).2 := by
  obtain ⟨bl, g1, g2, _⟩ := allocBlock_get m .gc n
  exact ⟨VS.plain (allocBlock_ext m .gc n) (Frame.of_nodes_eq (allocBlock_nodes m .gc n)) (by simp [Mem.allocBlock]) rfl rfl (fun _ hi => hi),
    bl, g1, g2⟩

theorem permView_vs {m : Mem} {b : Buf} {blk lo hi id : Nat} (hg : isGc m blk) : VS m b (m.addView (some blk) lo hi id true) b id :=
  VS.addView (some blk) lo hi true (fun k hk => ⟨fun _ => (by cases hk; exact hg), fun e => (by cases e)⟩)

theorem setSize_vs {m : Mem} {b : Buf} {i id : Nat} {nd : NodeS} (nd' : NodeS) (hn : m.nodes[i]? = some nd) (h1 : nd'.exposed = nd.exposed)
    (h2 : nd'.recycled = nd.recycled) (h3 : nd'.block = nd.block) : VS m b (m.setNode i nd') b id :=
  VS.plain (setNode_ext _ _ _) (Frame.setNode hn (fun e => by rw [h1]; exact e) (by rw [h2]; exact Nat.le_refl _) (fun _ => h3)) rfl rfl rfl
    (fun _ hi => hi)

theorem readBinary_vs {m m' : Mem} {id : Nat} {b b' : Buf} {n : Int} (h : readBinary m id b n = some (m', b')) : VS m b m' b' id := by
  unfold readBinary at h
  split at h
  · cases h; exact VS.refl _ _ _
  · dsimp only at h
    split at h
    · cases h; exact VS.refl _ _ _
    · have v0 : VS m b m (b.consumeLen n.toNat) id := VS.buf_only (consumeLen_keepC b _) (consumeLen_chain' b _)
      generalize b.consumeLen n.toNat = b1 at h v0
      split at h
      · cases h
      · rename_i b2 i nd hs
        obtain ⟨hn, _⟩ := isSingleNode_spec hs
        obtain ⟨va, hg⟩ := allocGc_vs m b2 n.toNat id
        have hnodes := allocBlock_nodes m .gc n.toNat
        generalize m.allocBlock .gc n.toNat = p at h va hg hnodes
        obtain ⟨m1, blk⟩ := p
        simp only at h va hg hnodes
        cases h
        have vs1 := setSize_vs (b := b') (id := id) (nd := nd) (i := i) (m := m1) { nd with off := nd.off + n.toNat } (by rw [hnodes]; exact hn) rfl rfl rfl
        have ve := emit_vs (m1.setNode i { nd with off := nd.off + n.toNat }) b' (.write blk 0 n.toNat) id
        exact v0.trans ((isSingleNode_vs hs).trans (va.trans (vs1.trans (ve.trans (permView_vs (hg.ext (vs1.ext.trans ve.ext)))))))
      · rename_i b2 i nd hs
        obtain ⟨va, hg⟩ := allocGc_vs m b2 n.toNat id
        generalize m.allocBlock .gc n.toNat = p at h va hg
        obtain ⟨m1, blk⟩ := p
        simp only at h va hg
        split at h
        · cases h
        · rename_i m2 b3 hor
          cases h
          have v3 := onReadSuffix_vs (id := id) (fun l l' k => nextLoop_sz l _) hor
          have ve := emit_vs m2 b' (.write blk 0 n.toNat) id
          exact v0.trans ((isSingleNode_vs hs).trans (va.trans (v3.trans (ve.trans (permView_vs (hg.ext (v3.ext.trans ve.ext)))))))

theorem nodeRelease_ext {cfg : Cfg} (fuel : Nat) : ∀ {m m' : Mem} {i : Nat}, Mem.nodeRelease cfg fuel m i = some m' → Ext m m' := by
  induction fuel with
  | zero => intro m m' i h; simp [Mem.nodeRelease] at h
  | succ fuel ih =>
    intro m m' i h
    unfold Mem.nodeRelease at h
    cases hn : m.nodes[i]? with
    | none => simp [hn] at h
    | some nd =>
      simp only [hn] at h
      cases ho : nd.origin with
      | none => simp only [ho] at h; exact releaseSelf_ext h
      | some o =>
        simp only [ho] at h
        cases h1 : Mem.nodeRelease cfg fuel m o with
        | none => simp [h1] at h
        | some m1 =>
          simp only [h1] at h
          exact (ih h1).trans (releaseSelf_ext h)

theorem releaseSelf_views {cfg : Cfg} {m m' : Mem} {j : Nat} (h : m.releaseSelf cfg j = some m') : m'.views = m.views := by
  unfold Mem.releaseSelf at h
  cases hn : m.nodes[j]? with
  | none => simp [hn] at h
  | some nd =>
    simp only [hn] at h
    have hfm : ∀ blk c, (m.freeMem cfg blk c).views = m.views := by
      intro blk c
      rcases freeMem_cases cfg m blk c with e | ⟨_, _, _, _, _, e⟩ <;> rw [e]
    split at h
    · cases h
      split
      · rfl
      · exact hfm _ _
    · cases h; rfl

theorem nodeRelease_views {cfg : Cfg} (fuel : Nat) : ∀ {m m' : Mem} {i : Nat}, Mem.nodeRelease cfg fuel m i = some m' → m'.views = m.views := by
  induction fuel with
  | zero => intro m m' i h; simp [Mem.nodeRelease] at h
  | succ fuel ih =>
    intro m m' i h
    unfold Mem.nodeRelease at h
    cases hn : m.nodes[i]? with
    | none => simp [hn] at h
    | some nd =>
      simp only [hn] at h
      cases ho : nd.origin with
      | none => simp only [ho] at h; exact releaseSelf_views h
      | some o =>
        simp only [ho] at h
        cases h1 : Mem.nodeRelease cfg fuel m o with
        | none => simp [h1] at h
        | some m1 =>
          simp only [h1] at h
          rw [releaseSelf_views h, ih h1]

/-- `readCopy`'s clean-up releases unexposed structs only: the exposed ones stay chained -/
theorem dropUnexposed_vs {cfg : Cfg} : ∀ (l : List Nat) {m m' : Mem} {kept : List Nat}, dropUnexposed cfg m l = some (m', kept) →
    Ext m m' ∧ Frame m m' ∧ m'.views = m.views ∧ ∀ i ∈ l, (∃ nd : NodeS, m.nodes[i]? = some nd ∧ nd.exposed = true) → i ∈ kept
  | [], m, m', kept, h => by
    simp [dropUnexposed] at h; obtain ⟨rfl, rfl⟩ := h
    exact ⟨Ext.refl _, Frame.refl _, rfl, fun i hi => by cases hi⟩
  | i :: rest, m, m', kept, h => by
    unfold dropUnexposed at h
    split at h
    · cases h
    · rename_i nd hn
      split at h
      · split at h
        · cases h
        · rename_i m1 k1 hd
          cases h
          obtain ⟨e, f, v, hk⟩ := dropUnexposed_vs rest hd
          refine ⟨e, f, v, fun j hj hx => ?_⟩
          rcases List.mem_cons.1 hj with rfl | hj
          · exact List.mem_cons_self
          · exact List.mem_cons_of_mem _ (hk j hj hx)
      · rename_i hexp
        split at h
        · cases h
        · rename_i m1 hrel
          obtain ⟨e, f, v, hk⟩ := dropUnexposed_vs rest h
          have f1 := nodeRelease_frame _ hrel
          refine ⟨(nodeRelease_ext _ hrel).trans e, f1.trans f, by rw [v, nodeRelease_views _ hrel], fun j hj hx => ?_⟩
          rcases List.mem_cons.1 hj with rfl | hj
          · obtain ⟨nd0, g1, g2⟩ := hx
            rw [hn] at g1; cases g1
            exact absurd g2 hexp
          · obtain ⟨nd0, g1, g2⟩ := hx
            obtain ⟨nd1, k1, k2, _⟩ := f1 j nd0 g1
            exact hk j hj ⟨nd1, k1, k2 g2⟩

end Netpoll.Buf.Own
