import Netpoll.Buf.OwnerLemmas13
/-! Lemmas about the ownership ledger, part 14: the reference-count invariant through the reader-side methods.
`R` stands for the structs chained in the other buffers. -/
namespace Netpoll.Buf.Own
open Netpoll.Buf

theorem Rc.setNode_same' {m : Mem} {C : List Nat} {i : Nat} {nd : NodeS} (nd' : NodeS) (h : Rc m C) (hn : m.nodes[i]? = some nd)
    (h1 : nd'.recycled = nd.recycled) (h2 : nd'.origin = nd.origin) (h3 : nd'.refer = nd.refer) (h4 : nd'.block = nd.block)
    (h5 : nd'.unmanaged = nd.unmanaged) : Rc (m.setNode i nd') C := h.setNode_same hn h1 h2 h3 h4 h5

theorem Rc.emit {m : Mem} {C : List Nat} (h : Rc m C) (e : Ev) : Rc (m.emit e) C := h.of_nodes_eq rfl (Ext.of_blocks_eq rfl)
theorem Rc.endViews {m : Mem} {C : List Nat} (h : Rc m C) (o : Nat) : Rc (m.endViews o) C := h.of_nodes_eq rfl (Ext.of_blocks_eq rfl)
theorem addView_nodes (m : Mem) (blk : Option Nat) (lo hi o : Nat) (p : Bool) : (m.addView blk lo hi o p).nodes = m.nodes := by
  unfold Mem.addView; split
  · rfl
  · split <;> rfl
theorem Rc.addView {m : Mem} {C : List Nat} (h : Rc m C) (blk : Option Nat) (lo hi o : Nat) (p : Bool) :
    Rc (m.addView blk lo hi o p) C := h.of_nodes_eq (addView_nodes _ _ _ _ _ _) (Ext.of_blocks_eq (addView_blocks _ _ _ _ _ _))
theorem Rc.allocBlock {m : Mem} {C : List Nat} (h : Rc m C) (k : Kind) (c : Nat) : Rc (m.allocBlock k c).1 C :=
  h.of_nodes_eq (allocBlock_nodes m k c) (allocBlock_ext m k c)
theorem Rc.mallocMem {cfg : Cfg} {m : Mem} {C : List Nat} (h : Rc m C) (c : Nat) : Rc (m.mallocMem cfg c).1 C :=
  h.of_nodes_eq (mallocMem_nodes cfg m c) (mallocMem_ext cfg m c)
theorem Rc.freeMem {cfg : Cfg} {m : Mem} {C : List Nat} (h : Rc m C) (blk : Option Nat) (c : Nat) : Rc (m.freeMem cfg blk c) C :=
  h.of_nodes_eq (freeMem_nodes cfg m blk c) (freeMem_ext cfg m blk c)

theorem freeCaches_nodes (cfg : Cfg) : ∀ (l : List Nat) (m : Mem), (freeCaches cfg m l).nodes = m.nodes
  | [], _ => rfl
  | blk :: rest, m => by unfold freeCaches; rw [freeCaches_nodes cfg rest, freeMem_nodes]

theorem freeCaches_ext (cfg : Cfg) : ∀ (l : List Nat) (m : Mem), Ext m (freeCaches cfg m l)
  | [], m => Ext.refl m
  | blk :: rest, m => by unfold freeCaches; exact (freeMem_ext _ _ _ _).trans (freeCaches_ext cfg rest _)

theorem onReadSuffix_rc {m m' : Mem} {b b' : Buf} {C : List Nat} {loop : List (Nat × NodeS) → Option (List (Nat × NodeS) × Nat)}
    (hl : ∀ l l' k, loop l = some (l', k) → SzL l l') (h : Rc m C) (hr : onReadSuffix m b loop = some (m', b')) :
    Rc m' C ∧ b'.chain = b.chain := by
  unfold onReadSuffix at hr
  split at hr
  · cases hr
  · rename_i suf hres
    split at hr
    · cases hr
    · rename_i suf' k hk
      simp only [Option.some.injEq, Prod.mk.injEq] at hr
      obtain ⟨rfl, rfl⟩ := hr
      exact ⟨putAll_rc _ h (refOK_of_sz hres (hl _ _ _ hk)), rfl⟩

theorem isSingleNode_mem {s : Mem} {b b' : Buf} {n i : Nat} {nd : NodeS} {f : Bool}
    (h : isSingleNode s b n = some (b', i, nd, f)) : i ∈ b.chain := by
  unfold isSingleNode at h
  split at h
  · cases h
  · split at h
    · cases h
    · split at h
      · cases h
      · rename_i r' _ i' hi
        split at h
        · cases h
        · simp only [Option.some.injEq, Prod.mk.injEq] at h
          obtain ⟨_, rfl, _, _⟩ := h
          exact List.mem_of_getElem? hi

theorem consumeLen_chain' (b : Buf) (n : Nat) : (b.consumeLen n).chain = b.chain := (consumeLen_chain b n).1

theorem next_rc {cfg : Cfg} {m m' : Mem} {id : Nat} {b b' : Buf} {n : Int} {R : List Nat} (h : Rc m (b.chain ++ R))
    (hr : next cfg m id b n = some (m', b')) : Rc m' (b'.chain ++ R) := by
  unfold next at hr
  split at hr
  · cases hr; exact h
  · dsimp only at hr
    split at hr
    · cases hr; exact h
    · have hc1 := consumeLen_chain' b n.toNat
      generalize b.consumeLen n.toNat = b1 at hr hc1
      split at hr
      · cases hr
      · rename_i b2 i nd hs
        obtain ⟨hn, _, _, hc2⟩ := isSingleNode_spec hs
        cases hr
        rw [hc2, hc1]
        exact (h.setNode_same' { nd with exposed := true, off := nd.off + n.toNat } hn rfl rfl rfl rfl rfl).addView _ _ _ _ _
      · rename_i b2 i nd hs
        obtain ⟨hn, _, _, hc2⟩ := isSingleNode_spec hs
        by_cases hcache : cfg.block1k < n.toNat ∧ n.toNat ≤ cfg.mallocMax
        · simp only [hcache, and_self, if_true] at hr
          have h1 := h.mallocMem (cfg := cfg) n.toNat
          generalize m.mallocMem cfg n.toNat = p at hr h1
          obtain ⟨m1, blk, cp⟩ := p
          simp only at hr h1
          split at hr
          · cases hr
          · rename_i m2 b3 hor
            cases hr
            obtain ⟨h2, hc3⟩ := onReadSuffix_rc (fun l l' k => nextLoop_sz l _) h1 hor
            rw [hc3]; simp only; rw [hc2, hc1]
            exact (h2.emit _).addView _ _ _ _ _
        · simp only [hcache, if_false] at hr
          have h1 := h.allocBlock .gc n.toNat
          generalize m.allocBlock .gc n.toNat = p at hr h1
          obtain ⟨m1, blk⟩ := p
          simp only at hr h1
          split at hr
          · cases hr
          · rename_i m2 b3 hor
            cases hr
            obtain ⟨h2, hc3⟩ := onReadSuffix_rc (fun l l' k => nextLoop_sz l _) h1 hor
            rw [hc3, hc2, hc1]
            exact (h2.emit _).addView _ _ _ _ _

theorem peekFill_rc {m m' : Mem} {id : Nat} {b b' : Buf} {n blk l cp : Nat} {C : List Nat} (h : Rc m C)
    (hr : peekFill m id b n blk l cp = some (m', b')) : Rc m' C ∧ b'.chain = b.chain := by
  unfold peekFill at hr
  split at hr
  · cases hr; exact ⟨h.addView _ _ _ _ _, rfl⟩
  · split at hr
    · cases hr
    · split at hr
      · cases hr
      · cases hr; exact ⟨(h.emit _).addView _ _ _ _ _, rfl⟩

theorem retirePeek_chain (b : Buf) (n : Nat) : (b.retirePeek n).chain = b.chain := by
  unfold Buf.retirePeek
  split
  · split <;> rfl
  · rfl

theorem peek_rc {cfg : Cfg} {m m' : Mem} {id : Nat} {b b' : Buf} {n : Int} {R : List Nat} (h : Rc m (b.chain ++ R))
    (hr : peek cfg m id b n = some (m', b')) : Rc m' (b'.chain ++ R) := by
  unfold peek at hr
  split at hr
  · cases hr; exact h
  · dsimp only at hr
    split at hr
    · cases hr; exact h
    · split at hr
      · cases hr
      · rename_i b2 i nd hs
        obtain ⟨hn, _, _, hc2⟩ := isSingleNode_spec hs
        cases hr
        rw [hc2]
        exact (h.setNode_same' { nd with exposed := true } hn rfl rfl rfl rfl rfl).addView _ _ _ _ _
      · rename_i b2 i nd hs
        obtain ⟨hn, _, _, hc2⟩ := isSingleNode_spec hs
        split at hr
        · obtain ⟨h2, hc3⟩ := peekFill_rc h hr
          rw [hc3, retirePeek_chain, hc2]; exact h2
        · obtain ⟨h2, hc3⟩ := peekFill_rc (h.mallocMem (cfg := cfg) n.toNat) hr
          rw [hc3, retirePeek_chain, hc2]; exact h2

theorem skip_rc {m m' : Mem} {b b' : Buf} {n : Int} {R : List Nat} (h : Rc m (b.chain ++ R))
    (hr : skip m b n = some (m', b')) : Rc m' (b'.chain ++ R) := by
  unfold skip at hr
  split at hr
  · cases hr; exact h
  · dsimp only at hr
    split at hr
    · cases hr; exact h
    · obtain ⟨h2, hc⟩ := onReadSuffix_rc (fun l l' k => skipLoop_sz l _) h hr
      rw [hc, consumeLen_chain']; exact h2

theorem readByte_rc {m m' : Mem} {b b' : Buf} {R : List Nat} (h : Rc m (b.chain ++ R))
    (hr : readByte m b = some (m', b')) : Rc m' (b'.chain ++ R) := by
  unfold readByte at hr
  split at hr
  · cases hr; exact h
  · obtain ⟨h2, hc⟩ := onReadSuffix_rc (fun l l' k => readByteLoop_sz l) h hr
    rw [hc, consumeLen_chain']; exact h2

theorem untilIdx_rc {cfg : Cfg} {m m' : Mem} {id : Nat} {b b' : Buf} {idx : Int} {R : List Nat} (h : Rc m (b.chain ++ R))
    (hr : untilIdx cfg m id b idx = some (m', b')) : Rc m' (b'.chain ++ R) := by
  unfold untilIdx at hr
  split at hr
  · cases hr; exact h
  · exact next_rc h hr

theorem readBinary_rc {m m' : Mem} {id : Nat} {b b' : Buf} {n : Int} {R : List Nat} (h : Rc m (b.chain ++ R))
    (hr : readBinary m id b n = some (m', b')) : Rc m' (b'.chain ++ R) := by
  unfold readBinary at hr
  split at hr
  · cases hr; exact h
  · dsimp only at hr
    split at hr
    · cases hr; exact h
    · have hc1 := consumeLen_chain' b n.toNat
      generalize b.consumeLen n.toNat = b1 at hr hc1
      have h1 := h.allocBlock .gc n.toNat
      have hnodes := allocBlock_nodes m .gc n.toNat
      generalize m.allocBlock .gc n.toNat = p at hr h1 hnodes
      obtain ⟨m1, blk⟩ := p
      simp only at hr h1 hnodes
      split at hr
      · cases hr
      · rename_i b2 i nd hs
        obtain ⟨hn, _, _, hc2⟩ := isSingleNode_spec hs
        cases hr
        rw [hc2, hc1]
        exact ((h1.setNode_same' (nd := nd) { nd with off := nd.off + n.toNat } (by rw [hnodes]; exact hn) rfl rfl rfl rfl rfl).emit _).addView _ _ _ _ _
      · rename_i b2 i nd hs
        obtain ⟨hn, _, _, hc2⟩ := isSingleNode_spec hs
        split at hr
        · cases hr
        · rename_i m2 b3 hor
          cases hr
          obtain ⟨h2, hc3⟩ := onReadSuffix_rc (fun l l' k => nextLoop_sz l _) h1 hor
          rw [hc3, hc2, hc1]
          exact (h2.emit _).addView _ _ _ _ _

theorem releaseCore_rc {cfg : Cfg} {m m' : Mem} {b b' : Buf} {R : List Nat} (h : Rc m (b.chain ++ R))
    (hr : releaseCore cfg m b = some (m', b')) : Rc m' (b'.chain ++ R) := by
  unfold releaseCore at hr
  split at hr
  · cases hr
  · split at hr
    · cases hr
    · rename_i r' _
      split at hr
      · cases hr
      · split at hr
        · cases hr
        · rename_i m1 hra
          cases hr
          have h0 : Rc m (b.chain.take r' ++ (b.chain.drop r' ++ R)) := by
            rw [← List.append_assoc, List.take_append_drop]; exact h
          have h1 := releaseAll_rc _ h0 hra
          simp only
          split
          · exact (h1.of_nodes_eq (freeCaches_nodes cfg _ _) (freeCaches_ext cfg _ _)).freeMem _ _
          · exact h1.of_nodes_eq (freeCaches_nodes cfg _ _) (freeCaches_ext cfg _ _)

theorem release_rc {cfg : Cfg} {m m' : Mem} {id : Nat} {b b' : Buf} {R : List Nat} (h : Rc m (b.chain ++ R))
    (hr : release cfg m id b = some (m', b')) : Rc m' (b'.chain ++ R) := by
  unfold release at hr
  split at hr
  · cases hr
  · rename_i m1 b1 hrc
    cases hr
    exact (releaseCore_rc h hrc).endViews _

end Netpoll.Buf.Own
