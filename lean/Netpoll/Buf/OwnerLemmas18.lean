import Netpoll.Buf.OwnerLemmas17
import Netpoll.Buf.OwnerCov
/-! Lemmas about the ownership ledger, part 18: from the three invariants (typing, tokens, reference counts) to
"the block under a live struct has not been freed". -/
namespace Netpoll.Buf.Own
open Netpoll.Buf

/-- the three invariants together -/
structure Good (cfg : Cfg) (s : Ledger) : Prop where
  typed : Typed cfg false s
  tok : Tok s
  rc : RcAll s

theorem good_init (cfg : Cfg) : Good cfg {} := ⟨typed_init cfg false, tok_init, rc_init⟩

theorem run_good {cfg : Cfg} (ops : List Op) (hc : AllSteps cfg Cov {} ops) : Good cfg (run cfg {} ops) :=
  ⟨run_typed ops (typed_init cfg false) (fun h => by cases h), run_tok ops tok_init, run_rc ops rc_init hc⟩

/-- a struct without origin that has memory: that memory has not been handed to `free` -/
theorem Good.plain_block_unfreed {cfg : Cfg} {s : Ledger} (h : Good cfg s) {i k : Nat} {nd : NodeS} {bl : Block}
    (hn : s.mem.nodes[i]? = some nd) (ho : nd.origin = none) (hb : nd.block = some k) (hbl : s.mem.blocks[k]? = some bl) :
    bl.frees = 0 := by
  cases hu : nd.unmanaged with
  | false =>
    -- the struct holds the block's token
    have hown : nd.owns k = true := by simp [NodeS.owns, hu, hb]
    have hpos : 0 < s.mem.nodeOwn k := by
      unfold Mem.nodeOwn
      exact countP_pos_of_get (fun x : NodeS => x.owns k) _ i nd hn hown
    have hle := h.tok.le k
    have hfr : s.mem.freed k = bl.frees := by unfold Mem.freed; rw [hbl]
    unfold Ledger.own Mem.own at hle
    omega
  | true =>
    -- caller memory: never handed to `free`
    obtain ⟨bl', g1, g2⟩ := (h.rc.node i nd hn).caller hu ho k hb
    rw [hbl] at g1; cases g1
    rcases Nat.eq_zero_or_pos bl.frees with h0 | h0
    · exact h0
    · have := h.typed.core.frees k bl hbl h0
      rw [g2] at this; cases this

/-- **a live struct's memory has not been handed to `free`** – whether it owns the memory, wraps caller memory, or is a
Slice child of a struct on that block -/
theorem Good.live_block_unfreed {cfg : Cfg} {s : Ledger} (h : Good cfg s) {i k : Nat} {nd : NodeS} {bl : Block}
    (hn : s.mem.nodes[i]? = some nd) (hlive : nd.recycled = 0) (hb : nd.block = some k) (hbl : s.mem.blocks[k]? = some bl) :
    bl.frees = 0 := by
  cases ho : nd.origin with
  | none => exact h.plain_block_unfreed hn ho hb hbl
  | some o =>
    obtain ⟨_, _, _, on, d, e, f⟩ := (h.rc.node i nd hn).child o ho hlive
    exact h.plain_block_unfreed d e (by rw [f]; exact hb) hbl

theorem mem_allChains {l : List (Nat × Buf)} {id : Nat} {b : Buf} {i : Nat} (hm : (id, b) ∈ l) (hi : i ∈ b.chain) : i ∈ allChains l := by
  unfold allChains
  exact List.mem_flatMap.2 ⟨(id, b), hm, hi⟩

/-- **no struct chained in a buffer (in particular no node of a Slice reader) lies on a freed block** -/
theorem Good.chained_unfreed {cfg : Cfg} {s : Ledger} (h : Good cfg s) {id i k : Nat} {b : Buf} {nd : NodeS} {bl : Block}
    (hm : (id, b) ∈ s.bufs) (hi : i ∈ b.chain) (hn : s.mem.nodes[i]? = some nd) (hb : nd.block = some k)
    (hbl : s.mem.blocks[k]? = some bl) : bl.frees = 0 :=
  h.live_block_unfreed hn (h.rc.chained_live hn (mem_allChains hm hi)) hb hbl

/-- the executable oracle's first half: a freed block has no chained struct on it -/
theorem Good.chainedOn_nil {cfg : Cfg} {s : Ledger} (h : Good cfg s) {k : Nat} {bl : Block} (hbl : s.mem.blocks[k]? = some bl)
    (hf : bl.frees ≠ 0) : s.chainedOn k = [] := by
  unfold Ledger.chainedOn
  rw [List.flatMap_eq_nil_iff]
  intro p hp
  obtain ⟨id, b⟩ := p
  simp only [List.map_eq_nil_iff, List.filter_eq_nil_iff]
  intro i hi
  cases hn : s.mem.nodes[i]? with
  | none => simp
  | some nd =>
    simp only [decide_eq_true_eq, not_and]
    intro _ hb
    exact absurd (h.chained_unfreed hp hi hn hb hbl) hf

/-- every struct is put back to `linkedPool` at most once -/
theorem Good.recycled_once {cfg : Cfg} {s : Ledger} (h : Good cfg s) {i : Nat} {nd : NodeS} (hn : s.mem.nodes[i]? = some nd) :
    nd.recycled ≤ 1 := (h.rc.node i nd hn).once

/-! ### `Cov` as an executable check (for the non-vacuity examples and the driver) -/

theorem ackSafeB_sound {m : Mem} {b : Buf} (h : ackSafeB m b = true) : AckSafe m b := by
  intro i hi nd hn
  unfold ackSafeB at h
  rw [List.all_eq_true] at h
  have := h i hi
  rw [hn] at this
  simpa using this

theorem covB_sound {s : Ledger} {op : Op} (h : covB s op = true) : Cov s op := by
  cases op <;> simp only [covB, Cov] at h ⊢ <;> try trivial
  case wdir => simpa using h
  case ack id n =>
    intro b hb
    rw [hb] at h
    exact ackSafeB_sound h
  case new => simpa [Option.isNone_iff_eq_none] using h
  case slice =>
    simp only [Bool.and_eq_true, Option.isNone_iff_eq_none, bne_iff_ne] at h
    exact h
  case app => simpa using h

theorem allStepsB_sound {cfg : Cfg} {P : Ledger → Op → Prop} {Pb : Ledger → Op → Bool} (hp : ∀ s op, Pb s op = true → P s op) :
    ∀ (ops : List Op) (s : Ledger), allStepsB cfg Pb s ops = true → AllSteps cfg P s ops
  | [], _, _ => trivial
  | op :: ops, s, h => by
    unfold allStepsB at h
    simp only [Bool.and_eq_true] at h
    refine ⟨hp s op h.1, ?_⟩
    cases hs : step cfg s op with
    | none => trivial
    | some s' =>
      have := h.2
      rw [hs] at this
      exact allStepsB_sound hp ops s' this

end Netpoll.Buf.Own
