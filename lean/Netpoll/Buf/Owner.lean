import Netpoll.Buf.Model
/-
Ownership ledger model of netpoll's LinkBuffer (nocopy_linkbuffer.go, nocopy.go) for C02 / C03.

It forgets byte contents and keeps what decides who owns which memory:
* `Block`: a piece of memory: a pool block (`mcache.Malloc`), garbage-collected memory
  (`dirtmake.Bytes`: private copies, results above `mallocMax`) or caller memory
  (arguments of WriteBinary / WriteString / WriteDirect);
* `NodeS`: a `linkBufferNode` struct in a global table (ids in creation order; structs are never
  reused by the model, `recycled` counts `linkedPool.Put`), with its slice header
  (`block, lo, blen, cap`), cursors, flags, reference count and origin;
* `Buf`: an `UnsafeLinkBuffer`: the chain from `head` as a list of node ids with the cursors as
  indices (same convention as the value model `Netpoll.Buf.LB`), `caches`, `cachePeek`;
* the event log (`malloc b`, `free b`, `write b lo hi`) and the ghost list of views handed out.

One function per Go method, mirroring the code as written.  The loops are the loops of
`Model.lean` on sizes (`NodeS.blen` is `len(node.buf)`); `shapeOf` erases a ledger buffer to
the value model's shape, which the driver compares after every operation.
Core Lean only.
-/
namespace Netpoll.Buf.Own
open Netpoll.Buf

inductive Kind where
  | pool | gc | caller
deriving Repr, DecidableEq

structure Block where
  kind : Kind := .pool
  cap : Nat := 0
  /-- number of times the block was handed to the pool's `Free` -/
  frees : Nat := 0
  /-- allocation sequence number among pool blocks (what the instrumented allocator prints) -/
  pid : Nat := 0
  /-- ghost: the block lies under the unmanaged head left by a WriteDirect split (known finding D4) -/
  split : Bool := false
deriving Repr, DecidableEq

/-- a `linkBufferNode` struct -/
structure NodeS where
  /-- memory `node.buf` points into (`none`: nil slice) -/
  block : Option Nat := none
  /-- offset of `&node.buf[0]` inside the block -/
  lo : Nat := 0
  /-- `len(node.buf)` -/
  blen : Nat := 0
  off : Nat := 0
  malloc : Nat := 0
  /-- `cap(node.buf)` -/
  cap : Nat := 0
  unmanaged : Bool := false
  exposed : Bool := false
  refer : Int := 1
  origin : Option Nat := none
  /-- how often the struct was put back to `linkedPool` -/
  recycled : Nat := 0
deriving Repr, DecidableEq

/-- `node.Len()` (as the value model: truncated) -/
def NodeS.rlen (n : NodeS) : Nat := n.blen - n.off
/-- `node.malloc - len(node.buf)` -/
def NodeS.pendLen (n : NodeS) : Int := (n.malloc : Int) - (n.blen : Int)

structure Buf where
  chain : List Nat := []
  r : Nat := 0
  f : Nat := 0
  w : Nat := 0
  length : Nat := 0
  mallocSize : Nat := 0
  /-- `b.caches`: blocks -/
  caches : List Nat := []
  /-- `b.cachePeek`: (block, len, cap) -/
  cachePeek : Option (Nat × Nat × Nat) := none
deriving Repr, DecidableEq

inductive Ev where
  | malloc (b : Nat)
  /-- `mcache.Free` reached with a slice of capacity `cap` lying in block `b` -/
  | free (b : Nat) (cap : Nat)
  /-- netpoll writes `block[lo, hi)` -/
  | write (b lo hi : Nat)
deriving Repr, DecidableEq

/-- a result handed to the caller: `block[lo, hi)`, obtained from buffer `owner`.
`perm`: a private copy (ReadBinary / ReadString / Read), valid for ever. -/
structure View where
  block : Nat
  lo : Nat
  hi : Nat
  owner : Nat
  perm : Bool := false
  live : Bool := true
deriving Repr, DecidableEq

structure Mem where
  blocks : List Block := []
  nodes : List NodeS := []
  views : List View := []
  log : List Ev := []
  /-- number of pool blocks allocated so far -/
  npool : Nat := 0
deriving Repr

/-! ### tables -/

def Mem.setNode (s : Mem) (i : Nat) (nd : NodeS) : Mem := { s with nodes := s.nodes.set i nd }

/-- the node structs of a chain (suffix); `none` if an id is not in the table -/
def Mem.resolve (s : Mem) : List Nat → Option (List (Nat × NodeS))
  | [] => some []
  | i :: rest =>
    match s.nodes[i]?, s.resolve rest with
    | some nd, some l => some ((i, nd) :: l)
    | _, _ => none

/-- write node structs back -/
def Mem.putAll (s : Mem) : List (Nat × NodeS) → Mem
  | [] => s
  | (i, nd) :: rest => (s.setNode i nd).putAll rest

def Mem.emit (s : Mem) (e : Ev) : Mem := { s with log := s.log ++ [e] }

/-! ### memory -/

/-- new block of the given kind -/
def Mem.allocBlock (s : Mem) (k : Kind) (cap : Nat) : Mem × Nat :=
  let id := s.blocks.length
  match k with
  | .pool => ({ s with blocks := s.blocks ++ [{ kind := .pool, cap := cap, pid := s.npool }],
                       npool := s.npool + 1, log := s.log ++ [.malloc id] }, id)
  | k => ({ s with blocks := s.blocks ++ [{ kind := k, cap := cap }] }, id)

/-- `malloc(size, capacity)` of nocopy.go: above `mallocMax` plain GC memory, else a pool block. -/
def Mem.mallocMem (cfg : Cfg) (s : Mem) (capacity : Nat) : Mem × Nat × Nat :=
  if capacity > cfg.mallocMax then
    let (s, b) := s.allocBlock .gc capacity
    (s, b, capacity)
  else
    let (s, b) := s.allocBlock .pool (pow2ge capacity)
    (s, b, pow2ge capacity)

/-- `free(buf)` of nocopy.go, `buf` lying in `blk` with `cap(buf) = cap`: above `mallocMax`
the pool is not called; `mcache.Free(nil)` does nothing. -/
def Mem.freeMem (cfg : Cfg) (s : Mem) (blk : Option Nat) (cap : Nat) : Mem :=
  if cap > cfg.mallocMax then s
  else match blk with
    | none => s
    | some b =>
      match s.blocks[b]? with
      | none => s
      | some bl => { s with blocks := s.blocks.set b { bl with frees := bl.frees + 1 }, log := s.log ++ [.free b cap] }

/-! ### nodes -/

/-- `newLinkBufferNode(size)` -/
def Mem.newNode (cfg : Cfg) (s : Mem) (size : Nat) : Mem × Nat :=
  let id := s.nodes.length
  if size = 0 then ({ s with nodes := s.nodes ++ [{ unmanaged := true }] }, id)
  else
    let (s, b, c) := s.mallocMem cfg (if size < cfg.linkBufferCap then cfg.linkBufferCap else size)
    ({ s with nodes := s.nodes ++ [{ block := some b, cap := c }] }, id)

/-- `node.buf, node.origin, node.next = nil, nil, nil; linkedPool.Put(node)` at reference count zero -/
def NodeS.recycle (nd : NodeS) : NodeS :=
  { nd with refer := 0, block := none, lo := 0, blen := 0, cap := 0, origin := none, recycled := nd.recycled + 1 }

/-- the part of `node.Release()` after the origin: drop one reference; at zero free the memory of a
reusable node and put the struct back (`node.buf, node.origin, node.next = nil, nil, nil`). -/
def Mem.releaseSelf (cfg : Cfg) (s : Mem) (i : Nat) : Option Mem :=
  match s.nodes[i]? with
  | none => none
  | some nd =>
    if nd.refer - 1 = 0 then
      let s := if nd.unmanaged then s else s.freeMem cfg nd.block nd.cap
      some (s.setNode i nd.recycle)
    else some (s.setNode i { nd with refer := nd.refer - 1 })

/-- `node.Release()`: the origin first, then the node itself.  `fuel` bounds the origin chain
(Go would overflow its stack on a cycle): `none`. -/
def Mem.nodeRelease (cfg : Cfg) : Nat → Mem → Nat → Option Mem
  | 0, _, _ => none
  | fuel + 1, s, i =>
    match s.nodes[i]? with
    | none => none
    | some nd =>
      match nd.origin with
      | none => s.releaseSelf cfg i
      | some o =>
        match Mem.nodeRelease cfg fuel s o with
        | none => none
        | some s => s.releaseSelf cfg i

def Mem.release1 (cfg : Cfg) (s : Mem) (i : Nat) : Option Mem :=
  Mem.nodeRelease cfg (s.nodes.length + 1) s i

/-- release a list of nodes in order -/
def Mem.releaseAll (cfg : Cfg) (s : Mem) : List Nat → Option Mem
  | [] => some s
  | i :: rest =>
    match s.release1 cfg i with
    | none => none
    | some s => s.releaseAll cfg rest

/-- the root a child of `nd` (struct `i`) refers to: `node.origin` if set, else the node itself -/
def NodeS.originOf (nd : NodeS) (i : Nat) : Nat :=
  match nd.origin with
  | some o => o
  | none => i

/-- the struct `Refer(n)` makes: unmanaged, `buf = node.buf[off:off+n:off+n]` -/
def NodeS.childOf (nd : NodeS) (i n : Nat) : NodeS :=
  { unmanaged := true, block := nd.block, lo := nd.lo + nd.off, blen := n, cap := n, origin := some (nd.originOf i) }

/-- `node.Refer(n)`: child struct, origin's count + 1, parent's `off` advanced.  Returns the child id. -/
def Mem.refer (cfg : Cfg) (s : Mem) (i : Nat) (n : Nat) : Option (Mem × Nat) :=
  match s.nodes[i]? with
  | none => none
  | some nd =>
    let s1 := ((s.newNode cfg 0).1.setNode (s.newNode cfg 0).2 (nd.childOf i n)).setNode i { nd with off := nd.off + n }
    match s1.nodes[nd.originOf i]? with
    | none => none
    | some on => some (s1.setNode (nd.originOf i) { on with refer := on.refer + 1 }, (s.newNode cfg 0).2)

/-! ### views (ghost) -/

def Mem.addView (s : Mem) (blk : Option Nat) (lo hi owner : Nat) (perm : Bool := false) : Mem :=
  match blk with
  | none => s
  | some b => if hi ≤ lo then s else { s with views := s.views ++ [{ block := b, lo := lo, hi := hi, owner := owner, perm := perm }] }

/-- the results obtained from `owner` end (Release, Close, Slice, donor of an Append) -/
def Mem.endViews (s : Mem) (owner : Nat) : Mem :=
  { s with views := s.views.map fun v => if v.owner = owner ∧ !v.perm then { v with live := false } else v }

/-! ### reader side -/

/-- `NewLinkBuffer(size)` -/
def newBuf (cfg : Cfg) (s : Mem) (size : Nat) : Mem × Buf :=
  let (s, n) := s.newNode cfg size
  (s, { chain := [n] })

/-- `recalLen(-n)`: a non-empty peek cache is retired to `caches`. -/
def Buf.consumeLen (b : Buf) (n : Nat) : Buf :=
  match b.cachePeek with
  | some (blk, l, _) =>
    if n > 0 ∧ l > 0 then { b with length := b.length - n, caches := b.caches ++ [blk], cachePeek := none }
    else { b with length := b.length - n }
  | none => { b with length := b.length - n }

def skipEmptySN : List (Nat × NodeS) → Nat → Nat → Option Nat
  | [], _, _ => none
  | (_, nd) :: rest, r, f => if nd.rlen = 0 ∧ r ≠ f then skipEmptySN rest (r + 1) f else some r

def skipEmptyRel : List (Nat × NodeS) → Nat → Nat → Option Nat
  | [], r, f => if r ≠ f then none else some r
  | (_, nd) :: rest, r, f => if r ≠ f ∧ nd.rlen = 0 then skipEmptyRel rest (r + 1) f else some r

/-- `isSingleNode(readN)`, `readN > 0`: the new read index, the read node and whether it holds `readN`. -/
def isSingleNode (s : Mem) (b : Buf) (readN : Nat) : Option (Buf × Nat × NodeS × Bool) :=
  match s.resolve (b.chain.drop b.r) with
  | none => none
  | some suf =>
    match skipEmptySN suf b.r b.f with
    | none => none
    | some r' =>
      match b.chain[r']? with
      | none => none
      | some i =>
        match s.nodes[i]? with
        | none => none
        | some nd => some ({ b with r := r' }, i, nd, decide (nd.rlen ≥ readN))

def nextLoop : List (Nat × NodeS) → Nat → Option (List (Nat × NodeS) × Nat)
  | [], _ => none
  | (i, nd) :: rest, ack =>
    if nd.rlen ≥ ack then some ((i, { nd with off := nd.off + ack }) :: rest, 0)
    else
      match nextLoop rest (ack - nd.rlen) with
      | none => none
      | some (rest', k) =>
        some ((i, if nd.rlen > 0 then { nd with off := nd.off + nd.rlen } else nd) :: rest', k + 1)

/-- run an `off`-advancing loop on the chain suffix at `read` -/
def onReadSuffix (s : Mem) (b : Buf) (loop : List (Nat × NodeS) → Option (List (Nat × NodeS) × Nat)) :
    Option (Mem × Buf) :=
  match s.resolve (b.chain.drop b.r) with
  | none => none
  | some suf =>
    match loop suf with
    | none => none
    | some (suf', k) => some (s.putAll suf', { b with r := b.r + k })

/-- `Next(n)` -/
def next (cfg : Cfg) (s : Mem) (id : Nat) (b : Buf) (n : Int) : Option (Mem × Buf) :=
  if n ≤ 0 then some (s, b)
  else
    let n := n.toNat
    if b.length < n then some (s, b)
    else
      let b := b.consumeLen n
      match isSingleNode s b n with
      | none => none
      | some (b, i, nd, true) =>
        let s := s.setNode i { nd with exposed := true, off := nd.off + n }
        some (s.addView nd.block (nd.lo + nd.off) (nd.lo + nd.off + n) id, b)
      | some (b, _, _, false) =>
        let (s, b, blk) : Mem × Buf × Nat :=
          if cfg.block1k < n ∧ n ≤ cfg.mallocMax then
            let (s, blk, _) := s.mallocMem cfg n
            (s, { b with caches := b.caches ++ [blk] }, blk)
          else
            let (s, blk) := s.allocBlock .gc n
            (s, b, blk)
        match onReadSuffix s b (nextLoop · n) with
        | none => none
        | some (s, b) => some ((s.emit (.write blk 0 n)).addView (some blk) 0 n id, b)

/-- sizes of the append loop of the multi-node Peek: the final `len(p)` -/
def peekLoop : List (Nat × NodeS) → Nat → Nat → Nat → Option Nat
  | nodes, scanned, plen, n =>
    if plen ≥ n then some plen
    else match nodes with
      | [] => none
      | (_, nd) :: rest =>
        let l := nd.rlen
        if scanned + l ≤ plen then peekLoop rest (scanned + l) plen n
        else
          let start := plen - scanned
          let copyn := min (n - plen) (l - start)
          peekLoop rest (scanned + l) (plen + copyn) n

/-- `if b.cachePeek != nil && cap(b.cachePeek) < n { b.caches = append(b.caches, b.cachePeek); b.cachePeek = nil }` -/
def Buf.retirePeek (b : Buf) (n : Nat) : Buf :=
  match b.cachePeek with
  | some (blk, _, cp) => if cp < n then { b with caches := b.caches ++ [blk], cachePeek := none } else b
  | none => b

/-- the multi-node Peek once the cache `(blk, l, cp)` is chosen: return it, or append up to `n` bytes -/
def peekFill (s : Mem) (id : Nat) (b : Buf) (n blk l cp : Nat) : Option (Mem × Buf) :=
  if l ≥ n then some (s.addView (some blk) 0 n id, { b with cachePeek := some (blk, l, cp) })
  else
    match s.resolve (b.chain.drop b.r) with
    | none => none
    | some suf =>
      match peekLoop suf 0 l n with
      | none => none
      | some l' =>
        some ((s.emit (.write blk l l')).addView (some blk) 0 n id, { b with cachePeek := some (blk, l', cp) })

/-- `Peek(n)` -/
def peek (cfg : Cfg) (s : Mem) (id : Nat) (b : Buf) (n : Int) : Option (Mem × Buf) :=
  if n ≤ 0 then some (s, b)
  else
    let n := n.toNat
    if b.length < n then some (s, b)
    else
      match isSingleNode s b n with
      | none => none
      | some (b, i, nd, true) =>
        let s := s.setNode i { nd with exposed := true }
        some (s.addView nd.block (nd.lo + nd.off) (nd.lo + nd.off + n) id, b)
      | some (b, _, _, false) =>
        -- a cache that is too small is retired to `caches`; `malloc(0, n)` if there is none
        match (b.retirePeek n).cachePeek with
        | some (blk, l, cp) => peekFill s id (b.retirePeek n) n blk l cp
        | none => peekFill (s.mallocMem cfg n).1 id (b.retirePeek n) n (s.mallocMem cfg n).2.1 0 (s.mallocMem cfg n).2.2

def skipLoop : List (Nat × NodeS) → Nat → Option (List (Nat × NodeS) × Nat)
  | [], _ => none
  | (i, nd) :: rest, ack =>
    if nd.rlen ≥ ack then some ((i, { nd with off := nd.off + ack }) :: rest, 0)
    else match skipLoop rest (ack - nd.rlen) with
      | none => none
      | some (rest', k) => some ((i, nd) :: rest', k + 1)

/-- `Skip(n)` -/
def skip (s : Mem) (b : Buf) (n : Int) : Option (Mem × Buf) :=
  if n ≤ 0 then some (s, b)
  else
    let n := n.toNat
    if b.length < n then some (s, b)
    else onReadSuffix s (b.consumeLen n) (skipLoop · n)

/-- `cap` of the whole block -/
def Mem.blockCap (s : Mem) (blk : Nat) : Nat :=
  match s.blocks[blk]? with
  | some bl => bl.cap
  | none => 0

/-- free `b.caches` in order -/
def freeCaches (cfg : Cfg) (s : Mem) : List Nat → Mem
  | [] => s
  | blk :: rest => freeCaches cfg (s.freeMem cfg (some blk) (s.blockCap blk)) rest

/-- `Release()` (without the ghost end of the views) -/
def releaseCore (cfg : Cfg) (s : Mem) (b : Buf) : Option (Mem × Buf) :=
  match s.resolve (b.chain.drop b.r) with
  | none => none
  | some suf =>
    match skipEmptyRel suf b.r b.f with
    | none => none
    | some r' =>
      if r' > b.chain.length then none
      else
        match s.releaseAll cfg (b.chain.take r') with
        | none => none
        | some s =>
          let s := freeCaches cfg s b.caches
          let s := match b.cachePeek with
            | some (blk, _, cp) => s.freeMem cfg (some blk) cp
            | none => s
          some (s, { b with chain := b.chain.drop r', r := 0, f := b.f - r', w := b.w - r', caches := [], cachePeek := none })

/-- `Release()` -/
def release (cfg : Cfg) (s : Mem) (id : Nat) (b : Buf) : Option (Mem × Buf) :=
  match releaseCore cfg s b with
  | none => none
  | some (s, b) => some (s.endViews id, b)

/-- `ReadBinary(n)` / `ReadString(n)`: a private copy -/
def readBinary (s : Mem) (id : Nat) (b : Buf) (n : Int) : Option (Mem × Buf) :=
  if n ≤ 0 then some (s, b)
  else
    let n := n.toNat
    if b.length < n then some (s, b)
    else
      let b := b.consumeLen n
      match isSingleNode s b n with
      | none => none
      | some (b, i, nd, true) =>
        let (s, blk) := s.allocBlock .gc n
        let s := s.setNode i { nd with off := nd.off + n }
        some ((s.emit (.write blk 0 n)).addView (some blk) 0 n id true, b)
      | some (b, _, _, false) =>
        let (s, blk) := s.allocBlock .gc n
        match onReadSuffix s b (nextLoop · n) with
        | none => none
        | some (s, b) => some ((s.emit (.write blk 0 n)).addView (some blk) 0 n id true, b)

def readByteLoop : List (Nat × NodeS) → Option (List (Nat × NodeS) × Nat)
  | [] => none
  | (i, nd) :: rest =>
    if nd.rlen ≥ 1 then some ((i, { nd with off := nd.off + 1 }) :: rest, 0)
    else match readByteLoop rest with
      | none => none
      | some (rest', k) => some ((i, nd) :: rest', k + 1)

/-- `ReadByte()` -/
def readByte (s : Mem) (b : Buf) : Option (Mem × Buf) :=
  if b.length < 1 then some (s, b)
  else onReadSuffix s (b.consumeLen 1) readByteLoop

/-- `Until(delim)`, `idx` being what `indexByte(delim, 0)` returns (the ledger has no contents) -/
def untilIdx (cfg : Cfg) (s : Mem) (id : Nat) (b : Buf) (idx : Int) : Option (Mem × Buf) :=
  if idx < 0 then some (s, b) else next cfg s id b (idx + 1)

/-- Slice's multi-node loop after the first node: the children, in order -/
def sliceLoop (cfg : Cfg) (s : Mem) : List Nat → Nat → Option (Mem × List Nat × Nat)
  | [], _ => none
  | i :: rest, ack =>
    match s.nodes[i]? with
    | none => none
    | some nd =>
      if nd.rlen ≥ ack then
        match (s.setNode i { nd with exposed := true }).refer cfg i ack with
        | none => none
        | some (s, c) => some (s, [c], 0)
      else if nd.rlen > 0 then
        match (s.setNode i { nd with exposed := true }).refer cfg i nd.rlen with
        | none => none
        | some (s, c) =>
          match sliceLoop cfg s rest (ack - nd.rlen) with
          | none => none
          | some (s, cs, k) => some (s, c :: cs, k + 1)
      else
        match sliceLoop cfg s rest (ack - nd.rlen) with
        | none => none
        | some (s, cs, k) => some (s, cs, k + 1)

/-- the read-only buffer made of the children -/
def sliceBuf (children : List Nat) (n : Nat) : Buf :=
  { chain := children, r := 0, f := children.length, w := children.length, length := n }

/-- `Slice(n)`: the parent and the new reader (if any).  `ok`: nil error. -/
def slice (cfg : Cfg) (s : Mem) (b : Buf) (n : Int) : Option (Mem × Buf × Option Buf) :=
  if n ≤ 0 then
    let (s, c) := newBuf cfg s 0
    some (s, b, some c)
  else
    let n := n.toNat
    if b.length < n then some (s, b, none)
    else
      let b := b.consumeLen n
      match isSingleNode s b n with
      | none => none
      | some (b, i, nd, true) =>
        match (s.setNode i { nd with exposed := true }).refer cfg i n with
        | none => none
        | some (s, c) => some (s, b, some (sliceBuf [c] n))
      | some (b, i, nd, false) =>
        let l := nd.rlen
        match (s.setNode i { nd with exposed := true }).refer cfg i l with
        | none => none
        | some (s, c) =>
          match sliceLoop cfg s (b.chain.drop (b.r + 1)) (n - l) with
          | none => none
          | some (s, cs, k) =>
            match releaseCore cfg s { b with r := b.r + 1 + k } with
            | none => none
            | some (s, b) => some (s, b, some (sliceBuf (c :: cs) n))

def copyLoop : List (Nat × NodeS) → Nat → Option (List (Nat × NodeS) × Nat)
  | [], _ => none
  | (i, nd) :: rest, ack =>
    if nd.rlen = 0 then
      match copyLoop rest ack with
      | none => none
      | some (rest', k) => some ((i, nd) :: rest', k + 1)
    else if nd.rlen ≥ ack then some ((i, { nd with off := nd.off + ack }) :: rest, 0)
    else match copyLoop rest (ack - nd.rlen) with
      | none => none
      | some (rest', k) => some ((i, nd) :: rest', k + 1)

/-- readCopy's clean-up of the nodes before `read`: exposed ones stay chained, the others are released -/
def dropUnexposed (cfg : Cfg) (s : Mem) : List Nat → Option (Mem × List Nat)
  | [] => some (s, [])
  | i :: rest =>
    match s.nodes[i]? with
    | none => none
    | some nd =>
      if nd.exposed then
        match dropUnexposed cfg s rest with
        | none => none
        | some (s, kept) => some (s, i :: kept)
      else
        match s.release1 cfg i with
        | none => none
        | some s => dropUnexposed cfg s rest

/-- `readCopy(p)`, `len(p) = l`: the copy goes to the caller's `p` (a private copy in the ledger) -/
def readCopy (cfg : Cfg) (s : Mem) (id : Nat) (b : Buf) (l : Nat) : Option (Mem × Buf) :=
  if l = 0 ∨ b.length = 0 then some (s, b)
  else
    let l := if b.length < l then b.length else l
    let (s, blk) := s.allocBlock .gc l
    let s := (s.emit (.write blk 0 l)).addView (some blk) 0 l id true
    match onReadSuffix s (b.consumeLen l) (copyLoop · l) with
    | none => none
    | some (s, b) =>
      match s.resolve (b.chain.drop b.r) with
      | none => none
      | some suf =>
        match skipEmptyRel suf b.r b.f with
        | none => none
        | some r' =>
          if r' > b.chain.length then none
          else
            match dropUnexposed cfg s (b.chain.take r') with
            | none => none
            | some (s, kept) =>
              let removed := r' - kept.length
              some (s, { b with chain := kept ++ b.chain.drop r', r := kept.length, f := b.f - removed, w := b.w - removed })

/-! ### writer side -/

/-- `growth(n)`, `n > 0`, on the chain suffix at `write`: new suffix and write index -/
def growthLoop (cfg : Cfg) (n : Nat) (s : Mem) : List Nat → Nat → Option (Mem × List Nat × Nat)
  | [], _ => none
  | [i], w =>
    match s.nodes[i]? with
    | none => none
    | some nd =>
      if nd.unmanaged ∨ nd.cap - nd.malloc < n then
        let (s, c) := s.newNode cfg n
        some (s, [i, c], w + 1)
      else some (s, [i], w)
  | i :: j :: rest, w =>
    match s.nodes[i]? with
    | none => none
    | some nd =>
      if nd.unmanaged ∨ nd.cap - nd.malloc < n then
        match growthLoop cfg n s (j :: rest) (w + 1) with
        | none => none
        | some (s, suf, w') => some (s, i :: suf, w')
      else some (s, i :: j :: rest, w)

def growth (cfg : Cfg) (s : Mem) (b : Buf) (n : Nat) : Option (Mem × Buf) :=
  if n = 0 then some (s, b)
  else
    match growthLoop cfg n s (b.chain.drop b.w) b.w with
    | none => none
    | some (s, suf, w') => some (s, { b with chain := b.chain.take b.w ++ suf, w := w' })

/-- `b.write.Malloc(n)` and the caller filling the slice -/
def writeNodeMalloc (s : Mem) (b : Buf) (n : Nat) : Option Mem :=
  match b.chain[b.w]? with
  | none => none
  | some i =>
    match s.nodes[i]? with
    | none => none
    | some nd =>
      let s := s.setNode i { nd with malloc := nd.malloc + n }
      match nd.block with
      | some blk => some (s.emit (.write blk (nd.lo + nd.malloc) (nd.lo + nd.malloc + n)))
      | none => some s

/-- `Malloc(n)` (the result is filled at once) -/
def malloc (cfg : Cfg) (s : Mem) (b : Buf) (n : Int) : Option (Mem × Buf) :=
  if n ≤ 0 then some (s, b)
  else
    match growth cfg s { b with mallocSize := b.mallocSize + n.toNat } n.toNat with
    | none => none
    | some (s, b) =>
      match writeNodeMalloc s b n.toNat with
      | none => none
      | some s => some (s, b)

def ackLoop : List (Nat × NodeS) → Int → Option (List (Nat × NodeS) × Nat)
  | [], _ => none
  | (i, nd) :: rest, ack =>
    if nd.pendLen ≥ ack then some ((i, { nd with malloc := (ack + nd.blen).toNat }) :: rest, 0)
    else match ackLoop rest (ack - nd.pendLen) with
      | none => none
      | some (rest', k) => some ((i, nd) :: rest', k + 1)

/-- `node.malloc, node.refer, node.buf = node.off, 1, node.buf[:node.off]` -/
def NodeS.discard (nd : NodeS) : NodeS :=
  { nd with malloc := nd.off, refer := 1, blen := min nd.blen nd.off }

/-- `MallocAck(n)` -/
def mallocAck (s : Mem) (b : Buf) (n : Int) : Option (Mem × Buf) :=
  if n < 0 then some (s, b)
  else
    let n := n.toNat
    let b := { b with mallocSize := n, w := b.f }
    match s.resolve (b.chain.drop b.f) with
    | none => none
    | some suf =>
      match ackLoop suf n with
      | none => none
      | some (suf', k) =>
        let w := b.f + k
        if w ≥ b.chain.length then none
        else
          let s := s.putAll suf'
          match s.resolve (b.chain.drop (w + 1)) with
          | none => none
          | some tail => some (s.putAll (tail.map fun p => (p.1, p.2.discard)), { b with w := w })

/-- `node.buf = node.buf[:node.malloc]` if `malloc > len(buf)` -/
def NodeS.commit (nd : NodeS) : NodeS := if nd.pendLen > 0 then { nd with blen := nd.malloc } else nd

/-- Flush's loop `for node := b.flush; node != b.write.next; ...` and `b.flush = b.write` -/
def flushCommit (s : Mem) (b : Buf) : Option (Mem × Buf) :=
  if b.f > b.w + 1 then none
  else
    match s.resolve ((b.chain.drop b.f).take (b.w + 1 - b.f)) with
    | none => none
    | some mid =>
      let n := (mid.map fun p => if p.2.pendLen > 0 then p.2.pendLen.toNat else 0).foldl (· + ·) 0
      some (s.putAll (mid.map fun p => (p.1, p.2.commit)), { b with f := b.w, length := b.length + n })

/-- `Flush()` -/
def flush (cfg : Cfg) (s : Mem) (b : Buf) : Option (Mem × Buf) :=
  match b.chain[b.w]? with
  | none => none
  | some wi =>
    match s.nodes[wi]? with
    | none => none
    | some wn =>
      -- `if cap(b.write.buf) > pagesize { b.write.next = newLinkBufferNode(0); b.write = b.write.next }`
      if wn.cap > cfg.pagesize then
        flushCommit (s.newNode cfg 0).1
          { b with mallocSize := 0, chain := b.chain.take (b.w + 1) ++ [(s.newNode cfg 0).2], w := b.w + 1 }
      else flushCommit s { b with mallocSize := 0 }

/-- `WriteBuffer(buf)`: (b, donor) -/
def writeBuffer (cfg : Cfg) (s : Mem) (b d : Buf) : Option (Mem × Buf × Buf) :=
  if d.length + d.mallocSize = 0 then some (s, b, d)
  else
    if b.w ≥ b.chain.length then none
    else if d.w ≥ d.chain.length then none
    else if d.r > d.w then none
    else
      let mid := (d.chain.drop d.r).take (d.w + 1 - d.r)
      -- `for buf.head != buf.read { ... nd.Release() }`, then everything behind `buf.write`
      match s.releaseAll cfg (d.chain.take d.r) with
      | none => none
      | some s =>
        match s.releaseAll cfg (d.chain.drop (d.w + 1)) with
        | none => none
        | some s =>
          some (s, { b with chain := b.chain.take (b.w + 1) ++ mid, w := b.w + mid.length,
                            length := b.length + d.length, mallocSize := b.mallocSize + d.mallocSize },
                   -- the donor's `caches` / `cachePeek` are not touched (never freed unless the donor is released)
                   { d with chain := [], r := 0, f := 0, w := 0, length := 0, mallocSize := 0 })

/-- `WriteBinary(p)`, `len(p) = n`, `cap(p) = pcap` -/
def writeBinary (cfg : Cfg) (s : Mem) (b : Buf) (n pcap : Nat) : Option (Mem × Buf) :=
  if n = 0 then some (s, b)
  else
    let (s, cb) := s.allocBlock .caller (max pcap n)
    let b := { b with mallocSize := b.mallocSize + n }
    if n > cfg.inplace then
      if b.w ≥ b.chain.length then none
      else
        let (s, c) := s.newNode cfg 0
        let s := s.setNode c { unmanaged := true, block := some cb, malloc := n, cap := pcap }
        some (s, { b with chain := b.chain.take (b.w + 1) ++ [c], w := b.w + 1 })
    else
      match growth cfg s b n with
      | none => none
      | some (s, b) =>
        match writeNodeMalloc s b n with
        | none => none
        | some s => some (s, b)

def originLoop : List (Nat × NodeS) → Int → Option (Nat × Int)
  | [], _ => none
  | (_, nd) :: rest, m =>
    if nd.pendLen < m then
      match originLoop rest (m - nd.pendLen) with
      | none => none
      | some (k, m') => some (k + 1, m')
    else some (0, m)

/-- ghost: mark the pool blocks under unmanaged, non-child nodes of the chain (what WriteDirect's split leaves) -/
def markSplit (s : Mem) : List Nat → Mem
  | [] => s
  | i :: rest =>
    let s := match s.nodes[i]? with
      | some nd =>
        if nd.unmanaged ∧ nd.origin = none ∧ nd.cap > 0 then
          match nd.block with
          | some blk =>
            match s.blocks[blk]? with
            | some bl => if bl.kind = .pool then { s with blocks := s.blocks.set blk { bl with split := true } } else s
            | none => s
          | none => s
        else s
      | none => s
    markSplit s rest

/-- WriteDirect's `dataNode`: a fresh unmanaged struct wrapping the caller's slice (block `cb`) -/
def dataNode (cfg : Cfg) (s : Mem) (cb n ecap : Nat) : Mem × Nat :=
  ((s.newNode cfg 0).1.setNode (s.newNode cfg 0).2 { unmanaged := true, block := some cb, malloc := n, cap := ecap },
   (s.newNode cfg 0).2)

/-- the struct WriteDirect's split makes for the rest of the origin's memory:
`newNode{buf = origin.buf[:malloc], off = malloc, malloc = origin.malloc}`; it owns the memory iff origin did -/
def NodeS.splitTail (origin : NodeS) (m : Nat) : NodeS :=
  { block := origin.block, lo := origin.lo, blen := m, off := m, malloc := origin.malloc, cap := origin.cap,
    unmanaged := origin.unmanaged }

/-- WriteDirect's split of node `o`: the new tail struct; the origin keeps `[0, m)` and becomes unmanaged -/
def splitNodes (cfg : Cfg) (s : Mem) (o : Nat) (origin : NodeS) (m : Nat) : Mem × Nat :=
  (((s.newNode cfg 0).1.setNode (s.newNode cfg 0).2 (origin.splitTail m)).setNode o { origin with malloc := m, unmanaged := true },
   (s.newNode cfg 0).2)

/-- the linking part of WriteDirect, origin found at chain index `oi` with insertion offset `m` -/
def writeDirectAt (cfg : Cfg) (s : Mem) (b : Buf) (n ecap : Nat) (remain : Int) (cb oi o : Nat) (origin : NodeS) (m : Nat) :
    Option (Mem × Buf) :=
  let sd := dataNode cfg s cb n ecap
  if m > origin.cap ∧ remain > 0 then none
  else if b.w ≥ b.chain.length then none
  else if remain > 0 then
    let sp := splitNodes cfg sd.1 o origin m
    some (sp.1, { b with chain := b.chain.take oi ++ [o, sd.2, sp.2] ++ b.chain.drop (oi + 1),
                         w := (b.chain.take oi ++ [o, sd.2, sp.2] ++ b.chain.drop (oi + 1)).length - 1,
                         mallocSize := b.mallocSize + n })
  else
    some (sd.1, { b with chain := b.chain.take oi ++ [o, sd.2] ++ b.chain.drop (oi + 1),
                         w := (b.chain.take oi ++ [o, sd.2] ++ b.chain.drop (oi + 1)).length - 1,
                         mallocSize := b.mallocSize + n })

/-- `WriteDirect(extra, remainLen)`, `len(extra) = n`, `cap(extra) = ecap` -/
def writeDirect (cfg : Cfg) (s : Mem) (b : Buf) (n ecap : Nat) (remain : Int) : Option (Mem × Buf) :=
  if n = 0 ∨ remain < 0 then some (s, b)
  else
    let s1 := (s.allocBlock .caller (max ecap n)).1
    let cb := (s.allocBlock .caller (max ecap n)).2
    match s1.resolve (b.chain.drop b.f) with
    | none => none
    | some suf =>
      match originLoop suf ((b.mallocSize : Int) - remain) with
      | none => none
      | some (k, m) =>
        match b.chain[b.f + k]? with
        | none => none
        | some o =>
          match s1.nodes[o]? with
          | none => none
          | some origin =>
            -- `malloc += len(origin.buf)`; a negative slice bound panics
            if m + origin.blen < 0 then none
            else writeDirectAt cfg s1 b n ecap remain cb (b.f + k) o origin (m + origin.blen).toNat

/-- `Close()` (without the ghost end of the views) -/
def close (cfg : Cfg) (s : Mem) (id : Nat) (b : Buf) : Option (Mem × Buf) :=
  match releaseCore cfg s { b with length := 0, mallocSize := 0 } with
  | none => none
  | some (s, b) =>
    match s.releaseAll cfg b.chain with
    | none => none
    | some s => some (s.endViews id, {})

/-- GetBytes' first loop: up to `k` non-empty nodes among the first `cnt` (those before `flush`) -/
def getBytesLoop (s : Mem) (id : Nat) : List Nat → Nat → Nat → Option (Mem × Nat)
  | [], _, _ => some (s, 0)
  | i :: rest, cnt, k =>
    if cnt = 0 ∨ k = 0 then some (s, 0)
    else
      match s.nodes[i]? with
      | none => none
      | some nd =>
        if nd.rlen > 0 then
          let s := (s.setNode i { nd with exposed := true }).addView nd.block (nd.lo + nd.off) (nd.lo + nd.blen) id
          match getBytesLoop s id rest (cnt - 1) (k - 1) with
          | none => none
          | some (s, c) => some (s, c + 1)
        else getBytesLoop s id rest (cnt - 1) k

/-- `GetBytes(p)`, `len(p) = k` -/
def getBytes (s : Mem) (id : Nat) (b : Buf) (k : Nat) : Option (Mem × Buf) :=
  if b.r > b.f then none
  else
    let k := if k = 0 then b.f - b.r else k
    match getBytesLoop s id (b.chain.drop b.r) (b.f - b.r) k with
    | none => none
    | some (s, c) =>
      if c < k then
        match b.chain[b.f]? with
        | none => none
        | some i =>
          match s.nodes[i]? with
          | none => none
          | some fl =>
            some ((s.setNode i { fl with exposed := true }).addView fl.block (fl.lo + fl.off) (fl.lo + fl.blen) id, b)
      else some (s, b)

/-- `b.write.Malloc(l)`, the kernel filling `min n l` bytes, then `bookAck` -/
def bookFill (s : Mem) (b : Buf) (l n : Nat) : Option (Mem × Buf) :=
  match b.chain[b.w]? with
  | none => none
  | some wi =>
    match s.nodes[wi]? with
    | none => none
    | some wn =>
      if wn.malloc + l > wn.cap then none
      else if min n l + wn.blen > wn.cap then none
      else
        let s1 := match wn.block with
          | some blk => if min n l > 0 then s.emit (.write blk (wn.lo + wn.malloc) (wn.lo + wn.malloc + min n l)) else s
          | none => s
        some (s1.setNode wi { wn with malloc := min n l + wn.blen, blen := min n l + wn.blen },
              { b with f := b.w, length := b.length + min n l })

/-- `book(bookSize, maxSize)`, the kernel filling `min n booked` bytes, `bookAck` -/
def bookAck (cfg : Cfg) (s : Mem) (b : Buf) (bookSize maxSize n : Nat) : Option (Mem × Buf) :=
  match b.chain[b.w]? with
  | none => none
  | some wi =>
    match s.nodes[wi]? with
    | none => none
    | some wn =>
      if wn.cap - wn.malloc = 0 then
        -- grow: `b.write.next = newLinkBufferNode(maxSize)`
        bookFill (s.newNode cfg maxSize).1
          { b with chain := b.chain.take (b.w + 1) ++ [(s.newNode cfg maxSize).2], w := b.w + 1 }
          (if maxSize > bookSize then bookSize else maxSize) n
      else bookFill s b (if wn.cap - wn.malloc > bookSize then bookSize else wn.cap - wn.malloc) n

/-- `resetTail(maxSize)` -/
def resetTail (cfg : Cfg) (s : Mem) (b : Buf) (maxSize : Nat) : Option (Mem × Buf) :=
  if maxSize ≤ cfg.pagesize then some (s, b)
  else if b.w ≥ b.chain.length then none
  else
    let (s, c) := s.newNode cfg 0
    some (s, { b with chain := b.chain.take (b.w + 1) ++ [c], w := b.w + 1, f := b.w + 1 })

/-! ### operations on the world -/

/-- the world: memory and the buffers by the id used in the op lines, in creation order.
The methods above work on `Mem` and their own `Buf` only. -/
structure Ledger where
  mem : Mem := {}
  bufs : List (Nat × Buf) := []
deriving Repr

def Ledger.getBuf (s : Ledger) (id : Nat) : Option Buf := (s.bufs.find? (·.1 = id)).map (·.2)

def putAssoc (id : Nat) (b : Buf) : List (Nat × Buf) → List (Nat × Buf)
  | [] => [(id, b)]
  | (i, x) :: rest => if i = id then (id, b) :: rest else (i, x) :: putAssoc id b rest

/-- store buffer `id` together with the memory its method left -/
def Ledger.put (s : Ledger) (m : Mem) (id : Nat) (b : Buf) : Ledger := { mem := m, bufs := putAssoc id b s.bufs }

inductive Op where
  | new (id size : Nat)
  | mal (id : Nat) (n : Int)
  | wbin (id n pcap : Nat)
  | wdir (id n ecap : Nat) (remain : Int)
  | ack (id : Nat) (n : Int)
  | flush (id : Nat)
  | next (id : Nat) (n : Int)
  | peek (id : Nat) (n : Int)
  | skip (id : Nat) (n : Int)
  | rbin (id : Nat) (n : Int)
  | rbyte (id : Nat)
  | untl (id : Nat) (idx : Int)
  | read (id n : Nat)
  | rel (id : Nat)
  | close (id : Nat)
  | getbytes (id k : Nat)
  | rtail (id ms : Nat)
  | book (id bs ms n : Nat)
  | slice (id : Nat) (n : Int) (nid : Nat)
  | app (id did : Nat)
  /-- Len, MallocLen, Bytes, indexByte, calcMaxSize: no effect on the ledger -/
  | nop (id : Nat)
deriving Repr, DecidableEq

def on1 (s : Ledger) (id : Nat) (f : Buf → Option (Mem × Buf)) : Option Ledger :=
  match s.getBuf id with
  | none => some s
  | some b =>
    match f b with
    | none => none
    | some (m, b) => some (s.put m id b)

/-- one operation; `none`: the Go code panics.  An unknown buffer id leaves the ledger unchanged. -/
def step (cfg : Cfg) (s : Ledger) : Op → Option Ledger
  | .new id size => some (s.put (newBuf cfg s.mem size).1 id (newBuf cfg s.mem size).2)
  | .mal id n => on1 s id fun b => malloc cfg s.mem b n
  | .wbin id n pcap => on1 s id fun b => writeBinary cfg s.mem b n pcap
  | .wdir id n ecap remain => on1 s id fun b =>
      match writeDirect cfg s.mem b n ecap remain with
      | none => none
      | some (m, b) => some (if remain > 0 then markSplit m b.chain else m, b)
  | .ack id n => on1 s id fun b => mallocAck s.mem b n
  | .flush id => on1 s id fun b => flush cfg s.mem b
  | .next id n => on1 s id fun b => next cfg s.mem id b n
  | .peek id n => on1 s id fun b => peek cfg s.mem id b n
  | .skip id n => on1 s id fun b => skip s.mem b n
  | .rbin id n => on1 s id fun b => readBinary s.mem id b n
  | .rbyte id => on1 s id fun b => readByte s.mem b
  | .untl id idx => on1 s id fun b => untilIdx cfg s.mem id b idx
  | .read id n => on1 s id fun b => readCopy cfg s.mem id b n
  | .rel id => on1 s id fun b => release cfg s.mem id b
  | .close id => on1 s id fun b => close cfg s.mem id b
  | .getbytes id k => on1 s id fun b => getBytes s.mem id b k
  | .rtail id ms => on1 s id fun b => resetTail cfg s.mem b ms
  | .book id bs ms n => on1 s id fun b => bookAck cfg s.mem b bs ms n
  | .slice id n nid =>
    match s.getBuf id with
    | none => some s
    | some b =>
      match slice cfg s.mem b n with
      | none => none
      | some (m, b, none) => some (s.put m id b)
      | some (m, b, some c) => some ((s.put (m.endViews id) id b).put (m.endViews id) nid c)
  | .app id did =>
    match s.getBuf id, s.getBuf did with
    | some b, some d =>
      match writeBuffer cfg s.mem b d with
      | none => none
      | some (m, b, d) => some ((s.put (m.endViews did) id b).put (m.endViews did) did d)
    | _, _ => some s
  | .nop _ => some s

/-- a whole history; a panic ends it (the state before the panicking call is kept) -/
def run (cfg : Cfg) (s : Ledger) : List Op → Ledger
  | [] => s
  | op :: ops =>
    match step cfg s op with
    | none => s
    | some s' => run cfg s' ops

/-! ### the spec as an executable oracle on ledger states -/

/-- does some chained node of some buffer lie in block `blk`? (as the harness: nodes with `cap(buf) = 0` are skipped) -/
def Ledger.chainedOn (s : Ledger) (blk : Nat) : List (Nat × Nat) :=
  s.bufs.flatMap fun (id, b) => (b.chain.filter fun i =>
    match s.mem.nodes[i]? with
    | some nd => nd.cap > 0 ∧ nd.block = some blk
    | none => false).map fun i => (id, i)

def Ledger.liveViewsOn (s : Ledger) (blk : Nat) : List View :=
  s.mem.views.filter fun v => v.live ∧ v.block = blk

/-- no block handed to the pool twice -/
def Ledger.freeOnce (s : Ledger) : Bool := s.mem.blocks.all fun b => b.frees ≤ 1
/-- only pool blocks handed to the pool -/
def Ledger.freeOnlyPool (s : Ledger) : Bool := s.mem.blocks.all fun b => b.frees = 0 ∨ b.kind = .pool
/-- no freed block under a chained node or a live view -/
def Ledger.noDangling (s : Ledger) : Bool :=
  (List.range s.mem.blocks.length).all fun i =>
    match s.mem.blocks[i]? with
    | some b => b.frees = 0 ∨ (s.chainedOn i = [] ∧ s.liveViewsOn i = [])
    | none => true
/-- no node struct put back twice -/
def Ledger.recycledOnce (s : Ledger) : Bool := s.mem.nodes.all fun n => n.recycled ≤ 1

def Ledger.ok (s : Ledger) : Bool := s.freeOnce && s.freeOnlyPool && s.noDangling && s.recycledOnce

/-- the value model's view of a ledger node: (off, len, malloc, cap, unmanaged, exposed) -/
def NodeS.shape (nd : NodeS) : Nat × Nat × Nat × Nat × Bool × Bool :=
  (nd.off, nd.blen, nd.malloc, nd.cap, nd.unmanaged, nd.exposed)

def valShape {α : Type} (nd : Node α) : Nat × Nat × Nat × Nat × Bool × Bool :=
  (nd.off, nd.buf.length, nd.malloc, nd.cap, nd.unmanaged, nd.exposed)

abbrev Shape := Nat × Nat × Nat × Nat × Bool × Bool

def Buf.shapes (s : Mem) (b : Buf) : List (Option Shape) := b.chain.map fun i => (s.nodes[i]?).map NodeS.shape
def valShapes {α : Type} (v : LB α) : List (Option Shape) := v.nodes.map fun nd => some (valShape nd)

/-- does the ledger buffer have the shape of the value-model buffer? -/
def sameShape {α : Type} (s : Mem) (b : Buf) (v : LB α) : Bool :=
  b.r = v.r && b.f = v.f && b.w = v.w && b.length = v.length && b.mallocSize = v.mallocSize &&
  b.caches.length = v.caches &&
  (b.cachePeek.map fun p => (p.2.1, p.2.2)) = (v.cachePeek.map fun p => (p.1.length, p.2)) &&
  b.shapes s == valShapes v

end Netpoll.Buf.Own
