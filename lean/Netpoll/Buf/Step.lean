import Netpoll.Buf.Spec
/-
`LB.step`: the one place where an abstract operation `Op α` is mapped to the model function(s)
that mirror the Go method.  The drivers (`Driver/Lb.lean`, `Driver/LbSpec.lean`) execute exactly
this function, and the refinement theorems (`Netpoll/Buf/Refine*.lean`, `Netpoll/Props/C01.lean`)
are about exactly this function.  Core Lean only.
-/
namespace Netpoll.Buf

variable {α : Type}

/-- `book(bookSize, maxSize)`, the kernel writing `d` (clipped to what was booked) into the booked
slice, `bookAck(len)`.  The result is the booked length (what `book` returned). -/
def LB.bookFill (cfg : Cfg) (b : LB α) (bookSize maxSize : Nat) (d : List α) : Option (LB α × Res α) :=
  match b.book cfg bookSize maxSize with
  | none => none
  | some (b, l) =>
    match b.bookAck (d.take l) with
    | none => none
    | some (b, _) => some (b, .num l)

/-- one single-buffer operation on the model -/
def LB.step [DecidableEq α] (cfg : Cfg) (b : LB α) : Op α → Option (LB α × Res α)
  | .malloc n d => b.malloc cfg n d
  | .writeBinary p pcap => b.writeBinary cfg p pcap
  | .writeByte a => b.malloc cfg 1 [a]
  | .writeDirect p pcap remain => b.writeDirect cfg p pcap remain
  | .mallocAck n => b.mallocAck n
  | .flush => b.flush cfg
  | .next n => b.next cfg n
  | .peek n => b.peek cfg n
  | .skip n => b.skip n
  | .readBinary n => b.readBinary n
  | .readByte => b.readByte
  | .until c => b.until cfg c
  | .readCopy l => b.readCopy l
  | .release => b.release
  | .close => b.close
  | .len => some (b, .num b.length)
  | .mallocLen => some (b, .num b.mallocSize)
  | .bytes => b.bytes.map fun r => (b, r)
  | .getBytes k => b.getBytes k
  | .indexByte c skip => (b.indexByte c skip).map fun i => (b, .num i)
  | .bookAck bookSize maxSize d => b.bookFill cfg bookSize maxSize d
  | .resetTail maxSize => (b.resetTail cfg maxSize).map fun b => (b, .unit)
  | .calcMaxSize => b.calcMaxSize.map fun n => (b, .num n)

/-- the spec's next state given the model's result: `specStep`, except for `bookAck`, whose queue
effect depends on how much the node layout allowed to book (the result `.num l`). -/
def specNext [DecidableEq α] (q : Q α) (op : Op α) (r : Res α) : Q α :=
  match op, r with
  | .bookAck _ _ d, .num l => q.received (d.take l.toNat)
  | op, _ => (specStep q op).1

end Netpoll.Buf
