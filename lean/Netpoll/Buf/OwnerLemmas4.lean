import Netpoll.Buf.OwnerLemmas3
/-! Lemmas about the ownership ledger, part 4: the typing invariant through Slice, readCopy, Close and the
writer-side methods. -/
namespace Netpoll.Buf.Own
open Netpoll.Buf

theorem expose_refer {cfg : Cfg} {st : Bool} {s s' : Mem} {i n c : Nat} {nd : NodeS} (hc : Core cfg st s)
    (hn : s.nodes[i]? = some nd)
    (h : (s.setNode i { nd with exposed := true }).refer cfg i n = some (s', c)) : Ext s s' ∧ Core cfg st s' := by
  have c1 := setNode_core (i := i) (nd := { nd with exposed := true }) hc ((hc.node i nd hn).of_same rfl rfl rfl)
  obtain ⟨e2, c2⟩ := refer_spec c1 h
  exact ⟨(setNode_ext _ _ _).trans e2, c2⟩

theorem sliceLoop_typed {cfg : Cfg} {st : Bool} : ∀ (l : List Nat) {s s' : Mem} {ack k : Nat} {cs : List Nat},
    Core cfg st s → sliceLoop cfg s l ack = some (s', cs, k) → Ext s s' ∧ Core cfg st s'
  | [], s, s', ack, k, cs, _, h => by simp [sliceLoop] at h
  | i :: rest, s, s', ack, k, cs, hc, h => by
    unfold sliceLoop at h
    split at h
    · cases h
    · rename_i nd hn
      split at h
      · split at h
        · cases h
        · rename_i s1 c hr
          cases h
          exact expose_refer hc hn hr
      · split at h
        · split at h
          · cases h
          · rename_i s1 c hr
            obtain ⟨e1, c1⟩ := expose_refer hc hn hr
            split at h
            · cases h
            · rename_i s2 cs2 k2 hl
              cases h
              obtain ⟨e2, c2⟩ := sliceLoop_typed rest c1 hl
              exact ⟨e1.trans e2, c2⟩
        · split at h
          · cases h
          · rename_i s2 cs2 k2 hl
            cases h
            exact sliceLoop_typed rest hc hl

theorem newBuf_typed {cfg : Cfg} {st : Bool} {s : Mem} (size : Nat) (hc : Core cfg st s) :
    Tri cfg st s (newBuf cfg s size).1 (newBuf cfg s size).2 := by
  obtain ⟨e, c⟩ := newNode_spec (cfg := cfg) (s := s) size hc
  exact ⟨e, c, BufOK.empty rfl rfl⟩

/-- `Slice`: parent as `Tri`; the new reader has no caches -/
theorem slice_typed {cfg : Cfg} {st : Bool} {s s' : Mem} {b b' : Buf} {n : Int} {c : Option Buf} (hc : Core cfg st s)
    (hb : BufOK cfg s b) (h : slice cfg s b n = some (s', b', c)) :
    Tri cfg st s s' b' ∧ ∀ cb, c = some cb → BufOK cfg s' cb := by
  unfold slice at h
  split at h
  · cases h
    obtain ⟨e, c1, hb1⟩ := newBuf_typed (cfg := cfg) (s := s) 0 hc
    exact ⟨⟨e, c1, hb.ext e⟩, fun cb hcb => by cases hcb; exact hb1⟩
  · dsimp only at h
    split at h
    · cases h; exact ⟨Tri.same hc hb, fun cb hcb => by cases hcb⟩
    · have hb1 := consumeLen_ok (cfg := cfg) (s := s) (n.toNat) hb
      generalize b.consumeLen n.toNat = b1 at h hb1
      split at h
      · cases h
      · rename_i b2 i nd hs
        obtain ⟨hn, h1, h2, _⟩ := isSingleNode_spec hs
        split at h
        · cases h
        · rename_i s1 c1 hr
          cases h
          obtain ⟨e1, cc1⟩ := expose_refer hc hn hr
          exact ⟨⟨e1, cc1, (hb1.of_caches_eq h1 h2).ext e1⟩, fun cb hcb => by cases hcb; exact BufOK.empty rfl rfl⟩
      · rename_i b2 i nd hs
        obtain ⟨hn, h1, h2, _⟩ := isSingleNode_spec hs
        split at h
        · cases h
        · rename_i s1 c1 hr
          obtain ⟨e1, cc1⟩ := expose_refer hc hn hr
          split at h
          · cases h
          · rename_i s2 cs k hl
            obtain ⟨e2, cc2⟩ := sliceLoop_typed _ cc1 hl
            split at h
            · cases h
            · rename_i s3 b3 hrel
              cases h
              have hb2 : BufOK cfg s2 { b2 with r := b2.r + 1 + k } :=
                ((hb1.of_caches_eq h1 h2).ext (e1.trans e2)).of_caches_eq rfl rfl
              obtain ⟨e3, cc3, hb3⟩ := releaseCore_typed cc2 hb2 hrel
              exact ⟨⟨e1.trans (e2.trans e3), cc3, hb3⟩, fun cb hcb => by cases hcb; exact BufOK.empty rfl rfl⟩

theorem dropUnexposed_typed {cfg : Cfg} {st : Bool} : ∀ (l : List Nat) {s s' : Mem} {kept : List Nat},
    Core cfg st s → dropUnexposed cfg s l = some (s', kept) → Ext s s' ∧ Core cfg st s'
  | [], s, s', kept, hc, h => by simp [dropUnexposed] at h; obtain ⟨rfl, _⟩ := h; exact ⟨Ext.refl _, hc⟩
  | i :: rest, s, s', kept, hc, h => by
    unfold dropUnexposed at h
    split at h
    · cases h
    · split at h
      · split at h
        · cases h
        · rename_i s1 k1 hd
          cases h
          exact dropUnexposed_typed rest hc hd
      · split at h
        · cases h
        · rename_i s1 hr
          obtain ⟨e1, c1⟩ := release1_spec hc hr
          obtain ⟨e2, c2⟩ := dropUnexposed_typed rest c1 h
          exact ⟨e1.trans e2, c2⟩

theorem readCopy_typed {cfg : Cfg} {st : Bool} {s s' : Mem} {id : Nat} {b b' : Buf} {l : Nat} (hc : Core cfg st s)
    (hb : BufOK cfg s b) (h : readCopy cfg s id b l = some (s', b')) : Tri cfg st s s' b' := by
  unfold readCopy at h
  split at h
  · cases h; exact Tri.same hc hb
  · dsimp only at h
    generalize (if b.length < l then b.length else l) = l1 at h
    have e1 := allocBlock_ext s .gc l1
    have c1 := allocBlock_core (cfg := cfg) (st := st) .gc l1 hc
    obtain ⟨bl, g1, g2, _⟩ := allocBlock_get s .gc l1
    generalize s.allocBlock .gc l1 = p at h e1 c1 g1
    obtain ⟨s1, blk⟩ := p
    simp only at h e1 c1 g1
    have hk : bl.kind ≠ .caller := by rw [g2]; decide
    have c2 := addView_core (blk := some blk) (lo := 0) (hi := l1) (o := id) (p := true)
      (emit_core (e := .write blk 0 l1) c1 (evOK_write g1 hk))
    have e2 : Ext s1 ((s1.emit (.write blk 0 l1)).addView (some blk) 0 l1 id true) :=
      Ext.of_blocks_eq (by rw [addView_blocks]; rfl)
    generalize (s1.emit (.write blk 0 l1)).addView (some blk) 0 l1 id true = s2 at h c2 e2
    split at h
    · cases h
    · rename_i s3 b3 ho
      obtain ⟨c3, k1, _, k3, k4⟩ := onReadSuffix_spec (fun l l' k => copyLoop_sz l _) c2 ho
      split at h
      · cases h
      · split at h
        · cases h
        · split at h
          · cases h
          · split at h
            · cases h
            · rename_i s4 kept hd
              obtain ⟨e4, c4⟩ := dropUnexposed_typed _ c3 hd
              have e14 : Ext s s4 := e1.trans (e2.trans ((Ext.of_blocks_eq k1).trans e4))
              cases h
              exact ⟨e14, c4, (((consumeLen_ok _ hb).of_caches_eq k3 k4).ext e14).of_caches_eq rfl rfl⟩

theorem close_typed {cfg : Cfg} {st : Bool} {s s' : Mem} {id : Nat} {b b' : Buf} (hc : Core cfg st s) (hb : BufOK cfg s b)
    (h : close cfg s id b = some (s', b')) : Tri cfg st s s' b' := by
  unfold close at h
  split at h
  · cases h
  · rename_i s1 b1 hr
    obtain ⟨e1, c1, _⟩ := releaseCore_typed hc (hb.of_caches_eq (b' := { b with length := 0, mallocSize := 0 }) rfl rfl) hr
    split at h
    · cases h
    · rename_i s2 hra
      cases h
      obtain ⟨e2, c2⟩ := releaseAll_spec _ c1 hra
      exact ⟨e1.trans (e2.trans (endViews_ext _ _)), endViews_core c2, BufOK.empty rfl rfl⟩

end Netpoll.Buf.Own
