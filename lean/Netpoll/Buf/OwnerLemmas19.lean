import Netpoll.Buf.OwnerLemmas18
/-!
Lemmas about the ownership ledger, part 19: live views.  A result handed out by Next / Peek / Until / GetBytes stays
*held* for its owner until the owner's views end: its block is GC memory, or sits in the owner's `caches` / `cachePeek`,
or lies under an exposed struct chained in the owner.  This file: the frame property (what a method may do to structs it
does not release) and the bookkeeping relation `VS` of one method call.
-/
namespace Netpoll.Buf.Own
open Netpoll.Buf

/-- what a method does to the structs that existed before: exposure is kept, recycling is final, and a struct that is
still live keeps its memory -/
def Frame (m m' : Mem) : Prop :=
  ∀ (i : Nat) (nd : NodeS), m.nodes[i]? = some nd → ∃ nd' : NodeS, m'.nodes[i]? = some nd' ∧
    (nd.exposed = true → nd'.exposed = true) ∧ nd.recycled ≤ nd'.recycled ∧ (nd'.recycled = 0 → nd'.block = nd.block)

theorem Frame.refl (m : Mem) : Frame m m := fun _ nd h => ⟨nd, h, id, Nat.le_refl _, fun _ => rfl⟩

theorem Frame.trans {m m' m'' : Mem} (h1 : Frame m m') (h2 : Frame m' m'') : Frame m m'' := by
  intro i nd hn
  obtain ⟨nd', g1, g2, g3, g4⟩ := h1 i nd hn
  obtain ⟨nd'', k1, k2, k3, k4⟩ := h2 i nd' g1
  refine ⟨nd'', k1, fun e => k2 (g2 e), Nat.le_trans g3 k3, fun e => ?_⟩
  have : nd'.recycled = 0 := by omega
  rw [k4 e, g4 this]

theorem Frame.of_nodes_eq {m m' : Mem} (h : m'.nodes = m.nodes) : Frame m m' :=
  fun _ nd hn => ⟨nd, by rw [h]; exact hn, id, Nat.le_refl _, fun _ => rfl⟩

/-- overwriting one existing struct -/
theorem Frame.setNode {m : Mem} {i : Nat} {nd nd' : NodeS} (hn : m.nodes[i]? = some nd) (h1 : nd.exposed = true → nd'.exposed = true)
    (h2 : nd.recycled ≤ nd'.recycled) (h3 : nd'.recycled = 0 → nd'.block = nd.block) : Frame m (m.setNode i nd') := by
  intro j x hx
  by_cases hji : j = i
  · subst hji
    rw [hn] at hx; cases hx
    exact ⟨nd', by simp only [Mem.setNode]; exact List.getElem?_set_self (lt_of_getElem? hn), h1, h2, h3⟩
  · exact ⟨x, by simp only [Mem.setNode]; rw [List.getElem?_set_ne (fun e => hji e.symm)]; exact hx, id, Nat.le_refl _, fun _ => rfl⟩

/-- a write to a slot that did not exist in `m` is invisible -/
theorem Frame.setNode_new {m m1 : Mem} {c : Nat} (x : NodeS) (h : Frame m m1) (hc : m.nodes.length ≤ c) : Frame m (m1.setNode c x) := by
  intro j nd hn
  obtain ⟨nd', g1, g2, g3, g4⟩ := h j nd hn
  have : c ≠ j := by have := lt_of_getElem? hn; omega
  exact ⟨nd', by simp only [Mem.setNode]; rw [List.getElem?_set_ne this]; exact g1, g2, g3, g4⟩

theorem Frame.append {m : Mem} (x : NodeS) : Frame m { m with nodes := m.nodes ++ [x] } :=
  fun j nd hn => ⟨nd, by simp only; rw [List.getElem?_append_left (lt_of_getElem? hn)]; exact hn, id, Nat.le_refl _, fun _ => rfl⟩

theorem newNode_frame (cfg : Cfg) (m : Mem) (size : Nat) : Frame m (m.newNode cfg size).1 := by
  rcases (newNode_cases cfg m size).2 with ⟨_, h⟩ | ⟨_, c, h⟩
  · rw [h]; exact Frame.append _
  · rw [h]
    exact (Frame.of_nodes_eq (mallocMem_nodes cfg m c)).trans (Frame.append _)

theorem newNode_len (cfg : Cfg) (m : Mem) (size : Nat) : m.nodes.length ≤ (m.newNode cfg size).2 := by
  rw [(newNode_cases cfg m size).1]; exact Nat.le_refl _

/-- writing back structs that differ in size fields only -/
theorem putAll_frame : ∀ (l : List (Nat × NodeS)) {m : Mem},
    (∀ p ∈ l, ∃ nd : NodeS, m.nodes[p.1]? = some nd ∧ p.2.exposed = nd.exposed ∧ p.2.recycled = nd.recycled ∧ p.2.block = nd.block) →
    Frame m (m.putAll l)
  | [], m, _ => Frame.refl m
  | (i, nd') :: rest, m, h => by
    unfold Mem.putAll
    obtain ⟨nd, h0, h1, h2, h3⟩ := h (i, nd') List.mem_cons_self
    refine (Frame.setNode h0 (fun e => by rw [h1]; exact e) (by rw [h2]; exact Nat.le_refl _) (fun _ => h3)).trans (putAll_frame rest ?_)
    intro q hq
    obtain ⟨ndq, g0, g1, g2, g3⟩ := h q (List.mem_cons_of_mem _ hq)
    by_cases hqi : q.1 = i
    · refine ⟨nd', by rw [hqi]; simp only [Mem.setNode]; exact List.getElem?_set_self (lt_of_getElem? h0), ?_⟩
      rw [hqi, h0] at g0; cases g0
      exact ⟨by rw [g1, h1], by rw [g2, h2], by rw [g3, h3]⟩
    · exact ⟨ndq, by simp only [Mem.setNode]; rw [List.getElem?_set_ne (fun e => hqi e.symm)]; exact g0, g1, g2, g3⟩

theorem putAll_frame_sz {m : Mem} {l : List Nat} {suf suf' : List (Nat × NodeS)} (hr : m.resolve l = some suf) (hs : SzL suf suf') :
    Frame m (m.putAll suf') := by
  refine putAll_frame _ (fun p' hp' => ?_)
  obtain ⟨p, hm, h1, h2, _, _, _, _, _, h8, h9⟩ := hs.mem p' hp'
  exact ⟨p.2, by rw [h1]; exact resolve_mem l hr p hm, h9, h8, h2⟩

theorem putAll_frame_map {m : Mem} {ch : List Nat} {suf : List (Nat × NodeS)} (hr : m.resolve ch = some suf) (f : NodeS → NodeS)
    (h : ∀ nd, (f nd).exposed = nd.exposed ∧ (f nd).recycled = nd.recycled ∧ (f nd).block = nd.block) :
    Frame m (m.putAll (suf.map fun p => (p.1, f p.2))) := by
  refine putAll_frame _ (fun p hp => ?_)
  obtain ⟨q, hq, rfl⟩ := List.mem_map.1 hp
  obtain ⟨a, b, c⟩ := h q.2
  exact ⟨q.2, resolve_mem _ hr q hq, a, b, c⟩

theorem releaseSelf_frame {cfg : Cfg} {m m' : Mem} {j : Nat} (h : m.releaseSelf cfg j = some m') : Frame m m' := by
  obtain ⟨nd, g1, g2⟩ := releaseSelf_nodes h
  have : Frame m (m.setNode j nd.decr) := by
    refine Frame.setNode g1 (fun e => ?_) ?_ (fun e => ?_)
    · unfold NodeS.decr; split
      · simpa [NodeS.recycle] using e
      · exact e
    · unfold NodeS.decr; split
      · simp [NodeS.recycle]
      · exact Nat.le_refl _
    · unfold NodeS.decr at e ⊢; split
      · rename_i hr; simp [hr, NodeS.recycle] at e
      · rfl
  exact this.trans (Frame.of_nodes_eq (by rw [g2]; rfl))

theorem nodeRelease_frame {cfg : Cfg} (fuel : Nat) : ∀ {m m' : Mem} {i : Nat}, Mem.nodeRelease cfg fuel m i = some m' → Frame m m' := by
  induction fuel with
  | zero => intro m m' i h; simp [Mem.nodeRelease] at h
  | succ fuel ih =>
    intro m m' i h
    unfold Mem.nodeRelease at h
    cases hn : m.nodes[i]? with
    | none => simp [hn] at h
    | some nd =>
      simp only [hn] at h
      cases ho : nd.origin with
      | none => simp only [ho] at h; exact releaseSelf_frame h
      | some o =>
        simp only [ho] at h
        cases h1 : Mem.nodeRelease cfg fuel m o with
        | none => simp [h1] at h
        | some m1 =>
          simp only [h1] at h
          exact (ih h1).trans (releaseSelf_frame h)

theorem releaseAll_frame {cfg : Cfg} : ∀ (l : List Nat) {m m' : Mem}, m.releaseAll cfg l = some m' → Frame m m'
  | [], m, m', h => by simp [Mem.releaseAll] at h; subst h; exact Frame.refl _
  | i :: rest, m, m', h => by
    unfold Mem.releaseAll at h
    cases h1 : m.release1 cfg i with
    | none => simp [h1] at h
    | some m1 =>
      simp only [h1] at h
      exact (nodeRelease_frame _ h1).trans (releaseAll_frame rest h)

theorem refer_frame {cfg : Cfg} {m m' : Mem} {i n c : Nat} (h : m.refer cfg i n = some (m', c)) : Frame m m' := by
  unfold Mem.refer at h
  cases hn : m.nodes[i]? with
  | none => simp [hn] at h
  | some nd =>
    simp only [hn] at h
    have f0 := (newNode_frame cfg m 0).setNode_new (nd.childOf i n) (newNode_len cfg m 0)
    have hic : (m.newNode cfg 0).2 ≠ i := by
      rw [(newNode_cases cfg m 0).1]; exact (Nat.ne_of_lt (lt_of_getElem? hn)).symm
    have hn1 : ((m.newNode cfg 0).1.setNode (m.newNode cfg 0).2 (nd.childOf i n)).nodes[i]? = some nd := by
      simp only [Mem.setNode]; rw [List.getElem?_set_ne hic]; exact newNode_nodes_get cfg m 0 i nd hn
    have f1 := Frame.setNode (nd' := { nd with off := nd.off + n }) hn1 id (Nat.le_refl _) (fun _ => rfl)
    split at h
    · cases h
    · rename_i on hon
      simp only [Option.some.injEq, Prod.mk.injEq] at h
      obtain ⟨h, _⟩ := h
      subst h
      exact f0.trans (f1.trans (Frame.setNode (nd' := { on with refer := on.refer + 1 }) hon id (Nat.le_refl _) (fun _ => rfl)))

end Netpoll.Buf.Own
