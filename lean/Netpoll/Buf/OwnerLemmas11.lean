import Netpoll.Buf.OwnerLemmas10
/-!
Lemmas about the ownership ledger, part 11: the *reference-count invariant* `Rc m C`.
`C` is the list of node structs currently chained in some buffer.  A struct that has not been put back to
`linkedPool` has `refer ≥ [it is chained] + number of live children whose origin it is`; a struct that was put
back is chained nowhere and has no live child.  Consequently `Release` recycles a struct (and frees its block) only
when nothing refers to it any more.
-/
namespace Netpoll.Buf.Own
open Netpoll.Buf

/-- the struct is a live (not recycled) child of `o` -/
def NodeS.claims (c : NodeS) (o : Nat) : Bool := c.recycled == 0 && c.origin == some o

/-- number of live children of `o` -/
def Mem.ch (m : Mem) (o : Nat) : Nat := m.nodes.countP (·.claims o)

def inC (C : List Nat) (i : Nat) : Nat := if i ∈ C then 1 else 0

structure RcNode (m : Mem) (C : List Nat) (i : Nat) (nd : NodeS) : Prop where
  once : nd.recycled ≤ 1
  live : nd.recycled = 0 → ((inC C i + m.ch i : Nat) : Int) ≤ nd.refer
  dead : nd.recycled = 1 → nd.refer ≤ 0 ∧ i ∉ C ∧ m.ch i = 0 ∧ nd.block = none ∧ nd.origin = none
  child : ∀ o, nd.origin = some o → nd.recycled = 0 →
    o ≠ i ∧ nd.unmanaged = true ∧ nd.refer ≤ 1 ∧ ∃ on : NodeS, m.nodes[o]? = some on ∧ on.origin = none ∧ on.block = nd.block
  /-- an unmanaged struct that is not a child wraps caller memory (no WriteDirect split in the history) -/
  caller : nd.unmanaged = true → nd.origin = none → ∀ k, nd.block = some k → ∃ bl : Block, m.blocks[k]? = some bl ∧ bl.kind = .caller

structure Rc (m : Mem) (C : List Nat) : Prop where
  nodup : C.Nodup
  inb : ∀ i ∈ C, i < m.nodes.length
  node : ∀ (i : Nat) (nd : NodeS), m.nodes[i]? = some nd → RcNode m C i nd

theorem inC_le_of_subset {C C' : List Nat} (h : ∀ x ∈ C', x ∈ C) (i : Nat) : inC C' i ≤ inC C i := by
  unfold inC
  by_cases h1 : i ∈ C'
  · simp [h1, h _ h1]
  · simp [h1]

/-- fewer chained structs: still fine -/
theorem Rc.mono {m : Mem} {C C' : List Nat} (h : Rc m C) (hn : C'.Nodup) (hs : ∀ x ∈ C', x ∈ C) : Rc m C' := by
  refine ⟨hn, fun i hi => h.inb i (hs i hi), fun i nd hnd => ?_⟩
  have r := h.node i nd hnd
  refine ⟨r.once, fun h0 => ?_, fun h1 => ?_, r.child, r.caller⟩
  · have := r.live h0
    have := inC_le_of_subset hs i
    omega
  · obtain ⟨a, b, c, d, e⟩ := r.dead h1
    exact ⟨a, fun hi => b (hs i hi), c, d, e⟩

theorem Rc.perm {m : Mem} {C C' : List Nat} (h : Rc m C) (hp : C'.Perm C) : Rc m C' :=
  h.mono (hp.nodup_iff.2 h.nodup) (fun x hx => hp.mem_iff.1 hx)

/-- a claimed struct is live -/
theorem Rc.origin_live {m : Mem} {C : List Nat} (h : Rc m C) {o : Nat} {on : NodeS} (ho : m.nodes[o]? = some on)
    (hc : 0 < m.ch o) : on.recycled = 0 := by
  have r := h.node o on ho
  have h1 := r.once
  rcases Nat.lt_or_ge 0 on.recycled with h2 | h2
  · have : on.recycled = 1 := by omega
    obtain ⟨_, _, c, _⟩ := r.dead this
    omega
  · omega

theorem countP_pos_of_get {α : Type} (p : α → Bool) : ∀ (l : List α) (i : Nat) (x : α), l[i]? = some x → p x = true → 0 < l.countP p
  | [], _, _, h, _ => by simp at h
  | y :: l, 0, x, h, hp => by simp at h; subst h; simp [List.countP_cons, hp]
  | y :: l, i + 1, x, h, hp => by
    simp at h
    have := countP_pos_of_get p l i x h hp
    simp only [List.countP_cons]; omega

/-- a chained struct is live -/
theorem Rc.chained_live {m : Mem} {C : List Nat} (h : Rc m C) {i : Nat} {nd : NodeS} (hn : m.nodes[i]? = some nd) (hi : i ∈ C) :
    nd.recycled = 0 := by
  have r := h.node i nd hn
  have h1 := r.once
  rcases Nat.lt_or_ge 0 nd.recycled with h2 | h2
  · have : nd.recycled = 1 := by omega
    exact absurd hi (r.dead this).2.1
  · omega

/-! ### how `ch` changes -/

theorem ch_setNode_same {m : Mem} {i : Nat} {nd nd' : NodeS} (h : m.nodes[i]? = some nd)
    (h1 : nd'.recycled = nd.recycled) (h2 : nd'.origin = nd.origin) (o : Nat) : (m.setNode i nd').ch o = m.ch o := by
  unfold Mem.ch Mem.setNode
  exact countP_set_same _ _ _ _ _ h (by simp [NodeS.claims, h1, h2])

theorem countP_set_drop {α : Type} (p : α → Bool) (a x : α) (hp : p a = false) : ∀ (l : List α) (i : Nat), l[i]? = some x →
    (l.set i a).countP p + (if p x then 1 else 0) = l.countP p
  | [], _, h => by simp at h
  | y :: l, 0, h => by simp at h; subst h; simp [List.countP_cons, hp]
  | y :: l, i + 1, h => by
    simp at h
    have := countP_set_drop p a x hp l i h
    simp only [List.set_cons_succ, List.countP_cons]; omega

theorem countP_set_add {α : Type} (p : α → Bool) (a x : α) (hp : p x = false) : ∀ (l : List α) (i : Nat), l[i]? = some x →
    (l.set i a).countP p = l.countP p + (if p a then 1 else 0)
  | [], _, h => by simp at h
  | y :: l, 0, h => by simp at h; subst h; simp [List.countP_cons, hp]
  | y :: l, i + 1, h => by
    simp at h
    have := countP_set_add p a x hp l i h
    simp only [List.set_cons_succ, List.countP_cons]; omega

theorem getElem?_setNode {m : Mem} {i j : Nat} {nd' x : NodeS} (h : (m.setNode i nd').nodes[j]? = some x) :
    (j = i ∧ x = nd' ∧ i < m.nodes.length) ∨ (j ≠ i ∧ m.nodes[j]? = some x) := by
  unfold Mem.setNode at h
  simp only at h
  by_cases hij : i = j
  · subst hij
    rw [List.getElem?_set_self'] at h
    cases hl : m.nodes[i]? with
    | none => simp [hl] at h
    | some y => simp [hl] at h; exact Or.inl ⟨rfl, h.symm, lt_of_getElem? hl⟩
  · rw [List.getElem?_set_ne hij] at h; exact Or.inr ⟨fun h' => hij h'.symm, h⟩

/-- writing a struct with the same reference fields keeps `Rc` -/
theorem Rc.setNode_same {m : Mem} {C : List Nat} {i : Nat} {nd nd' : NodeS} (h : Rc m C) (hn : m.nodes[i]? = some nd)
    (h1 : nd'.recycled = nd.recycled) (h2 : nd'.origin = nd.origin) (h3 : nd'.refer = nd.refer) (h4 : nd'.block = nd.block)
    (h5 : nd'.unmanaged = nd.unmanaged) : Rc (m.setNode i nd') C := by
  have hch : ∀ o, (m.setNode i nd').ch o = m.ch o := ch_setNode_same hn h1 h2
  have hget : ∀ (j : Nat) (x : NodeS), m.nodes[j]? = some x → ∃ x' : NodeS, (m.setNode i nd').nodes[j]? = some x' ∧
      x'.origin = x.origin ∧ x'.block = x.block := by
    intro j x hx
    by_cases hji : j = i
    · subst hji
      rw [hn] at hx; cases hx
      exact ⟨nd', by simp only [Mem.setNode]; exact List.getElem?_set_self (lt_of_getElem? hn), h2, h4⟩
    · exact ⟨x, by simp only [Mem.setNode]; rw [List.getElem?_set_ne (fun h' => hji h'.symm)]; exact hx, rfl, rfl⟩
  refine ⟨h.nodup, fun j hj => by simp only [Mem.setNode, List.length_set]; exact h.inb j hj, fun j x hx => ?_⟩
  rcases getElem?_setNode hx with ⟨rfl, rfl, _⟩ | ⟨hji, hx'⟩
  · have r := h.node j nd hn
    refine ⟨by rw [h1]; exact r.once, fun h0 => ?_, fun hd => ?_, fun o ho h0 => ?_,
      fun hu ho k hk => r.caller (by rw [← h5]; exact hu) (by rw [← h2]; exact ho) k (by rw [← h4]; exact hk)⟩
    · rw [hch, h3]; exact r.live (by rw [← h1]; exact h0)
    · rw [hch, h3, h4, h2]; exact r.dead (by rw [← h1]; exact hd)
    · obtain ⟨a, b, c, on, d, e, f⟩ := r.child o (by rw [← h2]; exact ho) (by rw [← h1]; exact h0)
      obtain ⟨on', d', e', f'⟩ := hget o on d
      exact ⟨a, by rw [h5]; exact b, by rw [h3]; exact c, on', d', by rw [e']; exact e, by rw [f', h4]; exact f⟩
  · have r := h.node j x hx'
    refine ⟨r.once, fun h0 => ?_, fun hd => ?_, fun o ho h0 => ?_, r.caller⟩
    · rw [hch]; exact r.live h0
    · rw [hch]; exact r.dead hd
    · obtain ⟨a, b, c, on, d, e, f⟩ := r.child o ho h0
      obtain ⟨on', d', e', f'⟩ := hget o on d
      exact ⟨a, b, c, on', d', by rw [e']; exact e, by rw [f']; exact f⟩

/-- memory changes that leave the struct table alone (and the kinds of the blocks) keep `Rc` -/
theorem Rc.of_nodes_eq {m m' : Mem} {C : List Nat} (h : Rc m C) (hn : m'.nodes = m.nodes) (he : Ext m m') : Rc m' C := by
  have hch : ∀ o, m'.ch o = m.ch o := fun o => by unfold Mem.ch; rw [hn]
  refine ⟨h.nodup, fun i hi => by rw [hn]; exact h.inb i hi, fun i nd hnd => ?_⟩
  rw [hn] at hnd
  have r := h.node i nd hnd
  refine ⟨r.once, fun h0 => by rw [hch]; exact r.live h0, fun hd => by rw [hch]; exact r.dead hd, fun o ho h0 => ?_,
    fun hu ho k hk => ?_⟩
  · obtain ⟨a, b, c, on, d, e, f⟩ := r.child o ho h0
    exact ⟨a, b, c, on, by rw [hn]; exact d, e, f⟩
  · obtain ⟨bl, g1, g2⟩ := r.caller hu ho k hk
    obtain ⟨bl', g3, g4, _⟩ := he k bl g1
    exact ⟨bl', g3, by rw [g4]; exact g2⟩

/-- every pair to be written back keeps the reference fields of the struct now in the table -/
def RefOK (m : Mem) (l : List (Nat × NodeS)) : Prop :=
  ∀ p ∈ l, ∃ nd : NodeS, m.nodes[p.1]? = some nd ∧ p.2.recycled = nd.recycled ∧ p.2.origin = nd.origin ∧
    p.2.refer = nd.refer ∧ p.2.block = nd.block ∧ p.2.unmanaged = nd.unmanaged

theorem putAll_rc : ∀ (l : List (Nat × NodeS)) {m : Mem} {C : List Nat}, Rc m C → RefOK m l → Rc (m.putAll l) C
  | [], _, _, h, _ => h
  | (i, nd') :: rest, m, C, h, hr => by
    unfold Mem.putAll
    obtain ⟨nd, h0, h1, h2, h3, h4, h5⟩ := hr (i, nd') List.mem_cons_self
    refine putAll_rc rest (h.setNode_same h0 h1 h2 h3 h4 h5) (fun q hq => ?_)
    obtain ⟨ndq, g0, g1, g2, g3, g4, g5⟩ := hr q (List.mem_cons_of_mem _ hq)
    by_cases hqi : q.1 = i
    · refine ⟨nd', ?_, ?_⟩
      · rw [hqi]; simp only [Mem.setNode]; exact List.getElem?_set_self (lt_of_getElem? h0)
      · rw [hqi, h0] at g0; cases g0
        exact ⟨by rw [g1, h1], by rw [g2, h2], by rw [g3, h3], by rw [g4, h4], by rw [g5, h5]⟩
    · exact ⟨ndq, by simp only [Mem.setNode]; rw [List.getElem?_set_ne (fun h' => hqi h'.symm)]; exact g0, g1, g2, g3, g4, g5⟩

theorem refOK_of_sz {m : Mem} {l : List Nat} {suf suf' : List (Nat × NodeS)} (hr : m.resolve l = some suf) (hs : SzL suf suf') :
    RefOK m suf' := by
  intro p' hp'
  obtain ⟨p, hm, h1, h2, _, _, h5, h6, h7, h8, _⟩ := hs.mem p' hp'
  exact ⟨p.2, by rw [h1]; exact resolve_mem l hr p hm, h8, h7, h6, h2, h5⟩

theorem refOK_map {m : Mem} {ch : List Nat} {suf : List (Nat × NodeS)} (hr : m.resolve ch = some suf) (f : NodeS → NodeS)
    (h : ∀ p ∈ suf, (f p.2).recycled = p.2.recycled ∧ (f p.2).origin = p.2.origin ∧ (f p.2).refer = p.2.refer ∧
      (f p.2).block = p.2.block ∧ (f p.2).unmanaged = p.2.unmanaged) :
    RefOK m (suf.map fun p => (p.1, f p.2)) := by
  intro p hp
  obtain ⟨q, hq, rfl⟩ := List.mem_map.1 hp
  obtain ⟨a, b, c, d, e⟩ := h q hq
  exact ⟨q.2, resolve_mem _ hr q hq, a, b, c, d, e⟩

/-- appending a fresh struct (no origin, one reference, not recycled) that is chained at once -/
theorem Rc.append_fresh {m : Mem} {C : List Nat} {nd : NodeS} (h : Rc m C) (h1 : nd.recycled = 0) (h2 : nd.origin = none)
    (h3 : nd.refer = 1) (h4 : nd.unmanaged = true → nd.block = none) : Rc { m with nodes := m.nodes ++ [nd] } (m.nodes.length :: C) := by
  have hnotin : m.nodes.length ∉ C := fun hc => Nat.lt_irrefl _ (h.inb _ hc)
  have hch : ∀ o, ({ m with nodes := m.nodes ++ [nd] } : Mem).ch o = m.ch o := by
    intro o
    unfold Mem.ch
    simp [List.countP_append, NodeS.claims, h2]
  -- nobody claims the fresh index
  have hnew : m.ch m.nodes.length = 0 := by
    unfold Mem.ch
    rw [List.countP_eq_zero]
    intro x hx
    obtain ⟨j, hj, rfl⟩ := List.mem_iff_getElem.1 hx
    have hget : m.nodes[j]? = some m.nodes[j] := List.getElem?_eq_getElem hj
    have r := h.node j _ hget
    intro hcl
    simp only [NodeS.claims, Bool.and_eq_true, beq_iff_eq] at hcl
    obtain ⟨_, _, _, on, d, _⟩ := r.child _ hcl.2 hcl.1
    exact Nat.lt_irrefl _ (lt_of_getElem? d)
  refine ⟨List.nodup_cons.2 ⟨hnotin, h.nodup⟩, fun i hi => ?_, fun i x hx => ?_⟩
  · simp only [List.length_append, List.length_singleton]
    rcases List.mem_cons.1 hi with rfl | hi
    · omega
    · have := h.inb i hi; omega
  · rcases getElem?_append_one hx with hx | ⟨rfl, rfl⟩
    · have r := h.node i x hx
      have hi : i ≠ m.nodes.length := Nat.ne_of_lt (lt_of_getElem? hx)
      have hin : inC (m.nodes.length :: C) i = inC C i := by simp [inC, hi]
      refine ⟨r.once, fun h0 => by rw [hch, hin]; exact r.live h0, fun hd => ?_, fun o ho h0 => ?_, r.caller⟩
      · obtain ⟨a, b, c, d, e⟩ := r.dead hd
        exact ⟨a, by simp [hi, b], by rw [hch]; exact c, d, e⟩
      · obtain ⟨a, b, c, on, d, e, f⟩ := r.child o ho h0
        exact ⟨a, b, c, on, by simp only; rw [List.getElem?_append_left (lt_of_getElem? d)]; exact d, e, f⟩
    · refine ⟨by omega, fun _ => ?_, fun hd => by omega, fun o ho => (by rw [h2] at ho; cases ho),
        fun hu _ k hk => (by rw [h4 hu] at hk; cases hk)⟩
      rw [hch, hnew, h3]
      simp [inC]

end Netpoll.Buf.Own
