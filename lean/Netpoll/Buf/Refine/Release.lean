import Netpoll.Buf.Refine.Consume
/-
Release, Len, MallocLen.
-/
namespace Netpoll.Buf

variable {α : Type}

theorem Node.abs_nil (nd : Node α) (h0 : nd.len = 0) (hp : nd.pend = []) : nd.abs = [] := by
  have := Node.readable_length nd
  rw [h0] at this
  simp [Node.abs, hp, List.eq_nil_of_length_eq_zero this]

theorem skipEmptyRel_spec (ns : List (Node α)) (r f : Nat) (hrf : r ≤ f) (hfl : f - r ≤ ns.length)
    (hp : ∀ (i : Nat) (nd : Node α), ns[i]? = some nd → i < f - r → nd.pend = []) :
    ∃ j, skipEmptyRel ns r f = some (r + j) ∧ r + j ≤ f ∧ absL (ns.drop j) = absL ns := by
  induction ns generalizing r with
  | nil =>
    unfold skipEmptyRel
    have : r = f := by simp at hfl; omega
    exact ⟨0, by simp [this], by omega, rfl⟩
  | cons nd rest ih =>
    unfold skipEmptyRel
    by_cases hc : r ≠ f ∧ nd.len = 0
    · simp only [hc, and_self, if_true, ne_eq, not_false_eq_true]
      have hnil : nd.abs = [] := Node.abs_nil nd hc.2 (hp 0 nd (by simp) (by omega))
      obtain ⟨j, e, h1, h2⟩ := ih (r + 1) (by omega) (by simp at hfl; omega)
        (fun i x hx hi => hp (i + 1) x (by simpa using hx) (by omega))
      refine ⟨j + 1, by rw [e]; congr 1; omega, by omega, ?_⟩
      simp [hnil, h2]
    · simp only [hc, if_false]
      exact ⟨0, rfl, hrf, rfl⟩

/-- dropping consumed nodes in front of `read` keeps the chain invariant (indices shift) -/
theorem Shape.drop {nodes : List (Node α)} {r f w ro app} (h : Shape nodes r f w ro app) (r' : Nat) (hr' : r' ≤ f) :
    Shape (nodes.drop r') 0 (f - r') (w - r') ro app := by
  refine ⟨by omega, by have := h.f_le; simp; omega, ?_, ?_, ?_⟩
  · intro i nd hi
    rw [List.getElem?_drop] at hi
    have hn := h.node (r' + i) nd hi
    refine ⟨hn.1, fun hh => hn.2.1 (by omega), fun ha hh => hn.2.2.1 ha (by omega), ?_, hn.2.2.2.2⟩
    intro hro
    obtain ⟨a1, a2, a3⟩ := hn.2.2.2.1 hro
    have := h.wr hro
    exact ⟨a1, a2, fun hh => a3 (by omega)⟩
  · intro hro; have := h.wr hro; simp; omega
  · intro hro; have := h.rd hro; simp; omega

/-- what `Release()` does, from the chain invariant alone -/
theorem release_eq (b : LB α) {ro app : Bool} (hsh : Shape b.nodes b.r b.f b.w ro app) :
    ∃ r', b.release = some ({ b with nodes := b.nodes.drop r', r := 0, f := b.f - r', w := b.w - r',
                                     caches := 0, cachePeek := none }, .unit) ∧
      b.r ≤ r' ∧ r' ≤ b.f ∧ absL (b.nodes.drop r') = b.abs := by
  have hrl : b.r ≤ b.nodes.length := Nat.le_trans hsh.r_le_f hsh.f_le
  obtain ⟨j, e, h1, h2⟩ := skipEmptyRel_spec (b.nodes.drop b.r) b.r b.f hsh.r_le_f
    (by have := hsh.f_le; simp; omega)
    (fun i nd hi hlt => (hsh.node (b.r + i) nd (by rw [List.getElem?_drop] at hi; exact hi)).2.1 (by omega))
  refine ⟨b.r + j, ?_, by omega, h1, by rw [← List.drop_drop, h2]; rfl⟩
  unfold LB.release
  rw [e]
  have : ¬ b.r + j > b.nodes.length := by have := hsh.f_le; omega
  simp only [this, if_false]

theorem release_refines [DecidableEq α] {b : LB α} {q : Q α} (hR : R b q) (hC : Contract q .release = true) :
    ∃ b' r, b.release = some (b', r) ∧ R b' (specStep q .release).1 ∧ Matches r (specStep q .release).2 := by
  have hd : q.dead = false := by simpa [Contract] using hC
  have hsh := hR.shape hd
  obtain ⟨r', e, h1, h2, h3⟩ := release_eq b hsh
  refine ⟨_, _, e, ?_, rfl⟩
  simp only [specStep]
  refine ⟨?_, hR.len, hR.mlen, fun _ => hsh.drop r' h2, ?_, hR.flags⟩
  · show absL ((b.nodes.drop r').drop 0) = q.items
    rw [List.drop_zero, h3, hR.abs]
  · intro _ c cp hc; cases hc

theorem len_refines [DecidableEq α] (cfg : Cfg) {b : LB α} {q : Q α} (hR : R b q) :
    ∃ b' r, b.step cfg .len = some (b', r) ∧ R b' (specStep q .len).1 ∧ Matches r (specStep q .len).2 :=
  ⟨b, _, rfl, hR, by simp [specStep, Matches, hR.len]⟩

theorem mallocLen_refines [DecidableEq α] (cfg : Cfg) {b : LB α} {q : Q α} (hR : R b q) :
    ∃ b' r, b.step cfg .mallocLen = some (b', r) ∧ R b' (specStep q .mallocLen).1 ∧
      Matches r (specStep q .mallocLen).2 :=
  ⟨b, _, rfl, hR, by simp [specStep, Matches, hR.mlen]⟩

/-- `NewLinkBuffer(size)` represents the empty queue -/
theorem R_newLB (cfg : Cfg) (size : Nat) : R (newLB cfg size : LB α) {} := by
  have hnode : ∀ nd : Node α, nd = newNode cfg size →
      nd.buf = [] ∧ nd.off = 0 ∧ nd.pend = [] ∧ nd.malloc = 0 := by
    intro nd h; subst h; unfold newNode; split <;> simp
  obtain ⟨n1, n2, n3, n4⟩ := hnode _ rfl
  refine ⟨?_, rfl, rfl, ?_, ?_, by simp⟩
  · simp [newLB, LB.abs, Node.abs, Node.readable, n1, n3]
  · intro _
    refine ⟨Nat.le_refl _, by simp [newLB], ?_, by simp [newLB], by simp⟩
    intro i nd hi
    simp only [newLB] at hi
    cases i with
    | zero =>
      simp at hi; subst hi
      simp [n1, n2, n3, n4]
    | succ i => simp at hi
  · intro _ c cp h; simp [newLB] at h

end Netpoll.Buf
