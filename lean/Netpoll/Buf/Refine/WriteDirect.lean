import Netpoll.Buf.Refine.Release
/-
WriteDirect: inserting a data node `remain` bytes before the end of the malloc'ed (pending) area.
-/
namespace Netpoll.Buf

variable {α : Type}

/-! ### counting pending bytes of a chain -/

/-- number of pending (malloc'ed, unflushed) bytes held by a list of nodes -/
def pendSum : List (Node α) → Nat
  | [] => 0
  | nd :: ns => nd.pend.length + pendSum ns

@[simp] theorem pendSum_nil : pendSum ([] : List (Node α)) = 0 := rfl
@[simp] theorem pendSum_cons (nd : Node α) (ns : List (Node α)) :
    pendSum (nd :: ns) = nd.pend.length + pendSum ns := rfl

theorem pendSum_append (a c : List (Node α)) : pendSum (a ++ c) = pendSum a + pendSum c := by
  induction a with
  | nil => simp
  | cons x xs ih => simp [ih]; omega

theorem pendSum_take_drop (ns : List (Node α)) (k : Nat) :
    pendSum ns = pendSum (ns.take k) + pendSum (ns.drop k) := by
  rw [← pendSum_append, List.take_append_drop]

theorem pendSum_eq_zero (ns : List (Node α)) (h : ∀ nd ∈ ns, nd.pend = []) : pendSum ns = 0 := by
  induction ns with
  | nil => rfl
  | cons x xs ih =>
    simp [h x (List.mem_cons_self ..), ih (fun nd hnd => h nd (List.mem_cons_of_mem _ hnd))]

/-- under `len(buf) + len(pend) = malloc` the abstraction of a node is readable ++ pend -/
theorem Node.abs_wf (nd : Node α) (h : nd.buf.length + nd.pend.length = nd.malloc) :
    nd.abs = nd.readable.map (·, true) ++ nd.pend.map (·, false) := by
  simp only [Node.abs]
  rw [List.take_of_length_le (by omega)]

theorem Node.pendLen_wf (nd : Node α) (h : nd.buf.length + nd.pend.length = nd.malloc) :
    nd.pendLen = (nd.pend.length : Int) := by
  simp only [Node.pendLen]; omega

theorem filter_pending_true (l : List α) : (l.map (·, true)).filter (fun x => !x.2) = [] := by
  induction l with
  | nil => rfl
  | cons x xs ih => simp

theorem filter_pending_false (l : List α) :
    (l.map (·, false)).filter (fun x => !x.2) = l.map (·, false) := by
  induction l with
  | nil => rfl
  | cons x xs ih => simp

theorem filter_flushed_false (l : List α) : (l.map (·, false)).filter (fun x => x.2) = [] := by
  induction l with
  | nil => rfl
  | cons x xs ih => simp

/-- the pending entries of the abstract content are the `pend` bytes of the nodes -/
theorem absL_pending (ns : List (Node α)) (hwf : ∀ nd ∈ ns, nd.buf.length + nd.pend.length = nd.malloc) :
    ((absL ns).filter (fun x => !x.2)).length = pendSum ns := by
  induction ns with
  | nil => rfl
  | cons x xs ih =>
    rw [absL_cons, List.filter_append, List.length_append,
      ih (fun nd hnd => hwf nd (List.mem_cons_of_mem _ hnd)),
      Node.abs_wf x (hwf x (List.mem_cons_self ..)), List.filter_append, filter_pending_true,
      filter_pending_false]
    simp

/-- nodes without readable bytes denote exactly their pending bytes -/
theorem absL_length_behind (ns : List (Node α))
    (hwf : ∀ nd ∈ ns, nd.buf.length + nd.pend.length = nd.malloc)
    (hoff : ∀ nd ∈ ns, nd.off = nd.buf.length) : (absL ns).length = pendSum ns := by
  induction ns with
  | nil => rfl
  | cons x xs ih =>
    rw [absL_cons, List.length_append, ih (fun nd hnd => hwf nd (List.mem_cons_of_mem _ hnd))
      (fun nd hnd => hoff nd (List.mem_cons_of_mem _ hnd)),
      Node.abs_wf x (hwf x (List.mem_cons_self ..))]
    simp [Node.readable, hoff x (List.mem_cons_self ..)]

/-- nodes without readable bytes denote pending entries only -/
theorem absL_behind_pending (ns : List (Node α))
    (hwf : ∀ nd ∈ ns, nd.buf.length + nd.pend.length = nd.malloc)
    (hoff : ∀ nd ∈ ns, nd.off = nd.buf.length) : ∀ x ∈ absL ns, x.2 = false := by
  induction ns with
  | nil => simp
  | cons y ys ih =>
    intro x hx
    rw [absL_cons, Node.abs_wf y (hwf y (List.mem_cons_self ..))] at hx
    simp only [Node.readable, hoff y (List.mem_cons_self ..), List.drop_length, List.map_nil,
      List.nil_append, List.mem_append, List.mem_map] at hx
    rcases hx with ⟨a, _, rfl⟩ | hx
    · rfl
    · exact ih (fun nd hnd => hwf nd (List.mem_cons_of_mem _ hnd))
        (fun nd hnd => hoff nd (List.mem_cons_of_mem _ hnd)) x hx

/-! ### list facts about inserting in front of the last `n` entries -/

theorem insert_split {β : Type} (l X Y P : List β) (n : Nat) (h : l = X ++ Y) (hn : Y.length = n) :
    l.take (l.length - n) ++ P ++ l.drop (l.length - n) = X ++ P ++ Y := by
  subst h; subst hn
  have : (X ++ Y).length - Y.length = X.length := by simp
  rw [this, List.take_left' rfl, List.drop_left' rfl]

theorem filter_insert_flushed (l : List (α × Bool)) (k : Nat) (p : List α) :
    (l.take k ++ p.map (·, false) ++ l.drop k).filter (fun x => x.2) = l.filter (fun x => x.2) := by
  rw [List.filter_append, List.filter_append, filter_flushed_false, List.append_nil, ← List.filter_append,
    List.take_append_drop]

theorem filter_insert_pending (l : List (α × Bool)) (k : Nat) (p : List α) :
    ((l.take k ++ p.map (·, false) ++ l.drop k).filter (fun x => !x.2)).length =
      (l.filter (fun x => !x.2)).length + p.length := by
  rw [List.filter_append, List.filter_append, filter_pending_false]
  conv => rhs; rw [← List.take_append_drop k l, List.filter_append]
  simp only [List.length_append, List.length_map]; omega

theorem takeWhile_append_pending (A B : List (α × Bool)) (hB : ∀ x ∈ B, x.2 = false) :
    (A ++ B).takeWhile (fun x => x.2) = A.takeWhile (fun x => x.2) := by
  induction A with
  | nil =>
    cases B with
    | nil => rfl
    | cons y ys => simp [hB y (List.mem_cons_self ..)]
  | cons x xs ih =>
    cases hx : x.2 <;> simp [hx, ih]

/-- inserting pending entries in front of a pending tail keeps the leading flushed entries -/
theorem takeWhile_insert (l : List (α × Bool)) (k : Nat) (p : List α)
    (h : ∀ x ∈ l.drop k, x.2 = false) :
    (l.take k ++ p.map (·, false) ++ l.drop k).takeWhile (fun x => x.2) = l.takeWhile (fun x => x.2) := by
  rw [List.append_assoc, takeWhile_append_pending]
  · conv => rhs; rw [← List.take_append_drop k l, takeWhile_append_pending _ _ h]
  · intro x hx
    rcases List.mem_append.1 hx with hx | hx
    · obtain ⟨a, _, rfl⟩ := List.mem_map.1 hx; rfl
    · exact h x hx

/-! ### the search for the origin node -/

theorem originLoop_spec (ns : List (Node α)) (m : Nat)
    (hwf : ∀ nd ∈ ns, nd.buf.length + nd.pend.length = nd.malloc) (hm : m ≤ pendSum ns)
    (hne : 0 < m ∨ ns ≠ []) :
    ∃ (k mn : Nat) (nd : Node α), originLoop ns (m : Int) = some (k, (mn : Int)) ∧ ns[k]? = some nd ∧
      mn ≤ nd.pend.length ∧ m = pendSum (ns.take k) + mn := by
  induction ns generalizing m with
  | nil => simp at hm hne; omega
  | cons x xs ih =>
    unfold originLoop
    have hx := Node.pendLen_wf x (hwf x (List.mem_cons_self ..))
    by_cases hlt : x.pendLen < (m : Int)
    · simp only [hlt, if_true]
      have hlt' : x.pend.length < m := by omega
      have e : (m : Int) - x.pendLen = ((m - x.pend.length : Nat) : Int) := by omega
      rw [e]
      obtain ⟨k, mn, nd, e1, e2, e3, e4⟩ := ih (m - x.pend.length)
        (fun nd hnd => hwf nd (List.mem_cons_of_mem _ hnd)) (by simp at hm; omega) (Or.inl (by omega))
      rw [e1]
      exact ⟨k + 1, mn, nd, rfl, by simpa using e2, e3, by simp; omega⟩
    · simp only [hlt, if_false]
      exact ⟨0, m, x, rfl, by simp, by omega, by simp⟩

/-! ### replacing one node behind (or at) `flush` by several -/

theorem Shape.splice {nodes : List (Node α)} {r f w : Nat} (h : Shape nodes r f w false false)
    (oi : Nat) (hfo : f ≤ oi) (hoi : oi < nodes.length) (o' : Node α) (rest : List (Node α))
    (ho : o'.off ≤ o'.buf.length ∧ (f < oi → o'.off = o'.buf.length) ∧
      o'.buf.length + o'.pend.length = o'.malloc ∧ o'.malloc ≤ o'.cap)
    (hrest : ∀ x ∈ rest, x.off = x.buf.length ∧ x.buf.length + x.pend.length = x.malloc ∧ x.malloc ≤ x.cap) :
    Shape (nodes.take oi ++ (o' :: rest) ++ nodes.drop (oi + 1)) r f
      ((nodes.take oi ++ (o' :: rest) ++ nodes.drop (oi + 1)).length - 1) false false := by
  have hlen : (nodes.take oi ++ (o' :: rest) ++ nodes.drop (oi + 1)).length = nodes.length + rest.length := by
    simp; omega
  have htail : ∀ x ∈ rest ++ nodes.drop (oi + 1),
      x.off = x.buf.length ∧ x.buf.length + x.pend.length = x.malloc ∧ x.malloc ≤ x.cap := by
    intro x hx
    rcases List.mem_append.1 hx with hx | hx
    · exact hrest x hx
    · obtain ⟨j, hj⟩ := List.getElem?_of_mem hx
      rw [List.getElem?_drop] at hj
      have hn := h.node _ x hj
      obtain ⟨a1, a2, _⟩ := hn.2.2.2.1 rfl
      exact ⟨hn.2.2.1 rfl (by omega), a1, a2⟩
  refine ⟨h.r_le_f, by rw [hlen]; have := h.f_le; omega, ?_, ?_, by simp⟩
  · intro i nd hi
    have hil : i < nodes.length + rest.length := by
      rw [← hlen]; exact (List.getElem?_eq_some_iff.1 hi).1
    have hw' : ¬ (nodes.take oi ++ (o' :: rest) ++ nodes.drop (oi + 1)).length - 1 < i := by
      rw [hlen]; omega
    rw [List.append_assoc] at hi
    by_cases hio : i < oi
    · rw [List.getElem?_append_left (by simp; omega), List.getElem?_take] at hi
      simp only [hio, if_true] at hi
      have hn := h.node i nd hi
      obtain ⟨a1, a2, _⟩ := hn.2.2.2.1 rfl
      exact ⟨hn.1, hn.2.1, hn.2.2.1, fun _ => ⟨a1, a2, fun hh => absurd hh hw'⟩, by simp⟩
    · rw [List.getElem?_append_right (by simp; omega)] at hi
      simp only [List.length_take, Nat.min_eq_left (Nat.le_of_lt hoi)] at hi
      by_cases hieq : i = oi
      · subst hieq
        simp only [Nat.sub_self, List.cons_append, List.getElem?_cons_zero, Option.some.injEq] at hi
        subst hi
        exact ⟨ho.1, fun hh => by omega, fun _ hh => ho.2.1 hh,
          fun _ => ⟨ho.2.2.1, ho.2.2.2, fun hh => absurd hh hw'⟩, by simp⟩
      · obtain ⟨j, hj⟩ : ∃ j, i - oi = j + 1 := ⟨i - oi - 1, by omega⟩
        rw [hj, List.cons_append, List.getElem?_cons_succ] at hi
        obtain ⟨b1, b2, b3⟩ := htail nd (List.mem_of_getElem? hi)
        exact ⟨by omega, fun hh => by omega, fun _ _ => b1,
          fun _ => ⟨b2, b3, fun hh => absurd hh hw'⟩, by simp⟩
  · intro _
    rw [hlen]; have := h.f_le; omega

/-! ### where the split point lies -/

theorem Shape.wf {nodes : List (Node α)} {r f w : Nat} {app : Bool} (h : Shape nodes r f w false app) :
    ∀ nd ∈ nodes, nd.buf.length + nd.pend.length = nd.malloc := by
  intro nd hnd
  obtain ⟨i, hi⟩ := List.getElem?_of_mem hnd
  exact ((h.node i nd hi).2.2.2.1 rfl).1

/-- `MallocLen` is the number of pending bytes from the flush node on -/
theorem R.mallocSize_eq {b : LB α} {q : Q α} (hR : R b q) {app : Bool}
    (hsh : Shape b.nodes b.r b.f b.w false app) : b.mallocSize = pendSum (b.nodes.drop b.f) := by
  have h1 : b.mallocSize = pendSum (b.nodes.drop b.r) := by
    rw [hR.mlen, ← absL_pending _ (fun nd hnd => hsh.wf nd (List.mem_of_mem_drop hnd)), ← LB.abs_eq, hR.abs]
    rfl
  rw [h1, pendSum_take_drop (b.nodes.drop b.r) (b.f - b.r), List.drop_drop,
    show b.r + (b.f - b.r) = b.f by have := hsh.r_le_f; omega, pendSum_eq_zero, Nat.zero_add]
  intro nd hnd
  obtain ⟨i, hi⟩ := List.getElem?_of_mem hnd
  have hlt : i < b.f - b.r := by
    have := (List.getElem?_eq_some_iff.1 hi).1
    simp at this; omega
  rw [List.getElem?_take, if_pos hlt, List.getElem?_drop] at hi
  exact (hsh.node _ nd hi).2.1 (by omega)

theorem writeDirect_locate {b : LB α} {q : Q α} (hR : R b q)
    (hsh : Shape b.nodes b.r b.f b.w false false) (rn : Nat) (hrn : rn ≤ q.mallocLen) :
    ∃ (k mn : Nat) (origin : Node α), originLoop (b.nodes.drop b.f) ((b.mallocSize : Int) - (rn : Int)) = some (k, (mn : Int)) ∧
      b.nodes[b.f + k]? = some origin ∧ mn ≤ origin.pend.length ∧
      rn + mn = origin.pend.length + pendSum (b.nodes.drop (b.f + k + 1)) := by
  have hM := hR.mallocSize_eq hsh
  have hrn' : rn ≤ b.mallocSize := by rw [hR.mlen]; exact hrn
  have hne : b.nodes.drop b.f ≠ [] := by
    intro h
    have := congrArg List.length h
    have := hsh.wr rfl
    simp at *; omega
  have e : (b.mallocSize : Int) - (rn : Int) = ((b.mallocSize - rn : Nat) : Int) := by omega
  obtain ⟨k, mn, nd, e1, e2, e3, e4⟩ := originLoop_spec (b.nodes.drop b.f) (b.mallocSize - rn)
    (fun nd hnd => hsh.wf nd (List.mem_of_mem_drop hnd)) (by omega) (Or.inr hne)
  refine ⟨k, mn, nd, by rw [e]; exact e1, by rw [List.getElem?_drop] at e2; exact e2, e3, ?_⟩
  have hk : k < (b.nodes.drop b.f).length := (List.getElem?_eq_some_iff.1 e2).1
  have hd : (b.nodes.drop b.f).drop k = nd :: b.nodes.drop (b.f + k + 1) := by
    rw [List.drop_eq_getElem_cons hk, List.drop_drop]
    congr 1
    exact (List.getElem?_eq_some_iff.1 e2).2
  have := pendSum_take_drop (b.nodes.drop b.f) k
  rw [hd, pendSum_cons] at this
  omega

/-! ### the refinement relation after the insertion -/

theorem R.insert {b b' : LB α} {q : Q α} (hR : R b q) (hd : q.dead = false) (hro : q.readOnly = false)
    (happ : q.appSinceFlush = false) (p : List α) (rn k mn : Nat) (origin : Node α)
    (ho : b.nodes[b.f + k]? = some origin) (hmn : mn ≤ origin.pend.length)
    (hrn : rn + mn = origin.pend.length + pendSum (b.nodes.drop (b.f + k + 1)))
    (o' : Node α) (rest : List (Node α))
    (ho1 : o'.off = origin.off) (ho2 : o'.buf = origin.buf)
    (ho3 : o'.buf.length + o'.pend.length = o'.malloc) (ho4 : o'.malloc ≤ o'.cap)
    (hrest : ∀ x ∈ rest, x.off = x.buf.length ∧ x.buf.length + x.pend.length = x.malloc ∧ x.malloc ≤ x.cap)
    (habs : absL (o' :: rest) = origin.readable.map (·, true) ++ (origin.pend.take mn).map (·, false) ++
      p.map (·, false) ++ (origin.pend.drop mn).map (·, false))
    (hnodes : b'.nodes = b.nodes.take (b.f + k) ++ (o' :: rest) ++ b.nodes.drop (b.f + k + 1))
    (hr : b'.r = b.r) (hf : b'.f = b.f) (hw : b'.w = b'.nodes.length - 1)
    (hl : b'.length = b.length) (hm : b'.mallocSize = b.mallocSize + p.length)
    (hc : b'.cachePeek = b.cachePeek) :
    R b' { q with items := q.items.take (q.items.length - rn) ++ p.map (·, false) ++
                            q.items.drop (q.items.length - rn) } := by
  have hsh := hR.shape hd
  rw [hro, happ] at hsh
  have hoi : b.f + k < b.nodes.length := (List.getElem?_eq_some_iff.1 ho).1
  have hno := hsh.node _ origin ho
  obtain ⟨w1, w2, _⟩ := hno.2.2.2.1 rfl
  have hrf := hsh.r_le_f
  have hsplit : b.nodes = b.nodes.take (b.f + k) ++ origin :: b.nodes.drop (b.f + k + 1) := by
    have h1 := List.take_append_drop (b.f + k) b.nodes
    rw [List.drop_eq_getElem_cons hoi, (List.getElem?_eq_some_iff.1 ho).2] at h1
    exact h1.symm
  have hdrop : b.nodes.drop b.r =
      (b.nodes.take (b.f + k)).drop b.r ++ origin :: b.nodes.drop (b.f + k + 1) := by
    rw [← List.drop_append_of_le_length (by simp; omega), ← hsplit]
  have hbehind : ∀ x ∈ b.nodes.drop (b.f + k + 1),
      x.buf.length + x.pend.length = x.malloc ∧ x.off = x.buf.length := by
    intro x hx
    obtain ⟨j, hj⟩ := List.getElem?_of_mem hx
    rw [List.getElem?_drop] at hj
    have hn := hsh.node _ x hj
    exact ⟨(hn.2.2.2.1 rfl).1, hn.2.2.1 rfl (by omega)⟩
  have hT : (absL (b.nodes.drop (b.f + k + 1))).length = pendSum (b.nodes.drop (b.f + k + 1)) :=
    absL_length_behind _ (fun x hx => (hbehind x hx).1) (fun x hx => (hbehind x hx).2)
  have hitems : q.items =
      (absL ((b.nodes.take (b.f + k)).drop b.r) ++ origin.readable.map (·, true) ++
        (origin.pend.take mn).map (·, false)) ++
      ((origin.pend.drop mn).map (·, false) ++ absL (b.nodes.drop (b.f + k + 1))) := by
    rw [← hR.abs, LB.abs_eq, hdrop, absL, List.flatMap_append, List.flatMap_cons, Node.abs_wf origin w1]
    conv => lhs; rw [← List.take_append_drop mn origin.pend, List.map_append]
    simp only [List.append_assoc]
  refine ⟨?_, ?_, ?_, ?_, ?_, hR.flags⟩
  · show b'.abs = _
    rw [insert_split q.items _ _ _ rn hitems (by simp [hT]; omega)]
    rw [LB.abs_eq, hnodes, hr, List.append_assoc, List.drop_append_of_le_length (by simp; omega), absL,
      List.flatMap_append, List.flatMap_append]
    show _ ++ (absL (o' :: rest) ++ _) = _
    rw [habs]
    simp only [List.append_assoc]
  · simp only [Q.len]
    rw [filter_insert_flushed, hl, hR.len]; rfl
  · simp only [Q.mallocLen]
    rw [filter_insert_pending, hm, hR.mlen]; rfl
  · intro _
    show Shape b'.nodes b'.r b'.f b'.w q.readOnly q.appSinceFlush
    rw [hro, happ, hw, hnodes, hr, hf]
    refine hsh.splice (b.f + k) (by omega) hoi o' rest ⟨?_, ?_, ho3, ho4⟩ hrest
    · rw [ho1, ho2]; exact hno.1
    · intro hh; rw [ho1, ho2]; exact hno.2.2.1 rfl hh
  · intro _ c cp hcc
    rw [hc] at hcc
    have := hR.cache hd c cp hcc
    simp only [Q.leadBytes]
    rw [takeWhile_insert]
    · exact this
    · have hlen : q.items.length - rn = (absL ((b.nodes.take (b.f + k)).drop b.r) ++
          origin.readable.map (·, true) ++ (origin.pend.take mn).map (·, false)).length := by
        rw [hitems]; simp only [List.length_append, List.length_map, List.length_drop, hT]; omega
      have hY : q.items.drop (q.items.length - rn) =
          (origin.pend.drop mn).map (·, false) ++ absL (b.nodes.drop (b.f + k + 1)) := by
        rw [hlen, hitems]
        exact List.drop_left' rfl
      rw [hY]
      intro x hx
      rcases List.mem_append.1 hx with hx | hx
      · obtain ⟨a, _, rfl⟩ := List.mem_map.1 hx; rfl
      · exact absL_behind_pending _ (fun x hx => (hbehind x hx).1) (fun x hx => (hbehind x hx).2) x hx

theorem dataNode_abs (cfg : Cfg) (p : List α) (pcap : Nat) :
    Node.abs ({ (newNode cfg 0 : Node α) with malloc := p.length, pend := p, cap := pcap } : Node α) =
      p.map (·, false) := by
  simp [Node.abs, Node.readable, newNode]

theorem writeDirect_refines [DecidableEq α] (cfg : Cfg) {b : LB α} {q : Q α} (hR : R b q) (p : List α)
    (pcap : Nat) (remain : Int) (hC : Contract q (.writeDirect p pcap remain) = true) :
    ∃ b' r, b.writeDirect cfg p pcap remain = some (b', r) ∧
      R b' (specStep q (.writeDirect p pcap remain)).1 ∧
      Matches r (specStep q (.writeDirect p pcap remain)).2 := by
  have hC' : q.dead = false ∧ q.readOnly = false ∧ q.booked = false ∧ q.binSinceFlush = false ∧
      remain ≤ (q.mallocLen : Int) ∧ p.length ≤ pcap := by
    simpa [Contract, and_assoc] using hC
  obtain ⟨hd, hro, hbk, hbin, hrem, hpc⟩ := hC'
  have happ : q.appSinceFlush = false := by
    cases h : q.appSinceFlush with
    | false => rfl
    | true => have := hR.flags h; rw [hbin] at this; cases this
  have hsh := hR.shape hd
  rw [hro, happ] at hsh
  unfold LB.writeDirect
  simp only [specStep]
  have hemp : (p.isEmpty = true) ↔ p.length = 0 := by
    rw [List.isEmpty_iff, List.length_eq_zero_iff]
  by_cases h0 : p.length = 0 ∨ remain < 0
  · have h0' : p.isEmpty = true ∨ remain < 0 := by rw [hemp]; exact h0
    simp only [h0, h0', if_true]
    exact ⟨_, _, rfl, hR, rfl⟩
  · have h0' : ¬ (p.isEmpty = true ∨ remain < 0) := by rw [hemp]; exact h0
    simp only [h0, h0', if_false]
    obtain ⟨rn, rfl⟩ := Int.eq_ofNat_of_zero_le (by omega : 0 ≤ remain)
    obtain ⟨k, mn, origin, e, ho, hmn, hrn⟩ := writeDirect_locate hR hsh rn (by omega)
    rw [e]
    simp only [ho, Int.toNat_natCast]
    have hno := hsh.node _ origin ho
    obtain ⟨w1, w2, _⟩ := hno.2.2.2.1 rfl
    have hneg : ¬ ((mn : Int) + (origin.buf.length : Int) < 0) := by omega
    have hto : (((mn : Int) + (origin.buf.length : Int)).toNat : Nat) = (mn + origin.buf.length : Nat) := by omega
    have hcap : ¬ ((mn + origin.buf.length : Nat) > origin.cap ∧ (rn : Int) > 0) := by omega
    have hw : ¬ b.w ≥ b.nodes.length := by have := hsh.wr rfl; omega
    simp only [hneg, hto, hcap, hw, if_false]
    by_cases hpos : (rn : Int) > 0
    · simp only [hpos, if_true]
      refine ⟨_, _, rfl, ?_, rfl⟩
      refine hR.insert hd hro happ p rn k mn origin ho hmn hrn
        { origin with malloc := mn + origin.buf.length,
                      pend := origin.pend.take (mn + origin.buf.length - origin.buf.length), unmanaged := true }
        [{ (newNode cfg 0 : Node α) with malloc := p.length, pend := p, cap := pcap },
         { buf := (origin.buf ++ origin.pend).take (mn + origin.buf.length), off := mn + origin.buf.length,
           malloc := origin.malloc, pend := (origin.buf ++ origin.pend).drop (mn + origin.buf.length),
           cap := origin.cap, unmanaged := origin.unmanaged }]
        rfl rfl ?_ ?_ ?_ ?_ rfl rfl rfl rfl rfl rfl rfl
      · simp only [List.length_take]; omega
      · show mn + origin.buf.length ≤ origin.cap
        omega
      · intro x hx
        simp only [List.mem_cons, List.not_mem_nil, or_false] at hx
        rcases hx with rfl | rfl
        · simp [newNode]; exact hpc
        · simp only [List.length_take, List.length_drop, List.length_append]
          omega
      · simp only [absL_cons, absL_nil, List.append_nil, dataNode_abs]
        have e1 : mn + origin.buf.length - origin.buf.length = mn := by omega
        have e2 : (origin.buf ++ origin.pend).drop (mn + origin.buf.length) = origin.pend.drop mn := by
          rw [Nat.add_comm, ← List.drop_drop, List.drop_left' rfl]
        have e3 : (origin.buf ++ origin.pend).take (mn + origin.buf.length) =
            origin.buf ++ origin.pend.take mn := by
          rw [Nat.add_comm, List.take_append, List.take_of_length_le (by omega)]
          congr 2; omega
        simp only [Node.abs, Node.readable, e1, e2, e3]
        have e4 : (origin.buf ++ origin.pend.take mn).drop (mn + origin.buf.length) = [] :=
          List.drop_eq_nil_of_le (by simp only [List.length_append, List.length_take]; omega)
        have e5 : (origin.pend.drop mn).take (origin.malloc - (origin.buf ++ origin.pend.take mn).length) =
            origin.pend.drop mn :=
          List.take_of_length_le (by simp only [List.length_append, List.length_take, List.length_drop]; omega)
        rw [e4, e5, List.take_take, Nat.min_self]
        simp only [List.map_nil, List.nil_append, List.append_assoc]
    · simp only [hpos, if_false]
      refine ⟨_, _, rfl, ?_, rfl⟩
      refine hR.insert hd hro happ p rn k mn origin ho hmn hrn origin
        [{ (newNode cfg 0 : Node α) with malloc := p.length, pend := p, cap := pcap }]
        rfl rfl w1 w2 ?_ ?_ rfl rfl rfl rfl rfl rfl rfl
      · intro x hx
        simp only [List.mem_cons, List.not_mem_nil, or_false] at hx
        subst hx
        simp [newNode]; exact hpc
      · have hmn' : mn = origin.pend.length := by omega
        simp only [absL_cons, absL_nil, List.append_nil, dataNode_abs, Node.abs_wf origin w1, hmn',
          List.take_length, List.drop_length, List.map_nil, List.append_nil]

end Netpoll.Buf
