import Netpoll.Buf.Refine.WriteLib
/-
Malloc, WriteByte, WriteBinary.
-/
namespace Netpoll.Buf

variable {α : Type}

/-- append an empty fresh node at the end; it becomes the write node -/
theorem Shape.snoc {nodes : List (Node α)} {r f w app} (h : Shape nodes r f w false app) (x : Node α)
    (hb : x.buf = []) (ho : x.off = 0) (hp : x.pend = []) (hm : x.malloc = 0) :
    Shape (nodes ++ [x]) r f nodes.length false app := by
  have hw := h.wr rfl
  refine ⟨h.r_le_f, by simp; omega, ?_, fun _ => ⟨by omega, by simp⟩, fun h => by cases h⟩
  intro i nd hi
  by_cases hil : i < nodes.length
  · rw [List.getElem?_append_left hil] at hi
    have hn := h.node i nd hi
    obtain ⟨a1, a2, a3⟩ := hn.2.2.2.1 rfl
    exact ⟨hn.1, hn.2.1, hn.2.2.1, fun _ => ⟨a1, a2, fun hh => by omega⟩, hn.2.2.2.2⟩
  · rw [List.getElem?_append_right (by omega)] at hi
    have : i - nodes.length = 0 := by
      rcases List.getElem?_eq_some_iff.1 hi with ⟨hh, _⟩; simp at hh; omega
    rw [this] at hi; simp at hi; subst hi
    exact NodeInv.of_empty (by simp [hb, ho]) hp (by simp [hb, hm]) (by omega)

theorem filter_flushed_append_pending (l : List (α × Bool)) (d : List α) :
    (l ++ d.map (·, false)).filter (·.2) = l.filter (·.2) ∧
    ((l ++ d.map (·, false)).filter (! ·.2)).length = (l.filter (! ·.2)).length + d.length := by
  constructor
  · rw [List.filter_append]
    have : (d.map (·, false)).filter (·.2) = [] := by
      apply List.filter_eq_nil_iff.2; intro x hx
      obtain ⟨a, _, rfl⟩ := List.mem_map.1 hx; simp
    rw [this]; simp
  · rw [List.filter_append, List.length_append]
    have : (d.map (·, false)).filter (! ·.2) = d.map (·, false) := by
      apply List.filter_eq_self.2; intro x hx
      obtain ⟨a, _, rfl⟩ := List.mem_map.1 hx; simp
    rw [this]; simp

/-- growth + fill: the common core of Malloc, WriteByte and the in-place branch of WriteBinary -/
theorem malloc_core (cfg : Cfg) {b : LB α} {q : Q α} (hR : R b q) (hd : q.dead = false) (hro : q.readOnly = false)
    (d : List α) (hn : 0 < d.length) (bin : Bool) (hbin : q.appSinceFlush = true → bin = true) :
    ∃ g nd, ({ b with mallocSize := b.mallocSize + d.length } : LB α).growth cfg d.length = some g ∧
      g.nodes[g.w]? = some nd ∧
      R { g with nodes := g.nodes.set g.w (nd.mallocFill d) }
        { q with items := q.items ++ d.map (·, false), binSinceFlush := bin } := by
  have hsh := hR.shape hd
  rw [hro] at hsh
  have hw := hsh.wr rfl
  have hrf := hsh.r_le_f
  have hfl := hsh.f_le
  have hne : b.nodes.drop b.w ≠ [] := by
    intro h; have := congrArg List.length h; simp at this; omega
  obtain ⟨j, nd, e1, e2, e3, e4, e5⟩ := growthLoop_spec cfg d.length hn (b.nodes.drop b.w) b.w hne
  have hn0 : d.length ≠ 0 := by omega
  -- the chain after growth
  have hG : ∃ G, ({ b with mallocSize := b.mallocSize + d.length } : LB α).growth cfg d.length =
        some { b with mallocSize := b.mallocSize + d.length, nodes := G, w := b.w + j } ∧
      G[b.w + j]? = some nd ∧ Shape G b.r b.f (b.w + j) false q.appSinceFlush ∧
      absL (G.drop b.r) = absL (b.nodes.drop b.r) := by
    refine ⟨spliceFrom b.nodes b.w (growthLoop cfg d.length (b.nodes.drop b.w) b.w).1, ?_, ?_, ?_, ?_⟩
    · unfold LB.growth
      simp only [hn0, if_false]
      rw [← e1]
    · simp only [spliceFrom]
      rw [List.getElem?_append_right (by simp; omega)]
      simp only [List.length_take, Nat.min_eq_left (Nat.le_of_lt hw.2)]
      rw [show b.w + j - b.w = j by omega]; exact e3
    · rcases e2 with ⟨a, hj⟩ | ⟨a, hj⟩
      · simp only [spliceFrom, a, List.take_append_drop]
        simp at hj
        exact hsh.mono_w _ (by omega) (by omega)
      · simp only [spliceFrom, a]
        rw [← List.append_assoc, List.take_append_drop]
        obtain ⟨n1, n2, n3, n4, _, _⟩ := newNode_pos (α := α) cfg d.length hn
        simp at hj
        rw [show b.w + j = b.nodes.length by omega]
        exact hsh.snoc _ n1 n2 n4 n3
    · rcases e2 with ⟨a, hj⟩ | ⟨a, hj⟩
      · simp only [spliceFrom, a, List.take_append_drop]
      · simp only [spliceFrom, a]
        rw [← List.append_assoc, List.take_append_drop]
        rw [List.drop_append_of_le_length (by omega)]
        obtain ⟨n1, n2, n3, n4, _, _⟩ := newNode_pos (α := α) cfg d.length hn
        simp [absL, Node.abs, Node.readable, n1, n4]
  obtain ⟨G, eG, hGw, hGs, hGa⟩ := hG
  refine ⟨_, nd, eG, hGw, ?_⟩
  have hlt : b.w + j < G.length := (List.getElem?_eq_some_iff.1 hGw).1
  have hdrop : G.drop (b.w + j) = nd :: G.drop (b.w + j + 1) := by
    rw [List.drop_eq_getElem_cons hlt]
    congr 1
    exact (List.getElem?_eq_some_iff.1 hGw).2
  have hnd := hGs.node _ nd hGw
  obtain ⟨a1, a2, a3⟩ := hnd.2.2.2.1 rfl
  obtain ⟨f1, f2⟩ := filter_flushed_append_pending q.items d
  refine ⟨?_, ?_, ?_, ?_, ?_, hbin⟩
  · show absL ((G.set (b.w + j) (nd.mallocFill d)).drop b.r) = q.items ++ d.map (·, false)
    rw [absL_set_tail (by omega) hdrop (hGs.tail_nil _ (by omega)) (extra := d.map (·, false)), hGa, ← LB.abs_eq, hR.abs]
    rw [Node.abs_wr nd a1, Node.abs_wr (nd.mallocFill d) (by simp [Node.mallocFill]; omega)]
    simp [Node.mallocFill, Node.readable]
  · show b.length = _
    simp only [Q.len, f1]; exact hR.len
  · show b.mallocSize + d.length = _
    simp only [Q.mallocLen, f2]; rw [hR.mlen]; rfl
  · intro _
    show Shape (G.set (b.w + j) (nd.mallocFill d)) b.r b.f (b.w + j) q.readOnly q.appSinceFlush
    rw [hro]
    apply hGs.set
    refine ⟨hnd.1, fun h => by omega, hnd.2.2.1, fun _ => ⟨?_, ?_, fun h => by omega⟩, fun h => by cases h⟩
    · simp [Node.mallocFill]; omega
    · simp only [Node.mallocFill]; omega
  · intro _ c cp hc
    exact leadBytes_prefix_append q _ c (hR.cache hd c cp hc)

theorem malloc_refines [DecidableEq α] (cfg : Cfg) {b : LB α} {q : Q α} (hR : R b q) (n : Int) (d : List α)
    (hC : Contract q (.malloc n d) = true) :
    ∃ b' r, b.malloc cfg n d = some (b', r) ∧ R b' (specStep q (.malloc n d)).1 ∧
      Matches r (specStep q (.malloc n d)).2 := by
  simp only [Contract, Bool.and_eq_true, Bool.not_eq_true', decide_eq_true_eq] at hC
  obtain ⟨⟨⟨hd, hro⟩, _⟩, hdl⟩ := hC
  unfold LB.malloc
  simp only [specStep]
  by_cases h0 : n ≤ 0
  · simp only [h0, if_true]; exact ⟨_, _, rfl, hR, rfl⟩
  · simp only [h0, if_false]
    rw [← hdl]
    obtain ⟨g, nd, e1, e2, hR'⟩ := malloc_core cfg hR hd hro d (by omega) q.binSinceFlush hR.flags
    rw [e1]; simp only [e2]
    exact ⟨_, _, rfl, hR', rfl⟩

theorem writeByte_refines [DecidableEq α] (cfg : Cfg) {b : LB α} {q : Q α} (hR : R b q) (a : α)
    (hC : Contract q (.writeByte a) = true) :
    ∃ b' r, b.malloc cfg 1 [a] = some (b', r) ∧ R b' (specStep q (.writeByte a)).1 ∧
      Matches r (specStep q (.writeByte a)).2 := by
  simp only [Contract, Bool.and_eq_true, Bool.not_eq_true'] at hC
  obtain ⟨⟨hd, hro⟩, _⟩ := hC
  unfold LB.malloc
  simp only [specStep]
  have h0 : ¬ (1 : Int) ≤ 0 := by omega
  simp only [h0, if_false]
  obtain ⟨g, nd, e1, e2, hR'⟩ := malloc_core cfg hR hd hro [a] (by simp) q.binSinceFlush hR.flags
  have e1' : ({ b with mallocSize := b.mallocSize + (1 : Int).toNat } : LB α).growth cfg (1 : Int).toNat = some g := e1
  rw [e1']; simp only [e2]
  exact ⟨_, _, rfl, hR', rfl⟩

theorem writeBinary_refines [DecidableEq α] (cfg : Cfg) {b : LB α} {q : Q α} (hR : R b q) (p : List α) (pcap : Nat)
    (hC : Contract q (.writeBinary p pcap) = true) :
    ∃ b' r, b.writeBinary cfg p pcap = some (b', r) ∧ R b' (specStep q (.writeBinary p pcap)).1 ∧
      Matches r (specStep q (.writeBinary p pcap)).2 := by
  simp only [Contract, Bool.and_eq_true, Bool.not_eq_true', decide_eq_true_eq] at hC
  obtain ⟨⟨⟨hd, hro⟩, _⟩, hcap⟩ := hC
  unfold LB.writeBinary
  simp only [specStep]
  by_cases h0 : p.length = 0
  · have : p = [] := List.eq_nil_of_length_eq_zero h0
    subst this
    simp only [List.length_nil, if_true, List.isEmpty_nil]
    exact ⟨_, _, rfl, hR, rfl⟩
  · have hne : p.isEmpty = false := by cases p <;> simp at h0 ⊢
    simp only [h0, if_false, hne, Bool.false_eq_true]
    by_cases hbig : p.length > cfg.inplace
    · simp only [hbig, if_true]
      have hsh := hR.shape hd
      rw [hro] at hsh
      have hw := hsh.wr rfl
      have hrf := hsh.r_le_f
      have : ¬ b.w ≥ b.nodes.length := by omega
      simp only [this, if_false]
      refine ⟨_, _, rfl, ?_, rfl⟩
      obtain ⟨f1, f2⟩ := filter_flushed_append_pending q.items p
      refine ⟨?_, ?_, ?_, ?_, ?_, fun _ => rfl⟩
      · show absL ((b.nodes.take (b.w + 1) ++ [_]).drop b.r) = q.items ++ p.map (·, false)
        rw [List.drop_append_of_le_length (by simp; omega)]
        have e : absL (b.nodes.drop b.r) = absL ((b.nodes.take (b.w + 1)).drop b.r) := by
          conv => lhs; rw [← List.take_append_drop (b.w + 1) b.nodes]
          rw [List.drop_append_of_le_length (by simp; omega)]
          simp only [absL, List.flatMap_append]
          have := hsh.tail_nil (b.w + 1) (by omega)
          simp only [absL] at this
          rw [this]; simp
        simp only [absL, List.flatMap_append] at e ⊢
        rw [← e]
        have := hR.abs
        rw [LB.abs_eq] at this
        simp only [absL] at this
        rw [this]
        simp [newNode_zero, Node.abs, Node.readable]
      · show b.length = _
        simp only [Q.len, f1]; exact hR.len
      · show b.mallocSize + p.length = _
        simp only [Q.mallocLen, f2]; rw [hR.mlen]; rfl
      · intro _
        show Shape (b.nodes.take (b.w + 1) ++ [_]) b.r b.f (b.w + 1) q.readOnly q.appSinceFlush
        rw [hro]
        apply hsh.cut_append [_] (by simp) id
        intro j y hj
        cases j with
        | zero =>
          simp at hj; subst hj
          simp only [newNode_zero]
          exact ⟨by simp, fun h => by omega, fun _ _ => by simp, fun _ => ⟨by simp, by simpa using hcap, fun h => by simp at h⟩,
            fun h => by cases h⟩
        | succ j => simp at hj
      · intro _ c cp hc
        exact leadBytes_prefix_append q _ c (hR.cache hd c cp hc)
    · simp only [hbig, if_false]
      obtain ⟨g, nd, e1, e2, hR'⟩ := malloc_core cfg hR hd hro p (by omega) true (fun _ => rfl)
      rw [e1]; simp only [e2]
      exact ⟨_, _, rfl, hR', rfl⟩

end Netpoll.Buf
