import Netpoll.Buf.Refine.Release
import Netpoll.Buf.Refine.WriteLib
/-
Close, resetTail, book/bookAck.
-/
namespace Netpoll.Buf

variable {α : Type}

theorem close_refines [DecidableEq α] (cfg : Cfg) {b : LB α} {q : Q α} (hR : R b q) (hC : Contract q .close = true) :
    ∃ b' r, b.step cfg .close = some (b', r) ∧ R b' (specStep q .close).1 ∧ Matches r (specStep q .close).2 := by
  have hd : q.dead = false := by simpa [Contract] using hC
  have hsh := hR.shape hd
  obtain ⟨r', e, _, _, _⟩ := release_eq ({ b with length := 0, mallocSize := 0 } : LB α) hsh
  simp only [LB.step, LB.close]
  rw [e]
  refine ⟨_, _, rfl, ?_, rfl⟩
  simp only [specStep]
  refine ⟨rfl, rfl, rfl, fun h => (by cases h), fun h => (by cases h), hR.flags⟩

/-! ### helpers on the chain invariant of a writable buffer -/

theorem absL_eq_nil {ns : List (Node α)} (h : ∀ nd ∈ ns, nd.abs = []) : absL ns = [] := by
  simp only [absL, List.flatMap_eq_nil_iff]; exact h

theorem absL_append (as bs : List (Node α)) : absL (as ++ bs) = absL as ++ absL bs := by
  simp [absL, List.flatMap_append]

/-- nodes behind the write node are abstractly empty -/
theorem Shape.absL_behind_w {nodes : List (Node α)} {r f w app} (h : Shape nodes r f w false app) :
    absL (nodes.drop (w + 1)) = [] := by
  apply absL_eq_nil
  intro nd hnd
  obtain ⟨i, hi⟩ := List.getElem?_of_mem hnd
  rw [List.getElem?_drop] at hi
  obtain ⟨h1, h2⟩ := ((h.node _ nd hi).2.2.2.1 rfl).2.2 (by omega)
  exact Node.abs_nil nd (by simp [Node.len, h1]) h2

/-- cutting the chain behind the write node does not change what it denotes -/
theorem Shape.absL_take_w {nodes : List (Node α)} {r f w app} (h : Shape nodes r f w false app) :
    absL ((nodes.take (w + 1)).drop r) = absL (nodes.drop r) := by
  obtain ⟨h1, h2⟩ := h.wr rfl
  have hr := h.r_le_f
  conv => rhs; rw [← List.take_append_drop (w + 1) nodes]
  rw [List.drop_append_of_le_length (by simp; omega), absL_append, h.absL_behind_w, List.append_nil]

/-- if the abstract content has no pending entry, no node of the suffix has pending bytes -/
theorem pend_nil_of_no_pending {ns : List (Node α)} (h : (absL ns).filter (! ·.2) = [])
    (hm : ∀ nd ∈ ns, nd.buf.length + nd.pend.length = nd.malloc) : ∀ nd ∈ ns, nd.pend = [] := by
  intro nd hnd
  cases hp : nd.pend with
  | nil => rfl
  | cons p ps =>
    exfalso
    have hm' := hm nd hnd
    rw [hp] at hm'
    simp only [List.length_cons] at hm'
    have e : nd.malloc - nd.buf.length = ps.length + 1 := by omega
    have hmem : (p, false) ∈ absL ns := by
      simp only [absL, List.mem_flatMap]
      exact ⟨nd, hnd, by simp [Node.abs, hp, e]⟩
    have := List.filter_eq_nil_iff.1 h _ hmem
    simp at this

/-- `MallocLen() = 0`: no node of the chain has pending bytes -/
theorem Shape.pend_nil {nodes : List (Node α)} {r f w app} (h : Shape nodes r f w false app)
    (h0 : (absL (nodes.drop r)).filter (! ·.2) = []) :
    ∀ (i : Nat) (nd : Node α), nodes[i]? = some nd → nd.pend = [] := by
  intro i nd hi
  by_cases hir : i < r
  · exact (h.node i nd hi).2.1 (by have := h.r_le_f; omega)
  · apply pend_nil_of_no_pending h0
    · intro x hx
      obtain ⟨j, hj⟩ := List.getElem?_of_mem hx
      rw [List.getElem?_drop] at hj
      exact ((h.node _ x hj).2.2.2.1 rfl).1
    · apply List.mem_of_getElem? (i := i - r)
      rw [List.getElem?_drop, show r + (i - r) = i by omega]; exact hi

theorem R.no_pending {b : LB α} {q : Q α} (hR : R b q) (h0 : q.mallocLen = 0) :
    (absL (b.nodes.drop b.r)).filter (! ·.2) = [] := by
  have : b.abs = q.items := hR.abs
  rw [LB.abs_eq] at this
  rw [this]
  exact List.eq_nil_of_length_eq_zero h0

/-! ### resetTail -/

theorem resetTail_refines [DecidableEq α] (cfg : Cfg) {b : LB α} {q : Q α} (hR : R b q) (maxSize : Nat)
    (hC : Contract q (.resetTail maxSize) = true) :
    ∃ b' r, b.step cfg (.resetTail maxSize) = some (b', r) ∧ R b' (specStep q (.resetTail maxSize)).1 ∧
      Matches r (specStep q (.resetTail maxSize)).2 := by
  simp only [Contract, Bool.and_eq_true, Bool.not_eq_true', decide_eq_true_eq] at hC
  obtain ⟨⟨⟨hd, hro⟩, happ⟩, hm0⟩ := hC
  have hsh := hR.shape hd
  rw [hro, happ] at hsh
  simp only [LB.step, LB.resetTail, specStep]
  by_cases hp : maxSize ≤ cfg.pagesize
  · simp only [hp, if_true, Option.map_some]
    exact ⟨_, _, rfl, ⟨hR.abs, hR.len, hR.mlen, hR.shape, hR.cache, hR.flags⟩, rfl⟩
  · obtain ⟨hfw, hwl⟩ := hsh.wr rfl
    have hw : ¬ b.w ≥ b.nodes.length := by omega
    simp only [hp, hw, if_false, Option.map_some]
    refine ⟨_, _, rfl, ⟨?_, hR.len, hR.mlen, ?_, hR.cache, hR.flags⟩, rfl⟩
    · show absL ((b.nodes.take (b.w + 1) ++ [newNode cfg 0]).drop b.r) = q.items
      have hr := hsh.r_le_f
      rw [List.drop_append_of_le_length (by simp; omega), absL_append, hsh.absL_take_w, newNode_zero]
      have : b.abs = q.items := hR.abs
      rw [LB.abs_eq] at this
      simp [this, Node.abs, Node.readable]
    · intro _
      show Shape (b.nodes.take (b.w + 1) ++ [newNode cfg 0]) b.r (b.w + 1) (b.w + 1) q.readOnly q.appSinceFlush
      rw [hro, happ]
      have hpn := hsh.pend_nil (hR.no_pending hm0)
      have hlen : (b.nodes.take (b.w + 1)).length = b.w + 1 := by simp; omega
      refine ⟨by have := hsh.r_le_f; omega, by simp; omega, ?_, fun _ => ⟨Nat.le_refl _, by simp; omega⟩,
        fun h => by cases h⟩
      intro i nd hi
      by_cases hiw : i < b.w + 1
      · rw [List.getElem?_append_left (by omega), List.getElem?_take] at hi
        simp only [hiw, if_true] at hi
        have hn := hsh.node i nd hi
        obtain ⟨a1, a2, _⟩ := hn.2.2.2.1 rfl
        exact ⟨hn.1, fun _ => hpn i nd hi, fun _ hh => by omega, fun _ => ⟨a1, a2, fun hh => by omega⟩,
          fun h => by cases h⟩
      · rw [List.getElem?_append_right (by omega), hlen, newNode_zero] at hi
        have : i - (b.w + 1) = 0 := by
          rcases List.getElem?_eq_some_iff.1 hi with ⟨hh, _⟩; simpa using hh
        rw [this] at hi
        simp at hi; subst hi
        simp

end Netpoll.Buf
