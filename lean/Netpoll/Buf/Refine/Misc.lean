import Netpoll.Buf.Refine.Release
import Netpoll.Buf.Refine.WriteLib
/-
Close, resetTail, book/bookAck.
-/
namespace Netpoll.Buf

variable {α : Type}

theorem close_refines [DecidableEq α] (cfg : Cfg) {b : LB α} {q : Q α} (hR : R b q) (hC : Contract q .close = true) :
    ∃ b' r, b.step cfg .close = some (b', r) ∧ R b' (specStep q .close).1 ∧ Matches r (specStep q .close).2 := by
  have hd : q.dead = false := by simpa [Contract] using hC
  have hsh := hR.shape hd
  obtain ⟨r', e, _, _, _⟩ := release_eq ({ b with length := 0, mallocSize := 0 } : LB α) hsh
  simp only [LB.step, LB.close]
  rw [e]
  refine ⟨_, _, rfl, ?_, rfl⟩
  simp only [specStep]
  refine ⟨rfl, rfl, rfl, fun h => (by cases h), fun h => (by cases h), hR.flags⟩

/-! ### helpers on the chain invariant of a writable buffer -/

theorem absL_eq_nil {ns : List (Node α)} (h : ∀ nd ∈ ns, nd.abs = []) : absL ns = [] := by
  simp only [absL, List.flatMap_eq_nil_iff]; exact h

theorem absL_append (as bs : List (Node α)) : absL (as ++ bs) = absL as ++ absL bs := by
  simp [absL, List.flatMap_append]

/-- nodes behind the write node are abstractly empty -/
theorem Shape.absL_behind_w {nodes : List (Node α)} {r f w app} (h : Shape nodes r f w false app) :
    absL (nodes.drop (w + 1)) = [] := by
  apply absL_eq_nil
  intro nd hnd
  obtain ⟨i, hi⟩ := List.getElem?_of_mem hnd
  rw [List.getElem?_drop] at hi
  obtain ⟨h1, h2⟩ := ((h.node _ nd hi).2.2.2.1 rfl).2.2 (by omega)
  exact Node.abs_nil nd (by simp [Node.len, h1]) h2

/-- cutting the chain behind the write node does not change what it denotes -/
theorem Shape.absL_take_w {nodes : List (Node α)} {r f w app} (h : Shape nodes r f w false app) :
    absL ((nodes.take (w + 1)).drop r) = absL (nodes.drop r) := by
  obtain ⟨h1, h2⟩ := h.wr rfl
  have hr := h.r_le_f
  conv => rhs; rw [← List.take_append_drop (w + 1) nodes]
  rw [List.drop_append_of_le_length (by simp; omega), absL_append, h.absL_behind_w, List.append_nil]

/-- if the abstract content has no pending entry, no node of the suffix has pending bytes -/
theorem pend_nil_of_no_pending {ns : List (Node α)} (h : (absL ns).filter (! ·.2) = [])
    (hm : ∀ nd ∈ ns, nd.buf.length + nd.pend.length = nd.malloc) : ∀ nd ∈ ns, nd.pend = [] := by
  intro nd hnd
  cases hp : nd.pend with
  | nil => rfl
  | cons p ps =>
    exfalso
    have hm' := hm nd hnd
    rw [hp] at hm'
    simp only [List.length_cons] at hm'
    have e : nd.malloc - nd.buf.length = ps.length + 1 := by omega
    have hmem : (p, false) ∈ absL ns := by
      simp only [absL, List.mem_flatMap]
      exact ⟨nd, hnd, by simp [Node.abs, hp, e]⟩
    have := List.filter_eq_nil_iff.1 h _ hmem
    simp at this

/-- `MallocLen() = 0`: no node of the chain has pending bytes -/
theorem Shape.pend_nil {nodes : List (Node α)} {r f w app} (h : Shape nodes r f w false app)
    (h0 : (absL (nodes.drop r)).filter (! ·.2) = []) :
    ∀ (i : Nat) (nd : Node α), nodes[i]? = some nd → nd.pend = [] := by
  intro i nd hi
  by_cases hir : i < r
  · exact (h.node i nd hi).2.1 (by have := h.r_le_f; omega)
  · apply pend_nil_of_no_pending h0
    · intro x hx
      obtain ⟨j, hj⟩ := List.getElem?_of_mem hx
      rw [List.getElem?_drop] at hj
      exact ((h.node _ x hj).2.2.2.1 rfl).1
    · apply List.mem_of_getElem? (i := i - r)
      rw [List.getElem?_drop, show r + (i - r) = i by omega]; exact hi

theorem R.no_pending {b : LB α} {q : Q α} (hR : R b q) (h0 : q.mallocLen = 0) :
    (absL (b.nodes.drop b.r)).filter (! ·.2) = [] := by
  have : b.abs = q.items := hR.abs
  rw [LB.abs_eq] at this
  rw [this]
  exact List.eq_nil_of_length_eq_zero h0

/-! ### resetTail -/

theorem resetTail_refines [DecidableEq α] (cfg : Cfg) {b : LB α} {q : Q α} (hR : R b q) (maxSize : Nat)
    (hC : Contract q (.resetTail maxSize) = true) :
    ∃ b' r, b.step cfg (.resetTail maxSize) = some (b', r) ∧ R b' (specStep q (.resetTail maxSize)).1 ∧
      Matches r (specStep q (.resetTail maxSize)).2 := by
  simp only [Contract, Bool.and_eq_true, Bool.not_eq_true', decide_eq_true_eq] at hC
  obtain ⟨⟨⟨hd, hro⟩, happ⟩, hm0⟩ := hC
  have hsh := hR.shape hd
  rw [hro, happ] at hsh
  simp only [LB.step, LB.resetTail, specStep]
  by_cases hp : maxSize ≤ cfg.pagesize
  · simp only [hp, if_true, Option.map_some]
    exact ⟨_, _, rfl, ⟨hR.abs, hR.len, hR.mlen, hR.shape, hR.cache, hR.flags⟩, rfl⟩
  · obtain ⟨hfw, hwl⟩ := hsh.wr rfl
    have hw : ¬ b.w ≥ b.nodes.length := by omega
    simp only [hp, hw, if_false, Option.map_some]
    refine ⟨_, _, rfl, ⟨?_, hR.len, hR.mlen, ?_, hR.cache, hR.flags⟩, rfl⟩
    · show absL ((b.nodes.take (b.w + 1) ++ [newNode cfg 0]).drop b.r) = q.items
      have hr := hsh.r_le_f
      rw [List.drop_append_of_le_length (by simp; omega), absL_append, hsh.absL_take_w, newNode_zero]
      have : b.abs = q.items := hR.abs
      rw [LB.abs_eq] at this
      simp [this, Node.abs, Node.readable]
    · intro _
      show Shape (b.nodes.take (b.w + 1) ++ [newNode cfg 0]) b.r (b.w + 1) (b.w + 1) q.readOnly q.appSinceFlush
      rw [hro, happ]
      have hpn := hsh.pend_nil (hR.no_pending hm0)
      have hlen : (b.nodes.take (b.w + 1)).length = b.w + 1 := by simp; omega
      refine ⟨by have := hsh.r_le_f; omega, by simp; omega, ?_, fun _ => ⟨Nat.le_refl _, by simp; omega⟩,
        fun h => by cases h⟩
      intro i nd hi
      by_cases hiw : i < b.w + 1
      · rw [List.getElem?_append_left (by omega), List.getElem?_take] at hi
        simp only [hiw, if_true] at hi
        have hn := hsh.node i nd hi
        obtain ⟨a1, a2, _⟩ := hn.2.2.2.1 rfl
        exact ⟨hn.1, fun _ => hpn i nd hi, fun _ hh => by omega, fun _ => ⟨a1, a2, fun hh => by omega⟩,
          fun h => by cases h⟩
      · rw [List.getElem?_append_right (by omega), hlen, newNode_zero] at hi
        have : i - (b.w + 1) = 0 := by
          rcases List.getElem?_eq_some_iff.1 hi with ⟨hh, _⟩; simpa using hh
        rw [this] at hi
        simp at hi; subst hi
        simp

/-! ### book / bookAck -/

/-- a fresh node is empty; it has room for `size` bytes -/
theorem newNode_fresh (cfg : Cfg) (size : Nat) :
    (newNode cfg size : Node α).buf = [] ∧ (newNode cfg size : Node α).off = 0 ∧
    (newNode cfg size : Node α).pend = [] ∧ (newNode cfg size : Node α).malloc = 0 ∧
    (0 < size → size ≤ (newNode cfg size : Node α).cap) := by
  by_cases h : size = 0
  · subst h; rw [newNode_zero]; simp
  · obtain ⟨n1, n2, n3, n4, _, n6⟩ := newNode_pos (α := α) cfg size (by omega)
    exact ⟨n1, n2, n4, n3, fun _ => n6⟩

/-- linking an empty node behind the write node and making it the write node -/
theorem Shape.push {nodes : List (Node α)} {r f w app} (h : Shape nodes r f w false app) (nn : Node α)
    (n1 : nn.buf = []) (n2 : nn.off = 0) (n3 : nn.pend = []) (n4 : nn.malloc = 0) :
    Shape (nodes.take (w + 1) ++ [nn]) r f (w + 1) false app ∧
    absL ((nodes.take (w + 1) ++ [nn]).drop r) = absL (nodes.drop r) ∧
    (nodes.take (w + 1) ++ [nn])[w + 1]? = some nn := by
  obtain ⟨hfw, hwl⟩ := h.wr rfl
  have hr := h.r_le_f
  have hlen : (nodes.take (w + 1)).length = w + 1 := by simp; omega
  refine ⟨h.cut_append [nn] (by simp) id ?_, ?_, ?_⟩
  · intro j y hj
    have : j = 0 := by
      rcases List.getElem?_eq_some_iff.1 hj with ⟨hh, _⟩; simpa using hh
    subst this
    simp at hj; subst hj
    exact NodeInv.of_empty (by rw [n1, n2]; rfl) n3 (by rw [n1, n4]; rfl) (by omega)
  · rw [List.drop_append_of_le_length (by omega), absL_append, h.absL_take_w]
    simp [Node.abs, Node.readable, n1, n3]
  · rw [List.getElem?_append_right (by omega), hlen]; simp

/-- `bookAck(len d')` on the write node of which `l ≥ len d'` bytes were booked, when nothing is pending -/
theorem bookAck_core (b1 : LB α) (wn : Node α) (l : Nat) (d' : List α)
    (hsh : Shape b1.nodes b1.r b1.f b1.w false false)
    (hpn : ∀ (i : Nat) (nd : Node α), b1.nodes[i]? = some nd → nd.pend = [])
    (hwn : b1.nodes[b1.w]? = some wn) (hcap : wn.malloc + l ≤ wn.cap) (hd' : d'.length ≤ l) :
    ∃ b' r, ({ b1 with nodes := b1.nodes.set b1.w { wn with malloc := wn.malloc + l } } : LB α).bookAck d'
        = some (b', r) ∧
      absL (b'.nodes.drop b'.r) = absL (b1.nodes.drop b1.r) ++ d'.map (·, true) ∧
      b'.length = b1.length + d'.length ∧ b'.mallocSize = b1.mallocSize ∧ b'.cachePeek = b1.cachePeek ∧
      Shape b'.nodes b'.r b'.f b'.w false false := by
  obtain ⟨hfw, hwl⟩ := hsh.wr rfl
  have hrf := hsh.r_le_f
  have hn := hsh.node _ wn hwn
  obtain ⟨a1, a2, _⟩ := hn.2.2.2.1 rfl
  have hp := hpn _ _ hwn
  rw [hp] at a1
  simp only [List.length_nil, Nat.add_zero] at a1
  unfold LB.bookAck
  simp only [List.getElem?_set_self hwl]
  have hc : ¬ d'.length + wn.buf.length > wn.cap := by omega
  simp only [hc, if_false, List.set_set, hp, List.nil_append, List.take_length]
  refine ⟨_, _, rfl, ?_, rfl, rfl, rfl, ?_⟩
  · obtain ⟨_, hget⟩ := List.getElem?_eq_some_iff.1 hwn
    have hd : b1.nodes.drop b1.w = wn :: b1.nodes.drop (b1.w + 1) := by
      rw [List.drop_eq_getElem_cons hwl, hget]
    show absL ((b1.nodes.set b1.w _).drop b1.r) = _
    apply absL_set_tail (by omega) hd (hsh.tail_nil (b1.w + 1) (by omega))
    simp [Node.abs, Node.readable, hp, List.drop_append_of_le_length hn.1]
  · show Shape (b1.nodes.set b1.w _) b1.r b1.w b1.w false false
    refine ⟨by omega, by simp; omega, ?_, fun _ => ⟨Nat.le_refl _, by simpa using hwl⟩, fun h => by cases h⟩
    intro i nd hi
    rw [List.getElem?_set] at hi
    split at hi
    · cases hi
      refine ⟨by simp; omega, fun _ => rfl, fun _ hh => by omega,
        fun _ => ⟨by simp; omega, by simp; omega, fun hh => by omega⟩, fun h => by cases h⟩
    · have hn' := hsh.node i nd hi
      obtain ⟨c1, c2, c3⟩ := hn'.2.2.2.1 rfl
      exact ⟨hn'.1, fun _ => hpn i nd hi, fun _ hh => (c3 hh).1, fun _ => ⟨c1, c2, c3⟩, fun h => by cases h⟩

theorem bookAck_refines [DecidableEq α] (cfg : Cfg) {b : LB α} {q : Q α} (hR : R b q) (bookSize maxSize : Nat)
    (d : List α) (hC : Contract q (.bookAck bookSize maxSize d) = true) :
    ∃ b' l, b.step cfg (.bookAck bookSize maxSize d) = some (b', .num (l : Nat)) ∧ l ≤ bookSize ∧
      (1 ≤ l ∨ bookSize = 0 ∨ maxSize = 0) ∧ R b' (q.received (d.take l)) := by
  simp only [Contract, Bool.and_eq_true, Bool.not_eq_true', decide_eq_true_eq] at hC
  obtain ⟨⟨⟨hd, hro⟩, happ⟩, hm0⟩ := hC
  have hsh := hR.shape hd
  rw [hro, happ] at hsh
  have hpn := hsh.pend_nil (hR.no_pending hm0)
  obtain ⟨hfw, hwl⟩ := hsh.wr rfl
  obtain ⟨wn, hwn⟩ : ∃ wn, b.nodes[b.w]? = some wn := ⟨_, List.getElem?_eq_getElem hwl⟩
  have habs : absL (b.nodes.drop b.r) = q.items := hR.abs
  have f1 : ∀ e : List α, (e.map (·, true)).filter (·.2) = e.map (·, true) :=
    fun e => List.filter_eq_self.2 (by simp)
  have f2 : ∀ e : List α, (e.map (·, true)).filter (! ·.2) = [] :=
    fun e => List.filter_eq_nil_iff.2 (by simp)
  -- the common end: bookAck on the (possibly new) write node
  have fin : ∀ (b1 : LB α) (wn1 : Node α) (l : Nat), Shape b1.nodes b1.r b1.f b1.w false false →
      (∀ (i : Nat) (nd : Node α), b1.nodes[i]? = some nd → nd.pend = []) →
      b1.nodes[b1.w]? = some wn1 → wn1.malloc + l ≤ wn1.cap →
      absL (b1.nodes.drop b1.r) = q.items → b1.length = b.length → b1.mallocSize = b.mallocSize →
      b1.cachePeek = b.cachePeek →
      ∃ b' r, ({ b1 with nodes := b1.nodes.set b1.w { wn1 with malloc := wn1.malloc + l } } : LB α).bookAck
          (d.take l) = some (b', r) ∧ R b' (q.received (d.take l)) := by
    intro b1 wn1 l h1 h2 h3 h4 h5 h6 h7 h8
    obtain ⟨b', r, e, g1, g2, g3, g4, g5⟩ := bookAck_core b1 wn1 l (d.take l) h1 h2 h3 h4 (by simp; omega)
    refine ⟨b', r, e, ?_, ?_, ?_, ?_, ?_, hR.flags⟩
    · show absL (b'.nodes.drop b'.r) = q.items ++ (d.take l).map (·, true)
      rw [g1, h5]
    · show b'.length = ((q.items ++ (d.take l).map (·, true)).filter (·.2)).length
      rw [g2, h6, hR.len, List.filter_append, List.length_append, f1, List.length_map]; rfl
    · show b'.mallocSize = ((q.items ++ (d.take l).map (·, true)).filter (! ·.2)).length
      rw [g3, h7, hR.mlen, List.filter_append, List.length_append, f2]; rfl
    · intro _
      show Shape b'.nodes b'.r b'.f b'.w q.readOnly q.appSinceFlush
      rw [hro, happ]; exact g5
    · intro _ c cp hc
      rw [g4, h8] at hc
      exact leadBytes_prefix_append q _ c (hR.cache hd c cp hc)
  have hn := hsh.node _ wn hwn
  obtain ⟨a1, a2, _⟩ := hn.2.2.2.1 rfl
  simp only [LB.step, LB.bookFill, LB.book, hwn]
  by_cases hl0 : wn.cap - wn.malloc = 0
  · simp only [hl0, if_true]
    obtain ⟨n1, n2, n3, n4, n5⟩ := newNode_fresh (α := α) cfg maxSize
    obtain ⟨p1, p2, p3⟩ := hsh.push (newNode cfg maxSize) n1 n2 n3 n4
    simp only [p3]
    generalize hl : (if maxSize > bookSize then bookSize else maxSize) = l
    have hl1 : l ≤ bookSize := by subst hl; split <;> omega
    have hl2 : l ≤ maxSize := by subst hl; split <;> omega
    have hl3 : 1 ≤ l ∨ bookSize = 0 ∨ maxSize = 0 := by subst hl; split <;> omega
    have hc : ¬ (newNode cfg maxSize : Node α).malloc + l > (newNode cfg maxSize : Node α).cap := by
      rw [n4]
      by_cases hm : 0 < maxSize
      · have := n5 hm; omega
      · omega
    simp only [hc, if_false]
    have hpn' : ∀ (i : Nat) (nd : Node α),
        (b.nodes.take (b.w + 1) ++ [newNode cfg maxSize])[i]? = some nd → nd.pend = [] := by
      intro i nd hi
      rcases List.mem_append.1 (List.mem_of_getElem? hi) with h | h
      · obtain ⟨j, hj⟩ := List.getElem?_of_mem (List.mem_of_mem_take h)
        exact hpn j nd hj
      · simp at h; subst h; exact n3
    obtain ⟨b', r, e, hR'⟩ := fin { b with nodes := b.nodes.take (b.w + 1) ++ [newNode cfg maxSize], w := b.w + 1 }
      (newNode cfg maxSize) l p1 hpn' p3 (by omega) (p2.trans habs) rfl rfl rfl
    dsimp only at e
    rw [e]
    exact ⟨b', l, rfl, hl1, hl3, hR'⟩
  · simp only [hl0, if_false, hwn]
    generalize hl : (if wn.cap - wn.malloc > bookSize then bookSize else wn.cap - wn.malloc) = l
    have hl1 : l ≤ bookSize := by subst hl; split <;> omega
    have hl2 : l ≤ wn.cap - wn.malloc := by subst hl; split <;> omega
    have hl3 : 1 ≤ l ∨ bookSize = 0 ∨ maxSize = 0 := by subst hl; split <;> omega
    have hc : ¬ wn.malloc + l > wn.cap := by omega
    simp only [hc, if_false]
    obtain ⟨b', r, e, hR'⟩ := fin b wn l hsh hpn hwn (by omega) habs rfl rfl rfl
    rw [e]
    exact ⟨b', l, rfl, hl1, hl3, hR'⟩

end Netpoll.Buf
