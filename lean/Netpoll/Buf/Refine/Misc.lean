import Netpoll.Buf.Refine.Release
/-
Close, resetTail, book/bookAck.
-/
namespace Netpoll.Buf

variable {α : Type}

theorem close_refines [DecidableEq α] (cfg : Cfg) {b : LB α} {q : Q α} (hR : R b q) (hC : Contract q .close = true) :
    ∃ b' r, b.step cfg .close = some (b', r) ∧ R b' (specStep q .close).1 ∧ Matches r (specStep q .close).2 := by
  have hd : q.dead = false := by simpa [Contract] using hC
  have hsh := hR.shape hd
  obtain ⟨r', e, _, _, _⟩ := release_eq ({ b with length := 0, mallocSize := 0 } : LB α) hsh
  simp only [LB.step, LB.close]
  rw [e]
  refine ⟨_, _, rfl, ?_, rfl⟩
  simp only [specStep]
  refine ⟨rfl, rfl, rfl, fun h => (by cases h), fun h => (by cases h), hR.flags⟩

end Netpoll.Buf
