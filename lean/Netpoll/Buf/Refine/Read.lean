import Netpoll.Buf.Refine.Consume
/-
Refinement of the consuming reads: Skip, Next, ReadBinary/ReadString, ReadByte.
-/
namespace Netpoll.Buf

variable {α : Type}

theorem readContract {q : Q α} (h : (!q.dead && q.readOK && !q.appSinceFlush) = true) :
    q.dead = false ∧ q.readOK = true ∧ q.appSinceFlush = false := by
  simpa [and_assoc] using h

theorem takeRead_nonpos (q : Q α) (n : Int) (c : Bool) (h : n ≤ 0) : takeRead q n c = (q, .exact (.bytes [])) := by
  simp [takeRead, h]

theorem takeRead_short (q : Q α) (n : Int) (c : Bool) (h : ¬ n ≤ 0) (hl : q.len < n.toNat) :
    takeRead q n c = (q, .exact .err) := by
  simp [takeRead, h, hl]

theorem takeRead_ok (q : Q α) (n : Int) (h : ¬ n ≤ 0) (hl : ¬ q.len < n.toNat) :
    takeRead q n true = ({ q with items := q.items.drop n.toNat }, .exact (.bytes (q.firstBytes n.toNat))) := by
  simp [takeRead, h, hl]

theorem skip_refines [DecidableEq α] {b : LB α} {q : Q α} (hR : R b q) (n : Int)
    (hC : Contract q (.skip n) = true) :
    ∃ b' r, b.skip n = some (b', r) ∧ R b' (specStep q (.skip n)).1 ∧ Matches r (specStep q (.skip n)).2 := by
  obtain ⟨hd, hro, happ⟩ := readContract hC
  unfold LB.skip
  simp only [specStep]
  by_cases h0 : n ≤ 0
  · simp only [h0, if_true, takeRead_nonpos q n true h0]
    exact ⟨_, _, rfl, hR, rfl⟩
  · simp only [h0, if_false]
    by_cases hlt : b.length < n.toNat
    · simp only [hlt, if_true, takeRead_short q n true h0 (hR.len ▸ hlt)]
      exact ⟨_, _, rfl, hR, rfl⟩
    · have hlq : ¬ q.len < n.toNat := hR.len ▸ hlt
      simp only [hlt, if_false, takeRead_ok q n h0 hlq]
      have hn : 0 < n.toNat := by omega
      obtain ⟨s1, s2⟩ := q.stream n.toNat hro (by omega)
      have hsh := hR.shape hd
      have hoff : ∀ nd ∈ b.nodes.drop b.r, nd.off ≤ nd.buf.length :=
        fun nd h => hsh.off_le nd (List.mem_of_mem_drop h)
      rw [← hR.abs, LB.abs_eq] at s1 s2
      obtain ⟨ns', k, e, ha, hadv, hk⟩ := skipLoop_spec (b.nodes.drop b.r) n.toNat hn s1 s2 hoff
      show ∃ b' r, (match skipLoop ((b.consumeLen n.toNat).nodes.drop (b.consumeLen n.toNat).r) n.toNat with
        | none => none
        | some (suf, k) => some (_, Res.unit)) = some (b', r) ∧ _
      have e' : skipLoop ((b.consumeLen n.toNat).nodes.drop (b.consumeLen n.toNat).r) n.toNat = some (ns', k) := e
      rw [e']
      refine ⟨_, _, rfl, ?_, rfl⟩
      exact hR.consume hd happ hro n.toNat hn (by omega) b.r hsh.r_le_f rfl ns' k hadv ha hk rfl rfl rfl rfl rfl rfl rfl

theorem next_refines [DecidableEq α] (cfg : Cfg) {b : LB α} {q : Q α} (hR : R b q) (n : Int)
    (hC : Contract q (.next n) = true) :
    ∃ b' r, b.next cfg n = some (b', r) ∧ R b' (specStep q (.next n)).1 ∧ Matches r (specStep q (.next n)).2 := by
  obtain ⟨hd, hro, happ⟩ := readContract hC
  unfold LB.next
  simp only [specStep]
  by_cases h0 : n ≤ 0
  · simp only [h0, if_true, takeRead_nonpos q n true h0]
    exact ⟨_, _, rfl, hR, rfl⟩
  · simp only [h0, if_false]
    by_cases hlt : b.length < n.toNat
    · simp only [hlt, if_true, takeRead_short q n true h0 (hR.len ▸ hlt)]
      exact ⟨_, _, rfl, hR, rfl⟩
    · have hlq : ¬ q.len < n.toNat := hR.len ▸ hlt
      simp only [hlt, if_false, takeRead_ok q n h0 hlq]
      have hn : 0 < n.toNat := by omega
      obtain ⟨s1, s2⟩ := q.stream n.toNat hro (by omega)
      have hsh := hR.shape hd
      rw [← hR.abs] at s1 s2
      obtain ⟨r0, nd, rest, e, h1, h2, h3, h4, h5⟩ :=
        isSingleNode_spec (b.consumeLen n.toNat) n.toNat hsh.r_le_f hn s1 s2
      simp only [e]
      have hoff : ∀ x ∈ nd :: rest, x.off ≤ x.buf.length := by
        intro x hx; rw [← h3] at hx; exact hsh.off_le x (List.mem_of_mem_drop hx)
      have hfb : q.firstBytes n.toNat = ((absL (nd :: rest)).take n.toNat).map (·.1) := by
        rw [← h3, h5]; show _ = (b.abs.take n.toNat).map _; rw [hR.abs]; rfl
      have s1' : n.toNat ≤ (absL (nd :: rest)).length := by rw [← h3, h5]; exact s1
      have s2' : ∀ x ∈ (absL (nd :: rest)).take n.toNat, x.2 = true := by rw [← h3, h5]; exact s2
      cases hdec : decide (nd.len ≥ n.toNat) <;> simp only []
      · simp only [apply_ite LB.nodes, apply_ite LB.r, ite_self]
        obtain ⟨bs, ns', k, e2, hb, ha, hadv, hk⟩ := nextLoop_spec (nd :: rest) n.toNat hn s1' s2' hoff
        rw [h3, e2]
        refine ⟨_, _, rfl, ?_, ?_⟩
        · exact hR.consume hd happ hro n.toNat hn (by omega) r0 h2 h5 ns' k (h3 ▸ hadv) (h3 ▸ ha) (h3 ▸ hk)
            rfl rfl (by split <;> rfl) (by split <;> rfl) (by split <;> rfl) (by split <;> rfl) (by split <;> rfl)
        · show Res.bytes bs = _
          rw [hb, hfb]
      · rw [h4]
        simp only []
        have hge : nd.len ≥ n.toNat := by simpa using hdec
        obtain ⟨hadv, ha, hk, hb⟩ := single_spec nd
          (({ nd with exposed := true } : Node α).next n.toNat).2 rest n.toNat hge hn hoff rfl rfl rfl rfl rfl rfl
        refine ⟨_, _, rfl, ?_, ?_⟩
        · refine hR.consume hd happ hro n.toNat hn (by omega) r0 h2 h5 _ 0 (h3 ▸ hadv) (h3 ▸ ha) (h3 ▸ hk)
            ?_ rfl rfl rfl rfl rfl rfl
          exact set_of_drop_eq_cons h3 _
        · show Res.bytes _ = Res.bytes _
          rw [hfb, hb]; rfl

theorem readBinary_refines [DecidableEq α] {b : LB α} {q : Q α} (hR : R b q) (n : Int)
    (hC : Contract q (.readBinary n) = true) :
    ∃ b' r, b.readBinary n = some (b', r) ∧ R b' (specStep q (.readBinary n)).1 ∧ Matches r (specStep q (.readBinary n)).2 := by
  obtain ⟨hd, hro, happ⟩ := readContract hC
  unfold LB.readBinary LB.readBinaryCore
  simp only [specStep]
  by_cases h0 : n ≤ 0
  · simp only [h0, if_true, takeRead_nonpos q n true h0]
    exact ⟨_, _, rfl, hR, rfl⟩
  · simp only [h0, if_false]
    by_cases hlt : b.length < n.toNat
    · simp only [hlt, if_true, takeRead_short q n true h0 (hR.len ▸ hlt)]
      exact ⟨_, _, rfl, hR, rfl⟩
    · have hlq : ¬ q.len < n.toNat := hR.len ▸ hlt
      simp only [hlt, if_false, takeRead_ok q n h0 hlq]
      have hn : 0 < n.toNat := by omega
      obtain ⟨s1, s2⟩ := q.stream n.toNat hro (by omega)
      have hsh := hR.shape hd
      rw [← hR.abs] at s1 s2
      obtain ⟨r0, nd, rest, e, h1, h2, h3, h4, h5⟩ :=
        isSingleNode_spec (b.consumeLen n.toNat) n.toNat hsh.r_le_f hn s1 s2
      simp only [e]
      have hoff : ∀ x ∈ nd :: rest, x.off ≤ x.buf.length := by
        intro x hx; rw [← h3] at hx; exact hsh.off_le x (List.mem_of_mem_drop hx)
      have hfb : q.firstBytes n.toNat = ((absL (nd :: rest)).take n.toNat).map (·.1) := by
        rw [← h3, h5]; show _ = (b.abs.take n.toNat).map _; rw [hR.abs]; rfl
      have s1' : n.toNat ≤ (absL (nd :: rest)).length := by rw [← h3, h5]; exact s1
      have s2' : ∀ x ∈ (absL (nd :: rest)).take n.toNat, x.2 = true := by rw [← h3, h5]; exact s2
      cases hdec : decide (nd.len ≥ n.toNat) <;> simp only []
      · obtain ⟨bs, ns', k, e2, hb, ha, hadv, hk⟩ := nextLoop_spec (nd :: rest) n.toNat hn s1' s2' hoff
        rw [h3, e2]; simp only []
        refine ⟨_, _, rfl, ?_, ?_⟩
        · exact hR.consume hd happ hro n.toNat hn (by omega) r0 h2 h5 ns' k (h3 ▸ hadv) (h3 ▸ ha) (h3 ▸ hk)
            rfl rfl rfl rfl rfl rfl rfl
        · show Res.bytes bs = _
          rw [hb, hfb]
      · rw [h4]
        simp only []
        have hge : nd.len ≥ n.toNat := by simpa using hdec
        obtain ⟨hadv, ha, hk, hb⟩ := single_spec nd
          (nd.next n.toNat).2 rest n.toNat hge hn hoff rfl rfl rfl rfl rfl rfl
        refine ⟨_, _, rfl, ?_, ?_⟩
        · refine hR.consume hd happ hro n.toNat hn (by omega) r0 h2 h5 _ 0 (h3 ▸ hadv) (h3 ▸ ha) (h3 ▸ hk)
            ?_ rfl rfl rfl rfl rfl rfl
          exact set_of_drop_eq_cons h3 _
        · show Res.bytes _ = Res.bytes _
          rw [hfb, hb]; rfl


theorem readByteLoop_spec (ns : List (Node α))
    (hlen : 1 ≤ (absL ns).length) (hfl : ∀ x ∈ (absL ns).take 1, x.2 = true)
    (hoff : ∀ nd ∈ ns, nd.off ≤ nd.buf.length) :
    ∃ bs ns' k, readByteLoop ns = some (bs, ns', k) ∧ bs = ((absL ns).take 1).map (·.1) ∧
      absL (ns'.drop k) = (absL ns).drop 1 ∧ AdvL ns ns' ∧ ∃ nd, ns[k]? = some nd ∧ 0 < nd.len := by
  induction ns with
  | nil => simp at hlen
  | cons nd rest ih =>
    unfold readByteLoop
    have hoff' : ∀ x ∈ rest, x.off ≤ x.buf.length := fun x hx => hoff x (List.mem_cons_of_mem _ hx)
    have hnd := hoff nd (List.mem_cons_self ..)
    by_cases hge : nd.len ≥ 1
    · simp only [hge, if_true]
      obtain ⟨hadv, ha, hk, hb⟩ := single_spec nd (nd.next 1).2 rest 1 hge (by omega) hoff rfl rfl rfl rfl rfl rfl
      exact ⟨_, _, 0, rfl, by rw [hb]; rfl, ha, hadv, hk⟩
    · simp only [hge, if_false]
      have h0 : nd.len = 0 := by omega
      have hnil : nd.abs = [] := Node.abs_nil_of_stream nd (absL rest) 1 h0 (by omega) (by simpa using hfl)
      simp only [absL_cons, hnil, List.nil_append] at hlen hfl ⊢
      obtain ⟨bs, ns', k, e, hb, ha, hadv, x, hx, hx0⟩ := ih hlen hfl hoff'
      rw [e]
      refine ⟨_, _, _, rfl, hb, ?_, AdvL.cons (Adv.rfl' hnd) hadv, x, by simpa using hx, hx0⟩
      simpa using ha

theorem readByte_refines [DecidableEq α] {b : LB α} {q : Q α} (hR : R b q)
    (hC : Contract q .readByte = true) :
    ∃ b' r, b.readByte = some (b', r) ∧ R b' (specStep q .readByte).1 ∧ Matches r (specStep q .readByte).2 := by
  obtain ⟨hd, hro, happ⟩ := readContract hC
  unfold LB.readByte
  simp only [specStep]
  by_cases hlt : b.length < 1
  · have : q.len < 1 := hR.len ▸ hlt
    simp only [hlt, this, if_true]
    exact ⟨_, _, rfl, hR, rfl⟩
  · have hlq : ¬ q.len < 1 := hR.len ▸ hlt
    have hlq' : ¬ q.len < (1 : Int).toNat := hlq
    simp only [hlt, hlq, if_false, takeRead_ok q 1 (by omega) hlq']
    obtain ⟨s1, s2⟩ := q.stream 1 hro (by omega)
    have hsh := hR.shape hd
    have hoff : ∀ nd ∈ b.nodes.drop b.r, nd.off ≤ nd.buf.length :=
      fun nd h => hsh.off_le nd (List.mem_of_mem_drop h)
    rw [← hR.abs, LB.abs_eq] at s1 s2
    obtain ⟨bs, ns', k, e, hb, ha, hadv, hk⟩ := readByteLoop_spec (b.nodes.drop b.r) s1 s2 hoff
    have e' : readByteLoop ((b.consumeLen 1).nodes.drop (b.consumeLen 1).r) = some (bs, ns', k) := e
    simp only [e']
    refine ⟨_, _, rfl, ?_, ?_⟩
    · exact hR.consume hd happ hro 1 (by omega) (by omega) b.r hsh.r_le_f rfl ns' k hadv ha hk rfl rfl rfl rfl rfl rfl rfl
    · show Res.bytes bs = Res.bytes _
      rw [hb, ← LB.abs_eq, hR.abs]; rfl

end Netpoll.Buf
