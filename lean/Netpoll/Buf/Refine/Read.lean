import Netpoll.Buf.Refine.Consume
/-
Refinement of the consuming reads: Skip, Next, ReadBinary/ReadString, ReadByte.
-/
namespace Netpoll.Buf

variable {α : Type}

theorem readContract {q : Q α} (h : (!q.dead && q.readOK && !q.appSinceFlush) = true) :
    q.dead = false ∧ q.readOK = true ∧ q.appSinceFlush = false := by
  simpa [and_assoc] using h

theorem takeRead_nonpos (q : Q α) (n : Int) (c : Bool) (h : n ≤ 0) : takeRead q n c = (q, .exact (.bytes [])) := by
  simp [takeRead, h]

theorem takeRead_short (q : Q α) (n : Int) (c : Bool) (h : ¬ n ≤ 0) (hl : q.len < n.toNat) :
    takeRead q n c = (q, .exact .err) := by
  simp [takeRead, h, hl]

theorem takeRead_ok (q : Q α) (n : Int) (h : ¬ n ≤ 0) (hl : ¬ q.len < n.toNat) :
    takeRead q n true = ({ q with items := q.items.drop n.toNat }, .exact (.bytes (q.firstBytes n.toNat))) := by
  simp [takeRead, h, hl]

theorem skip_refines [DecidableEq α] {b : LB α} {q : Q α} (hR : R b q) (n : Int)
    (hC : Contract q (.skip n) = true) :
    ∃ b' r, b.skip n = some (b', r) ∧ R b' (specStep q (.skip n)).1 ∧ Matches r (specStep q (.skip n)).2 := by
  obtain ⟨hd, hro, happ⟩ := readContract hC
  unfold LB.skip
  simp only [specStep]
  by_cases h0 : n ≤ 0
  · simp only [h0, if_true, takeRead_nonpos q n true h0]
    exact ⟨_, _, rfl, hR, rfl⟩
  · simp only [h0, if_false]
    by_cases hlt : b.length < n.toNat
    · simp only [hlt, if_true, takeRead_short q n true h0 (hR.len ▸ hlt)]
      exact ⟨_, _, rfl, hR, rfl⟩
    · have hlq : ¬ q.len < n.toNat := hR.len ▸ hlt
      simp only [hlt, if_false, takeRead_ok q n h0 hlq]
      have hn : 0 < n.toNat := by omega
      obtain ⟨s1, s2⟩ := q.stream n.toNat hro (by omega)
      have hsh := hR.shape hd
      have hoff : ∀ nd ∈ b.nodes.drop b.r, nd.off ≤ nd.buf.length :=
        fun nd h => hsh.off_le nd (List.mem_of_mem_drop h)
      rw [← hR.abs, LB.abs_eq] at s1 s2
      obtain ⟨ns', k, e, ha, hadv, hk⟩ := skipLoop_spec (b.nodes.drop b.r) n.toNat hn s1 s2 hoff
      show ∃ b' r, (match skipLoop ((b.consumeLen n.toNat).nodes.drop (b.consumeLen n.toNat).r) n.toNat with
        | none => none
        | some (suf, k) => some (_, Res.unit)) = some (b', r) ∧ _
      have e' : skipLoop ((b.consumeLen n.toNat).nodes.drop (b.consumeLen n.toNat).r) n.toNat = some (ns', k) := e
      rw [e']
      refine ⟨_, _, rfl, ?_, rfl⟩
      exact hR.consume hd happ hro n.toNat hn (by omega) b.r hsh.r_le_f rfl ns' k hadv ha hk rfl rfl rfl rfl rfl rfl rfl

end Netpoll.Buf
