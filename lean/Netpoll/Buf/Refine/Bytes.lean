import Netpoll.Buf.Refine.Release
/-
Bytes, GetBytes, calcMaxSize: the non-consuming views of the readable bytes.
-/
namespace Netpoll.Buf

variable {α : Type}

/-- the flushed entries of a node's abstract content are its readable bytes -/
theorem Node.flushed_abs (nd : Node α) : ((nd.abs).filter (·.2)).map (·.1) = nd.readable := by
  simp only [Node.abs, List.filter_append, List.map_append]
  have h1 : (nd.readable.map (·, true)).filter (·.2) = nd.readable.map (·, true) :=
    List.filter_eq_self.2 (by simp)
  have h2 : ∀ P : List α, (P.map (·, false)).filter (·.2) = [] :=
    fun P => List.filter_eq_nil_iff.2 (by simp)
  rw [h1, h2]
  simp [Function.comp_def]

/-- the flushed bytes of the abstract stream are the readable bytes of the nodes -/
theorem flushed_absL_b (ns : List (Node α)) :
    ((absL ns).filter (·.2)).map (·.1) = ns.flatMap Node.readable := by
  induction ns with
  | nil => rfl
  | cons nd rest ih =>
    simp only [List.filter_append, List.map_append, List.flatMap_cons]
    rw [Node.flushed_abs, ih]

theorem Node.readable_nil (nd : Node α) (h : nd.off = nd.buf.length) : nd.readable = [] := by
  simp [Node.readable, h]

theorem flatMap_readable_nil (ns : List (Node α)) (h : ∀ nd ∈ ns, nd.off = nd.buf.length) :
    ns.flatMap Node.readable = [] := by
  rw [List.flatMap_eq_nil_iff]
  intro nd hnd
  exact Node.readable_nil nd (h nd hnd)

/-- Without an Append since the last Flush nothing is readable behind the flush node:
the flushed bytes are the readable parts of the nodes `read .. flush`. -/
theorem flushedBytes_eq {b : LB α} {q : Q α} (hR : R b q) (hd : q.dead = false)
    (happ : q.appSinceFlush = false) :
    q.flushedBytes = ((b.nodes.drop b.r).take (b.f + 1 - b.r)).flatMap Node.readable := by
  have hsh := hR.shape hd
  have h1 : q.flushedBytes = (b.nodes.drop b.r).flatMap Node.readable := by
    unfold Q.flushedBytes
    rw [← hR.abs, LB.abs_eq, flushed_absL_b]
  rw [h1]
  conv => lhs; rw [← List.take_append_drop (b.f + 1 - b.r) (b.nodes.drop b.r)]
  rw [List.flatMap_append,
    flatMap_readable_nil ((b.nodes.drop b.r).drop (b.f + 1 - b.r)) ?_, List.append_nil]
  intro nd hnd
  obtain ⟨i, hi⟩ := List.getElem?_of_mem hnd
  rw [List.drop_drop, List.getElem?_drop] at hi
  have := hsh.r_le_f
  exact (hsh.node _ nd hi).2.2.1 (happ ▸ rfl) (by omega)

theorem viewContract {q : Q α} (h : (!q.dead && !q.readOnly && !q.appSinceFlush && q.readOK) = true) :
    q.dead = false ∧ q.readOnly = false ∧ q.appSinceFlush = false ∧ q.readOK = true := by
  simpa [and_assoc] using h

theorem bytes_refines [DecidableEq α] (cfg : Cfg) {b : LB α} {q : Q α} (hR : R b q)
    (hC : Contract q .bytes = true) :
    ∃ b' r, b.step cfg .bytes = some (b', r) ∧ R b' (specStep q .bytes).1 ∧
      Matches r (specStep q .bytes).2 := by
  obtain ⟨hd, hro, happ, _⟩ := viewContract hC
  have hsh := hR.shape hd
  have hfb := flushedBytes_eq hR hd happ
  obtain ⟨hfw, hwl⟩ := hsh.wr hro
  have hrf := hsh.r_le_f
  simp only [LB.step, specStep, LB.bytes]
  by_cases h : b.r = b.f
  · have hlt : b.r < b.nodes.length := by omega
    simp only [h, if_true]
    rw [List.getElem?_eq_getElem (by omega)]
    refine ⟨_, _, rfl, hR, ?_⟩
    show Res.bytes _ = Res.bytes _
    have e1 : b.f + 1 - b.r = 1 := by omega
    have e2 : b.nodes.drop b.r = b.nodes[b.f] :: b.nodes.drop (b.f + 1) := by
      rw [h]; exact List.drop_eq_getElem_cons (by omega)
    rw [hfb, e1, e2]
    simp only [List.take_succ_cons, List.take_zero, List.flatMap_cons, List.flatMap_nil, List.append_nil]
  · have hc : ¬ (b.f ≥ b.nodes.length ∨ b.r > b.f) := by omega
    simp only [h, hc, if_false]
    refine ⟨_, _, rfl, hR, ?_⟩
    show Res.bytes _ = Res.bytes _
    rw [hfb]

theorem calcMaxSize_refines [DecidableEq α] (cfg : Cfg) {b : LB α} {q : Q α} (hR : R b q)
    (hC : Contract q .calcMaxSize = true) :
    ∃ b' r, b.step cfg .calcMaxSize = some (b', r) ∧ R b' (specStep q .calcMaxSize).1 ∧
      Matches r (specStep q .calcMaxSize).2 := by
  have hc : q.dead = false ∧ q.readOnly = false := by
    simp only [Contract, Bool.and_eq_true, Bool.not_eq_true'] at hC
    exact ⟨hC.1.1.1, hC.1.1.2⟩
  obtain ⟨hd, hro⟩ := hc
  have hsh := hR.shape hd
  obtain ⟨hfw, hwl⟩ := hsh.wr hro
  have hrf := hsh.r_le_f
  have hlt : ¬ b.r ≥ b.nodes.length := by omega
  simp only [LB.step, specStep, LB.calcMaxSize, hlt, if_false]
  refine ⟨_, _, rfl, hR, ?_⟩
  simp [Matches]


/-- forget the `exposed` flag -/
def Node.unexp (nd : Node α) : Node α := { nd with exposed := false }

theorem Node.unexp_set (nd : Node α) : ({ nd with exposed := true } : Node α).unexp = nd.unexp := rfl

theorem Node.abs_unexp (nd : Node α) : nd.unexp.abs = nd.abs := rfl

theorem unexp_getElem? {ns ns' : List (Node α)} (h : ns'.map Node.unexp = ns.map Node.unexp)
    {i : Nat} {b : Node α} (hb : ns'[i]? = some b) : ∃ a, ns[i]? = some a ∧ a.unexp = b.unexp := by
  have h1 : (ns'.map Node.unexp)[i]? = some b.unexp := by simp [hb]
  rw [h, List.getElem?_map] at h1
  cases ha : ns[i]? with
  | none => simp [ha] at h1
  | some a => exact ⟨a, rfl, by simpa [ha] using h1⟩

theorem unexp_length {ns ns' : List (Node α)} (h : ns'.map Node.unexp = ns.map Node.unexp) :
    ns'.length = ns.length := by
  simpa using congrArg List.length h

theorem absL_unexp (ns : List (Node α)) : absL (ns.map Node.unexp) = absL ns := by
  induction ns with
  | nil => rfl
  | cons nd rest ih => simp only [List.map_cons, absL_cons, ih, Node.abs_unexp]

theorem absL_drop_unexp {ns ns' : List (Node α)} (h : ns'.map Node.unexp = ns.map Node.unexp) (r : Nat) :
    absL (ns'.drop r) = absL (ns.drop r) := by
  rw [← absL_unexp (ns'.drop r), ← absL_unexp (ns.drop r), List.map_drop, List.map_drop, h]

/-- the chain invariant does not look at the `exposed` flags -/
theorem Shape.unexp {nodes nodes' : List (Node α)} {r f w ro app} (h : Shape nodes r f w ro app)
    (he : nodes'.map Node.unexp = nodes.map Node.unexp) : Shape nodes' r f w ro app := by
  have hl := unexp_length he
  refine ⟨h.r_le_f, hl ▸ h.f_le, ?_, hl ▸ h.wr, hl ▸ h.rd⟩
  intro i nd hi
  obtain ⟨a, ha, e⟩ := unexp_getElem? he hi
  have e1 : a.buf = nd.buf := (congrArg Node.buf e : a.unexp.buf = nd.unexp.buf)
  have e2 : a.off = nd.off := (congrArg Node.off e : a.unexp.off = nd.unexp.off)
  have e3 : a.pend = nd.pend := (congrArg Node.pend e : a.unexp.pend = nd.unexp.pend)
  have e4 : a.malloc = nd.malloc := (congrArg Node.malloc e : a.unexp.malloc = nd.unexp.malloc)
  have e5 : a.cap = nd.cap := (congrArg Node.cap e : a.unexp.cap = nd.unexp.cap)
  have := h.node i a ha
  rw [e1, e2, e3, e4, e5] at this
  exact this


theorem Node.readable_unexp {a b : Node α} (h : a.unexp = b.unexp) : a.readable = b.readable := by
  have h1 := congrArg Node.buf h
  have h2 := congrArg Node.off h
  simp only [Node.unexp] at h1 h2
  simp [Node.readable, h1, h2]

theorem Node.len_readable_nil (nd : Node α) (h : ¬ nd.len > 0) : nd.readable = [] := by
  apply List.eq_nil_of_length_eq_zero
  rw [Node.readable_length]; omega

theorem getBytesLoop_spec (ns : List (Node α)) (cnt k : Nat) :
    (getBytesLoop ns cnt k).2.map Node.unexp = ns.map Node.unexp ∧
    (getBytesLoop ns cnt k).1.flatten <+: (ns.take cnt).flatMap Node.readable ∧
    ((getBytesLoop ns cnt k).1.length < k →
      (getBytesLoop ns cnt k).1.flatten = (ns.take cnt).flatMap Node.readable) := by
  induction ns generalizing cnt k with
  | nil => simp [getBytesLoop]
  | cons nd rest ih =>
    unfold getBytesLoop
    by_cases hc : cnt = 0 ∨ k = 0
    · rw [if_pos hc]
      refine ⟨rfl, by simp, ?_⟩
      intro h
      have : cnt = 0 := by simp at h; omega
      simp [this]
    · simp only [hc, if_false]
      obtain ⟨c, rfl⟩ : ∃ c, cnt = c + 1 := ⟨cnt - 1, by omega⟩
      simp only [Nat.add_sub_cancel, List.take_succ_cons, List.flatMap_cons]
      by_cases hl : nd.len > 0
      · simp only [hl, if_true]
        obtain ⟨i1, i2, i3⟩ := ih c (k - 1)
        refine ⟨?_, ?_, ?_⟩
        · simp only [List.map_cons, i1, Node.unexp_set]
        · simp only [List.flatten_cons]
          exact (List.prefix_append_right_inj _).2 i2
        · intro h
          simp only [List.flatten_cons, List.length_cons] at h ⊢
          rw [i3 (by omega)]
      · simp only [hl, if_false]
        obtain ⟨i1, i2, i3⟩ := ih c k
        rw [Node.len_readable_nil nd hl]
        refine ⟨?_, ?_, ?_⟩
        · simp only [List.map_cons, i1]
        · simpa using i2
        · intro h; simpa using i3 h

theorem map_set_of_eq {β γ : Type} (g : β → γ) (l : List β) (i : Nat) (a a' : β) (h : l[i]? = some a)
    (e : g a' = g a) : (l.set i a').map g = l.map g := by
  apply List.ext_getElem?
  intro j
  simp only [List.getElem?_map, List.getElem?_set]
  split
  · rename_i hij; subst hij
    split <;> simp_all
  · rfl

/-- setting `exposed` flags keeps the refinement relation -/
theorem R.unexp {b : LB α} {q : Q α} (hR : R b q) (nodes' : List (Node α))
    (he : nodes'.map Node.unexp = b.nodes.map Node.unexp) : R { b with nodes := nodes' } q := by
  refine ⟨?_, hR.len, hR.mlen, fun hd => (hR.shape hd).unexp he, hR.cache, hR.flags⟩
  show absL (nodes'.drop b.r) = q.items
  rw [absL_drop_unexp he, ← LB.abs_eq, hR.abs]

theorem getBytes_refines [DecidableEq α] (cfg : Cfg) {b : LB α} {q : Q α} (hR : R b q) (k : Nat)
    (hC : Contract q (.getBytes k) = true) :
    ∃ b' r, b.step cfg (.getBytes k) = some (b', r) ∧ R b' (specStep q (.getBytes k)).1 ∧
      Matches r (specStep q (.getBytes k)).2 := by
  obtain ⟨hd, hro, happ, _⟩ := viewContract hC
  have hsh := hR.shape hd
  have hfb := flushedBytes_eq hR hd happ
  obtain ⟨hfw, hwl⟩ := hsh.wr hro
  have hrf := hsh.r_le_f
  have hgt : ¬ b.r > b.f := by omega
  simp only [LB.step, specStep, LB.getBytes, hgt, if_false]
  generalize (if k = 0 then b.f - b.r else k) = k'
  obtain ⟨l1, l2, l3⟩ := getBytesLoop_spec (b.nodes.drop b.r) (b.f - b.r) k'
  rcases hg : getBytesLoop (b.nodes.drop b.r) (b.f - b.r) k' with ⟨vs, suf⟩
  rw [hg] at l1 l2 l3
  simp only at l1 l2 l3 ⊢
  have he : (spliceFrom b.nodes b.r suf).map Node.unexp = b.nodes.map Node.unexp := by
    simp only [spliceFrom, List.map_append, l1]
    rw [← List.map_append, List.take_append_drop]
  have hpre : ((b.nodes.drop b.r).take (b.f - b.r)).flatMap Node.readable <+: q.flushedBytes := by
    rw [hfb, show b.f + 1 - b.r = (b.f - b.r) + 1 by omega, List.take_add_one, List.flatMap_append]
    exact List.prefix_append _ _
  by_cases hv : vs.length < k'
  · simp only [hv, if_true]
    obtain ⟨fl, hfl⟩ : ∃ x, (spliceFrom b.nodes b.r suf)[b.f]? = some x :=
      ⟨_, List.getElem?_eq_getElem (by rw [unexp_length he]; omega)⟩
    obtain ⟨fl0, hfl0, e0⟩ := unexp_getElem? he hfl
    rw [hfl]
    refine ⟨_, _, rfl, ?_, ?_⟩
    · apply hR.unexp
      rw [map_set_of_eq Node.unexp _ b.f fl _ hfl (Node.unexp_set fl), he]
    · show (vs ++ [fl.readable]).flatten <+: q.flushedBytes
      rw [hfb, show b.f + 1 - b.r = (b.f - b.r) + 1 by omega, List.take_add_one, List.flatMap_append,
        List.getElem?_drop, show b.r + (b.f - b.r) = b.f by omega, hfl0]
      simp only [List.flatten_append, l3 hv, Option.toList_some, List.flatMap_cons, List.flatMap_nil,
        List.flatten_cons, List.flatten_nil, List.append_nil, Node.readable_unexp e0]
      exact List.prefix_rfl
  · simp only [hv, if_false]
    exact ⟨_, _, rfl, hR.unexp _ he, l2.trans hpre⟩

end Netpoll.Buf
