import Netpoll.Buf.Refine.Release
/-
Bytes, GetBytes, calcMaxSize: the non-consuming views of the readable bytes.
-/
namespace Netpoll.Buf

variable {α : Type}

/-- the flushed entries of a node's abstract content are its readable bytes -/
theorem Node.flushed_abs (nd : Node α) : ((nd.abs).filter (·.2)).map (·.1) = nd.readable := by
  simp only [Node.abs, List.filter_append, List.map_append]
  have h1 : (nd.readable.map (·, true)).filter (·.2) = nd.readable.map (·, true) :=
    List.filter_eq_self.2 (by simp)
  have h2 : ∀ P : List α, (P.map (·, false)).filter (·.2) = [] :=
    fun P => List.filter_eq_nil_iff.2 (by simp)
  rw [h1, h2]
  simp [Function.comp_def]

/-- the flushed bytes of the abstract stream are the readable bytes of the nodes -/
theorem flushed_absL (ns : List (Node α)) :
    ((absL ns).filter (·.2)).map (·.1) = ns.flatMap Node.readable := by
  induction ns with
  | nil => rfl
  | cons nd rest ih =>
    simp only [List.filter_append, List.map_append, List.flatMap_cons]
    rw [Node.flushed_abs, ih]

theorem Node.readable_nil (nd : Node α) (h : nd.off = nd.buf.length) : nd.readable = [] := by
  simp [Node.readable, h]

theorem flatMap_readable_nil (ns : List (Node α)) (h : ∀ nd ∈ ns, nd.off = nd.buf.length) :
    ns.flatMap Node.readable = [] := by
  rw [List.flatMap_eq_nil_iff]
  intro nd hnd
  exact Node.readable_nil nd (h nd hnd)

/-- Without an Append since the last Flush nothing is readable behind the flush node:
the flushed bytes are the readable parts of the nodes `read .. flush`. -/
theorem flushedBytes_eq {b : LB α} {q : Q α} (hR : R b q) (hd : q.dead = false)
    (happ : q.appSinceFlush = false) :
    q.flushedBytes = ((b.nodes.drop b.r).take (b.f + 1 - b.r)).flatMap Node.readable := by
  have hsh := hR.shape hd
  have h1 : q.flushedBytes = (b.nodes.drop b.r).flatMap Node.readable := by
    unfold Q.flushedBytes
    rw [← hR.abs, LB.abs_eq, flushed_absL]
  rw [h1]
  conv => lhs; rw [← List.take_append_drop (b.f + 1 - b.r) (b.nodes.drop b.r)]
  rw [List.flatMap_append,
    flatMap_readable_nil ((b.nodes.drop b.r).drop (b.f + 1 - b.r)) ?_, List.append_nil]
  intro nd hnd
  obtain ⟨i, hi⟩ := List.getElem?_of_mem hnd
  rw [List.drop_drop, List.getElem?_drop] at hi
  have := hsh.r_le_f
  exact (hsh.node _ nd hi).2.2.1 (happ ▸ rfl) (by omega)

theorem viewContract {q : Q α} (h : (!q.dead && !q.readOnly && !q.appSinceFlush && q.readOK) = true) :
    q.dead = false ∧ q.readOnly = false ∧ q.appSinceFlush = false ∧ q.readOK = true := by
  simpa [and_assoc] using h

theorem bytes_refines [DecidableEq α] (cfg : Cfg) {b : LB α} {q : Q α} (hR : R b q)
    (hC : Contract q .bytes = true) :
    ∃ b' r, b.step cfg .bytes = some (b', r) ∧ R b' (specStep q .bytes).1 ∧
      Matches r (specStep q .bytes).2 := by
  obtain ⟨hd, hro, happ, _⟩ := viewContract hC
  have hsh := hR.shape hd
  have hfb := flushedBytes_eq hR hd happ
  obtain ⟨hfw, hwl⟩ := hsh.wr hro
  have hrf := hsh.r_le_f
  simp only [LB.step, specStep, LB.bytes]
  by_cases h : b.r = b.f
  · have hlt : b.r < b.nodes.length := by omega
    simp only [h, if_true]
    rw [List.getElem?_eq_getElem (by omega)]
    refine ⟨_, _, rfl, hR, ?_⟩
    show Res.bytes _ = Res.bytes _
    have e1 : b.f + 1 - b.r = 1 := by omega
    have e2 : b.nodes.drop b.r = b.nodes[b.f] :: b.nodes.drop (b.f + 1) := by
      rw [h]; exact List.drop_eq_getElem_cons (by omega)
    rw [hfb, e1, e2]
    simp only [List.take_succ_cons, List.take_zero, List.flatMap_cons, List.flatMap_nil, List.append_nil]
  · have hc : ¬ (b.f ≥ b.nodes.length ∨ b.r > b.f) := by omega
    simp only [h, hc, if_false]
    refine ⟨_, _, rfl, hR, ?_⟩
    show Res.bytes _ = Res.bytes _
    rw [hfb]

theorem calcMaxSize_refines [DecidableEq α] (cfg : Cfg) {b : LB α} {q : Q α} (hR : R b q)
    (hC : Contract q .calcMaxSize = true) :
    ∃ b' r, b.step cfg .calcMaxSize = some (b', r) ∧ R b' (specStep q .calcMaxSize).1 ∧
      Matches r (specStep q .calcMaxSize).2 := by
  have hc : q.dead = false ∧ q.readOnly = false := by
    simp only [Contract, Bool.and_eq_true, Bool.not_eq_true'] at hC
    exact ⟨hC.1.1.1, hC.1.1.2⟩
  obtain ⟨hd, hro⟩ := hc
  have hsh := hR.shape hd
  obtain ⟨hfw, hwl⟩ := hsh.wr hro
  have hrf := hsh.r_le_f
  have hlt : ¬ b.r ≥ b.nodes.length := by omega
  simp only [LB.step, specStep, LB.calcMaxSize, hlt, if_false]
  refine ⟨_, _, rfl, hR, ?_⟩
  simp [Matches]

end Netpoll.Buf
