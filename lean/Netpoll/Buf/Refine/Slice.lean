import Netpoll.Buf.Refine.Read
import Netpoll.Buf.Refine.Release
/-
Refinement of Slice(n): the parent is consumed like Next (plus a Release on the multi-node path),
the child is a read-only buffer over reference nodes holding the first `n` bytes.
-/
namespace Netpoll.Buf

variable {α : Type}

theorem specSlice_nonpos (q : Q α) (n : Int) (h : n ≤ 0) : specSlice q n = (q, some {}, .exact .unit) := by
  simp [specSlice, h]

theorem specSlice_short (q : Q α) (n : Int) (h : ¬ n ≤ 0) (hl : q.len < n.toNat) :
    specSlice q n = (q, none, .exact .err) := by
  simp [specSlice, h, hl]

theorem specSlice_ok (q : Q α) (n : Int) (h : ¬ n ≤ 0) (hl : ¬ q.len < n.toNat) :
    specSlice q n = ({ q with items := q.items.drop n.toNat },
      some { items := q.items.take n.toNat, readOnly := true }, .exact .unit) := by
  simp [specSlice, h, hl]

/-- a list of entries that are all flushed is determined by its bytes -/
theorem map_fst_true (l : List (α × Bool)) (h : ∀ x ∈ l, x.2 = true) : (l.map (·.1)).map (·, true) = l := by
  induction l with
  | nil => rfl
  | cons x xs ih =>
    simp only [List.map_cons]
    rw [ih (fun y hy => h y (List.mem_cons_of_mem _ hy))]
    have := h x (List.mem_cons_self ..)
    congr 1
    cases x; simp_all

/-- a chain of reference nodes (`off = 0`, nothing pending) denotes its bytes, all flushed -/
theorem absL_children (chs : List (Node α)) (h : ∀ ch ∈ chs, ch.off = 0 ∧ ch.pend = []) :
    absL chs = (chs.flatMap Node.readable).map (·, true) := by
  induction chs with
  | nil => rfl
  | cons ch rest ih =>
    obtain ⟨_, hp⟩ := h ch (List.mem_cons_self ..)
    rw [absL_cons, ih (fun x hx => h x (List.mem_cons_of_mem _ hx))]
    simp [Node.abs, hp]

/-- the child buffer of Slice represents the first `n` (flushed) entries, read-only -/
theorem R_sliceLB (chs : List (Node α)) (items : List (α × Bool)) (n : Nat)
    (hch : ∀ ch ∈ chs, ch.off = 0 ∧ ch.pend = [])
    (hn : n ≤ items.length) (hfl : ∀ x ∈ items.take n, x.2 = true)
    (hb : chs.flatMap Node.readable = (items.take n).map (·.1)) :
    R (sliceLB chs n) { items := items.take n, readOnly := true } := by
  refine ⟨?_, ?_, ?_, ?_, ?_, ?_⟩
  · show absL (chs.drop 0) = items.take n
    rw [List.drop_zero, absL_children chs hch, hb, map_fst_true _ hfl]
  · show n = ((items.take n).filter (·.2)).length
    rw [List.filter_eq_self.2 (by simpa using hfl)]; simp [hn]
  · show 0 = ((items.take n).filter (! ·.2)).length
    rw [List.filter_eq_nil_iff.2 (by intro y hy; simp [hfl y hy])]; rfl
  · intro _
    refine ⟨Nat.zero_le _, Nat.le_refl _, ?_, by simp, fun _ => ⟨rfl, rfl⟩⟩
    intro i nd hi
    obtain ⟨h0, hp⟩ := hch nd (List.mem_of_getElem? hi)
    have hlt : i < chs.length := (List.getElem?_eq_some_iff.1 hi).1
    refine ⟨by omega, fun _ => hp, fun _ hh => ?_, by simp, fun _ => hp⟩
    simp only [sliceLB] at hh; omega
  · intro _ c cp h; simp [sliceLB] at h
  · intro h; cases h

/-- the child made by `Refer(l)` of a node with `l ≤ len` holds the first `l` readable bytes -/
theorem Node.refer_child (nd : Node α) (l : Nat) :
    (nd.refer l).1.readable = nd.readable.take l ∧ (nd.refer l).1.off = 0 ∧ (nd.refer l).1.pend = [] := by
  simp [Node.refer, Node.next, Node.readable]

theorem sliceLoop_spec (ns : List (Node α)) (n : Nat) (hn : 0 < n)
    (hlen : n ≤ (absL ns).length) (hfl : ∀ x ∈ (absL ns).take n, x.2 = true)
    (hoff : ∀ nd ∈ ns, nd.off ≤ nd.buf.length) :
    ∃ chs ns' k, sliceLoop ns n = some (chs, ns', k) ∧
      chs.flatMap Node.readable = ((absL ns).take n).map (·.1) ∧
      (∀ ch ∈ chs, ch.off = 0 ∧ ch.pend = []) ∧
      absL (ns'.drop k) = (absL ns).drop n ∧ AdvL ns ns' ∧ ∃ nd, ns[k]? = some nd ∧ 0 < nd.len := by
  induction ns generalizing n with
  | nil => simp at hlen; omega
  | cons nd rest ih =>
    unfold sliceLoop
    have hoff' : ∀ x ∈ rest, x.off ≤ x.buf.length := fun x hx => hoff x (List.mem_cons_of_mem _ hx)
    have hnd := hoff nd (List.mem_cons_self ..)
    by_cases hge : nd.len ≥ n
    · simp only [hge, if_true]
      obtain ⟨hadv, ha, hk, hb⟩ := single_spec nd (({ nd with exposed := true } : Node α).refer n).2 rest n hge hn hoff
        rfl rfl rfl rfl rfl rfl
      refine ⟨_, _, 0, rfl, ?_, ?_, ha, hadv, hk⟩
      · rw [hb]; simp [Node.refer, Node.next, Node.readable]
      · intro ch hch
        simp only [List.mem_singleton] at hch; subst hch; exact ⟨rfl, rfl⟩
    · simp only [hge, if_false]
      have hlt : nd.len < n := by omega
      obtain ⟨t1, t2, t3, t4⟩ := stream_tail nd rest n hlt hlen hfl
      obtain ⟨chs, ns', k, e, hb, hc, ha, hadv, x, hx, hx0⟩ := ih (n - nd.len) (by omega) t1 t2 hoff'
      rw [e]; simp only []
      by_cases hpos : nd.len > 0
      · simp only [hpos, if_true]
        refine ⟨_, _, _, rfl, ?_, ?_, ?_, AdvL.cons ?_ hadv, x, by simpa using hx, hx0⟩
        · rw [t4, ← hb]
          simp only [List.flatMap_cons, Node.refer, Node.next, Node.readable, Node.len, List.drop_zero]
          rw [List.take_of_length_le (by simp)]
        · intro ch hch
          simp only [List.mem_cons] at hch
          rcases hch with rfl | hch
          · exact ⟨rfl, rfl⟩
          · exact hc ch hch
        · simp only [List.drop_succ_cons]
          rw [ha, t3]
        · exact ⟨rfl, rfl, rfl, rfl, rfl, by simp [Node.refer, Node.next],
            by simp [Node.len, Node.refer, Node.next]; omega⟩
      · simp only [hpos, if_false]
        refine ⟨_, _, _, rfl, ?_, hc, ?_, AdvL.cons (Adv.rfl' hnd) hadv, x, by simpa using hx, hx0⟩
        · have h0 : nd.readable = [] := by
            apply List.eq_nil_of_length_eq_zero; rw [Node.readable_length]; omega
          rw [t4, ← hb, h0]; rfl
        · simp only [List.drop_succ_cons]
          rw [ha, t3]

/-- `Release()` keeps the refinement relation (no `DecidableEq` needed) -/
theorem R.release {b : LB α} {q : Q α} (hR : R b q) (hd : q.dead = false) :
    ∃ b', b.release = some (b', .unit) ∧ R b' q := by
  have hsh := hR.shape hd
  obtain ⟨r', e, h1, h2, h3⟩ := release_eq b hsh
  refine ⟨_, e, ?_, hR.len, hR.mlen, fun _ => hsh.drop r' h2, ?_, hR.flags⟩
  · show absL ((b.nodes.drop r').drop 0) = q.items
    rw [List.drop_zero, h3, hR.abs]
  · intro _ c cp hc; cases hc

theorem slice_refines (cfg : Cfg) {b : LB α} {q : Q α} (hR : R b q) (n : Int) (hC : sliceContract q = true) :
    ∃ b' r c, b.slice cfg n = some (b', r, c) ∧ R b' (specSlice q n).1 ∧ Matches r (specSlice q n).2.2 ∧
      (match c, (specSlice q n).2.1 with
       | some cb, some cq => R cb cq
       | none, none => True
       | _, _ => False) := by
  obtain ⟨hd, hro, happ⟩ := readContract hC
  unfold LB.slice
  by_cases h0 : n ≤ 0
  · simp only [h0, if_true, specSlice_nonpos q n h0]
    exact ⟨_, _, _, rfl, hR, rfl, R_newLB cfg 0⟩
  · simp only [h0, if_false]
    by_cases hlt : b.length < n.toNat
    · simp only [hlt, if_true, specSlice_short q n h0 (hR.len ▸ hlt)]
      exact ⟨_, _, _, rfl, hR, rfl, trivial⟩
    · have hlq : ¬ q.len < n.toNat := hR.len ▸ hlt
      simp only [hlt, if_false, specSlice_ok q n h0 hlq]
      have hn : 0 < n.toNat := by omega
      obtain ⟨q1, q2⟩ := q.stream n.toNat hro (by omega)
      have hsh := hR.shape hd
      have s1 := q1
      have s2 := q2
      rw [← hR.abs] at s1 s2
      obtain ⟨r0, nd, rest, e, h1, h2, h3, h4, h5⟩ :=
        isSingleNode_spec (b.consumeLen n.toNat) n.toNat hsh.r_le_f hn s1 s2
      simp only [e]
      have hoff : ∀ x ∈ nd :: rest, x.off ≤ x.buf.length := by
        intro x hx; rw [← h3] at hx; exact hsh.off_le x (List.mem_of_mem_drop hx)
      have hfb : (q.items.take n.toNat).map (·.1) = ((absL (nd :: rest)).take n.toNat).map (·.1) := by
        rw [← h3, h5]; show _ = (b.abs.take n.toNat).map _; rw [hR.abs]
      have s1' : n.toNat ≤ (absL (nd :: rest)).length := by rw [← h3, h5]; exact s1
      have s2' : ∀ x ∈ (absL (nd :: rest)).take n.toNat, x.2 = true := by rw [← h3, h5]; exact s2
      cases hdec : decide (nd.len ≥ n.toNat) <;> simp only []
      · rw [h3]
        simp only []
        have hlt' : nd.len < n.toNat := by simpa using hdec
        have hoff' : ∀ x ∈ rest, x.off ≤ x.buf.length := fun x hx => hoff x (List.mem_cons_of_mem _ hx)
        obtain ⟨t1, t2, t3, t4⟩ := stream_tail nd rest n.toNat hlt' s1' s2'
        obtain ⟨chs, ns', k, e2, hb, hch, ha, hadv, x, hx, hx0⟩ :=
          sliceLoop_spec rest (n.toNat - nd.len) (by omega) t1 t2 hoff'
        rw [e2]
        simp only []
        have h3' : b.nodes.drop r0 = nd :: rest := h3
        have hR1 : R ({ ({ b.consumeLen n.toNat with r := r0 } : LB α) with
              nodes := spliceFrom (b.consumeLen n.toNat).nodes r0
                ((({ nd with exposed := true } : Node α).refer nd.len).2 :: ns'),
              r := r0 + 1 + k } : LB α) { q with items := q.items.drop n.toNat } := by
          refine hR.consume hd happ hro n.toNat hn (by omega) r0 h2 h5
            ((({ nd with exposed := true } : Node α).refer nd.len).2 :: ns') (k + 1) ?_ ?_ ?_
            rfl (by show r0 + 1 + k = r0 + (k + 1); omega) rfl rfl rfl rfl rfl
          · rw [h3']
            exact AdvL.cons ⟨rfl, rfl, rfl, rfl, rfl, by simp [Node.refer, Node.next],
              by simp [Node.len, Node.refer, Node.next]; have := hoff nd (List.mem_cons_self ..); omega⟩ hadv
          · rw [h3', List.drop_succ_cons, ha, t3]
          · rw [h3']; exact ⟨x, by simpa using hx, hx0⟩
        obtain ⟨b2, e3, hR2⟩ := hR1.release hd
        rw [e3]
        refine ⟨_, _, _, rfl, hR2, rfl, ?_⟩
        show R (sliceLB (_ :: chs) n.toNat) _
        refine R_sliceLB _ q.items n.toNat ?_ q1 q2 ?_
        · intro ch hc
          simp only [List.mem_cons] at hc
          rcases hc with rfl | hc
          · exact ⟨rfl, rfl⟩
          · exact hch ch hc
        · rw [hfb, t4, ← hb]
          simp only [List.flatMap_cons, Node.refer, Node.next, Node.readable, Node.len, List.drop_zero]
          rw [List.take_of_length_le (by simp)]
      · rw [h4]
        simp only []
        have hge : nd.len ≥ n.toNat := by simpa using hdec
        obtain ⟨hadv, ha, hk, hb⟩ := single_spec nd
          (({ nd with exposed := true } : Node α).refer n.toNat).2 rest n.toNat hge hn hoff rfl rfl rfl rfl rfl rfl
        refine ⟨_, _, _, rfl, ?_, rfl, ?_⟩
        · refine hR.consume hd happ hro n.toNat hn (by omega) r0 h2 h5 _ 0 (h3 ▸ hadv) (h3 ▸ ha) (h3 ▸ hk)
            ?_ rfl rfl rfl rfl rfl rfl
          exact set_of_drop_eq_cons h3 _
        · show R (sliceLB [_] n.toNat) _
          refine R_sliceLB _ q.items n.toNat ?_ q1 q2 ?_
          · intro ch hch
            simp only [List.mem_singleton] at hch; subst hch; exact ⟨rfl, rfl⟩
          · rw [hfb, hb]; simp [Node.refer, Node.next, Node.readable]

end Netpoll.Buf
