import Netpoll.Buf.Refine.Read
import Netpoll.Buf.Refine.Release
/-
Refinement of Slice(n): the parent is consumed like Next (plus a Release on the multi-node path),
the child is a read-only buffer over reference nodes holding the first `n` bytes.
-/
namespace Netpoll.Buf

variable {α : Type}

theorem specSlice_nonpos (q : Q α) (n : Int) (h : n ≤ 0) : specSlice q n = (q, some {}, .exact .unit) := by
  simp [specSlice, h]

theorem specSlice_short (q : Q α) (n : Int) (h : ¬ n ≤ 0) (hl : q.len < n.toNat) :
    specSlice q n = (q, none, .exact .err) := by
  simp [specSlice, h, hl]

theorem specSlice_ok (q : Q α) (n : Int) (h : ¬ n ≤ 0) (hl : ¬ q.len < n.toNat) :
    specSlice q n = ({ q with items := q.items.drop n.toNat },
      some { items := q.items.take n.toNat, readOnly := true }, .exact .unit) := by
  simp [specSlice, h, hl]

/-- a list of entries that are all flushed is determined by its bytes -/
theorem map_fst_true (l : List (α × Bool)) (h : ∀ x ∈ l, x.2 = true) : (l.map (·.1)).map (·, true) = l := by
  induction l with
  | nil => rfl
  | cons x xs ih =>
    simp only [List.map_cons]
    rw [ih (fun y hy => h y (List.mem_cons_of_mem _ hy))]
    have := h x (List.mem_cons_self ..)
    congr 1
    cases x; simp_all

/-- a chain of reference nodes (`off = 0`, nothing pending) denotes its bytes, all flushed -/
theorem absL_children (chs : List (Node α)) (h : ∀ ch ∈ chs, ch.off = 0 ∧ ch.pend = []) :
    absL chs = (chs.flatMap Node.readable).map (·, true) := by
  induction chs with
  | nil => rfl
  | cons ch rest ih =>
    obtain ⟨_, hp⟩ := h ch (List.mem_cons_self ..)
    rw [absL_cons, ih (fun x hx => h x (List.mem_cons_of_mem _ hx))]
    simp [Node.abs, hp]

/-- the child buffer of Slice represents the first `n` (flushed) entries, read-only -/
theorem R_sliceLB (chs : List (Node α)) (items : List (α × Bool)) (n : Nat)
    (hch : ∀ ch ∈ chs, ch.off = 0 ∧ ch.pend = [])
    (hn : n ≤ items.length) (hfl : ∀ x ∈ items.take n, x.2 = true)
    (hb : chs.flatMap Node.readable = (items.take n).map (·.1)) :
    R (sliceLB chs n) { items := items.take n, readOnly := true } := by
  refine ⟨?_, ?_, ?_, ?_, ?_, ?_⟩
  · show absL (chs.drop 0) = items.take n
    rw [List.drop_zero, absL_children chs hch, hb, map_fst_true _ hfl]
  · show n = ((items.take n).filter (·.2)).length
    rw [List.filter_eq_self.2 (by simpa using hfl)]; simp [hn]
  · show 0 = ((items.take n).filter (! ·.2)).length
    rw [List.filter_eq_nil_iff.2 (by intro y hy; simp [hfl y hy])]; rfl
  · intro _
    refine ⟨Nat.zero_le _, Nat.le_refl _, ?_, by simp, fun _ => ⟨rfl, rfl⟩⟩
    intro i nd hi
    obtain ⟨h0, hp⟩ := hch nd (List.mem_of_getElem? hi)
    have hlt : i < chs.length := (List.getElem?_eq_some_iff.1 hi).1
    refine ⟨by omega, fun _ => hp, fun _ hh => ?_, by simp, fun _ => hp⟩
    simp only [sliceLB] at hh; omega
  · intro _ c cp h; simp [sliceLB] at h
  · intro h; cases h

/-- the child made by `Refer(l)` of a node with `l ≤ len` holds the first `l` readable bytes -/
theorem Node.refer_child (nd : Node α) (l : Nat) :
    (nd.refer l).1.readable = nd.readable.take l ∧ (nd.refer l).1.off = 0 ∧ (nd.refer l).1.pend = [] := by
  simp [Node.refer, Node.next, Node.readable]

theorem sliceLoop_spec (ns : List (Node α)) (n : Nat) (hn : 0 < n)
    (hlen : n ≤ (absL ns).length) (hfl : ∀ x ∈ (absL ns).take n, x.2 = true)
    (hoff : ∀ nd ∈ ns, nd.off ≤ nd.buf.length) :
    ∃ chs ns' k, sliceLoop ns n = some (chs, ns', k) ∧
      chs.flatMap Node.readable = ((absL ns).take n).map (·.1) ∧
      (∀ ch ∈ chs, ch.off = 0 ∧ ch.pend = []) ∧
      absL (ns'.drop k) = (absL ns).drop n ∧ AdvL ns ns' ∧ ∃ nd, ns[k]? = some nd ∧ 0 < nd.len := by
  induction ns generalizing n with
  | nil => simp at hlen; omega
  | cons nd rest ih =>
    unfold sliceLoop
    have hoff' : ∀ x ∈ rest, x.off ≤ x.buf.length := fun x hx => hoff x (List.mem_cons_of_mem _ hx)
    have hnd := hoff nd (List.mem_cons_self ..)
    by_cases hge : nd.len ≥ n
    · simp only [hge, if_true]
      obtain ⟨hadv, ha, hk, hb⟩ := single_spec nd (({ nd with exposed := true } : Node α).refer n).2 rest n hge hn hoff
        rfl rfl rfl rfl rfl rfl
      refine ⟨_, _, 0, rfl, ?_, ?_, ha, hadv, hk⟩
      · rw [hb]; simp [Node.refer, Node.next, Node.readable]
      · intro ch hch
        simp only [List.mem_singleton] at hch; subst hch; exact ⟨rfl, rfl⟩
    · simp only [hge, if_false]
      have hlt : nd.len < n := by omega
      obtain ⟨t1, t2, t3, t4⟩ := stream_tail nd rest n hlt hlen hfl
      obtain ⟨chs, ns', k, e, hb, hc, ha, hadv, x, hx, hx0⟩ := ih (n - nd.len) (by omega) t1 t2 hoff'
      rw [e]; simp only []
      by_cases hpos : nd.len > 0
      · simp only [hpos, if_true]
        refine ⟨_, _, _, rfl, ?_, ?_, ?_, AdvL.cons ?_ hadv, x, by simpa using hx, hx0⟩
        · rw [t4, ← hb]
          simp only [List.flatMap_cons, Node.refer, Node.next, Node.readable, Node.len, List.drop_zero]
          rw [List.take_of_length_le (by simp)]
        · intro ch hch
          simp only [List.mem_cons] at hch
          rcases hch with rfl | hch
          · exact ⟨rfl, rfl⟩
          · exact hc ch hch
        · simp only [List.drop_succ_cons]
          rw [ha, t3]
        · exact ⟨rfl, rfl, rfl, rfl, rfl, by simp [Node.refer, Node.next],
            by simp [Node.len, Node.refer, Node.next]; omega⟩
      · simp only [hpos, if_false]
        refine ⟨_, _, _, rfl, ?_, hc, ?_, AdvL.cons (Adv.rfl' hnd) hadv, x, by simpa using hx, hx0⟩
        · have h0 : nd.readable = [] := by
            apply List.eq_nil_of_length_eq_zero; rw [Node.readable_length]; omega
          rw [t4, ← hb, h0]; rfl
        · simp only [List.drop_succ_cons]
          rw [ha, t3]

/-- `Release()` keeps the refinement relation (no `DecidableEq` needed) -/
theorem R.release {b : LB α} {q : Q α} (hR : R b q) (hd : q.dead = false) :
    ∃ b', b.release = some (b', .unit) ∧ R b' q := by
  have hsh := hR.shape hd
  obtain ⟨r', e, h1, h2, h3⟩ := release_eq b hsh
  refine ⟨_, e, ?_, hR.len, hR.mlen, fun _ => hsh.drop r' h2, ?_, hR.flags⟩
  · show absL ((b.nodes.drop r').drop 0) = q.items
    rw [List.drop_zero, h3, hR.abs]
  · intro _ c cp hc; cases hc

end Netpoll.Buf
