import Netpoll.Buf.Refine.Read
import Netpoll.Buf.Refine.Release
/-
Refinement of Slice(n): the parent is consumed like Next (plus a Release on the multi-node path),
the child is a read-only buffer over reference nodes holding the first `n` bytes.
-/
namespace Netpoll.Buf

variable {α : Type}

theorem specSlice_nonpos (q : Q α) (n : Int) (h : n ≤ 0) : specSlice q n = (q, some {}, .exact .unit) := by
  simp [specSlice, h]

theorem specSlice_short (q : Q α) (n : Int) (h : ¬ n ≤ 0) (hl : q.len < n.toNat) :
    specSlice q n = (q, none, .exact .err) := by
  simp [specSlice, h, hl]

theorem specSlice_ok (q : Q α) (n : Int) (h : ¬ n ≤ 0) (hl : ¬ q.len < n.toNat) :
    specSlice q n = ({ q with items := q.items.drop n.toNat },
      some { items := q.items.take n.toNat, readOnly := true }, .exact .unit) := by
  simp [specSlice, h, hl]

/-- a list of entries that are all flushed is determined by its bytes -/
theorem map_fst_true (l : List (α × Bool)) (h : ∀ x ∈ l, x.2 = true) : (l.map (·.1)).map (·, true) = l := by
  induction l with
  | nil => rfl
  | cons x xs ih =>
    simp only [List.map_cons]
    rw [ih (fun y hy => h y (List.mem_cons_of_mem _ hy))]
    have := h x (List.mem_cons_self ..)
    congr 1
    cases x; simp_all

/-- a chain of reference nodes (`off = 0`, nothing pending) denotes its bytes, all flushed -/
theorem absL_children (chs : List (Node α)) (h : ∀ ch ∈ chs, ch.off = 0 ∧ ch.pend = []) :
    absL chs = (chs.flatMap Node.readable).map (·, true) := by
  induction chs with
  | nil => rfl
  | cons ch rest ih =>
    obtain ⟨_, hp⟩ := h ch (List.mem_cons_self ..)
    rw [absL_cons, ih (fun x hx => h x (List.mem_cons_of_mem _ hx))]
    simp [Node.abs, hp]

/-- the child buffer of Slice represents the first `n` (flushed) entries, read-only -/
theorem R_sliceLB (chs : List (Node α)) (items : List (α × Bool)) (n : Nat)
    (hch : ∀ ch ∈ chs, ch.off = 0 ∧ ch.pend = [])
    (hn : n ≤ items.length) (hfl : ∀ x ∈ items.take n, x.2 = true)
    (hb : chs.flatMap Node.readable = (items.take n).map (·.1)) :
    R (sliceLB chs n) { items := items.take n, readOnly := true } := by
  refine ⟨?_, ?_, ?_, ?_, ?_, ?_⟩
  · show absL (chs.drop 0) = items.take n
    rw [List.drop_zero, absL_children chs hch, hb, map_fst_true _ hfl]
  · show n = ((items.take n).filter (·.2)).length
    rw [List.filter_eq_self.2 (by simpa using hfl)]; simp [hn]
  · show 0 = ((items.take n).filter (! ·.2)).length
    rw [List.filter_eq_nil_iff.2 (by intro y hy; simp [hfl y hy])]; rfl
  · intro _
    refine ⟨Nat.zero_le _, Nat.le_refl _, ?_, by simp, fun _ => ⟨rfl, rfl⟩⟩
    intro i nd hi
    obtain ⟨h0, hp⟩ := hch nd (List.mem_of_getElem? hi)
    have hlt : i < chs.length := (List.getElem?_eq_some_iff.1 hi).1
    refine ⟨by omega, fun _ => hp, fun _ hh => ?_, by simp, fun _ => hp⟩
    simp only [sliceLB] at hh; omega
  · intro _ c cp h; simp [sliceLB] at h
  · intro h; cases h

end Netpoll.Buf
