import Netpoll.Buf.Refine.Release
import Netpoll.Buf.Refine.Misc
/-
WriteBuffer / Append: the donor's chain from its read node to its write node is linked behind
the write node of `b`; the donor is dead afterwards.
-/
namespace Netpoll.Buf

variable {α : Type}

theorem writeBuffer_refines {b d : LB α} {q qd : Q α} (hRb : R b q) (hRd : R d qd)
    (hC : appendContract q qd = true) :
    ∃ b' d', b.writeBuffer d = some (b', d', .unit) ∧ R b' (specAppend q qd).1 ∧ R d' (specAppend q qd).2 := by
  simp only [appendContract, Bool.and_eq_true, Bool.not_eq_true'] at hC
  obtain ⟨⟨⟨⟨⟨hd, hro⟩, _⟩, hdd⟩, hdro⟩, _⟩ := hC
  have hsb := hRb.shape hd
  have hsd := hRd.shape hdd
  rw [hro] at hsb
  rw [hdro] at hsd
  unfold LB.writeBuffer specAppend
  have ht : (d.length + d.mallocSize = 0) = (qd.len + qd.mallocLen = 0) := by rw [hRd.len, hRd.mlen]
  by_cases h0 : qd.len + qd.mallocLen = 0
  · simp only [ht, h0, if_true]
    exact ⟨_, _, rfl, hRb, hRd⟩
  · obtain ⟨hfw, hwl⟩ := hsb.wr rfl
    obtain ⟨hdfw, hdwl⟩ := hsd.wr rfl
    have hdrf := hsd.r_le_f
    have hrf := hsb.r_le_f
    have c1 : ¬ b.w ≥ b.nodes.length := by omega
    have c2 : ¬ d.w ≥ d.nodes.length := by omega
    have c3 : ¬ d.r > d.w := by omega
    simp only [ht, h0, c1, c2, c3, if_false]
    have hmid : (d.nodes.drop d.r).take (d.w + 1 - d.r) = (d.nodes.take (d.w + 1)).drop d.r :=
      (List.drop_take ..).symm
    have hmidl : ((d.nodes.drop d.r).take (d.w + 1 - d.r)).length = d.w + 1 - d.r := by simp; omega
    have htl : (b.nodes.take (b.w + 1)).length = b.w + 1 := by simp; omega
    generalize hM : (d.nodes.drop d.r).take (d.w + 1 - d.r) = mid at hmid hmidl
    refine ⟨_, _, rfl, ⟨?_, ?_, ?_, ?_, ?_, fun _ => rfl⟩,
      ⟨rfl, rfl, rfl, fun h => (by cases h), fun h => (by cases h), hRd.flags⟩⟩
    · show absL ((b.nodes.take (b.w + 1) ++ mid).drop b.r) = q.items ++ qd.items
      rw [List.drop_append_of_le_length (by omega), absL_append, hsb.absL_take_w, hmid, hsd.absL_take_w]
      have e1 : b.abs = q.items := hRb.abs
      have e2 : d.abs = qd.items := hRd.abs
      rw [LB.abs_eq] at e1 e2
      rw [e1, e2]
    · show b.length + d.length = ((q.items ++ qd.items).filter (·.2)).length
      rw [List.filter_append, List.length_append, hRb.len, hRd.len]; rfl
    · show b.mallocSize + d.mallocSize = ((q.items ++ qd.items).filter (! ·.2)).length
      rw [List.filter_append, List.length_append, hRb.mlen, hRd.mlen]; rfl
    · intro _
      show Shape (b.nodes.take (b.w + 1) ++ mid) b.r b.f (b.w + mid.length) q.readOnly true
      rw [hro]
      refine ⟨hrf, by simp; omega, ?_, fun _ => ⟨by omega, by simp; omega⟩, fun h => by cases h⟩
      intro i nd hi
      by_cases hiw : i < b.w + 1
      · rw [List.getElem?_append_left (by omega), List.getElem?_take] at hi
        simp only [hiw, if_true] at hi
        have hn := hsb.node i nd hi
        obtain ⟨a1, a2, _⟩ := hn.2.2.2.1 rfl
        exact ⟨hn.1, hn.2.1, fun h => (by cases h), fun _ => ⟨a1, a2, fun hh => by omega⟩, fun h => by cases h⟩
      · rw [List.getElem?_append_right (by omega), htl] at hi
        have hlt : i - (b.w + 1) < mid.length := by
          rcases List.getElem?_eq_some_iff.1 hi with ⟨hh, _⟩; exact hh
        rw [hmid, List.getElem?_drop, List.getElem?_take] at hi
        have : d.r + (i - (b.w + 1)) < d.w + 1 := by omega
        simp only [this, if_true] at hi
        have hn := hsd.node _ nd hi
        obtain ⟨a1, a2, _⟩ := hn.2.2.2.1 rfl
        exact ⟨hn.1, fun hh => by omega, fun h => (by cases h), fun _ => ⟨a1, a2, fun hh => by omega⟩,
          fun h => by cases h⟩
    · intro _ c cp hc
      exact leadBytes_prefix_append q _ c (hRb.cache hd c cp hc)

end Netpoll.Buf
