import Netpoll.Buf.Refine.Flush
/-
MallocAck.
-/
namespace Netpoll.Buf

variable {α : Type}

/-- the chain suffix at `flush` after MallocAck: truncated node `k`, everything behind it discarded -/
def ackFinal (suf : List (Node α)) (k : Nat) : List (Node α) :=
  suf.take (k + 1) ++ (suf.drop (k + 1)).map Node.discard

/-- the pending bytes of a chain in stream order -/
abbrev pendL (ns : List (Node α)) : List α := ns.flatMap (·.pend)

theorem absL_append_ack (a b : List (Node α)) : absL (a ++ b) = absL a ++ absL b := List.flatMap_append

theorem Node.discard_abs (nd : Node α) : nd.discard.abs = [] := by
  simp [Node.discard, Node.abs, Node.readable]

theorem absL_map_discard (ns : List (Node α)) : absL (ns.map Node.discard) = [] := by
  induction ns with
  | nil => rfl
  | cons x xs ih => simp [Node.discard_abs, ih]

/-- a chain whose nodes behind the first hold no readable bytes: readable of the head, then all pending -/
theorem absL_head_pend (nd : Node α) (rest : List (Node α))
    (hwr : ∀ x ∈ nd :: rest, x.buf.length + x.pend.length = x.malloc)
    (htail : ∀ x ∈ rest, x.off = x.buf.length) :
    absL (nd :: rest) = nd.readable.map (·, true) ++ (pendL (nd :: rest)).map (·, false) := by
  induction rest generalizing nd with
  | nil => simp [Node.abs_wr nd (hwr nd (List.mem_cons_self ..)), pendL]
  | cons x xs ih =>
    have hx := ih x (fun y hy => hwr y (List.mem_cons_of_mem _ hy)) (fun y hy => htail y (List.mem_cons_of_mem _ hy))
    have hx0 : x.readable = [] := by
      simp [Node.readable, htail x (List.mem_cons_self ..)]
    rw [absL_cons, hx, hx0, Node.abs_wr nd (hwr nd (List.mem_cons_self ..))]
    simp [pendL]

theorem pendL_map_discard (ns : List (Node α)) : pendL (ns.map Node.discard) = [] := by
  induction ns with
  | nil => rfl
  | cons x xs ih => simp only [pendL] at ih; simp [pendL, Node.discard, ih]

theorem ackFinal_cons (nd : Node α) (rest : List (Node α)) (k : Nat) :
    ackFinal (nd :: rest) (k + 1) = nd :: ackFinal rest k := by
  simp [ackFinal]

theorem ackLoop_spec (ns : List (Node α)) (ack : Nat)
    (hwr : ∀ x ∈ ns, x.off ≤ x.buf.length ∧ x.buf.length + x.pend.length = x.malloc ∧ x.malloc ≤ x.cap)
    (hack : ack ≤ (pendL ns).length) (hne : ns ≠ []) :
    ∃ suf k, ackLoop ns (ack : Int) = some (suf, k) ∧ k < ns.length ∧
      pendL (ackFinal suf k) = (pendL ns).take ack ∧
      (ackFinal suf k).length = ns.length ∧
      ∀ (i : Nat) (y : Node α), (ackFinal suf k)[i]? = some y → ∃ x, ns[i]? = some x ∧
        y.off = x.off ∧ y.off ≤ y.buf.length ∧ y.buf.length + y.pend.length = y.malloc ∧ y.malloc ≤ y.cap ∧
        (i ≤ k → y.buf = x.buf) ∧ (k < i → y.off = y.buf.length ∧ y.pend = []) := by
  induction ns generalizing ack with
  | nil => exact absurd rfl hne
  | cons nd rest ih =>
    obtain ⟨w1, w2, w3⟩ := hwr nd (List.mem_cons_self ..)
    have hwr' : ∀ x ∈ rest, x.off ≤ x.buf.length ∧ x.buf.length + x.pend.length = x.malloc ∧ x.malloc ≤ x.cap :=
      fun x hx => hwr x (List.mem_cons_of_mem _ hx)
    have hpl : nd.pendLen = (nd.pend.length : Int) := by simp only [Node.pendLen]; omega
    unfold ackLoop
    by_cases hge : nd.pendLen ≥ (ack : Int)
    · rw [if_pos hge]
      have hge' : ack ≤ nd.pend.length := by omega
      refine ⟨_, 0, rfl, by simp, ?_, by simp [ackFinal], ?_⟩
      · simp only [ackFinal, List.take_succ_cons, List.take_zero, List.drop_succ_cons, List.drop_zero]
        simp only [pendL, List.flatMap_append, List.flatMap_cons, List.flatMap_nil, List.append_nil]
        have := pendL_map_discard rest
        simp only [pendL] at this
        rw [this, List.append_nil, List.take_append_of_le_length hge']
        simp
      · intro i y hy
        simp only [ackFinal, List.take_succ_cons, List.take_zero, List.drop_succ_cons, List.drop_zero] at hy
        cases i with
        | zero =>
          simp at hy; subst hy
          refine ⟨nd, by simp, rfl, w1, ?_, ?_, fun _ => rfl, fun h => by omega⟩
          · simp only [List.length_take]
            have : ((ack : Int) + (nd.buf.length : Int)).toNat = ack + nd.buf.length := by omega
            rw [this]; omega
          · have : ((ack : Int) + (nd.buf.length : Int)).toNat = ack + nd.buf.length := by omega
            simp only [this]; omega
        | succ i =>
          simp only [List.singleton_append, List.getElem?_cons_succ, List.getElem?_map] at hy
          cases hx : rest[i]? with
          | none => rw [hx] at hy; cases hy
          | some x =>
            rw [hx] at hy; simp at hy; subst hy
            obtain ⟨x1, x2, x3⟩ := hwr' x (List.mem_of_getElem? hx)
            refine ⟨x, by simpa using hx, rfl, ?_, ?_, ?_, fun h => by omega, fun _ => ⟨?_, rfl⟩⟩
            · simp [Node.discard]; omega
            · simp [Node.discard]; omega
            · simp only [Node.discard]; omega
            · simp [Node.discard]; omega
    · rw [if_neg hge]
      have hlt : nd.pend.length < ack := by omega
      have hcast : (ack : Int) - nd.pendLen = ((ack - nd.pend.length : Nat) : Int) := by omega
      rw [hcast]
      have hack' : ack - nd.pend.length ≤ (pendL rest).length := by
        simp only [pendL, List.flatMap_cons, List.length_append] at hack ⊢; omega
      have hne' : rest ≠ [] := by
        intro h; subst h; simp [pendL] at hack'; omega
      obtain ⟨suf, k, e, h1, h2, h3, h4⟩ := ih (ack - nd.pend.length) hwr' hack' hne'
      rw [e]
      refine ⟨_, _, rfl, by simp only [List.length_cons]; omega, ?_, by rw [ackFinal_cons]; simp [h3], ?_⟩
      · rw [ackFinal_cons]
        show nd.pend ++ pendL (ackFinal suf k) = (nd.pend ++ pendL rest).take ack
        rw [h2, List.take_append, List.take_of_length_le (Nat.le_of_lt hlt)]
      · intro i y hy
        rw [ackFinal_cons] at hy
        cases i with
        | zero =>
          simp at hy; subst hy
          exact ⟨nd, by simp, rfl, w1, w2, w3, fun _ => rfl, fun h => by omega⟩
        | succ i =>
          simp only [List.getElem?_cons_succ] at hy
          obtain ⟨x, hx, r1, r2, r3, r4, r5, r6⟩ := h4 i y hy
          exact ⟨x, by simpa using hx, r1, r2, r3, r4, fun h => r5 (by omega), fun h => r6 (by omega)⟩

/-- a stream made of flushed entries followed by pending entries -/
theorem tp_facts (T P : List α) (n : Nat) :
    let tp := T.map (·, true) ++ P.map (·, false)
    (tp.filter (·.2)).length = T.length ∧ pendCount tp = P.length ∧
    tp.take (T.length + n) = T.map (·, true) ++ (P.take n).map (·, false) ∧
    tp.takeWhile (·.2) = T.map (·, true) := by
  have hT : (T.map (·, true)).filter (·.2) = T.map (·, true) := by
    apply List.filter_eq_self.2; intro x hx
    obtain ⟨a, _, rfl⟩ := List.mem_map.1 hx; rfl
  have hP : (P.map (·, false)).filter (·.2) = [] := by
    apply List.filter_eq_nil_iff.2; intro x hx
    obtain ⟨a, _, rfl⟩ := List.mem_map.1 hx; simp
  refine ⟨?_, ?_, ?_, ?_⟩
  · simp only [List.filter_append, hT, hP]; simp
  · rw [pendCount_append, pendCount_true, pendCount_false]; omega
  · rw [List.take_append, List.take_of_length_le (by simp)]
    simp [List.map_take]
  · induction T with
    | nil => cases P <;> simp
    | cons t ts ih => simpa using ih

theorem absL_all_flushed (A : List (Node α)) (h : ∀ nd ∈ A, nd.pend = []) :
    absL A = (A.flatMap Node.readable).map (·, true) := by
  induction A with
  | nil => rfl
  | cons x xs ih =>
    rw [absL_cons, ih (fun nd hnd => h nd (List.mem_cons_of_mem _ hnd))]
    simp [Node.abs, h x (List.mem_cons_self ..)]

theorem mallocAck_refines [DecidableEq α] {b : LB α} {q : Q α} (hR : R b q) (n : Int)
    (hC : Contract q (.mallocAck n) = true) :
    ∃ b' r, b.mallocAck n = some (b', r) ∧ R b' (specStep q (.mallocAck n)).1 ∧
      Matches r (specStep q (.mallocAck n)).2 := by
  simp only [Contract, Bool.and_eq_true, Bool.not_eq_true', decide_eq_true_eq] at hC
  obtain ⟨⟨⟨⟨hd, hro⟩, _⟩, happ⟩, hnm⟩ := hC
  unfold LB.mallocAck
  simp only [specStep]
  by_cases h0 : n < 0
  · simp only [h0, if_true]; exact ⟨_, _, rfl, hR, rfl⟩
  simp only [h0, if_false]
  have hsh := hR.shape hd
  rw [hro, happ] at hsh
  have hw := hsh.wr rfl
  have hrf := hsh.r_le_f
  have hfl : b.f < b.nodes.length := by omega
  -- the chain: A (read .. flush) ++ ns (flush ..)
  obtain ⟨fn, hfn⟩ : ∃ fn, b.nodes[b.f]? = some fn := ⟨_, List.getElem?_eq_getElem hfl⟩
  have hns : b.nodes.drop b.f = fn :: b.nodes.drop (b.f + 1) := by
    rw [List.drop_eq_getElem_cons hfl]; congr 1; exact (List.getElem?_eq_some_iff.1 hfn).2
  have hwrAll : ∀ x ∈ b.nodes, x.off ≤ x.buf.length ∧ x.buf.length + x.pend.length = x.malloc ∧ x.malloc ≤ x.cap := by
    intro x hx
    obtain ⟨i, hi⟩ := List.getElem?_of_mem hx
    have := hsh.node i x hi
    exact ⟨this.1, (this.2.2.2.1 rfl).1, (this.2.2.2.1 rfl).2.1⟩
  have hwr : ∀ x ∈ b.nodes.drop b.f, x.off ≤ x.buf.length ∧ x.buf.length + x.pend.length = x.malloc ∧ x.malloc ≤ x.cap :=
    fun x hx => hwrAll x (List.mem_of_mem_drop hx)
  have htail : ∀ x ∈ b.nodes.drop (b.f + 1), x.off = x.buf.length := by
    intro x hx
    obtain ⟨i, hi⟩ := List.getElem?_of_mem hx
    rw [List.getElem?_drop] at hi
    exact (hsh.node _ x hi).2.2.1 rfl (by omega)
  have hA : ∀ nd ∈ (b.nodes.take b.f).drop b.r, nd.pend = [] := by
    intro nd hnd
    obtain ⟨i, hi⟩ := List.getElem?_of_mem (List.mem_of_mem_drop hnd)
    rw [List.getElem?_take] at hi
    split at hi
    · rename_i hif; exact (hsh.node i nd hi).2.1 hif
    · cases hi
  have hsplit : b.nodes.drop b.r = (b.nodes.take b.f).drop b.r ++ b.nodes.drop b.f := by
    conv => lhs; rw [← List.take_append_drop b.f b.nodes]
    rw [List.drop_append_of_le_length (by simp; omega)]
  -- abstract stream: T flushed, then P pending
  have hitems : q.items = (((b.nodes.take b.f).drop b.r).flatMap Node.readable ++ fn.readable).map (·, true) ++
      (pendL (b.nodes.drop b.f)).map (·, false) := by
    rw [← hR.abs, LB.abs_eq, hsplit]
    rw [absL_append_ack, absL_all_flushed _ hA, hns,
      absL_head_pend fn _ (fun x hx => (hwr x (hns ▸ hx)).2.1) htail]
    simp
  generalize hT : ((b.nodes.take b.f).drop b.r).flatMap Node.readable ++ fn.readable = T at hitems
  generalize hP : pendL (b.nodes.drop b.f) = P at hitems
  obtain ⟨t1, t2, t3, t4⟩ := tp_facts T P n.toNat
  simp only [← hitems] at t1 t2 t3 t4
  have hqlen : q.len = T.length := t1
  have hqm : q.mallocLen = P.length := t2
  have hack : n.toNat ≤ (pendL (b.nodes.drop b.f)).length := by rw [hP]; omega
  obtain ⟨suf, k, e, k1, k2, k3, k4⟩ := ackLoop_spec (b.nodes.drop b.f) n.toNat hwr hack (by rw [hns]; simp)
  have hsl : suf.length = (b.nodes.drop b.f).length := by
    rw [← k3]; simp [ackFinal]; omega
  have hdl : (b.nodes.drop b.f).length = b.nodes.length - b.f := by simp
  have e' : ackLoop (({ b with mallocSize := n.toNat, w := b.f } : LB α).nodes.drop
      ({ b with mallocSize := n.toNat, w := b.f } : LB α).f) (n.toNat : Int) = some (suf, k) := e
  simp only [e', spliceFrom]
  have hnp : ¬ b.f + k ≥ (b.nodes.take b.f ++ suf).length := by simp; omega
  simp only [hnp, if_false]
  refine ⟨_, _, rfl, ?_, rfl⟩
  have hnodes : (b.nodes.take b.f ++ suf).take (b.f + k + 1) ++
      ((b.nodes.take b.f ++ suf).drop (b.f + k + 1)).map Node.discard = b.nodes.take b.f ++ ackFinal suf k := by
    have hl : (b.nodes.take b.f).length = b.f := by simp; omega
    rw [List.take_append, List.drop_append, hl, List.take_of_length_le (by omega),
      List.drop_eq_nil_of_le (by omega)]
    simp only [show b.f + k + 1 - b.f = k + 1 by omega, ackFinal, List.nil_append, List.append_assoc]
  -- the new chain suffix at flush
  obtain ⟨y0, F', hF⟩ : ∃ y0 F', ackFinal suf k = y0 :: F' := by
    cases h : ackFinal suf k with
    | nil => rw [h] at k3; simp at k3; omega
    | cons y ys => exact ⟨y, ys, rfl⟩
  have hy0 := k4 0 y0 (by rw [hF]; rfl)
  obtain ⟨x0, hx0, y1, y2, y3, y4, y5, y6⟩ := hy0
  have hx0' : x0 = fn := by rw [hns] at hx0; simpa using hx0.symm
  subst hx0'
  have hFabs : absL (ackFinal suf k) = x0.readable.map (·, true) ++ ((P.take n.toNat)).map (·, false) := by
    rw [hF, absL_head_pend y0 F']
    · rw [← hF, k2, hP]
      simp [Node.readable, y1, y5 (by omega)]
    · intro x hx
      obtain ⟨i, hi⟩ := List.getElem?_of_mem (hF ▸ hx)
      obtain ⟨_, _, _, _, r3, _, _, _⟩ := k4 i x hi
      exact r3
    · intro x hx
      obtain ⟨i, hi⟩ := List.getElem?_of_mem hx
      have hi' : (ackFinal suf k)[i + 1]? = some x := by rw [hF]; simpa using hi
      obtain ⟨z, hz, r1, r2, r3, r4, r5, r6⟩ := k4 (i + 1) x hi'
      by_cases hik : i + 1 ≤ k
      · rw [r1, r5 hik]
        rw [List.getElem?_drop] at hz
        exact (hsh.node _ z hz).2.2.1 rfl (by omega)
      · exact (r6 (by omega)).1
  refine ⟨?_, ?_, ?_, fun _ => ?_, ?_, fun h => by rw [happ] at h; cases h⟩
  · show absL ((_ : List (Node α)).drop b.r) = q.items.take (q.len + n.toNat)
    rw [hnodes, List.drop_append_of_le_length (by simp; omega)]
    rw [absL_append_ack, hqlen, t3, absL_all_flushed _ hA, hFabs, ← hT]
    simp
  · show b.length = ((q.items.take (q.len + n.toNat)).filter (·.2)).length
    rw [hqlen, t3, hR.len, hqlen]
    exact (tp_facts T (P.take n.toNat) 0).1.symm
  · show n.toNat = ((q.items.take (q.len + n.toNat)).filter (! ·.2)).length
    rw [hqlen, t3]
    have := (tp_facts T (P.take n.toNat) 0).2.1
    simp only [pendCount] at this
    rw [this, List.length_take]; omega
  · show Shape _ b.r b.f (b.f + k) q.readOnly q.appSinceFlush
    rw [hnodes, hro, happ]
    have hl : (b.nodes.take b.f).length = b.f := by simp; omega
    refine ⟨hrf, by simp; omega, ?_, fun _ => ⟨by omega, by simp [k3]; omega⟩, fun h => by cases h⟩
    intro i nd hi
    by_cases hif : i < b.f
    · rw [List.getElem?_append_left (by omega), List.getElem?_take] at hi
      simp only [hif, if_true] at hi
      have hn := hsh.node i nd hi
      obtain ⟨a1, a2, a3⟩ := hn.2.2.2.1 rfl
      exact ⟨hn.1, hn.2.1, fun _ h => by omega, fun _ => ⟨a1, a2, fun h => by omega⟩, fun h => by cases h⟩
    · rw [List.getElem?_append_right (by omega), hl] at hi
      obtain ⟨z, hz, r1, r2, r3, r4, r5, r6⟩ := k4 (i - b.f) nd hi
      rw [List.getElem?_drop, show b.f + (i - b.f) = i by omega] at hz
      refine ⟨r2, fun h => by omega, ?_, fun _ => ⟨r3, r4, fun h => r6 (by omega)⟩, fun h => by cases h⟩
      intro _ hfi
      by_cases hik : i - b.f ≤ k
      · rw [r1, r5 hik]
        exact (hsh.node _ z hz).2.2.1 rfl hfi
      · exact (r6 (by omega)).1
  · intro _ c cp hc
    have h1 := hR.cache hd c cp hc
    simp only [Q.leadBytes] at h1 ⊢
    show c <+: ((q.items.take (q.len + n.toNat)).takeWhile (·.2)).map (·.1)
    rw [hqlen, t3, (tp_facts T (P.take n.toNat) 0).2.2.2]
    rw [t4] at h1
    exact h1

end Netpoll.Buf
