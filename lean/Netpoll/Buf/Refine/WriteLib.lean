import Netpoll.Buf.Refine.Release
/-
Helpers for the writer side: pool capacities, `growth`, chain-invariant preservation under
`set` / append, and the abstract content of a chain whose tail is empty.
-/
namespace Netpoll.Buf

variable {α : Type}

theorem pow2ge_ge (c : Nat) : c ≤ pow2ge c := by
  unfold pow2ge
  split
  · omega
  · have := @Nat.lt_log2_self (c - 1)
    omega

theorem poolCap_ge (cfg : Cfg) (c : Nat) : c ≤ poolCap cfg c := by
  unfold poolCap; split
  · exact Nat.le_refl _
  · exact pow2ge_ge c

theorem newNode_pos (cfg : Cfg) (n : Nat) (hn : 0 < n) :
    let nd : Node α := newNode cfg n
    nd.buf = [] ∧ nd.off = 0 ∧ nd.malloc = 0 ∧ nd.pend = [] ∧ nd.unmanaged = false ∧ n ≤ nd.cap := by
  have h0 : n ≠ 0 := by omega
  simp only [newNode, h0, if_false, true_and]
  have := poolCap_ge cfg (if n < cfg.linkBufferCap then cfg.linkBufferCap else n)
  split at this <;> (split <;> omega)

theorem newNode_zero (cfg : Cfg) :
    (newNode cfg 0 : Node α) = { unmanaged := true } := by simp [newNode]

/-- the per-node clause of `Shape` -/
abbrev NodeInv (f w : Nat) (ro app : Bool) (i : Nat) (nd : Node α) : Prop :=
  nd.off ≤ nd.buf.length ∧
  (i < f → nd.pend = []) ∧
  (app = false → f < i → nd.off = nd.buf.length) ∧
  (ro = false →
    nd.buf.length + nd.pend.length = nd.malloc ∧ nd.malloc ≤ nd.cap ∧
    (w < i → nd.off = nd.buf.length ∧ nd.pend = [])) ∧
  (ro = true → nd.pend = [])

/-- a node that is empty and has nothing pending satisfies every per-node clause behind `f` -/
theorem NodeInv.of_empty {f w : Nat} {app : Bool} {i : Nat} {nd : Node α}
    (hb : nd.off = nd.buf.length) (hp : nd.pend = []) (hm : nd.buf.length = nd.malloc) (hc : nd.malloc ≤ nd.cap) :
    NodeInv f w false app i nd := by
  refine ⟨by omega, fun _ => hp, fun _ _ => hb, fun _ => ⟨by simp [hp, hm], hc, fun _ => ⟨hb, hp⟩⟩, fun h => by cases h⟩

theorem Shape.set {nodes : List (Node α)} {r f w ro app} (h : Shape nodes r f w ro app) (i : Nat) (x : Node α)
    (hx : NodeInv f w ro app i x) : Shape (nodes.set i x) r f w ro app := by
  refine ⟨h.r_le_f, by simpa using h.f_le, ?_, by simpa using h.wr, by simpa using h.rd⟩
  intro j nd hj
  rw [List.getElem?_set] at hj
  split at hj
  · split at hj
    · cases hj; subst_vars; exact hx
    · cases hj
  · exact h.node j nd hj

/-- the write cursor may move forward over (empty) nodes -/
theorem Shape.mono_w {nodes : List (Node α)} {r f w app} (h : Shape nodes r f w false app) (w' : Nat)
    (h1 : w ≤ w') (h2 : w' < nodes.length) : Shape nodes r f w' false app := by
  have hw := h.wr rfl
  refine ⟨h.r_le_f, h.f_le, ?_, fun _ => ⟨by omega, h2⟩, fun h => by cases h⟩
  intro i nd hi
  have hn := h.node i nd hi
  obtain ⟨a1, a2, a3⟩ := hn.2.2.2.1 rfl
  exact ⟨hn.1, hn.2.1, hn.2.2.1, fun _ => ⟨a1, a2, fun hh => a3 (by omega)⟩, hn.2.2.2.2⟩

/-- cut the chain behind the write node and append `ext`; the last new node becomes the write node -/
theorem Shape.cut_append {nodes : List (Node α)} {r f w app app'} (h : Shape nodes r f w false app)
    (ext : List (Node α)) (hne : ext ≠ []) (happ : app' = false → app = false)
    (hext : ∀ (j : Nat) (y : Node α), ext[j]? = some y → NodeInv f (w + ext.length) false app' (w + 1 + j) y) :
    Shape (nodes.take (w + 1) ++ ext) r f (w + ext.length) false app' := by
  have hw := h.wr rfl
  have hl : (nodes.take (w + 1)).length = w + 1 := by simp; omega
  have hel : 0 < ext.length := List.length_pos_iff.2 hne
  refine ⟨h.r_le_f, by simp; omega, ?_, fun _ => ⟨by omega, by simp; omega⟩, fun h => by cases h⟩
  intro i nd hi
  by_cases hiw : i < w + 1
  · rw [List.getElem?_append_left (by omega), List.getElem?_take] at hi
    simp only [hiw, if_true] at hi
    have hn := h.node i nd hi
    obtain ⟨a1, a2, a3⟩ := hn.2.2.2.1 rfl
    refine ⟨hn.1, hn.2.1, fun ha => hn.2.2.1 (happ ha), fun _ => ⟨a1, a2, fun hh => by omega⟩, hn.2.2.2.2⟩
  · rw [List.getElem?_append_right (by omega), hl] at hi
    have := hext (i - (w + 1)) nd hi
    rwa [show w + 1 + (i - (w + 1)) = i by omega] at this

/-- nodes behind the write node are abstractly empty -/
theorem Shape.tail_nil {nodes : List (Node α)} {r f w app} (h : Shape nodes r f w false app) (j : Nat) (hj : w < j) :
    absL (nodes.drop j) = [] := by
  apply List.flatMap_eq_nil_iff.2
  intro nd hnd
  obtain ⟨i, hi⟩ := List.getElem?_of_mem hnd
  rw [List.getElem?_drop] at hi
  obtain ⟨_, _, a3⟩ := (h.node (j + i) nd hi).2.2.2.1 rfl
  obtain ⟨b1, b2⟩ := a3 (by omega)
  exact Node.abs_nil nd (by simp [Node.len, b1]) b2

/-- with everything pending recorded in `pend`, a node's abstract content -/
theorem Node.abs_wr (nd : Node α) (h : nd.buf.length + nd.pend.length = nd.malloc) :
    nd.abs = nd.readable.map (·, true) ++ nd.pend.map (·, false) := by
  simp only [Node.abs]
  rw [List.take_of_length_le (by omega)]

/-- replacing node `i ≥ r` (behind which the chain is abstractly empty) by a node with `extra` appended -/
theorem absL_set_tail {nodes : List (Node α)} {r i : Nat} {nd x : Node α} {rest : List (Node α)}
    {extra : List (α × Bool)} (hri : r ≤ i) (hd : nodes.drop i = nd :: rest) (hrest : absL rest = [])
    (hx : x.abs = nd.abs ++ extra) :
    absL ((nodes.set i x).drop r) = absL (nodes.drop r) ++ extra := by
  have hil : i < nodes.length := by
    apply Nat.lt_of_not_le; intro hle
    rw [List.drop_eq_nil_of_le hle] at hd; cases hd
  rw [set_of_drop_eq_cons hd x]
  rw [List.drop_append_of_le_length (by simp; omega)]
  have e : nodes.drop r = (nodes.take i).drop r ++ nd :: rest := by
    conv => lhs; rw [← List.take_append_drop i nodes, hd]
    rw [List.drop_append_of_le_length (by simp; omega)]
  rw [e]
  simp only [absL, List.flatMap_append, List.flatMap_cons] at hrest ⊢
  rw [hx, hrest]; simp

/-- `growth(n)` for `n > 0` from a write node on the chain: finds (or appends) a managed node with room -/
theorem growthLoop_spec (cfg : Cfg) (n : Nat) (hn : 0 < n) (ns : List (Node α)) (w : Nat) (hne : ns ≠ []) :
    ∃ j nd, (growthLoop cfg n ns w).2 = w + j ∧
      ((growthLoop cfg n ns w).1 = ns ∧ j < ns.length ∨
       (growthLoop cfg n ns w).1 = ns ++ [newNode cfg n] ∧ j = ns.length) ∧
      (growthLoop cfg n ns w).1[j]? = some nd ∧ nd.unmanaged = false ∧ nd.malloc + n ≤ nd.cap := by
  induction ns generalizing w with
  | nil => exact absurd rfl hne
  | cons nd rest ih =>
    obtain ⟨_, _, n3, _, n5, n6⟩ := newNode_pos (α := α) cfg n hn
    cases rest with
    | nil =>
      unfold growthLoop
      by_cases hc : nd.unmanaged ∨ nd.cap - nd.malloc < n
      · simp only [hc, if_true]
        exact ⟨1, newNode cfg n, rfl, Or.inr ⟨rfl, rfl⟩, rfl, n5, by omega⟩
      · simp only [hc, if_false]
        refine ⟨0, nd, rfl, Or.inl ⟨by first | rfl | trivial, by simp⟩, rfl, by simpa using (not_or.1 hc).1, ?_⟩
        have := (not_or.1 hc).2; omega
    | cons nd2 rest2 =>
      unfold growthLoop
      by_cases hc : nd.unmanaged ∨ nd.cap - nd.malloc < n
      · simp only [hc, if_true]
        obtain ⟨j, x, e1, e2, e3, e4, e5⟩ := ih (w + 1) (by simp)
        refine ⟨j + 1, x, by rw [e1]; omega, ?_, by simpa using e3, e4, e5⟩
        rcases e2 with ⟨a, b⟩ | ⟨a, b⟩
        · exact Or.inl ⟨by rw [a], by simp at b ⊢; omega⟩
        · exact Or.inr ⟨by rw [a]; simp, by simp at b ⊢; omega⟩
      · simp only [hc, if_false]
        refine ⟨0, nd, rfl, Or.inl ⟨by first | rfl | trivial, by simp⟩, rfl, by simpa using (not_or.1 hc).1, ?_⟩
        have := (not_or.1 hc).2; omega

end Netpoll.Buf
