import Netpoll.Buf.Refine.Read
/-
Refinement of the searching reads: indexByte (pure) and Until (indexByte, then Next).
-/
namespace Netpoll.Buf

variable {α : Type}

/-- `idxOf?` over an append: the first hit in `xs`, else the first hit in `ys` shifted -/
theorem idxOf?_append' [DecidableEq α] (c : α) (xs ys : List α) :
    (xs ++ ys).idxOf? c = match xs.idxOf? c with
      | some i => some i
      | none => (ys.idxOf? c).map (· + xs.length) := by
  simp only [List.idxOf?, List.findIdx?_append]
  cases List.findIdx? (· == c) xs <;> simp

/-- the flushed bytes of a chain suffix are the readable bytes of its nodes -/
theorem flushed_absL (ns : List (Node α)) :
    ((absL ns).filter (·.2)).map (·.1) = ns.flatMap Node.readable := by
  induction ns with
  | nil => rfl
  | cons nd rest ih =>
    simp only [List.filter_append, List.map_append, ih, List.flatMap_cons]
    congr 1
    simp only [Node.abs, List.filter_append, List.map_append, List.filter_map, List.map_map]
    have h1 : List.filter ((fun x : α × Bool => x.2) ∘ fun x => (x, true)) nd.readable = nd.readable :=
      List.filter_eq_self.2 (by simp)
    have h2 : ∀ l : List α, List.filter ((fun x : α × Bool => x.2) ∘ fun x => (x, false)) l = [] :=
      fun l => List.filter_eq_nil_iff.2 (by simp)
    rw [h1, h2]
    simp [Function.comp_def]

theorem R.flushedBytes_eq {b : LB α} {q : Q α} (hR : R b q) :
    q.flushedBytes = (b.nodes.drop b.r).flatMap Node.readable := by
  rw [← flushed_absL, ← LB.abs_eq, hR.abs]; rfl

theorem R.length_eq {b : LB α} {q : Q α} (hR : R b q) :
    b.length = ((b.nodes.drop b.r).flatMap Node.readable).length := by
  rw [hR.len, ← hR.flushedBytes_eq]; simp [Q.len, Q.flushedBytes]

/-- the scan loop of indexByte: it searches the first `unread` readable bytes from `skip` on -/
theorem indexLoop_spec [DecidableEq α] (c : α) (ns : List (Node α)) (unread skip past : Nat)
    (hu : unread ≤ (ns.flatMap Node.readable).length) :
    indexLoop c ns unread skip past =
      some (match (((ns.flatMap Node.readable).take unread).drop skip).idxOf? c with
        | some i => ((past + skip + i : Nat) : Int)
        | none => -1) := by
  induction ns generalizing unread skip past with
  | nil =>
    have : unread = 0 := by simpa using hu
    subst this
    unfold indexLoop; simp
  | cons nd rest ih =>
    unfold indexLoop
    by_cases h0 : unread = 0
    · subst h0; simp
    · simp only [h0, if_false]
      simp only [List.flatMap_cons, List.length_append, Node.readable_length] at hu
      -- the scanned part of this node
      generalize hn : (if nd.len ≥ unread then unread else nd.len) = n
      have hnl : n ≤ nd.len := by split at hn <;> omega
      have hnu : n ≤ unread := by split at hn <;> omega
      have hrest : unread - n ≤ (rest.flatMap Node.readable).length := by split at hn <;> omega
      have hfull : n < unread → n = nd.len := by split at hn <;> omega
      have htake : ((nd :: rest).flatMap Node.readable).take unread =
          nd.peek n ++ (rest.flatMap Node.readable).take (unread - n) := by
        simp only [List.flatMap_cons, Node.peek, List.take_append, Node.readable_length]
        show nd.readable.take unread ++ _ = nd.readable.take n ++ _
        by_cases hlt : n < unread
        · have := hfull hlt
          subst this
          have e1 : nd.readable.take unread = nd.readable :=
            List.take_of_length_le (by rw [Node.readable_length]; omega)
          have e2 : nd.readable.take nd.len = nd.readable :=
            List.take_of_length_le (by rw [Node.readable_length]; omega)
          rw [e1, e2]
        · have : n = unread := by omega
          subst this
          rw [show n - nd.len = 0 by omega, show n - n = 0 by omega]
      have hpl : (nd.peek n).length = n := by
        simp only [Node.peek, List.length_take]
        have := Node.readable_length nd
        simp only [Node.readable] at this
        omega
      rw [htake]
      by_cases hs : skip ≥ n
      · simp only [hs, if_true]
        rw [ih (unread - n) (skip - n) (past + n) hrest]
        have hnil : (nd.peek n).drop skip = [] := List.drop_eq_nil_of_le (by omega)
        rw [List.drop_append, hpl, hnil, List.nil_append]
        cases ((rest.flatMap Node.readable).take (unread - n)).drop (skip - n) |>.idxOf? c with
        | none => rfl
        | some i => simp only; congr 2; omega
      · simp only [hs, if_false]
        rw [List.drop_append_of_le_length (by omega), idxOf?_append']
        cases hi : ((nd.peek n).drop skip).idxOf? c with
        | some i => rfl
        | none =>
          simp only []
          rw [ih (unread - n) 0 (past + n) hrest, List.drop_zero]
          cases ((rest.flatMap Node.readable).take (unread - n)).idxOf? c with
          | none => rfl
          | some i =>
            simp only [Option.map_some, List.length_drop, hpl]
            congr 2; omega

theorem indexByte_spec [DecidableEq α] {b : LB α} {q : Q α} (hR : R b q) (c : α) (skip : Nat) :
    b.indexByte c skip = some (match (q.flushedBytes.drop skip).idxOf? c with
      | some i => ((skip + i : Nat) : Int)
      | none => -1) := by
  unfold LB.indexByte
  have hl := hR.length_eq
  rw [hR.flushedBytes_eq]
  by_cases hs : skip ≥ b.length
  · simp only [hs, if_true]
    rw [List.drop_eq_nil_of_le (by omega)]; rfl
  · simp only [hs, if_false]
    rw [indexLoop_spec c _ _ _ _ (by omega), List.take_of_length_le (by omega)]
    simp

theorem indexByte_refines [DecidableEq α] (cfg : Cfg) {b : LB α} {q : Q α} (hR : R b q) (c : α) (skip : Nat)
    (hC : Contract q (.indexByte c skip) = true) :
    ∃ b' r, b.step cfg (.indexByte c skip) = some (b', r) ∧ R b' (specStep q (.indexByte c skip)).1 ∧
      Matches r (specStep q (.indexByte c skip)).2 := by
  have _ := hC  -- not needed: indexByte only reads, `R` alone determines the answer
  simp only [LB.step, specStep, indexByte_spec hR c skip, Option.map_some]
  exact ⟨_, _, rfl, hR, rfl⟩

theorem until_refines [DecidableEq α] (cfg : Cfg) {b : LB α} {q : Q α} (hR : R b q) (c : α)
    (hC : Contract q (.until c) = true) :
    ∃ b' r, b.until cfg c = some (b', r) ∧ R b' (specStep q (.until c)).1 ∧ Matches r (specStep q (.until c)).2 := by
  unfold LB.until
  simp only [indexByte_spec hR c 0, List.drop_zero, Nat.zero_add, specStep]
  cases q.flushedBytes.idxOf? c with
  | none => exact ⟨_, _, rfl, hR, rfl⟩
  | some i =>
    have hneg : ¬ ((i : Nat) : Int) < 0 := by omega
    simp only [hneg, if_false]
    exact next_refines cfg hR ((i : Int) + 1) hC

end Netpoll.Buf
