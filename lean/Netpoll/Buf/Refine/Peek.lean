import Netpoll.Buf.Refine.Consume
/-
Refinement of Peek: the queue is unchanged; the single-node path only sets the exposed flag of the
read node, the multi-node path fills the peek cache through `peekLoop`.
-/
namespace Netpoll.Buf

variable {α : Type}

/-- the flushed entries of a node's abstract content are its readable bytes -/
theorem Node.abs_flushed (nd : Node α) : (nd.abs.filter (·.2)).map (·.1) = nd.readable := by
  simp only [Node.abs, List.filter_append, List.map_append]
  generalize nd.pend.take (nd.malloc - nd.buf.length) = P
  have h1 : (nd.readable.map (·, true)).filter (·.2) = nd.readable.map (·, true) :=
    List.filter_eq_self.2 (by simp)
  have h2 : (P.map (·, false)).filter (·.2) = [] :=
    List.filter_eq_nil_iff.2 (by simp)
  rw [h1, h2]
  simp [Function.comp_def]

/-- the flushed entries of a chain suffix are the readable bytes of its nodes -/
theorem absL_flushed (ns : List (Node α)) :
    ((absL ns).filter (·.2)).map (·.1) = ns.flatMap Node.readable := by
  induction ns with
  | nil => rfl
  | cons nd rest ih =>
    simp only [List.filter_append, List.map_append, List.flatMap_cons, ih, Node.abs_flushed]

theorem Node.peek_len (nd : Node α) : nd.peek nd.len = nd.readable := by
  simp only [Node.peek, Node.readable, Node.len]
  rw [List.take_of_length_le (by simp)]

/-- Peek's append loop: with `pre` the bytes of the nodes already passed and the cache content `p`
a prefix of the whole readable stream `S = pre ++ readable bytes of the rest`, the loop extends `p`
to the first `n` bytes of `S` (or leaves it alone if it is long enough). -/
theorem peekLoop_spec (ns : List (Node α)) (pre : List α) (scanned : Nat) (p : List α) (n : Nat)
    (hpre : pre.length = scanned)
    (hp : p <+: pre ++ ns.flatMap Node.readable)
    (hsc : scanned ≤ p.length ∨ n ≤ p.length)
    (hn : n ≤ (pre ++ ns.flatMap Node.readable).length) :
    peekLoop ns scanned p n = some ((pre ++ ns.flatMap Node.readable).take (max n p.length)) := by
  induction ns generalizing pre scanned p with
  | nil =>
    unfold peekLoop
    have hpe := List.prefix_iff_eq_take.1 hp
    by_cases hge : p.length ≥ n
    · simp only [hge, if_true]
      rw [Nat.max_eq_right hge, ← hpe]
    · exfalso
      have := hp.length_le
      simp at hn this
      omega
  | cons nd rest ih =>
    unfold peekLoop
    have hpe := List.prefix_iff_eq_take.1 hp
    by_cases hge : p.length ≥ n
    · simp only [hge, if_true]
      rw [Nat.max_eq_right hge, ← hpe]
    · simp only [hge, if_false]
      have hsc' : scanned ≤ p.length := by omega
      have hS : pre ++ (nd :: rest).flatMap Node.readable
          = (pre ++ nd.readable) ++ rest.flatMap Node.readable := by
        simp [List.flatMap_cons]
      have hrl := Node.readable_length nd
      by_cases hle : scanned + nd.len ≤ p.length
      · simp only [hle, if_true]
        rw [hS] at hp hn ⊢
        exact ih (pre ++ nd.readable) (scanned + nd.len) p (by simp [hpre, hrl]) hp (Or.inl hle) hn
      · simp only [hle, if_false]
        have hmax : max n p.length = n := by omega
        -- the appended piece, in terms of the stream
        have hX : ((nd.peek nd.len).drop (p.length - scanned)).take
              (min (n - p.length) (nd.len - (p.length - scanned)))
            = ((pre ++ (nd :: rest).flatMap Node.readable).drop p.length).take
              (min (n - p.length) (nd.len - (p.length - scanned))) := by
          rw [Node.peek_len, hS, List.append_assoc, List.drop_append,
            List.drop_eq_nil_of_le (as := pre) (by omega), List.nil_append, hpre, List.drop_append,
            List.take_append_of_le_length (by simp [hrl]; omega)]
        have hp' : p ++ ((nd.peek nd.len).drop (p.length - scanned)).take
              (min (n - p.length) (nd.len - (p.length - scanned)))
            = (pre ++ (nd :: rest).flatMap Node.readable).take
              (p.length + min (n - p.length) (nd.len - (p.length - scanned))) := by
          rw [hX, List.take_add, ← hpe]
        have hlen' : (p ++ ((nd.peek nd.len).drop (p.length - scanned)).take
              (min (n - p.length) (nd.len - (p.length - scanned)))).length
            = p.length + min (n - p.length) (nd.len - (p.length - scanned)) := by
          rw [hp', List.length_take]; omega
        obtain ⟨p', hp'd⟩ : ∃ p', p' = p ++ ((nd.peek nd.len).drop (p.length - scanned)).take
              (min (n - p.length) (nd.len - (p.length - scanned))) := ⟨_, rfl⟩
        rw [← hp'd] at hp' hlen' ⊢
        have := ih (pre ++ nd.readable) (scanned + nd.len) p' (by simp [hpre, hrl])
          (by rw [hp', ← hS]; exact List.take_prefix _ _)
          (by rw [hlen']; omega) (by rw [← hS]; exact hn)
        rw [this, hlen', ← hS, hmax]
        have hm2 : max n (p.length + min (n - p.length) (nd.len - (p.length - scanned))) = n := by omega
        rw [hm2]

private theorem peekContract {q : Q α} (h : (!q.dead && q.readOK && !q.appSinceFlush) = true) :
    q.dead = false ∧ q.readOK = true ∧ q.appSinceFlush = false := by
  simpa [and_assoc] using h

theorem Q.flushedBytes_length (q : Q α) : q.flushedBytes.length = q.len := by
  simp [Q.flushedBytes, Q.len]

/-- moving `read` over abstractly empty nodes (what `isSingleNode` does) keeps the refinement relation -/
theorem R.moveRead {b : LB α} {q : Q α} (hR : R b q) (r0 : Nat) (hr0f : r0 ≤ b.f)
    (habs0 : absL (b.nodes.drop r0) = b.abs) : R { b with r := r0 } q :=
  ⟨by show absL (b.nodes.drop r0) = _; rw [habs0, hR.abs], hR.len, hR.mlen,
    fun hd => { hR.shape hd with r_le_f := hr0f }, hR.cache, hR.flags⟩

theorem peek_refines [DecidableEq α] (cfg : Cfg) {b : LB α} {q : Q α} (hR : R b q) (n : Int)
    (hC : Contract q (.peek n) = true) :
    ∃ b' r, b.peek cfg n = some (b', r) ∧ R b' (specStep q (.peek n)).1 ∧ Matches r (specStep q (.peek n)).2 := by
  obtain ⟨hd, hro, happ⟩ := peekContract hC
  unfold LB.peek
  simp only [specStep, takeRead]
  by_cases h0 : n ≤ 0
  · simp only [h0, if_true]
    exact ⟨_, _, rfl, hR, rfl⟩
  · simp only [h0, if_false]
    by_cases hlt : b.length < n.toNat
    · have hlq : q.len < n.toNat := hR.len ▸ hlt
      simp only [hlt, hlq, if_true]
      exact ⟨_, _, rfl, hR, rfl⟩
    · have hlq : ¬ q.len < n.toNat := hR.len ▸ hlt
      simp only [hlt, hlq, if_false, Bool.false_eq_true]
      have hn : 0 < n.toNat := by omega
      obtain ⟨s1, s2⟩ := q.stream n.toNat hro (by omega)
      obtain ⟨_, _, _, d4⟩ := drop_flushed q.items n.toNat s2 s1
      have hfb : q.firstBytes n.toNat = q.flushedBytes.take n.toNat := d4
      have hsh := hR.shape hd
      rw [← hR.abs] at s1 s2
      obtain ⟨r0, nd, rest, e, h1, h2, h3, h4, h5⟩ := isSingleNode_spec b n.toNat hsh.r_le_f hn s1 s2
      simp only [e]
      have hR0 : R { b with r := r0 } q := hR.moveRead r0 h2 h5
      have hsh0 := hR0.shape hd
      cases hdec : decide (nd.len ≥ n.toNat) <;> simp only []
      · -- several nodes: through the peek cache
        have hF : (b.nodes.drop r0).flatMap Node.readable = q.flushedBytes := by
          rw [← absL_flushed, h5, hR.abs]; rfl
        have key : ∀ (c : List α) (cp kc : Nat), c <+: q.flushedBytes →
            ∃ b' r, (if c.length ≥ n.toNat then
                some (({ b with r := r0, caches := kc, cachePeek := some (c, cp) } : LB α), Res.bytes (c.take n.toNat))
              else match peekLoop (b.nodes.drop r0) 0 c n.toNat with
                | none => none
                | some p => some (({ b with r := r0, caches := kc, cachePeek := some (p, cp) } : LB α), Res.bytes (p.take n.toNat)))
              = some (b', r) ∧ R b' q ∧ Matches r (.exact (.bytes (q.firstBytes n.toNat))) := by
          intro c cp kc hc
          by_cases hcl : c.length ≥ n.toNat
          · simp only [hcl, if_true]
            refine ⟨_, _, rfl, ⟨hR0.abs, hR0.len, hR0.mlen, hR0.shape, ?_, hR0.flags⟩, ?_⟩
            · intro _ c' cp' h
              cases h; rw [q.leadBytes_eq_flushedBytes hro]; exact hc
            · show Res.bytes _ = Res.bytes _
              rw [hfb, List.prefix_iff_eq_take.1 hc, List.take_take, Nat.min_eq_left hcl]
          · simp only [hcl, if_false]
            have hp := peekLoop_spec (b.nodes.drop r0) [] 0 c n.toNat rfl (by simpa [hF] using hc)
              (Or.inl (Nat.zero_le _)) (by simp only [List.nil_append, hF, q.flushedBytes_length]; omega)
            simp only [List.nil_append, hF] at hp
            rw [hp]
            refine ⟨_, _, rfl, ⟨hR0.abs, hR0.len, hR0.mlen, hR0.shape, ?_, hR0.flags⟩, ?_⟩
            · intro _ c' cp' h
              cases h; rw [q.leadBytes_eq_flushedBytes hro]; exact List.take_prefix _ _
            · show Res.bytes _ = Res.bytes _
              rw [hfb, List.take_take, Nat.min_eq_left (Nat.le_max_left _ _)]
        cases hcp : b.cachePeek with
        | none => exact key [] _ _ List.nil_prefix
        | some x =>
          obtain ⟨c, cp⟩ := x
          by_cases hlt2 : cp < n.toNat
          · simp only [hlt2, if_true]
            exact key [] _ _ List.nil_prefix
          · simp only [hlt2, if_false]
            exact key c cp _ (q.leadBytes_eq_flushedBytes hro ▸ hR.cache hd c cp hcp)
      · -- one node: the exposed flag of the read node is set
        rw [h4]
        simp only []
        have hge : nd.len ≥ n.toNat := by simpa using hdec
        have hoff : ∀ x ∈ nd :: rest, x.off ≤ x.buf.length := by
          intro x hx; rw [← h3] at hx; exact hsh.off_le x (List.mem_of_mem_drop hx)
        have hset := set_of_drop_eq_cons h3 ({ nd with exposed := true } : Node α)
        refine ⟨_, _, rfl, ⟨?_, hR0.len, hR0.mlen, ?_, hR0.cache, hR0.flags⟩, ?_⟩
        · show absL ((b.nodes.set r0 _).drop r0) = _
          rw [hset, List.drop_left' (by simp; exact Nat.min_eq_left (Nat.le_trans h2 hsh.f_le))]
          show nd.abs ++ absL rest = _
          rw [← absL_cons, ← h3, h5, hR.abs]
        · intro _
          show Shape (b.nodes.set r0 _) r0 b.f b.w _ _
          rw [hset]
          refine hsh0.adv ?_ h2
          show AdvL (b.nodes.drop r0) _
          rw [h3]
          exact AdvL.cons ⟨rfl, rfl, rfl, rfl, rfl, Nat.le_refl _, hoff nd (List.mem_cons_self ..)⟩
            (AdvL.refl fun x hx => hoff x (List.mem_cons_of_mem _ hx))
        · show Res.bytes _ = Res.bytes _
          have : q.firstBytes n.toNat = ((nd.abs ++ absL rest).take n.toNat).map (·.1) := by
            rw [← absL_cons, ← h3, h5, hR.abs]; rfl
          rw [this, Node.abs_take nd _ n.toNat hge]; rfl

end Netpoll.Buf
