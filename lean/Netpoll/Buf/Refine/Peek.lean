import Netpoll.Buf.Refine.Consume
/-
Refinement of Peek: the queue is unchanged; the single-node path only sets the exposed flag of the
read node, the multi-node path fills the peek cache through `peekLoop`.
-/
namespace Netpoll.Buf

variable {α : Type}

/-- the flushed entries of a node's abstract content are its readable bytes -/
theorem Node.abs_flushed (nd : Node α) : (nd.abs.filter (·.2)).map (·.1) = nd.readable := by
  simp only [Node.abs, List.filter_append, List.map_append]
  generalize nd.pend.take (nd.malloc - nd.buf.length) = P
  have h1 : (nd.readable.map (·, true)).filter (·.2) = nd.readable.map (·, true) :=
    List.filter_eq_self.2 (by simp)
  have h2 : (P.map (·, false)).filter (·.2) = [] :=
    List.filter_eq_nil_iff.2 (by simp)
  rw [h1, h2]
  simp [Function.comp_def]

/-- the flushed entries of a chain suffix are the readable bytes of its nodes -/
theorem absL_flushed (ns : List (Node α)) :
    ((absL ns).filter (·.2)).map (·.1) = ns.flatMap Node.readable := by
  induction ns with
  | nil => rfl
  | cons nd rest ih =>
    simp only [List.filter_append, List.map_append, List.flatMap_cons, ih, Node.abs_flushed]

theorem Node.peek_len (nd : Node α) : nd.peek nd.len = nd.readable := by
  simp only [Node.peek, Node.readable, Node.len]
  rw [List.take_of_length_le (by simp)]

/-- Peek's append loop: with `pre` the bytes of the nodes already passed and the cache content `p`
a prefix of the whole readable stream `S = pre ++ readable bytes of the rest`, the loop extends `p`
to the first `n` bytes of `S` (or leaves it alone if it is long enough). -/
theorem peekLoop_spec (ns : List (Node α)) (pre : List α) (scanned : Nat) (p : List α) (n : Nat)
    (hpre : pre.length = scanned)
    (hp : p <+: pre ++ ns.flatMap Node.readable)
    (hsc : scanned ≤ p.length ∨ n ≤ p.length)
    (hn : n ≤ (pre ++ ns.flatMap Node.readable).length) :
    peekLoop ns scanned p n = some ((pre ++ ns.flatMap Node.readable).take (max n p.length)) := by
  induction ns generalizing pre scanned p with
  | nil =>
    unfold peekLoop
    have hpe := List.prefix_iff_eq_take.1 hp
    by_cases hge : p.length ≥ n
    · simp only [hge, if_true]
      rw [Nat.max_eq_right hge, ← hpe]
    · exfalso
      have := hp.length_le
      simp at hn this
      omega
  | cons nd rest ih =>
    unfold peekLoop
    have hpe := List.prefix_iff_eq_take.1 hp
    by_cases hge : p.length ≥ n
    · simp only [hge, if_true]
      rw [Nat.max_eq_right hge, ← hpe]
    · simp only [hge, if_false]
      have hsc' : scanned ≤ p.length := by omega
      have hS : pre ++ (nd :: rest).flatMap Node.readable
          = (pre ++ nd.readable) ++ rest.flatMap Node.readable := by
        simp [List.flatMap_cons]
      have hrl := Node.readable_length nd
      by_cases hle : scanned + nd.len ≤ p.length
      · simp only [hle, if_true]
        rw [hS] at hp hn ⊢
        exact ih (pre ++ nd.readable) (scanned + nd.len) p (by simp [hpre, hrl]) hp (Or.inl hle) hn
      · simp only [hle, if_false]
        have hmax : max n p.length = n := by omega
        -- the appended piece, in terms of the stream
        have hX : ((nd.peek nd.len).drop (p.length - scanned)).take
              (min (n - p.length) (nd.len - (p.length - scanned)))
            = ((pre ++ (nd :: rest).flatMap Node.readable).drop p.length).take
              (min (n - p.length) (nd.len - (p.length - scanned))) := by
          rw [Node.peek_len, hS, List.append_assoc, List.drop_append,
            List.drop_eq_nil_of_le (as := pre) (by omega), List.nil_append, hpre, List.drop_append,
            List.take_append_of_le_length (by simp [hrl]; omega)]
        have hp' : p ++ ((nd.peek nd.len).drop (p.length - scanned)).take
              (min (n - p.length) (nd.len - (p.length - scanned)))
            = (pre ++ (nd :: rest).flatMap Node.readable).take
              (p.length + min (n - p.length) (nd.len - (p.length - scanned))) := by
          rw [hX, List.take_add, ← hpe]
        have hlen' : (p ++ ((nd.peek nd.len).drop (p.length - scanned)).take
              (min (n - p.length) (nd.len - (p.length - scanned)))).length
            = p.length + min (n - p.length) (nd.len - (p.length - scanned)) := by
          rw [hp', List.length_take]; omega
        obtain ⟨p', hp'd⟩ : ∃ p', p' = p ++ ((nd.peek nd.len).drop (p.length - scanned)).take
              (min (n - p.length) (nd.len - (p.length - scanned))) := ⟨_, rfl⟩
        rw [← hp'd] at hp' hlen' ⊢
        have := ih (pre ++ nd.readable) (scanned + nd.len) p' (by simp [hpre, hrl])
          (by rw [hp', ← hS]; exact List.take_prefix _ _)
          (by rw [hlen']; omega) (by rw [← hS]; exact hn)
        rw [this, hlen', ← hS, hmax]
        have hm2 : max n (p.length + min (n - p.length) (nd.len - (p.length - scanned))) = n := by omega
        rw [hm2]

end Netpoll.Buf
