import Netpoll.Buf.Refine.WriteLib
/-
Flush.
-/
namespace Netpoll.Buf

variable {α : Type}

/-- number of pending entries -/
abbrev pendCount (l : List (α × Bool)) : Nat := (l.filter (! ·.2)).length

theorem pendCount_append (l l' : List (α × Bool)) : pendCount (l ++ l') = pendCount l + pendCount l' := by
  simp [pendCount, List.filter_append]

theorem pendCount_true (l : List α) : pendCount (l.map (·, true)) = 0 := by
  induction l with
  | nil => rfl
  | cons x xs ih => simp only [pendCount] at ih; simp [pendCount, ih]

theorem pendCount_false (l : List α) : pendCount (l.map (·, false)) = l.length := by
  induction l with
  | nil => rfl
  | cons x xs ih => simp only [pendCount] at ih; simp [pendCount, ih]

theorem filter_add_filter_not (l : List (α × Bool)) :
    (l.filter (·.2)).length + (l.filter (! ·.2)).length = l.length := by
  induction l with
  | nil => rfl
  | cons x xs ih => cases hx : x.2 <;> simp [hx] <;> omega

theorem absL_cut_append {nodes : List (Node α)} {r f w app} (h : Shape nodes r f w false app)
    (ext : List (Node α)) :
    absL ((nodes.take (w + 1) ++ ext).drop r) = absL (nodes.drop r) ++ absL ext := by
  have hw := h.wr rfl
  have hrf := h.r_le_f
  rw [List.drop_append_of_le_length (by simp; omega)]
  have e : absL (nodes.drop r) = absL ((nodes.take (w + 1)).drop r) := by
    conv => lhs; rw [← List.take_append_drop (w + 1) nodes]
    rw [List.drop_append_of_le_length (by simp; omega)]
    have := h.tail_nil (w + 1) (by omega)
    simp only [absL, List.flatMap_append] at this ⊢
    rw [this]; simp
  simp only [absL, List.flatMap_append] at e ⊢
  rw [e]

/-- what committing one node does -/
theorem Node.commit_spec (nd : Node α) (h1 : nd.off ≤ nd.buf.length)
    (h2 : nd.buf.length + nd.pend.length = nd.malloc) :
    nd.commit.1.abs = nd.abs.map (fun x => (x.1, true)) ∧ nd.commit.2 = nd.pend.length ∧
    nd.commit.1.off = nd.off ∧ nd.commit.1.buf.length = nd.malloc ∧ nd.commit.1.pend = [] ∧
    nd.commit.1.malloc = nd.malloc ∧ nd.commit.1.cap = nd.cap ∧ (nd.pend = [] → nd.commit.1 = nd) := by
  have hpl : nd.pendLen = (nd.pend.length : Int) := by simp only [Node.pendLen]; omega
  unfold Node.commit
  by_cases hp : nd.pendLen > 0
  · rw [if_pos hp]
    have hpt : nd.pendLen.toNat = nd.pend.length := by omega
    refine ⟨?_, hpt, rfl, by simp [hpt]; omega, rfl, rfl, rfl, ?_⟩
    · rw [Node.abs_wr nd h2]
      simp only [Node.abs, Node.readable, hpt, List.take_length]
      rw [List.drop_append_of_le_length h1]
      simp [Function.comp_def]
    · intro h; rw [h] at hpl; simp at hpl; omega
  · rw [if_neg hp]
    have hp0 : nd.pend = [] := List.eq_nil_of_length_eq_zero (by omega)
    refine ⟨?_, by simp [hp0], rfl, by simp [hp0] at h2; omega, hp0, rfl, rfl, fun _ => rfl⟩
    rw [Node.abs_wr nd h2, hp0]
    simp [Function.comp_def]

theorem commit_sum (ns : List (Node α))
    (hall : ∀ nd ∈ ns, nd.off ≤ nd.buf.length ∧ nd.buf.length + nd.pend.length = nd.malloc) (acc : Nat) :
    ((ns.map Node.commit).map (·.2)).foldl (· + ·) acc = acc + pendCount (absL ns) := by
  induction ns generalizing acc with
  | nil => simp [pendCount]
  | cons nd rest ih =>
    obtain ⟨h1, h2⟩ := hall nd (List.mem_cons_self ..)
    obtain ⟨_, c2, _⟩ := Node.commit_spec nd h1 h2
    simp only [List.map_cons, List.foldl_cons, absL_cons, pendCount_append]
    rw [ih (fun x hx => hall x (List.mem_cons_of_mem _ hx)), c2]
    have : pendCount nd.abs = nd.pend.length := by
      rw [Node.abs_wr nd h2, pendCount_append, pendCount_true, pendCount_false]; omega
    omega

theorem absL_map_commit (ns : List (Node α))
    (hall : ∀ nd ∈ ns, nd.off ≤ nd.buf.length ∧ nd.buf.length + nd.pend.length = nd.malloc) :
    absL (ns.map fun nd => nd.commit.1) = (absL ns).map (fun x => (x.1, true)) := by
  induction ns with
  | nil => rfl
  | cons nd rest ih =>
    obtain ⟨h1, h2⟩ := hall nd (List.mem_cons_self ..)
    obtain ⟨c1, _⟩ := Node.commit_spec nd h1 h2
    simp only [List.map_cons, absL_cons, List.map_append]
    rw [ih (fun x hx => hall x (List.mem_cons_of_mem _ hx)), c1]

/-- Flush's commit walk over `flush .. write` on a chain satisfying the invariant -/
theorem flush_core {G : List (Node α)} {r f w : Nat} {app : Bool} (h : Shape G r f w false app) :
    G.take f ++ (((G.drop f).take (w + 1 - f)).map Node.commit).map (·.1) ++ G.drop (w + 1) =
      G.map (fun nd => nd.commit.1) ∧
    ((((G.drop f).take (w + 1 - f)).map Node.commit).map (·.2)).foldl (· + ·) 0 =
      pendCount (absL (G.drop r)) ∧
    Shape (G.map fun nd => nd.commit.1) r w w false false ∧
    absL ((G.map fun nd => nd.commit.1).drop r) = (absL (G.drop r)).map (fun x => (x.1, true)) := by
  have hw := h.wr rfl
  have hrf := h.r_le_f
  have hall : ∀ nd ∈ G, nd.off ≤ nd.buf.length ∧ nd.buf.length + nd.pend.length = nd.malloc := by
    intro nd hnd
    obtain ⟨i, hi⟩ := List.getElem?_of_mem hnd
    have := h.node i nd hi
    exact ⟨this.1, (this.2.2.2.1 rfl).1⟩
  have hpre : ∀ nd ∈ G.take f, nd.pend = [] := by
    intro nd hnd
    obtain ⟨i, hi⟩ := List.getElem?_of_mem hnd
    rw [List.getElem?_take] at hi
    split at hi
    · rename_i hif; exact (h.node i nd hi).2.1 hif
    · cases hi
  have hpost : ∀ nd ∈ G.drop (w + 1), nd.pend = [] := by
    intro nd hnd
    obtain ⟨i, hi⟩ := List.getElem?_of_mem hnd
    rw [List.getElem?_drop] at hi
    exact ((h.node _ nd hi).2.2.2.1 rfl).2.2 (by omega) |>.2
  have hsplit : G = G.take f ++ (G.drop f).take (w + 1 - f) ++ G.drop (w + 1) := by
    have e1 : G.drop f = (G.drop f).take (w + 1 - f) ++ (G.drop f).drop (w + 1 - f) :=
      (List.take_append_drop _ _).symm
    rw [List.drop_drop, show f + (w + 1 - f) = w + 1 by omega] at e1
    rw [List.append_assoc, ← e1, List.take_append_drop]
  have hid : ∀ l : List (Node α), (∀ nd ∈ l, nd.pend = []) →
      (∀ nd ∈ l, nd.off ≤ nd.buf.length ∧ nd.buf.length + nd.pend.length = nd.malloc) →
      l.map (fun nd => nd.commit.1) = l := by
    intro l hl hall'
    conv => rhs; rw [← List.map_id l]
    apply List.map_congr_left
    intro nd hnd
    exact ((Node.commit_spec nd (hall' nd hnd).1 (hall' nd hnd).2).2.2.2.2.2.2.2 (hl nd hnd))
  have hmem_take : ∀ (k : Nat) (nd : Node α), nd ∈ G.take k → nd ∈ G := fun k nd h => List.mem_of_mem_take h
  have hmem_drop : ∀ (k : Nat) (nd : Node α), nd ∈ G.drop k → nd ∈ G := fun k nd h => List.mem_of_mem_drop h
  refine ⟨?_, ?_, ?_, ?_⟩
  · conv => rhs; rw [hsplit]
    rw [List.map_append, List.map_append, hid _ hpre (fun nd h => hall nd (hmem_take _ nd h)),
      hid _ hpost (fun nd h => hall nd (hmem_drop _ nd h)), List.map_map]
    rfl
  · rw [commit_sum _ (fun nd h => hall nd (hmem_drop _ nd (List.mem_of_mem_take h)))]
    have e : G.drop r = (G.take f).drop r ++ (G.drop f).take (w + 1 - f) ++ G.drop (w + 1) := by
      conv => lhs; rw [hsplit]
      rw [List.append_assoc, List.drop_append_of_le_length (by simp; omega), List.append_assoc]
    rw [e]
    simp only [absL, List.flatMap_append, pendCount_append]
    have z1 : pendCount (absL ((G.take f).drop r)) = 0 := by
      have : ∀ l : List (Node α), (∀ nd ∈ l, nd.pend = []) →
          (∀ nd ∈ l, nd.off ≤ nd.buf.length ∧ nd.buf.length + nd.pend.length = nd.malloc) →
          pendCount (absL l) = 0 := by
        intro l hl hl'
        induction l with
        | nil => rfl
        | cons x xs ih =>
          rw [absL_cons, pendCount_append, ih (fun nd h => hl nd (List.mem_cons_of_mem _ h))
            (fun nd h => hl' nd (List.mem_cons_of_mem _ h))]
          rw [Node.abs_wr x (hl' x (List.mem_cons_self ..)).2, hl x (List.mem_cons_self ..)]
          simp [pendCount_true, pendCount]
      exact this _ (fun nd h => hpre nd (List.mem_of_mem_drop h))
        (fun nd h => hall nd (hmem_take _ nd (List.mem_of_mem_drop h)))
    have z2 : pendCount (absL (G.drop (w + 1))) = 0 := by
      rw [h.tail_nil (w + 1) (by omega)]; rfl
    simp only [absL] at z1 z2
    rw [z1, z2]; simp
  · refine ⟨by omega, by simp; omega, ?_, fun _ => ⟨Nat.le_refl _, by simpa using hw.2⟩, fun h => by cases h⟩
    intro i nd' hi
    rw [List.getElem?_map] at hi
    cases hg : G[i]? with
    | none => rw [hg] at hi; cases hi
    | some nd =>
      rw [hg] at hi; simp at hi; subst hi
      have hn := h.node i nd hg
      obtain ⟨a1, a2, a3⟩ := hn.2.2.2.1 rfl
      obtain ⟨_, _, c3, c4, c5, c6, c7, c8⟩ := Node.commit_spec nd hn.1 a1
      refine ⟨by omega, fun _ => c5, ?_, fun _ => ⟨by simp [c5, c4, c6], by omega, ?_⟩, fun h => by cases h⟩
      · intro _ hwi
        obtain ⟨b1, b2⟩ := a3 hwi
        rw [c8 b2]; exact b1
      · intro hwi
        obtain ⟨b1, b2⟩ := a3 hwi
        rw [c8 b2]; exact ⟨b1, b2⟩
  · rw [← List.map_drop]
    exact absL_map_commit _ (fun nd h => hall nd (hmem_drop _ nd h))

/-- the last step of Flush on a chain `G` representing `q` (after the optional fresh node was appended) -/
theorem flush_finish {b : LB α} {q : Q α} (hR : R b q) (hd : q.dead = false) (hro : q.readOnly = false) (G : List (Node α)) (w : Nat)
    (hG : Shape G b.r b.f w false q.appSinceFlush) (hGa : absL (G.drop b.r) = q.items) :
    R { b with mallocSize := 0,
               nodes := G.take b.f ++ (((G.drop b.f).take (w + 1 - b.f)).map Node.commit).map (·.1) ++ G.drop (w + 1),
               f := w, w := w,
               length := b.length + ((((G.drop b.f).take (w + 1 - b.f)).map Node.commit).map (·.2)).foldl (· + ·) 0 }
      { q with items := q.items.map (fun x => (x.1, true)), binSinceFlush := false, appSinceFlush := false } := by
  obtain ⟨e1, e2, e3, e4⟩ := flush_core hG
  rw [e1, e2, hGa]
  have hall : (q.items.map fun x => (x.1, true)).filter (·.2) = q.items.map fun x => (x.1, true) := by
    apply List.filter_eq_self.2; intro x hx
    obtain ⟨a, _, rfl⟩ := List.mem_map.1 hx; rfl
  have hnone : (q.items.map fun x => (x.1, true)).filter (! ·.2) = [] := by
    apply List.filter_eq_nil_iff.2; intro x hx
    obtain ⟨a, _, rfl⟩ := List.mem_map.1 hx; simp
  refine ⟨?_, ?_, ?_, fun _ => ?_, ?_, fun h => by cases h⟩
  · show absL ((G.map fun nd => nd.commit.1).drop b.r) = _
    rw [e4, hGa]
  · show b.length + pendCount q.items = ((q.items.map fun x => (x.1, true)).filter (·.2)).length
    rw [hall, List.length_map, hR.len]
    exact filter_add_filter_not q.items
  · show 0 = ((q.items.map fun x => (x.1, true)).filter (! ·.2)).length
    rw [hnone]; rfl
  · show Shape (G.map fun nd => nd.commit.1) b.r w w q.readOnly false
    rw [hro]; exact e3
  · intro _ c cp hc
    exact leadBytes_prefix_all q c (hR.cache hd c cp hc)

theorem flush_refines [DecidableEq α] (cfg : Cfg) {b : LB α} {q : Q α} (hR : R b q)
    (hC : Contract q .flush = true) :
    ∃ b' r, b.flush cfg = some (b', r) ∧ R b' (specStep q .flush).1 ∧ Matches r (specStep q .flush).2 := by
  simp only [Contract, Bool.and_eq_true, Bool.not_eq_true'] at hC
  obtain ⟨hd, hro⟩ := hC
  have hsh := hR.shape hd
  rw [hro] at hsh
  have hw := hsh.wr rfl
  have habs : absL (b.nodes.drop b.r) = q.items := hR.abs
  obtain ⟨wn, hwn⟩ : ∃ wn, b.nodes[b.w]? = some wn := ⟨_, List.getElem?_eq_getElem hw.2⟩
  unfold LB.flush
  simp only [hwn, specStep]
  by_cases hbig : wn.cap > cfg.pagesize
  · simp only [hbig, if_true]
    have : ¬ b.f > b.w + 1 + 1 := by omega
    simp only [this, if_false]
    refine ⟨_, _, rfl, ?_, rfl⟩
    have hG : Shape (b.nodes.take (b.w + 1) ++ [newNode cfg 0]) b.r b.f (b.w + 1) false q.appSinceFlush := by
      apply hsh.cut_append [newNode cfg 0] (by simp) id
      intro j y hj
      cases j with
      | zero =>
        simp at hj; subst hj
        rw [newNode_zero]
        exact NodeInv.of_empty rfl rfl rfl (Nat.le_refl _)
      | succ j => simp at hj
    have hGa : absL ((b.nodes.take (b.w + 1) ++ [newNode cfg 0]).drop b.r) = q.items := by
      rw [absL_cut_append hsh, habs, newNode_zero]
      simp [absL, Node.abs, Node.readable]
    exact flush_finish hR hd hro _ _ hG hGa
  · simp only [hbig, if_false]
    have : ¬ b.f > b.w + 1 := by omega
    simp only [this, if_false]
    refine ⟨_, _, rfl, ?_, rfl⟩
    exact flush_finish hR hd hro _ _ hsh habs

end Netpoll.Buf
