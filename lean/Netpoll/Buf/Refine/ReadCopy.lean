import Netpoll.Buf.Refine.Read
import Netpoll.Buf.Refine.Release
/-
Refinement of readCopy: the copy loop, then the compaction of the consumed, not exposed nodes
in front of `read`.
-/
namespace Netpoll.Buf

variable {α : Type}

/-! ### the copy loop -/

theorem copyLoop_spec (ns : List (Node α)) (n : Nat) (hn : 0 < n)
    (hlen : n ≤ (absL ns).length) (hfl : ∀ x ∈ (absL ns).take n, x.2 = true)
    (hoff : ∀ nd ∈ ns, nd.off ≤ nd.buf.length) :
    ∃ bs ns' k, copyLoop ns n = some (bs, ns', k) ∧ bs = ((absL ns).take n).map (·.1) ∧
      absL (ns'.drop k) = (absL ns).drop n ∧ AdvL ns ns' ∧ ∃ nd, ns[k]? = some nd ∧ 0 < nd.len := by
  induction ns generalizing n with
  | nil => simp at hlen; omega
  | cons nd rest ih =>
    unfold copyLoop
    have hoff' : ∀ x ∈ rest, x.off ≤ x.buf.length := fun x hx => hoff x (List.mem_cons_of_mem _ hx)
    have hnd := hoff nd (List.mem_cons_self ..)
    by_cases h0 : nd.len = 0
    · simp only [h0, if_true]
      have hnil : nd.abs = [] := Node.abs_nil_of_stream nd (absL rest) n h0 hn (by simpa using hfl)
      simp only [absL_cons, hnil, List.nil_append] at hlen hfl ⊢
      obtain ⟨bs, ns', k, e, hb, ha, hadv, x, hx, hx0⟩ := ih n hn hlen hfl hoff'
      rw [e]
      refine ⟨_, _, _, rfl, hb, ?_, AdvL.cons (Adv.rfl' hnd) hadv, x, by simpa using hx, hx0⟩
      simpa using ha
    · simp only [h0, if_false]
      by_cases hge : nd.len ≥ n
      · simp only [hge, if_true]
        obtain ⟨hadv, ha, hk, hb⟩ := single_spec nd (nd.next n).2 rest n hge hn hoff rfl rfl rfl rfl rfl rfl
        exact ⟨_, _, 0, rfl, by rw [hb]; rfl, ha, hadv, hk⟩
      · simp only [hge, if_false]
        have hlt : nd.len < n := by omega
        obtain ⟨t1, t2, t3, t4⟩ := stream_tail nd rest n hlt hlen hfl
        obtain ⟨bs, ns', k, e, hb, ha, hadv, x, hx, hx0⟩ := ih (n - nd.len) (by omega) t1 t2 hoff'
        rw [e]
        refine ⟨_, _, _, rfl, ?_, ?_, AdvL.cons (Adv.rfl' hnd) hadv, x, by simpa using hx, hx0⟩
        · rw [t4, hb]
        · simp only [List.drop_succ_cons]
          rw [ha, t3]

end Netpoll.Buf
