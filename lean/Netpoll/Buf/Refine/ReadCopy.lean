import Netpoll.Buf.Refine.Read
import Netpoll.Buf.Refine.Release
/-
Refinement of readCopy: the copy loop, then the compaction of the consumed, not exposed nodes
in front of `read`.
-/
namespace Netpoll.Buf

variable {α : Type}

/-! ### the copy loop -/

theorem copyLoop_spec (ns : List (Node α)) (n : Nat) (hn : 0 < n)
    (hlen : n ≤ (absL ns).length) (hfl : ∀ x ∈ (absL ns).take n, x.2 = true)
    (hoff : ∀ nd ∈ ns, nd.off ≤ nd.buf.length) :
    ∃ bs ns' k, copyLoop ns n = some (bs, ns', k) ∧ bs = ((absL ns).take n).map (·.1) ∧
      absL (ns'.drop k) = (absL ns).drop n ∧ AdvL ns ns' ∧ ∃ nd, ns[k]? = some nd ∧ 0 < nd.len := by
  induction ns generalizing n with
  | nil => simp at hlen; omega
  | cons nd rest ih =>
    unfold copyLoop
    have hoff' : ∀ x ∈ rest, x.off ≤ x.buf.length := fun x hx => hoff x (List.mem_cons_of_mem _ hx)
    have hnd := hoff nd (List.mem_cons_self ..)
    by_cases h0 : nd.len = 0
    · simp only [h0, if_true]
      have hnil : nd.abs = [] := Node.abs_nil_of_stream nd (absL rest) n h0 hn (by simpa using hfl)
      simp only [absL_cons, hnil, List.nil_append] at hlen hfl ⊢
      obtain ⟨bs, ns', k, e, hb, ha, hadv, x, hx, hx0⟩ := ih n hn hlen hfl hoff'
      rw [e]
      refine ⟨_, _, _, rfl, hb, ?_, AdvL.cons (Adv.rfl' hnd) hadv, x, by simpa using hx, hx0⟩
      simpa using ha
    · simp only [h0, if_false]
      by_cases hge : nd.len ≥ n
      · simp only [hge, if_true]
        obtain ⟨hadv, ha, hk, hb⟩ := single_spec nd (nd.next n).2 rest n hge hn hoff rfl rfl rfl rfl rfl rfl
        exact ⟨_, _, 0, rfl, by rw [hb]; rfl, ha, hadv, hk⟩
      · simp only [hge, if_false]
        have hlt : nd.len < n := by omega
        obtain ⟨t1, t2, t3, t4⟩ := stream_tail nd rest n hlt hlen hfl
        obtain ⟨bs, ns', k, e, hb, ha, hadv, x, hx, hx0⟩ := ih (n - nd.len) (by omega) t1 t2 hoff'
        rw [e]
        refine ⟨_, _, _, rfl, ?_, ?_, AdvL.cons (Adv.rfl' hnd) hadv, x, by simpa using hx, hx0⟩
        · rw [t4, hb]
        · simp only [List.drop_succ_cons]
          rw [ha, t3]

/-! ### the compaction of the consumed nodes -/

/-- removing some of the nodes in front of `r' ≤ flush` keeps the chain invariant (indices shift);
`read` is put at the first node that was at `r'`. -/
theorem Shape.compact {nodes : List (Node α)} {r f w ro app} (h : Shape nodes r f w ro app)
    (r' : Nat) (hr' : r' ≤ f) (p : Node α → Bool) :
    Shape ((nodes.take r').filter p ++ nodes.drop r') ((nodes.take r').filter p).length
      (f - (r' - ((nodes.take r').filter p).length)) (w - (r' - ((nodes.take r').filter p).length)) ro app := by
  have hfl := h.f_le
  have htl : (nodes.take r').length = r' := by simp; omega
  have hkl : ((nodes.take r').filter p).length ≤ r' := by
    have := List.length_filter_le p (nodes.take r'); omega
  generalize hk : (nodes.take r').filter p = kept at hkl ⊢
  refine ⟨by omega, by simp; omega, ?_, ?_, ?_⟩
  · intro i nd hi
    by_cases hik : i < kept.length
    · rw [List.getElem?_append_left hik] at hi
      have hm : nd ∈ nodes.take r' := by
        have := List.mem_of_getElem? hi
        rw [← hk] at this
        exact (List.mem_filter.1 this).1
      obtain ⟨j, hj⟩ := List.getElem?_of_mem hm
      have hjr : j < r' := by
        rcases List.getElem?_eq_some_iff.1 hj with ⟨hh, _⟩; omega
      rw [List.getElem?_take] at hj
      simp only [hjr, if_true] at hj
      have hn := h.node j nd hj
      refine ⟨hn.1, fun _ => hn.2.1 (by omega), fun _ hh => by omega, ?_, hn.2.2.2.2⟩
      intro hro
      obtain ⟨a1, a2, _⟩ := hn.2.2.2.1 hro
      have := h.wr hro
      exact ⟨a1, a2, fun hh => by omega⟩
    · rw [List.getElem?_append_right (by omega), List.getElem?_drop] at hi
      have hn := h.node _ nd hi
      refine ⟨hn.1, fun hh => hn.2.1 (by omega), fun ha hh => hn.2.2.1 ha (by omega), ?_, hn.2.2.2.2⟩
      intro hro
      obtain ⟨a1, a2, a3⟩ := hn.2.2.2.1 hro
      have := h.wr hro
      exact ⟨a1, a2, fun hh => a3 (by omega)⟩
  · intro hro; have := h.wr hro; simp; omega
  · intro hro; have := h.rd hro; simp; omega

/-- the refinement relation after the compaction step of readCopy -/
theorem R.compact {b : LB α} {q : Q α} (hR : R b q) (r' : Nat) (hr' : r' ≤ b.f)
    (habs : absL (b.nodes.drop r') = b.abs) (p : Node α → Bool) :
    R { b with nodes := (b.nodes.take r').filter p ++ b.nodes.drop r',
               r := ((b.nodes.take r').filter p).length,
               f := b.f - (r' - ((b.nodes.take r').filter p).length),
               w := b.w - (r' - ((b.nodes.take r').filter p).length) } q := by
  refine ⟨?_, hR.len, hR.mlen, fun hd => (hR.shape hd).compact r' hr' p, hR.cache, hR.flags⟩
  show absL (((b.nodes.take r').filter p ++ b.nodes.drop r').drop ((b.nodes.take r').filter p).length) = q.items
  rw [List.drop_left' rfl, habs, hR.abs]

/-- `skipEmptyRel` from `read`, from the chain invariant alone -/
theorem skipEmptyRel_of_shape {nodes : List (Node α)} {r f w ro app} (hsh : Shape nodes r f w ro app) :
    ∃ r', skipEmptyRel (nodes.drop r) r f = some r' ∧ r ≤ r' ∧ r' ≤ f ∧
      absL (nodes.drop r') = absL (nodes.drop r) := by
  obtain ⟨j, e, h1, h2⟩ := skipEmptyRel_spec (nodes.drop r) r f hsh.r_le_f
    (by have := hsh.f_le; simp; omega)
    (fun i nd hi hlt => (hsh.node (r + i) nd (by rw [List.getElem?_drop] at hi; exact hi)).2.1 (by omega))
  exact ⟨r + j, e, by omega, h1, by rw [← List.drop_drop, h2]⟩

/-! ### readCopy -/

theorem readCopy_refines [DecidableEq α] {b : LB α} {q : Q α} (hR : R b q) (l : Nat)
    (hC : Contract q (.readCopy l) = true) :
    ∃ b' r, b.readCopy l = some (b', r) ∧ R b' (specStep q (.readCopy l)).1 ∧
      Matches r (specStep q (.readCopy l)).2 := by
  obtain ⟨hd, hro, happ⟩ := readContract hC
  unfold LB.readCopy
  simp only [specStep]
  by_cases h0 : l = 0 ∨ b.length = 0
  · simp only [h0, if_true]
    have hm : min l q.len = 0 := by rw [← hR.len]; omega
    rw [hm]
    refine ⟨_, _, rfl, ?_, ?_⟩
    · have : ({ q with items := q.items.drop 0 } : Q α) = q := by cases q; simp
      rw [this]; exact hR
    · simp [Matches, Q.firstBytes]
  · simp only [h0, if_false]
    generalize hl' : (if b.length < l then b.length else l) = l'
    have hm : min l q.len = l' := by rw [← hR.len, ← hl']; split <;> omega
    rw [hm]
    have hn : 0 < l' := by rw [← hl']; split <;> omega
    have hnl : l' ≤ q.len := by omega
    obtain ⟨s1, s2⟩ := q.stream l' hro hnl
    have hsh := hR.shape hd
    have hoff : ∀ nd ∈ b.nodes.drop b.r, nd.off ≤ nd.buf.length :=
      fun nd h => hsh.off_le nd (List.mem_of_mem_drop h)
    rw [← hR.abs, LB.abs_eq] at s1 s2
    obtain ⟨bs, ns', k, e, hb, ha, hadv, hk⟩ := copyLoop_spec (b.nodes.drop b.r) l' hn s1 s2 hoff
    have e' : copyLoop ((b.consumeLen l').nodes.drop (b.consumeLen l').r) l' = some (bs, ns', k) := e
    simp only [e']
    have hR1 : R ({ b.consumeLen l' with nodes := spliceFrom b.nodes b.r ns', r := b.r + k } : LB α)
        { q with items := q.items.drop l' } :=
      hR.consume hd happ hro l' hn hnl b.r hsh.r_le_f rfl ns' k hadv ha hk rfl rfl rfl rfl rfl rfl rfl
    obtain ⟨r', e2, h1, h2, h3⟩ := skipEmptyRel_of_shape (hR1.shape hd)
    have e2' : skipEmptyRel ((spliceFrom (b.consumeLen l').nodes (b.consumeLen l').r ns').drop
        ((b.consumeLen l').r + k)) ((b.consumeLen l').r + k) (b.consumeLen l').f = some r' := e2
    simp only [e2']
    have hr'l : ¬ r' > (spliceFrom (b.consumeLen l').nodes (b.consumeLen l').r ns').length := by
      have := (hR1.shape hd).f_le
      exact Nat.not_lt.2 (Nat.le_trans h2 this)
    simp only [hr'l, if_false]
    refine ⟨_, _, rfl, hR1.compact r' h2 h3 _, ?_⟩
    show Res.bytes bs = Res.bytes _
    rw [hb, ← LB.abs_eq, hR.abs]; rfl

end Netpoll.Buf
