import Netpoll.Buf.QLemmas
/-
The common part of all consuming reads (Next, Skip, ReadBinary, ReadByte, ...): `isSingleNode`,
and the lemma that re-establishes the refinement relation after a loop consumed `n` entries.
-/
namespace Netpoll.Buf

variable {α : Type}

theorem drop_succ_of_drop_eq_cons {β : Type} {l : List β} {i : Nat} {a : β} {t : List β}
    (h : l.drop i = a :: t) : l.drop (i + 1) = t := by
  have := congrArg List.tail h
  simpa using this

theorem set_of_drop_eq_cons {β : Type} {l : List β} {i : Nat} {a : β} {t : List β}
    (h : l.drop i = a :: t) (x : β) : l.set i x = l.take i ++ x :: t := by
  have hlt : i < l.length := by
    apply Nat.lt_of_not_le; intro hle
    rw [List.drop_eq_nil_of_le hle] at h; cases h
  rw [List.set_eq_take_append_cons_drop, if_pos hlt, drop_succ_of_drop_eq_cons h]

theorem LB.abs_eq (b : LB α) : b.abs = absL (b.nodes.drop b.r) := rfl

theorem skipEmptySN_spec (ns : List (Node α)) (r f n : Nat) (hrf : r ≤ f) (hn : 0 < n)
    (hlen : n ≤ (absL ns).length) (hfl : ∀ x ∈ (absL ns).take n, x.2 = true) :
    ∃ j, skipEmptySN ns r f = some (r + j) ∧ r + j ≤ f ∧ j < ns.length ∧ absL (ns.drop j) = absL ns := by
  induction ns generalizing r with
  | nil => simp at hlen; omega
  | cons nd rest ih =>
    unfold skipEmptySN
    by_cases hc : nd.len = 0 ∧ r ≠ f
    · simp only [hc, and_self, if_true, ne_eq, not_false_eq_true]
      have hnil : nd.abs = [] := Node.abs_nil_of_stream nd (absL rest) n hc.1 hn (by simpa using hfl)
      simp only [absL_cons, hnil, List.nil_append] at hlen hfl
      obtain ⟨j, e, h1, h2, h3⟩ := ih (r + 1) (by omega) hlen hfl
      refine ⟨j + 1, by rw [e]; congr 1; omega, by omega, by simp; omega, ?_⟩
      simp [hnil, h3]
    · simp only [hc, if_false]
      exact ⟨0, rfl, hrf, by simp, rfl⟩

/-- `isSingleNode(n)` for an in-contract read: `read` moves over empty nodes, never beyond `flush`. -/
theorem isSingleNode_spec (b : LB α) (n : Nat) (hrf : b.r ≤ b.f) (hn : 0 < n)
    (hlen : n ≤ b.abs.length) (hfl : ∀ x ∈ b.abs.take n, x.2 = true) :
    ∃ r0 nd rest, b.isSingleNode n = some ({ b with r := r0 }, decide (nd.len ≥ n)) ∧
      b.r ≤ r0 ∧ r0 ≤ b.f ∧ b.nodes.drop r0 = nd :: rest ∧ b.nodes[r0]? = some nd ∧
      absL (b.nodes.drop r0) = b.abs := by
  obtain ⟨j, e, h1, h2, h3⟩ := skipEmptySN_spec (b.nodes.drop b.r) b.r b.f n hrf hn hlen hfl
  rw [List.drop_drop] at h3
  rw [List.length_drop] at h2
  have hlt : b.r + j < b.nodes.length := by omega
  refine ⟨b.r + j, b.nodes[b.r + j], b.nodes.drop (b.r + j + 1), ?_, by omega, h1,
    List.drop_eq_getElem_cons hlt, List.getElem?_eq_getElem hlt, h3⟩
  unfold LB.isSingleNode
  rw [e]
  simp [List.getElem?_eq_getElem hlt]

/-- after `recalLen(-n)` with `n > 0` the peek cache is empty -/
theorem consumeLen_cache (b : LB α) (n : Nat) (hn : 0 < n) (c : List α) (cp : Nat)
    (h : (b.consumeLen n).cachePeek = some (c, cp)) : c = [] := by
  simp only [LB.consumeLen] at h
  split at h
  · cases h
  · rename_i hs
    simp only [LB.cacheStale, h] at hs
    have : ¬ (n > 0 ∧ c.length > 0) := by simpa using hs
    exact List.eq_nil_of_length_eq_zero (by omega)

/-- The refinement relation after a consuming read: the chain suffix at `r0` (where `isSingleNode`
left `read`) was advanced to `suf`, `read` moved `k` nodes on, and `n` stream entries went away. -/
theorem R.consume {b b' : LB α} {q : Q α} (hR : R b q) (hd : q.dead = false)
    (happ : q.appSinceFlush = false) (hro : q.readOK = true) (n : Nat) (hn : 0 < n) (hnl : n ≤ q.len)
    (r0 : Nat) (hr0f : r0 ≤ b.f) (habs0 : absL (b.nodes.drop r0) = b.abs)
    (suf : List (Node α)) (k : Nat) (hadv : AdvL (b.nodes.drop r0) suf)
    (habs : absL (suf.drop k) = (absL (b.nodes.drop r0)).drop n)
    (hk : ∃ nd, (b.nodes.drop r0)[k]? = some nd ∧ 0 < nd.len)
    (hnodes : b'.nodes = b.nodes.take r0 ++ suf) (hr : b'.r = r0 + k) (hf : b'.f = b.f) (hw : b'.w = b.w)
    (hl : b'.length = b.length - n) (hm : b'.mallocSize = b.mallocSize)
    (hc : b'.cachePeek = (b.consumeLen n).cachePeek) :
    R b' { q with items := q.items.drop n } := by
  have hsh := hR.shape hd
  obtain ⟨s1, s2⟩ := q.stream n hro hnl
  obtain ⟨d1, d2, d3, d4⟩ := drop_flushed q.items n s2 s1
  have hr0l : r0 ≤ b.nodes.length := Nat.le_trans hr0f hsh.f_le
  have hkf : r0 + k ≤ b.f := by
    obtain ⟨nd, h1, h2⟩ := hk
    rw [List.getElem?_drop] at h1
    have := (hsh.node (r0 + k) nd h1).2.2.1 happ
    simp only [Node.len] at h2
    omega
  refine ⟨?_, ?_, ?_, ?_, ?_, hR.flags⟩
  · show b'.abs = q.items.drop n
    rw [LB.abs_eq, hnodes, hr, ← List.drop_drop, List.drop_left' (by simp [hr0l]), habs, habs0, hR.abs]
  · show b'.length = ((q.items.drop n).filter (·.2)).length
    rw [hl, d1, hR.len]; rfl
  · show b'.mallocSize = ((q.items.drop n).filter (! ·.2)).length
    rw [hm, d2, hR.mlen]; rfl
  · intro _
    rw [hnodes, hr, hf, hw]
    have hsh0 : Shape b.nodes r0 b.f b.w q.readOnly q.appSinceFlush :=
      { hsh with r_le_f := hr0f }
    exact hsh0.adv hadv hkf
  · intro _ c cp hcc
    rw [hc] at hcc
    rw [consumeLen_cache b n hn c cp hcc]
    exact List.nil_prefix

/-- reading from a single node: the first branch of all the read loops -/
theorem single_spec (nd nd' : Node α) (rest : List (Node α)) (n : Nat) (hge : nd.len ≥ n) (hn : 0 < n)
    (hoff : ∀ x ∈ nd :: rest, x.off ≤ x.buf.length)
    (hb : nd'.buf = nd.buf) (hm : nd'.malloc = nd.malloc) (hp : nd'.pend = nd.pend) (hc : nd'.cap = nd.cap)
    (hu : nd'.unmanaged = nd.unmanaged) (ho : nd'.off = nd.off + n) :
    AdvL (nd :: rest) (nd' :: rest) ∧ absL ((nd' :: rest).drop 0) = (absL (nd :: rest)).drop n ∧
    (∃ x, (nd :: rest)[0]? = some x ∧ 0 < x.len) ∧
    ((absL (nd :: rest)).take n).map (·.1) = nd.readable.take n := by
  refine ⟨AdvL.cons ⟨hb, hm, hp, hc, hu, by omega, ?_⟩ (AdvL.refl fun x hx => hoff x (List.mem_cons_of_mem _ hx)),
    ?_, ⟨nd, by simp, by omega⟩, ?_⟩
  · rw [hb, ho]; simp only [Node.len] at hge; omega
  · simp only [List.drop_zero, absL_cons]
    rw [Node.abs_adv nd nd' n hb hm hp ho hge]
    rw [List.drop_append_of_le_length (Nat.le_trans hge (Node.abs_length_ge nd))]
  · simp only [absL_cons]; exact Node.abs_take nd _ n hge

end Netpoll.Buf
