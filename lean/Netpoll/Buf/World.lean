import Netpoll.Buf.Run
/-
Several buffers: operations on one buffer, `NewLinkBuffer`, `Slice` (makes a new read-only buffer)
and `Append` (moves the donor's content into the receiver).  Buffers are named by their index in
the list, as in the correspondence driver (`Driver/LbSpec.lean`, which uses a map from ids).
-/
namespace Netpoll.Buf

variable {α : Type}

inductive WOp (α : Type) where
  | new (size : Nat)
  | on (i : Nat) (op : Op α)
  | slice (i : Nat) (n : Int)
  | append (i j : Nat)

/-- what is observable of a buffer equals the queue: content, `Len()`, `MallocLen()` -/
def Obs (b : LB α) (q : Q α) : Prop :=
  b.abs = q.items ∧ b.length = q.len ∧ b.mallocSize = q.mallocLen

/-- Lockstep run of the models `bs` and the spec queues `qs` over a list of world operations: for
as long as every call is inside its contract (and addresses existing, distinct buffers), no model
call panics, every result is one the spec allows and all touched buffers still show their queue. -/
def ConformsW [DecidableEq α] (cfg : Cfg) : List (LB α) → List (Q α) → List (WOp α) → Prop
  | _, _, [] => True
  | bs, qs, .new size :: ops => ConformsW cfg (bs ++ [newLB cfg size]) (qs ++ [{}]) ops
  | bs, qs, .on i op :: ops =>
    ∀ b q, bs[i]? = some b → qs[i]? = some q → Contract q op = true →
      ∃ b' r, b.step cfg op = some (b', r) ∧ Matches r (specStep q op).2 ∧ Obs b' (specNext q op r) ∧
        ConformsW cfg (bs.set i b') (qs.set i (specNext q op r)) ops
  | bs, qs, .slice i n :: ops =>
    ∀ b q, bs[i]? = some b → qs[i]? = some q → sliceContract q = true →
      ∃ b' r c, b.slice cfg n = some (b', r, c) ∧ Matches r (specSlice q n).2.2 ∧ Obs b' (specSlice q n).1 ∧
        match c, (specSlice q n).2.1 with
        | some cb, some cq =>
          Obs cb cq ∧ ConformsW cfg (bs.set i b' ++ [cb]) (qs.set i (specSlice q n).1 ++ [cq]) ops
        | none, none => ConformsW cfg (bs.set i b') (qs.set i (specSlice q n).1) ops
        | _, _ => False
  | bs, qs, .append i j :: ops =>
    ∀ b d q qd, i ≠ j → bs[i]? = some b → bs[j]? = some d → qs[i]? = some q → qs[j]? = some qd →
      appendContract q qd = true →
      ∃ b' d', b.writeBuffer d = some (b', d', .unit) ∧ Obs b' (specAppend q qd).1 ∧ Obs d' (specAppend q qd).2 ∧
        ConformsW cfg ((bs.set i b').set j d') ((qs.set i (specAppend q qd).1).set j (specAppend q qd).2) ops

/-- every model buffer represents its queue -/
def RW (bs : List (LB α)) (qs : List (Q α)) : Prop :=
  bs.length = qs.length ∧ ∀ (i : Nat) (b : LB α) (q : Q α), bs[i]? = some b → qs[i]? = some q → R b q

theorem R.obs {b : LB α} {q : Q α} (h : R b q) : Obs b q := ⟨h.abs, h.len, h.mlen⟩

theorem RW.set {bs : List (LB α)} {qs : List (Q α)} (h : RW bs qs) (i : Nat) {b : LB α} {q : Q α} (hR : R b q) :
    RW (bs.set i b) (qs.set i q) := by
  refine ⟨by simp [h.1], ?_⟩
  intro k b' q' hb hq
  rw [List.getElem?_set] at hb hq
  by_cases hik : i = k
  · simp only [hik, if_true] at hb hq
    split at hb
    · split at hq
      · cases hb; cases hq; exact hR
      · cases hq
    · cases hb
  · simp only [hik, if_false] at hb hq
    exact h.2 k b' q' hb hq

theorem RW.snoc {bs : List (LB α)} {qs : List (Q α)} (h : RW bs qs) {b : LB α} {q : Q α} (hR : R b q) :
    RW (bs ++ [b]) (qs ++ [q]) := by
  refine ⟨by simp [h.1], ?_⟩
  intro k b' q' hb hq
  by_cases hk : k < bs.length
  · rw [List.getElem?_append_left hk] at hb
    rw [List.getElem?_append_left (h.1 ▸ hk)] at hq
    exact h.2 k b' q' hb hq
  · rw [List.getElem?_append_right (by omega)] at hb
    rw [List.getElem?_append_right (by have := h.1; omega)] at hq
    rw [← h.1] at hq
    cases hkk : k - bs.length with
    | zero => rw [hkk] at hb hq; simp at hb hq; subst hb; subst hq; exact hR
    | succ m => rw [hkk] at hb; simp at hb

theorem conformsW_of_RW [DecidableEq α] (cfg : Cfg) (ops : List (WOp α)) :
    ∀ {bs : List (LB α)} {qs : List (Q α)}, RW bs qs → ConformsW cfg bs qs ops := by
  induction ops with
  | nil => intro _ _ _; trivial
  | cons op ops ih =>
    intro bs qs h
    cases op with
    | new size => exact ih (h.snoc (R_newLB cfg size))
    | on i op =>
      intro b q hb hq hC
      obtain ⟨b', r, e, hR', hm⟩ := refine_step cfg (h.2 i b q hb hq) op hC
      exact ⟨b', r, e, hm, hR'.obs, ih (h.set i hR')⟩
    | slice i n =>
      intro b q hb hq hC
      obtain ⟨b', r, c, e, hR', hm, hc⟩ := slice_refines cfg (h.2 i b q hb hq) n hC
      refine ⟨b', r, c, e, hm, hR'.obs, ?_⟩
      cases c with
      | none =>
        cases hq2 : (specSlice q n).2.1 with
        | none => exact ih (h.set i hR')
        | some cq => rw [hq2] at hc; exact hc
      | some cb =>
        cases hq2 : (specSlice q n).2.1 with
        | none => rw [hq2] at hc; exact hc
        | some cq =>
          rw [hq2] at hc
          exact ⟨R.obs hc, ih ((h.set i hR').snoc hc)⟩
    | append i j =>
      intro b d q qd _ hb hd hq hqd hC
      obtain ⟨b', d', e, hRb, hRd⟩ := writeBuffer_refines (h.2 i b q hb hq) (h.2 j d qd hd hqd) hC
      exact ⟨b', d', e, hRb.obs, hRd.obs, ih ((h.set i hRb).set j hRd)⟩

/-- computable checked world run (for examples): `none` if a model call panics, a call is outside
its contract or names a missing buffer; else the final models and queues -/
def runCheckedW [DecidableEq α] (cfg : Cfg) : List (LB α) → List (Q α) → List (WOp α) → Option (List (LB α) × List (Q α))
  | bs, qs, [] => some (bs, qs)
  | bs, qs, .new size :: ops => runCheckedW cfg (bs ++ [newLB cfg size]) (qs ++ [{}]) ops
  | bs, qs, .on i op :: ops =>
    match bs[i]?, qs[i]? with
    | some b, some q =>
      if Contract q op then
        match b.step cfg op with
        | some (b', r) => runCheckedW cfg (bs.set i b') (qs.set i (specNext q op r)) ops
        | none => none
      else none
    | _, _ => none
  | bs, qs, .slice i n :: ops =>
    match bs[i]?, qs[i]? with
    | some b, some q =>
      if sliceContract q then
        match b.slice cfg n, (specSlice q n).2.1 with
        | some (b', _, some cb), some cq => runCheckedW cfg (bs.set i b' ++ [cb]) (qs.set i (specSlice q n).1 ++ [cq]) ops
        | some (b', _, none), none => runCheckedW cfg (bs.set i b') (qs.set i (specSlice q n).1) ops
        | _, _ => none
      else none
    | _, _ => none
  | bs, qs, .append i j :: ops =>
    match bs[i]?, bs[j]?, qs[i]?, qs[j]? with
    | some b, some d, some q, some qd =>
      if i ≠ j ∧ appendContract q qd then
        match b.writeBuffer d with
        | some (b', d', _) =>
          runCheckedW cfg ((bs.set i b').set j d') ((qs.set i (specAppend q qd).1).set j (specAppend q qd).2) ops
        | none => none
      else none
    | _, _, _, _ => none

end Netpoll.Buf
