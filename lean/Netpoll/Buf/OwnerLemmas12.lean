import Netpoll.Buf.OwnerLemmas11
/-! Lemmas about the ownership ledger, part 12: `node.Release()` and `node.Refer()` keep the reference-count invariant. -/
namespace Netpoll.Buf.Own
open Netpoll.Buf

theorem countP_set_exchange {α : Type} (p : α → Bool) (a x : α) : ∀ (l : List α) (i : Nat), l[i]? = some x →
    (l.set i a).countP p + (if p x then 1 else 0) = l.countP p + (if p a then 1 else 0)
  | [], _, h => by simp at h
  | y :: l, 0, h => by
    simp at h; subst h
    simp only [List.set_cons_zero, List.countP_cons]; omega
  | y :: l, i + 1, h => by
    simp at h
    have := countP_set_exchange p a x l i h
    simp only [List.set_cons_succ, List.countP_cons]; omega

theorem ch_setNode {m : Mem} {i : Nat} {nd : NodeS} (nd' : NodeS) (h : m.nodes[i]? = some nd) (o : Nat) :
    (m.setNode i nd').ch o + (if nd.claims o then 1 else 0) = m.ch o + (if nd'.claims o then 1 else 0) := by
  unfold Mem.ch Mem.setNode
  exact countP_set_exchange _ _ _ _ _ h

/-- what `Release` does to the struct itself: one reference less; at zero the struct is put back -/
def NodeS.decr (nd : NodeS) : NodeS := if nd.refer - 1 = 0 then nd.recycle else { nd with refer := nd.refer - 1 }

theorem releaseSelf_nodes {cfg : Cfg} {m m' : Mem} {j : Nat} (h : m.releaseSelf cfg j = some m') :
    ∃ nd : NodeS, m.nodes[j]? = some nd ∧ m'.nodes = m.nodes.set j nd.decr := by
  unfold Mem.releaseSelf at h
  cases hn : m.nodes[j]? with
  | none => simp [hn] at h
  | some nd =>
    simp only [hn] at h
    refine ⟨nd, rfl, ?_⟩
    unfold NodeS.decr
    by_cases hr : nd.refer - 1 = 0
    · simp only [hr, if_true, Option.some.injEq] at h
      subst h
      simp only [hr, if_true, Mem.setNode]
      split
      · rfl
      · rw [freeMem_nodes]
    · simp only [hr, if_false, Option.some.injEq] at h
      subst h
      simp only [hr, if_false, Mem.setNode]

theorem releaseSelf_ext {cfg : Cfg} {m m' : Mem} {j : Nat} (h : m.releaseSelf cfg j = some m') : Ext m m' := by
  unfold Mem.releaseSelf at h
  cases hn : m.nodes[j]? with
  | none => simp [hn] at h
  | some nd =>
    simp only [hn] at h
    by_cases hr : nd.refer - 1 = 0
    · simp only [hr, if_true, Option.some.injEq] at h
      subst h
      split
      · exact setNode_ext _ _ _
      · exact (freeMem_ext _ _ _ _).trans (setNode_ext _ _ _)
    · simp only [hr, if_false, Option.some.injEq] at h
      subst h
      exact setNode_ext _ _ _

theorem claims_recycle (nd : NodeS) (o : Nat) : nd.recycle.claims o = false := by
  simp [NodeS.claims, NodeS.recycle]

theorem inC_cons_ne {C : List Nat} {i j : Nat} (h : j ≠ i) : inC (i :: C) j = inC C j := by simp [inC, h]
theorem inC_cons_self (C : List Nat) (i : Nat) : inC (i :: C) i = 1 := by simp [inC]
theorem inC_not_mem {C : List Nat} {i : Nat} (h : i ∉ C) : inC C i = 0 := by simp [inC, h]

/-- `Release` of a chained struct without origin, which leaves the chain -/
theorem Rc.release_plain {m : Mem} {C : List Nat} {i : Nat} {nd : NodeS} (h : Rc m (i :: C)) (hn : m.nodes[i]? = some nd)
    (ho : nd.origin = none) : Rc (m.setNode i nd.decr) C := by
  have hnd := List.nodup_cons.1 h.nodup
  have r := h.node i nd hn
  have hlive0 : nd.recycled = 0 := h.chained_live hn List.mem_cons_self
  have hl := r.live hlive0
  rw [inC_cons_self] at hl
  have hcl : ∀ o, nd.claims o = false := fun o => by simp [NodeS.claims, ho]
  have hcl' : ∀ o, nd.decr.claims o = false := fun o => by
    unfold NodeS.decr; split
    · exact claims_recycle _ _
    · simp [NodeS.claims, ho]
  have hch : ∀ o, (m.setNode i nd.decr).ch o = m.ch o := fun o => by
    have := ch_setNode nd.decr hn o; rw [hcl, hcl'] at this; simpa using this
  have hdo : nd.decr.origin = none := by unfold NodeS.decr; split <;> simp [NodeS.recycle, ho]
  refine ⟨hnd.2, fun j hj => by simp only [Mem.setNode, List.length_set]; exact h.inb j (List.mem_cons_of_mem _ hj), fun j x hx => ?_⟩
  rcases getElem?_setNode hx with ⟨rfl, rfl, _⟩ | ⟨hji, hx'⟩
  · -- the released struct
    by_cases hr : nd.refer - 1 = 0
    · have hd : nd.decr = nd.recycle := by simp [NodeS.decr, hr]
      have hch0 : m.ch j = 0 := by omega
      refine ⟨by rw [hd]; simp [NodeS.recycle, hlive0], fun h0 => by rw [hd] at h0; simp [NodeS.recycle, hlive0] at h0,
        fun _ => ?_, fun o ho' => (by rw [hd] at ho'; simp [NodeS.recycle] at ho'),
        fun _ _ k hk => (by rw [hd] at hk; simp [NodeS.recycle] at hk)⟩
      exact ⟨by rw [hd]; simp [NodeS.recycle], hnd.1, by rw [hch]; exact hch0, by rw [hd]; rfl, by rw [hd]; rfl⟩
    · have hd : nd.decr = { nd with refer := nd.refer - 1 } := by simp [NodeS.decr, hr]
      refine ⟨by rw [hd]; exact r.once, fun _ => ?_, fun hdd => by rw [hd] at hdd; simp only at hdd; omega,
        fun o ho' => (by rw [hd] at ho'; simp only at ho'; rw [ho] at ho'; cases ho'),
        fun hu hoo k hk => (by rw [hd] at hu hoo hk; exact r.caller hu hoo k hk)⟩
      rw [hch, inC_not_mem hnd.1, hd]
      simp only
      omega
  · have rx := h.node j x hx'
    refine ⟨rx.once, fun h0 => ?_, fun hd => ?_, fun o ho' h0 => ?_, rx.caller⟩
    · rw [hch, ← inC_cons_ne hji]; exact rx.live h0
    · obtain ⟨a, b, c, d, e⟩ := rx.dead hd
      exact ⟨a, fun hc => b (List.mem_cons_of_mem _ hc), by rw [hch]; exact c, d, e⟩
    · obtain ⟨a, b, c, on, d, e, f⟩ := rx.child o ho' h0
      by_cases hoi : o = i
      · -- `x` would be a live child of the released struct
        subst hoi
        rw [hn] at d; cases d
        exact ⟨a, b, c, nd.decr, by simp only [Mem.setNode]; exact List.getElem?_set_self (lt_of_getElem? hn), hdo, by
          have hpos : 0 < m.ch o := countP_pos_of_get _ _ j x hx' (by simp [NodeS.claims, h0, ho'])
          by_cases hr : nd.refer - 1 = 0
          · omega
          · have hd : nd.decr = { nd with refer := nd.refer - 1 } := by simp [NodeS.decr, hr]
            rw [hd]; exact f⟩
      · exact ⟨a, b, c, on, by simp only [Mem.setNode]; rw [List.getElem?_set_ne (fun h' => hoi h'.symm)]; exact d, e, f⟩

theorem hcl_on_origin (on : NodeS) (h : on.origin = none) : on.decr.origin = none := by
  unfold NodeS.decr; split <;> simp [NodeS.recycle, h]

/-- `Release` of a chained child struct (a Slice node): first its origin, then the struct itself, which leaves the chain -/
theorem Rc.release_child {m : Mem} {C : List Nat} {i o : Nat} {nd on : NodeS} (h : Rc m (i :: C)) (hn : m.nodes[i]? = some nd)
    (ho : nd.origin = some o) (hon : m.nodes[o]? = some on) : Rc ((m.setNode o on.decr).setNode i nd.decr) C := by
  have hnd := List.nodup_cons.1 h.nodup
  have r := h.node i nd hn
  have hlive0 : nd.recycled = 0 := h.chained_live hn List.mem_cons_self
  have hl := r.live hlive0
  rw [inC_cons_self] at hl
  obtain ⟨hoi, hunm, hle1, on', hon', horig, hblk⟩ := r.child o ho hlive0
  rw [hon] at hon'; cases hon'
  have hrefer : nd.refer = 1 := by omega
  have hchi : m.ch i = 0 := by omega
  have hd : nd.decr = nd.recycle := by simp [NodeS.decr, hrefer]
  have hclaim : ∀ x, nd.claims x = decide (x = o) := fun x => by
    simp only [NodeS.claims, hlive0, ho, beq_self_eq_true, Bool.true_and]
    by_cases hx : x = o
    · subst hx; simp
    · have : ¬ o = x := fun e => hx e.symm
      simp [hx, this]
  have hcho : 0 < m.ch o := countP_pos_of_get _ _ i nd hn (by rw [hclaim]; simp)
  have ro := h.node o on hon
  have holive : on.recycled = 0 := h.origin_live hon hcho
  have hlo := ro.live holive
  rw [inC_cons_ne hoi] at hlo
  -- the two writes
  have hcl_on : ∀ x, on.claims x = false := fun x => by simp [NodeS.claims, horig]
  have hcl_on' : ∀ x, on.decr.claims x = false := fun x => by
    unfold NodeS.decr; split
    · exact claims_recycle _ _
    · simp [NodeS.claims, horig]
  have hch1 : ∀ x, (m.setNode o on.decr).ch x = m.ch x := fun x => by
    have := ch_setNode on.decr hon x; rw [hcl_on, hcl_on'] at this; simpa using this
  have hn1 : (m.setNode o on.decr).nodes[i]? = some nd := by
    simp only [Mem.setNode]; rw [List.getElem?_set_ne hoi]; exact hn
  have hch2 : ∀ x, ((m.setNode o on.decr).setNode i nd.decr).ch x + (if x = o then 1 else 0) = m.ch x := fun x => by
    have := ch_setNode nd.decr hn1 x
    rw [hch1, hd, claims_recycle, hclaim] at this
    simp only [decide_eq_true_eq] at this
    rw [hd]
    simpa using this
  have hget2 : ∀ (j : Nat) (x : NodeS), j ≠ i → j ≠ o → m.nodes[j]? = some x →
      ((m.setNode o on.decr).setNode i nd.decr).nodes[j]? = some x := by
    intro j x h1 h2 hx
    simp only [Mem.setNode]
    rw [List.getElem?_set_ne (fun h' => h1 h'.symm), List.getElem?_set_ne (fun h' => h2 h'.symm)]; exact hx
  have hgeto : ((m.setNode o on.decr).setNode i nd.decr).nodes[o]? = some on.decr := by
    simp only [Mem.setNode]
    rw [List.getElem?_set_ne (fun h' => hoi h'.symm)]
    exact List.getElem?_set_self (lt_of_getElem? hon)
  refine ⟨hnd.2, fun j hj => by simp only [Mem.setNode, List.length_set]; exact h.inb j (List.mem_cons_of_mem _ hj), fun j x hx => ?_⟩
  rcases getElem?_setNode hx with ⟨rfl, rfl, _⟩ | ⟨hji, hx1⟩
  · -- the child itself: recycled
    have h2 := hch2 j
    have hjo : ¬ j = o := fun e => hoi e.symm
    simp only [hjo, if_false, Nat.add_zero] at h2
    refine ⟨by rw [hd]; simp [NodeS.recycle, hlive0], fun h0 => by rw [hd] at h0; simp [NodeS.recycle, hlive0] at h0,
      fun _ => ?_, fun o' ho' => (by rw [hd] at ho'; simp [NodeS.recycle] at ho'),
      fun _ _ k hk => (by rw [hd] at hk; simp [NodeS.recycle] at hk)⟩
    exact ⟨by rw [hd]; simp [NodeS.recycle], hnd.1, by rw [h2]; exact hchi, by rw [hd]; rfl, by rw [hd]; rfl⟩
  · rcases getElem?_setNode hx1 with ⟨rfl, rfl, _⟩ | ⟨hjo, hx0⟩
    · -- the origin
      have h2 := hch2 j
      simp only [if_true] at h2
      by_cases hr : on.refer - 1 = 0
      · have hdo : on.decr = on.recycle := by simp [NodeS.decr, hr]
        refine ⟨by rw [hdo]; simp [NodeS.recycle, holive], fun h0 => by rw [hdo] at h0; simp [NodeS.recycle, holive] at h0,
          fun _ => ?_, fun o' ho' => (by rw [hdo] at ho'; simp [NodeS.recycle] at ho'),
          fun _ _ k hk => (by rw [hdo] at hk; simp [NodeS.recycle] at hk)⟩
        have hin : inC C j = 0 := by omega
        refine ⟨by rw [hdo]; simp [NodeS.recycle], fun hc => ?_, by omega, by rw [hdo]; rfl, by rw [hdo]; rfl⟩
        simp [inC, hc] at hin
      · have hdo : on.decr = { on with refer := on.refer - 1 } := by simp [NodeS.decr, hr]
        refine ⟨by rw [hdo]; exact ro.once, fun _ => ?_, fun hdd => by rw [hdo] at hdd; simp only at hdd; omega,
          fun o' ho' => (by rw [hdo] at ho'; simp only at ho'; rw [horig] at ho'; cases ho'),
          fun hu hoo k hk => (by rw [hdo] at hu hoo hk; exact ro.caller hu hoo k hk)⟩
        have hgoal : ((inC C j + ((m.setNode j on.decr).setNode i nd.decr).ch j : Nat) : Int) ≤ on.refer - 1 := by omega
        rw [hdo] at hgoal ⊢; exact hgoal
    · -- everybody else
      have rx := h.node j x hx0
      have h2 := hch2 j
      have hle : ((m.setNode o on.decr).setNode i nd.decr).ch j ≤ m.ch j := by omega
      refine ⟨rx.once, fun h0 => ?_, fun hdd => ?_, fun o' ho' h0 => ?_, rx.caller⟩
      · have := rx.live h0
        rw [inC_cons_ne hji] at this
        omega
      · obtain ⟨a, b, c, d, e⟩ := rx.dead hdd
        exact ⟨a, fun hc => b (List.mem_cons_of_mem _ hc), by omega, d, e⟩
      · obtain ⟨a, b, c, on2, d, e, f⟩ := rx.child o' ho' h0
        have hxcl : x.claims o' = true := by simp [NodeS.claims, h0, ho']
        by_cases ho'i : o' = i
        · subst ho'i
          have := countP_pos_of_get (·.claims o') _ j x hx0 hxcl
          unfold Mem.ch at hchi; omega
        · by_cases ho'o : o' = o
          · subst ho'o
            rw [hon] at d; cases d
            refine ⟨a, b, c, on.decr, hgeto, hcl_on_origin on horig, ?_⟩
            by_cases hr : on.refer - 1 = 0
            · -- the origin was put back: impossible, `x` still claims it
              have hpos := countP_pos_of_get (·.claims o') _ j x hx hxcl
              have h3 := hch2 o'
              simp only [if_true] at h3
              unfold Mem.ch at h3 hlo
              omega
            · have hdo : on.decr = { on with refer := on.refer - 1 } := by simp [NodeS.decr, hr]
              rw [hdo]; exact f
          · exact ⟨a, b, c, on2, hget2 o' on2 ho'i ho'o d, e, f⟩

/-- `node.Release()` of a chained struct that leaves the chain -/
theorem release1_rc {cfg : Cfg} {m m' : Mem} {C : List Nat} {i : Nat} (h : Rc m (i :: C)) (hr : m.release1 cfg i = some m') :
    Rc m' C := by
  unfold Mem.release1 Mem.nodeRelease at hr
  cases hn : m.nodes[i]? with
  | none => simp [hn] at hr
  | some nd =>
    simp only [hn] at hr
    cases ho : nd.origin with
    | none =>
      simp only [ho] at hr
      obtain ⟨nd', g1, g2⟩ := releaseSelf_nodes hr
      rw [hn] at g1; cases g1
      exact (h.release_plain hn ho).of_nodes_eq g2 ((Ext.of_blocks_eq rfl : Ext (m.setNode i nd.decr) m).trans (releaseSelf_ext hr))
    | some o =>
      simp only [ho] at hr
      have hlive0 : nd.recycled = 0 := h.chained_live hn List.mem_cons_self
      obtain ⟨hoi, _, _, on, hon, horig, _⟩ := (h.node i nd hn).child o ho hlive0
      cases hlen : m.nodes.length with
      | zero => rw [hlen] at hr; simp [Mem.nodeRelease] at hr
      | succ k =>
        rw [hlen] at hr
        unfold Mem.nodeRelease at hr
        simp only [hon, horig] at hr
        cases h1 : m.releaseSelf cfg o with
        | none => simp [h1] at hr
        | some m1 =>
          simp only [h1] at hr
          obtain ⟨on', g1, g2⟩ := releaseSelf_nodes h1
          rw [hon] at g1; cases g1
          obtain ⟨nd', g3, g4⟩ := releaseSelf_nodes hr
          have hn1 : m1.nodes[i]? = some nd := by rw [g2, List.getElem?_set_ne hoi]; exact hn
          rw [hn1] at g3; cases g3
          exact (h.release_child hn ho hon).of_nodes_eq (by rw [g4, g2]; rfl)
            ((Ext.of_blocks_eq rfl : Ext ((m.setNode o on.decr).setNode i nd.decr) m).trans ((releaseSelf_ext h1).trans (releaseSelf_ext hr)))

theorem releaseAll_rc {cfg : Cfg} : ∀ (l : List Nat) {m m' : Mem} {C : List Nat}, Rc m (l ++ C) → m.releaseAll cfg l = some m' → Rc m' C
  | [], m, m', C, h, hr => by simp [Mem.releaseAll] at hr; subst hr; simpa using h
  | i :: rest, m, m', C, h, hr => by
    unfold Mem.releaseAll at hr
    cases h1 : m.release1 cfg i with
    | none => simp [h1] at hr
    | some m1 =>
      simp only [h1] at hr
      exact releaseAll_rc rest (release1_rc (C := rest ++ C) (by simpa using h) h1) hr

end Netpoll.Buf.Own
