import Netpoll.Buf.Owner
/-!
The coverage predicate of the C02 / C03 theorems as an executable check (core Lean only; linked into `npdriver own`, which
reports for every replayed call whether it lies inside the part of the state space the theorems speak about).
`Netpoll.Buf.OwnerLemmas18` / `25` prove that these Boolean checks imply the propositions `Cov` / `CovV`.
-/
namespace Netpoll.Buf.Own
open Netpoll.Buf

def ackSafeB (m : Mem) (b : Buf) : Bool :=
  (b.chain.drop (b.f + 1)).all fun i =>
    match m.nodes[i]? with
    | some nd => nd.refer == 1
    | none => true

def covB (s : Ledger) : Op → Bool
  | .wdir _ _ _ remain => !decide (remain > 0)
  | .ack id _ =>
    match s.getBuf id with
    | some b => ackSafeB s.mem b
    | none => true
  | .new id _ => (s.getBuf id).isNone
  | .slice id _ nid => (s.getBuf nid).isNone && nid != id
  | .app id did => id != did
  | _ => true

def allStepsB (cfg : Cfg) (P : Ledger → Op → Bool) : Ledger → List Op → Bool
  | _, [] => true
  | s, op :: ops => P s op && match step cfg s op with
    | none => true
    | some s' => allStepsB cfg P s' ops

def tailCleanB (m : Mem) (b : Buf) : Bool :=
  (b.chain.drop (b.w + 1)).all fun i =>
    match m.nodes[i]? with
    | some nd => !nd.exposed
    | none => true

def tailOKB (s : Ledger) : Op → Bool
  | .flush id | .wbin id _ _ | .book id _ _ _ | .rtail id _ | .app id _ =>
    match s.getBuf id with
    | some b => tailCleanB s.mem b
    | none => true
  | _ => true

def covVB (s : Ledger) (op : Op) : Bool := covB s op && tailOKB s op

end Netpoll.Buf.Own
