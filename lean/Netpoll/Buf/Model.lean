/-
Value model of netpoll's LinkBuffer (nocopy_linkbuffer.go), one Lean function per Go
method, mirroring the code as written (including its quirks), not a tidy version.

Pointers become values: the node chain starting at `head` is `nodes`, the cursors
`read/flush/write` are indices into it; a nil cursor is an index `≥ nodes.length`.
A Go nil dereference / slice-bounds panic is `none`.
Core Lean only (the driver links this file into a native executable).
-/
namespace Netpoll.Buf

/-- Tunables and thresholds (constants of nocopy.go; `LinkBufferCap` is a Go variable). -/
structure Cfg where
  linkBufferCap : Nat := 4096
  block1k : Nat := 1024
  inplace : Nat := 4096      -- BinaryInplaceThreshold
  pagesize : Nat := 8192
  mallocMax : Nat := 8388608
deriving Repr, DecidableEq

/-- capacity class of mcache: smallest power of two ≥ max c 1 (`1 << calcIndex c`). -/
def pow2ge (c : Nat) : Nat := if c ≤ 1 then 1 else 2 ^ (Nat.log2 (c - 1) + 1)

/-- `cap(malloc(_, c))` in nocopy.go: above mallocMax the exact capacity, else the pool class. -/
def poolCap (cfg : Cfg) (c : Nat) : Nat := if c > cfg.mallocMax then c else pow2ge c

/-- linkBufferNode.  `buf` is Go `node.buf[0:len]`; `pend` is the content of
`node.buf[len:malloc]` (bytes malloc'ed and written but not yet flushed); `cap` is `cap(node.buf)`. -/
structure Node (α : Type) where
  buf : List α := []
  off : Nat := 0
  malloc : Nat := 0
  pend : List α := []
  cap : Nat := 0
  unmanaged : Bool := false
  exposed : Bool := false
deriving Repr, DecidableEq

variable {α : Type}

/-- `node.Len()` -/
def Node.len (n : Node α) : Nat := n.buf.length - n.off
/-- `node.buf[node.off:]` -/
def Node.readable (n : Node α) : List α := n.buf.drop n.off
/-- `node.malloc - len(node.buf)` as Go computes it (can be negative). -/
def Node.pendLen (n : Node α) : Int := (n.malloc : Int) - (n.buf.length : Int)

/-- `newLinkBufferNode(size)` -/
def newNode (cfg : Cfg) (size : Nat) : Node α :=
  if size = 0 then { unmanaged := true }
  else { cap := poolCap cfg (if size < cfg.linkBufferCap then cfg.linkBufferCap else size) }

/-- `node.Next(n)`: the bytes and the node with `off` advanced.  Go panics only if `off+n > cap`. -/
def Node.next (nd : Node α) (n : Nat) : List α × Node α :=
  ((nd.buf.drop nd.off).take n, { nd with off := nd.off + n })

/-- `node.Peek(n)` -/
def Node.peek (nd : Node α) (n : Nat) : List α := (nd.buf.drop nd.off).take n

/-- `node.Malloc(n)` with the returned slice filled with `d` at once (`d.length = n`). -/
def Node.mallocFill (nd : Node α) (d : List α) : Node α :=
  { nd with malloc := nd.malloc + d.length, pend := nd.pend ++ d }

/-- UnsafeLinkBuffer. -/
structure LB (α : Type) where
  nodes : List (Node α) := []
  r : Nat := 0
  f : Nat := 0
  w : Nat := 0
  length : Nat := 0
  mallocSize : Nat := 0
  /-- `len(b.caches)` -/
  caches : Nat := 0
  /-- `b.cachePeek`: `none` = nil, else (content, capacity). -/
  cachePeek : Option (List α × Nat) := none
deriving Repr, DecidableEq

/-- what a call returns -/
inductive Res (α : Type) where
  | unit                      -- nil error, no value
  | bytes (bs : List α)       -- a byte slice / string / single byte
  | vecs (vs : List (List α)) -- GetBytes
  | num (n : Int)             -- an int result
  | err                       -- a non-nil error (class is not distinguished for the buffer)
deriving Repr, DecidableEq

/-- `NewLinkBuffer(size)` -/
def newLB (cfg : Cfg) (size : Nat) : LB α := { nodes := [newNode cfg size] }

/-- does `recalLen(-n)` find a non-empty peek cache (which is stale then)? -/
def LB.cacheStale (b : LB α) (n : Nat) : Bool :=
  match b.cachePeek with
  | some (c, _) => decide (n > 0 ∧ c.length > 0)
  | none => false

/-- `recalLen(-n)` for `n > 0`: a non-empty peek cache is stale now; its block is retired to
`b.caches` (freed by Release) and `cachePeek` becomes nil.  (Written as one record update so that
the untouched fields reduce by `rfl` in proofs.) -/
def LB.consumeLen (b : LB α) (n : Nat) : LB α :=
  { b with
    length := b.length - n
    caches := if b.cacheStale n then b.caches + 1 else b.caches
    cachePeek := if b.cacheStale n then none else b.cachePeek }

/-- `for l == 0 && b.read != b.flush { b.read = b.read.next; l = b.read.Len() }` of isSingleNode,
on the chain suffix starting at the read node.  `none`: nil dereference. -/
def skipEmptySN : List (Node α) → Nat → Nat → Option Nat
  | [], _, _ => none
  | nd :: rest, r, f => if nd.len = 0 ∧ r ≠ f then skipEmptySN rest (r + 1) f else some r

/-- `for b.read != b.flush && b.read.Len() == 0 { b.read = b.read.next }` (Release, readCopy). -/
def skipEmptyRel : List (Node α) → Nat → Nat → Option Nat
  | [], r, f => if r ≠ f then none else some r
  | nd :: rest, r, f => if r ≠ f ∧ nd.len = 0 then skipEmptyRel rest (r + 1) f else some r

/-- `isSingleNode(readN)` for `readN > 0`: moves `read`, reports whether the read node holds `readN`. -/
def LB.isSingleNode (b : LB α) (readN : Nat) : Option (LB α × Bool) :=
  match skipEmptySN (b.nodes.drop b.r) b.r b.f with
  | none => none
  | some r' =>
    match b.nodes[r']? with
    | none => none
    | some nd => some ({ b with r := r' }, decide (nd.len ≥ readN))

/-- The cross-node copy loop of Next / readBinary on the suffix starting at the read node:
`for ack := n; ack > 0; ack -= l { l = read.Len(); if l >= ack {Next(ack); break} else if l > 0 {Next(l)}; read = read.next }`.
Returns the bytes, the updated suffix and how many nodes `read` advanced. -/
def nextLoop : List (Node α) → Nat → Option (List α × List (Node α) × Nat)
  | [], _ => none
  | nd :: rest, ack =>
    if nd.len ≥ ack then
      some ((nd.next ack).1, (nd.next ack).2 :: rest, 0)
    else
      match nextLoop rest (ack - nd.len) with
      | none => none
      | some (bs, rest', k) =>
        some ((nd.next nd.len).1 ++ bs, (if nd.len > 0 then (nd.next nd.len).2 else nd) :: rest', k + 1)

/-- replace the suffix of `nodes` starting at index `r` -/
def spliceFrom (nodes : List (Node α)) (r : Nat) (suf : List (Node α)) : List (Node α) :=
  nodes.take r ++ suf

/-- `Next(n)` -/
def LB.next (cfg : Cfg) (b : LB α) (n : Int) : Option (LB α × Res α) :=
  if n ≤ 0 then some (b, .bytes [])
  else
    let n := n.toNat
    if b.length < n then some (b, .err)
    else
      let b := b.consumeLen n
      match b.isSingleNode n with
      | none => none
      | some (b, true) =>
        match b.nodes[b.r]? with
        | none => none
        | some nd =>
          let (bs, nd') := ({ nd with exposed := true } : Node α).next n
          some ({ b with nodes := b.nodes.set b.r nd' }, .bytes bs)
      | some (b, false) =>
        let b := if cfg.block1k < n ∧ n ≤ cfg.mallocMax then { b with caches := b.caches + 1 } else b
        match nextLoop (b.nodes.drop b.r) n with
        | none => none
        | some (bs, suf, k) => some ({ b with nodes := spliceFrom b.nodes b.r suf, r := b.r + k }, .bytes bs)

/-- The append loop of the multi-node Peek on the suffix starting at the read node.
`p` is the cache content so far. -/
def peekLoop : List (Node α) → Nat → List α → Nat → Option (List α)
  | nodes, scanned, p, n =>
    if p.length ≥ n then some p
    else match nodes with
      | [] => none
      | nd :: rest =>
        let l := nd.len
        if scanned + l ≤ p.length then peekLoop rest (scanned + l) p n
        else
          let start := p.length - scanned
          let copyn := min (n - p.length) (l - start)
          peekLoop rest (scanned + l) (p ++ ((nd.peek l).drop start).take copyn) n

/-- `Peek(n)` -/
def LB.peek (cfg : Cfg) (b : LB α) (n : Int) : Option (LB α × Res α) :=
  if n ≤ 0 then some (b, .bytes [])
  else
    let n := n.toNat
    if b.length < n then some (b, .err)
    else
      match b.isSingleNode n with
      | none => none
      | some (b, true) =>
        match b.nodes[b.r]? with
        | none => none
        | some nd => some ({ b with nodes := b.nodes.set b.r { nd with exposed := true } }, .bytes (nd.peek n))
      | some (b, false) =>
        -- a cache that is too small is retired to `b.caches` (not freed: an earlier Peek result may use it)
        let small : Bool := match b.cachePeek with
          | some (_, cp) => decide (cp < n)
          | none => false
        let cp : Option (List α × Nat) := match b.cachePeek with
          | some (c, cp) => if cp < n then none else some (c, cp)
          | none => none
        let b := { b with caches := if small then b.caches + 1 else b.caches }
        let (c, cp) := match cp with
          | some x => x
          | none => ([], poolCap cfg n)
        if c.length ≥ n then some ({ b with cachePeek := some (c, cp) }, .bytes (c.take n))
        else
          match peekLoop (b.nodes.drop b.r) 0 c n with
          | none => none
          | some p => some ({ b with cachePeek := some (p, cp) }, .bytes (p.take n))

/-- Skip's loop: `l = read.Len(); if l >= ack { read.off += ack; break }; read = read.next`. -/
def skipLoop : List (Node α) → Nat → Option (List (Node α) × Nat)
  | [], _ => none
  | nd :: rest, ack =>
    if nd.len ≥ ack then some ({ nd with off := nd.off + ack } :: rest, 0)
    else match skipLoop rest (ack - nd.len) with
      | none => none
      | some (rest', k) => some (nd :: rest', k + 1)

/-- `Skip(n)` -/
def LB.skip (b : LB α) (n : Int) : Option (LB α × Res α) :=
  if n ≤ 0 then some (b, .unit)
  else
    let n := n.toNat
    if b.length < n then some (b, .err)
    else
      let b := b.consumeLen n
      match skipLoop (b.nodes.drop b.r) n with
      | none => none
      | some (suf, k) => some ({ b with nodes := spliceFrom b.nodes b.r suf, r := b.r + k }, .unit)

/-- `Release()`: the consumed nodes before `read` leave the chain; caches are freed. -/
def LB.release (b : LB α) : Option (LB α × Res α) :=
  match skipEmptyRel (b.nodes.drop b.r) b.r b.f with
  | none => none
  | some r' =>
    -- `for b.head != b.read { ... b.head = b.head.next ... }` : nil dereference if read is not on the chain
    if r' > b.nodes.length then none
    else some ({ b with nodes := b.nodes.drop r', r := 0, f := b.f - r', w := b.w - r',
                        caches := 0, cachePeek := none }, .unit)

/-- `readBinary(n)` (after the length check) -/
def LB.readBinaryCore (b : LB α) (n : Nat) : Option (LB α × List α) :=
  let b := b.consumeLen n
  match b.isSingleNode n with
  | none => none
  | some (b, true) =>
    match b.nodes[b.r]? with
    | none => none
    | some nd => some ({ b with nodes := b.nodes.set b.r (nd.next n).2 }, (nd.next n).1)
  | some (b, false) =>
    match nextLoop (b.nodes.drop b.r) n with
    | none => none
    | some (bs, suf, k) => some ({ b with nodes := spliceFrom b.nodes b.r suf, r := b.r + k }, bs)

/-- `ReadBinary(n)` / `ReadString(n)` -/
def LB.readBinary (b : LB α) (n : Int) : Option (LB α × Res α) :=
  if n ≤ 0 then some (b, .bytes [])
  else
    let n := n.toNat
    if b.length < n then some (b, .err)
    else match b.readBinaryCore n with
      | none => none
      | some (b, bs) => some (b, .bytes bs)

/-- ReadByte's loop: `for { if read.Len() >= 1 { return read.Next(1)[0] }; read = read.next }` -/
def readByteLoop : List (Node α) → Option (List α × List (Node α) × Nat)
  | [] => none
  | nd :: rest =>
    if nd.len ≥ 1 then some ((nd.next 1).1, (nd.next 1).2 :: rest, 0)
    else match readByteLoop rest with
      | none => none
      | some (bs, rest', k) => some (bs, nd :: rest', k + 1)

/-- `ReadByte()` -/
def LB.readByte (b : LB α) : Option (LB α × Res α) :=
  if b.length < 1 then some (b, .err)
  else
    let b := b.consumeLen 1
    match readByteLoop (b.nodes.drop b.r) with
    | none => none
    | some (bs, suf, k) => some ({ b with nodes := spliceFrom b.nodes b.r suf, r := b.r + k }, .bytes bs)

/-- `indexByte(c, skip)`'s loop on the suffix at `read`: `unread` bytes left to scan, `past = size - unread`. -/
def indexLoop [DecidableEq α] (c : α) : List (Node α) → Nat → Nat → Nat → Option Int
  | nodes, unread, skip, past =>
    if unread = 0 then some (-1)
    else match nodes with
      | [] => none
      | nd :: rest =>
        let l := nd.len
        let n := if l ≥ unread then unread else l
        if skip ≥ n then
          -- Go: `skip -= n; node = node.next; continue` (the post statement `unread -= n` still runs)
          indexLoop c rest (unread - n) (skip - n) (past + n)
        else
          match ((nd.peek n).drop skip).idxOf? c with
          | some i => some ((past + skip + i : Nat) : Int)
          | none => indexLoop c rest (unread - n) 0 (past + n)
termination_by nodes _ _ _ => nodes.length
decreasing_by all_goals simp_wf <;> omega

/-- `indexByte(c, skip)` -/
def LB.indexByte [DecidableEq α] (b : LB α) (c : α) (skip : Nat) : Option Int :=
  if skip ≥ b.length then some (-1)
  else indexLoop c (b.nodes.drop b.r) b.length skip 0

/-- `Until(delim)` -/
def LB.until [DecidableEq α] (cfg : Cfg) (b : LB α) (delim : α) : Option (LB α × Res α) :=
  match b.indexByte delim 0 with
  | none => none
  | some i => if i < 0 then some (b, .err) else b.next cfg (i + 1)

/-- `node.Refer(n)`: the child node and the parent with `off` advanced. -/
def Node.refer (nd : Node α) (n : Nat) : Node α × Node α :=
  ({ buf := (nd.next n).1, cap := n, unmanaged := true }, (nd.next n).2)

/-- Slice's multi-node loop (after the first node): collects child nodes. -/
def sliceLoop : List (Node α) → Nat → Option (List (Node α) × List (Node α) × Nat)
  | [], _ => none
  | nd :: rest, ack =>
    if nd.len ≥ ack then
      let (ch, nd') := ({ nd with exposed := true } : Node α).refer ack
      some ([ch], nd' :: rest, 0)
    else
      match sliceLoop rest (ack - nd.len) with
      | none => none
      | some (chs, rest', k) =>
        if nd.len > 0 then
          let (ch, nd') := ({ nd with exposed := true } : Node α).refer nd.len
          some (ch :: chs, nd' :: rest', k + 1)
        else some (chs, nd :: rest', k + 1)

/-- a read-only buffer made of the child nodes (after the deferred `p.flush = p.flush.next; p.write = p.flush`). -/
def sliceLB (children : List (Node α)) (n : Nat) : LB α :=
  { nodes := children, r := 0, f := children.length, w := children.length, length := n }

/-- `Slice(n)`: (parent, result, child buffer if one was made). -/
def LB.slice (cfg : Cfg) (b : LB α) (n : Int) : Option (LB α × Res α × Option (LB α)) :=
  if n ≤ 0 then some (b, .unit, some (newLB cfg 0))
  else
    let n := n.toNat
    if b.length < n then some (b, .err, none)
    else
      let b := b.consumeLen n
      match b.isSingleNode n with
      | none => none
      | some (b, true) =>
        match b.nodes[b.r]? with
        | none => none
        | some nd =>
          let (ch, nd') := ({ nd with exposed := true } : Node α).refer n
          some ({ b with nodes := b.nodes.set b.r nd' }, .unit, some (sliceLB [ch] n))
      | some (b, false) =>
        match b.nodes.drop b.r with
        | [] => none
        | nd :: rest =>
          let l := nd.len
          let (ch, nd') := ({ nd with exposed := true } : Node α).refer l
          -- Go: `for ack := n - l; ack > 0; ...` (here l < n)
          match sliceLoop rest (n - l) with
          | none => none
          | some (chs, rest', k) =>
            let b := { b with nodes := spliceFrom b.nodes b.r (nd' :: rest'), r := b.r + 1 + k }
            match b.release with
            | none => none
            | some (b, _) => some (b, .unit, some (sliceLB (ch :: chs) n))

/-- readCopy's copy loop: like Skip (passed nodes keep `off`), but empty nodes are stepped over first. -/
def copyLoop : List (Node α) → Nat → Option (List α × List (Node α) × Nat)
  | [], _ => none
  | nd :: rest, ack =>
    if nd.len = 0 then
      match copyLoop rest ack with
      | none => none
      | some (bs, rest', k) => some (bs, nd :: rest', k + 1)
    else if nd.len ≥ ack then some ((nd.next ack).1, (nd.next ack).2 :: rest, 0)
    else match copyLoop rest (ack - nd.len) with
      | none => none
      | some (bs, rest', k) => some (nd.readable ++ bs, nd :: rest', k + 1)

/-- `readCopy(p)` with `len(p) = l`: consumed, not exposed nodes before `read` leave the chain at once. -/
def LB.readCopy (b : LB α) (l : Nat) : Option (LB α × Res α) :=
  if l = 0 ∨ b.length = 0 then some (b, .bytes [])
  else
    let l := if b.length < l then b.length else l
    let b := b.consumeLen l
    match copyLoop (b.nodes.drop b.r) l with
    | none => none
    | some (bs, suf, k) =>
      let nodes := spliceFrom b.nodes b.r suf
      let r := b.r + k
      match skipEmptyRel (nodes.drop r) r b.f with
      | none => none
      | some r' =>
        if r' > nodes.length then none
        else
          let kept := (nodes.take r').filter (·.exposed)
          let removed := r' - kept.length
          some ({ b with nodes := kept ++ nodes.drop r', r := kept.length, f := b.f - removed, w := b.w - removed },
                .bytes bs)

/-- `growth(n)` for `n > 0`: returns the new chain and write index. -/
def growthLoop (cfg : Cfg) (n : Nat) : List (Node α) → Nat → List (Node α) × Nat
  | [], w => ([], w)   -- unreachable from a non-nil write node (guarded by the caller)
  | [nd], w =>
    if nd.unmanaged ∨ nd.cap - nd.malloc < n then ([nd, newNode cfg n], w + 1) else ([nd], w)
  | nd :: nd2 :: rest, w =>
    if nd.unmanaged ∨ nd.cap - nd.malloc < n then
      let (suf, w') := growthLoop cfg n (nd2 :: rest) (w + 1)
      (nd :: suf, w')
    else (nd :: nd2 :: rest, w)

def LB.growth (cfg : Cfg) (b : LB α) (n : Nat) : Option (LB α) :=
  if n = 0 then some b
  else match b.nodes.drop b.w with
    | [] => none
    | suf =>
      let (suf', w') := growthLoop cfg n suf b.w
      some { b with nodes := spliceFrom b.nodes b.w suf', w := w' }

/-- `Malloc(n)`, the returned slice being filled with `d` at once. -/
def LB.malloc (cfg : Cfg) (b : LB α) (n : Int) (d : List α) : Option (LB α × Res α) :=
  if n ≤ 0 then some (b, .unit)
  else
    match ({ b with mallocSize := b.mallocSize + n.toNat } : LB α).growth cfg n.toNat with
    | none => none
    | some b =>
      match b.nodes[b.w]? with
      | none => none
      | some nd => some ({ b with nodes := b.nodes.set b.w (nd.mallocFill d) }, .unit)

/-- MallocAck's truncation loop on the suffix at `flush`:
`for ack := n; ; ack -= l { l = write.malloc - len(write.buf); if l >= ack { write.malloc = ack + len(write.buf); break }; write = write.next }`. -/
def ackLoop : List (Node α) → Int → Option (List (Node α) × Nat)
  | [], _ => none
  | nd :: rest, ack =>
    if nd.pendLen ≥ ack then
      some ({ nd with malloc := (ack + nd.buf.length).toNat, pend := nd.pend.take ack.toNat } :: rest, 0)
    else match ackLoop rest (ack - nd.pendLen) with
      | none => none
      | some (rest', k) => some (nd :: rest', k + 1)

/-- `node.malloc, node.refer, node.buf = node.off, 1, node.buf[:node.off]` -/
def Node.discard (nd : Node α) : Node α :=
  { nd with malloc := nd.off, buf := nd.buf.take nd.off, pend := [] }

/-- `MallocAck(n)` -/
def LB.mallocAck (b : LB α) (n : Int) : Option (LB α × Res α) :=
  if n < 0 then some (b, .err)
  else
    let n := n.toNat
    let b := { b with mallocSize := n, w := b.f }
    let walked : Option (List (Node α) × Nat) :=
      match ackLoop (b.nodes.drop b.f) n with
      | none => none
      | some (suf, k) => some (spliceFrom b.nodes b.f suf, b.f + k)
    match walked with
    | none => none
    | some (nodes, w) =>
      -- `for node := b.write.next; node != nil; ...` dereferences b.write
      if w ≥ nodes.length then none
      else some ({ b with nodes := nodes.take (w + 1) ++ (nodes.drop (w + 1)).map Node.discard, w := w }, .unit)

/-- commit `buf[len:malloc]` of one node (Flush's loop body); returns the delta. -/
def Node.commit (nd : Node α) : Node α × Nat :=
  if nd.pendLen > 0 then
    ({ nd with buf := nd.buf ++ nd.pend.take nd.pendLen.toNat, pend := [] }, nd.pendLen.toNat)
  else (nd, 0)

/-- `Flush()` -/
def LB.flush (cfg : Cfg) (b : LB α) : Option (LB α × Res α) :=
  match b.nodes[b.w]? with
  | none => none
  | some wn =>
    let b := { b with mallocSize := 0 }
    -- `if cap(b.write.buf) > pagesize { b.write.next = newLinkBufferNode(0); b.write = b.write.next }`
    let b := if wn.cap > cfg.pagesize then
        { b with nodes := b.nodes.take (b.w + 1) ++ [newNode cfg 0], w := b.w + 1 } else b
    -- `for node := b.flush; node != b.write.next; node = node.next`
    if b.f > b.w + 1 then none  -- flush behind write.next: the walk runs off the chain
    else
      let mid := (b.nodes.drop b.f).take (b.w + 1 - b.f)
      let done := mid.map Node.commit
      let n := (done.map (·.2)).foldl (· + ·) 0
      some ({ b with nodes := b.nodes.take b.f ++ done.map (·.1) ++ b.nodes.drop (b.w + 1),
                     f := b.w, length := b.length + n }, .unit)

/-- `WriteBuffer(buf)`: returns (b, donor). -/
def LB.writeBuffer (b : LB α) (d : LB α) : Option (LB α × LB α × Res α) :=
  if d.length + d.mallocSize = 0 then some (b, d, .unit)
  else
    if b.w ≥ b.nodes.length then none
    else if d.w ≥ d.nodes.length then none   -- `buf.write.next` on a nil write (Slice reader, closed buffer)
    else if d.r > d.w then none
    else
      let mid := (d.nodes.drop d.r).take (d.w + 1 - d.r)
      some ({ b with nodes := b.nodes.take (b.w + 1) ++ mid, w := b.w + mid.length,
                     length := b.length + d.length, mallocSize := b.mallocSize + d.mallocSize },
            { d with nodes := [], r := 0, f := 0, w := 0, length := 0, mallocSize := 0 }, .unit)

/-- `WriteBinary(p)` -/
def LB.writeBinary (cfg : Cfg) (b : LB α) (p : List α) (pcap : Nat) : Option (LB α × Res α) :=
  let n := p.length
  if n = 0 then some (b, .num 0)
  else
    let b := { b with mallocSize := b.mallocSize + n }
    if n > cfg.inplace then
      if b.w ≥ b.nodes.length then none
      else
        let nd : Node α := { (newNode cfg 0 : Node α) with malloc := n, pend := p, cap := pcap }
        some ({ b with nodes := b.nodes.take (b.w + 1) ++ [nd], w := b.w + 1 }, .num n)
    else
      match b.growth cfg n with
      | none => none
      | some b =>
        match b.nodes[b.w]? with
        | none => none
        | some nd => some ({ b with nodes := b.nodes.set b.w (nd.mallocFill p) }, .num n)

/-- WriteDirect's search for the origin node on the suffix at `flush`:
`for t := origin.malloc - len(origin.buf); t < malloc; ... { malloc -= t; origin = origin.next }`.
Returns (index offset, remaining malloc). -/
def originLoop : List (Node α) → Int → Option (Nat × Int)
  | [], _ => none
  | nd :: rest, m =>
    if nd.pendLen < m then
      match originLoop rest (m - nd.pendLen) with
      | none => none
      | some (k, m') => some (k + 1, m')
    else some (0, m)

/-- `WriteDirect(extra, remainLen)` -/
def LB.writeDirect (cfg : Cfg) (b : LB α) (extra : List α) (ecap : Nat) (remain : Int) : Option (LB α × Res α) :=
  let n := extra.length
  if n = 0 ∨ remain < 0 then some (b, .unit)
  else
    match originLoop (b.nodes.drop b.f) ((b.mallocSize : Int) - remain) with
    | none => none
    | some (k, m) =>
      let oi := b.f + k
      match b.nodes[oi]? with
      | none => none
      | some origin =>
        let m := m + origin.buf.length     -- `malloc += len(origin.buf)`
        if m < 0 then none                 -- negative slice bound
        else
          let m := m.toNat
          let dataNode : Node α := { (newNode cfg 0 : Node α) with malloc := n, pend := extra, cap := ecap }
          let nodes :=
            if remain > 0 then
              -- split: newNode{buf = origin.buf[:malloc], off = malloc, malloc = origin.malloc};
              -- it owns the memory only if origin did (`if origin.reusable() { newNode.unsetFlag(flagUnmanaged) }`)
              let mem := origin.buf ++ origin.pend
              let newNd : Node α :=
                { buf := mem.take m, off := m, malloc := origin.malloc, pend := mem.drop m,
                  cap := origin.cap, unmanaged := origin.unmanaged }
              let origin' : Node α :=
                { origin with malloc := m, pend := origin.pend.take (m - origin.buf.length), unmanaged := true }
              b.nodes.take oi ++ [origin', dataNode, newNd] ++ b.nodes.drop (oi + 1)
            else
              b.nodes.take oi ++ [origin, dataNode] ++ b.nodes.drop (oi + 1)
          if m > origin.cap ∧ remain > 0 then none   -- `origin.buf[:malloc]` out of range
          else
            -- `for b.write.next != nil { b.write = b.write.next }`
            if b.w ≥ b.nodes.length then none
            else some ({ b with nodes := nodes, w := nodes.length - 1, mallocSize := b.mallocSize + n }, .unit)

/-- `Close()` -/
def LB.close (b : LB α) : Option (LB α × Res α) :=
  match ({ b with length := 0, mallocSize := 0 } : LB α).release with
  | none => none
  | some _ => some ({ nodes := [], r := 0, f := 0, w := 0, length := 0, mallocSize := 0, caches := 0, cachePeek := none }, .unit)

/-- `Bytes()` -/
def LB.bytes (b : LB α) : Option (Res α) :=
  if b.r = b.f then
    match b.nodes[b.r]? with
    | none => none
    | some nd => some (.bytes nd.readable)
  else
    if b.f ≥ b.nodes.length ∨ b.r > b.f then none
    else some (.bytes (((b.nodes.drop b.r).take (b.f + 1 - b.r)).flatMap Node.readable))

/-- GetBytes' first loop: up to `k` non-empty nodes before `flush`. -/
def getBytesLoop : List (Node α) → Nat → Nat → List (List α) × List (Node α)
  | [], _, _ => ([], [])
  | nd :: rest, cnt, k =>
    if cnt = 0 ∨ k = 0 then ([], nd :: rest)
    else if nd.len > 0 then
      let (vs, rest') := getBytesLoop rest (cnt - 1) (k - 1)
      (nd.readable :: vs, { nd with exposed := true } :: rest')
    else
      let (vs, rest') := getBytesLoop rest (cnt - 1) k
      (vs, nd :: rest')

/-- `GetBytes(p)` with `len(p) = k` (`k = 0`: as many as there are nodes before flush). -/
def LB.getBytes (b : LB α) (k : Nat) : Option (LB α × Res α) :=
  if b.r > b.f then none   -- `for ; node != flush; node = node.next` runs off the chain
  else
    let k := if k = 0 then b.f - b.r else k
    let (vs, suf) := getBytesLoop (b.nodes.drop b.r) (b.f - b.r) k
    let nodes := spliceFrom b.nodes b.r suf
    if vs.length < k then
      match nodes[b.f]? with
      | none => none
      | some fl => some ({ b with nodes := nodes.set b.f { fl with exposed := true } }, .vecs (vs ++ [fl.readable]))
    else some ({ b with nodes := nodes }, .vecs vs)

/-- `book(bookSize, maxSize)`: returns the length of the booked slice. -/
def LB.book (cfg : Cfg) (b : LB α) (bookSize maxSize : Nat) : Option (LB α × Nat) :=
  match b.nodes[b.w]? with
  | none => none
  | some wn =>
    let l := wn.cap - wn.malloc
    let (b, l) : LB α × Nat :=
      if l = 0 then ({ b with nodes := b.nodes.take (b.w + 1) ++ [newNode cfg maxSize], w := b.w + 1 }, maxSize)
      else (b, l)
    let l := if l > bookSize then bookSize else l
    match b.nodes[b.w]? with
    | none => none
    | some wn =>
      if wn.malloc + l > wn.cap then none   -- `node.buf[malloc:node.malloc:node.malloc]` out of range
      else some ({ b with nodes := b.nodes.set b.w { wn with malloc := wn.malloc + l } }, l)

/-- `bookAck(n)`, `d` being what the kernel wrote into the first `n` booked bytes. -/
def LB.bookAck (b : LB α) (d : List α) : Option (LB α × Res α) :=
  match b.nodes[b.w]? with
  | none => none
  | some wn =>
    let n := d.length
    if n + wn.buf.length > wn.cap then none
    else
      let b := { b with nodes := b.nodes.set b.w { wn with malloc := n + wn.buf.length, buf := wn.buf ++ (wn.pend ++ d).take n, pend := [] },
                        f := b.w, length := b.length + n }
      some (b, .num (b.length : Nat))

/-- `calcMaxSize()` -/
def LB.calcMaxSize (b : LB α) : Option Nat :=
  if b.r ≥ b.nodes.length then none
  else some (((b.nodes.take (b.r + 1)).map (·.buf.length)).foldl (· + ·) 0)

/-- `resetTail(maxSize)` -/
def LB.resetTail (cfg : Cfg) (b : LB α) (maxSize : Nat) : Option (LB α) :=
  if maxSize ≤ cfg.pagesize then some b
  else if b.w ≥ b.nodes.length then none
  else some { b with nodes := b.nodes.take (b.w + 1) ++ [newNode cfg 0], w := b.w + 1, f := b.w + 1 }

end Netpoll.Buf
