import Netpoll.Buf.OwnerLemmas15
/-! Lemmas about the ownership ledger, part 16: the reference-count invariant through the writer-side methods.
Two methods need a hypothesis: `MallocAck` resets `refer` of the discarded structs to 1 (`AckSafe`: it is 1 already),
and `WriteDirect` with `remain > 0` splits a block between two structs (excluded: known finding D4). -/
namespace Netpoll.Buf.Own
open Netpoll.Buf

/-- a live struct without origin and without live children may change its memory -/
theorem Rc.setNode_nochild {m : Mem} {C : List Nat} {i : Nat} {nd : NodeS} (nd' : NodeS) (h : Rc m C) (hn : m.nodes[i]? = some nd)
    (h0 : nd.recycled = 0) (hch0 : m.ch i = 0) (h1 : nd'.recycled = nd.recycled) (h2 : nd'.origin = nd.origin) (h2' : nd.origin = none)
    (h3 : nd'.refer = nd.refer)
    (hcal : nd'.unmanaged = true → ∀ k, nd'.block = some k → ∃ bl : Block, m.blocks[k]? = some bl ∧ bl.kind = .caller) :
    Rc (m.setNode i nd') C := by
  have hch : ∀ o, (m.setNode i nd').ch o = m.ch o := ch_setNode_same hn h1 h2
  refine ⟨h.nodup, fun j hj => by simp only [Mem.setNode, List.length_set]; exact h.inb j hj, fun j x hx => ?_⟩
  rcases getElem?_setNode hx with ⟨rfl, rfl, _⟩ | ⟨hji, hx'⟩
  · have r := h.node j nd hn
    refine ⟨by rw [h1]; exact r.once, fun _ => ?_, fun hd => by rw [h1] at hd; omega, fun o ho => (by rw [h2, h2'] at ho; cases ho),
      fun hu _ k hk => hcal hu k hk⟩
    rw [hch, h3]; exact r.live h0
  · have r := h.node j x hx'
    refine ⟨r.once, fun h0' => by rw [hch]; exact r.live h0', fun hd => by rw [hch]; exact r.dead hd, fun o ho h0' => ?_, r.caller⟩
    obtain ⟨a, b, c, on, d, e, f⟩ := r.child o ho h0'
    by_cases hoi : o = i
    · subst hoi
      have hpos : 0 < m.ch o := by
        unfold Mem.ch
        exact countP_pos_of_get (fun y : NodeS => y.claims o) _ j x hx' (by simp [NodeS.claims, h0', ho])
      omega
    · exact ⟨a, b, c, on, by simp only [Mem.setNode]; rw [List.getElem?_set_ne (fun e' => hoi e'.symm)]; exact d, e, f⟩

/-- the fresh struct of `newLinkBufferNode` has no child -/
theorem newNode_fresh_facts {cfg : Cfg} {m : Mem} {C : List Nat} (size : Nat) (h : Rc m C) :
    ∃ nd : NodeS, (m.newNode cfg size).1.nodes[(m.newNode cfg size).2]? = some nd ∧ nd.recycled = 0 ∧ nd.origin = none ∧
      nd.refer = 1 ∧ (m.newNode cfg size).1.ch (m.newNode cfg size).2 = 0 := by
  have r := newNode_rc (cfg := cfg) size h
  obtain ⟨h1, h2⟩ := newNode_cases cfg m size
  have key : ∀ nd : NodeS, (m.newNode cfg size).1.nodes[(m.newNode cfg size).2]? = some nd → nd.recycled = 0 → nd.origin = none →
      nd.refer = 1 → ∃ nd : NodeS, (m.newNode cfg size).1.nodes[(m.newNode cfg size).2]? = some nd ∧ nd.recycled = 0 ∧ nd.origin = none ∧
      nd.refer = 1 ∧ (m.newNode cfg size).1.ch (m.newNode cfg size).2 = 0 := by
    intro nd hg a b c
    have := (r.node _ nd hg).live a
    rw [inC_cons_self, c] at this
    exact ⟨nd, hg, a, b, c, by omega⟩
  rcases h2 with ⟨_, h2⟩ | ⟨_, c, h2⟩
  · exact key { unmanaged := true } (by rw [h2, h1]; simp) rfl rfl rfl
  · exact key { block := some (m.mallocMem cfg c).2.1, cap := (m.mallocMem cfg c).2.2 }
      (by rw [h2, h1]; simp only; rw [mallocMem_nodes]; simp) rfl rfl rfl

theorem growthLoop_shape {cfg : Cfg} {n : Nat} : ∀ (l : List Nat) {m m' : Mem} {suf : List Nat} {w w' : Nat},
    growthLoop cfg n m l w = some (m', suf, w') →
    (m' = m ∧ suf = l) ∨ (m' = (m.newNode cfg n).1 ∧ suf = l ++ [(m.newNode cfg n).2])
  | [], m, m', suf, w, w', h => by simp [growthLoop] at h
  | [i], m, m', suf, w, w', h => by
    unfold growthLoop at h
    split at h
    · cases h
    · split at h
      · simp only [Option.some.injEq, Prod.mk.injEq] at h
        obtain ⟨rfl, rfl, _⟩ := h
        exact Or.inr ⟨rfl, rfl⟩
      · simp only [Option.some.injEq, Prod.mk.injEq] at h
        obtain ⟨rfl, rfl, _⟩ := h
        exact Or.inl ⟨rfl, rfl⟩
  | i :: j :: rest, m, m', suf, w, w', h => by
    unfold growthLoop at h
    split at h
    · cases h
    · split at h
      · split at h
        · cases h
        · rename_i m1 suf1 w1 hg
          simp only [Option.some.injEq, Prod.mk.injEq] at h
          obtain ⟨rfl, rfl, _⟩ := h
          rcases growthLoop_shape (j :: rest) hg with ⟨rfl, rfl⟩ | ⟨rfl, rfl⟩
          · exact Or.inl ⟨rfl, rfl⟩
          · exact Or.inr ⟨rfl, by simp⟩
      · simp only [Option.some.injEq, Prod.mk.injEq] at h
        obtain ⟨rfl, rfl, _⟩ := h
        exact Or.inl ⟨rfl, rfl⟩

theorem growth_rc {cfg : Cfg} {m m' : Mem} {b b' : Buf} {n : Nat} {R : List Nat} (h : Rc m (b.chain ++ R))
    (hr : growth cfg m b n = some (m', b')) : Rc m' (b'.chain ++ R) := by
  unfold growth at hr
  split at hr
  · cases hr; exact h
  · split at hr
    · cases hr
    · rename_i m1 suf w' hg
      cases hr
      simp only
      rcases growthLoop_shape _ hg with ⟨rfl, rfl⟩ | ⟨rfl, rfl⟩
      · rw [List.take_append_drop]; exact h
      · rw [← List.append_assoc, List.take_append_drop]
        exact (newNode_rc n h).perm (by
          rw [List.append_assoc]
          simp only [List.singleton_append]
          exact List.perm_middle)

theorem writeNodeMalloc_rc {m m' : Mem} {b : Buf} {n : Nat} {C : List Nat} (h : Rc m C) (hr : writeNodeMalloc m b n = some m') :
    Rc m' C := by
  unfold writeNodeMalloc at hr
  split at hr
  · cases hr
  · split at hr
    · cases hr
    · rename_i i _ _ nd hn
      have g := h.setNode_same' { nd with malloc := nd.malloc + n } hn rfl rfl rfl rfl rfl
      split at hr
      · cases hr; exact g.emit _
      · cases hr; exact g

theorem malloc_rc {cfg : Cfg} {m m' : Mem} {b b' : Buf} {n : Int} {R : List Nat} (h : Rc m (b.chain ++ R))
    (hr : malloc cfg m b n = some (m', b')) : Rc m' (b'.chain ++ R) := by
  unfold malloc at hr
  split at hr
  · cases hr; exact h
  · split at hr
    · cases hr
    · rename_i m1 b1 hg
      have h1 := growth_rc (b := { b with mallocSize := b.mallocSize + n.toNat }) h hg
      split at hr
      · cases hr
      · rename_i m2 hw
        cases hr
        exact writeNodeMalloc_rc h1 hw

theorem resolve_fst : ∀ (l : List Nat) {m : Mem} {suf : List (Nat × NodeS)}, m.resolve l = some suf → suf.map (·.1) = l
  | [], m, suf, h => by simp [Mem.resolve] at h; subst h; rfl
  | i :: rest, m, suf, h => by
    unfold Mem.resolve at h
    cases h1 : m.nodes[i]? with
    | none => simp [h1] at h
    | some nd =>
      cases h2 : m.resolve rest with
      | none => simp [h1, h2] at h
      | some l =>
        simp only [h1, h2, Option.some.injEq] at h
        subst h
        simp [resolve_fst rest h2]

theorem RefOK.step {m : Mem} {i : Nat} {nd' : NodeS} {rest : List (Nat × NodeS)} (hr : RefOK m ((i, nd') :: rest)) :
    RefOK (m.setNode i nd') rest := by
  obtain ⟨nd, h0, h1, h2, h3, h4, h5⟩ := hr (i, nd') List.mem_cons_self
  intro q hq
  obtain ⟨ndq, g0, g1, g2, g3, g4, g5⟩ := hr q (List.mem_cons_of_mem _ hq)
  by_cases hqi : q.1 = i
  · refine ⟨nd', ?_, ?_⟩
    · rw [hqi]; simp only [Mem.setNode]; exact List.getElem?_set_self (lt_of_getElem? h0)
    · rw [hqi, h0] at g0; cases g0
      exact ⟨by rw [g1, h1], by rw [g2, h2], by rw [g3, h3], by rw [g4, h4], by rw [g5, h5]⟩
  · exact ⟨ndq, by simp only [Mem.setNode]; rw [List.getElem?_set_ne (fun h' => hqi h'.symm)]; exact g0, g1, g2, g3, g4, g5⟩

/-- writing back under `RefOK` keeps every struct's reference count -/
theorem putAll_refer : ∀ (l : List (Nat × NodeS)) {m : Mem}, RefOK m l → ∀ (i : Nat) (nd1 : NodeS), (m.putAll l).nodes[i]? = some nd1 →
    ∃ nd : NodeS, m.nodes[i]? = some nd ∧ nd1.refer = nd.refer
  | [], _, _, i, nd1, h => ⟨nd1, h, rfl⟩
  | (j, nd') :: rest, m, hr, i, nd1, h => by
    unfold Mem.putAll at h
    obtain ⟨nda, ga, gb⟩ := putAll_refer rest hr.step i nd1 h
    obtain ⟨nd, h0, _, _, h3, _, _⟩ := hr (j, nd') List.mem_cons_self
    rcases getElem?_setNode ga with ⟨rfl, rfl, _⟩ | ⟨_, ga'⟩
    · exact ⟨nd, h0, by rw [gb, h3]⟩
    · exact ⟨nda, ga', gb⟩

/-- `MallocAck` would reset the reference count of the structs it discards: harmless iff it is 1 already.
(The structs behind the flush node carry pending data only, so inside the contract nobody else refers to them.) -/
def AckSafe (m : Mem) (b : Buf) : Prop :=
  ∀ i ∈ b.chain.drop (b.f + 1), ∀ nd : NodeS, m.nodes[i]? = some nd → nd.refer = 1

theorem mallocAck_rc {m m' : Mem} {b b' : Buf} {n : Int} {R : List Nat} (h : Rc m (b.chain ++ R)) (hs : AckSafe m b)
    (hr : mallocAck m b n = some (m', b')) : Rc m' (b'.chain ++ R) := by
  unfold mallocAck at hr
  split at hr
  · cases hr; exact h
  · dsimp only at hr
    split at hr
    · cases hr
    · rename_i suf hres
      split at hr
      · cases hr
      · rename_i suf' k hk
        split at hr
        · cases hr
        · have h1 := putAll_rc _ h (refOK_of_sz hres (ackLoop_sz _ _ hk))
          split at hr
          · cases hr
          · rename_i tail ht
            cases hr
            refine putAll_rc _ h1 (refOK_map ht NodeS.discard (fun p hp => ⟨rfl, rfl, ?_, rfl, rfl⟩))
            -- the struct in the table still has the reference count it had before the ack loop
            have hmem := resolve_mem _ ht p hp
            obtain ⟨nd0, g0, g1⟩ := putAll_refer _ (refOK_of_sz hres (ackLoop_sz _ _ hk)) p.1 p.2 hmem
            have hin : p.1 ∈ b.chain.drop (b.f + 1) := by
              have hfst := resolve_fst _ ht
              have : p.1 ∈ (b.chain.drop (b.f + k + 1)) := by
                rw [← hfst]; exact List.mem_map_of_mem hp
              have e : b.chain.drop (b.f + k + 1) = (b.chain.drop (b.f + 1)).drop k := by
                rw [List.drop_drop]; congr 1; omega
              rw [e] at this
              exact List.mem_of_mem_drop this
            show (1 : Int) = p.2.refer
            rw [g1, hs p.1 hin nd0 g0]

theorem flushCommit_rc {m m' : Mem} {b b' : Buf} {C : List Nat} (h : Rc m C) (hr : flushCommit m b = some (m', b')) :
    Rc m' C ∧ b'.chain = b.chain := by
  unfold flushCommit at hr
  split at hr
  · cases hr
  · split at hr
    · cases hr
    · rename_i mid hm
      cases hr
      refine ⟨putAll_rc _ h (refOK_map hm NodeS.commit (fun p _ => ?_)), rfl⟩
      unfold NodeS.commit; split <;> exact ⟨rfl, rfl, rfl, rfl, rfl⟩

/-- `take (w+1) chain ++ [c]` for a fresh struct `c`: still a duplicate-free part of `c :: chain` -/
theorem Rc.tail_replaced {m : Mem} {chain R : List Nat} {c w : Nat} (h : Rc m (c :: (chain ++ R))) :
    Rc m ((chain.take (w + 1) ++ [c]) ++ R) := by
  have hnd := h.nodup
  have hsub : ∀ x ∈ (chain.take (w + 1) ++ [c]) ++ R, x ∈ c :: (chain ++ R) := by
    intro x hx
    simp only [List.mem_append, List.mem_singleton, List.mem_cons, List.not_mem_nil, or_false] at hx ⊢
    rcases hx with (hx | hx) | hx
    · exact Or.inr (Or.inl (List.mem_of_mem_take hx))
    · exact Or.inl hx
    · exact Or.inr (Or.inr hx)
  refine h.mono ?_ hsub
  have h1 := List.nodup_cons.1 hnd
  have h2 := List.nodup_append.1 h1.2
  rw [List.nodup_append]
  refine ⟨?_, h2.2.1, ?_⟩
  · rw [List.nodup_append]
    refine ⟨(List.take_sublist _ _).nodup h2.1, by simp, ?_⟩
    intro a ha b' hb'
    simp only [List.mem_singleton] at hb'
    subst hb'
    intro e; subst e
    exact h1.1 (List.mem_append_left _ (List.mem_of_mem_take ha))
  · intro a ha b' hb'
    simp only [List.mem_append, List.mem_singleton] at ha
    rcases ha with ha | ha
    · exact h2.2.2 a (List.mem_of_mem_take ha) b' hb'
    · subst ha
      intro e; subst e
      exact h1.1 (List.mem_append_right _ hb')

theorem flush_rc {cfg : Cfg} {m m' : Mem} {b b' : Buf} {R : List Nat} (h : Rc m (b.chain ++ R))
    (hr : flush cfg m b = some (m', b')) : Rc m' (b'.chain ++ R) := by
  unfold flush at hr
  split at hr
  · cases hr
  · split at hr
    · cases hr
    · split at hr
      · have h1 := (newNode_rc (cfg := cfg) 0 h).tail_replaced (w := b.w)
        obtain ⟨h2, hc⟩ := flushCommit_rc h1 hr
        rw [hc]; exact h2
      · obtain ⟨h2, hc⟩ := flushCommit_rc h hr
        rw [hc]; exact h2

theorem writeBuffer_rc {cfg : Cfg} {m m' : Mem} {b d b' d' : Buf} {R : List Nat} (h : Rc m (b.chain ++ (d.chain ++ R)))
    (hr : writeBuffer cfg m b d = some (m', b', d')) : Rc m' (b'.chain ++ (d'.chain ++ R)) := by
  unfold writeBuffer at hr
  split at hr
  · cases hr; exact h
  · split at hr
    · cases hr
    · split at hr
      · cases hr
      · split at hr
        · cases hr
        · rename_i hbw hdw hrw
          dsimp only at hr
          split at hr
          · cases hr
          · rename_i m1 h1
            split at hr
            · cases hr
            · rename_i m2 h2
              cases hr
              -- donor chain = consumed head ++ moved part ++ unused tail
              have hsplit : d.chain = d.chain.take d.r ++ ((d.chain.drop d.r).take (d.w + 1 - d.r) ++ d.chain.drop (d.w + 1)) := by
                have e1 : d.chain.drop (d.w + 1) = (d.chain.drop d.r).drop (d.w + 1 - d.r) := by
                  rw [List.drop_drop]; congr 1; omega
                rw [e1, List.take_append_drop, List.take_append_drop]
              generalize hA : d.chain.take d.r = A at h1 hsplit
              generalize hM : (d.chain.drop d.r).take (d.w + 1 - d.r) = M at hsplit
              generalize hZ : d.chain.drop (d.w + 1) = Z at h2 hsplit
              have hp1 : (b.chain ++ (d.chain ++ R)).Perm (A ++ (Z ++ (b.chain ++ (M ++ R)))) := by
                rw [hsplit]
                simp only [List.append_assoc]
                refine List.perm_append_comm.trans ?_
                simp only [List.append_assoc]
                refine List.Perm.append_left A ?_
                -- M ++ Z ++ R ++ b.chain  ~  Z ++ b.chain ++ M ++ R
                have e3 : (R ++ (b.chain ++ M)).Perm (b.chain ++ (M ++ R)) := by
                  have := List.perm_append_comm (l₁ := R) (l₂ := b.chain ++ M)
                  simpa [List.append_assoc] using this
                have : (M ++ (Z ++ (R ++ b.chain))).Perm (Z ++ (b.chain ++ (M ++ R))) := by
                  refine (List.perm_append_comm (l₁ := M)).trans ?_
                  simp only [List.append_assoc]
                  exact List.Perm.append_left Z e3
                exact this
              have r1 := releaseAll_rc A (h.perm hp1.symm) h1
              have r2 := releaseAll_rc Z r1 h2
              simp only [List.nil_append]
              refine r2.mono ?_ ?_
              · -- duplicate-free: a sublist of a duplicate-free list
                have hsl : (b.chain.take (b.w + 1) ++ M ++ R).Sublist (b.chain ++ (M ++ R)) := by
                  rw [List.append_assoc]
                  exact List.Sublist.append (List.take_sublist _ _) (List.Sublist.refl _)
                exact hsl.nodup r2.nodup
              · intro x hx
                simp only [List.mem_append] at hx ⊢
                rcases hx with (hx | hx) | hx
                · exact Or.inl (List.mem_of_mem_take hx)
                · exact Or.inr (Or.inl hx)
                · exact Or.inr (Or.inr hx)

/-- a fresh struct wrapped around caller memory (WriteBinary in place, WriteDirect's data node) -/
theorem fresh_wrap_rc {cfg : Cfg} {m : Mem} {C : List Nat} (nd' : NodeS) (h : Rc m C) (h1 : nd'.recycled = 0) (h2 : nd'.origin = none)
    (h3 : nd'.refer = 1)
    (hcal : ∀ k, nd'.block = some k → ∃ bl : Block, m.blocks[k]? = some bl ∧ bl.kind = .caller) :
    Rc ((m.newNode cfg 0).1.setNode (m.newNode cfg 0).2 nd') ((m.newNode cfg 0).2 :: C) := by
  obtain ⟨nd, g0, g1, g2, g3, g4⟩ := newNode_fresh_facts (cfg := cfg) 0 h
  have hb : (m.newNode cfg 0).1.blocks = m.blocks := (newNode0_own cfg m 0).2
  exact (newNode_rc 0 h).setNode_nochild nd' g0 g1 g4 (by rw [h1, g1]) (by rw [h2, g2]) g2 (by rw [h3, g3])
    (fun _ k hk => by rw [hb]; exact hcal k hk)

theorem writeBinary_rc {cfg : Cfg} {m m' : Mem} {b b' : Buf} {n pcap : Nat} {R : List Nat} (h : Rc m (b.chain ++ R))
    (hr : writeBinary cfg m b n pcap = some (m', b')) : Rc m' (b'.chain ++ R) := by
  unfold writeBinary at hr
  split at hr
  · cases hr; exact h
  · have h1 := h.allocBlock .caller (max pcap n)
    obtain ⟨blc, gc1, gc2, _⟩ := allocBlock_get m .caller (max pcap n)
    generalize m.allocBlock .caller (max pcap n) = p at hr h1 gc1
    obtain ⟨m1, cb⟩ := p
    dsimp only at hr h1 gc1
    split at hr
    · split at hr
      · cases hr
      · have h2 := fresh_wrap_rc (cfg := cfg) { unmanaged := true, block := some cb, malloc := n, cap := pcap } h1 rfl rfl rfl
          (fun k hk => by cases hk; exact ⟨blc, gc1, gc2⟩)
        generalize m1.newNode cfg 0 = q at hr h2
        obtain ⟨m2, c⟩ := q
        cases hr
        exact h2.tail_replaced
    · split at hr
      · cases hr
      · rename_i m2 b2 hg
        have h2 := growth_rc (b := { b with mallocSize := b.mallocSize + n }) h1 hg
        split at hr
        · cases hr
        · rename_i m3 hw
          cases hr
          exact writeNodeMalloc_rc h2 hw

theorem resetTail_rc {cfg : Cfg} {m m' : Mem} {b b' : Buf} {ms : Nat} {R : List Nat} (h : Rc m (b.chain ++ R))
    (hr : resetTail cfg m b ms = some (m', b')) : Rc m' (b'.chain ++ R) := by
  unfold resetTail at hr
  split at hr
  · cases hr; exact h
  · split at hr
    · cases hr
    · have h1 := newNode_rc (cfg := cfg) 0 h
      generalize m.newNode cfg 0 = p at hr h1
      obtain ⟨m1, c⟩ := p
      cases hr
      exact h1.tail_replaced

theorem bookFill_rc {m m' : Mem} {b b' : Buf} {l n : Nat} {C : List Nat} (h : Rc m C) (hr : bookFill m b l n = some (m', b')) :
    Rc m' C ∧ b'.chain = b.chain := by
  unfold bookFill at hr
  split at hr
  · cases hr
  · split at hr
    · cases hr
    · rename_i wi _ _ wn hwn
      split at hr
      · cases hr
      · split at hr
        · cases hr
        · cases hr
          refine ⟨?_, rfl⟩
          have h1 : Rc (match wn.block with
              | some blk => if min n l > 0 then m.emit (.write blk (wn.lo + wn.malloc) (wn.lo + wn.malloc + min n l)) else m
              | none => m) C := by
            split
            · split
              · exact h.emit _
              · exact h
            · exact h
          have hnd : (match wn.block with
              | some blk => if min n l > 0 then m.emit (.write blk (wn.lo + wn.malloc) (wn.lo + wn.malloc + min n l)) else m
              | none => m).nodes[wi]? = some wn := by
            split
            · split
              · exact hwn
              · exact hwn
            · exact hwn
          exact h1.setNode_same' { wn with malloc := min n l + wn.blen, blen := min n l + wn.blen } hnd rfl rfl rfl rfl rfl

theorem bookAck_rc {cfg : Cfg} {m m' : Mem} {b b' : Buf} {bs ms n : Nat} {R : List Nat} (h : Rc m (b.chain ++ R))
    (hr : bookAck cfg m b bs ms n = some (m', b')) : Rc m' (b'.chain ++ R) := by
  unfold bookAck at hr
  split at hr
  · cases hr
  · split at hr
    · cases hr
    · split at hr
      · have h1 := (newNode_rc (cfg := cfg) ms h).tail_replaced (w := b.w)
        obtain ⟨h2, hc⟩ := bookFill_rc h1 hr
        rw [hc]; exact h2
      · obtain ⟨h2, hc⟩ := bookFill_rc h hr
        rw [hc]; exact h2

theorem getBytesLoop_rc {id : Nat} : ∀ (l : List Nat) {m m' : Mem} {cnt k c : Nat} {C : List Nat},
    Rc m C → getBytesLoop m id l cnt k = some (m', c) → Rc m' C
  | [], m, m', cnt, k, c, C, h, hr => by simp [getBytesLoop] at hr; obtain ⟨rfl, _⟩ := hr; exact h
  | i :: rest, m, m', cnt, k, c, C, h, hr => by
    unfold getBytesLoop at hr
    split at hr
    · cases hr; exact h
    · split at hr
      · cases hr
      · rename_i nd hn
        split at hr
        · dsimp only at hr
          split at hr
          · cases hr
          · rename_i m2 c2 hl
            cases hr
            exact getBytesLoop_rc rest ((h.setNode_same' { nd with exposed := true } hn rfl rfl rfl rfl rfl).addView _ _ _ _ _) hl
        · exact getBytesLoop_rc rest h hr

theorem getBytes_rc {m m' : Mem} {id : Nat} {b b' : Buf} {k : Nat} {R : List Nat} (h : Rc m (b.chain ++ R))
    (hr : getBytes m id b k = some (m', b')) : Rc m' (b'.chain ++ R) := by
  unfold getBytes at hr
  split at hr
  · cases hr
  · dsimp only at hr
    generalize (if k = 0 then b.f - b.r else k) = k' at hr
    split at hr
    · cases hr
    · rename_i m1 c hl
      have h1 := getBytesLoop_rc _ h hl
      split at hr
      · split at hr
        · cases hr
        · split at hr
          · cases hr
          · rename_i i _ _ fl hn
            cases hr
            exact (h1.setNode_same' { fl with exposed := true } hn rfl rfl rfl rfl rfl).addView _ _ _ _ _
      · cases hr; exact h1

/-- `WriteDirect` without a split (`remain ≤ 0`): the data node is linked behind the origin -/
theorem writeDirectAt_rc {cfg : Cfg} {m m' : Mem} {b b' : Buf} {n ecap cb oi o mm : Nat} {remain : Int} {origin : NodeS} {R : List Nat}
    (h : Rc m (b.chain ++ R)) (hns : ¬ remain > 0) (hoi : b.chain[oi]? = some o)
    (hcb : ∃ bl : Block, m.blocks[cb]? = some bl ∧ bl.kind = .caller)
    (hr : writeDirectAt cfg m b n ecap remain cb oi o origin mm = some (m', b')) : Rc m' (b'.chain ++ R) := by
  unfold writeDirectAt at hr
  dsimp only at hr
  have h1 := fresh_wrap_rc (cfg := cfg) { unmanaged := true, block := some cb, malloc := n, cap := ecap } h rfl rfl rfl
    (fun k hk => by cases hk; exact hcb)
  split at hr
  · cases hr
  · split at hr
    · cases hr
    · first
      | (split at hr; rename_i hpos; exact absurd hpos hns)
      | skip
      · cases hr
        refine h1.perm ?_
        -- the chain with the data node inserted behind position `oi`
        have hlt := lt_of_getElem? hoi
        have e : b.chain = b.chain.take oi ++ o :: b.chain.drop (oi + 1) := by
          have := List.take_append_drop oi b.chain
          rw [List.drop_eq_getElem_cons hlt] at this
          have ho : b.chain[oi] = o := by
            rw [List.getElem?_eq_getElem hlt] at hoi; exact Option.some.inj hoi
          rw [ho] at this
          exact this.symm
        unfold dataNode
        generalize (m.newNode cfg 0).2 = dn
        conv => rhs; rw [e]
        simp only [List.append_assoc, List.cons_append, List.nil_append]
        -- take ++ o :: dn :: drop ++ R   ~   dn :: take ++ o :: drop ++ R
        have : (b.chain.take oi ++ (o :: dn :: (b.chain.drop (oi + 1) ++ R))).Perm
            (dn :: (b.chain.take oi ++ (o :: (b.chain.drop (oi + 1) ++ R)))) := by
          refine List.Perm.trans ?_ List.perm_middle
          refine List.Perm.append_left _ ?_
          exact List.Perm.swap _ _ _
        exact this

theorem writeDirect_rc {cfg : Cfg} {m m' : Mem} {b b' : Buf} {n ecap : Nat} {remain : Int} {R : List Nat}
    (h : Rc m (b.chain ++ R)) (hns : ¬ remain > 0) (hr : writeDirect cfg m b n ecap remain = some (m', b')) :
    Rc m' (b'.chain ++ R) := by
  unfold writeDirect at hr
  split at hr
  · cases hr; exact h
  · dsimp only at hr
    have h1 := h.allocBlock .caller (max ecap n)
    obtain ⟨blc, gc1, gc2, _⟩ := allocBlock_get m .caller (max ecap n)
    split at hr
    · cases hr
    · split at hr
      · cases hr
      · split at hr
        · cases hr
        · rename_i o hoi
          split at hr
          · cases hr
          · split at hr
            · cases hr
            · exact writeDirectAt_rc h1 hns hoi ⟨blc, gc1, gc2⟩ hr

end Netpoll.Buf.Own
