import Netpoll.Buf.OwnerLemmas6
/-!
Lemmas about the ownership ledger, part 7: *ownership tokens*.  A pool block has at most one owner: a reusable
node struct, an entry of some buffer's `caches`, or a `cachePeek`; handing the block to `free` uses the token
up.  `own m b k` counts tokens and earlier frees of block `k` in memory `m` and buffer `b`; every method only
lets it shrink, and a fresh block starts with at most one.  This gives `C03_free_once`.
-/
namespace Netpoll.Buf.Own
open Netpoll.Buf

/-- the struct is a reusable node on block `k` (its `Release` would free `k`) -/
def NodeS.owns (nd : NodeS) (k : Nat) : Bool := !nd.unmanaged && (nd.block == some k)

def Mem.nodeOwn (m : Mem) (k : Nat) : Nat := m.nodes.countP (·.owns k)

/-- how often block `k` went to `free` -/
def Mem.freed (m : Mem) (k : Nat) : Nat :=
  match m.blocks[k]? with
  | some bl => bl.frees
  | none => 0

def Buf.own (b : Buf) (k : Nat) : Nat :=
  b.caches.count k + (match b.cachePeek with
    | some p => if p.1 = k then 1 else 0
    | none => 0)

def Mem.own (m : Mem) (k : Nat) : Nat := m.nodeOwn k + m.freed k

theorem countP_set_same {α : Type} (p : α → Bool) : ∀ (l : List α) (i : Nat) (a x : α), l[i]? = some x → p a = p x →
    (l.set i a).countP p = l.countP p
  | [], _, _, _, h, _ => by simp at h
  | y :: l, 0, a, x, h, hp => by
    simp at h; subst h
    simp [List.countP_cons, hp]
  | y :: l, i + 1, a, x, h, hp => by
    simp at h
    simp [List.countP_cons, countP_set_same p l i a x h hp]

theorem setNode_own_same {m : Mem} {i : Nat} {nd nd' : NodeS} (h : m.nodes[i]? = some nd)
    (h1 : nd'.unmanaged = nd.unmanaged) (h2 : nd'.block = nd.block) (k : Nat) : (m.setNode i nd').own k = m.own k := by
  unfold Mem.own Mem.nodeOwn Mem.freed Mem.setNode
  simp only
  rw [countP_set_same _ _ _ _ _ h (by simp [NodeS.owns, h1, h2])]

/-- a struct that owns nothing replaces a struct that owned nothing -/
theorem setNode_own_none {m : Mem} {i : Nat} {nd nd' : NodeS} (h : m.nodes[i]? = some nd)
    (h1 : ∀ k, nd'.owns k = false) (h2 : ∀ k, nd.owns k = false) (k : Nat) : (m.setNode i nd').own k = m.own k := by
  unfold Mem.own Mem.nodeOwn Mem.freed Mem.setNode
  simp only
  rw [countP_set_same _ _ _ _ _ h (by rw [h1, h2])]

theorem owns_unmanaged {nd : NodeS} (h : nd.unmanaged = true) (k : Nat) : nd.owns k = false := by
  simp [NodeS.owns, h]

theorem owns_noblock {nd : NodeS} (h : nd.block = none) (k : Nat) : nd.owns k = false := by
  simp [NodeS.owns, h]

theorem emit_own (m : Mem) (e : Ev) (k : Nat) : (m.emit e).own k = m.own k := rfl

theorem addView_own (m : Mem) (blk : Option Nat) (lo hi o : Nat) (p : Bool) (k : Nat) : (m.addView blk lo hi o p).own k = m.own k := by
  unfold Mem.addView; split
  · rfl
  · split <;> rfl

theorem endViews_own (m : Mem) (o k : Nat) : (m.endViews o).own k = m.own k := rfl

/-- every pair to be written back keeps the ownership fields of the struct now in the table -/
def SigOK (m : Mem) (l : List (Nat × NodeS)) : Prop :=
  ∀ p ∈ l, ∃ nd : NodeS, m.nodes[p.1]? = some nd ∧ p.2.unmanaged = nd.unmanaged ∧ p.2.block = nd.block

theorem putAll_own : ∀ (l : List (Nat × NodeS)) {m : Mem}, SigOK m l → ∀ k, (m.putAll l).own k = m.own k
  | [], _, _, _ => rfl
  | (i, nd') :: rest, m, h, k => by
    unfold Mem.putAll
    obtain ⟨nd, h0, h1, h2⟩ := h (i, nd') List.mem_cons_self
    have hrest : SigOK (m.setNode i nd') rest := by
      intro q hq
      obtain ⟨ndq, g0, g1, g2⟩ := h q (List.mem_cons_of_mem _ hq)
      by_cases hqi : q.1 = i
      · refine ⟨nd', ?_, ?_, ?_⟩
        · rw [hqi]; simp only [Mem.setNode]; exact List.getElem?_set_self (lt_of_getElem? h0)
        · rw [hqi, h0] at g0; cases g0; rw [g1, h1]
        · rw [hqi, h0] at g0; cases g0; rw [g2, h2]
      · exact ⟨ndq, by simp only [Mem.setNode]; rw [List.getElem?_set_ne (fun h' => hqi h'.symm)]; exact g0, g1, g2⟩
    rw [putAll_own rest hrest k]
    exact setNode_own_same h0 h1 h2 k

theorem sigOK_of_sz {m : Mem} {l : List Nat} {suf suf' : List (Nat × NodeS)} (hr : m.resolve l = some suf) (hs : SzL suf suf') :
    SigOK m suf' := by
  intro p' hp'
  obtain ⟨p, hm, h1, h2, _, _, h5, _⟩ := hs.mem p' hp'
  exact ⟨p.2, by rw [h1]; exact resolve_mem l hr p hm, h5, h2⟩

theorem putAll_len (l : List (Nat × NodeS)) (m : Mem) : (m.putAll l).blocks = m.blocks := (putAll_blocks l m).1

/-! ### the token relation -/

/-- 1 for the blocks created between two states -/
def newBlk (m m' : Mem) (k : Nat) : Nat := if m.blocks.length ≤ k ∧ k < m'.blocks.length then 1 else 0

/-- memory only: the table grows; tokens + frees of a block grow by at most one, and only for a new block -/
structure MemB (m m' : Mem) : Prop where
  len : m.blocks.length ≤ m'.blocks.length
  own : ∀ k, m'.own k ≤ m.own k + newBlk m m' k

/-- memory and buffer -/
structure TokB (m : Mem) (b : Buf) (m' : Mem) (b' : Buf) : Prop where
  len : m.blocks.length ≤ m'.blocks.length
  own : ∀ k, m'.own k + b'.own k ≤ m.own k + b.own k + newBlk m m' k

theorem newBlk_trans {m m' m'' : Mem} (h1 : m.blocks.length ≤ m'.blocks.length) (h2 : m'.blocks.length ≤ m''.blocks.length) (k : Nat) :
    newBlk m m' k + newBlk m' m'' k = newBlk m m'' k := by
  unfold newBlk
  by_cases a : m.blocks.length ≤ k <;> by_cases c : k < m'.blocks.length <;> by_cases d : k < m''.blocks.length <;>
    simp [a, c, d] <;> omega

theorem newBlk_same {m m' : Mem} (h : m'.blocks.length = m.blocks.length) (k : Nat) : newBlk m m' k = 0 := by
  unfold newBlk; rw [h]; simp

theorem MemB.refl (m : Mem) : MemB m m := ⟨Nat.le_refl _, fun k => Nat.le_add_right _ _⟩

theorem MemB.trans {m m' m'' : Mem} (h1 : MemB m m') (h2 : MemB m' m'') : MemB m m'' := by
  refine ⟨Nat.le_trans h1.len h2.len, fun k => ?_⟩
  have := h1.own k; have := h2.own k; have := newBlk_trans h1.len h2.len k
  omega

/-- same table length and nothing that counts grew -/
theorem MemB.of_le {m m' : Mem} (hl : m'.blocks.length = m.blocks.length) (h : ∀ k, m'.own k ≤ m.own k) : MemB m m' :=
  ⟨by rw [hl]; exact Nat.le_refl _, fun k => Nat.le_trans (h k) (Nat.le_add_right _ _)⟩

theorem TokB.refl (m : Mem) (b : Buf) : TokB m b m b := ⟨Nat.le_refl _, fun k => Nat.le_add_right _ _⟩

theorem TokB.trans {m m' m'' : Mem} {b b' b'' : Buf} (h1 : TokB m b m' b') (h2 : TokB m' b' m'' b'') : TokB m b m'' b'' := by
  refine ⟨Nat.le_trans h1.len h2.len, fun k => ?_⟩
  have := h1.own k; have := h2.own k; have := newBlk_trans h1.len h2.len k
  omega

/-- a memory step with the buffer's tokens unchanged -/
theorem MemB.tok {m m' : Mem} {b b' : Buf} (h : MemB m m') (hb : ∀ k, b'.own k = b.own k) : TokB m b m' b' :=
  ⟨h.len, fun k => by have := h.own k; rw [hb k]; omega⟩

theorem Buf.own_eq {b b' : Buf} (h1 : b'.caches = b.caches) (h2 : b'.cachePeek = b.cachePeek) (k : Nat) : b'.own k = b.own k := by
  unfold Buf.own; rw [h1, h2]

/-! ### primitives -/

theorem freed_append (m : Mem) (bl : Block) (hfr : bl.frees = 0) (k : Nat) :
    (match (m.blocks ++ [bl])[k]? with | some b => b.frees | none => 0) = m.freed k := by
  unfold Mem.freed
  rcases Nat.lt_trichotomy k m.blocks.length with h | h | h
  · rw [List.getElem?_append_left h]
  · subst h; simp [hfr]
  · rw [List.getElem?_eq_none (by simp; omega), List.getElem?_eq_none (by omega)]

theorem allocBlock_own (m : Mem) (kd : Kind) (c k : Nat) : (m.allocBlock kd c).1.own k = m.own k := by
  unfold Mem.own Mem.nodeOwn
  cases kd <;> simp only [Mem.allocBlock] <;> rw [show ∀ (m' : Mem), m'.freed k = (match m'.blocks[k]? with | some b => b.frees | none => 0) from fun _ => rfl] <;>
    simp only <;> rw [freed_append m _ rfl k]

theorem allocBlock_len (m : Mem) (kd : Kind) (c : Nat) :
    (m.allocBlock kd c).1.blocks.length = m.blocks.length + 1 ∧ (m.allocBlock kd c).2 = m.blocks.length := by
  cases kd <;> simp [Mem.allocBlock]

theorem allocBlock_memB (m : Mem) (kd : Kind) (c : Nat) : MemB m (m.allocBlock kd c).1 :=
  ⟨by rw [(allocBlock_len m kd c).1]; omega, fun k => by rw [allocBlock_own]; omega⟩

theorem mallocMem_own (cfg : Cfg) (m : Mem) (c k : Nat) : (m.mallocMem cfg c).1.own k = m.own k := by
  unfold Mem.mallocMem; split <;> exact allocBlock_own _ _ _ _

theorem mallocMem_len (cfg : Cfg) (m : Mem) (c : Nat) :
    (m.mallocMem cfg c).1.blocks.length = m.blocks.length + 1 ∧ (m.mallocMem cfg c).2.1 = m.blocks.length := by
  unfold Mem.mallocMem; split <;> exact allocBlock_len _ _ _

theorem nodeOwn_append (m : Mem) (nd : NodeS) (k : Nat) :
    ({ m with nodes := m.nodes ++ [nd] } : Mem).own k = m.own k + (if nd.owns k then 1 else 0) := by
  unfold Mem.own Mem.nodeOwn Mem.freed
  simp only [List.countP_append, List.countP_cons, List.countP_nil]
  omega

/-- `newLinkBufferNode(size)`: for `size > 0` the fresh block (index = old table length) gets its one owner -/
theorem newNode_memB (cfg : Cfg) (m : Mem) (size : Nat) : MemB m (m.newNode cfg size).1 := by
  rcases (newNode_cases cfg m size).2 with ⟨_, h⟩ | ⟨_, c, h⟩
  · rw [h]
    exact MemB.of_le rfl (fun k => by rw [nodeOwn_append, owns_unmanaged rfl]; simp)
  · rw [h]
    obtain ⟨hl, hid⟩ := mallocMem_len cfg m c
    refine ⟨by simp only; rw [hl]; omega, fun k => ?_⟩
    rw [nodeOwn_append, mallocMem_own]
    unfold newBlk
    simp only [hl, hid, NodeS.owns]
    by_cases hk : k = m.blocks.length
    · subst hk; simp
    · have : (some m.blocks.length == some k) = false := by simp; omega
      simp [this]

theorem newNode0_own (cfg : Cfg) (m : Mem) (k : Nat) : (m.newNode cfg 0).1.own k = m.own k ∧
    (m.newNode cfg 0).1.blocks = m.blocks := by
  rcases (newNode_cases cfg m 0).2 with ⟨_, h⟩ | ⟨h0, _⟩
  · rw [h]; exact ⟨by rw [nodeOwn_append, owns_unmanaged rfl]; simp, rfl⟩
  · exact absurd rfl h0

theorem freed_set (m : Mem) (b : Nat) (bl : Block) (hb : m.blocks[b]? = some bl) (k : Nat) :
    ({ m with blocks := m.blocks.set b { bl with frees := bl.frees + 1 } } : Mem).freed k = m.freed k + (if k = b then 1 else 0) := by
  unfold Mem.freed
  simp only
  by_cases hk : k = b
  · subst hk; rw [List.getElem?_set_self (lt_of_getElem? hb), hb]; simp
  · rw [List.getElem?_set_ne (fun h => hk h.symm)]; simp [hk]

theorem freeMem_own (cfg : Cfg) (m : Mem) (blk : Option Nat) (cap k : Nat) :
    (m.freeMem cfg blk cap).own k ≤ m.own k + (if blk = some k then 1 else 0) ∧ (m.freeMem cfg blk cap).blocks.length = m.blocks.length := by
  rcases freeMem_cases cfg m blk cap with h | ⟨b, bl, hblk, _, hb, h⟩
  · rw [h]; exact ⟨Nat.le_add_right _ _, rfl⟩
  · rw [h]
    refine ⟨?_, by simp⟩
    unfold Mem.own
    have h1 := freed_set m b bl hb k
    have h2 : ({ m with blocks := m.blocks.set b { bl with frees := bl.frees + 1 }, log := m.log ++ [.free b cap] } : Mem).freed k =
        ({ m with blocks := m.blocks.set b { bl with frees := bl.frees + 1 } } : Mem).freed k := rfl
    rw [h2, h1, hblk]
    have h3 : ({ m with blocks := m.blocks.set b { bl with frees := bl.frees + 1 }, log := m.log ++ [.free b cap] } : Mem).nodeOwn k = m.nodeOwn k := rfl
    rw [h3]
    by_cases hk : k = b
    · subst hk; simp; omega
    · have : ¬ (some b = some k) := by simp; omega
      simp [hk, this]

theorem setNode_len (m : Mem) (i : Nat) (nd : NodeS) : (m.setNode i nd).blocks = m.blocks := rfl

/-- a struct gives up its token: the count of its block drops by one -/
theorem setNode_own_drop {m : Mem} {i : Nat} {nd nd' : NodeS} (h : m.nodes[i]? = some nd)
    (h1 : ∀ k, nd'.owns k = false) (k : Nat) : (m.setNode i nd').own k + (if nd.owns k then 1 else 0) = m.own k := by
  unfold Mem.own Mem.nodeOwn Mem.freed Mem.setNode
  simp only
  have key : ∀ (l : List NodeS) (i : Nat), l[i]? = some nd →
      (l.set i nd').countP (·.owns k) + (if nd.owns k then 1 else 0) = l.countP (·.owns k) := by
    intro l
    induction l with
    | nil => intro i h; simp at h
    | cons y l ih =>
      intro i h
      cases i with
      | zero =>
        simp at h; subst h
        simp [List.countP_cons, h1 k]
      | succ i =>
        simp at h
        have := ih i h
        simp only [List.set_cons_succ, List.countP_cons]
        omega
  have := key m.nodes i h
  omega

theorem releaseSelf_memB {cfg : Cfg} {m m' : Mem} {i : Nat} (h : m.releaseSelf cfg i = some m') : MemB m m' := by
  unfold Mem.releaseSelf at h
  cases hn : m.nodes[i]? with
  | none => simp [hn] at h
  | some nd =>
    simp only [hn] at h
    by_cases hr : nd.refer - 1 = 0
    · simp only [hr, if_true, Option.some.injEq] at h
      subst h
      by_cases hu : nd.unmanaged = true
      · simp only [hu, if_true]
        exact MemB.of_le rfl (fun k => Nat.le_of_eq (setNode_own_none hn (owns_noblock rfl) (owns_unmanaged hu) k))
      · have hu' : nd.unmanaged = false := by simpa using hu
        simp only [hu', Bool.false_eq_true, if_false]
        refine MemB.of_le (by rw [setNode_len]; exact (freeMem_own cfg m nd.block nd.cap 0).2) (fun k => ?_)
        have hn' : (m.freeMem cfg nd.block nd.cap).nodes[i]? = some nd := by rw [freeMem_nodes]; exact hn
        have h1 := setNode_own_drop (nd' := nd.recycle) hn' (owns_noblock rfl) k
        have h2 := (freeMem_own cfg m nd.block nd.cap k).1
        have h3 : (if nd.block = some k then 1 else 0) = (if nd.owns k then 1 else 0) := by
          simp [NodeS.owns, hu']
        omega
    · simp only [hr, if_false, Option.some.injEq] at h
      subst h
      exact MemB.of_le rfl (fun k => Nat.le_of_eq (setNode_own_same (nd' := { nd with refer := nd.refer - 1 }) hn rfl rfl k))

theorem nodeRelease_memB {cfg : Cfg} (fuel : Nat) : ∀ {m m' : Mem} {i : Nat},
    Mem.nodeRelease cfg fuel m i = some m' → MemB m m' := by
  induction fuel with
  | zero => intro m m' i h; simp [Mem.nodeRelease] at h
  | succ fuel ih =>
    intro m m' i h
    unfold Mem.nodeRelease at h
    cases hn : m.nodes[i]? with
    | none => simp [hn] at h
    | some nd =>
      simp only [hn] at h
      cases ho : nd.origin with
      | none => simp only [ho] at h; exact releaseSelf_memB h
      | some o =>
        simp only [ho] at h
        cases h1 : Mem.nodeRelease cfg fuel m o with
        | none => simp [h1] at h
        | some m1 =>
          simp only [h1] at h
          exact (ih h1).trans (releaseSelf_memB h)

theorem releaseAll_memB {cfg : Cfg} : ∀ (l : List Nat) {m m' : Mem}, m.releaseAll cfg l = some m' → MemB m m'
  | [], m, m', h => by simp [Mem.releaseAll] at h; subst h; exact MemB.refl _
  | i :: rest, m, m', h => by
    unfold Mem.releaseAll at h
    cases h1 : m.release1 cfg i with
    | none => simp [h1] at h
    | some m1 =>
      simp only [h1] at h
      exact (nodeRelease_memB _ h1).trans (releaseAll_memB rest h)

end Netpoll.Buf.Own
