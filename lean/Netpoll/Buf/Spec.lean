import Netpoll.Buf.Model
/-
The abstract specification C01 is stated against: a plain FIFO byte queue whose entries are
tagged "flushed" (readable) or "pending", plus the few history flags the documented contract
depends on.  `Contract` is the decidable predicate assembled from the interface comments
(DESIGN.md Appendix B).
-/
namespace Netpoll.Buf

structure Q (α : Type) where
  /-- queue content in stream order: (byte, flushed?) -/
  items : List (α × Bool) := []
  /-- WriteBinary / WriteString / Append since the last Flush (WriteDirect may not be mixed with them) -/
  binSinceFlush : Bool := false
  /-- Append since the last Flush ("you must actively submit before read the data") -/
  appSinceFlush : Bool := false
  /-- a Slice reader: Reader side only -/
  readOnly : Bool := false
  /-- closed, or given away by Append: may not be used any more -/
  dead : Bool := false
  /-- used through book/bookAck (the connection's input buffer) -/
  booked : Bool := false
deriving Repr, DecidableEq

variable {α : Type}

def Q.len (q : Q α) : Nat := (q.items.filter (·.2)).length
def Q.mallocLen (q : Q α) : Nat := (q.items.filter (! ·.2)).length
/-- the flushed entries form a prefix of the queue -/
def Q.readOK (q : Q α) : Bool := (q.items.dropWhile (·.2)).all (! ·.2)
def Q.flushedBytes (q : Q α) : List α := (q.items.filter (·.2)).map (·.1)
def Q.firstBytes (q : Q α) (n : Nat) : List α := (q.items.take n).map (·.1)

/-- operations on one buffer (two-buffer operations are `slice` and `append` below) -/
inductive Op (α : Type) where
  | malloc (n : Int) (d : List α)
  | writeBinary (p : List α) (pcap : Nat)
  | writeByte (a : α)
  | writeDirect (p : List α) (pcap : Nat) (remain : Int)
  | mallocAck (n : Int)
  | flush
  | next (n : Int) | peek (n : Int) | skip (n : Int) | readBinary (n : Int) | readByte
  | until (c : α) | readCopy (l : Nat)
  | release | close
  | len | mallocLen | bytes | getBytes (k : Nat) | indexByte (c : α) (skip : Nat)
  | bookAck (bookSize maxSize : Nat) (d : List α)   -- book, kernel fills `d` (clipped to what was booked), bookAck
  | resetTail (maxSize : Nat) | calcMaxSize
deriving Repr

/-- is the call inside the documented contract, in this abstract state? -/
def Contract (q : Q α) : Op α → Bool
  -- `d` is what the caller writes into the slice `Malloc(n)` returned: it has that length
  | .malloc n d => !q.dead && !q.readOnly && !q.booked && decide (d.length = n.toNat)
  -- `pcap` is `cap(p)` of a Go slice: never below `len(p)`
  | .writeBinary p pcap => !q.dead && !q.readOnly && !q.booked && decide (p.length ≤ pcap)
  | .writeByte _ => !q.dead && !q.readOnly && !q.booked
  | .writeDirect p pcap remain =>
    !q.dead && !q.readOnly && !q.booked && !q.binSinceFlush && decide (remain ≤ (q.mallocLen : Int)) &&
    decide (p.length ≤ pcap)
  | .mallocAck n => !q.dead && !q.readOnly && !q.booked && !q.appSinceFlush && decide (n ≤ (q.mallocLen : Int))
  | .flush => !q.dead && !q.readOnly
  -- "you must actively submit before read the data" (Append): no read between Append and Flush
  | .next _ | .peek _ | .skip _ | .readBinary _ | .readByte | .until _ | .readCopy _ | .indexByte _ _ =>
    !q.dead && q.readOK && !q.appSinceFlush
  | .release | .close | .len | .mallocLen => !q.dead
  | .bytes | .getBytes _ => !q.dead && !q.readOnly && !q.appSinceFlush && q.readOK
  | .bookAck _ _ _ | .resetTail _ | .calcMaxSize =>
    !q.dead && !q.readOnly && !q.appSinceFlush && decide (q.mallocLen = 0)

/-- what the spec allows a call to return -/
inductive Expect (α : Type) where
  | exact (r : Res α)
  | prefixVecs (bs : List α)      -- GetBytes: vectors whose concatenation is a prefix of `bs`
  | any                           -- book: the booked length depends on the node layout
deriving Repr

def takeRead (q : Q α) (n : Int) (consume : Bool) : Q α × Expect α :=
  if n ≤ 0 then (q, .exact (.bytes []))
  else if q.len < n.toNat then (q, .exact .err)
  else (if consume then { q with items := q.items.drop n.toNat } else q, .exact (.bytes (q.firstBytes n.toNat)))

/-- the FIFO queue's answer and next state -/
def specStep [DecidableEq α] (q : Q α) : Op α → Q α × Expect α
  | .malloc n d => (if n ≤ 0 then q else { q with items := q.items ++ d.map (·, false) }, .exact .unit)
  | .writeBinary p _ =>
    (if p.isEmpty then q else { q with items := q.items ++ p.map (·, false), binSinceFlush := true },
     .exact (.num p.length))
  | .writeByte a => ({ q with items := q.items ++ [(a, false)] }, .exact .unit)
  | .writeDirect p _ remain =>
    if p.isEmpty ∨ remain < 0 then (q, .exact .unit)
    else
      let at_ := q.items.length - remain.toNat
      ({ q with items := q.items.take at_ ++ p.map (·, false) ++ q.items.drop at_ }, .exact .unit)
  | .mallocAck n =>
    if n < 0 then (q, .exact .err)
    else ({ q with items := q.items.take (q.len + n.toNat), binSinceFlush := q.binSinceFlush && decide (n > 0) },
          .exact .unit)
  | .flush => ({ q with items := q.items.map (fun x => (x.1, true)), binSinceFlush := false, appSinceFlush := false },
               .exact .unit)
  | .next n => takeRead q n true
  | .peek n => takeRead q n false
  | .skip n =>
    match takeRead q n true with
    | (q', .exact (.bytes _)) => (q', .exact .unit)
    | x => x
  | .readBinary n => takeRead q n true
  | .readByte => if q.len < 1 then (q, .exact .err) else takeRead q 1 true
  | .until c =>
    match q.flushedBytes.idxOf? c with
    | none => (q, .exact .err)
    | some i => takeRead q ((i : Int) + 1) true
  | .readCopy l =>
    let n := min l q.len
    ({ q with items := q.items.drop n }, .exact (.bytes (q.firstBytes n)))
  | .release => (q, .exact .unit)
  | .close => ({ q with items := [], dead := true }, .exact .unit)
  | .len => (q, .exact (.num q.len))
  | .mallocLen => (q, .exact (.num q.mallocLen))
  | .bytes => (q, .exact (.bytes q.flushedBytes))
  | .getBytes _ => (q, .prefixVecs q.flushedBytes)
  | .indexByte c skip =>
    (q, .exact (.num (match (q.flushedBytes.drop skip).idxOf? c with
      | some i => ((skip + i : Nat) : Int)
      | none => -1)))
  | .bookAck _ _ _ => (q, .any)   -- the queue effect is applied by the caller, who knows how much was booked
  | .resetTail _ => ({ q with booked := true }, .exact .unit)
  | .calcMaxSize => (q, .any)

/-- the effect of a completed book/fill/bookAck of `d` -/
def Q.received (q : Q α) (d : List α) : Q α := { q with items := q.items ++ d.map (·, true), booked := true }

/-- Slice(n): (parent, child if one is made, expectation) -/
def specSlice (q : Q α) (n : Int) : Q α × Option (Q α) × Expect α :=
  if n ≤ 0 then (q, some {}, .exact .unit)
  else if q.len < n.toNat then (q, none, .exact .err)
  else ({ q with items := q.items.drop n.toNat },
        some { items := q.items.take n.toNat, readOnly := true }, .exact .unit)

def sliceContract (q : Q α) : Bool := !q.dead && q.readOK && !q.appSinceFlush

/-- Append(donor): (b, donor) -/
def specAppend (q d : Q α) : Q α × Q α :=
  if d.len + d.mallocLen = 0 then (q, d)
  else ({ q with items := q.items ++ d.items, binSinceFlush := true, appSinceFlush := true },
        { d with items := [], dead := true })

def appendContract (q d : Q α) : Bool :=
  !q.dead && !q.readOnly && !q.booked && !d.dead && !d.readOnly && !d.booked

/-- abstraction function: what the node chain denotes, from the read cursor on. -/
def Node.abs (nd : Node α) : List (α × Bool) :=
  nd.readable.map (·, true) ++ (nd.pend.take (nd.malloc - nd.buf.length)).map (·, false)

def LB.abs (b : LB α) : List (α × Bool) := (b.nodes.drop b.r).flatMap Node.abs

end Netpoll.Buf
