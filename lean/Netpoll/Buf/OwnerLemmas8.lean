import Netpoll.Buf.OwnerLemmas7
/-! Lemmas about the ownership ledger, part 8: the token relation through the reader-side methods. -/
namespace Netpoll.Buf.Own
open Netpoll.Buf

/-- writing a struct that owns at most what the struct now in that slot owns does not add tokens -/
theorem setNode_own_le {m : Mem} {i : Nat} {nd' : NodeS}
    (h : ∀ k, nd'.owns k = true → ∃ nd : NodeS, m.nodes[i]? = some nd ∧ nd.owns k = true) (k : Nat) :
    (m.setNode i nd').own k ≤ m.own k := by
  cases hn : m.nodes[i]? with
  | none =>
    have : m.nodes.set i nd' = m.nodes := by
      apply List.set_eq_of_length_le
      rcases Nat.lt_or_ge i m.nodes.length with h' | h'
      · rw [List.getElem?_eq_getElem h'] at hn; cases hn
      · exact h'
    unfold Mem.setNode; rw [this]; exact Nat.le_refl _
  | some nd =>
    by_cases ho : nd'.owns k = true
    · obtain ⟨nd0, g0, g1⟩ := h k ho
      rw [hn] at g0; cases g0
      have : (m.setNode i nd').own k = m.own k := by
        unfold Mem.own Mem.nodeOwn Mem.freed Mem.setNode
        simp only
        rw [countP_set_same _ _ _ _ _ hn (by rw [ho, g1])]
      exact Nat.le_of_eq this
    · have ho' : nd'.owns k = false := by simpa using ho
      unfold Mem.own Mem.nodeOwn Mem.freed Mem.setNode
      simp only
      have key : ∀ (l : List NodeS) (i : Nat), (l.set i nd').countP (·.owns k) ≤ l.countP (·.owns k) := by
        intro l
        induction l with
        | nil => intro i; simp
        | cons y l ih =>
          intro i
          cases i with
          | zero => simp [List.countP_cons, ho']
          | succ i => simp only [List.set_cons_succ, List.countP_cons]; have := ih i; omega
      have := key m.nodes i
      omega

theorem setNode_memB_none {m : Mem} {i : Nat} {nd' : NodeS} (h : ∀ k, nd'.owns k = false) : MemB m (m.setNode i nd') :=
  MemB.of_le rfl (setNode_own_le (fun k hk => by rw [h k] at hk; cases hk))

theorem setNode_memB_same {m : Mem} {i : Nat} {nd nd' : NodeS} (hn : m.nodes[i]? = some nd)
    (h1 : nd'.unmanaged = nd.unmanaged) (h2 : nd'.block = nd.block) : MemB m (m.setNode i nd') :=
  MemB.of_le rfl (fun k => Nat.le_of_eq (setNode_own_same hn h1 h2 k))

theorem memB_of_own_eq {m m' : Mem} (hl : m'.blocks = m.blocks) (h : ∀ k, m'.own k = m.own k) : MemB m m' :=
  MemB.of_le (by rw [hl]) (fun k => Nat.le_of_eq (h k))

theorem emit_memB (m : Mem) (e : Ev) : MemB m (m.emit e) := memB_of_own_eq rfl (emit_own m e)
theorem addView_memB (m : Mem) (blk : Option Nat) (lo hi o : Nat) (p : Bool) : MemB m (m.addView blk lo hi o p) :=
  memB_of_own_eq (addView_blocks _ _ _ _ _ _) (addView_own m blk lo hi o p)
theorem endViews_memB (m : Mem) (o : Nat) : MemB m (m.endViews o) := memB_of_own_eq rfl (endViews_own m o)

theorem putAll_memB_sz {m : Mem} {l : List Nat} {suf suf' : List (Nat × NodeS)} (hr : m.resolve l = some suf) (hs : SzL suf suf') :
    MemB m (m.putAll suf') :=
  memB_of_own_eq (putAll_len _ _) (putAll_own _ (sigOK_of_sz hr hs))

theorem consumeLen_own (b : Buf) (n k : Nat) : (b.consumeLen n).own k = b.own k := by
  unfold Buf.consumeLen
  split
  · rename_i blk l cp hp
    split
    · unfold Buf.own
      simp only [hp, List.count_append, List.count_singleton]
      by_cases hk : blk = k
      · simp [hk]
      · have : (blk == k) = false := by simp [hk]
        simp [hk, this]
    · rfl
  · rfl

theorem retirePeek_own (b : Buf) (n k : Nat) : (b.retirePeek n).own k = b.own k := by
  unfold Buf.retirePeek
  split
  · rename_i blk l cp hp
    split
    · unfold Buf.own
      simp only [hp, List.count_append, List.count_singleton]
      by_cases hk : blk = k
      · simp [hk]
      · have : (blk == k) = false := by simp [hk]
        simp [hk, this]
    · rfl
  · rfl

theorem onReadSuffix_tok {m m' : Mem} {b b' : Buf} {loop : List (Nat × NodeS) → Option (List (Nat × NodeS) × Nat)}
    (hl : ∀ l l' k, loop l = some (l', k) → SzL l l') (h : onReadSuffix m b loop = some (m', b')) :
    MemB m m' ∧ m'.blocks = m.blocks ∧ ∀ k, b'.own k = b.own k := by
  unfold onReadSuffix at h
  split at h
  · cases h
  · rename_i suf hr
    split at h
    · cases h
    · rename_i suf' k hk
      simp only [Option.some.injEq, Prod.mk.injEq] at h
      obtain ⟨rfl, rfl⟩ := h
      exact ⟨putAll_memB_sz hr (hl _ _ _ hk), putAll_len _ _, fun _ => rfl⟩

/-- a cache block just taken from `malloc` goes into `caches`: its one token -/
theorem tok_cache_push {m m1 m' : Mem} {b b' : Buf} {blk : Nat} (h0 : m1.blocks.length = m.blocks.length + 1)
    (hblk : blk = m.blocks.length) (h1 : ∀ k, m1.own k = m.own k) (h2 : MemB m1 m')
    (hb : ∀ k, b'.own k = b.own k + (if blk = k then 1 else 0)) : TokB m b m' b' := by
  refine ⟨by have := h2.len; omega, fun k => ?_⟩
  have := h2.own k
  rw [h1 k] at this
  rw [hb k]
  have hm' : m.blocks.length + 1 ≤ m'.blocks.length := by rw [← h0]; exact h2.len
  have e : newBlk m m' k = (if blk = k then 1 else 0) + newBlk m1 m' k := by
    unfold newBlk
    rw [h0, hblk]
    by_cases a : m.blocks.length = k
    · subst a
      have c1 : m.blocks.length ≤ m.blocks.length ∧ m.blocks.length < m'.blocks.length := ⟨Nat.le_refl _, by omega⟩
      have c2 : ¬ (m.blocks.length + 1 ≤ m.blocks.length ∧ m.blocks.length < m'.blocks.length) := by omega
      simp [c1, c2]
    · by_cases c : k < m'.blocks.length <;> by_cases d : m.blocks.length ≤ k
      · have c1 : m.blocks.length + 1 ≤ k := by omega
        simp [a, c, d, c1]
      · have c1 : ¬ m.blocks.length + 1 ≤ k := by omega
        simp [a, c, d, c1]
      · simp [a, c, d]
      · simp [a, c, d]
  omega

theorem isSingleNode_own {s : Mem} {b b' : Buf} {n i : Nat} {nd : NodeS} {f : Bool}
    (h : isSingleNode s b n = some (b', i, nd, f)) (k : Nat) : b'.own k = b.own k := by
  obtain ⟨_, h1, h2, _⟩ := isSingleNode_spec h
  exact Buf.own_eq h1 h2 k

theorem next_tok {cfg : Cfg} {m m' : Mem} {id : Nat} {b b' : Buf} {n : Int} (h : next cfg m id b n = some (m', b')) :
    TokB m b m' b' := by
  unfold next at h
  split at h
  · cases h; exact TokB.refl _ _
  · dsimp only at h
    split at h
    · cases h; exact TokB.refl _ _
    · have hb1 := consumeLen_own b n.toNat
      generalize b.consumeLen n.toNat = b1 at h hb1
      split at h
      · cases h
      · rename_i b2 i nd hs
        obtain ⟨hn, _⟩ := isSingleNode_spec hs
        cases h
        refine ((setNode_memB_same (nd' := { nd with exposed := true, off := nd.off + n.toNat }) hn rfl rfl).trans (addView_memB _ _ _ _ _ _)).tok
          (fun k => by rw [isSingleNode_own hs, hb1])
      · rename_i b2 i nd hs
        have hb2 := isSingleNode_own hs
        by_cases hcache : cfg.block1k < n.toNat ∧ n.toNat ≤ cfg.mallocMax
        · simp only [hcache, and_self, if_true] at h
          obtain ⟨hl, hid⟩ := mallocMem_len cfg m n.toNat
          have ho := mallocMem_own cfg m n.toNat
          generalize m.mallocMem cfg n.toNat = p at h hl hid ho
          obtain ⟨m1, blk, cp⟩ := p
          simp only at h hl hid ho
          split at h
          · cases h
          · rename_i m2 b3 hor
            cases h
            obtain ⟨g1, _, g3⟩ := onReadSuffix_tok (fun l l' k => nextLoop_sz l _) hor
            have hb3 : ∀ k, b'.own k = b.own k + (if blk = k then 1 else 0) := by
              intro k
              rw [g3 k, ← hb1 k, ← hb2 k]
              unfold Buf.own
              simp only [List.count_append, List.count_singleton]
              by_cases hk : blk = k
              · simp [hk]; omega
              · have : (blk == k) = false := by simp [hk]
                simp [hk, this]
            exact tok_cache_push hl hid ho (g1.trans ((emit_memB _ _).trans (addView_memB _ _ _ _ _ _))) hb3
        · simp only [hcache, if_false] at h
          have g0 := allocBlock_memB m .gc n.toNat
          generalize m.allocBlock .gc n.toNat = p at h g0
          obtain ⟨m1, blk⟩ := p
          simp only at h g0
          split at h
          · cases h
          · rename_i m2 b3 hor
            cases h
            obtain ⟨g1, _, g3⟩ := onReadSuffix_tok (fun l l' k => nextLoop_sz l _) hor
            exact (g0.trans (g1.trans ((emit_memB _ _).trans (addView_memB _ _ _ _ _ _)))).tok
              (fun k => by rw [g3 k, hb2 k, hb1 k])

/-- `peekFill` keeps the memory's tokens; the buffer ends with exactly `blk` as peek cache -/
theorem peekFill_tok {m m' : Mem} {id : Nat} {b b' : Buf} {n blk l cp : Nat} (h : peekFill m id b n blk l cp = some (m', b')) :
    MemB m m' ∧ b'.caches = b.caches ∧ ∃ l', b'.cachePeek = some (blk, l', cp) := by
  unfold peekFill at h
  split at h
  · cases h; exact ⟨addView_memB _ _ _ _ _ _, rfl, l, rfl⟩
  · split at h
    · cases h
    · split at h
      · cases h
      · rename_i l' _
        cases h
        exact ⟨(emit_memB _ _).trans (addView_memB _ _ _ _ _ _), rfl, l', rfl⟩

theorem peek_tok {cfg : Cfg} {m m' : Mem} {id : Nat} {b b' : Buf} {n : Int} (h : peek cfg m id b n = some (m', b')) :
    TokB m b m' b' := by
  unfold peek at h
  split at h
  · cases h; exact TokB.refl _ _
  · dsimp only at h
    split at h
    · cases h; exact TokB.refl _ _
    · split at h
      · cases h
      · rename_i b2 i nd hs
        obtain ⟨hn, _⟩ := isSingleNode_spec hs
        cases h
        exact ((setNode_memB_same (nd' := { nd with exposed := true }) hn rfl rfl).trans (addView_memB _ _ _ _ _ _)).tok
          (fun k => by rw [isSingleNode_own hs])
      · rename_i b2 i nd hs
        have hb2 := isSingleNode_own hs
        have hb3 := retirePeek_own b2 n.toNat
        split at h
        · rename_i blk l cp hp
          obtain ⟨g1, g2, l', g3⟩ := peekFill_tok h
          refine g1.tok (fun k => ?_)
          rw [← hb2 k, ← hb3 k]
          unfold Buf.own
          rw [g2, g3, hp]
        · rename_i hp
          obtain ⟨g1, g2, l', g3⟩ := peekFill_tok h
          obtain ⟨hl, hid⟩ := mallocMem_len cfg m n.toNat
          refine tok_cache_push hl hid (mallocMem_own cfg m n.toNat) g1 (fun k => ?_)
          rw [← hb2 k, ← hb3 k]
          unfold Buf.own
          rw [g2, g3, hp]
          simp

theorem skip_tok {m m' : Mem} {b b' : Buf} {n : Int} (h : skip m b n = some (m', b')) : TokB m b m' b' := by
  unfold skip at h
  split at h
  · cases h; exact TokB.refl _ _
  · dsimp only at h
    split at h
    · cases h; exact TokB.refl _ _
    · obtain ⟨g1, _, g3⟩ := onReadSuffix_tok (fun l l' k => skipLoop_sz l _) h
      exact g1.tok (fun k => by rw [g3 k, consumeLen_own])

theorem readByte_tok {m m' : Mem} {b b' : Buf} (h : readByte m b = some (m', b')) : TokB m b m' b' := by
  unfold readByte at h
  split at h
  · cases h; exact TokB.refl _ _
  · obtain ⟨g1, _, g3⟩ := onReadSuffix_tok (fun l l' k => readByteLoop_sz l) h
    exact g1.tok (fun k => by rw [g3 k, consumeLen_own])

theorem untilIdx_tok {cfg : Cfg} {m m' : Mem} {id : Nat} {b b' : Buf} {idx : Int} (h : untilIdx cfg m id b idx = some (m', b')) :
    TokB m b m' b' := by
  unfold untilIdx at h
  split at h
  · cases h; exact TokB.refl _ _
  · exact next_tok h

theorem readBinary_tok {m m' : Mem} {id : Nat} {b b' : Buf} {n : Int} (h : readBinary m id b n = some (m', b')) :
    TokB m b m' b' := by
  unfold readBinary at h
  split at h
  · cases h; exact TokB.refl _ _
  · dsimp only at h
    split at h
    · cases h; exact TokB.refl _ _
    · have hb1 := consumeLen_own b n.toNat
      generalize b.consumeLen n.toNat = b1 at h hb1
      have g0 := allocBlock_memB m .gc n.toNat
      have hnodes := allocBlock_nodes m .gc n.toNat
      generalize m.allocBlock .gc n.toNat = p at h g0 hnodes
      obtain ⟨m1, blk⟩ := p
      simp only at h g0 hnodes
      split at h
      · cases h
      · rename_i b2 i nd hs
        obtain ⟨hn, _⟩ := isSingleNode_spec hs
        cases h
        exact (g0.trans ((setNode_memB_same (nd := nd) (nd' := { nd with off := nd.off + n.toNat }) (by rw [hnodes]; exact hn) rfl rfl).trans
          ((emit_memB _ _).trans (addView_memB _ _ _ _ _ _)))).tok (fun k => by rw [isSingleNode_own hs, hb1])
      · rename_i b2 i nd hs
        split at h
        · cases h
        · rename_i m2 b3 hor
          cases h
          obtain ⟨g1, _, g3⟩ := onReadSuffix_tok (fun l l' k => nextLoop_sz l _) hor
          exact (g0.trans (g1.trans ((emit_memB _ _).trans (addView_memB _ _ _ _ _ _)))).tok
            (fun k => by rw [g3 k, isSingleNode_own hs, hb1])

theorem freeCaches_own (cfg : Cfg) : ∀ (l : List Nat) (m : Mem) (k : Nat),
    (freeCaches cfg m l).own k ≤ m.own k + l.count k ∧ (freeCaches cfg m l).blocks.length = m.blocks.length
  | [], m, k => ⟨by simp [freeCaches], rfl⟩
  | blk :: rest, m, k => by
    unfold freeCaches
    have h1 := freeMem_own cfg m (some blk) (m.blockCap blk) k
    have h2 := freeCaches_own cfg rest (m.freeMem cfg (some blk) (m.blockCap blk)) k
    refine ⟨?_, by rw [h2.2, h1.2]⟩
    have h3 : (blk :: rest).count k = rest.count k + (if blk = k then 1 else 0) := by
      simp [List.count_cons]
    have h4 : (if some blk = some k then 1 else 0) = (if blk = k then 1 else 0) := by simp
    omega

theorem releaseCore_tok {cfg : Cfg} {m m' : Mem} {b b' : Buf} (h : releaseCore cfg m b = some (m', b')) : TokB m b m' b' := by
  unfold releaseCore at h
  split at h
  · cases h
  · split at h
    · cases h
    · split at h
      · cases h
      · split at h
        · cases h
        · rename_i m1 hr
          cases h
          have g1 := releaseAll_memB _ hr
          have f1 := fun k => freeCaches_own cfg b.caches m1 k
          cases hp : b.cachePeek with
          | none =>
            simp only
            refine ⟨by rw [(f1 0).2]; exact g1.len, fun k => ?_⟩
            have h1 := g1.own k
            have h2 := (f1 k).1
            have h3 : newBlk m (freeCaches cfg m1 b.caches) k = newBlk m m1 k := by unfold newBlk; rw [(f1 0).2]
            have h4 : b.own k = b.caches.count k := by unfold Buf.own; rw [hp]; simp
            rw [h3, h4]
            simp only [Buf.own, List.count_nil]
            omega
          | some q =>
            obtain ⟨blk, l, cp⟩ := q
            simp only
            have f2 := fun k => freeMem_own cfg (freeCaches cfg m1 b.caches) (some blk) cp k
            refine ⟨by rw [(f2 0).2, (f1 0).2]; exact g1.len, fun k => ?_⟩
            have h1 := g1.own k
            have h2 := (f1 k).1
            have h2' := (f2 k).1
            have h3 : newBlk m ((freeCaches cfg m1 b.caches).freeMem cfg (some blk) cp) k = newBlk m m1 k := by
              unfold newBlk; rw [(f2 0).2, (f1 0).2]
            have h4 : b.own k = b.caches.count k + (if blk = k then 1 else 0) := by unfold Buf.own; rw [hp]
            have h6 : (if some blk = some k then 1 else 0) = (if blk = k then 1 else 0) := by simp
            rw [h3, h4]
            simp only [Buf.own, List.count_nil]
            omega

theorem release_tok {cfg : Cfg} {m m' : Mem} {id : Nat} {b b' : Buf} (h : release cfg m id b = some (m', b')) : TokB m b m' b' := by
  unfold release at h
  split at h
  · cases h
  · rename_i m1 b1 hr
    cases h
    exact (releaseCore_tok hr).trans ((endViews_memB _ _).tok (fun _ => rfl))

end Netpoll.Buf.Own
