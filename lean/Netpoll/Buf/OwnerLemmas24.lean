import Netpoll.Buf.OwnerLemmas23
/-! Lemmas about the ownership ledger, part 24: the views invariant of the whole ledger through `step` and `run`, and
"no live view on a freed block". -/
namespace Netpoll.Buf.Own
open Netpoll.Buf

/-- every live view is held: a private copy lies on GC memory; a zero-copy result is held by its owner's buffer -/
def ViewsOK (s : Ledger) : Prop :=
  ∀ v ∈ s.mem.views, v.live = true →
    (v.perm = true → isGc s.mem v.block) ∧
    (v.perm = false → ∃ bx : Buf, s.getBuf v.owner = some bx ∧ HeldBy s.mem bx v.block)

/-- the calls that cut the chain behind the write node are covered when no exposed struct sits there -/
def TailOK (s : Ledger) : Op → Prop
  | .flush id => ∀ b, s.getBuf id = some b → TailClean s.mem b
  | .wbin id _ _ => ∀ b, s.getBuf id = some b → TailClean s.mem b
  | .book id _ _ _ => ∀ b, s.getBuf id = some b → TailClean s.mem b
  | .rtail id _ => ∀ b, s.getBuf id = some b → TailClean s.mem b
  | .app id _ => ∀ b, s.getBuf id = some b → TailClean s.mem b
  | _ => True

def CovV (s : Ledger) (op : Op) : Prop := Cov s op ∧ TailOK s op

theorem getBuf_put_self (s : Ledger) (m : Mem) (id : Nat) (b : Buf) : (s.put m id b).getBuf id = some b := by
  unfold Ledger.getBuf Ledger.put
  simp only
  have : ∀ l : List (Nat × Buf), (putAssoc id b l).find? (·.1 = id) = some (id, b) := by
    intro l
    induction l with
    | nil => simp [putAssoc]
    | cons p rest ih =>
      obtain ⟨i, x⟩ := p
      unfold putAssoc
      by_cases hi : i = id
      · simp [hi]
      · simp only [hi, if_false, List.find?_cons]
        simp [hi, ih]
  rw [this]; rfl

theorem getBuf_put_ne (s : Ledger) (m : Mem) {id X : Nat} (b : Buf) (h : X ≠ id) : (s.put m id b).getBuf X = s.getBuf X := by
  unfold Ledger.getBuf Ledger.put
  simp only
  rw [find_putAssoc_ne h]

/-- another reader's hold survives a call that keeps the frame -/
theorem HeldBy.other {m m' : Mem} {bx : Buf} {k : Nat} (he : Ext m m') (hf : Frame m m') : HeldBy m bx k → HeldBy m' bx k := by
  rintro (h | h | ⟨i, hi, hx⟩)
  · exact Or.inl (h.ext he)
  · exact Or.inr (Or.inl h)
  · exact Or.inr (Or.inr ⟨i, hi, hx.frame hf⟩)

theorem on1_views {s s' : Ledger} {id : Nat} {f : Buf → Option (Mem × Buf)} (hv : ViewsOK s)
    (hf : ∀ b m b1, s.getBuf id = some b → f b = some (m, b1) → VS s.mem b m b1 id) (hr : on1 s id f = some s') : ViewsOK s' := by
  unfold on1 at hr
  split at hr
  · cases hr; exact hv
  · rename_i b hg
    split at hr
    · cases hr
    · rename_i m b1 hfb
      cases hr
      have vs := hf b m b1 hg hfb
      obtain ⟨news, e, pn⟩ := vs.views
      intro v hvm hl
      simp only [Ledger.put] at hvm
      rw [e] at hvm
      rcases List.mem_append.1 hvm with hvm | hvm
      · obtain ⟨p1, p2⟩ := hv v hvm hl
        refine ⟨fun hp => (p1 hp).ext vs.ext, fun hp => ?_⟩
        obtain ⟨bx, g1, g2⟩ := p2 hp
        by_cases hX : v.owner = id
        · rw [hX] at g1 ⊢
          rw [hg] at g1; cases g1
          exact ⟨b1, getBuf_put_self _ _ _ _, g2.step vs⟩
        · exact ⟨bx, by rw [getBuf_put_ne _ _ _ hX]; exact g1, g2.other vs.ext vs.frame⟩
      · obtain ⟨_, a2, a3, a4⟩ := pn v hvm
        exact ⟨a3, fun hp => ⟨b1, by rw [a2]; exact getBuf_put_self _ _ _ _, a4 hp⟩⟩

/-- after the views of `id` ended: the others are still held (the table entry of `id`, and a possibly new entry, do not matter) -/
theorem views_after_end {s : Ledger} {m0 : Mem} {id : Nat} (hv : ViewsOK s) (hfs : FS s.mem m0) (s' : Ledger)
    (hm : s'.mem = m0.endViews id) (hg : ∀ X bx, X ≠ id → s.getBuf X = some bx → s'.getBuf X = some bx) : ViewsOK s' := by
  intro v hvm hl
  rw [hm] at hvm
  simp only [Mem.endViews, List.mem_map] at hvm
  obtain ⟨v0, hv0, rfl⟩ := hvm
  rw [hfs.views] at hv0
  have hext : Ext s.mem s'.mem := by rw [hm]; exact hfs.ext.trans (endViews_ext _ _)
  have hfr : Frame s.mem s'.mem := by rw [hm]; exact hfs.frame.trans (Frame.of_nodes_eq rfl)
  by_cases hc : v0.owner = id ∧ (!v0.perm) = true
  · simp [hc] at hl
  · simp only [hc, if_false] at hl ⊢
    obtain ⟨p1, p2⟩ := hv v0 hv0 hl
    refine ⟨fun hp => (p1 hp).ext hext, fun hp => ?_⟩
    obtain ⟨bx, g1, g2⟩ := p2 hp
    have hX : v0.owner ≠ id := by
      intro e
      exact hc ⟨e, by simp [hp]⟩
    exact ⟨bx, hg _ _ hX g1, g2.other hext hfr⟩

theorem slice_none {cfg : Cfg} {m m' : Mem} {b b' : Buf} {n : Int} (h : slice cfg m b n = some (m', b', none)) : m' = m ∧ b' = b := by
  unfold slice at h
  split at h
  · cases h
  · dsimp only at h
    split at h
    · cases h; exact ⟨rfl, rfl⟩
    · generalize b.consumeLen n.toNat = b1 at h
      split at h
      · cases h
      · split at h
        · cases h
        · cases h
      · split at h
        · cases h
        · split at h
          · cases h
          · split at h
            · cases h
            · cases h

theorem markSplit_views : ∀ (l : List Nat) (m : Mem), (markSplit m l).views = m.views
  | [], _ => rfl
  | i :: rest, m => by
    unfold markSplit
    rw [markSplit_views rest]
    split
    · split
      · split
        · split
          · split <;> rfl
          · rfl
        · rfl
      · rfl
    · rfl

theorem step_views {cfg : Cfg} {s s' : Ledger} {op : Op} (hv : ViewsOK s) (hc : CovV s op) (hr : step cfg s op = some s') : ViewsOK s' := by
  cases op with
  | new id size =>
    simp only [step, Option.some.injEq] at hr; subst hr
    have hfresh : s.getBuf id = none := hc.1
    have he := newNode_ext cfg s.mem size
    have hf := newNode_frame cfg s.mem size
    intro v hvm hl
    simp only [Ledger.put, newBuf] at hvm
    rw [newNode_views] at hvm
    obtain ⟨p1, p2⟩ := hv v hvm hl
    refine ⟨fun hp => (p1 hp).ext he, fun hp => ?_⟩
    obtain ⟨bx, g1, g2⟩ := p2 hp
    have hX : v.owner ≠ id := by intro e; rw [e, hfresh] at g1; cases g1
    exact ⟨bx, by rw [getBuf_put_ne _ _ _ hX]; exact g1, g2.other he hf⟩
  | mal id n => exact on1_views hv (fun b m b1 _ hf => malloc_vs hf) hr
  | wbin id n pcap => exact on1_views hv (fun b m b1 hg hf => writeBinary_vs (hc.2 b hg) hf) hr
  | wdir id n ecap remain =>
    refine on1_views hv (fun b m b1 _ hf => ?_) hr
    split at hf
    · cases hf
    · rename_i m0 b0 hw
      cases hf
      have v1 := writeDirect_vs (id := id) hw
      split
      · exact v1.trans (VS.plain (markSplit_ext _ _) (Frame.of_nodes_eq (markSplit_nodes _ _)) (markSplit_views _ _) rfl rfl (fun _ hi => hi))
      · exact v1
  | ack id n => exact on1_views hv (fun b m b1 _ hf => mallocAck_vs hf) hr
  | flush id => exact on1_views hv (fun b m b1 hg hf => flush_vs (hc.2 b hg) hf) hr
  | next id n => exact on1_views hv (fun b m b1 _ hf => next_vs hf) hr
  | peek id n => exact on1_views hv (fun b m b1 _ hf => peek_vs hf) hr
  | skip id n => exact on1_views hv (fun b m b1 _ hf => skip_vs hf) hr
  | rbin id n => exact on1_views hv (fun b m b1 _ hf => readBinary_vs hf) hr
  | rbyte id => exact on1_views hv (fun b m b1 _ hf => readByte_vs hf) hr
  | untl id idx => exact on1_views hv (fun b m b1 _ hf => untilIdx_vs hf) hr
  | read id n => exact on1_views hv (fun b m b1 _ hf => readCopy_vs hf) hr
  | rel id =>
    simp only [step, on1] at hr
    split at hr
    · cases hr; exact hv
    · rename_i b hg
      split at hr
      · cases hr
      · rename_i m b1 hrel
        cases hr
        obtain ⟨m0, hfs, rfl⟩ := release_fs hrel
        exact views_after_end hv hfs _ rfl (fun X bx hX hgx => by rw [getBuf_put_ne _ _ _ hX]; exact hgx)
  | close id =>
    simp only [step, on1] at hr
    split at hr
    · cases hr; exact hv
    · rename_i b hg
      split at hr
      · cases hr
      · rename_i m b1 hcl
        cases hr
        obtain ⟨m0, hfs, rfl⟩ := close_fs hcl
        exact views_after_end hv hfs _ rfl (fun X bx hX hgx => by rw [getBuf_put_ne _ _ _ hX]; exact hgx)
  | getbytes id k => exact on1_views hv (fun b m b1 _ hf => getBytes_vs hf) hr
  | rtail id ms => exact on1_views hv (fun b m b1 hg hf => resetTail_vs (hc.2 b hg) hf) hr
  | book id bs ms n => exact on1_views hv (fun b m b1 hg hf => bookAck_vs (hc.2 b hg) hf) hr
  | slice id n nid =>
    simp only [step] at hr
    split at hr
    · cases hr; exact hv
    · rename_i b hg
      split at hr
      · cases hr
      · rename_i m b1 hs
        cases hr
        obtain ⟨rfl, rfl⟩ := slice_none hs
        -- nothing happened
        intro v hvm hl
        obtain ⟨p1, p2⟩ := hv v hvm hl
        refine ⟨p1, fun hp => ?_⟩
        obtain ⟨bx, g1, g2⟩ := p2 hp
        by_cases hX : v.owner = id
        · rw [hX] at g1 ⊢; rw [hg] at g1; cases g1
          exact ⟨_, getBuf_put_self _ _ _ _, g2⟩
        · exact ⟨bx, by rw [getBuf_put_ne _ _ _ hX]; exact g1, g2⟩
      · rename_i m b1 c hs
        cases hr
        obtain ⟨hfresh, hne⟩ : s.getBuf nid = none ∧ nid ≠ id := hc.1
        refine views_after_end hv (slice_fs hs) _ rfl (fun X bx hX hgx => ?_)
        have hXn : X ≠ nid := by intro e; rw [e, hfresh] at hgx; cases hgx
        rw [getBuf_put_ne _ _ _ hXn, getBuf_put_ne _ _ _ hX]; exact hgx
  | app id did =>
    simp only [step] at hr
    split at hr
    · rename_i b d hg hgd
      split at hr
      · cases hr
      · rename_i m b1 d1 hw
        cases hr
        have hne : id ≠ did := hc.1
        obtain ⟨hfs, k1, k2, k3⟩ := writeBuffer_fs hw
        have hext : Ext s.mem (m.endViews did) := hfs.ext.trans (endViews_ext _ _)
        have hfr : Frame s.mem (m.endViews did) := hfs.frame.trans (Frame.of_nodes_eq rfl)
        intro v hvm hl
        simp only [Ledger.put, Mem.endViews, List.mem_map] at hvm
        obtain ⟨v0, hv0, rfl⟩ := hvm
        rw [hfs.views] at hv0
        by_cases hcd : v0.owner = did ∧ (!v0.perm) = true
        · simp [hcd] at hl
        · simp only [hcd, if_false] at hl ⊢
          obtain ⟨p1, p2⟩ := hv v0 hv0 hl
          refine ⟨fun hp => (p1 hp).ext hext, fun hp => ?_⟩
          obtain ⟨bx, g1, g2⟩ := p2 hp
          have hXd : v0.owner ≠ did := by intro e; exact hcd ⟨e, by simp [hp]⟩
          by_cases hX : v0.owner = id
          · -- the receiver keeps its caches and its exposed structs
            rw [hX] at g1; rw [hg] at g1; cases g1
            refine ⟨b1, by rw [hX, getBuf_put_ne _ _ _ hne, getBuf_put_self], ?_⟩
            rcases g2 with g2 | g2 | ⟨i, hi, hx⟩
            · exact Or.inl (g2.ext hext)
            · refine Or.inr (Or.inl ?_)
              unfold inCaches peekIs at *
              rw [k1, k2]; exact g2
            · have hx' := exposedAt.frame hfr hx
              obtain ⟨nd, e1, e2, _⟩ := hx
              exact Or.inr (Or.inr ⟨i, k3 (hc.2 b hg) i hi ⟨nd, e1, e2⟩, hx'⟩)
          · exact ⟨bx, by rw [getBuf_put_ne _ _ _ hXd, getBuf_put_ne _ _ _ hX]; exact g1, g2.other hext hfr⟩
    · cases hr; exact hv
  | nop id => simp only [step, Option.some.injEq] at hr; subst hr; exact hv

theorem views_init : ViewsOK {} := fun v hv => by cases hv

theorem run_views {cfg : Cfg} : ∀ (ops : List Op) {s : Ledger}, ViewsOK s → AllSteps cfg CovV s ops → ViewsOK (run cfg s ops)
  | [], _, h, _ => h
  | op :: ops, s, h, hc => by
    unfold run
    cases hs : step cfg s op with
    | none => exact h
    | some s' =>
      have := hc.2
      rw [hs] at this
      exact run_views ops (step_views h hc.1 hs) this

theorem AllSteps.mono {cfg : Cfg} {P Q : Ledger → Op → Prop} (hpq : ∀ s op, P s op → Q s op) : ∀ (ops : List Op) (s : Ledger),
    AllSteps cfg P s ops → AllSteps cfg Q s ops
  | [], _, _ => trivial
  | op :: ops, s, h => by
    refine ⟨hpq s op h.1, ?_⟩
    have := h.2
    split
    · trivial
    · rename_i s' hs
      rw [hs] at this
      exact AllSteps.mono hpq ops s' this

theorem mem_le_sum {x : Nat} : ∀ {l : List Nat}, x ∈ l → x ≤ l.sum
  | [], h => by cases h
  | y :: l, h => by
    rcases List.mem_cons.1 h with rfl | h
    · simp only [List.sum_cons]; omega
    · have := mem_le_sum h; simp only [List.sum_cons]; omega

/-- **no live view on a freed block** -/
theorem view_block_unfreed {cfg : Cfg} {s : Ledger} (hg : Good cfg s) (hv : ViewsOK s) {v : View} (hm : v ∈ s.mem.views) (hl : v.live = true)
    {bl : Block} (hbl : s.mem.blocks[v.block]? = some bl) : bl.frees = 0 := by
  have hgc : isGc s.mem v.block → bl.frees = 0 := by
    rintro ⟨bl', g1, g2⟩
    rw [hbl] at g1; cases g1
    rcases Nat.eq_zero_or_pos bl.frees with h0 | h0
    · exact h0
    · have := hg.typed.core.frees _ bl hbl h0
      rw [g2] at this; cases this
  obtain ⟨p1, p2⟩ := hv v hm hl
  cases hp : v.perm with
  | true => exact hgc (p1 hp)
  | false =>
    obtain ⟨bx, g1, g2⟩ := p2 hp
    rcases g2 with g2 | g2 | ⟨i, hi, nd, e1, e2, e3⟩
    · exact hgc g2
    · -- a cache block: its token is still there
      have hmem := getBuf_mem g1
      have hpos : 0 < bx.own v.block := by
        unfold Buf.own
        rcases g2 with g2 | ⟨l, cp, g2⟩
        · have := List.count_pos_iff.2 g2
          omega
        · rw [g2]; simp
      have hsum : bx.own v.block ≤ bufsOwn s.bufs v.block := by
        unfold bufsOwn
        exact mem_le_sum (List.mem_map.2 ⟨(v.owner, bx), hmem, rfl⟩)
      have hle := hg.tok.le v.block
      have hfr : s.mem.freed v.block = bl.frees := by unfold Mem.freed; rw [hbl]
      unfold Ledger.own Mem.own at hle
      omega
    · have hlive := hg.rc.chained_live e1 (mem_allChains (getBuf_mem g1) hi)
      exact hg.chained_unfreed (getBuf_mem g1) hi e1 (e3 hlive) hbl

end Netpoll.Buf.Own
