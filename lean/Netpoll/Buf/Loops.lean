import Netpoll.Buf.Inv
/-
Induction lemmas for the Go loops of the read side: what they return and how they change
`flatMap Node.abs` of the chain suffix they walk.
The common hypothesis is that the first `n` entries of the abstract stream are flushed
(which is what `Q.readOK` and `n ≤ Len` give).
-/
namespace Netpoll.Buf

variable {α : Type}

/-- abstract content of a chain suffix -/
abbrev absL (ns : List (Node α)) : List (α × Bool) := ns.flatMap Node.abs

@[simp] theorem absL_nil : absL ([] : List (Node α)) = [] := rfl
@[simp] theorem absL_cons (nd : Node α) (ns : List (Node α)) : absL (nd :: ns) = nd.abs ++ absL ns := by
  simp [absL]

theorem Node.readable_length (nd : Node α) : nd.readable.length = nd.len := by
  simp [Node.readable, Node.len]

theorem Node.abs_length_ge (nd : Node α) : nd.len ≤ nd.abs.length := by
  simp [Node.abs, Node.readable, Node.len]

/-- consuming `n ≤ len` bytes of a node drops `n` entries of its abstract content -/
theorem Node.abs_adv (nd nd' : Node α) (n : Nat) (hb : nd'.buf = nd.buf) (hm : nd'.malloc = nd.malloc)
    (hp : nd'.pend = nd.pend) (ho : nd'.off = nd.off + n) (hn : n ≤ nd.len) :
    nd'.abs = nd.abs.drop n := by
  simp only [Node.abs, Node.readable, hb, hm, hp, ho]
  rw [List.drop_append_of_le_length (by simp [Node.len] at hn ⊢; omega)]
  simp [List.drop_drop, Nat.add_comm]

/-- the first `n ≤ len` bytes of the stream are the first `n` readable bytes of the node -/
theorem Node.abs_take (nd : Node α) (rest : List (α × Bool)) (n : Nat) (hn : n ≤ nd.len) :
    ((nd.abs ++ rest).take n).map (·.1) = nd.readable.take n := by
  have h1 : n ≤ (nd.readable.map (·, true)).length := by simp [Node.readable_length, hn]
  simp only [Node.abs, List.append_assoc]
  rw [List.take_append_of_le_length h1]
  simp [← List.map_take, Function.comp_def]

/-- if more than `len` leading entries of the stream are flushed, the node has nothing pending -/
theorem Node.abs_of_stream (nd : Node α) (rest : List (α × Bool)) (n : Nat) (hlt : nd.len < n)
    (h : ∀ x ∈ (nd.abs ++ rest).take n, x.2 = true) : nd.abs = nd.readable.map (·, true) := by
  simp only [Node.abs] at h ⊢
  generalize nd.pend.take (nd.malloc - nd.buf.length) = P at h ⊢
  cases P with
  | nil => simp
  | cons p ps =>
    exfalso
    have : (p, false) ∈ ((nd.readable.map (·, true) ++ ((p :: ps).map (·, false))) ++ rest).take n := by
      rw [List.append_assoc, List.take_append]
      apply List.mem_append_right
      simp only [List.length_map, Node.readable_length]
      obtain ⟨m, hm⟩ : ∃ m, n - nd.len = m + 1 := ⟨n - nd.len - 1, by omega⟩
      rw [hm]; simp
    have := h _ this
    simp at this

theorem Node.abs_length_of_stream (nd : Node α) (rest : List (α × Bool)) (n : Nat) (hlt : nd.len < n)
    (h : ∀ x ∈ (nd.abs ++ rest).take n, x.2 = true) : nd.abs.length = nd.len := by
  rw [Node.abs_of_stream nd rest n hlt h]; simp [Node.readable_length]

/-- a node without readable bytes in front of a flushed entry is abstractly empty -/
theorem Node.abs_nil_of_stream (nd : Node α) (rest : List (α × Bool)) (n : Nat) (h0 : nd.len = 0) (hn : 0 < n)
    (h : ∀ x ∈ (nd.abs ++ rest).take n, x.2 = true) : nd.abs = [] := by
  rw [Node.abs_of_stream nd rest n (by omega) h]
  have := Node.readable_length nd
  rw [h0] at this
  simp [List.eq_nil_of_length_eq_zero this]

/-- the stream hypotheses for the rest of the chain after a fully consumed node -/
theorem stream_tail (nd : Node α) (ns : List (Node α)) (n : Nat) (hlt : nd.len < n)
    (hlen : n ≤ (absL (nd :: ns)).length) (h : ∀ x ∈ (absL (nd :: ns)).take n, x.2 = true) :
    n - nd.len ≤ (absL ns).length ∧ (∀ x ∈ (absL ns).take (n - nd.len), x.2 = true) ∧
    (absL (nd :: ns)).drop n = (absL ns).drop (n - nd.len) ∧
    ((absL (nd :: ns)).take n).map (·.1) = nd.readable ++ ((absL ns).take (n - nd.len)).map (·.1) := by
  simp only [absL_cons] at hlen h ⊢
  have hl := Node.abs_length_of_stream nd _ n hlt h
  have ha := Node.abs_of_stream nd _ n hlt h
  refine ⟨by rw [List.length_append, hl] at hlen; omega, ?_, ?_, ?_⟩
  · intro x hx
    apply h
    rw [List.take_append, hl]
    exact List.mem_append_right _ hx
  · rw [List.drop_append, hl, List.drop_eq_nil_of_le (by omega)]; simp
  · rw [List.take_append, hl, List.take_of_length_le (by omega), List.map_append, ha]
    simp [Function.comp_def]

/-! ### Skip -/

theorem skipLoop_spec (ns : List (Node α)) (n : Nat) (hn : 0 < n)
    (hlen : n ≤ (absL ns).length) (hfl : ∀ x ∈ (absL ns).take n, x.2 = true)
    (hoff : ∀ nd ∈ ns, nd.off ≤ nd.buf.length) :
    ∃ ns' k, skipLoop ns n = some (ns', k) ∧ absL (ns'.drop k) = (absL ns).drop n ∧ AdvL ns ns' ∧
      ∃ nd, ns[k]? = some nd ∧ 0 < nd.len := by
  induction ns generalizing n with
  | nil => simp at hlen; omega
  | cons nd rest ih =>
    unfold skipLoop
    have hoff' : ∀ x ∈ rest, x.off ≤ x.buf.length := fun x hx => hoff x (List.mem_cons_of_mem _ hx)
    have hnd := hoff nd (List.mem_cons_self ..)
    by_cases hge : nd.len ≥ n
    · simp only [hge, if_true]
      refine ⟨_, 0, rfl, ?_, ?_, nd, by simp, by omega⟩
      · simp only [List.drop_zero, absL_cons]
        rw [Node.abs_adv nd { nd with off := nd.off + n } n rfl rfl rfl rfl hge]
        rw [List.drop_append_of_le_length (Nat.le_trans hge (Node.abs_length_ge nd))]
      · exact AdvL.cons ⟨rfl, rfl, rfl, rfl, rfl, by simp, by simp [Node.len] at hge ⊢; omega⟩ (AdvL.refl hoff')
    · simp only [hge, if_false]
      have hlt : nd.len < n := by omega
      obtain ⟨t1, t2, t3, _⟩ := stream_tail nd rest n hlt hlen hfl
      obtain ⟨ns', k, e, ha, hadv, x, hx, hx0⟩ := ih (n - nd.len) (by omega) t1 t2 hoff'
      rw [e]
      refine ⟨_, _, rfl, ?_, AdvL.cons (Adv.rfl' hnd) hadv, x, by simpa using hx, hx0⟩
      simp only [List.drop_succ_cons]
      rw [ha, t3]

/-! ### Next / readBinary -/

theorem nextLoop_spec (ns : List (Node α)) (n : Nat) (hn : 0 < n)
    (hlen : n ≤ (absL ns).length) (hfl : ∀ x ∈ (absL ns).take n, x.2 = true)
    (hoff : ∀ nd ∈ ns, nd.off ≤ nd.buf.length) :
    ∃ bs ns' k, nextLoop ns n = some (bs, ns', k) ∧ bs = ((absL ns).take n).map (·.1) ∧
      absL (ns'.drop k) = (absL ns).drop n ∧ AdvL ns ns' ∧ ∃ nd, ns[k]? = some nd ∧ 0 < nd.len := by
  induction ns generalizing n with
  | nil => simp at hlen; omega
  | cons nd rest ih =>
    unfold nextLoop
    have hoff' : ∀ x ∈ rest, x.off ≤ x.buf.length := fun x hx => hoff x (List.mem_cons_of_mem _ hx)
    have hnd := hoff nd (List.mem_cons_self ..)
    by_cases hge : nd.len ≥ n
    · simp only [hge, if_true]
      refine ⟨_, _, 0, rfl, ?_, ?_, ?_, nd, by simp, by omega⟩
      · simp only [absL_cons, Node.next]
        rw [Node.abs_take nd _ n hge]; rfl
      · simp only [List.drop_zero, absL_cons]
        rw [Node.abs_adv nd (nd.next n).2 n rfl rfl rfl rfl hge]
        rw [List.drop_append_of_le_length (Nat.le_trans hge (Node.abs_length_ge nd))]
      · exact AdvL.cons ⟨rfl, rfl, rfl, rfl, rfl, by simp [Node.next], by simp [Node.len, Node.next] at hge ⊢; omega⟩
          (AdvL.refl hoff')
    · simp only [hge, if_false]
      have hlt : nd.len < n := by omega
      obtain ⟨t1, t2, t3, t4⟩ := stream_tail nd rest n hlt hlen hfl
      obtain ⟨bs, ns', k, e, hb, ha, hadv, x, hx, hx0⟩ := ih (n - nd.len) (by omega) t1 t2 hoff'
      rw [e]
      refine ⟨_, _, _, rfl, ?_, ?_, AdvL.cons ?_ hadv, x, by simpa using hx, hx0⟩
      · rw [t4, hb]
        simp only [Node.next, Node.readable, Node.len]
        rw [List.take_of_length_le (by simp)]
      · simp only [List.drop_succ_cons]
        rw [ha, t3]
      · split
        · exact ⟨rfl, rfl, rfl, rfl, rfl, by simp [Node.next], by simp [Node.len, Node.next]; omega⟩
        · exact Adv.rfl' hnd

end Netpoll.Buf
