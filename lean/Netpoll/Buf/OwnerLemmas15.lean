import Netpoll.Buf.OwnerLemmas14
/-! Lemmas about the ownership ledger, part 15: the reference-count invariant through Slice, readCopy, Close. -/
namespace Netpoll.Buf.Own
open Netpoll.Buf

theorem expose_refer_rc {cfg : Cfg} {m m' : Mem} {C : List Nat} {i n c : Nat} {nd : NodeS} (h : Rc m C) (hi : i ∈ C)
    (hn : m.nodes[i]? = some nd) (hr : (m.setNode i { nd with exposed := true }).refer cfg i n = some (m', c)) :
    Rc m' (c :: C) :=
  (refer_rc (h.setNode_same' { nd with exposed := true } hn rfl rfl rfl rfl rfl) hi hr).1

theorem sliceLoop_rc {cfg : Cfg} : ∀ (l : List Nat) {m m' : Mem} {C : List Nat} {ack k : Nat} {cs : List Nat},
    Rc m C → (∀ i ∈ l, i ∈ C) → sliceLoop cfg m l ack = some (m', cs, k) → Rc m' (cs ++ C)
  | [], m, m', C, ack, k, cs, _, _, h => by simp [sliceLoop] at h
  | i :: rest, m, m', C, ack, k, cs, hrc, hsub, h => by
    unfold sliceLoop at h
    have hi : i ∈ C := hsub i List.mem_cons_self
    have hrest : ∀ j ∈ rest, j ∈ C := fun j hj => hsub j (List.mem_cons_of_mem _ hj)
    split at h
    · cases h
    · rename_i nd hn
      split at h
      · split at h
        · cases h
        · rename_i m1 c hr
          cases h
          exact expose_refer_rc hrc hi hn hr
      · split at h
        · split at h
          · cases h
          · rename_i m1 c hr
            have h1 := expose_refer_rc hrc hi hn hr
            split at h
            · cases h
            · rename_i m2 cs2 k2 hl
              cases h
              have h2 := sliceLoop_rc rest h1 (fun j hj => List.mem_cons_of_mem _ (hrest j hj)) hl
              exact h2.perm (by simp only [List.cons_append]; exact List.perm_middle.symm)
        · split at h
          · cases h
          · rename_i m2 cs2 k2 hl
            cases h
            exact sliceLoop_rc rest hrc hrest hl

/-- the chain of the reader `Slice` made (if any) -/
def optChain : Option Buf → List Nat
  | some cb => cb.chain
  | none => []

theorem slice_rc {cfg : Cfg} {m m' : Mem} {b b' : Buf} {n : Int} {c : Option Buf} {R : List Nat} (h : Rc m (b.chain ++ R))
    (hr : slice cfg m b n = some (m', b', c)) : Rc m' (b'.chain ++ (optChain c ++ R)) := by
  unfold slice at hr
  split at hr
  · cases hr
    have := newNode_rc (cfg := cfg) 0 h
    exact this.perm (by simp only [newBuf, optChain, List.singleton_append]; exact List.perm_middle)
  · dsimp only at hr
    split at hr
    · cases hr; simpa [optChain] using h
    · have hc1 := consumeLen_chain' b n.toNat
      generalize b.consumeLen n.toNat = b1 at hr hc1
      split at hr
      · cases hr
      · rename_i b2 i nd hs
        obtain ⟨hn, _, _, hc2⟩ := isSingleNode_spec hs
        have hi : i ∈ b.chain ++ R := List.mem_append_left _ (hc1 ▸ isSingleNode_mem hs)
        split at hr
        · cases hr
        · rename_i m1 c1 hrf
          cases hr
          have := expose_refer_rc h hi hn hrf
          rw [hc2, hc1]
          exact this.perm (by simp only [optChain, sliceBuf, List.singleton_append]; exact List.perm_middle)
      · rename_i b2 i nd hs
        obtain ⟨hn, _, _, hc2⟩ := isSingleNode_spec hs
        have hi : i ∈ b.chain ++ R := List.mem_append_left _ (hc1 ▸ isSingleNode_mem hs)
        split at hr
        · cases hr
        · rename_i m1 c1 hrf
          have h1 := expose_refer_rc h hi hn hrf
          split at hr
          · cases hr
          · rename_i m2 cs k hl
            have h2 := sliceLoop_rc _ h1 (fun j hj => by
              have : j ∈ b2.chain := List.mem_of_mem_drop hj
              rw [hc2, hc1] at this
              exact List.mem_cons_of_mem _ (List.mem_append_left _ this)) hl
            split at hr
            · cases hr
            · rename_i m3 b3 hrel
              cases hr
              -- the parent releases what it consumed; the children stay
              have h3 : Rc m2 (({ b2 with r := b2.r + 1 + k } : Buf).chain ++ ((c1 :: cs) ++ R)) := by
                refine h2.perm ?_
                simp only [hc2, hc1]
                have : (cs ++ c1 :: (b.chain ++ R)).Perm (b.chain ++ (c1 :: cs ++ R)) := by
                  have e1 : (cs ++ c1 :: (b.chain ++ R)).Perm (c1 :: cs ++ (b.chain ++ R)) := by
                    simp only [List.cons_append]; exact List.perm_middle
                  have e2 : (c1 :: cs ++ (b.chain ++ R)).Perm (b.chain ++ (c1 :: cs ++ R)) := by
                    rw [← List.append_assoc, ← List.append_assoc]
                    exact List.Perm.append_right R List.perm_append_comm
                  exact e1.trans e2
                exact this.symm
              exact releaseCore_rc h3 hrel

theorem dropUnexposed_rc {cfg : Cfg} : ∀ (l : List Nat) {m m' : Mem} {R kept : List Nat},
    Rc m (l ++ R) → dropUnexposed cfg m l = some (m', kept) → Rc m' (kept ++ R)
  | [], m, m', R, kept, h, hr => by simp [dropUnexposed] at hr; obtain ⟨rfl, rfl⟩ := hr; simpa using h
  | i :: rest, m, m', R, kept, h, hr => by
    unfold dropUnexposed at hr
    split at hr
    · cases hr
    · split at hr
      · split at hr
        · cases hr
        · rename_i m1 k1 hd
          cases hr
          have h1 : Rc m (rest ++ (i :: R)) := h.perm (by simp only [List.cons_append]; exact List.perm_middle)
          have h2 := dropUnexposed_rc rest h1 hd
          exact h2.perm (by simp only [List.cons_append]; exact List.perm_middle.symm)
      · split at hr
        · cases hr
        · rename_i m1 hrel
          exact dropUnexposed_rc rest (release1_rc (C := rest ++ R) (by simpa using h) hrel) hr

theorem readCopy_rc {cfg : Cfg} {m m' : Mem} {id : Nat} {b b' : Buf} {l : Nat} {R : List Nat} (h : Rc m (b.chain ++ R))
    (hr : readCopy cfg m id b l = some (m', b')) : Rc m' (b'.chain ++ R) := by
  unfold readCopy at hr
  split at hr
  · cases hr; exact h
  · dsimp only at hr
    generalize (if b.length < l then b.length else l) = l1 at hr
    have h1 := h.allocBlock .gc l1
    generalize m.allocBlock .gc l1 = p at hr h1
    obtain ⟨m1, blk⟩ := p
    simp only at hr h1
    have h2 := (h1.emit (.write blk 0 l1)).addView (some blk) 0 l1 id true
    generalize (m1.emit (.write blk 0 l1)).addView (some blk) 0 l1 id true = m2 at hr h2
    split at hr
    · cases hr
    · rename_i m3 b3 ho
      obtain ⟨h3, hc3⟩ := onReadSuffix_rc (fun l l' k => copyLoop_sz l _) h2 ho
      have hc : b3.chain = b.chain := by rw [hc3, consumeLen_chain']
      split at hr
      · cases hr
      · split at hr
        · cases hr
        · rename_i r' _
          split at hr
          · cases hr
          · split at hr
            · cases hr
            · rename_i m4 kept hd
              cases hr
              have h4 : Rc m3 (b3.chain.take r' ++ (b3.chain.drop r' ++ R)) := by
                rw [← List.append_assoc, List.take_append_drop, hc]; exact h3
              have h5 := dropUnexposed_rc _ h4 hd
              simpa [List.append_assoc] using h5

theorem close_rc {cfg : Cfg} {m m' : Mem} {id : Nat} {b b' : Buf} {R : List Nat} (h : Rc m (b.chain ++ R))
    (hr : close cfg m id b = some (m', b')) : Rc m' (b'.chain ++ R) := by
  unfold close at hr
  split at hr
  · cases hr
  · rename_i m1 b1 hrc
    have h1 := releaseCore_rc (b := { b with length := 0, mallocSize := 0 }) h hrc
    split at hr
    · cases hr
    · rename_i m2 hra
      cases hr
      exact (releaseAll_rc _ h1 hra).endViews _

end Netpoll.Buf.Own
