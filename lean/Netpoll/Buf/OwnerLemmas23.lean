import Netpoll.Buf.OwnerLemmas22
/-! Lemmas about the ownership ledger, part 23: the methods that end views (Release, Close, Slice, Append) only need the
frame property; the views invariant `ViewsOK` of the whole ledger through `step`. -/
namespace Netpoll.Buf.Own
open Netpoll.Buf

/-- what a view-ending method does to everybody else: kinds and frame kept, no view added -/
structure FS (m m' : Mem) : Prop where
  ext : Ext m m'
  frame : Frame m m'
  views : m'.views = m.views

theorem FS.refl (m : Mem) : FS m m := ⟨Ext.refl m, Frame.refl m, rfl⟩
theorem FS.trans {m m1 m' : Mem} (h1 : FS m m1) (h2 : FS m1 m') : FS m m' :=
  ⟨h1.ext.trans h2.ext, h1.frame.trans h2.frame, by rw [h2.views, h1.views]⟩

theorem releaseAll_fs {cfg : Cfg} : ∀ (l : List Nat) {m m' : Mem}, m.releaseAll cfg l = some m' → FS m m'
  | [], m, m', h => by simp [Mem.releaseAll] at h; subst h; exact FS.refl _
  | i :: rest, m, m', h => by
    unfold Mem.releaseAll at h
    cases h1 : m.release1 cfg i with
    | none => simp [h1] at h
    | some m1 =>
      simp only [h1] at h
      exact FS.trans ⟨nodeRelease_ext _ h1, nodeRelease_frame _ h1, nodeRelease_views _ h1⟩ (releaseAll_fs rest h)

theorem freeMem_fs (cfg : Cfg) (m : Mem) (blk : Option Nat) (c : Nat) : FS m (m.freeMem cfg blk c) :=
  ⟨freeMem_ext cfg m blk c, Frame.of_nodes_eq (freeMem_nodes cfg m blk c), by
    rcases freeMem_cases cfg m blk c with e | ⟨_, _, _, _, _, e⟩ <;> rw [e]⟩

theorem freeCaches_fs (cfg : Cfg) : ∀ (l : List Nat) (m : Mem), FS m (freeCaches cfg m l)
  | [], m => FS.refl m
  | blk :: rest, m => by unfold freeCaches; exact (freeMem_fs cfg m _ _).trans (freeCaches_fs cfg rest _)

theorem releaseCore_fs {cfg : Cfg} {m m' : Mem} {b b' : Buf} (h : releaseCore cfg m b = some (m', b')) : FS m m' := by
  unfold releaseCore at h
  split at h
  · cases h
  · split at h
    · cases h
    · split at h
      · cases h
      · split at h
        · cases h
        · rename_i m1 hr
          cases h
          have f1 := (releaseAll_fs _ hr).trans (freeCaches_fs cfg b.caches m1)
          split
          · exact f1.trans (freeMem_fs cfg _ _ _)
          · exact f1

theorem close_fs {cfg : Cfg} {m m' : Mem} {id : Nat} {b b' : Buf} (h : close cfg m id b = some (m', b')) :
    ∃ m0, FS m m0 ∧ m' = m0.endViews id := by
  unfold close at h
  split at h
  · cases h
  · rename_i m1 b1 hrc
    split at h
    · cases h
    · rename_i m2 hra
      cases h
      exact ⟨m2, (releaseCore_fs hrc).trans (releaseAll_fs _ hra), rfl⟩

theorem release_fs {cfg : Cfg} {m m' : Mem} {id : Nat} {b b' : Buf} (h : release cfg m id b = some (m', b')) :
    ∃ m0, FS m m0 ∧ m' = m0.endViews id := by
  unfold release at h
  split at h
  · cases h
  · rename_i m1 b1 hrc
    cases h
    exact ⟨m1, releaseCore_fs hrc, rfl⟩

theorem refer_fs {cfg : Cfg} {m m' : Mem} {i n c : Nat} (h : m.refer cfg i n = some (m', c)) : FS m m' := by
  refine ⟨?_, refer_frame h, ?_⟩
  · unfold Mem.refer at h
    split at h
    · cases h
    · dsimp only at h
      split at h
      · cases h
      · simp only [Option.some.injEq, Prod.mk.injEq] at h
        obtain ⟨rfl, _⟩ := h
        exact (newNode_ext cfg m 0).trans ((setNode_ext _ _ _).trans ((setNode_ext _ _ _).trans (setNode_ext _ _ _)))
  · unfold Mem.refer at h
    split at h
    · cases h
    · dsimp only at h
      split at h
      · cases h
      · simp only [Option.some.injEq, Prod.mk.injEq] at h
        obtain ⟨rfl, _⟩ := h
        simp [Mem.setNode, newNode_views]

theorem expose_refer_fs {cfg : Cfg} {m m' : Mem} {i n c : Nat} {nd : NodeS} (hn : m.nodes[i]? = some nd)
    (h : (m.setNode i { nd with exposed := true }).refer cfg i n = some (m', c)) : FS m m' :=
  FS.trans (m1 := m.setNode i { nd with exposed := true })
    ⟨setNode_ext _ _ _, Frame.setNode hn (fun _ => rfl) (Nat.le_refl _) (fun _ => rfl), rfl⟩ (refer_fs h)

theorem sliceLoop_fs {cfg : Cfg} : ∀ (l : List Nat) {m m' : Mem} {ack k : Nat} {cs : List Nat},
    sliceLoop cfg m l ack = some (m', cs, k) → FS m m'
  | [], m, m', ack, k, cs, h => by simp [sliceLoop] at h
  | i :: rest, m, m', ack, k, cs, h => by
    unfold sliceLoop at h
    split at h
    · cases h
    · rename_i nd hn
      split at h
      · split at h
        · cases h
        · rename_i m1 c hr
          cases h
          exact expose_refer_fs hn hr
      · split at h
        · split at h
          · cases h
          · rename_i m1 c hr
            split at h
            · cases h
            · rename_i m2 cs2 k2 hl
              cases h
              exact (expose_refer_fs hn hr).trans (sliceLoop_fs rest hl)
        · split at h
          · cases h
          · rename_i m2 cs2 k2 hl
            cases h
            exact sliceLoop_fs rest hl

theorem slice_fs {cfg : Cfg} {m m' : Mem} {b b' : Buf} {n : Int} {c : Option Buf} (h : slice cfg m b n = some (m', b', c)) : FS m m' := by
  unfold slice at h
  split at h
  · cases h
    exact ⟨newNode_ext cfg m 0, newNode_frame cfg m 0, newNode_views cfg m 0⟩
  · dsimp only at h
    split at h
    · cases h; exact FS.refl _
    · generalize b.consumeLen n.toNat = b1 at h
      split at h
      · cases h
      · rename_i b2 i nd hs
        obtain ⟨hn, _⟩ := isSingleNode_spec hs
        split at h
        · cases h
        · rename_i m1 c1 hr
          cases h
          exact expose_refer_fs hn hr
      · rename_i b2 i nd hs
        obtain ⟨hn, _⟩ := isSingleNode_spec hs
        split at h
        · cases h
        · rename_i m1 c1 hr
          split at h
          · cases h
          · rename_i m2 cs k hl
            split at h
            · cases h
            · rename_i m3 b3 hrel
              cases h
              exact (expose_refer_fs hn hr).trans ((sliceLoop_fs _ hl).trans (releaseCore_fs hrel))

/-- `WriteBuffer`: frame; the receiver keeps its caches and, with a clean tail, its exposed structs -/
theorem writeBuffer_fs {cfg : Cfg} {m m' : Mem} {b d b' d' : Buf} (h : writeBuffer cfg m b d = some (m', b', d')) :
    FS m m' ∧ b'.caches = b.caches ∧ b'.cachePeek = b.cachePeek ∧
    (TailClean m b → ∀ i ∈ b.chain, (∃ nd : NodeS, m.nodes[i]? = some nd ∧ nd.exposed = true) → i ∈ b'.chain) := by
  unfold writeBuffer at h
  split at h
  · cases h; exact ⟨FS.refl _, rfl, rfl, fun _ _ hi _ => hi⟩
  · split at h
    · cases h
    · split at h
      · cases h
      · split at h
        · cases h
        · dsimp only at h
          split at h
          · cases h
          · rename_i m1 h1
            split at h
            · cases h
            · rename_i m2 h2
              cases h
              refine ⟨(releaseAll_fs _ h1).trans (releaseAll_fs _ h2), rfl, rfl, fun ht i hi hx => ?_⟩
              show i ∈ b.chain.take (b.w + 1) ++ _
              rw [← List.take_append_drop (b.w + 1) b.chain] at hi
              rcases List.mem_append.1 hi with hi | hi
              · exact List.mem_append_left _ hi
              · obtain ⟨nd, g1, g2⟩ := hx
                rw [ht i hi nd g1] at g2; cases g2

end Netpoll.Buf.Own
