import Netpoll.Buf.OwnerLemmas12
/-! Lemmas about the ownership ledger, part 13: `node.Refer()` and `newLinkBufferNode` keep the reference-count invariant. -/
namespace Netpoll.Buf.Own
open Netpoll.Buf

/-- a fresh struct becomes a child of the live, origin-less struct `o` whose count goes up by one -/
theorem Rc.add_child {m : Mem} {C : List Nat} {c o : Nat} {fr on child : NodeS} (h : Rc m (c :: C))
    (hc : m.nodes[c]? = some fr) (hfr : fr.origin = none) (hfr1 : fr.refer = 1)
    (hon : m.nodes[o]? = some on) (horig : on.origin = none) (holive : on.recycled = 0) (hoc : o ≠ c)
    (h1 : child.origin = some o) (h2 : child.recycled = 0) (h3 : child.refer = 1) (h4 : child.unmanaged = true)
    (h5 : child.block = on.block) :
    Rc ((m.setNode c child).setNode o { on with refer := on.refer + 1 }) (c :: C) := by
  have hfrlive : fr.recycled = 0 := h.chained_live hc List.mem_cons_self
  have rc := h.node c fr hc
  have hlc := rc.live hfrlive
  rw [inC_cons_self, hfr1] at hlc
  have hchc : m.ch c = 0 := by omega
  have hclfr : ∀ x, fr.claims x = false := fun x => by simp [NodeS.claims, hfr]
  have hclch : ∀ x, child.claims x = decide (x = o) := fun x => by
    simp only [NodeS.claims, h2, h1, beq_self_eq_true, Bool.true_and]
    by_cases hx : x = o
    · subst hx; simp
    · have : ¬ o = x := fun e => hx e.symm
      simp [hx, this]
  have hch1 : ∀ x, (m.setNode c child).ch x = m.ch x + (if x = o then 1 else 0) := fun x => by
    have := ch_setNode child hc x
    rw [hclfr, hclch] at this
    simpa using this
  have hon1 : (m.setNode c child).nodes[o]? = some on := by
    simp only [Mem.setNode]; rw [List.getElem?_set_ne (fun e => hoc e.symm)]; exact hon
  have hch2 : ∀ x, ((m.setNode c child).setNode o { on with refer := on.refer + 1 }).ch x = m.ch x + (if x = o then 1 else 0) := fun x => by
    rw [ch_setNode_same (nd' := { on with refer := on.refer + 1 }) hon1 rfl rfl, hch1]
  have hgeto : ((m.setNode c child).setNode o { on with refer := on.refer + 1 }).nodes[o]? = some { on with refer := on.refer + 1 } := by
    simp only [Mem.setNode]; exact List.getElem?_set_self (by simp only [List.length_set]; exact lt_of_getElem? hon)
  have hget2 : ∀ (j : Nat) (x : NodeS), j ≠ c → j ≠ o → m.nodes[j]? = some x →
      ((m.setNode c child).setNode o { on with refer := on.refer + 1 }).nodes[j]? = some x := by
    intro j x ha hb hx
    simp only [Mem.setNode]
    rw [List.getElem?_set_ne (fun e => hb e.symm), List.getElem?_set_ne (fun e => ha e.symm)]; exact hx
  have ro := h.node o on hon
  refine ⟨h.nodup, fun j hj => by simp only [Mem.setNode, List.length_set]; exact h.inb j hj, fun j x hx => ?_⟩
  rcases getElem?_setNode hx with ⟨rfl, rfl, _⟩ | ⟨hjo, hx1⟩
  · -- the origin
    refine ⟨ro.once, fun _ => ?_, fun hd => by simp only at hd; omega, fun o' ho' => (by simp only at ho'; rw [horig] at ho'; cases ho'),
      fun hu hoo k hk => ro.caller hu hoo k hk⟩
    have := ro.live holive
    rw [hch2]; simp only [if_true]
    omega
  · rcases getElem?_setNode hx1 with ⟨rfl, rfl, _⟩ | ⟨hjc, hx0⟩
    · -- the new child
      refine ⟨by omega, fun _ => ?_, fun hd => by omega, fun o' ho' _ => ?_, fun _ hoo => (by rw [h1] at hoo; cases hoo)⟩
      · rw [hch2, inC_cons_self, hchc, h3]; simp [hjo]
      · rw [h1] at ho'; cases ho'
        exact ⟨hoc, h4, by omega, _, hgeto, horig, h5.symm⟩
    · have rx := h.node j x hx0
      refine ⟨rx.once, fun h0 => ?_, fun hd => ?_, fun o' ho' h0 => ?_, rx.caller⟩
      · rw [hch2]; simp only [hjo, if_false, Nat.add_zero]; exact rx.live h0
      · obtain ⟨a, b, cc, d, e⟩ := rx.dead hd
        exact ⟨a, b, by rw [hch2]; simp only [hjo, if_false, Nat.add_zero]; exact cc, d, e⟩
      · obtain ⟨a, b, cc, on2, d, e, f⟩ := rx.child o' ho' h0
        have hxcl : x.claims o' = true := by simp [NodeS.claims, h0, ho']
        by_cases ho'c : o' = c
        · subst ho'c
          have := countP_pos_of_get (·.claims o') _ j x hx0 hxcl
          unfold Mem.ch at hchc; omega
        · by_cases ho'o : o' = o
          · subst ho'o
            rw [hon] at d; cases d
            exact ⟨a, b, cc, _, hgeto, horig, f⟩
          · exact ⟨a, b, cc, on2, hget2 o' on2 ho'c ho'o d, e, f⟩

theorem mallocMem_ext (cfg : Cfg) (m : Mem) (c : Nat) : Ext m (m.mallocMem cfg c).1 := by
  unfold Mem.mallocMem; split <;> exact allocBlock_ext _ _ _

theorem mallocMem_nodes (cfg : Cfg) (m : Mem) (c : Nat) : (m.mallocMem cfg c).1.nodes = m.nodes := by
  unfold Mem.mallocMem; split <;> simp [Mem.allocBlock]

/-- `newLinkBufferNode`: the fresh struct can be chained at once -/
theorem newNode_rc {cfg : Cfg} {m : Mem} {C : List Nat} (size : Nat) (h : Rc m C) :
    Rc (m.newNode cfg size).1 ((m.newNode cfg size).2 :: C) := by
  obtain ⟨h1, h2⟩ := newNode_cases cfg m size
  rw [h1]
  rcases h2 with ⟨_, h2⟩ | ⟨_, c, h2⟩
  · rw [h2]; exact h.append_fresh rfl rfl rfl (fun _ => rfl)
  · rw [h2]
    have hn := mallocMem_nodes cfg m c
    have := (h.of_nodes_eq hn (mallocMem_ext cfg m c)).append_fresh (nd := { block := some (m.mallocMem cfg c).2.1, cap := (m.mallocMem cfg c).2.2 }) rfl rfl rfl
      (fun hu => by cases hu)
    rw [hn] at this
    rw [hn]
    exact this

theorem newNode_rc' {cfg : Cfg} {m : Mem} {C : List Nat} (size : Nat) (h : Rc m C) : Rc (m.newNode cfg size).1 C :=
  (newNode_rc size h).mono h.nodup (fun x hx => List.mem_cons_of_mem _ hx)

theorem newNode0_get (cfg : Cfg) (m : Mem) : (m.newNode cfg 0).1.nodes[(m.newNode cfg 0).2]? = some { unmanaged := true } := by
  obtain ⟨h1, h2⟩ := newNode_cases cfg m 0
  rcases h2 with ⟨_, h2⟩ | ⟨h0, _⟩
  · rw [h2, h1]; simp
  · exact absurd rfl h0

/-- `node.Refer(n)` on a chained struct: the child can be chained at once -/
theorem refer_rc {cfg : Cfg} {m m' : Mem} {C : List Nat} {i n c : Nat} (h : Rc m C) (hi : i ∈ C)
    (hr : m.refer cfg i n = some (m', c)) : Rc m' (c :: C) ∧ c = m.nodes.length := by
  unfold Mem.refer at hr
  cases hn : m.nodes[i]? with
  | none => simp [hn] at hr
  | some nd =>
    simp only [hn] at hr
    have hid := (newNode_cases cfg m 0).1
    have hlive : nd.recycled = 0 := h.chained_live hn hi
    have hic : i ≠ (m.newNode cfg 0).2 := by rw [hid]; exact Nat.ne_of_lt (lt_of_getElem? hn)
    -- the fresh struct, then the parent's cursor
    have r0 := newNode_rc (cfg := cfg) 0 h
    have hn0 : (m.newNode cfg 0).1.nodes[i]? = some nd := newNode_nodes_get cfg m 0 i nd hn
    have rA := r0.setNode_same (nd' := { nd with off := nd.off + n }) hn0 rfl rfl rfl rfl rfl
    have hcA : ((m.newNode cfg 0).1.setNode i { nd with off := nd.off + n }).nodes[(m.newNode cfg 0).2]? = some { unmanaged := true } := by
      simp only [Mem.setNode]; rw [List.getElem?_set_ne hic]; exact newNode0_get cfg m
    -- the order of the two writes does not matter
    have hcomm : (((m.newNode cfg 0).1.setNode (m.newNode cfg 0).2 (nd.childOf i n)).setNode i { nd with off := nd.off + n }).nodes =
        (((m.newNode cfg 0).1.setNode i { nd with off := nd.off + n }).setNode (m.newNode cfg 0).2 (nd.childOf i n)).nodes := by
      simp only [Mem.setNode]
      exact List.set_comm _ _ (fun e => hic e.symm)
    split at hr
    · cases hr
    · rename_i on hon
      simp only [Option.some.injEq, Prod.mk.injEq] at hr
      obtain ⟨hr, hcid⟩ := hr
      subst hr
      refine ⟨?_, by rw [← hcid, hid]⟩
      rw [← hcid]
      rw [hcomm] at hon
      have horange : nd.originOf i < m.nodes.length := by
        cases ho : nd.origin with
        | none => simp only [NodeS.originOf, ho]; exact lt_of_getElem? hn
        | some o =>
          simp only [NodeS.originOf, ho]
          obtain ⟨_, _, _, on0, d, _⟩ := (h.node i nd hn).child o ho hlive
          exact lt_of_getElem? d
      have hoc : nd.originOf i ≠ (m.newNode cfg 0).2 := by
        intro e
        rw [e, hid] at horange
        exact Nat.lt_irrefl _ horange
      have honA : ((m.newNode cfg 0).1.setNode i { nd with off := nd.off + n }).nodes[nd.originOf i]? = some on := by
        simp only [Mem.setNode] at hon ⊢
        rw [List.getElem?_set_ne (fun e => hoc e.symm)] at hon; exact hon
      -- facts about the origin
      have hfacts : on.origin = none ∧ on.recycled = 0 ∧ on.block = nd.block := by
        cases ho : nd.origin with
        | none =>
          have e : nd.originOf i = i := by simp [NodeS.originOf, ho]
          rw [e] at honA
          simp only [Mem.setNode] at honA
          rw [List.getElem?_set_self (lt_of_getElem? hn0)] at honA
          cases honA
          exact ⟨ho, hlive, rfl⟩
        | some o =>
          have e : nd.originOf i = o := by simp [NodeS.originOf, ho]
          obtain ⟨hoi, _, _, on0, d, e1, e2⟩ := (h.node i nd hn).child o ho hlive
          rw [e] at honA
          simp only [Mem.setNode] at honA
          rw [List.getElem?_set_ne (fun e' => hoi e'.symm)] at honA
          have d0 := newNode_nodes_get cfg m 0 o on0 d
          rw [d0] at honA; cases honA
          have hcho : 0 < m.ch o := by
            unfold Mem.ch
            exact countP_pos_of_get (fun x : NodeS => x.claims o) _ i nd hn (by simp [NodeS.claims, hlive, ho])
          exact ⟨e1, h.origin_live d hcho, e2⟩
      obtain ⟨f1, f2, f3⟩ := hfacts
      have key := rA.add_child hcA rfl rfl honA f1 f2 hoc (child := nd.childOf i n) rfl rfl rfl rfl (by simp [NodeS.childOf, f3])
      refine key.of_nodes_eq ?_ (Ext.of_blocks_eq rfl)
      simp only [Mem.setNode] at hcomm ⊢
      rw [hcomm]

end Netpoll.Buf.Own
