import Netpoll.Buf.OwnerLemmas9
/-! Lemmas about the ownership ledger, part 10: the token relation through the writer side; `Tok` through `step`/`run`. -/
namespace Netpoll.Buf.Own
open Netpoll.Buf

theorem growthLoop_memB {cfg : Cfg} {n : Nat} : ∀ (l : List Nat) {m m' : Mem} {suf : List Nat} {w w' : Nat},
    growthLoop cfg n m l w = some (m', suf, w') → MemB m m'
  | [], m, m', suf, w, w', h => by simp [growthLoop] at h
  | [i], m, m', suf, w, w', h => by
    unfold growthLoop at h
    split at h
    · cases h
    · split at h
      · have g := newNode_memB cfg m n
        generalize m.newNode cfg n = p at h g
        obtain ⟨m1, c⟩ := p
        simp only [Option.some.injEq, Prod.mk.injEq] at h
        obtain ⟨rfl, _, _⟩ := h
        exact g
      · simp only [Option.some.injEq, Prod.mk.injEq] at h
        obtain ⟨rfl, _, _⟩ := h
        exact MemB.refl _
  | i :: j :: rest, m, m', suf, w, w', h => by
    unfold growthLoop at h
    split at h
    · cases h
    · split at h
      · split at h
        · cases h
        · rename_i m1 suf1 w1 hg
          simp only [Option.some.injEq, Prod.mk.injEq] at h
          obtain ⟨rfl, _, _⟩ := h
          exact growthLoop_memB (j :: rest) hg
      · simp only [Option.some.injEq, Prod.mk.injEq] at h
        obtain ⟨rfl, _, _⟩ := h
        exact MemB.refl _

theorem growth_tok {cfg : Cfg} {m m' : Mem} {b b' : Buf} {n : Nat} (h : growth cfg m b n = some (m', b')) :
    MemB m m' ∧ ∀ k, b'.own k = b.own k := by
  unfold growth at h
  split at h
  · cases h; exact ⟨MemB.refl _, fun _ => rfl⟩
  · split at h
    · cases h
    · rename_i m1 suf w' hg
      cases h
      exact ⟨growthLoop_memB _ hg, fun _ => rfl⟩

theorem writeNodeMalloc_memB {m m' : Mem} {b : Buf} {n : Nat} (h : writeNodeMalloc m b n = some m') : MemB m m' := by
  unfold writeNodeMalloc at h
  split at h
  · cases h
  · split at h
    · cases h
    · rename_i i _ nd hn
      have g := setNode_memB_same (nd' := { nd with malloc := nd.malloc + n }) hn rfl rfl
      split at h
      · cases h; exact g.trans (emit_memB _ _)
      · cases h; exact g

theorem malloc_tok {cfg : Cfg} {m m' : Mem} {b b' : Buf} {n : Int} (h : malloc cfg m b n = some (m', b')) : TokB m b m' b' := by
  unfold malloc at h
  split at h
  · cases h; exact TokB.refl _ _
  · split at h
    · cases h
    · rename_i m1 b1 hg
      obtain ⟨g1, hb⟩ := growth_tok hg
      split at h
      · cases h
      · rename_i m2 hw
        cases h
        exact (g1.trans (writeNodeMalloc_memB hw)).tok (fun k => by rw [hb k]; rfl)

/-- writing back structs whose ownership fields equal those in the table -/
theorem putAll_memB_sig {m : Mem} {l : List (Nat × NodeS)} (h : SigOK m l) : MemB m (m.putAll l) :=
  memB_of_own_eq (putAll_len _ _) (putAll_own _ h)

theorem sigOK_map {m : Mem} {ch : List Nat} {suf : List (Nat × NodeS)} (hr : m.resolve ch = some suf) (f : NodeS → NodeS)
    (h1 : ∀ nd, (f nd).unmanaged = nd.unmanaged) (h2 : ∀ nd, (f nd).block = nd.block) :
    SigOK m (suf.map fun p => (p.1, f p.2)) := by
  intro p hp
  obtain ⟨q, hq, rfl⟩ := List.mem_map.1 hp
  exact ⟨q.2, resolve_mem _ hr q hq, h1 _, h2 _⟩

theorem mallocAck_tok {m m' : Mem} {b b' : Buf} {n : Int} (h : mallocAck m b n = some (m', b')) : TokB m b m' b' := by
  unfold mallocAck at h
  split at h
  · cases h; exact TokB.refl _ _
  · dsimp only at h
    split at h
    · cases h
    · rename_i suf hr
      split at h
      · cases h
      · rename_i suf' k hk
        split at h
        · cases h
        · have g1 := putAll_memB_sz hr (ackLoop_sz _ _ hk)
          split at h
          · cases h
          · rename_i tail ht
            cases h
            have g2 := putAll_memB_sig (sigOK_map ht NodeS.discard (fun _ => rfl) (fun _ => rfl))
            exact (g1.trans g2).tok (fun _ => rfl)

theorem flushCommit_tok {m m' : Mem} {b b' : Buf} (h : flushCommit m b = some (m', b')) : MemB m m' ∧ ∀ k, b'.own k = b.own k := by
  unfold flushCommit at h
  split at h
  · cases h
  · split at h
    · cases h
    · rename_i mid hm
      cases h
      refine ⟨putAll_memB_sig (sigOK_map hm NodeS.commit (fun nd => ?_) (fun nd => ?_)), fun _ => rfl⟩
      · unfold NodeS.commit; split <;> rfl
      · unfold NodeS.commit; split <;> rfl

theorem flush_tok {cfg : Cfg} {m m' : Mem} {b b' : Buf} (h : flush cfg m b = some (m', b')) : TokB m b m' b' := by
  unfold flush at h
  split at h
  · cases h
  · split at h
    · cases h
    · split at h
      · obtain ⟨g, hb⟩ := flushCommit_tok h
        exact ((newNode0_memB cfg m).trans g).tok (fun k => by rw [hb k]; rfl)
      · obtain ⟨g, hb⟩ := flushCommit_tok h
        exact g.tok (fun k => by rw [hb k]; rfl)

/-- `WriteBuffer`: memory tokens do not grow; both buffers keep their caches -/
theorem writeBuffer_tok {cfg : Cfg} {m m' : Mem} {b d b' d' : Buf} (h : writeBuffer cfg m b d = some (m', b', d')) :
    MemB m m' ∧ (∀ k, b'.own k = b.own k) ∧ (∀ k, d'.own k = d.own k) := by
  unfold writeBuffer at h
  split at h
  · cases h; exact ⟨MemB.refl _, fun _ => rfl, fun _ => rfl⟩
  · split at h
    · cases h
    · split at h
      · cases h
      · split at h
        · cases h
        · dsimp only at h
          split at h
          · cases h
          · rename_i m1 h1
            split at h
            · cases h
            · rename_i m2 h2
              cases h
              exact ⟨(releaseAll_memB _ h1).trans (releaseAll_memB _ h2), fun _ => rfl, fun _ => rfl⟩

theorem writeBinary_tok {cfg : Cfg} {m m' : Mem} {b b' : Buf} {n pcap : Nat} (h : writeBinary cfg m b n pcap = some (m', b')) :
    TokB m b m' b' := by
  unfold writeBinary at h
  split at h
  · cases h; exact TokB.refl _ _
  · have g0 := allocBlock_memB m .caller (max pcap n)
    generalize m.allocBlock .caller (max pcap n) = p at h g0
    obtain ⟨m1, cb⟩ := p
    dsimp only at h g0
    split at h
    · split at h
      · cases h
      · have g1 := newNode0_memB cfg m1
        generalize m1.newNode cfg 0 = q at h g1
        obtain ⟨m2, c⟩ := q
        cases h
        exact (g0.trans (g1.trans (setNode_memB_none (owns_unmanaged rfl)))).tok (fun _ => rfl)
    · split at h
      · cases h
      · rename_i m2 b2 hg
        obtain ⟨g1, hb⟩ := growth_tok hg
        split at h
        · cases h
        · rename_i m3 hw
          cases h
          exact (g0.trans (g1.trans (writeNodeMalloc_memB hw))).tok (fun k => by rw [hb k]; rfl)

theorem resetTail_tok {cfg : Cfg} {m m' : Mem} {b b' : Buf} {ms : Nat} (h : resetTail cfg m b ms = some (m', b')) : TokB m b m' b' := by
  unfold resetTail at h
  split at h
  · cases h; exact TokB.refl _ _
  · split at h
    · cases h
    · have g1 := newNode0_memB cfg m
      generalize m.newNode cfg 0 = p at h g1
      obtain ⟨m1, c⟩ := p
      cases h
      exact g1.tok (fun _ => rfl)

theorem getBytesLoop_memB {id : Nat} : ∀ (l : List Nat) {m m' : Mem} {cnt k c : Nat},
    getBytesLoop m id l cnt k = some (m', c) → MemB m m'
  | [], m, m', cnt, k, c, h => by simp [getBytesLoop] at h; obtain ⟨rfl, _⟩ := h; exact MemB.refl _
  | i :: rest, m, m', cnt, k, c, h => by
    unfold getBytesLoop at h
    split at h
    · cases h; exact MemB.refl _
    · split at h
      · cases h
      · rename_i nd hn
        split at h
        · dsimp only at h
          split at h
          · cases h
          · rename_i m2 c2 hl
            cases h
            exact ((setNode_memB_same (nd' := { nd with exposed := true }) hn rfl rfl).trans (addView_memB _ _ _ _ _ _)).trans
              (getBytesLoop_memB rest hl)
        · exact getBytesLoop_memB rest h

theorem getBytes_tok {m m' : Mem} {id : Nat} {b b' : Buf} {k : Nat} (h : getBytes m id b k = some (m', b')) : TokB m b m' b' := by
  unfold getBytes at h
  split at h
  · cases h
  · dsimp only at h
    generalize (if k = 0 then b.f - b.r else k) = k' at h
    split at h
    · cases h
    · rename_i m1 c hl
      have g1 := getBytesLoop_memB _ hl
      split at h
      · split at h
        · cases h
        · split at h
          · cases h
          · rename_i i _ _ fl hn
            cases h
            exact (g1.trans ((setNode_memB_same (nd' := { fl with exposed := true }) hn rfl rfl).trans (addView_memB _ _ _ _ _ _))).tok
              (fun _ => rfl)
      · cases h; exact g1.tok (fun _ => rfl)

/-- replacing a struct adds at most the new struct's token -/
theorem setNode_own_add (m : Mem) (i : Nat) (nd' : NodeS) (k : Nat) :
    (m.setNode i nd').own k ≤ m.own k + (if nd'.owns k then 1 else 0) := by
  unfold Mem.own Mem.nodeOwn Mem.freed Mem.setNode
  simp only
  have key : ∀ (l : List NodeS) (i : Nat), (l.set i nd').countP (·.owns k) ≤ l.countP (·.owns k) + (if nd'.owns k then 1 else 0) := by
    intro l
    induction l with
    | nil => intro i; simp
    | cons y l ih =>
      intro i
      cases i with
      | zero => simp only [List.set_cons_zero, List.countP_cons]; split <;> split <;> omega
      | succ i => simp only [List.set_cons_succ, List.countP_cons]; have := ih i; omega
  have := key m.nodes i
  omega

theorem dataNode_memB (cfg : Cfg) (m : Mem) (cb n ecap : Nat) : MemB m (dataNode cfg m cb n ecap).1 :=
  (newNode0_memB cfg m).trans (setNode_memB_none (owns_unmanaged rfl))

theorem dataNode_get (cfg : Cfg) (m : Mem) (cb n ecap i : Nat) (nd : NodeS) (h : m.nodes[i]? = some nd) :
    (dataNode cfg m cb n ecap).1.nodes[i]? = some nd := by
  unfold dataNode
  have hid := (newNode_cases cfg m 0).1
  have hi : (m.newNode cfg 0).2 ≠ i := by rw [hid]; exact (Nat.ne_of_lt (lt_of_getElem? h)).symm
  simp only [Mem.setNode]; rw [List.getElem?_set_ne hi]; exact newNode_nodes_get cfg m 0 i nd h

/-- WriteDirect's split moves the origin's token (if any) to the tail struct -/
theorem splitNodes_memB {cfg : Cfg} {m : Mem} {o : Nat} {origin : NodeS} (mm : Nat) (ho : m.nodes[o]? = some origin) :
    MemB m (splitNodes cfg m o origin mm).1 := by
  have g0 := newNode0_memB cfg m
  have hid := (newNode_cases cfg m 0).1
  have hi : (m.newNode cfg 0).2 ≠ o := by rw [hid]; exact (Nat.ne_of_lt (lt_of_getElem? ho)).symm
  have ho1 : ((m.newNode cfg 0).1.setNode (m.newNode cfg 0).2 (origin.splitTail mm)).nodes[o]? = some origin := by
    simp only [Mem.setNode]; rw [List.getElem?_set_ne hi]; exact newNode_nodes_get cfg m 0 o origin ho
  refine g0.trans (MemB.of_le rfl (fun k => ?_))
  have h1 := setNode_own_add (m.newNode cfg 0).1 (m.newNode cfg 0).2 (origin.splitTail mm) k
  have h2 := setNode_own_drop (nd' := { origin with malloc := mm, unmanaged := true }) ho1 (owns_unmanaged rfl) k
  have h3 : (origin.splitTail mm).owns k = origin.owns k := rfl
  rw [h3] at h1
  show (((m.newNode cfg 0).1.setNode (m.newNode cfg 0).2 (origin.splitTail mm)).setNode o { origin with malloc := mm, unmanaged := true }).own k ≤ _
  omega

theorem writeDirectAt_tok {cfg : Cfg} {m m' : Mem} {b b' : Buf} {n ecap cb oi o mm : Nat} {remain : Int} {origin : NodeS}
    (ho : m.nodes[o]? = some origin) (h : writeDirectAt cfg m b n ecap remain cb oi o origin mm = some (m', b')) : TokB m b m' b' := by
  unfold writeDirectAt at h
  dsimp only at h
  have g1 := dataNode_memB cfg m cb n ecap
  split at h
  · cases h
  · split at h
    · cases h
    · split at h
      · cases h
        exact (g1.trans (splitNodes_memB mm (dataNode_get cfg m cb n ecap o origin ho))).tok (fun _ => rfl)
      · cases h
        exact g1.tok (fun _ => rfl)

theorem writeDirect_tok {cfg : Cfg} {m m' : Mem} {b b' : Buf} {n ecap : Nat} {remain : Int}
    (h : writeDirect cfg m b n ecap remain = some (m', b')) : TokB m b m' b' := by
  unfold writeDirect at h
  split at h
  · cases h; exact TokB.refl _ _
  · dsimp only at h
    have g0 := allocBlock_memB m .caller (max ecap n)
    split at h
    · cases h
    · split at h
      · cases h
      · split at h
        · cases h
        · split at h
          · cases h
          · rename_i o _ _ origin ho
            split at h
            · cases h
            · exact (g0.tok (fun _ => rfl)).trans (writeDirectAt_tok ho h)

theorem bookFill_tok {m m' : Mem} {b b' : Buf} {l n : Nat} (h : bookFill m b l n = some (m', b')) : TokB m b m' b' := by
  unfold bookFill at h
  split at h
  · cases h
  · split at h
    · cases h
    · rename_i wi _ _ wn hwn
      split at h
      · cases h
      · split at h
        · cases h
        · cases h
          have g1 : MemB m (match wn.block with
              | some blk => if min n l > 0 then m.emit (.write blk (wn.lo + wn.malloc) (wn.lo + wn.malloc + min n l)) else m
              | none => m) := by
            split
            · split
              · exact emit_memB _ _
              · exact MemB.refl _
            · exact MemB.refl _
          have hnd : (match wn.block with
              | some blk => if min n l > 0 then m.emit (.write blk (wn.lo + wn.malloc) (wn.lo + wn.malloc + min n l)) else m
              | none => m).nodes[wi]? = some wn := by
            split
            · split
              · exact hwn
              · exact hwn
            · exact hwn
          exact (g1.trans (setNode_memB_same (nd' := { wn with malloc := min n l + wn.blen, blen := min n l + wn.blen }) hnd rfl rfl)).tok
            (fun _ => rfl)

theorem bookAck_tok {cfg : Cfg} {m m' : Mem} {b b' : Buf} {bs ms n : Nat} (h : bookAck cfg m b bs ms n = some (m', b')) :
    TokB m b m' b' := by
  unfold bookAck at h
  split at h
  · cases h
  · split at h
    · cases h
    · split at h
      · have t2 := bookFill_tok h
        exact TokB.trans (b' := { b with chain := b.chain.take (b.w + 1) ++ [(m.newNode cfg ms).2], w := b.w + 1 })
          ((newNode_memB cfg m ms).tok (fun _ => rfl)) t2
      · exact bookFill_tok h

theorem markSplit_own : ∀ (l : List Nat) (m : Mem) (k : Nat), (markSplit m l).own k = m.own k ∧ (markSplit m l).blocks.length = m.blocks.length
  | [], m, k => ⟨rfl, rfl⟩
  | i :: rest, m, k => by
    unfold markSplit
    have key : ∀ (blk : Nat) (bl : Block), m.blocks[blk]? = some bl →
        ({ m with blocks := m.blocks.set blk { bl with split := true } } : Mem).own k = m.own k := by
      intro blk bl hbl
      unfold Mem.own Mem.nodeOwn Mem.freed
      simp only
      by_cases hk : blk = k
      · subst hk; rw [List.getElem?_set_self (lt_of_getElem? hbl), hbl]
      · rw [List.getElem?_set_ne hk]
    have h1 : ∀ m1 : Mem, (m1.own k = m.own k ∧ m1.blocks.length = m.blocks.length) →
        (markSplit m1 rest).own k = m.own k ∧ (markSplit m1 rest).blocks.length = m.blocks.length := by
      intro m1 ⟨e1, e2⟩
      have := markSplit_own rest m1 k
      exact ⟨by rw [this.1, e1], by rw [this.2, e2]⟩
    apply h1
    split
    · split
      · split
        · split
          · split
            · rename_i _ blk _ _ bl hbl _
              exact ⟨key blk bl hbl, by simp⟩
            · exact ⟨rfl, rfl⟩
          · exact ⟨rfl, rfl⟩
        · exact ⟨rfl, rfl⟩
      · exact ⟨rfl, rfl⟩
    · exact ⟨rfl, rfl⟩

theorem markSplit_memB (l : List Nat) (m : Mem) : MemB m (markSplit m l) :=
  MemB.of_le (markSplit_own l m 0).2 (fun k => Nat.le_of_eq (markSplit_own l m k).1)

/-! ### the whole ledger -/

def bufsOwn (l : List (Nat × Buf)) (k : Nat) : Nat := (l.map fun p => p.2.own k).sum

/-- tokens of the buffer now stored under `id` -/
def prevOwn (l : List (Nat × Buf)) (id k : Nat) : Nat :=
  match l.find? (·.1 = id) with
  | some p => p.2.own k
  | none => 0

theorem bufsOwn_put (id : Nat) (b' : Buf) (k : Nat) : ∀ l : List (Nat × Buf),
    bufsOwn (putAssoc id b' l) k + prevOwn l id k = bufsOwn l k + b'.own k
  | [] => by simp [putAssoc, bufsOwn, prevOwn]
  | (i, x) :: rest => by
    unfold putAssoc
    by_cases h : i = id
    · simp only [h, if_true]
      simp [bufsOwn, prevOwn, List.find?_cons]
      omega
    · simp only [h, if_false]
      have ih := bufsOwn_put id b' k rest
      have hp : prevOwn ((i, x) :: rest) id k = prevOwn rest id k := by
        simp [prevOwn, List.find?_cons, h]
      rw [hp]
      simp only [bufsOwn, List.map_cons, List.sum_cons] at ih ⊢
      omega

theorem prevOwn_put (id did : Nat) (b' : Buf) (k : Nat) : ∀ l : List (Nat × Buf),
    prevOwn (putAssoc id b' l) did k = if did = id then b'.own k else prevOwn l did k
  | [] => by
    by_cases h : did = id
    · simp [putAssoc, prevOwn, List.find?_cons, h]
    · have h' : ¬ id = did := fun e => h e.symm
      simp [putAssoc, prevOwn, List.find?_cons, h, h']
  | (i, x) :: rest => by
    unfold putAssoc
    by_cases hi : i = id
    · simp only [hi, if_true]
      by_cases h : did = id
      · simp [prevOwn, List.find?_cons, h]
      · have h' : ¬ id = did := fun e => h e.symm
        simp [prevOwn, List.find?_cons, h, h']
    · simp only [hi, if_false]
      have ih := prevOwn_put id did b' k rest
      by_cases hd : i = did
      · have h : ¬ did = id := fun e => hi (hd.trans e)
        simp [prevOwn, List.find?_cons, hd, h]
      · have e1 : prevOwn ((i, x) :: putAssoc id b' rest) did k = prevOwn (putAssoc id b' rest) did k := by
          simp [prevOwn, List.find?_cons, hd]
        have e2 : prevOwn ((i, x) :: rest) did k = prevOwn rest did k := by
          simp [prevOwn, List.find?_cons, hd]
        rw [e1, e2, ih]

theorem prevOwn_getBuf {s : Ledger} {id : Nat} {b : Buf} (h : s.getBuf id = some b) (k : Nat) : prevOwn s.bufs id k = b.own k := by
  unfold Ledger.getBuf at h
  unfold prevOwn
  cases hf : s.bufs.find? (·.1 = id) with
  | none => simp [hf] at h
  | some p => simp only [hf, Option.map_some, Option.some.injEq] at h; subst h; rfl

def Ledger.own (s : Ledger) (k : Nat) : Nat := s.mem.own k + bufsOwn s.bufs k

/-- every block has at most one owner (or one earlier free), and blocks beyond the table none -/
structure Tok (s : Ledger) : Prop where
  le : ∀ k, s.own k ≤ 1
  fresh : ∀ k, s.mem.blocks.length ≤ k → s.own k = 0

theorem put_tok {s : Ledger} {m : Mem} {id : Nat} {b' : Buf} (ht : Tok s) (hl : s.mem.blocks.length ≤ m.blocks.length)
    (h : ∀ k, m.own k + b'.own k ≤ s.mem.own k + prevOwn s.bufs id k + newBlk s.mem m k) : Tok (s.put m id b') := by
  have key : ∀ k, (s.put m id b').own k ≤ s.own k + newBlk s.mem m k := by
    intro k
    have h1 := bufsOwn_put id b' k s.bufs
    have h2 := h k
    unfold Ledger.own Ledger.put
    simp only
    unfold Ledger.own at *
    omega
  refine ⟨fun k => ?_, fun k hk => ?_⟩
  · have := key k
    by_cases hk : k < s.mem.blocks.length
    · have h0 : newBlk s.mem m k = 0 := by unfold newBlk; simp; omega
      have := ht.le k
      omega
    · have h0 := ht.fresh k (Nat.le_of_not_gt hk)
      have h1 : newBlk s.mem m k ≤ 1 := by unfold newBlk; split <;> omega
      omega
  · have := key k
    have hk' : s.mem.blocks.length ≤ k := Nat.le_trans hl hk
    have h0 := ht.fresh k hk'
    have h1 : newBlk s.mem m k = 0 := by
      unfold newBlk
      have : ¬ k < m.blocks.length := Nat.not_lt.2 hk
      simp [this]
    omega

theorem put_tok_of {s : Ledger} {m : Mem} {id : Nat} {b b' : Buf} (ht : Tok s) (hg : s.getBuf id = some b)
    (h : TokB s.mem b m b') : Tok (s.put m id b') :=
  put_tok ht h.len (fun k => by rw [prevOwn_getBuf hg]; exact h.own k)

theorem on1_tok {s s' : Ledger} {id : Nat} {f : Buf → Option (Mem × Buf)} (ht : Tok s)
    (hf : ∀ b m b1, s.getBuf id = some b → f b = some (m, b1) → TokB s.mem b m b1) (h : on1 s id f = some s') : Tok s' := by
  unfold on1 at h
  split at h
  · cases h; exact ht
  · rename_i b hg
    split at h
    · cases h
    · rename_i m b1 hfb
      cases h
      exact put_tok_of ht hg (hf b m b1 hg hfb)

theorem step_tok {cfg : Cfg} {s s' : Ledger} {op : Op} (ht : Tok s) (h : step cfg s op = some s') : Tok s' := by
  cases op with
  | new id size =>
    simp only [step, Option.some.injEq] at h; subst h
    obtain ⟨g, hb⟩ := newBuf_tok cfg s.mem size
    exact put_tok ht g.len (fun k => by have := g.own k; rw [hb k]; omega)
  | mal id n => exact on1_tok ht (fun b m b1 _ hf => malloc_tok hf) h
  | wbin id n pcap => exact on1_tok ht (fun b m b1 _ hf => writeBinary_tok hf) h
  | wdir id n ecap remain =>
    refine on1_tok ht (fun b m b1 _ hf => ?_) h
    split at hf
    · cases hf
    · rename_i m0 b0 hw
      cases hf
      have t := writeDirect_tok hw
      split
      · exact t.trans ((markSplit_memB _ _).tok (fun _ => rfl))
      · exact t
  | ack id n => exact on1_tok ht (fun b m b1 _ hf => mallocAck_tok hf) h
  | flush id => exact on1_tok ht (fun b m b1 _ hf => flush_tok hf) h
  | next id n => exact on1_tok ht (fun b m b1 _ hf => next_tok hf) h
  | peek id n => exact on1_tok ht (fun b m b1 _ hf => peek_tok hf) h
  | skip id n => exact on1_tok ht (fun b m b1 _ hf => skip_tok hf) h
  | rbin id n => exact on1_tok ht (fun b m b1 _ hf => readBinary_tok hf) h
  | rbyte id => exact on1_tok ht (fun b m b1 _ hf => readByte_tok hf) h
  | untl id idx => exact on1_tok ht (fun b m b1 _ hf => untilIdx_tok hf) h
  | read id n => exact on1_tok ht (fun b m b1 _ hf => readCopy_tok hf) h
  | rel id => exact on1_tok ht (fun b m b1 _ hf => release_tok hf) h
  | close id => exact on1_tok ht (fun b m b1 _ hf => close_tok hf) h
  | getbytes id k => exact on1_tok ht (fun b m b1 _ hf => getBytes_tok hf) h
  | rtail id ms => exact on1_tok ht (fun b m b1 _ hf => resetTail_tok hf) h
  | book id bs ms n => exact on1_tok ht (fun b m b1 _ hf => bookAck_tok hf) h
  | slice id n nid =>
    simp only [step] at h
    split at h
    · cases h; exact ht
    · rename_i b hg
      split at h
      · cases h
      · rename_i m b1 hs
        cases h
        exact put_tok_of ht hg (slice_tok hs).1
      · rename_i m b1 c hs
        cases h
        obtain ⟨t1, hc⟩ := slice_tok hs
        have t2 : Tok (s.put (m.endViews id) id b1) :=
          put_tok_of ht hg (t1.trans ((endViews_memB m id).tok (fun _ => rfl)))
        exact put_tok t2 (Nat.le_refl _) (fun k => by rw [hc c rfl k]; simp only [Ledger.put]; omega)
  | app id did =>
    simp only [step] at h
    split at h
    · rename_i b d hg hgd
      split at h
      · cases h
      · rename_i m b1 d1 hw
        cases h
        obtain ⟨g, hb, hd⟩ := writeBuffer_tok hw
        have ge := g.trans (endViews_memB m did)
        have t2 : Tok (s.put (m.endViews did) id b1) := put_tok_of ht hg (ge.tok hb)
        -- the donor's entry (possibly the same entry) is replaced by a buffer with the same caches
        refine put_tok t2 (Nat.le_refl _) (fun k => ?_)
        have hprev : prevOwn (s.put (m.endViews did) id b1).bufs did k = d1.own k := by
          simp only [Ledger.put]
          rw [prevOwn_put]
          split
          · rename_i hdid
            subst hdid
            rw [hg] at hgd; cases hgd
            rw [hb k, hd k]
          · rw [prevOwn_getBuf hgd, hd k]
        rw [hprev]; simp only [Ledger.put]; omega
    · cases h; exact ht
  | nop id => simp only [step, Option.some.injEq] at h; subst h; exact ht

theorem tok_init : Tok {} := ⟨fun k => by simp [Ledger.own, Mem.own, Mem.nodeOwn, Mem.freed, bufsOwn], fun k _ => by simp [Ledger.own, Mem.own, Mem.nodeOwn, Mem.freed, bufsOwn]⟩

theorem run_tok {cfg : Cfg} : ∀ (ops : List Op) {s : Ledger}, Tok s → Tok (run cfg s ops)
  | [], _, ht => ht
  | op :: ops, s, ht => by
    unfold run
    cases hs : step cfg s op with
    | none => exact ht
    | some s' => exact run_tok ops (step_tok ht hs)

/-- at most one `free` per block, and none while a token (reusable node, `caches` entry, `cachePeek`) is left -/
theorem Tok.frees_le {s : Ledger} (ht : Tok s) (k : Nat) (bl : Block) (h : s.mem.blocks[k]? = some bl) : bl.frees ≤ 1 := by
  have := ht.le k
  have h1 : s.mem.freed k = bl.frees := by unfold Mem.freed; rw [h]
  unfold Ledger.own Mem.own at this
  omega

end Netpoll.Buf.Own
