import Netpoll.Buf.OwnerLemmas4
/-! Lemmas about the ownership ledger, part 5: the typing invariant through the writer-side methods. -/
namespace Netpoll.Buf.Own
open Netpoll.Buf

/-- a struct made by `newLinkBufferNode(n)`, `n > 0`, is reusable -/
theorem newNode_managed (cfg : Cfg) (s : Mem) {n : Nat} (hn : n ≠ 0) :
    ∃ nd : NodeS, (s.newNode cfg n).1.nodes[(s.newNode cfg n).2]? = some nd ∧ nd.unmanaged = false := by
  obtain ⟨h1, h2⟩ := newNode_cases cfg s n
  rcases h2 with ⟨h0, _⟩ | ⟨_, c, h2⟩
  · exact absurd h0 hn
  · rw [h2, h1]
    have hnodes : (s.mallocMem cfg c).1.nodes = s.nodes := by
      unfold Mem.mallocMem; split <;> simp [Mem.allocBlock]
    exact ⟨{ block := some (s.mallocMem cfg c).2.1, cap := (s.mallocMem cfg c).2.2 }, by simp only [hnodes]; simp, rfl⟩

/-- the node where `growth` stops is reusable -/
def WriteManaged (s : Mem) (suf : List Nat) (k : Nat) : Prop :=
  ∃ (i : Nat) (nd : NodeS), suf[k]? = some i ∧ s.nodes[i]? = some nd ∧ nd.unmanaged = false

theorem growthLoop_typed {cfg : Cfg} {st : Bool} {n : Nat} (hn0 : n ≠ 0) : ∀ (l : List Nat) {s s' : Mem} {suf : List Nat} {w w' : Nat},
    Core cfg st s → growthLoop cfg n s l w = some (s', suf, w') →
    Ext s s' ∧ Core cfg st s' ∧ w ≤ w' ∧ WriteManaged s' suf (w' - w)
  | [], s, s', suf, w, w', _, h => by simp [growthLoop] at h
  | [i], s, s', suf, w, w', hc, h => by
    unfold growthLoop at h
    split at h
    · cases h
    · rename_i nd hnd
      split at h
      · obtain ⟨e1, c1⟩ := newNode_spec (cfg := cfg) (st := st) (s := s) n hc
        obtain ⟨nd', g1, g2⟩ := newNode_managed cfg s hn0
        generalize s.newNode cfg n = p at h e1 c1 g1
        obtain ⟨s1, c⟩ := p
        simp only [Option.some.injEq, Prod.mk.injEq] at h
        obtain ⟨rfl, rfl, rfl⟩ := h
        exact ⟨e1, c1, Nat.le_succ w, c, nd', by simp, g1, g2⟩
      · rename_i hcond
        simp only [Option.some.injEq, Prod.mk.injEq] at h
        obtain ⟨rfl, rfl, rfl⟩ := h
        refine ⟨Ext.refl _, hc, Nat.le_refl _, i, nd, by simp, hnd, ?_⟩
        cases hu : nd.unmanaged
        · rfl
        · exact absurd (Or.inl hu) hcond
  | i :: j :: rest, s, s', suf, w, w', hc, h => by
    unfold growthLoop at h
    split at h
    · cases h
    · rename_i nd hnd
      split at h
      · split at h
        · cases h
        · rename_i s1 suf1 w1 hg
          simp only [Option.some.injEq, Prod.mk.injEq] at h
          obtain ⟨rfl, rfl, rfl⟩ := h
          obtain ⟨e1, c1, hle, i', nd', g0, g1, g2⟩ := growthLoop_typed hn0 (j :: rest) hc hg
          refine ⟨e1, c1, by omega, i', nd', ?_, g1, g2⟩
          have : w1 - w = (w1 - (w + 1)) + 1 := by omega
          rw [this]; simpa using g0
      · rename_i hcond
        simp only [Option.some.injEq, Prod.mk.injEq] at h
        obtain ⟨rfl, rfl, rfl⟩ := h
        refine ⟨Ext.refl _, hc, Nat.le_refl _, i, nd, by simp, hnd, ?_⟩
        cases hu : nd.unmanaged
        · rfl
        · exact absurd (Or.inl hu) hcond

/-- `growth(n)`: afterwards the write node is reusable (for `n > 0`) -/
theorem growth_typed {cfg : Cfg} {st : Bool} {s s' : Mem} {b b' : Buf} {n : Nat} (hc : Core cfg st s) (hb : BufOK cfg s b)
    (h : growth cfg s b n = some (s', b')) :
    Tri cfg st s s' b' ∧ (n ≠ 0 → WriteManaged s' b'.chain b'.w) ∧ b'.caches = b.caches ∧ b'.cachePeek = b.cachePeek := by
  unfold growth at h
  split at h
  · rename_i hn; cases h; exact ⟨Tri.same hc hb, fun h0 => absurd hn h0, rfl, rfl⟩
  · rename_i hn
    split at h
    · cases h
    · rename_i s1 suf w' hg
      cases h
      obtain ⟨e1, c1, hle, i, nd, g0, g1, g2⟩ := growthLoop_typed hn _ hc hg
      refine ⟨⟨e1, c1, (hb.ext e1).of_caches_eq rfl rfl⟩, fun _ => ⟨i, nd, ?_, g1, g2⟩, rfl, rfl⟩
      have hw : b.w < b.chain.length := by
        rcases Nat.lt_or_ge b.w b.chain.length with hw | hw
        · exact hw
        · rw [List.drop_eq_nil_of_le hw] at hg; simp [growthLoop] at hg
      have hlen : (b.chain.take b.w).length = b.w := by simp; omega
      show (b.chain.take b.w ++ suf)[w']? = some i
      rw [List.getElem?_append_right (by omega), hlen]; exact g0

theorem writeNodeMalloc_typed {cfg : Cfg} {st : Bool} {s s' : Mem} {b : Buf} {n : Nat} (hc : Core cfg st s)
    (hm : WriteManaged s b.chain b.w) (h : writeNodeMalloc s b n = some s') : Ext s s' ∧ Core cfg st s' := by
  obtain ⟨i, nd, g0, g1, g2⟩ := hm
  unfold writeNodeMalloc at h
  simp only [g0, g1] at h
  have c1 := setNode_core (i := i) (nd := { nd with malloc := nd.malloc + n }) hc ((hc.node i nd g1).of_same rfl rfl rfl)
  split at h
  · rename_i blk hblk
    cases h
    obtain ⟨bl, k1, k2⟩ := ((hc.node i nd g1) g2 blk hblk).not_caller
    exact ⟨Ext.of_blocks_eq rfl, emit_core c1 (evOK_write (s := s.setNode i _) k1 k2)⟩
  · cases h; exact ⟨Ext.of_blocks_eq rfl, c1⟩

theorem malloc_typed {cfg : Cfg} {st : Bool} {s s' : Mem} {b b' : Buf} {n : Int} (hc : Core cfg st s) (hb : BufOK cfg s b)
    (h : malloc cfg s b n = some (s', b')) : Tri cfg st s s' b' := by
  unfold malloc at h
  split at h
  · cases h; exact Tri.same hc hb
  · rename_i hn
    split at h
    · cases h
    · rename_i s1 b1 hg
      obtain ⟨⟨e1, c1, hb1⟩, hm, _, _⟩ := growth_typed hc (hb.of_caches_eq (b' := { b with mallocSize := b.mallocSize + n.toNat }) rfl rfl) hg
      split at h
      · cases h
      · rename_i s2 hw
        cases h
        obtain ⟨e2, c2⟩ := writeNodeMalloc_typed c1 (hm (by omega)) hw
        exact ⟨e1.trans e2, c2, hb1.ext e2⟩

theorem NodeOK.discard {cfg : Cfg} {s : Mem} {nd : NodeS} (h : NodeOK cfg s nd) : NodeOK cfg s nd.discard :=
  h.of_same rfl rfl rfl

theorem mallocAck_typed {cfg : Cfg} {st : Bool} {s s' : Mem} {b b' : Buf} {n : Int} (hc : Core cfg st s) (hb : BufOK cfg s b)
    (h : mallocAck s b n = some (s', b')) : Tri cfg st s s' b' := by
  unfold mallocAck at h
  split at h
  · cases h; exact Tri.same hc hb
  · dsimp only at h
    split at h
    · cases h
    · rename_i suf hr
      split at h
      · cases h
      · rename_i suf' k hk
        split at h
        · cases h
        · have c1 := putAll_sz_core hc hr (ackLoop_sz _ _ hk)
          split at h
          · cases h
          · rename_i tail ht
            cases h
            have c2 : Core cfg st ((s.putAll suf').putAll (tail.map fun p => (p.1, p.2.discard))) := by
              refine putAll_core _ c1 (fun p hp => ?_)
              obtain ⟨q, hq, rfl⟩ := List.mem_map.1 hp
              exact (c1.node q.1 q.2 (resolve_mem _ ht q hq)).discard
            have e : Ext s ((s.putAll suf').putAll (tail.map fun p => (p.1, p.2.discard))) :=
              (putAll_ext _ _).trans (putAll_ext _ _)
            exact ⟨e, c2, (hb.ext e).of_caches_eq rfl rfl⟩

theorem flushCommit_typed {cfg : Cfg} {st : Bool} {s s' : Mem} {b b' : Buf} (hc : Core cfg st s) (hb : BufOK cfg s b)
    (h : flushCommit s b = some (s', b')) : Tri cfg st s s' b' := by
  unfold flushCommit at h
  split at h
  · cases h
  · split at h
    · cases h
    · rename_i mid hm
      cases h
      have c2 : Core cfg st (s.putAll (mid.map fun p => (p.1, p.2.commit))) := by
        refine putAll_core _ hc (fun p hp => ?_)
        obtain ⟨q, hq, rfl⟩ := List.mem_map.1 hp
        have := hc.node q.1 q.2 (resolve_mem _ hm q hq)
        dsimp only [NodeS.commit]
        split
        · exact this.of_same rfl rfl rfl
        · exact this
      have e2 := putAll_ext (mid.map fun p => (p.1, p.2.commit)) s
      exact ⟨e2, c2, (hb.ext e2).of_caches_eq rfl rfl⟩

theorem flush_typed {cfg : Cfg} {st : Bool} {s s' : Mem} {b b' : Buf} (hc : Core cfg st s) (hb : BufOK cfg s b)
    (h : flush cfg s b = some (s', b')) : Tri cfg st s s' b' := by
  unfold flush at h
  split at h
  · cases h
  · split at h
    · cases h
    · split at h
      · obtain ⟨e1, c1⟩ := newNode_spec (cfg := cfg) (st := st) (s := s) 0 hc
        have h2 : Tri cfg st (s.newNode cfg 0).1 s' b' := by
          refine flushCommit_typed c1 ?_ h
          exact (hb.ext e1).of_caches_eq rfl rfl
        obtain ⟨e2, c2, hb2⟩ := h2
        exact ⟨e1.trans e2, c2, hb2⟩
      · refine flushCommit_typed hc ?_ h
        exact hb.of_caches_eq rfl rfl

theorem writeBuffer_typed {cfg : Cfg} {st : Bool} {s s' : Mem} {b d b' d' : Buf} (hc : Core cfg st s) (hb : BufOK cfg s b)
    (hd : BufOK cfg s d) (h : writeBuffer cfg s b d = some (s', b', d')) :
    Tri cfg st s s' b' ∧ BufOK cfg s' d' := by
  unfold writeBuffer at h
  split at h
  · cases h; exact ⟨Tri.same hc hb, hd⟩
  · split at h
    · cases h
    · split at h
      · cases h
      · split at h
        · cases h
        · dsimp only at h
          split at h
          · cases h
          · rename_i s1 h1
            obtain ⟨e1, c1⟩ := releaseAll_spec _ hc h1
            split at h
            · cases h
            · rename_i s2 h2
              obtain ⟨e2, c2⟩ := releaseAll_spec _ c1 h2
              cases h
              have e := e1.trans e2
              exact ⟨⟨e, c2, (hb.ext e).of_caches_eq rfl rfl⟩, (hd.ext e).of_caches_eq rfl rfl⟩

theorem allocBlock_nodes (s : Mem) (k : Kind) (c : Nat) : (s.allocBlock k c).1.nodes = s.nodes := by
  cases k <;> simp [Mem.allocBlock]

theorem writeBinary_typed {cfg : Cfg} {st : Bool} {s s' : Mem} {b b' : Buf} {n pcap : Nat} (hc : Core cfg st s)
    (hb : BufOK cfg s b) (h : writeBinary cfg s b n pcap = some (s', b')) : Tri cfg st s s' b' := by
  unfold writeBinary at h
  split at h
  · cases h; exact Tri.same hc hb
  · rename_i hn
    have e1 := allocBlock_ext s .caller (max pcap n)
    have c1 := allocBlock_core (cfg := cfg) (st := st) .caller (max pcap n) hc
    generalize s.allocBlock .caller (max pcap n) = p at h e1 c1
    obtain ⟨s1, cb⟩ := p
    dsimp only at h e1 c1
    split at h
    · split at h
      · cases h
      · obtain ⟨e2, c2⟩ := newNode_spec (cfg := cfg) (st := st) (s := s1) 0 c1
        generalize s1.newNode cfg 0 = q at h e2 c2
        obtain ⟨s2, c⟩ := q
        cases h
        exact ⟨e1.trans (e2.trans (setNode_ext _ _ _)), setNode_core c2 (NodeOK.of_unmanaged rfl),
          (hb.ext (e1.trans (e2.trans (setNode_ext _ _ _)))).of_caches_eq rfl rfl⟩
    · split at h
      · cases h
      · rename_i s2 b2 hg
        obtain ⟨⟨e2, c2, hb2⟩, hm, _, _⟩ := growth_typed c1
          ((hb.ext e1).of_caches_eq (b' := { b with mallocSize := b.mallocSize + n }) rfl rfl) hg
        split at h
        · cases h
        · rename_i s3 hw
          cases h
          obtain ⟨e3, c3⟩ := writeNodeMalloc_typed c2 (hm hn) hw
          exact ⟨e1.trans (e2.trans e3), c3, hb2.ext e3⟩

theorem resetTail_typed {cfg : Cfg} {st : Bool} {s s' : Mem} {b b' : Buf} {ms : Nat} (hc : Core cfg st s)
    (hb : BufOK cfg s b) (h : resetTail cfg s b ms = some (s', b')) : Tri cfg st s s' b' := by
  unfold resetTail at h
  split at h
  · cases h; exact Tri.same hc hb
  · split at h
    · cases h
    · obtain ⟨e1, c1⟩ := newNode_spec (cfg := cfg) (st := st) (s := s) 0 hc
      generalize s.newNode cfg 0 = p at h e1 c1
      obtain ⟨s1, c⟩ := p
      cases h
      exact ⟨e1, c1, (hb.ext e1).of_caches_eq rfl rfl⟩

theorem getBytesLoop_typed {cfg : Cfg} {st : Bool} {id : Nat} : ∀ (l : List Nat) {s s' : Mem} {cnt k c : Nat},
    Core cfg st s → getBytesLoop s id l cnt k = some (s', c) → s'.blocks = s.blocks ∧ Core cfg st s'
  | [], s, s', cnt, k, c, hc, h => by simp [getBytesLoop] at h; obtain ⟨rfl, _⟩ := h; exact ⟨rfl, hc⟩
  | i :: rest, s, s', cnt, k, c, hc, h => by
    unfold getBytesLoop at h
    split at h
    · cases h; exact ⟨rfl, hc⟩
    · split at h
      · cases h
      · rename_i nd hn
        split at h
        · dsimp only at h
          have c1 := addView_core (blk := nd.block) (lo := nd.lo + nd.off) (hi := nd.lo + nd.blen) (o := id) (p := false)
            (setNode_core (i := i) (nd := { nd with exposed := true }) hc ((hc.node i nd hn).of_same rfl rfl rfl))
          split at h
          · cases h
          · rename_i s2 c2 hl
            cases h
            obtain ⟨k1, cc⟩ := getBytesLoop_typed rest c1 hl
            exact ⟨by rw [k1, addView_blocks]; rfl, cc⟩
        · exact getBytesLoop_typed rest hc h

theorem getBytes_typed {cfg : Cfg} {st : Bool} {s s' : Mem} {id : Nat} {b b' : Buf} {k : Nat} (hc : Core cfg st s)
    (hb : BufOK cfg s b) (h : getBytes s id b k = some (s', b')) : Tri cfg st s s' b' := by
  unfold getBytes at h
  split at h
  · cases h
  · dsimp only at h
    generalize (if k = 0 then b.f - b.r else k) = k' at h
    split at h
    · cases h
    · rename_i s1 c hl
      obtain ⟨k1, c1⟩ := getBytesLoop_typed _ hc hl
      have e1 : Ext s s1 := Ext.of_blocks_eq k1
      split at h
      · split at h
        · cases h
        · split at h
          · cases h
          · rename_i i _ _ fl hn
            cases h
            have e2 : Ext s ((s1.setNode i { fl with exposed := true }).addView fl.block (fl.lo + fl.off) (fl.lo + fl.blen) id) :=
              Ext.of_blocks_eq (by rw [addView_blocks]; exact k1)
            exact ⟨e2, addView_core (setNode_core c1 ((c1.node i fl hn).of_same rfl rfl rfl)), hb.ext e2⟩
      · cases h; exact ⟨e1, c1, hb.ext e1⟩

end Netpoll.Buf.Own
