import Netpoll.Buf.OwnerLemmas2
/-! Lemmas about the ownership ledger, part 3: the typing invariant through the reader-side methods. -/
namespace Netpoll.Buf.Own
open Netpoll.Buf

/-- what every method lemma delivers: blocks extended, `Core` again, the buffer's caches fine -/
def Tri (cfg : Cfg) (st : Bool) (s s' : Mem) (b' : Buf) : Prop := Ext s s' ∧ Core cfg st s' ∧ BufOK cfg s' b'

theorem Tri.same {cfg : Cfg} {st : Bool} {s : Mem} {b : Buf} (hc : Core cfg st s) (hb : BufOK cfg s b) : Tri cfg st s s b :=
  ⟨Ext.refl s, hc, hb⟩

theorem consumeLen_ok {cfg : Cfg} {s : Mem} {b : Buf} (n : Nat) (hb : BufOK cfg s b) : BufOK cfg s (b.consumeLen n) := by
  unfold Buf.consumeLen
  split
  · rename_i blk l cp hp
    split
    · refine ⟨fun x hx => ?_, fun _ _ _ h => by cases h⟩
      simp only [List.mem_append, List.mem_singleton] at hx
      rcases hx with hx | hx
      · exact hb.caches x hx
      · subst hx; exact ⟨cp, hb.peek _ l cp hp⟩
    · exact hb.of_caches_eq rfl rfl
  · exact hb.of_caches_eq rfl rfl

theorem consumeLen_chain (b : Buf) (n : Nat) : (b.consumeLen n).chain = b.chain ∧ (b.consumeLen n).r = b.r ∧
    (b.consumeLen n).f = b.f ∧ (b.consumeLen n).w = b.w := by
  unfold Buf.consumeLen
  split
  · split <;> exact ⟨rfl, rfl, rfl, rfl⟩
  · exact ⟨rfl, rfl, rfl, rfl⟩

theorem isSingleNode_spec {s : Mem} {b b' : Buf} {n i : Nat} {nd : NodeS} {f : Bool}
    (h : isSingleNode s b n = some (b', i, nd, f)) :
    s.nodes[i]? = some nd ∧ b'.caches = b.caches ∧ b'.cachePeek = b.cachePeek ∧ b'.chain = b.chain := by
  unfold isSingleNode at h
  split at h
  · cases h
  · split at h
    · cases h
    · split at h
      · cases h
      · split at h
        · cases h
        · rename_i hn
          simp only [Option.some.injEq, Prod.mk.injEq] at h
          obtain ⟨rfl, rfl, rfl, _⟩ := h
          exact ⟨hn, rfl, rfl, rfl⟩

theorem onReadSuffix_spec {cfg : Cfg} {st : Bool} {s s' : Mem} {b b' : Buf}
    {loop : List (Nat × NodeS) → Option (List (Nat × NodeS) × Nat)}
    (hl : ∀ l l' k, loop l = some (l', k) → SzL l l')
    (hc : Core cfg st s) (h : onReadSuffix s b loop = some (s', b')) :
    Core cfg st s' ∧ s'.blocks = s.blocks ∧ s'.log = s.log ∧ b'.caches = b.caches ∧ b'.cachePeek = b.cachePeek := by
  unfold onReadSuffix at h
  split at h
  · cases h
  · rename_i suf hr
    split at h
    · cases h
    · rename_i suf' k hk
      simp only [Option.some.injEq, Prod.mk.injEq] at h
      obtain ⟨rfl, rfl⟩ := h
      exact ⟨putAll_sz_core hc hr (hl _ _ _ hk), (putAll_blocks _ _).1, (putAll_blocks _ _).2.1, rfl, rfl⟩

/-- a write into a block that is not caller memory is a fine event -/
theorem evOK_write {cfg : Cfg} {st : Bool} {s : Mem} {blk lo hi : Nat} {bl : Block} (h : s.blocks[blk]? = some bl)
    (hk : bl.kind ≠ .caller) : EvOK cfg st s (.write blk lo hi) := fun _ => ⟨bl, h, hk⟩

theorem BlkOK.not_caller {cfg : Cfg} {s : Mem} {b cap : Nat} (h : BlkOK cfg s b cap) :
    ∃ bl : Block, s.blocks[b]? = some bl ∧ bl.kind ≠ .caller := by
  obtain ⟨bl, h1, h2⟩ := h
  refine ⟨bl, h1, ?_⟩
  rcases h2 with h2 | ⟨h2, _⟩ <;> rw [h2] <;> decide

theorem next_typed {cfg : Cfg} {st : Bool} {s s' : Mem} {id : Nat} {b b' : Buf} {n : Int} (hc : Core cfg st s) (hb : BufOK cfg s b)
    (h : next cfg s id b n = some (s', b')) : Tri cfg st s s' b' := by
  unfold next at h
  split at h
  · cases h; exact Tri.same hc hb
  · dsimp only at h
    split at h
    · cases h; exact Tri.same hc hb
    · have hb1 := consumeLen_ok (n.toNat) hb
      generalize b.consumeLen n.toNat = b1 at h hb1
      split at h
      · cases h
      · -- single node
        rename_i b2 i nd hs
        obtain ⟨hn, h1, h2, _⟩ := isSingleNode_spec hs
        cases h
        have hc1 := setNode_core (i := i) (nd := { nd with exposed := true, off := nd.off + n.toNat }) hc
          ((hc.node i nd hn).of_same rfl rfl rfl)
        exact ⟨Ext.of_blocks_eq (by rw [addView_blocks]; rfl), addView_core hc1,
          (hb1.of_caches_eq h1 h2).ext (Ext.of_blocks_eq (by rw [addView_blocks]; rfl))⟩
      · -- several nodes: the result is a fresh block
        rename_i b2 i nd hs
        obtain ⟨hn, h1, h2, _⟩ := isSingleNode_spec hs
        have hb2 : BufOK cfg s b2 := hb1.of_caches_eq h1 h2
        by_cases hcache : cfg.block1k < n.toNat ∧ n.toNat ≤ cfg.mallocMax
        · simp only [hcache, and_self, if_true] at h
          obtain ⟨e1, c1, _, bl, g1, g2, g3⟩ := mallocMem_spec (cfg := cfg) (s := s) n.toNat hc
          generalize s.mallocMem cfg n.toNat = p at h e1 c1 g1 g2 g3
          obtain ⟨s1, blk, cp⟩ := p
          simp only at h e1 c1 g1 g2 g3
          split at h
          · cases h
          · rename_i s2 b3 ho
            cases h
            obtain ⟨c2, k1, k2, k3, k4⟩ := onReadSuffix_spec (fun l l' k => nextLoop_sz l _) c1 ho
            have e2 : Ext s1 s2 := Ext.of_blocks_eq k1
            have hk : bl.kind ≠ .caller := by rcases g3 with g3 | ⟨g3, _⟩ <;> rw [g3] <;> decide
            have c3 := emit_core (e := .write blk 0 n.toNat) c2 (evOK_write (by rw [k1]; exact g1) hk)
            refine ⟨e1.trans (e2.trans (Ext.of_blocks_eq (by rw [addView_blocks]; rfl))), addView_core c3, ?_⟩
            have hb3 : BufOK cfg s1 b' := by
              refine ⟨fun x hx => ?_, fun x l c hx => ?_⟩
              · rw [k3] at hx
                simp only [List.mem_append, List.mem_singleton] at hx
                rcases hx with hx | hx
                · exact (hb2.ext e1).caches x hx
                · subst hx; exact ⟨cp, bl, g1, g2, g3⟩
              · rw [k4] at hx; exact (hb2.ext e1).peek x l c hx
            exact hb3.ext (e2.trans (Ext.of_blocks_eq (by rw [addView_blocks]; rfl)))
        · simp only [hcache, if_false] at h
          have e1 := allocBlock_ext s .gc n.toNat
          have c1 := allocBlock_core (cfg := cfg) .gc n.toNat hc
          obtain ⟨bl, g1, g2, _⟩ := allocBlock_get s .gc n.toNat
          generalize s.allocBlock .gc n.toNat = p at h e1 c1 g1
          obtain ⟨s1, blk⟩ := p
          simp only at h e1 c1 g1
          split at h
          · cases h
          · rename_i s2 b3 ho
            cases h
            obtain ⟨c2, k1, k2, k3, k4⟩ := onReadSuffix_spec (fun l l' k => nextLoop_sz l _) c1 ho
            have e2 : Ext s1 s2 := Ext.of_blocks_eq k1
            have hk : bl.kind ≠ .caller := by rw [g2]; decide
            have c3 := emit_core (e := .write blk 0 n.toNat) c2 (evOK_write (by rw [k1]; exact g1) hk)
            refine ⟨e1.trans (e2.trans (Ext.of_blocks_eq (by rw [addView_blocks]; rfl))), addView_core c3, ?_⟩
            exact ((hb2.ext e1).of_caches_eq k3 k4).ext (e2.trans (Ext.of_blocks_eq (by rw [addView_blocks]; rfl)))

theorem retirePeek_ok {cfg : Cfg} {s : Mem} {b : Buf} (n : Nat) (hb : BufOK cfg s b) : BufOK cfg s (b.retirePeek n) := by
  unfold Buf.retirePeek
  split
  · rename_i blk l cp hp
    split
    · refine ⟨fun x hx => ?_, fun _ _ _ h => by cases h⟩
      simp only [List.mem_append, List.mem_singleton] at hx
      rcases hx with hx | hx
      · exact hb.caches x hx
      · subst hx; exact ⟨cp, hb.peek _ l cp hp⟩
    · exact hb
  · exact hb

theorem peekFill_typed {cfg : Cfg} {st : Bool} {s s1 s' : Mem} {id : Nat} {b b' : Buf} {n blk l cp : Nat}
    (e1 : Ext s s1) (c1 : Core cfg st s1) (hb : BufOK cfg s b) (hk : CacheOK cfg s1 blk cp)
    (hh : peekFill s1 id b n blk l cp = some (s', b')) : Tri cfg st s s' b' := by
  have hbk : ∀ l', BufOK cfg s1 { b with cachePeek := some (blk, l', cp) } := fun l' =>
    ⟨(hb.ext e1).caches, fun x y z hx => by cases hx; exact hk⟩
  unfold peekFill at hh
  split at hh
  · cases hh
    exact ⟨e1.trans (Ext.of_blocks_eq (addView_blocks _ _ _ _ _ _)), addView_core c1,
      (hbk l).ext (Ext.of_blocks_eq (addView_blocks _ _ _ _ _ _))⟩
  · split at hh
    · cases hh
    · split at hh
      · cases hh
      · rename_i l' _
        cases hh
        obtain ⟨bl, g1, g2⟩ := hk.blkOK.not_caller
        have c2 := emit_core (e := .write blk l l') c1 (evOK_write g1 g2)
        exact ⟨e1.trans (Ext.of_blocks_eq (by rw [addView_blocks]; rfl)), addView_core c2,
          (hbk l').ext (Ext.of_blocks_eq (by rw [addView_blocks]; rfl))⟩

theorem peek_typed {cfg : Cfg} {st : Bool} {s s' : Mem} {id : Nat} {b b' : Buf} {n : Int} (hc : Core cfg st s) (hb : BufOK cfg s b)
    (h : peek cfg s id b n = some (s', b')) : Tri cfg st s s' b' := by
  unfold peek at h
  split at h
  · cases h; exact Tri.same hc hb
  · dsimp only at h
    split at h
    · cases h; exact Tri.same hc hb
    · split at h
      · cases h
      · rename_i b2 i nd hs
        obtain ⟨hn, h1, h2, _⟩ := isSingleNode_spec hs
        cases h
        have hc1 := setNode_core (i := i) (nd := { nd with exposed := true }) hc ((hc.node i nd hn).of_same rfl rfl rfl)
        exact ⟨Ext.of_blocks_eq (by rw [addView_blocks]; rfl), addView_core hc1,
          (hb.of_caches_eq h1 h2).ext (Ext.of_blocks_eq (by rw [addView_blocks]; rfl))⟩
      · rename_i b2 i nd hs
        obtain ⟨hn, h1, h2, _⟩ := isSingleNode_spec hs
        have hb3 : BufOK cfg s (b2.retirePeek n.toNat) := retirePeek_ok _ (hb.of_caches_eq h1 h2)
        split at h
        · rename_i blk l cp hp
          exact peekFill_typed (Ext.refl s) hc hb3 (hb3.peek blk l cp hp) h
        · obtain ⟨e1, c1, _, bl, g1, g2, g3⟩ := mallocMem_spec (cfg := cfg) (s := s) n.toNat hc
          exact peekFill_typed e1 c1 hb3 ⟨bl, g1, g2, g3⟩ h

theorem skip_typed {cfg : Cfg} {st : Bool} {s s' : Mem} {b b' : Buf} {n : Int} (hc : Core cfg st s) (hb : BufOK cfg s b)
    (h : skip s b n = some (s', b')) : Tri cfg st s s' b' := by
  unfold skip at h
  split at h
  · cases h; exact Tri.same hc hb
  · dsimp only at h
    split at h
    · cases h; exact Tri.same hc hb
    · obtain ⟨c2, k1, _, k3, k4⟩ := onReadSuffix_spec (fun l l' k => skipLoop_sz l _) hc h
      exact ⟨Ext.of_blocks_eq k1, c2, ((consumeLen_ok _ hb).of_caches_eq k3 k4).ext (Ext.of_blocks_eq k1)⟩

theorem readByte_typed {cfg : Cfg} {st : Bool} {s s' : Mem} {b b' : Buf} (hc : Core cfg st s) (hb : BufOK cfg s b)
    (h : readByte s b = some (s', b')) : Tri cfg st s s' b' := by
  unfold readByte at h
  split at h
  · cases h; exact Tri.same hc hb
  · obtain ⟨c2, k1, _, k3, k4⟩ := onReadSuffix_spec (fun l l' k => readByteLoop_sz l) hc h
    exact ⟨Ext.of_blocks_eq k1, c2, ((consumeLen_ok _ hb).of_caches_eq k3 k4).ext (Ext.of_blocks_eq k1)⟩

theorem untilIdx_typed {cfg : Cfg} {st : Bool} {s s' : Mem} {id : Nat} {b b' : Buf} {idx : Int} (hc : Core cfg st s) (hb : BufOK cfg s b)
    (h : untilIdx cfg s id b idx = some (s', b')) : Tri cfg st s s' b' := by
  unfold untilIdx at h
  split at h
  · cases h; exact Tri.same hc hb
  · exact next_typed hc hb h

theorem readBinary_typed {cfg : Cfg} {st : Bool} {s s' : Mem} {id : Nat} {b b' : Buf} {n : Int} (hc : Core cfg st s) (hb : BufOK cfg s b)
    (h : readBinary s id b n = some (s', b')) : Tri cfg st s s' b' := by
  unfold readBinary at h
  split at h
  · cases h; exact Tri.same hc hb
  · dsimp only at h
    split at h
    · cases h; exact Tri.same hc hb
    · have hb1 := consumeLen_ok (n.toNat) hb
      generalize b.consumeLen n.toNat = b1 at h hb1
      have e1 := allocBlock_ext s .gc n.toNat
      have c1 := allocBlock_core (cfg := cfg) .gc n.toNat hc
      obtain ⟨bl, g1, g2, _⟩ := allocBlock_get s .gc n.toNat
      have hnodes : (s.allocBlock .gc n.toNat).1.nodes = s.nodes := by simp [Mem.allocBlock]
      generalize s.allocBlock .gc n.toNat = p at h e1 c1 g1 hnodes
      obtain ⟨s1, blk⟩ := p
      simp only at h e1 c1 g1 hnodes
      have hk : bl.kind ≠ .caller := by rw [g2]; decide
      split at h
      · cases h
      · rename_i b2 i nd hs
        obtain ⟨hn, h1, h2, _⟩ := isSingleNode_spec hs
        cases h
        have c2 := setNode_core (i := i) (nd := { nd with off := nd.off + n.toNat }) c1
          ((c1.node i nd (by rw [hnodes]; exact hn)).of_same rfl rfl rfl)
        have c3 := emit_core (e := .write blk 0 n.toNat) c2 (evOK_write (s := s1.setNode i _) g1 hk)
        exact ⟨e1.trans (Ext.of_blocks_eq (by rw [addView_blocks]; rfl)), addView_core c3,
          ((hb1.of_caches_eq h1 h2).ext e1).ext (Ext.of_blocks_eq (by rw [addView_blocks]; rfl))⟩
      · rename_i b2 i nd hs
        obtain ⟨hn, h1, h2, _⟩ := isSingleNode_spec hs
        split at h
        · cases h
        · rename_i s2 b3 ho
          cases h
          obtain ⟨c2, k1, k2, k3, k4⟩ := onReadSuffix_spec (fun l l' k => nextLoop_sz l _) c1 ho
          have c3 := emit_core (e := .write blk 0 n.toNat) c2 (evOK_write (by rw [k1]; exact g1) hk)
          have e2 : Ext s1 ((s2.emit (.write blk 0 n.toNat)).addView (some blk) 0 n.toNat id true) :=
            Ext.of_blocks_eq (by rw [addView_blocks]; exact k1)
          exact ⟨e1.trans e2, addView_core c3, (((hb1.of_caches_eq h1 h2).ext e1).of_caches_eq k3 k4).ext e2⟩

theorem freeCaches_spec {cfg : Cfg} {st : Bool} : ∀ (l : List Nat) {s : Mem}, Core cfg st s → (∀ blk ∈ l, ∃ cp : Nat, CacheOK cfg s blk cp) →
    Ext s (freeCaches cfg s l) ∧ Core cfg st (freeCaches cfg s l)
  | [], s, hc, _ => ⟨Ext.refl s, hc⟩
  | blk :: rest, s, hc, h => by
    unfold freeCaches
    obtain ⟨cp, bl, g1, g2, g3⟩ := h blk List.mem_cons_self
    have hcap : s.blockCap blk = bl.cap := by unfold Mem.blockCap; rw [g1]
    rw [hcap]
    have c1 : Core cfg st (s.freeMem cfg (some blk) bl.cap) :=
      freeMem_core hc (fun b hb => by cases hb; exact ⟨bl, g1, by rw [g2]; exact g3⟩)
    have e1 := freeMem_ext cfg s (some blk) bl.cap
    obtain ⟨e2, c2⟩ := freeCaches_spec rest c1 (fun x hx => by
      obtain ⟨cp', hh⟩ := h x (List.mem_cons_of_mem _ hx); exact ⟨cp', hh.ext e1⟩)
    exact ⟨e1.trans e2, c2⟩

theorem releaseCore_typed {cfg : Cfg} {st : Bool} {s s' : Mem} {b b' : Buf} (hc : Core cfg st s) (hb : BufOK cfg s b)
    (h : releaseCore cfg s b = some (s', b')) : Tri cfg st s s' b' := by
  unfold releaseCore at h
  split at h
  · cases h
  · split at h
    · cases h
    · split at h
      · cases h
      · split at h
        · cases h
        · rename_i s1 hr
          cases h
          obtain ⟨e1, c1⟩ := releaseAll_spec _ hc hr
          obtain ⟨e2, c2⟩ := freeCaches_spec b.caches c1 (fun x hx => by
            obtain ⟨cp, hh⟩ := hb.caches x hx; exact ⟨cp, hh.ext e1⟩)
          have e12 := e1.trans e2
          cases hp : b.cachePeek with
          | none => exact ⟨e12, c2, BufOK.empty rfl rfl⟩
          | some q =>
            obtain ⟨blk, l, cp⟩ := q
            simp only
            have c3 : Core cfg st ((freeCaches cfg s1 b.caches).freeMem cfg (some blk) cp) :=
              freeMem_core c2 (fun x hx => by cases hx; exact ((hb.peek blk l cp hp).ext e12).blkOK)
            exact ⟨e12.trans (freeMem_ext _ _ _ _), c3, BufOK.empty rfl rfl⟩

theorem endViews_ext (s : Mem) (o : Nat) : Ext s (s.endViews o) := Ext.of_blocks_eq rfl

theorem release_typed {cfg : Cfg} {st : Bool} {s s' : Mem} {id : Nat} {b b' : Buf} (hc : Core cfg st s) (hb : BufOK cfg s b)
    (h : release cfg s id b = some (s', b')) : Tri cfg st s s' b' := by
  unfold release at h
  split at h
  · cases h
  · rename_i s1 b1 hr
    cases h
    obtain ⟨e1, c1, hb1⟩ := releaseCore_typed hc hb hr
    exact ⟨e1.trans (endViews_ext _ _), endViews_core c1, hb1.ext (endViews_ext _ _)⟩

end Netpoll.Buf.Own
