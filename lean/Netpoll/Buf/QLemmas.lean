import Netpoll.Buf.Loops
/-
Facts about the abstract queue (lists of (byte, flushed?) entries) used by the refinement proofs.
-/
namespace Netpoll.Buf

variable {α : Type}

/-- `readOK` and `n ≤ Len`: the first `n` entries exist and are flushed -/
theorem stream_of_readOK (l : List (α × Bool)) (n : Nat)
    (h : (l.dropWhile (·.2)).all (! ·.2) = true) (hn : n ≤ (l.filter (·.2)).length) :
    n ≤ l.length ∧ ∀ x ∈ l.take n, x.2 = true := by
  induction l generalizing n with
  | nil => simp at hn; subst hn; simp
  | cons x xs ih =>
    cases n with
    | zero => simp
    | succ m =>
      cases hx : x.2 with
      | true =>
        simp only [List.dropWhile_cons, hx, if_true] at h
        simp only [List.filter_cons, hx, if_true, List.length_cons] at hn
        obtain ⟨a, b⟩ := ih m h (by omega)
        refine ⟨by simp; omega, ?_⟩
        intro y hy
        simp only [List.take_succ_cons, List.mem_cons] at hy
        rcases hy with rfl | hy
        · exact hx
        · exact b y hy
      | false =>
        exfalso
        simp only [List.dropWhile_cons, hx] at h
        have hall : ∀ y ∈ x :: xs, y.2 = false := by simpa using h
        have : (x :: xs).filter (·.2) = [] := by
          apply List.filter_eq_nil_iff.2
          intro y hy; simp [hall y hy]
        rw [this] at hn; simp at hn

theorem Q.stream (q : Q α) (n : Nat) (h : q.readOK = true) (hn : n ≤ q.len) :
    n ≤ q.items.length ∧ ∀ x ∈ q.items.take n, x.2 = true :=
  stream_of_readOK q.items n h hn

/-- dropping `n` flushed leading entries -/
theorem drop_flushed (l : List (α × Bool)) (n : Nat) (h : ∀ x ∈ l.take n, x.2 = true) (hn : n ≤ l.length) :
    ((l.drop n).filter (·.2)).length = (l.filter (·.2)).length - n ∧
    (l.drop n).filter (! ·.2) = l.filter (! ·.2) ∧
    ((l.drop n).filter (·.2)).map (·.1) = ((l.filter (·.2)).map (·.1)).drop n ∧
    (l.take n).map (·.1) = ((l.filter (·.2)).map (·.1)).take n := by
  have h1 : (l.take n).filter (·.2) = l.take n := List.filter_eq_self.2 (by simpa using h)
  have h2 : (l.take n).filter (! ·.2) = [] := by
    apply List.filter_eq_nil_iff.2; intro y hy; simp [h y hy]
  have hl : (l.take n).length = n := by simp [hn]
  have e : l.filter (·.2) = l.take n ++ (l.drop n).filter (·.2) := by
    conv => lhs; rw [← List.take_append_drop n l]
    rw [List.filter_append, h1]
  have e' : l.filter (! ·.2) = (l.drop n).filter (! ·.2) := by
    conv => lhs; rw [← List.take_append_drop n l]
    rw [List.filter_append, h2]; simp
  refine ⟨?_, e'.symm, ?_, ?_⟩
  · rw [e]; simp [hn]
  · rw [e, List.map_append, List.drop_left' (by simp [hn])]
  · rw [e, List.map_append, List.take_left' (by simp [hn])]

/-- on a `readOK` queue the leading flushed bytes are all the flushed bytes -/
theorem takeWhile_eq_filter_of_readOK (l : List (α × Bool)) (h : (l.dropWhile (·.2)).all (! ·.2) = true) :
    l.takeWhile (·.2) = l.filter (·.2) := by
  induction l with
  | nil => rfl
  | cons x xs ih =>
    cases hx : x.2 with
    | true =>
      simp only [List.dropWhile_cons, hx, if_true] at h
      simp [hx, ih h]
    | false =>
      simp only [List.dropWhile_cons, hx] at h
      have hall : ∀ y ∈ x :: xs, y.2 = false := by simpa using h
      have : (x :: xs).filter (·.2) = [] := by
        apply List.filter_eq_nil_iff.2
        intro y hy; simp [hall y hy]
      rw [this]; simp [hx]

theorem Q.leadBytes_eq_flushedBytes (q : Q α) (h : q.readOK = true) : q.leadBytes = q.flushedBytes := by
  simp only [Q.leadBytes, Q.flushedBytes]
  rw [takeWhile_eq_filter_of_readOK q.items h]

/-- appending entries keeps the leading flushed entries as a prefix -/
theorem takeWhile_prefix_append (l l' : List (α × Bool)) :
    l.takeWhile (·.2) <+: (l ++ l').takeWhile (·.2) := by
  induction l with
  | nil => simp
  | cons x xs ih =>
    cases hx : x.2 with
    | true =>
      simp only [List.cons_append, List.takeWhile_cons, hx, if_true]
      exact List.prefix_cons_inj x |>.2 ih
    | false => simp [hx]

theorem leadBytes_prefix_append (q : Q α) (l' : List (α × Bool)) (c : List α) (h : c <+: q.leadBytes) :
    c <+: ((q.items ++ l').takeWhile (·.2)).map (·.1) :=
  List.IsPrefix.trans h (List.IsPrefix.map _ (takeWhile_prefix_append q.items l'))

/-- marking everything flushed keeps the leading flushed bytes as a prefix -/
theorem leadBytes_prefix_all (q : Q α) (c : List α) (h : c <+: q.leadBytes) :
    c <+: ((q.items.map fun x => (x.1, true)).takeWhile (·.2)).map (·.1) := by
  have e : (q.items.map fun x => (x.1, true)).takeWhile (·.2) = q.items.map fun x => (x.1, true) := by
    generalize q.items = l
    induction l with
    | nil => rfl
    | cons x xs ih => simp [ih]
  rw [e, List.map_map]
  have : (q.items.map ((fun x => x.1) ∘ fun x => (x.1, true))) = q.items.map (·.1) := by
    apply List.map_congr_left; intro a _; rfl
  rw [this]
  refine List.IsPrefix.trans h ?_
  simp only [Q.leadBytes]
  exact List.IsPrefix.map _ (List.takeWhile_prefix _)

end Netpoll.Buf
