import Netpoll.Buf.Step
/-
Counterexamples found while proving the refinement: why `Contract` (Spec.lean) needed three more
clauses than it had when the dynamic check (`Driver/LbSpec.lean`) was written.  The correspondence
generator (`go/inpkg/lb.go`) already respected all three, so the dynamic check never saw them.
Each example is a closed computation on the model (`by decide`).
-/
namespace Netpoll.Buf.Counterex

def cfg : Cfg := {}

/-- (1) "No read between Append and Flush."  With reads only required to be `!dead && readOK`:
receiver `b` empty, donor holding one flushed byte; `Append` (in contract), `ReadByte` (queue is
`[(7, flushed)]`, so `readOK`; the model returns the byte the spec prescribes), `Release`
(`!dead`) – and `Release` panics: `read` has moved behind `flush`, the loop
`for b.read != b.flush && b.read.Len() == 0 { b.read = b.read.next }` runs off the chain
(nil dereference in the Go code as well). -/
example :
    (do
      let (d, _) ← (newLB cfg 0 : LB Nat).malloc cfg 1 [7]
      let (d, _) ← d.flush cfg
      let (b, _, _) ← (newLB cfg 0 : LB Nat).writeBuffer d
      let (b, r) ← b.readByte
      pure (r, b.r, b.f, b.release.isNone)) = some (.bytes [7], 2, 0, true) := by decide

/-- the spec side of (1): every call is inside the contract as first written -/
example :
    let qd : Q Nat := { items := [(7, true)] }
    let q1 := (specAppend ({} : Q Nat) qd).1
    appendContract ({} : Q Nat) qd = true ∧ (!q1.dead && q1.readOK) = true ∧
      (specStep q1 .readByte).2 matches .exact (.bytes [7]) ∧ q1.appSinceFlush = true := by decide

/-- (2) `Malloc(n)` filled with a slice of another length: `MallocLen()` and the queue disagree.
(The model writes `d` into the slice `Malloc(n)` returned, so `d.length = n` is part of the
meaning of the operation; the clause was missing in `Contract`.) -/
example :
    ((newLB cfg 0 : LB Nat).malloc cfg 5 []).map (·.1.mallocSize) = some 5 ∧
    (specStep ({} : Q Nat) (.malloc 5 [])).1.mallocLen = 0 := by decide

/-- (3) A slice whose capacity parameter is below its length (impossible in Go, expressible in
`Op`): `WriteBinary` of 5 bytes "with cap 0" makes a node with `malloc > cap`; after `Flush` and a
`Malloc`, `WriteDirect` splitting at that node evaluates `origin.buf[:malloc]` beyond the capacity. -/
example :
    let c : Cfg := { inplace := 4 }
    (do
      let (b, _) ← (newLB c 0 : LB Nat).writeBinary c [1, 2, 3, 4, 5] 0
      let (b, _) ← b.flush c
      let (b, _) ← b.malloc c 2 [6, 7]
      pure (b.writeDirect c [9] 1 2).isNone) = some true := by decide

end Netpoll.Buf.Counterex
