/-!
# Descriptor ownership ledger (property C15)

Model of every place where package netpoll (linux build) obtains, hands over or closes a file
descriptor number, written function by function after the Go code:

* `sysSocket` (sys_exec.go), `socket` (net_sock.go), `netFD.dial/connect` (net_netfd.go, only its
  error returns matter here), `dialTCP` with its self-connect retry loop (net_tcpsock.go),
  `unixSocket` (net_unixsock.go);
* `netFD.Close` (net_netfd_conn.go: `closed` counter, `detaching`, the `fd > 2` test) and the copy of the
  `netFD` *value* into the connection (`connection.initNetFD`), `connection.init/onPrepare/register`,
  the finalizer close callback (`initFinalizer`), `Detach`;
* `listener.Accept`, `CreateListener`, `ConvertListener`, `parseFD`, `listener.Close` (net_listener.go);
* `openDefaultPoll`, the `Wait` loop and the exit branch of `handler` (poll_default_linux.go).

A lifecycle is a program in the small effect monad `M`: its only effects are the descriptor events
(`opn` – the kernel hands out a number, `adopt` – the caller hands one over, `rel` – netpoll hands one
back without closing (Detach), `cls` – a `close(2)` is issued at a named call site), `at` (execution
passes a call site that only forwards to another close function) and `choose` (an outcome netpoll does
not control: a system call failing, a user callback closing the connection, how often and in which order
user goroutines / the poller call `Close`, `Detach`, ...).  Every `if err != nil` of the Go code that
lies between two descriptor events is a `choose`, so the set of runs of a program is the set of all
paths through the Go code including every error branch.

`G`/`gstep` below compose any number of lifecycle instances with an adversary that may open any free
number and close its own numbers between any two events (concurrent open/close on other goroutines,
which is what makes a stale number dangerous).

Everything here is core Lean and executable (the driver `npdriver fd` runs it).
-/
namespace Netpoll.Fd

abbrev Fd := Nat

/-- Close call sites of package netpoll (linux build).  The list and its order are tied to the source by
`Netpoll.Tie.Fd` (extracted by tools/extract on every run).  `descr` = (file, function, kind, call). -/
inductive Site
  | finalizer_netfdClose    -- connection_impl.go  initFinalizer (closure)   c.netFD.Close()
  | createListener_ln       -- net_listener.go     CreateListener            ln.Close()   (since the fix of F1)
  | listener_Close_file     -- net_listener.go     listener.Close            ln.file.Close()
  | listener_Close_ln       -- net_listener.go     listener.Close            ln.ln.Close()
  | netFD_Close             -- net_netfd_conn.go   netFD.Close               syscall.Close(c.fd)
  | socket_sockopts         -- net_sock.go         socket                    syscall.Close(fd)
  | socket_dial_netfdClose  -- net_sock.go         socket                    netfd.Close()
  | dialTCP_retry_connClose -- net_tcpsock.go      sysDialer.dialTCP         conn.Close()
  | server_Close_ln         -- netpoll_server.go   server.Close              s.ln.Close()
  | server_Close_conn       -- netpoll_server.go   server.Close (closure)    value.(Connection).Close()
  | openPoll_eventfd_epfd   -- poll_default_linux.go openDefaultPoll         syscall.Close(poll.fd)
  | openPoll_ctl_wfd        -- poll_default_linux.go openDefaultPoll         syscall.Close(poll.wop.FD)
  | openPoll_ctl_epfd       -- poll_default_linux.go openDefaultPoll         syscall.Close(poll.fd)
  | handler_exit_wfd        -- poll_default_linux.go defaultPoll.handler     syscall.Close(p.wop.FD)
  | handler_exit_epfd       -- poll_default_linux.go defaultPoll.handler     syscall.Close(p.fd)
  | sysSocket_setNonblock   -- sys_exec.go         sysSocket                 syscall.Close(s)
  /-- only in the code before the fix of D15 (kept for the regression witness) -/
  | listener_Close_rawfd    -- net_listener.go     listener.Close            syscall.Close(ln.fd)
  deriving DecidableEq, Repr, Inhabited

def Site.descr : Site → String × String × String × String
  | .finalizer_netfdClose    => ("connection_impl.go", "connection.initFinalizer", "netfd", "c.netFD.Close()")
  | .createListener_ln       => ("net_listener.go", "CreateListener", "netlistener", "ln.Close()")
  | .listener_Close_file     => ("net_listener.go", "listener.Close", "osfile", "ln.file.Close()")
  | .listener_Close_ln       => ("net_listener.go", "listener.Close", "netlistener", "ln.ln.Close()")
  | .netFD_Close             => ("net_netfd_conn.go", "netFD.Close", "syscall", "syscall.Close(c.fd)")
  | .socket_sockopts         => ("net_sock.go", "socket", "syscall", "syscall.Close(fd)")
  | .socket_dial_netfdClose  => ("net_sock.go", "socket", "netfd", "netfd.Close()")
  | .dialTCP_retry_connClose => ("net_tcpsock.go", "sysDialer.dialTCP", "netfd", "conn.Close()")
  | .server_Close_ln         => ("netpoll_server.go", "server.Close", "netlistener", "s.ln.Close()")
  | .server_Close_conn       => ("netpoll_server.go", "server.Close", "netconn", "value.(Connection).Close()")
  | .openPoll_eventfd_epfd   => ("poll_default_linux.go", "openDefaultPoll", "syscall", "syscall.Close(poll.fd)")
  | .openPoll_ctl_wfd        => ("poll_default_linux.go", "openDefaultPoll", "syscall", "syscall.Close(poll.wop.FD)")
  | .openPoll_ctl_epfd       => ("poll_default_linux.go", "openDefaultPoll", "syscall", "syscall.Close(poll.fd)")
  | .handler_exit_wfd        => ("poll_default_linux.go", "defaultPoll.handler", "syscall", "syscall.Close(p.wop.FD)")
  | .handler_exit_epfd       => ("poll_default_linux.go", "defaultPoll.handler", "syscall", "syscall.Close(p.fd)")
  | .sysSocket_setNonblock   => ("sys_exec.go", "sysSocket", "syscall", "syscall.Close(s)")
  | .listener_Close_rawfd    => ("net_listener.go", "listener.Close", "syscall", "syscall.Close(ln.fd)")

/-- source order (file, position) – the order of the extracted list -/
def Site.ord : Site → Nat
  | .finalizer_netfdClose => 0 | .createListener_ln => 1 | .listener_Close_rawfd => 2 | .listener_Close_file => 3
  | .listener_Close_ln => 4 | .netFD_Close => 5 | .socket_sockopts => 6 | .socket_dial_netfdClose => 7
  | .dialTCP_retry_connClose => 8 | .server_Close_ln => 9 | .server_Close_conn => 10 | .openPoll_eventfd_epfd => 11
  | .openPoll_ctl_wfd => 12 | .openPoll_ctl_epfd => 13 | .handler_exit_wfd => 14 | .handler_exit_epfd => 15
  | .sysSocket_setNonblock => 16

def Site.name : Site → String
  | .finalizer_netfdClose => "finalizer_netfdClose" | .createListener_ln => "createListener_ln"
  | .listener_Close_file => "listener_Close_file"
  | .listener_Close_ln => "listener_Close_ln" | .netFD_Close => "netFD_Close" | .socket_sockopts => "socket_sockopts"
  | .socket_dial_netfdClose => "socket_dial_netfdClose" | .dialTCP_retry_connClose => "dialTCP_retry_connClose"
  | .server_Close_ln => "server_Close_ln" | .server_Close_conn => "server_Close_conn"
  | .openPoll_eventfd_epfd => "openPoll_eventfd_epfd" | .openPoll_ctl_wfd => "openPoll_ctl_wfd"
  | .openPoll_ctl_epfd => "openPoll_ctl_epfd" | .handler_exit_wfd => "handler_exit_wfd"
  | .handler_exit_epfd => "handler_exit_epfd" | .sysSocket_setNonblock => "sysSocket_setNonblock"
  | .listener_Close_rawfd => "listener_Close_rawfd"

/-- Points where the outcome is not netpoll's decision.  `true` is always the "no error / yes" outcome. -/
inductive Br
  -- sysSocket / socket / dial
  | socket_ok            -- syscall.Socket succeeded
  | setNonblock_ok       -- syscall.SetNonblock(s, true) in sysSocket succeeded
  | sockopts_ok          -- setDefaultSockopts succeeded
  | dial_bind_ok         -- laddr.sockaddr / syscall.Bind succeeded
  | dial_connect_ok      -- immediate result of syscall.Connect is not an error (nil, EISCONN, EINPROGRESS ...)
  | dial_ctx_ok          -- ctx not done after an immediate connect
  | dial_wait_ok         -- pd.WaitWrite: registered, and woken by writability (not: register failed, hup, ctx done)
  | dial_soerror_ok      -- getsockopt(SO_ERROR) worked and reports success
  | selfConnect          -- dialTCP: the connection connected to itself
  | spuriousENOTAVAIL    -- dialTCP: error was EADDRNOTAVAIL
  | unix_precheck_ok     -- unixSocket: known network, addresses present
  -- connection
  | prepare_closes       -- the user's OnPrepare closed the connection
  | register_ok          -- Control(PollReadable) in connection.register succeeded
  | conn_more            -- another connection-level action happens (else: the connection is left alone)
  | conn_detach          -- the action is `Detach()` writing `detaching = true`
  | conn_viaServer       -- the close callbacks are reached through server.Close
  | accept_ok            -- syscall.Accept returned a descriptor
  -- listener
  | listen_udp           -- CreateListener: network is udp*
  | listen_ok            -- net.Listen succeeded
  | ln_isNetpollListener -- ConvertListener: argument already is a netpoll Listener
  | ln_typeSupported     -- parseFD: *net.TCPListener or *net.UnixListener
  | ln_file_ok           -- netln.File() succeeded (dup)
  | ln_setNonblock_ok    -- syscall.SetNonblock(ln.fd, true) succeeded
  | ln_more              -- another call of listener.Close happens
  | ln_viaServer         -- that call comes from server.Close
  -- poller
  | epollCreate_ok | eventfd_ok | ctlAdd_ok
  | epollWait_ok         -- EpollWait did not fail (other than EINTR)
  | poll_more            -- the wake-up was not the close request (buf[0] == 0), loop again
  deriving DecidableEq, Repr, Inhabited

/-- The effect monad of a lifecycle.  `tag` is a ghost name for the Go object that holds the number. -/
inductive M (α : Type) : Type
  | ret (a : α)
  | opn (tag : Nat) (k : Fd → M α)
  | adopt (fd : Fd) (tag : Nat) (k : M α)
  | rel (fd : Fd) (tag : Nat) (k : M α)
  | cls (fd : Fd) (tag : Nat) (site : Site) (k : M α)
  | at (site : Site) (k : M α)
  | choose (l : Br) (k : Bool → M α)

namespace M
def bind : M α → (α → M β) → M β
  | ret a, f => f a
  | opn t k, f => opn t (fun n => bind (k n) f)
  | adopt fd t k, f => adopt fd t (bind k f)
  | rel fd t k, f => rel fd t (bind k f)
  | cls fd t s k, f => cls fd t s (bind k f)
  | «at» s k, f => «at» s (bind k f)
  | choose l k, f => choose l (fun b => bind (k b) f)

instance : Monad M where
  pure := ret
  bind := bind

def open_ (tag : Nat) : M Fd := opn tag ret
def adopt_ (fd : Fd) (tag : Nat) : M Unit := adopt fd tag (ret ())
def release (fd : Fd) (tag : Nat) : M Unit := rel fd tag (ret ())
def close (fd : Fd) (tag : Nat) (s : Site) : M Unit := cls fd tag s (ret ())
def visit (s : Site) : M Unit := «at» s (ret ())
def ask (l : Br) : M Bool := choose l ret
end M
open M

/-! ## netFD -/

/-- net_netfd.go `netFD` – the fields that decide about the descriptor. -/
structure NetFD where
  fd : Fd
  tag : Nat
  closed : Nat := 0
  detaching : Bool := false
  deriving Repr, DecidableEq

/-- net_netfd_conn.go `netFD.Close`:
```
if atomic.AddUint32(&c.closed, 1) != 1 { return nil }
if atomic.LoadInt32(&c.detaching) == 0 && c.fd > 2 { err = syscall.Close(c.fd) ... }
```
(`detaching` is an atomic int32 since the fix of D14; before it was a plain bool – same logic.)
When `detaching` is set the number is deliberately left open: the caller of `Detach` takes it over
(ghost event `rel`).  A number ≤ 2 is neither closed nor handed over. -/
def NetFD.close (c : NetFD) : M NetFD :=
  let c' := { c with closed := c.closed + 1 }
  if c'.closed != 1 then pure c'
  else if !c.detaching && c.fd > 2 then do M.close c.fd c.tag .netFD_Close; pure c'
  else if c.detaching then do release c.fd c.tag; pure c'
  else pure c'

/-! ## sysSocket, socket, dial -/

/-- sys_exec.go `sysSocket` -/
def sysSocket (tag : Nat) : M (Option Fd) := do
  if !(← ask .socket_ok) then return none            -- syscall.Socket failed: nothing opened
  let s ← open_ tag
  if !(← ask .setNonblock_ok) then
    close s tag .sysSocket_setNonblock                -- syscall.Close(s)
    return none
  return some s

/-- net_netfd.go `netFD.dial` + `connect`: returns whether it succeeded.  No descriptor is opened or closed
on any of its paths (the poll descriptor only registers `c.fd` with an existing epoll instance); the retry
loop of `connect` only repeats `dial_wait_ok` / `dial_soerror_ok`. -/
def netFDdial : M Bool := do
  if !(← ask .dial_bind_ok) then return false
  if ← ask .dial_connect_ok then
    -- nil / EISCONN → done unless ctx is done;  EINPROGRESS → wait
    if !(← ask .dial_ctx_ok) then return false
  if !(← ask .dial_wait_ok) then return false
  if !(← ask .dial_soerror_ok) then return false
  return true

/-- net_sock.go `socket` -/
def socket (tag : Nat) : M (Option NetFD) := do
  let some fd ← sysSocket tag | return none
  if !(← ask .sockopts_ok) then
    close fd tag .socket_sockopts                     -- syscall.Close(fd)
    return none
  let netfd : NetFD := { fd := fd, tag := tag }       -- newNetFD
  if !(← netFDdial) then
    visit .socket_dial_netfdClose                     -- netfd.Close()
    let _ ← netfd.close
    return none
  return some netfd

/-- net_tcpsock.go `dialTCP`: `internetSocket` then at most two retries
`for i := 0; i < 2 && ... && (selfConnect(conn, err) || spuriousENOTAVAIL(err)); i++`. -/
def dialTCPretry : Nat → Nat → Option NetFD → M (Option NetFD)
  | 0, _, r => pure r
  | left+1, tag, some conn => do
    if ← ask .selfConnect then
      visit .dialTCP_retry_connClose                  -- conn.Close()
      let _ ← conn.close
      let r ← socket tag
      dialTCPretry left (tag+1) r
    else pure (some conn)
  | left+1, tag, none => do
    if ← ask .spuriousENOTAVAIL then
      let r ← socket tag
      dialTCPretry left (tag+1) r
    else pure none

def dialTCP : M (Option NetFD) := do
  let r ← socket 0
  dialTCPretry 2 1 r

/-- net_unixsock.go `dialUnix` → `unixSocket` → `socket` -/
def dialUnix : M (Option NetFD) := do
  if !(← ask .unix_precheck_ok) then return none
  socket 0

/-! ## connection -/

/-- connection_impl.go `initFinalizer`'s callback, descriptor part: `c.netFD.Close()` -/
def finalizer (c : NetFD) : M NetFD := do
  visit .finalizer_netfdClose
  c.close

/-- What happens to a connection after `init`, as far as its descriptor is concerned.  The connection-level
protocol (who runs the close callbacks, and that they run once – property C05) is deliberately NOT assumed:
the close callbacks may run any number of times, `Detach` may write `detaching` at any moment, in any order
(each `choose`).  `ran` is a ghost: the callbacks have run at least once.  A connection counts as closed
(the lifecycle is complete) only when they have, so at the end they run if they have not yet.

Two `netFD.Close` calls racing on the same value serialise: exactly one sees the counter at 1 and reads
`detaching` once, so every real interleaving of closers and the `Detach` writer equals one of the sequential
orders generated here. -/
def connEnd (ran : Bool) (c : NetFD) : M Unit :=
  if ran then pure () else do
    if ← ask .conn_viaServer then visit .server_Close_conn     -- value.(Connection).Close()
    let _ ← finalizer c
    pure ()

def connLoop : Nat → Bool → NetFD → M Unit
  | 0, ran, c => connEnd ran c
  | fuel+1, ran, c => do
    if !(← ask .conn_more) then connEnd ran c
    else if ← ask .conn_detach then
      connLoop fuel ran { c with detaching := true }  -- Detach(): c.detaching = true
    else do
      if ← ask .conn_viaServer then visit .server_Close_conn   -- value.(Connection).Close()
      let c ← finalizer c
      connLoop fuel true c

/-- connection_impl.go `init` (→ `initNetFD` copies the netFD VALUE: `c.netFD = *nfd`; from here on only the
copy is used, the original is dropped by every caller) → `onPrepare` (user callback may close) →
`register` (failure ⇒ `c.Close()`), then the connection's life. -/
def connInit (fuel : Nat) (orig : NetFD) : M Unit := do
  let c : NetFD := orig                               -- the copy, with its own `closed` counter
  if ← ask .prepare_closes then
    let c ← finalizer c
    connLoop fuel true c
  else if !(← ask .register_ok) then
    let c ← finalizer c                               -- register failed → c.Close()
    connLoop fuel true c
  else connLoop fuel false c

/-- `DialConnection("tcp")` → `dialTCP` → `newTCPConnection` -/
def lifeDialTCP (fuel : Nat) : M Unit := do
  let some conn ← dialTCP | return ()
  connInit fuel conn

def lifeDialUnix (fuel : Nat) : M Unit := do
  let some conn ← dialUnix | return ()
  connInit fuel conn

/-- net_listener.go `listener.Accept` (syscall.Accept) → netpoll_server.go `onAccept` → `init` -/
def lifeAccepted (fuel : Nat) : M Unit := do
  if !(← ask .accept_ok) then return ()
  let fd ← open_ 0
  connInit fuel { fd := fd, tag := 0 }

/-- What the application does with the `net.Conn` that `listener.Accept` returns (a bare `*netFD`, no connection
object around it): it calls `Close` directly, any number of times, from any goroutines – e.g. the reader and the
writer goroutine both after an I/O error.  The calls serialise on the `closed` counter (one atomic
read-modify-write decides, tied to the source by `Netpoll.Tie.Fd.netFD_close_decided_by_one_rmw`), so every real
interleaving equals one of the sequential orders generated here.  The `net.Conn` counts as closed when `Close` has
been called at least once (`ran`). -/
def userCloseLoop : Nat → Bool → NetFD → M Unit
  | 0, ran, c => if ran then pure () else do let _ ← c.close; pure ()
  | fuel+1, ran, c => do
    if !(← ask .conn_more) then (if ran then pure () else do let _ ← c.close; pure ())
    else do
      let c ← c.close
      userCloseLoop fuel true c

/-- net_listener.go `listener.Accept` (syscall.Accept, `nfd := &netFD{}; nfd.fd = fd`) used as a plain
`net.Listener`: the `*netFD` goes to the application as a `net.Conn` -/
def lifeAcceptConn (fuel : Nat) : M Unit := do
  if !(← ask .accept_ok) then return ()
  let fd ← open_ 0
  userCloseLoop fuel false { fd := fd, tag := 0 }

/-- net_dialer.go `NewFDConnection(fd)`: the caller's descriptor is adopted -/
def lifeFDConn (fd : Fd) (fuel : Nat) : M Unit := do
  adopt_ fd 0
  connInit fuel { fd := fd, tag := 0 }

/-! ## listener -/

/-- `*os.File`: `Close` is guarded by the file itself (second call returns ErrClosed without a syscall) -/
structure OsFile where
  fd : Fd
  tag : Nat
  closed : Bool := false
  deriving Repr, DecidableEq

def OsFile.close (f : OsFile) (s : Site) : M OsFile :=
  if f.closed then pure f else do M.close f.fd f.tag s; pure { f with closed := true }

/-- net_listener.go `listener`: `fd` is the raw number (`int(ln.file.Fd())`), `file` the duplicate's owner,
`ln` the wrapped `net.Listener` (its `Close` is guarded by package net). -/
structure Listener where
  fd : Fd := 0
  file : Option OsFile := none
  ln : Option OsFile := none
  deriving Repr, DecidableEq

/-- `listener.Close` after the fix of D15 -/
def Listener.close (l : Listener) : M Listener := do
  let file ← match l.file with
    | some f => do let f ← f.close .listener_Close_file; pure (some f)   -- ln.file.Close()
    | none => pure none
  let ln ← match l.ln with
    | some w => do let w ← w.close .listener_Close_ln; pure (some w)     -- ln.ln.Close()
    | none => pure none
  pure { l with file := file, ln := ln }

/-- `listener.Close` BEFORE the fix (D15): the raw number is closed first, then its owner closes it again.
`rawTag` is the object the raw close believes it is closing (the duplicate). -/
def Listener.closeOld (l : Listener) (rawTag : Nat) : M Listener := do
  if l.fd != 0 then M.close l.fd rawTag .listener_Close_rawfd                -- syscall.Close(ln.fd)
  l.close

def lnEnd (close : Listener → M Listener) (ran : Bool) (l : Listener) : M Unit :=
  if ran then pure () else do
    if ← ask .ln_viaServer then visit .server_Close_ln                     -- s.ln.Close()
    let _ ← close l
    pure ()

/-- `listener.Close` may be called any number of times (server.Close, the user's own deferred Close, ...);
the listener counts as closed when it has been called at least once. -/
def lnCloseLoop (close : Listener → M Listener) : Nat → Bool → Listener → M Unit
  | 0, ran, l => lnEnd close ran l
  | fuel+1, ran, l => do
    if !(← ask .ln_more) then lnEnd close ran l
    else do
      if ← ask .ln_viaServer then visit .server_Close_ln                   -- s.ln.Close()
      let l ← close l
      lnCloseLoop close fuel true l

/-- `ConvertListener(l)` body from the duplicate on: `parseFD` (`File()` duplicates the descriptor, tag 1),
then `return ln, syscall.SetNonblock(ln.fd, true)`.  `w` is the wrapped listener.  Result: the listener and
whether the error is nil.  On a SetNonblock failure the caller gets BOTH a listener and an error;
`CreateListener` passes that on, `eventLoop.Serve` drops the listener. -/
def convertTail (w : OsFile) : M (Option (Listener × Bool)) := do
  if !(← ask .ln_file_ok) then return none            -- netln.File() failed
  let d ← open_ 1
  let ln : Listener := { fd := d, file := some { fd := d, tag := 1 }, ln := some w }
  let ok ← ask .ln_setNonblock_ok
  return some (ln, ok)

/-- `ConvertListener(l)` on a listener the caller created (descriptor `lfd`), then `Close` calls.  The wrapped
listener becomes netpoll's to close (ghost `adopt`) only when ConvertListener returns without error. -/
def lifeConvertListener (lfd : Fd) (fuel : Nat) : M Unit := do
  if ← ask .ln_isNetpollListener then return ()       -- `l.(Listener)`: returned as is, no new object
  if !(← ask .ln_typeSupported) then return ()        -- "listener type can't support"
  let some (ln, ok) ← convertTail { fd := lfd, tag := 0 } | return ()
  if !ok then return ()                               -- listener dropped by the caller: the duplicate stays open
  adopt_ lfd 0
  lnCloseLoop Listener.close fuel false ln

/-- `CreateListener(network, addr)`, then `Close` calls.  `net.Listen` returns a TCP or Unix listener, so the
two type tests of ConvertListener are decided.  Since the fix of F1 an error of `ConvertListener` is followed by
`ln.Close()` on what `net.Listen` opened (`File()` failed: nothing else is open; `SetNonblock` failed: the
listener object with the duplicate is dropped, the duplicate stays open) and `return nil, err`. -/
def lifeCreateListenerWith (close : Listener → M Listener) (fuel : Nat) : M Unit := do
  if ← ask .listen_udp then return ()
  if !(← ask .listen_ok) then return ()
  let lfd ← open_ 0                                   -- net.Listen
  let w : OsFile := { fd := lfd, tag := 0 }
  match ← convertTail w with
  | none =>                                           -- File() failed
    let _ ← w.close .createListener_ln                -- ln.Close()
    return ()
  | some (ln, ok) =>
    if !ok then
      let _ ← w.close .createListener_ln              -- ln.Close(); the duplicate is NOT closed
      return ()
    lnCloseLoop close fuel false ln

def lifeCreateListener (fuel : Nat) : M Unit := lifeCreateListenerWith Listener.close fuel

/-- the same with the old `Close` (regression witness for D15) -/
def lifeCreateListenerOld (fuel : Nat) : M Unit := lifeCreateListenerWith (fun l => l.closeOld 1) fuel

/-- `CreateListener` BEFORE the fix of F1 (`return ConvertListener(ln)`): an error of `ConvertListener` is passed
on and what `net.Listen` opened is dropped without being closed.  Only for the regression witness. -/
def lifeCreateListenerPreF1 (fuel : Nat) : M Unit := do
  if ← ask .listen_udp then return ()
  if !(← ask .listen_ok) then return ()
  let lfd ← open_ 0
  let some (ln, ok) ← convertTail { fd := lfd, tag := 0 } | return ()
  if !ok then return ()
  lnCloseLoop Listener.close fuel false ln

/-! ## poller -/

structure Poll where
  fd : Fd       -- epoll descriptor (tag 0)
  wfd : Fd      -- eventfd, `wop.FD` (tag 1)
  deriving Repr, DecidableEq

/-- poll_default_linux.go `openDefaultPoll` -/
def openDefaultPoll : M (Option Poll) := do
  if !(← ask .epollCreate_ok) then return none
  let p ← open_ 0
  if !(← ask .eventfd_ok) then
    close p 0 .openPoll_eventfd_epfd                  -- _ = syscall.Close(poll.fd)
    return none
  let w ← open_ 1
  if !(← ask .ctlAdd_ok) then
    close w 1 .openPoll_ctl_wfd                       -- _ = syscall.Close(poll.wop.FD)
    close p 0 .openPoll_ctl_epfd                      -- _ = syscall.Close(poll.fd)
    return none
  return some { fd := p, wfd := w }

/-- `Wait` loop + `handler`'s wake-up branch.  A poller counts as closed when its `Close()` request has been
seen by the loop (`buf[0] > 0`), which closes both descriptors and ends `Wait`; `EpollWait` failing with
anything but EINTR ends `Wait` WITHOUT closing them. -/
def pollExit (p : Poll) : M Unit := do
  if !(← ask .epollWait_ok) then return ()            -- return err: descriptors stay open
  close p.wfd 1 .handler_exit_wfd                     -- syscall.Close(p.wop.FD)
  close p.fd 0 .handler_exit_epfd                     -- syscall.Close(p.fd)

def pollLoop (p : Poll) : Nat → M Unit
  | 0 => pollExit p
  | fuel+1 => do
    if !(← ask .epollWait_ok) then return ()
    if ← ask .poll_more then pollLoop p fuel else pollExit p

def lifePoller (fuel : Nat) : M Unit := do
  let some p ← openDefaultPoll | return ()
  pollLoop p fuel

/-! ## the family of lifecycles -/

inductive Kind
  | dialTCP (fuel : Nat)
  | dialUnix (fuel : Nat)
  | accepted (fuel : Nat)
  | acceptConn (fuel : Nat)
  | fdConn (fd : Fd) (fuel : Nat)
  | createListener (fuel : Nat)
  | convertListener (lfd : Fd) (fuel : Nat)
  | poller (fuel : Nat)
  deriving Repr, DecidableEq

def Kind.prog : Kind → M Unit
  | .dialTCP f => lifeDialTCP f
  | .dialUnix f => lifeDialUnix f
  | .accepted f => lifeAccepted f
  | .acceptConn f => lifeAcceptConn f
  | .fdConn fd f => lifeFDConn fd f
  | .createListener f => lifeCreateListener f
  | .convertListener lfd f => lifeConvertListener lfd f
  | .poller f => lifePoller f

/-- Outcomes assumed not to happen when claiming that nothing is left open (DESIGN §8 / evidence):
* `ln_setNonblock_ok`: `SetNonblock` failing inside `ConvertListener` (after the duplicate was made) leaves the
  duplicate to the garbage collector's finalizer: `ConvertListener` returns the listener AND the error, every
  caller drops the listener;
* `epollWait_ok`: `epoll_wait` on a valid epoll descriptor only fails with EINTR.
`File()` failing needs no assumption any more (fix of F1: `CreateListener` closes what `net.Listen` opened).
Nothing is assumed for `C15_close_owned` / `C15_once`. -/
def noLeakAssumptions : Br → Option Bool
  | .ln_setNonblock_ok => some true
  | .epollWait_ok => some true
  | _ => none

def noAssumptions : Br → Option Bool := fun _ => none

/-! ## global composition with an adversary -/

inductive Owner
  | env                         -- somebody else in the process (other goroutines, the caller)
  | np (inst : Nat) (tag : Nat) -- object `tag` of lifecycle instance `inst`
  deriving DecidableEq, Repr

inductive Ev
  | npOpen (fd : Fd) (inst tag : Nat)
  | npAdopt (fd : Fd) (inst tag : Nat)
  | npRel (fd : Fd) (inst tag : Nat) (was : Option Owner)
  | npClose (fd : Fd) (inst tag : Nat) (site : Site) (was : Option Owner)  -- `was`: the ledger cell at that instant
  | npAt (inst : Nat) (site : Site)
  | npChoice (inst : Nat) (l : Br) (b : Bool)
  | envOpen (fd : Fd)
  | envClose (fd : Fd)
  deriving DecidableEq, Repr

abbrev Ledger := Fd → Option Owner

def Ledger.set (l : Ledger) (fd : Fd) (v : Option Owner) : Ledger := fun x => if x = fd then v else l x

structure G where
  led : Ledger
  insts : List (M Unit)
  trace : List Ev            -- newest first

inductive Move
  | spawn (p : M Unit)               -- a lifecycle starts
  | step (i : Nat) (n : Fd) (b : Bool) -- instance `i` performs its next effect (`n`: the kernel's choice if it
                                     -- opens, `b`: the outcome if it is a choice)
  | envOpen (n : Fd)                 -- another goroutine is given the free number n
  | envClose (n : Fd)                -- another goroutine closes its number n

/-- Descriptors 0–2 are never handed to netpoll (they stay open for the life of the process). -/
def gstep (A : Br → Option Bool) (g : G) : Move → Option G
  | .spawn p => some { g with insts := g.insts ++ [p] }
  | .envOpen n => if g.led n = none then some { g with led := g.led.set n (some .env), trace := .envOpen n :: g.trace } else none
  | .envClose n => if g.led n = some .env then some { g with led := g.led.set n none, trace := .envClose n :: g.trace } else none
  | .step i n b =>
    match g.insts[i]? with
    | none => none
    | some (.ret _) => none
    | some (.opn tag k) =>
      if 2 < n ∧ g.led n = none then
        some { led := g.led.set n (some (.np i tag)), insts := g.insts.set i (k n), trace := .npOpen n i tag :: g.trace }
      else none
    | some (.adopt fd tag k) =>
      if 2 < fd ∧ g.led fd = some .env then
        some { led := g.led.set fd (some (.np i tag)), insts := g.insts.set i k, trace := .npAdopt fd i tag :: g.trace }
      else none
    | some (.rel fd tag k) =>
      some { led := if g.led fd = some (.np i tag) then g.led.set fd (some .env) else g.led,
             insts := g.insts.set i k, trace := .npRel fd i tag (g.led fd) :: g.trace }
    | some (.cls fd tag s k) =>
      -- close(2) acts on whatever is behind the number at that instant
      some { led := g.led.set fd none, insts := g.insts.set i k, trace := .npClose fd i tag s (g.led fd) :: g.trace }
    | some (.at s k) => some { g with insts := g.insts.set i k, trace := .npAt i s :: g.trace }
    | some (.choose l k) =>
      if A l = none ∨ A l = some b then
        some { g with insts := g.insts.set i (k b), trace := .npChoice i l b :: g.trace }
      else none

def run (A : Br → Option Bool) (g : G) (ms : List Move) : Option G := ms.foldlM (gstep A) g

/-- initial state: any set of numbers may already be open elsewhere in the process -/
def G.init (envOpen : Fd → Bool) : G :=
  { led := fun n => if envOpen n then some .env else none, insts := [], trace := [] }

def isDone : M Unit → Bool
  | .ret _ => true
  | _ => false

def G.allDone (g : G) : Bool := g.insts.all isDone

/-! ## the specification as monitors over the observable trace

`Obs` is what can be observed of an execution without looking into netpoll (strace + the harness announcing
its own opens and closes): who (netpoll or not) opened / closed which number, in order. -/

inductive Obs
  | npOpen (fd : Fd)      -- netpoll is given the number (socket, accept, dup, epoll_create, eventfd, adoption)
  | npClose (fd : Fd)     -- netpoll issues close(fd)
  | npRel (fd : Fd)       -- netpoll hands the number back (Detach)
  | envOpen (fd : Fd)
  | envClose (fd : Fd)
  deriving DecidableEq, Repr

def Ev.obs : Ev → Option Obs
  | .npOpen fd _ _ => some (.npOpen fd)
  | .npAdopt fd _ _ => some (.npOpen fd)
  | .npRel fd _ _ _ => some (.npRel fd)
  | .npClose fd _ _ _ _ => some (.npClose fd)
  | .envOpen fd => some (.envOpen fd)
  | .envClose fd => some (.envClose fd)
  | _ => none

inductive Cell
  | free | np | env
  deriving DecidableEq, Repr

/-- monitor state per number: who holds it, and whether netpoll's last own action on it was a close -/
structure Mon where
  cell : Fd → Cell
  npClosedLast : Fd → Bool

def Mon.init (envOpen : Fd → Bool) : Mon :=
  { cell := fun n => if envOpen n then .env else .free, npClosedLast := fun _ => false }

def upd {β : Type} (f : Fd → β) (fd : Fd) (v : β) : Fd → β := fun x => if x = fd then v else f x

inductive Verdict
  | ok
  | notOwned (fd : Fd) (was : Cell) (twice : Bool)  -- netpoll closed / released a number it does not own at that
                                                    -- moment; `twice`: its own previous action on it was a close
  | inconsistent (fd : Fd)                          -- the observation itself is impossible (open of an open number ...)
  deriving DecidableEq, Repr

def Verdict.isOk : Verdict → Bool
  | .ok => true
  | _ => false

/-- one step of the monitor: `(new state, verdict for this event)` -/
def Mon.step (m : Mon) : Obs → Mon × Verdict
  | .npOpen fd =>
    ({ cell := upd m.cell fd .np, npClosedLast := upd m.npClosedLast fd false },
     if m.cell fd = .np then .inconsistent fd else .ok)   -- (adoption: the number was env's)
  | .npClose fd =>
    ({ cell := upd m.cell fd .free, npClosedLast := upd m.npClosedLast fd true },
     if m.cell fd = .np then .ok else .notOwned fd (m.cell fd) (m.npClosedLast fd))
  | .npRel fd =>
    ({ m with cell := upd m.cell fd (if m.cell fd = .np then .env else m.cell fd) },
     if m.cell fd = .np then .ok else .notOwned fd (m.cell fd) (m.npClosedLast fd))
  | .envOpen fd =>
    ({ m with cell := upd m.cell fd .env }, if m.cell fd = .free then .ok else .inconsistent fd)
  | .envClose fd =>
    ({ m with cell := upd m.cell fd .free }, if m.cell fd = .env then .ok else .inconsistent fd)

/-- run the monitor over a trace given oldest first: final state and all verdicts (newest first) -/
def monitor (m : Mon) (os : List Obs) : Mon × List Verdict :=
  os.foldl (fun (st : Mon × List Verdict) o => let r := st.1.step o; (r.1, r.2 :: st.2)) (m, [])

/-- C15 first half as a predicate on observable traces: every close netpoll issues hits a number it owns -/
def closeOwnedOK (envOpen : Fd → Bool) (os : List Obs) : Bool :=
  (monitor (Mon.init envOpen) os).2.all Verdict.isOk

/-- "exactly once" on its own, independent of the ledger: netpoll never closes a number again unless it was
given that number again in between -/
def onceStep (st : (Fd → Bool) × Bool) : Obs → (Fd → Bool) × Bool
  | .npOpen fd => (upd st.1 fd false, st.2)
  | .npClose fd => (upd st.1 fd true, st.2 && !st.1 fd)
  | _ => st

def onceOK (os : List Obs) : Bool := (os.foldl onceStep (fun _ => false, true)).2

def Obs.fd : Obs → Fd
  | .npOpen fd | .npClose fd | .npRel fd | .envOpen fd | .envClose fd => fd

/-- numbers netpoll still owns after the trace -/
def leftOpen (envOpen : Fd → Bool) (os : List Obs) : List Fd :=
  (os.map Obs.fd).eraseDups.filter (fun fd => (monitor (Mon.init envOpen) os).1.cell fd = .np)

def noneLeftOK (envOpen : Fd → Bool) (os : List Obs) : Bool := (leftOpen envOpen os).isEmpty

/-- observable trace of a global state, oldest first -/
def G.obs (g : G) : List Obs := g.trace.reverse.filterMap Ev.obs

/-! ## which close sites the lifecycles reach (for the tie with the extracted site list) -/

/-- sites passed on any path of a program, exploring both outcomes of every choice and letting the kernel hand
out 3, 4, 5, ...; `d` bounds the number of effects per path.  The result is a bit set indexed by `Site.ord`
(accumulator `acc`). -/
def sitesOf : Nat → Fd → M Unit → Nat → Nat
  | 0, _, _, acc => acc
  | _+1, _, .ret _, acc => acc
  | d+1, n, .opn _ k, acc => sitesOf d (n+1) (k n) acc
  | d+1, n, .adopt _ _ k, acc => sitesOf d n k acc
  | d+1, n, .rel _ _ k, acc => sitesOf d n k acc
  | d+1, n, .cls _ _ s k, acc => sitesOf d n k (acc ||| (1 <<< s.ord))
  | d+1, n, .at s k, acc => sitesOf d n k (acc ||| (1 <<< s.ord))
  | d+1, n, .choose _ k, acc => sitesOf d n (k false) (sitesOf d n (k true) acc)

/-- every site of the enumeration in source order -/
def Site.all : List Site :=
  [.finalizer_netfdClose, .createListener_ln, .listener_Close_rawfd, .listener_Close_file, .listener_Close_ln, .netFD_Close, .socket_sockopts,
   .socket_dial_netfdClose, .dialTCP_retry_connClose, .server_Close_ln, .server_Close_conn, .openPoll_eventfd_epfd,
   .openPoll_ctl_wfd, .openPoll_ctl_epfd, .handler_exit_wfd, .handler_exit_epfd, .sysSocket_setNonblock]

/-- one representative of every kind of lifecycle (fuel ≤ 1: at most one optional extra action) -/
def Kind.representatives : List Kind :=
  [.dialTCP 0, .dialUnix 0, .accepted 1, .acceptConn 1, .fdConn 100 0, .createListener 1, .convertListener 100 1, .poller 1]

/-- the close sites reached by the lifecycles of the (fixed) code, in source order -/
def coveredSites : List Site :=
  let seen := Kind.representatives.foldl (fun acc k => sitesOf 64 3 k.prog acc) 0
  Site.all.filter (fun s => seen.testBit s.ord)

end Netpoll.Fd
